package main

import (
	"bytes"
	"errors"
	"fmt"
	"io"
	"math/big"
	"os"
	"runtime"
	"sort"
	"strconv"
	"strings"
	"sync"
	"sync/atomic"
	"time"

	multiproof "github.com/crate-crypto/go-ipa"
	"github.com/crate-crypto/go-ipa/bandersnatch"
	"github.com/crate-crypto/go-ipa/bandersnatch/fp"
	"github.com/crate-crypto/go-ipa/bandersnatch/fr"
	"github.com/crate-crypto/go-ipa/banderwagon"
	"github.com/crate-crypto/go-ipa/common"
	"github.com/crate-crypto/go-ipa/common/parallel"
	"github.com/crate-crypto/go-ipa/ipa"
)

var batchRepeat = func() int {
	n, _ := strconv.Atoi(os.Getenv("VERIF_BATCH_REPEAT"))
	return n
}()

var (
	cfgOnce sync.Once
	cfg     *ipa.IPAConfig
	genMul  []banderwagon.Element // genMul[k] = k·G built by repeated addition
	genMu   sync.Mutex
)

func config() *ipa.IPAConfig {
	cfgOnce.Do(func() {
		c, err := ipa.NewIPASettings()
		if err != nil {
			panic(err)
		}
		cfg = c
	})
	return cfg
}

// genMultiple returns k·G computed with Add only (never ScalarMul).
func genMultiple(k int) banderwagon.Element {
	genMu.Lock()
	defer genMu.Unlock()
	if len(genMul) == 0 {
		genMul = append(genMul, banderwagon.Identity)
	}
	for len(genMul) <= k {
		var n banderwagon.Element
		g := banderwagon.Generator
		n.Add(&genMul[len(genMul)-1], &g)
		genMul = append(genMul, n)
	}
	return genMul[k]
}

// execLine runs one self-contained case against the real code and returns its canonical output.
// Failed property assertions are appended as " !ASSERT[...]" (which can never equal a model output).
func execLine(line string) (out string) {
	defer func() {
		if r := recover(); r != nil {
			out = fmt.Sprintf("PANIC %v", r)
		}
	}()
	f := strings.Split(strings.TrimSpace(line), " ")
	var fails []string
	var res string
	switch {
	case f[0] == "ranges" && len(f) == 3:
		res = opRanges(&fails, atoi(f[1]), atoi(f[2]))
	case f[0] == "rangesd" && len(f) == 3:
		if runtime.NumCPU() != atoi(f[2]) {
			res = "cpu-mismatch"
		} else {
			res = opRanges(&fails, atoi(f[1]), -1)
		}
	case f[0] == "trpair" && len(f) == 5:
		res = opTrPair(&fails, f)
	case f[0] == "commit.lin" && len(f) == 6:
		res = opCommitLin(&fails, f)
	case f[0] == "batchfail" && len(f) == 3:
		res = opBatchFail(&fails, f[1], atoi(f[2]))
	case f[0] == "fr.dec" && len(f) == 3:
		res = opFrDec(&fails, f[1], mustUnhex(f[2]))
	case f[0] == "fr.bin" && len(f) == 3:
		res = opFrBin(&fails, frFromHexBE(f[1]), frFromHexBE(f[2]))
	case f[0] == "fr.bin2" && len(f) == 3:
		res = opFrBin2(&fails, frFromHexBE(f[1]), frFromHexBE(f[2]))
	case f[0] == "fr.un" && len(f) == 2:
		res = opFrUn(&fails, frFromHexBE(f[1]))
	case f[0] == "fr.batchinv" && len(f) == 2:
		res = opFrBatchInv(&fails, f[1])
	case f[0] == "tr" && len(f) == 3:
		res = opTr(&fails, mustUnhex(f[1]), f[2])
	case f[0] == "pt.dec" && len(f) == 2:
		res = opPtDec(&fails, mustUnhex(f[1]))
	case f[0] == "pt.decunc" && len(f) == 3:
		res = opPtDecUnc(&fails, mustUnhex(f[1]), f[2] == "1")
	case f[0] == "fp.sqrt" && len(f) == 2:
		res = opFpSqrt(&fails, fpFromHexBE(f[1]))
	case f[0] == "pt.fromx" && len(f) == 3:
		res = opFromX(&fails, fpFromHexBE(f[1]), f[2] == "1")
	case f[0] == "fp.hist" && len(f) == 4:
		// a point recovery followed, in the same process, by a square root: results must not depend on the history
		res = opFromX(&fails, fpFromHexBE(f[1]), f[2] == "1") + " " + opFpSqrt(&fails, fpFromHexBE(f[3]))
	case f[0] == "grp" && len(f) == 2:
		res = opGrp(&fails, f[1], false)
	case f[0] == "batch" && len(f) == 2:
		res = opGrp(&fails, f[1], true)
	case f[0] == "commit" && len(f) == 2:
		res = opCommit(&fails, f[1])
	case f[0] == "ptab" && len(f) == 4:
		res = opPtab(&fails, atoi(f[1]), atoi(f[2]), atoi(f[3]))
	case f[0] == "msm" && len(f) == 5:
		res = opMsm(&fails, atoi(f[1]), f[2] == "1", f[3], f[4])
	case f[0] == "msmc" && len(f) == 5:
		res = opMsmC(&fails, atoi(f[1]), f[2] == "1", f[3], f[4])
	case f[0] == "ipa" && len(f) == 4:
		res = opIpa(&fails, mustUnhex(f[1]), f[2], frFromHexBE(f[3]))
	case f[0] == "ipav" && len(f) == 8:
		res = opIpaVerify(&fails, f)
	case f[0] == "mp" && len(f) == 3:
		res = opMp(&fails, mustUnhex(f[1]), f[2])
	case f[0] == "mpv" && len(f) == 9:
		res = opMpVerify(&fails, f)
	case f[0] == "serde" && len(f) == 5:
		res = opSerde(&fails, f, false)
	case f[0] == "serde.ipa" && len(f) == 5:
		res = opSerde(&fails, f, true)
	case (f[0] == "rdpt" || f[0] == "rdsc") && len(f) == 5:
		res = opReadField(&fails, f)
	case f[0] == "bary.eval" && len(f) == 3:
		res = opBaryEval(&fails, f[1], frFromHexBE(f[2]))
	case f[0] == "bary.coeffs" && len(f) == 2:
		z := frFromHexBE(f[1])
		res = vecHex(config().PrecomputedWeights.ComputeBarycentricCoefficients(z))
	case f[0] == "bary.div" && len(f) == 3:
		res = opBaryDiv(&fails, atoi(f[1]), f[2])
	case f[0] == "bary.tables" && len(f) == 1:
		b, i := ipa.VerifWeights(config().PrecomputedWeights)
		res = vecHex(b) + " " + vecHex(i)
	default:
		res = "bad-op"
	}
	if len(fails) > 0 {
		res += " !ASSERT[" + strings.Join(fails, "; ") + "]"
	}
	return res
}

// execLineTimed adds a watchdog: a case that does not finish is reported as TIMEOUT.
// After three timeouts the remaining cases are not started any more (a hanging implementation
// would otherwise cost the watchdog period per case); they are reported as skipped.
var timeouts atomic.Int32

func execLineTimed(line string, limit time.Duration) string {
	if timeouts.Load() >= 3 {
		return "SKIPPED-AFTER-TIMEOUTS"
	}
	ch := make(chan string, 1)
	go func() { ch <- execLine(line) }()
	select {
	case s := <-ch:
		return s
	case <-time.After(limit):
		timeouts.Add(1)
		return "TIMEOUT"
	}
}

// ---------------------------------------------------------------- C20

func opRanges(fails *[]string, n, m int) string {
	var mu sync.Mutex
	type rg struct{ s, e int }
	var got []rg
	var started, finished int64
	seed := uint64(n*1000003 + m)
	sm := &splitmix{seed}
	delays := make([]time.Duration, 0, 8)
	for i := 0; i < 8; i++ {
		delays = append(delays, time.Duration(sm.next()%200)*time.Microsecond)
	}
	slow := (n+m)%17 == 0 // a fraction of the cases sleeps inside work
	var mArgs []int
	if m >= 0 {
		mArgs = []int{m}
	}
	parallel.Execute(n, func(s, e int) {
		k := atomic.AddInt64(&started, 1)
		if slow {
			time.Sleep(delays[int(k)%len(delays)])
		}
		mu.Lock()
		got = append(got, rg{s, e})
		mu.Unlock()
		atomic.AddInt64(&finished, 1)
	}, mArgs...)
	st, fi := atomic.LoadInt64(&started), atomic.LoadInt64(&finished)
	assertf(fails, st == fi, "Execute returned with %d of %d invocations finished", fi, st)
	mu.Lock()
	defer mu.Unlock()
	sort.Slice(got, func(i, j int) bool {
		if got[i].s != got[j].s {
			return got[i].s < got[j].s
		}
		return got[i].e < got[j].e
	})
	out := make([]string, len(got))
	for i, g := range got {
		out[i] = fmt.Sprintf("%d-%d", g.s, g.e)
	}
	return joinWith(",", out)
}

// ---------------------------------------------------------------- C16 / C15

func opFrDec(fails *[]string, kind string, data []byte) string {
	orig := append([]byte(nil), data...)
	dec := func(buf []byte) (fr.Element, bool) {
		e := fr.MinusOne() // a reused receiver: every limb non-zero beforehand
		switch kind {
		case "be":
			e.SetBytes(buf)
		case "le":
			e.SetBytesLE(buf)
		case "lecanon":
			if _, err := e.SetBytesLECanonical(buf); err != nil {
				return e, false
			}
		default:
			panic("kind")
		}
		return e, true
	}
	buf := append([]byte(nil), data...)
	e1, ok1 := dec(buf)
	assertf(fails, bytes.Equal(buf, orig), "decoder %s modified its input: %x -> %x", kind, orig, buf)
	e2, ok2 := dec(buf)
	assertf(fails, ok1 == ok2 && e1.Equal(&e2), "decoding the same buffer twice differs (%s)", kind)
	// not even a transient write: the same input from read-only memory
	var e3 fr.Element
	var ok3 bool
	wrote := withReadOnly(orig, func(ro []byte) { e3, ok3 = dec(ro) })
	assertf(fails, !wrote, "decoder %s writes to its input (fault on a read-only buffer)", kind)
	if !wrote {
		assertf(fails, ok3 == ok1 && e3.Equal(&e1), "decoding from a read-only buffer differs (%s)", kind)
	}
	if !ok1 {
		return "err"
	}
	// round trips
	be := e1.Bytes()
	le := e1.BytesLE()
	var r1, r2 fr.Element
	r1.SetBytes(append([]byte(nil), be[:]...))
	r2.SetBytesLE(append([]byte(nil), le[:]...))
	assertf(fails, r1.Equal(&e1), "SetBytes(Bytes(s)) != s")
	assertf(fails, r2.Equal(&e1), "SetBytesLE(BytesLE(s)) != s")
	var r3 fr.Element
	_, err := r3.SetBytesLECanonical(append([]byte(nil), le[:]...))
	assertf(fails, err == nil && r3.Equal(&e1), "SetBytesLECanonical(BytesLE(s)) != s")
	return frHex(&e1)
}

func reduced(e *fr.Element) bool {
	var raw big.Int
	e.ToBigInt(&raw)
	return raw.Cmp(rMod) < 0
}

func opFrBin(fails *[]string, a, b fr.Element) string {
	type bin struct {
		name string
		api  func(z, x, y *fr.Element)
		gen  func(z, x, y *fr.Element)
	}
	ops := []bin{
		{"add", func(z, x, y *fr.Element) { z.Add(x, y) }, fr.VerifAddGeneric},
		{"sub", func(z, x, y *fr.Element) { z.Sub(x, y) }, fr.VerifSubGeneric},
		{"mul", func(z, x, y *fr.Element) { z.Mul(x, y) }, fr.VerifMulGeneric},
	}
	var outs []string
	for _, op := range ops {
		var z fr.Element
		x, y := a, b
		op.api(&z, &x, &y)
		assertf(fails, x == a && y == b, "%s modified an operand", op.name)
		assertf(fails, reduced(&z), "%s result not reduced", op.name)
		// receiver aliases first / second operand
		x1, y1 := a, b
		op.api(&x1, &x1, &y1)
		assertf(fails, x1 == z, "%s with receiver = first operand differs", op.name)
		x2, y2 := a, b
		op.api(&y2, &x2, &y2)
		assertf(fails, y2 == z, "%s with receiver = second operand differs", op.name)
		if a == b {
			x3 := a
			op.api(&x3, &x3, &x3)
			assertf(fails, x3 == z, "%s with all three aliased differs", op.name)
		}
		// portable path
		var g fr.Element
		x4, y4 := a, b
		op.gen(&g, &x4, &y4)
		assertf(fails, g == z, "%s: generic path differs from assembly path", op.name)
		x5, y5 := a, b
		op.gen(&x5, &x5, &y5)
		assertf(fails, x5 == z, "%s: generic path aliased differs", op.name)
		// assembly without ADX
		old := fr.VerifSetSupportAdx(false)
		var n fr.Element
		x6, y6 := a, b
		op.api(&n, &x6, &y6)
		fr.VerifSetSupportAdx(old)
		assertf(fails, n == z, "%s: no-ADX path differs", op.name)
		outs = append(outs, frHex(&z))
	}
	// square agrees with mul(a,a)
	var sq, mm fr.Element
	sq.Square(&a)
	mm.Mul(&a, &a)
	assertf(fails, sq == mm, "Square != Mul(a,a)")
	// butterfly
	ba, bb := a, b
	fr.Butterfly(&ba, &bb)
	var s, d fr.Element
	s.Add(&a, &b)
	d.Sub(&a, &b)
	assertf(fails, ba == s && bb == d, "Butterfly != (a+b, a-b)")
	ga, gb := a, b
	fr.VerifButterflyGeneric(&ga, &gb)
	assertf(fails, ga == s && gb == d, "generic Butterfly != (a+b, a-b)")
	outs = append(outs, fmt.Sprintf("%d", a.Cmp(&b)))
	assertf(fails, a.Equal(&b) == (a.Cmp(&b) == 0), "Equal inconsistent with Cmp")
	return strings.Join(outs, " ")
}

func opFrBin2(fails *[]string, a, b fr.Element) string {
	var q fr.Element
	x, y := a, b
	q.Div(&x, &y)
	assertf(fails, x == a && y == b, "Div modified an operand")
	x1, y1 := a, b
	x1.Div(&x1, &y1)
	assertf(fails, x1 == q, "Div aliased differs")
	var e fr.Element
	e.Exp(a, frBig(&b))
	assertf(fails, reduced(&q) && reduced(&e), "Div/Exp not reduced")
	return frHex(&q) + " " + frHex(&e)
}

func opFrUn(fails *[]string, a fr.Element) string {
	var outs []string
	un := func(name string, api func(z, x *fr.Element), gen func(z, x *fr.Element)) fr.Element {
		var z fr.Element
		x := a
		api(&z, &x)
		assertf(fails, x == a, "%s modified its operand", name)
		assertf(fails, reduced(&z), "%s not reduced", name)
		x1 := a
		api(&x1, &x1)
		assertf(fails, x1 == z, "%s aliased differs", name)
		if gen != nil {
			var g fr.Element
			x2 := a
			gen(&g, &x2)
			assertf(fails, g == z, "%s: generic path differs", name)
			x3 := a
			gen(&x3, &x3)
			assertf(fails, x3 == z, "%s: generic aliased differs", name)
		}
		return z
	}
	neg := un("neg", func(z, x *fr.Element) { z.Neg(x) }, fr.VerifNegGeneric)
	dbl := un("double", func(z, x *fr.Element) { z.Double(x) }, fr.VerifDoubleGeneric)
	inv := un("inverse", func(z, x *fr.Element) { z.Inverse(x) }, nil)
	sq := un("square", func(z, x *fr.Element) { z.Square(x) }, func(z, x *fr.Element) { fr.VerifMulGeneric(z, x, x) })
	outs = append(outs, frHex(&neg), frHex(&dbl), frHex(&inv), frHex(&sq))
	x := a
	outs = append(outs, fmt.Sprintf("%d", x.Legendre()))
	assertf(fails, x == a, "Legendre modified its operand")
	// sqrt
	var root fr.Element
	root.SetUint64(77)
	keep := root
	r := root.Sqrt(&x)
	assertf(fails, x == a, "Sqrt modified its operand")
	if r == nil {
		assertf(fails, root == keep, "Sqrt changed the receiver although it returned nil")
		outs = append(outs, "nil")
	} else {
		var back fr.Element
		back.Square(&root)
		assertf(fails, back == a, "Sqrt result squared is not the input")
		var nr fr.Element
		nr.Neg(&root)
		c := root
		if frBig(&nr).Cmp(frBig(&root)) < 0 {
			c = nr
		}
		outs = append(outs, frHex(&c))
	}
	// the exact root the routine returns (the model mirrors the loop of the implementation)
	if r == nil {
		outs = append(outs, "nil")
	} else {
		outs = append(outs, frHex(&root))
	}
	for _, c := range []struct {
		f func(*fr.Element)
		k uint8
	}{{fr.MulBy3, 3}, {fr.MulBy5, 5}, {fr.MulBy13, 13}} {
		y := a
		c.f(&y)
		g := a
		fr.VerifMulByConstant(&g, c.k)
		assertf(fails, y == g, "MulBy%d: assembly and generic differ", c.k)
		assertf(fails, reduced(&y), "MulBy%d not reduced", c.k)
		outs = append(outs, frHex(&y))
	}
	// order-related predicates against the integer value (independent big.Int oracle)
	{
		ab := a.Bytes()
		va := new(big.Int).SetBytes(ab[:])
		halfR := new(big.Int).Rsh(new(big.Int).Sub(rMod, big.NewInt(1)), 1)
		x := a
		assertf(fails, x.LexicographicallyLargest() == (va.Cmp(halfR) > 0), "LexicographicallyLargest disagrees with value > (r-1)/2")
		var na fr.Element
		na.Neg(&a)
		assertf(fails, x.Cmp(&na) == va.Cmp(frBig(&na)), "Cmp(a, -a) disagrees with the integer comparison")
		assertf(fails, na.Cmp(&x) == frBig(&na).Cmp(va), "Cmp(-a, a) disagrees with the integer comparison")
		assertf(fails, x.IsZero() == (va.Sign() == 0), "IsZero disagrees with the value")
		assertf(fails, x == a, "a predicate modified its operand")
		reg := a
		reg.FromMont()
		assertf(fails, reg.IsUint64() == (reg[1]|reg[2]|reg[3] == 0), "IsUint64 disagrees with the limbs")
		assertf(fails, x.BitLen() == limbsBig(&a).BitLen(), "BitLen disagrees with the limb value")
		var dv, one fr.Element
		one.SetOne()
		dv.Div(&one, &a)
		var iv fr.Element
		iv.Inverse(&a)
		assertf(fails, dv == iv, "Div(1, a) != Inverse(a)")
		var tb big.Int
		a.ToBigIntRegular(&tb)
		assertf(fails, tb.Cmp(va) == 0, "ToBigIntRegular disagrees with Bytes")
		rr := a.ToRegular() // value receiver: returns the converted copy
		assertf(fails, rr == reg, "ToRegular differs from FromMont")
	}
	// Montgomery conversions and reduce
	m := a
	m.FromMont()
	g := a
	fr.VerifFromMontGeneric(&g)
	assertf(fails, m == g, "FromMont: assembly and generic differ")
	m.ToMont()
	assertf(fails, m == a, "ToMont(FromMont(a)) != a")
	le := a.BytesLE()
	be := a.Bytes()
	for i := 0; i < 32; i++ {
		assertf(fails, le[i] == be[31-i], "Bytes and BytesLE are not reverses")
	}
	outs = append(outs, hx(le[:]))
	return strings.Join(outs, " ")
}

// limbsBig is the integer the four limbs of the (Montgomery) representation spell
func limbsBig(e *fr.Element) *big.Int {
	v := new(big.Int)
	for i := 3; i >= 0; i-- {
		v.Lsh(v, 64)
		v.Or(v, new(big.Int).SetUint64(e[i]))
	}
	return v
}

func opFrBatchInv(fails *[]string, v string) string {
	var xs []fr.Element
	for _, s := range splitList(",", v) {
		xs = append(xs, frFromHexBE(s))
	}
	keep := copyElems(xs)
	res := fr.BatchInvert(xs)
	for i := range xs {
		assertf(fails, xs[i] == keep[i], "BatchInvert modified input %d", i)
		var single fr.Element
		single.Inverse(&keep[i])
		assertf(fails, i < len(res) && res[i] == single, "BatchInvert[%d] != Inverse", i)
	}
	return vecHex(res)
}

// ---------------------------------------------------------------- C14

func decodePoint(h string) banderwagon.Element {
	var p banderwagon.Element
	if err := p.SetBytes(mustUnhex(h)); err != nil {
		panic("harness: bad point in op line: " + h)
	}
	return p
}

// rerepresent returns the same group element in another representation chosen by k.
func rerepresent(p banderwagon.Element, k uint64) banderwagon.Element {
	x, y, z := banderwagon.VerifCoords(&p)
	if k&1 == 1 { // other member of the class
		x.Neg(&x)
		y.Neg(&y)
	}
	if k&2 == 2 { // projective rescaling
		var l fp.Element
		l.SetUint64(k*2654435761 + 12345)
		x.Mul(&x, &l)
		y.Mul(&y, &l)
		z.Mul(&z, &l)
	}
	return banderwagon.VerifFromCoords(x, y, z)
}

func opTr(fails *[]string, label []byte, ops string) string {
	run := func(variant uint64, reuse bool) []string {
		tr := common.NewTranscript(string(label))
		var outs []string
		// reuse: the caller keeps ONE point variable and ONE scalar variable and overwrites them
		// before every append (pointer identity of an argument must not matter)
		scratchP := new(banderwagon.Element)
		scratchS := new(fr.Element)
		for i, it := range splitList(";", ops) {
			f := strings.Split(it, ":")
			switch f[0] {
			case "d":
				lab := mustUnhex(f[1])
				tr.DomainSep(lab)
				for k := range lab { // the caller reuses its scratch buffer afterwards
					lab[k] ^= 0xA5
				}
			case "m":
				msg := mustUnhex(f[2])
				lab := mustUnhex(f[1])
				km, kl := append([]byte(nil), msg...), append([]byte(nil), lab...)
				tr.AppendMessage(msg, lab)
				assertf(fails, bytes.Equal(km, msg) && bytes.Equal(kl, lab), "AppendMessage modified its arguments")
				for k := range msg { // the caller reuses / wipes its buffers afterwards
					msg[k] = byte(k)
				}
				for k := range lab {
					lab[k] ^= 0x5A
				}
			case "s":
				s := frFromHexBE(f[2])
				keep := s
				if reuse {
					*scratchS = s
					tr.AppendScalar(scratchS, mustUnhex(f[1]))
					assertf(fails, *scratchS == keep, "AppendScalar modified the scalar")
				} else {
					tr.AppendScalar(&s, mustUnhex(f[1]))
					assertf(fails, s == keep, "AppendScalar modified the scalar")
				}
			case "p":
				p := rerepresent(decodePoint(f[2]), variant*uint64(i+1))
				keep := p
				if reuse {
					*scratchP = p
					tr.AppendPoint(scratchP, mustUnhex(f[1]))
					assertf(fails, *scratchP == keep, "AppendPoint modified the point")
				} else {
					tr.AppendPoint(&p, mustUnhex(f[1]))
					assertf(fails, p == keep, "AppendPoint modified the point")
				}
			case "c":
				lab := mustUnhex(f[1])
				c := tr.ChallengeScalar(lab)
				for k := range lab {
					lab[k] ^= 0x3C
				}
				le := c.BytesLE()
				outs = append(outs, hx(le[:]))
			default:
				panic("bad tr op")
			}
		}
		return outs
	}
	a := run(0, false)
	b := run(3, false) // same history, points in other representations
	assertf(fails, strings.Join(a, ",") == strings.Join(b, ","), "challenges depend on point representation or are not deterministic")
	c := run(0, true) // same history, the caller reuses one point variable and one scalar variable
	assertf(fails, strings.Join(a, ",") == strings.Join(c, ","), "challenges differ when the caller reuses one variable for successive points / scalars")
	return joinWith(",", a)
}

// ---------------------------------------------------------------- C06 / C17

func elemOut(p *banderwagon.Element) string {
	b := p.Bytes()
	u := p.BytesUncompressedTrusted()
	return "ok " + hx(b[:]) + " " + canonXYHex(u[:])
}

func opPtDec(fails *[]string, data []byte) string {
	orig := append([]byte(nil), data...)
	p := genMultiple(3) // a reused receiver
	err := p.SetBytes(data)
	assertf(fails, bytes.Equal(orig, data), "SetBytes modified its input")
	if len(data) == 32 {
		q, err2 := common.ReadPoint(bytes.NewReader(data))
		assertf(fails, (err == nil) == (err2 == nil), "ReadPoint and SetBytes disagree on acceptance")
		if err == nil && err2 == nil {
			assertf(fails, q.Equal(&p), "ReadPoint and SetBytes decode different elements")
		}
	}
	// the untrusted decision is a function of the bytes alone: it must not change after the
	// trusted decoder (which accepts by contract) has seen the same bytes, nor when repeated
	{
		var ro banderwagon.Element
		var errRO error
		wrote := withReadOnly(orig, func(b []byte) { errRO = ro.SetBytes(b) })
		assertf(fails, !wrote, "SetBytes writes to its input (fault on a read-only buffer)")
		if !wrote {
			assertf(fails, (errRO == nil) == (err == nil), "SetBytes from a read-only buffer decides differently")
		}
	}
	if len(data) == 32 {
		var t, again banderwagon.Element
		_ = t.SetBytesUnsafe(data)
		err3 := again.SetBytes(data)
		assertf(fails, (err == nil) == (err3 == nil), "SetBytes decides differently after SetBytesUnsafe saw the same bytes")
		if err == nil && err3 == nil {
			assertf(fails, again.Equal(&p), "SetBytes decodes a different element after SetBytesUnsafe saw the same bytes")
		}
		q2, err4 := common.ReadPoint(bytes.NewReader(data))
		assertf(fails, (err == nil) == (err4 == nil), "ReadPoint decides differently after SetBytesUnsafe saw the same bytes")
		if err == nil && err4 == nil {
			assertf(fails, q2.Equal(&p), "ReadPoint decodes a different element after SetBytesUnsafe saw the same bytes")
		}
	}
	if err != nil {
		return "err"
	}
	b := p.Bytes()
	assertf(fails, bytes.Equal(b[:], orig), "accepted encoding does not re-encode to the same bytes")
	assertf(fails, p.IsOnCurve(), "decoded point not on curve")
	// order divides r: r·P = identity (computed with the model-independent double-and-add on Add/Double)
	assertf(fails, orderDividesR(&p), "decoded point has order not dividing r")
	return elemOut(&p)
}

// orderDividesR computes r·P with plain double-and-add over Add/Double and compares with the identity.
func orderDividesR(p *banderwagon.Element) bool {
	acc := banderwagon.Identity
	for i := rMod.BitLen() - 1; i >= 0; i-- {
		acc.Double(&acc)
		if rMod.Bit(i) == 1 {
			acc.Add(&acc, p)
		}
	}
	id := banderwagon.Identity
	return acc.Equal(&id)
}

func opPtDecUnc(fails *[]string, data []byte, trusted bool) string {
	orig := append([]byte(nil), data...)
	p := genMultiple(3) // a reused receiver
	err := p.SetBytesUncompressed(data, trusted)
	assertf(fails, bytes.Equal(orig, data), "SetBytesUncompressed modified its input")
	{
		var ro banderwagon.Element
		var errRO error
		wrote := withReadOnly(orig, func(b []byte) { errRO = ro.SetBytesUncompressed(b, trusted) })
		assertf(fails, !wrote, "SetBytesUncompressed writes to its input (fault on a read-only buffer)")
		if !wrote {
			assertf(fails, (errRO == nil) == (err == nil), "SetBytesUncompressed from a read-only buffer decides differently")
		}
	}
	if !trusted {
		// history independence of the untrusted decision (trusted decoding of the same bytes in between)
		var t, again banderwagon.Element
		_ = t.SetBytesUncompressed(data, true)
		err3 := again.SetBytesUncompressed(data, false)
		assertf(fails, (err == nil) == (err3 == nil), "untrusted SetBytesUncompressed decides differently after the trusted path saw the same bytes")
		if err == nil && err3 == nil {
			assertf(fails, again.Equal(&p), "untrusted SetBytesUncompressed decodes a different element after the trusted path saw the same bytes")
		}
	}
	if err != nil {
		return "err"
	}
	if !trusted {
		u := p.BytesUncompressedTrusted()
		assertf(fails, bytes.Equal(u[:], orig), "accepted uncompressed encoding does not re-encode to the same bytes")
		assertf(fails, p.IsOnCurve(), "decoded point not on curve")
		assertf(fails, orderDividesR(&p), "decoded point has order not dividing r")
	}
	return elemOut(&p)
}

func fpCanon(y *fp.Element) string {
	var n fp.Element
	n.Neg(y)
	var a, b big.Int
	y.BigInt(&a)
	n.BigInt(&b)
	if b.Cmp(&a) < 0 {
		return be32(&b)
	}
	return be32(&a)
}

func opFpSqrt(fails *[]string, v fp.Element) string {
	keep := v
	r := fp.SqrtPrecomp(&v)
	assertf(fails, v == keep, "SqrtPrecomp modified its input")
	if r == nil {
		return "nil"
	}
	var sq fp.Element
	sq.Square(r)
	assertf(fails, sq == keep, "SqrtPrecomp result squared is not the input")
	return fpCanon(r)
}

func opFromX(fails *[]string, x fp.Element, largest bool) string {
	keep := x
	p := bandersnatch.GetPointFromX(&x, largest)
	assertf(fails, x == keep, "GetPointFromX modified x")
	if p == nil {
		return "nil"
	}
	assertf(fails, p.X == keep, "GetPointFromX changed the x coordinate")
	assertf(fails, p.IsOnCurve(), "GetPointFromX result not on curve")
	assertf(fails, p.Y.LexicographicallyLargest() == largest || p.Y.IsZero(), "GetPointFromX chose the wrong root")
	// the other request, then the same request again: history must not matter
	x2 := keep
	o := bandersnatch.GetPointFromX(&x2, !largest)
	x3 := keep
	again := bandersnatch.GetPointFromX(&x3, largest)
	if o == nil || again == nil {
		assertf(fails, false, "GetPointFromX: nil for one sign request but not the other / on repetition")
	} else {
		var neg fp.Element
		neg.Neg(&p.Y)
		assertf(fails, o.Y == neg, "GetPointFromX(!largest) is not the negated root")
		assertf(fails, again.Y == p.Y, "GetPointFromX not reproducible after a call with the other sign request")
	}
	return fpHex(&p.Y)
}

// ---------------------------------------------------------------- C07 / C08 / C11 / C19

type reg struct {
	e    *banderwagon.Element
	zero bool
}

func runProg(fails *[]string, prog string) []reg {
	var regs []reg
	get := func(s string) *banderwagon.Element {
		r := regs[atoi(s)]
		if r.zero || r.e == nil {
			panic("operand is not a valid element")
		}
		return r.e
	}
	bin := func(name string, a, b *banderwagon.Element, f func(z, x, y *banderwagon.Element)) *banderwagon.Element {
		ka, kb := *a, *b
		var z banderwagon.Element
		f(&z, a, b)
		assertf(fails, *a == ka && *b == kb, "%s modified an operand", name)
		x1, y1 := ka, kb
		f(&x1, &x1, &y1)
		assertf(fails, x1.Equal(&z) && x1.Bytes() == z.Bytes(), "%s with receiver = first operand differs", name)
		x2, y2 := ka, kb
		f(&y2, &x2, &y2)
		assertf(fails, y2.Equal(&z) && y2.Bytes() == z.Bytes(), "%s with receiver = second operand differs", name)
		if a == b {
			x3 := ka
			f(&x3, &x3, &x3)
			assertf(fails, x3.Equal(&z), "%s with all aliased differs", name)
		}
		// the result must not depend on what the receiver held before (normalised, projective,
		// identity representatives)
		for k, st := range staleReceivers() {
			f(&st, a, b)
			assertf(fails, st.Equal(&z) && st.Bytes() == z.Bytes(), "%s into a receiver holding stale value #%d differs", name, k)
		}
		assertf(fails, *a == ka && *b == kb, "%s modified an operand", name)
		return &z
	}
	un := func(name string, a *banderwagon.Element, f func(z, x *banderwagon.Element)) *banderwagon.Element {
		ka := *a
		var z banderwagon.Element
		f(&z, a)
		assertf(fails, *a == ka, "%s modified its operand", name)
		x1 := ka
		f(&x1, &x1)
		assertf(fails, x1.Equal(&z) && x1.Bytes() == z.Bytes(), "%s aliased differs", name)
		for k, st := range staleReceivers() {
			f(&st, a)
			assertf(fails, st.Equal(&z) && st.Bytes() == z.Bytes(), "%s into a receiver holding stale value #%d differs", name, k)
		}
		assertf(fails, *a == ka, "%s modified its operand", name)
		return &z
	}
	for _, ins := range splitList(";", prog) {
		f := strings.Split(ins, ":")
		var r reg
		switch f[0] {
		case "g":
			g := banderwagon.Generator
			r.e = &g
		case "o":
			var o banderwagon.Element
			o.SetIdentity()
			r.e = &o
		case "z":
			r.e = &banderwagon.Element{}
			r.zero = true
		case "c":
			c := config().SRS[atoi(f[1])]
			r.e = &c
		case "dec":
			var p banderwagon.Element
			if err := p.SetBytes(mustUnhex(f[1])); err != nil {
				r.e = nil
			} else {
				r.e = &p
			}
		case "add":
			r.e = bin("Add", get(f[1]), get(f[2]), func(z, x, y *banderwagon.Element) { z.Add(x, y) })
		case "sub":
			r.e = bin("Sub", get(f[1]), get(f[2]), func(z, x, y *banderwagon.Element) { z.Sub(x, y) })
		case "mix":
			b := *get(f[2])
			if err := b.Normalize(); err != nil {
				panic(err)
			}
			bx, by, _ := banderwagon.VerifCoords(&b)
			aff := bandersnatch.PointAffine{X: bx, Y: by}
			r.e = un("AddMixed", get(f[1]), func(z, x *banderwagon.Element) { z.AddMixed(x, aff) })
		case "dbl":
			r.e = un("Double", get(f[1]), func(z, x *banderwagon.Element) { z.Double(x) })
		case "neg":
			r.e = un("Neg", get(f[1]), func(z, x *banderwagon.Element) { z.Neg(x) })
		case "set":
			r.e = un("Set", get(f[1]), func(z, x *banderwagon.Element) { z.Set(x) })
		case "norm":
			c := *get(f[1])
			if err := c.Normalize(); err != nil {
				panic(err)
			}
			_, _, z := banderwagon.VerifCoords(&c)
			assertf(fails, z.IsOne(), "Normalize left Z != 1")
			r.e = &c
		case "resc":
			l := fpFromHexBE(f[2])
			x, y, z := banderwagon.VerifCoords(get(f[1]))
			x.Mul(&x, &l)
			y.Mul(&y, &l)
			z.Mul(&z, &l)
			e := banderwagon.VerifFromCoords(x, y, z)
			r.e = &e
		case "flip":
			x, y, z := banderwagon.VerifCoords(get(f[1]))
			x.Neg(&x)
			y.Neg(&y)
			e := banderwagon.VerifFromCoords(x, y, z)
			r.e = &e
		case "smul":
			s := frFromHexBE(f[2])
			ks := s
			r.e = un("ScalarMul", get(f[1]), func(z, x *banderwagon.Element) { z.ScalarMul(x, &s) })
			assertf(fails, s == ks, "ScalarMul modified the scalar")
		case "msm":
			var ps []banderwagon.Element
			for _, s := range splitList(",", f[1]) {
				ps = append(ps, *get(s))
			}
			var ss []fr.Element
			for _, s := range splitList(",", f[2]) {
				ss = append(ss, frFromHexBE(s))
			}
			kp := append([]banderwagon.Element(nil), ps...)
			ks := copyElems(ss)
			res, err := ipa.MultiScalar(ps, ss)
			if err != nil {
				panic(err)
			}
			for i := range ps {
				assertf(fails, ps[i] == kp[i] && ss[i] == ks[i], "MultiScalar modified input %d", i)
			}
			r.e = &res
		case "alias":
			r = regs[atoi(f[1])]
		case "pmsm":
			poly := make([]fr.Element, 256)
			for _, it := range splitList(",", f[1]) {
				kv := strings.Split(it, "=")
				var t fr.Element
				v := frFromHexBE(kv[1])
				t.Add(&poly[atoi(kv[0])], &v)
				poly[atoi(kv[0])] = t
			}
			c := config().Commit(poly)
			r.e = &c
		default:
			panic("bad instr " + ins)
		}
		regs = append(regs, r)
	}
	return regs
}

// staleReceivers returns fresh receivers that already hold a value: the generator (Z = 1), a
// projective multiple of it (Z != 1), both representatives of the identity class, and a
// normalised non-generator point.
func staleReceivers() []banderwagon.Element {
	g := banderwagon.Generator
	var p, o, o2, n banderwagon.Element
	p.Double(&g)
	p.Add(&p, &g)
	o.SetIdentity()
	ox, oy, oz := banderwagon.VerifCoords(&o)
	oy.Neg(&oy)
	o2 = banderwagon.VerifFromCoords(ox, oy, oz)
	n.Double(&p)
	if err := n.Normalize(); err != nil {
		panic(err)
	}
	return []banderwagon.Element{g, p, o, o2, n}
}

func opGrp(fails *[]string, prog string, batch bool) string {
	regs := runProg(fails, prog)
	n := len(regs)
	bs, ms, xy, eq := make([]string, n), make([]string, n), make([]string, n), make([]string, n)
	var valid []*banderwagon.Element
	var validIdx []int
	for i, r := range regs {
		switch {
		case r.zero:
			bs[i], ms[i], xy[i] = "zero", "zero", "zero"
		case r.e == nil:
			bs[i], ms[i], xy[i] = "bad", "bad", "bad"
		default:
			valid = append(valid, r.e)
			validIdx = append(validIdx, i)
		}
	}
	if !batch {
		for _, i := range validIdx {
			e := regs[i].e
			keep := *e
			bs[i] = ptHex(e)
			var m fr.Element
			e.MapToScalarField(&m)
			ms[i] = frHex(&m)
			u := e.BytesUncompressedTrusted()
			xy[i] = canonXYHex(u[:])
			assertf(fails, *e == keep, "encoding/mapping modified element %d", i)
			// decode(bytes) round trip, trusted uncompressed round trip
			var d banderwagon.Element
			b := e.Bytes()
			err := d.SetBytes(b[:])
			assertf(fails, err == nil && d.Equal(e), "SetBytes(Bytes(P)) fails or differs for register %d", i)
			var t banderwagon.Element
			err = t.SetBytesUncompressed(u[:], true)
			assertf(fails, err == nil && t.Equal(e), "trusted uncompressed round trip fails for register %d", i)
		}
	} else {
		// all values through the batch helpers, on copies sharing the aliasing of the registers
		keep := make([]banderwagon.Element, len(valid))
		for i, e := range valid {
			keep[i] = *e
		}
		validPtrs := append([]*banderwagon.Element(nil), valid...)
		defer func() {
			for i := range valid {
				assertf(fails, valid[i] == validPtrs[i], "a batch helper changed the caller's list: slot %d now holds another pointer", i)
			}
		}()
		cb := banderwagon.ElementsToBytes(valid...)
		ub := banderwagon.BatchToBytesUncompressed(valid...)
		maps := make([]*fr.Element, len(valid))
		store := make([]fr.Element, len(valid)) // the caller's own result storage
		for i := range maps {
			maps[i] = &store[i]
			maps[i].SetUint64(uint64(0xDEAD0000 + i)) // a reused result buffer: never zero beforehand
		}
		err := banderwagon.BatchMapToScalarField(maps, valid)
		assertf(fails, err == nil, "BatchMapToScalarField failed")
		for i := range maps {
			assertf(fails, maps[i] == &store[i], "BatchMapToScalarField re-pointed result slot %d instead of writing into it", i)
		}
		// stress repetitions (set by the concurrent modes): every repetition must reproduce the first result
		for rep := 0; rep < batchRepeat; rep++ {
			cb2 := banderwagon.ElementsToBytes(valid...)
			ub2 := banderwagon.BatchToBytesUncompressed(valid...)
			maps2 := make([]*fr.Element, len(valid))
			for i := range maps2 {
				maps2[i] = new(fr.Element)
			}
			_ = banderwagon.BatchMapToScalarField(maps2, valid)
			same := true
			for i := range valid {
				if cb2[i] != cb[i] || ub2[i] != ub[i] || *maps2[i] != *maps[i] {
					same = false
				}
			}
			if !same {
				assertf(fails, false, "batch helpers not reproducible under concurrent use (repetition %d)", rep)
				break
			}
		}
		for k, i := range validIdx {
			bs[i] = hx(cb[k][:])
			xy[i] = canonXYHex(ub[k][:])
			ms[i] = frHex(maps[k])
			sb := valid[k].Bytes()
			su := valid[k].BytesUncompressedTrusted()
			var sm fr.Element
			valid[k].MapToScalarField(&sm)
			assertf(fails, cb[k] == sb, "ElementsToBytes[%d] != Bytes()", i)
			assertf(fails, ub[k] == su, "BatchToBytesUncompressed[%d] != BytesUncompressedTrusted()", i)
			assertf(fails, *maps[k] == sm, "BatchMapToScalarField[%d] != MapToScalarField()", i)
			assertf(fails, store[k] == sm, "BatchMapToScalarField did not write the caller's storage of slot %d", i)
			var t banderwagon.Element
			err := t.SetBytesUncompressed(ub[k][:], true)
			assertf(fails, err == nil && t.Equal(valid[k]), "trusted decode of the batch uncompressed encoding differs at %d", i)
			assertf(fails, *valid[k] == keep[k], "batch helper modified element %d", i)
		}
		// BatchNormalize on copies that preserve pointer aliasing
		copies := make([]*banderwagon.Element, len(valid))
		seen := map[*banderwagon.Element]*banderwagon.Element{}
		for i, e := range valid {
			if c, ok := seen[e]; ok {
				copies[i] = c
			} else {
				c := *e
				seen[e] = &c
				copies[i] = &c
			}
		}
		keepPtrs := append([]*banderwagon.Element(nil), copies...)
		err = banderwagon.BatchNormalize(copies)
		assertf(fails, err == nil, "BatchNormalize failed on valid elements")
		for i := range copies {
			assertf(fails, copies[i] == keepPtrs[i], "BatchNormalize changed the caller's list: slot %d now holds another pointer", i)
		}
		for i, c := range copies {
			_, _, z := banderwagon.VerifCoords(c)
			assertf(fails, z.IsOne(), "BatchNormalize left Z != 1 at %d", i)
			assertf(fails, c.Equal(valid[i]) && c.Bytes() == valid[i].Bytes(), "BatchNormalize changed the group element at %d", i)
		}
	}
	for i := range regs {
		row := make([]byte, n)
		for j := range regs {
			row[j] = '0'
			if regs[i].e != nil && regs[j].e != nil && regs[i].e.Equal(regs[j].e) {
				row[j] = '1'
			}
		}
		eq[i] = string(row)
	}
	return joinWith(",", bs) + " " + joinWith(",", ms) + " " + joinWith(",", xy) + " " + joinWith(",", eq)
}

// ---------------------------------------------------------------- C05 / C09

func opCommit(fails *[]string, poly string) string {
	v := parsePoly(poly)
	keep := copyElems(v)
	c := config().Commit(v)
	for i := range v {
		assertf(fails, v[i] == keep[i], "Commit modified coefficient %d", i)
	}
	// agrees with the generic MSM over the published SRS
	g, err := ipa.MultiScalar(config().SRS[:len(v)], v)
	assertf(fails, err == nil && g.Equal(&c), "Commit disagrees with the generic MSM over the SRS")
	// history independence: the same vector committed again after a dense full-length commitment
	// (and after a short dense one) gives the same element
	nz := 0
	for i := range v {
		if !v[i].IsZero() {
			nz++
		}
	}
	if len(v) < 256 || nz >= 32 {
		_ = config().Commit(warmDense[:256])
		c2 := config().Commit(v)
		assertf(fails, c2.Equal(&c), "Commit of the same vector differs after a dense 256-coefficient Commit")
		_ = config().Commit(warmDense[:97])
		c3 := config().Commit(v)
		assertf(fails, c3.Equal(&c), "Commit of the same vector differs after a dense 97-coefficient Commit")
	}
	return ptHex(&c)
}

// warmDense: a fixed dense vector used to put the commitment engine into a "used" state
var warmDense = func() []fr.Element {
	out := make([]fr.Element, 256)
	for i := range out {
		out[i].SetUint64(uint64(0x9e3779b97f4a7c15) + uint64(i)*0x100000001b3)
		out[i].Square(&out[i])
	}
	return out
}()

func opPtab(fails *[]string, i, k, j int) string {
	x, y, t := banderwagon.VerifPrecompEntry(&config().PrecompMSM, i, k, j)
	var xy fp.Element
	xy.Mul(&x, &y)
	assertf(fails, xy == t, "table entry has T != X*Y")
	x, y = canonXY(x, y)
	return fpHex(&x) + " " + fpHex(&y)
}

// canonXY returns the member of the class {(x,y),(-x,-y)} whose y is the larger root.
func canonXY(x, y fp.Element) (fp.Element, fp.Element) {
	if !y.LexicographicallyLargest() {
		x.Neg(&x)
		y.Neg(&y)
	}
	return x, y
}

func canonXYHex(u []byte) string {
	var x, y fp.Element
	x.SetBytes(u[:32])
	y.SetBytes(u[32:])
	x, y = canonXY(x, y)
	return fpHex(&x) + fpHex(&y)
}

func msmPoint(d string) banderwagon.Element {
	switch d[0] {
	case 'g':
		return genMultiple(atoi(d[1:]))
	case 'n':
		p := genMultiple(atoi(d[1:]))
		p.Neg(&p)
		return p
	case 'c':
		return config().SRS[atoi(d[1:])]
	case 'o':
		return banderwagon.Identity
	}
	panic("bad point descriptor " + d)
}

func msmInputs(pts, scalars string) ([]banderwagon.Element, []fr.Element) {
	var ps []banderwagon.Element
	for _, d := range splitList(",", pts) {
		ps = append(ps, msmPoint(d))
	}
	var ss []fr.Element
	for _, s := range splitList(",", scalars) {
		ss = append(ss, frFromHexBE(s))
	}
	return ps, ss
}

func opMsm(fails *[]string, tasks int, mont bool, pts, scalars string) string {
	ps, ss := msmInputs(pts, scalars)
	if !mont {
		for i := range ss {
			ss[i].FromMont()
		}
	}
	kp := append([]banderwagon.Element(nil), ps...)
	ks := copyElems(ss)
	var res banderwagon.Element
	res.SetIdentity()
	_, err := res.MultiExp(ps, ss, banderwagon.MultiExpConfig{NbTasks: tasks, ScalarsMont: mont})
	for i := range ps {
		assertf(fails, ps[i] == kp[i], "MultiExp modified point %d", i)
	}
	for i := range ss {
		assertf(fails, ss[i] == ks[i], "MultiExp modified scalar %d", i)
	}
	if err != nil {
		return "err"
	}
	return ptHex(&res)
}

func opMsmC(fails *[]string, c int, split bool, pts, scalars string) string {
	ps, ss := msmInputs(pts, scalars)
	if len(ps) != len(ss) {
		return "err"
	}
	aff := make([]bandersnatch.PointAffine, len(ps))
	for i := range ps {
		q := ps[i]
		if err := q.Normalize(); err != nil {
			panic(err)
		}
		x, y, _ := banderwagon.VerifCoords(&q)
		aff[i] = bandersnatch.PointAffine{X: x, Y: y}
	}
	parts, _ := bandersnatch.VerifPartitionScalars(ss, uint64(c), true, runtime.NumCPU())
	var p bandersnatch.PointProj
	bandersnatch.VerifMsmInner(&p, c, aff, parts, split)
	e := banderwagon.VerifFromCoords(p.X, p.Y, p.Z)
	return ptHex(&e)
}

// ---------------------------------------------------------------- C01-C04

func stateChal(tr *common.Transcript) string {
	c := tr.ChallengeScalar([]byte("state"))
	le := c.BytesLE()
	return hx(le[:])
}

func ipaProofBytes(p *ipa.IPAProof) string {
	var buf bytes.Buffer
	if err := p.Write(&buf); err != nil {
		panic(err)
	}
	return hx(buf.Bytes())
}

func okStr(ok bool, err error) string {
	if err != nil {
		return "err"
	}
	if ok {
		return "1"
	}
	return "0"
}

func opIpa(fails *[]string, label []byte, poly string, z fr.Element) string {
	ic := config()
	a0 := parsePoly(poly)
	a, chkA := guarded(fails, "CreateIPAProof polynomial", a0, fillFr)
	keep := copyElems(a)
	c := ic.Commit(a)
	chkA()
	trP := common.NewTranscript(string(label))
	proof, err := ipa.CreateIPAProof(trP, ic, c, a, z)
	chkA()
	if err != nil {
		return "noproof"
	}
	pl, chkPL := guarded(fails, "CheckIPAProof proof.L", proof.L, fillPt)
	pr, chkPR := guarded(fails, "CheckIPAProof proof.R", proof.R, fillPt)
	proof = ipa.IPAProof{L: pl, R: pr, A_scalar: proof.A_scalar}
	defer chkPL()
	defer chkPR()
	for i := range a {
		assertf(fails, a[i] == keep[i], "CreateIPAProof modified the polynomial at %d", i)
	}
	b := ipa.VerifComputeBVector(ic, z)
	y, _ := ipa.InnerProd(a, b)
	chP := stateChal(trP)
	trV := common.NewTranscript(string(label))
	ok, err := ipa.CheckIPAProof(trV, ic, c, proof, z, y)
	v := okStr(ok, err)
	chV := stateChal(trV)
	// every other claimed result must be rejected (sampled: y+1, y-1, 0)
	one := fr.One()
	for k, bad := range []fr.Element{*new(fr.Element).Add(&y, &one), *new(fr.Element).Sub(&y, &one), {}} {
		if bad == y {
			continue
		}
		ok2, err2 := ipa.CheckIPAProof(common.NewTranscript(string(label)), ic, c, proof, z, bad)
		assertf(fails, !(ok2 && err2 == nil), "IPA proof accepted for a wrong result (variant %d)", k)
	}
	return ptHex(&c) + " " + ipaProofBytes(&proof) + " " + frHex(&y) + " " + chP + " " + v + " " + chV
}

func pointsOf(s string) []banderwagon.Element {
	var out []banderwagon.Element
	for _, h := range splitList(",", s) {
		out = append(out, decodePoint(h))
	}
	return out
}

func opIpaVerify(fails *[]string, f []string) string {
	label := mustUnhex(f[1])
	cs := pointsOf(f[2])
	z, y := frFromHexBE(f[3]), frFromHexBE(f[4])
	proof := ipa.IPAProof{L: pointsOf(f[5]), R: pointsOf(f[6]), A_scalar: frFromHexBE(f[7])}
	gl, chkL := guarded(fails, "CheckIPAProof proof.L", proof.L, fillPt)
	gr, chkR := guarded(fails, "CheckIPAProof proof.R", proof.R, fillPt)
	tr := common.NewTranscript(string(label))
	ok, err := ipa.CheckIPAProof(tr, config(), cs[0], ipa.IPAProof{L: gl, R: gr, A_scalar: proof.A_scalar}, z, y)
	chkL()
	chkR()
	for i := range proof.L {
		assertf(fails, i < len(gl) && gl[i] == proof.L[i], "CheckIPAProof modified proof.L[%d]", i)
	}
	for i := range proof.R {
		assertf(fails, i < len(gr) && gr[i] == proof.R[i], "CheckIPAProof modified proof.R[%d]", i)
	}
	if err != nil {
		assertf(fails, !ok, "CheckIPAProof returned true together with an error")
		return "err"
	}
	// the decision must not depend on the representation of any group element
	for v := uint64(1); v <= 3; v++ {
		p2 := ipa.IPAProof{A_scalar: proof.A_scalar}
		for i := range proof.L {
			p2.L = append(p2.L, rerepresent(proof.L[i], v+uint64(i)))
		}
		for i := range proof.R {
			p2.R = append(p2.R, rerepresent(proof.R[i], v+uint64(2*i)))
		}
		ok2, err2 := ipa.CheckIPAProof(common.NewTranscript(string(label)), config(), rerepresent(cs[0], v), p2, z, y)
		assertf(fails, err2 == nil && ok2 == ok, "IPA decision depends on the representation (variant %d)", v)
	}
	return okStr(ok, err) + " " + stateChal(tr)
}

type opening struct {
	poly  string
	z     uint8
	flags string
}

func parseOpenings(s string) []opening {
	var out []opening
	for _, it := range splitList(";", s) {
		flags := ""
		if i := strings.Index(it, "!"); i >= 0 {
			flags = it[i+1:]
			it = it[:i]
		}
		pz := strings.Split(it, "@")
		out = append(out, opening{pz[0], uint8(atoi(pz[1])), flags})
	}
	return out
}

func mpProofBytes(p *multiproof.MultiProof) string {
	var buf bytes.Buffer
	if err := p.Write(&buf); err != nil {
		panic(err)
	}
	return hx(buf.Bytes())
}

func opMp(fails *[]string, label []byte, ops string) string {
	ic := config()
	os := parseOpenings(ops)
	polys := map[string][]fr.Element{}
	comms := map[string]*banderwagon.Element{}
	var Cs []*banderwagon.Element
	var fs [][]fr.Element
	var zs []uint8
	var ys []*fr.Element
	for i, o := range os {
		if _, ok := polys[o.poly]; !ok {
			polys[o.poly] = parsePoly(o.poly)
			c := ic.Commit(polys[o.poly])
			comms[o.poly] = &c
		}
		f := polys[o.poly]
		var c *banderwagon.Element
		switch {
		case strings.Contains(o.flags, "p"): // shared pointer
			c = comms[o.poly]
		default:
			cc := *comms[o.poly]
			c = &cc
		}
		if strings.Contains(o.flags, "f") || strings.Contains(o.flags, "r") {
			var k uint64
			if strings.Contains(o.flags, "f") {
				k |= 1
			}
			if strings.Contains(o.flags, "r") {
				k |= 2 | uint64(i+1)<<2
			}
			cc := rerepresent(*c, k)
			c = &cc
		}
		Cs = append(Cs, c)
		fs = append(fs, f)
		zs = append(zs, o.z)
		y := f[o.z]
		ys = append(ys, &y)
	}
	// every slice argument is a sub-slice of a larger caller buffer (guards checked after the calls)
	var chks []func()
	for i := range fs {
		g, chk := guarded(fails, fmt.Sprintf("CreateMultiProof fs[%d]", i), fs[i], fillFr)
		fs[i] = g
		chks = append(chks, chk)
	}
	{
		var chk func()
		zs, chk = guarded(fails, "multiproof zs", zs, fillU8)
		chks = append(chks, chk)
		guardC, guardY := &banderwagon.Element{}, &fr.Element{}
		Cs, chk = guarded(fails, "multiproof Cs", Cs, func(int) *banderwagon.Element { return guardC })
		chks = append(chks, chk)
		ys, chk = guarded(fails, "multiproof ys", ys, func(int) *fr.Element { return guardY })
		chks = append(chks, chk)
		fs, chk = guardedSlices(fails, "multiproof fs", fs)
		chks = append(chks, chk)
	}
	defer func() {
		for _, c := range chks {
			c()
		}
	}()
	// snapshots for purity
	keepF := make([][]fr.Element, len(fs))
	for i := range fs {
		keepF[i] = copyElems(fs[i])
	}
	keepC := make([]banderwagon.Element, len(Cs))
	for i := range Cs {
		keepC[i] = *Cs[i]
	}
	keepZ := append([]uint8(nil), zs...)
	trP := common.NewTranscript(string(label))
	proof, err := multiproof.CreateMultiProof(trP, ic, Cs, fs, zs)
	if err != nil {
		return "noproof"
	}
	for i := range fs {
		for j := range fs[i] {
			if fs[i][j] != keepF[i][j] {
				assertf(fails, false, "CreateMultiProof modified polynomial %d at %d", i, j)
				break
			}
		}
		assertf(fails, Cs[i].Equal(&keepC[i]), "CreateMultiProof changed commitment %d as a group element", i)
		assertf(fails, zs[i] == keepZ[i], "CreateMultiProof modified zs[%d]", i)
	}
	chP := stateChal(trP)
	trV := common.NewTranscript(string(label))
	keepY := make([]fr.Element, len(ys))
	for i := range ys {
		keepY[i] = *ys[i]
	}
	keepProof := mpProofBytes(proof)
	ok, err := multiproof.CheckMultiProof(trV, ic, proof, Cs, ys, zs)
	v := okStr(ok, err)
	chV := stateChal(trV)
	for i := range ys {
		assertf(fails, *ys[i] == keepY[i], "CheckMultiProof modified ys[%d]", i)
		assertf(fails, zs[i] == keepZ[i], "CheckMultiProof modified zs[%d]", i)
	}
	assertf(fails, mpProofBytes(proof) == keepProof, "CheckMultiProof modified the proof")
	return keepProof + " " + chP + " " + v + " " + chV
}

func opMpVerify(fails *[]string, f []string) string {
	label := mustUnhex(f[1])
	cs := pointsOf(f[2])
	var zs []uint8
	for _, s := range splitList(",", f[3]) {
		zs = append(zs, uint8(atoi(s)))
	}
	var ysv []fr.Element
	for _, s := range splitList(",", f[4]) {
		ysv = append(ysv, frFromHexBE(s))
	}
	d := pointsOf(f[5])
	proof := &multiproof.MultiProof{D: d[0], IPA: ipa.IPAProof{L: pointsOf(f[6]), R: pointsOf(f[7]), A_scalar: frFromHexBE(f[8])}}
	mk := func(variant uint64) ([]*banderwagon.Element, []*fr.Element, *multiproof.MultiProof) {
		Cs := make([]*banderwagon.Element, len(cs))
		for i := range cs {
			c := rerepresent(cs[i], variant*uint64(i+1))
			Cs[i] = &c
		}
		ys := make([]*fr.Element, len(ysv))
		for i := range ysv {
			y := ysv[i]
			ys[i] = &y
		}
		p := &multiproof.MultiProof{D: rerepresent(proof.D, variant), IPA: ipa.IPAProof{A_scalar: proof.IPA.A_scalar}}
		for i := range proof.IPA.L {
			p.IPA.L = append(p.IPA.L, rerepresent(proof.IPA.L[i], variant*uint64(i+2)))
		}
		for i := range proof.IPA.R {
			p.IPA.R = append(p.IPA.R, rerepresent(proof.IPA.R[i], variant*uint64(i+3)))
		}
		return Cs, ys, p
	}
	Cs, ys, p := mk(0)
	{ // every slice handed to the verifier is a sub-slice of a larger caller buffer
		var c1, c2, c3, c4, c5 func()
		p.IPA.L, c1 = guarded(fails, "CheckMultiProof proof.IPA.L", p.IPA.L, fillPt)
		p.IPA.R, c2 = guarded(fails, "CheckMultiProof proof.IPA.R", p.IPA.R, fillPt)
		guardC, guardY := &banderwagon.Element{}, &fr.Element{}
		Cs, c3 = guarded(fails, "CheckMultiProof Cs", Cs, func(int) *banderwagon.Element { return guardC })
		ys, c4 = guarded(fails, "CheckMultiProof ys", ys, func(int) *fr.Element { return guardY })
		zs, c5 = guarded(fails, "CheckMultiProof zs", zs, fillU8)
		defer func() { c1(); c2(); c3(); c4(); c5() }()
	}
	tr := common.NewTranscript(string(label))
	ok, err := multiproof.CheckMultiProof(tr, config(), p, Cs, ys, zs)
	if err != nil {
		assertf(fails, !ok, "CheckMultiProof returned true together with an error")
		return "err"
	}
	for v := uint64(1); v <= 3; v++ {
		Cs2, ys2, p2 := mk(v)
		ok2, err2 := multiproof.CheckMultiProof(common.NewTranscript(string(label)), config(), p2, Cs2, ys2, zs)
		assertf(fails, err2 == nil && ok2 == ok, "multiproof decision depends on the representation (variant %d)", v)
	}
	return okStr(ok, err) + " " + stateChal(tr)
}

// ---------------------------------------------------------------- C10

// scriptedReader is a well-behaved io.Reader over data with scripted chunking.
type scriptedReader struct {
	data        []byte
	chunks      []int
	eofWithData bool
	failAfter   int // -1: never
	delivered   int
}

var errIO = errors.New("scripted i/o failure")

func (r *scriptedReader) Read(p []byte) (int, error) {
	if r.failAfter >= 0 && r.delivered >= r.failAfter {
		return 0, errIO
	}
	if len(r.data) == 0 {
		return 0, io.EOF
	}
	if len(p) == 0 {
		return 0, nil
	}
	lim := len(p)
	if len(r.chunks) > 0 {
		c := r.chunks[0]
		r.chunks = r.chunks[1:]
		if c < 1 {
			c = 1
		}
		if c < lim {
			lim = c
		}
	}
	if lim > len(r.data) {
		lim = len(r.data)
	}
	n := copy(p, r.data[:lim])
	r.data = r.data[n:]
	r.delivered += n
	if len(r.data) == 0 && r.eofWithData {
		return n, io.EOF
	}
	return n, nil
}

type failingWriter struct {
	calls, failAt int
	buf           bytes.Buffer
}

func (w *failingWriter) Write(p []byte) (int, error) {
	if w.calls == w.failAt {
		w.calls++
		return 0, errIO
	}
	w.calls++
	return w.buf.Write(p)
}

func opSerde(fails *[]string, f []string, ipaOnly bool) string {
	data := mustUnhex(f[1])
	r := &scriptedReader{data: append([]byte(nil), data...), eofWithData: f[3] == "1", failAfter: -1}
	for _, c := range splitList(",", f[2]) {
		r.chunks = append(r.chunks, atoi(c))
	}
	if f[4] != "-" {
		r.failAfter = atoi(f[4])
	}
	if ipaOnly {
		var p ipa.IPAProof
		if err := p.Read(r); err != nil {
			return "err"
		}
		var out bytes.Buffer
		if err := p.Write(&out); err != nil {
			return "err-write"
		}
		// the decoder reused for another proof: a copy of the first result stays what it was
		first := p
		if err := p.Read(bytes.NewReader(swapLR(out.Bytes(), 0))); err == nil {
			var again bytes.Buffer
			_ = first.Write(&again)
			assertf(fails, bytes.Equal(again.Bytes(), out.Bytes()), "IPAProof.Read on a reused receiver changed the proof read before")
		}
		return "ok " + hx(out.Bytes()) + fmt.Sprintf(" %d", r.delivered)
	}
	var p multiproof.MultiProof
	if err := p.Read(r); err != nil {
		return "err"
	}
	var out bytes.Buffer
	if err := p.Write(&out); err != nil {
		return "err-write"
	}
	assertf(fails, bytes.Equal(out.Bytes(), data), "Write(Read(b)) != b for accepted input")
	// Read(Write(p)) == p
	var q multiproof.MultiProof
	err := q.Read(bytes.NewReader(out.Bytes()))
	assertf(fails, err == nil && q.Equal(p), "Read(Write(p)) != p")
	// the decoder reused for another proof: a copy of the first result stays what it was
	first := p
	if err := p.Read(bytes.NewReader(swapLR(out.Bytes(), 32))); err == nil {
		var again bytes.Buffer
		_ = first.Write(&again)
		assertf(fails, bytes.Equal(again.Bytes(), out.Bytes()), "MultiProof.Read on a reused receiver changed the proof read before")
		_ = p.Read(bytes.NewReader(out.Bytes()))
	}
	// a writer failing at any of its calls must surface an error
	total := &failingWriter{failAt: -1}
	_ = p.Write(total)
	for j := 0; j < total.calls; j++ {
		w := &failingWriter{failAt: j}
		assertf(fails, p.Write(w) != nil, "Write ignored a writer failure at call %d", j)
	}
	return "ok " + hx(out.Bytes())
}

// swapLR returns a serialized proof with its L and R blocks (8 points each, starting at `off`) exchanged:
// another well-formed proof of the same length
func swapLR(b []byte, off int) []byte {
	out := append([]byte(nil), b...)
	if len(b) < off+512 {
		return out
	}
	copy(out[off:off+256], b[off+256:off+512])
	copy(out[off+256:off+512], b[off:off+256])
	return out
}

// ---------------------------------------------------------------- C18

func opBaryEval(fails *[]string, poly string, z fr.Element) string {
	f := parsePoly(poly)
	keep := copyElems(f)
	co := config().PrecomputedWeights.ComputeBarycentricCoefficients(z)
	y, err := ipa.InnerProd(f, co)
	if err != nil {
		return "err"
	}
	for i := range f {
		assertf(fails, f[i] == keep[i], "evaluation modified the polynomial")
	}
	return frHex(&y)
}

func opBaryDiv(fails *[]string, k int, poly string) string {
	f := parsePoly(poly)
	keep := copyElems(f)
	q := config().PrecomputedWeights.DivideOnDomain(uint8(k), f)
	for i := range f {
		assertf(fails, f[i] == keep[i], "DivideOnDomain modified the polynomial at %d", i)
	}
	// defining relation off the diagonal: q_i (i - k) = f_i - f_k
	for i := 0; i < 256 && i < len(q); i++ {
		if i == k {
			continue
		}
		var d, lhs, rhs, fi, fk fr.Element
		fi.SetUint64(uint64(i))
		fk.SetUint64(uint64(k))
		d.Sub(&fi, &fk)
		lhs.Mul(&q[i], &d)
		rhs.Sub(&f[i], &f[k])
		if lhs != rhs {
			assertf(fails, false, "DivideOnDomain: q[%d]*(%d-%d) != f[%d]-f[%d]", i, i, k, i, k)
			break
		}
	}
	return vecHex(q)
}

// ---------------------------------------------------------------- extra ops

// opTrPair runs two histories (each ending with a challenge) and reports whether their last
// challenges coincide, and whether the byte streams hashed for them coincide.
func opTrPair(fails *[]string, f []string) string {
	run := func(label []byte, ops string) (string, []byte) {
		tr := common.NewTranscript(string(label))
		stream := append([]byte(nil), label...)
		last := ""
		var lastStream []byte
		for _, it := range splitList(";", ops) {
			g := strings.Split(it, ":")
			switch g[0] {
			case "d":
				tr.DomainSep(mustUnhex(g[1]))
				stream = append(stream, mustUnhex(g[1])...)
			case "m":
				tr.AppendMessage(mustUnhex(g[2]), mustUnhex(g[1]))
				stream = append(append(stream, mustUnhex(g[1])...), mustUnhex(g[2])...)
			case "s":
				s := frFromHexBE(g[2])
				tr.AppendScalar(&s, mustUnhex(g[1]))
				le := be32rev(mustUnhex(g[2]))
				stream = append(append(stream, mustUnhex(g[1])...), le...)
			case "p":
				p := decodePoint(g[2])
				tr.AppendPoint(&p, mustUnhex(g[1]))
				stream = append(append(stream, mustUnhex(g[1])...), mustUnhex(g[2])...)
			case "c":
				c := tr.ChallengeScalar(mustUnhex(g[1]))
				le := c.BytesLE()
				last = hx(le[:])
				lastStream = append(append([]byte(nil), stream...), mustUnhex(g[1])...)
				stream = append(append([]byte(nil), mustUnhex(g[1])...), le[:]...)
			}
		}
		return last, lastStream
	}
	ca, sa := run(mustUnhex(f[1]), f[2])
	cb, sb := run(mustUnhex(f[3]), f[4])
	switch {
	case ca != cb:
		return "ne"
	case bytes.Equal(sa, sb):
		return "eq-stream"
	default:
		return "eq-nostream"
	}
}

func opCommitLin(fails *[]string, f []string) string {
	ic := config()
	a, b := parsePoly(f[1]), parsePoly(f[2])
	k := frFromHexBE(f[3])
	idx := atoi(f[4])
	delta := frFromHexBE(f[5])
	sum := make([]fr.Element, 256)
	ka := make([]fr.Element, 256)
	upd := copyElems(a)
	for i := range sum {
		sum[i].Add(&a[i], &b[i])
		ka[i].Mul(&k, &a[i])
	}
	upd[idx].Add(&upd[idx], &delta)
	cs, ck, cu := ic.Commit(sum), ic.Commit(ka), ic.Commit(upd)
	// implementation-internal consistency of the same clauses
	ca, cb := ic.Commit(a), ic.Commit(b)
	var s2 banderwagon.Element
	s2.Add(&ca, &cb)
	assertf(fails, s2.Equal(&cs), "Commit(a+b) != Commit(a)+Commit(b)")
	var dG, u2 banderwagon.Element
	dG.ScalarMul(&ic.SRS[idx], &delta)
	u2.Add(&ca, &dG)
	assertf(fails, u2.Equal(&cu), "single-coefficient update != adding delta*G_i")
	return ptHex(&cs) + " " + ptHex(&ck) + " " + ptHex(&cu)
}

// opBatchFail: one un-normalisable element (Z = 0) at position pos; BatchNormalize must fail
// and leave every element bitwise unchanged.
func opBatchFail(fails *[]string, prog string, pos int) string {
	regs := runProg(fails, prog)
	var els []*banderwagon.Element
	seen := map[*banderwagon.Element]*banderwagon.Element{} // copies that preserve the pointer aliasing of the registers
	for _, r := range regs {
		if !r.zero && r.e != nil {
			if c, ok := seen[r.e]; ok {
				els = append(els, c)
				continue
			}
			c := *r.e
			seen[r.e] = &c
			els = append(els, &c)
		}
	}
	if pos > len(els) {
		pos = len(els)
	}
	var one fp.Element
	one.SetOne()
	bad := banderwagon.VerifFromCoords(one, one, fp.Element{})
	els = append(els[:pos], append([]*banderwagon.Element{&bad}, els[pos:]...)...)
	keep := make([]banderwagon.Element, len(els))
	for i := range els {
		keep[i] = *els[i]
	}
	keepPtrs := append([]*banderwagon.Element(nil), els...)
	err := banderwagon.BatchNormalize(els)
	if err == nil {
		return "no-error"
	}
	for i := range els {
		if els[i] != keepPtrs[i] {
			return fmt.Sprintf("err-list-modified-%d", i)
		}
		if *els[i] != keep[i] {
			return fmt.Sprintf("err-modified-%d", i)
		}
	}
	return "err-unchanged"
}

func opReadField(fails *[]string, f []string) string {
	data := mustUnhex(f[1])
	r := &scriptedReader{data: append([]byte(nil), data...), eofWithData: f[3] == "1", failAfter: -1}
	for _, c := range splitList(",", f[2]) {
		r.chunks = append(r.chunks, atoi(c))
	}
	if f[4] != "-" {
		r.failAfter = atoi(f[4])
	}
	if f[0] == "rdpt" {
		p, err := common.ReadPoint(r)
		if err != nil {
			return "err"
		}
		return "ok " + ptHex(p) + fmt.Sprintf(" %d", r.delivered)
	}
	s, err := common.ReadScalar(r)
	if err != nil {
		return "err"
	}
	return "ok " + frHex(s) + fmt.Sprintf(" %d", r.delivered)
}
