package main

// Read-only input buffers: "no decoder modifies the byte slice it is given" also excludes a
// transient write that is undone before returning (invisible to a before/after comparison, but
// a data race for concurrent readers and a fault for read-only memory).  The probe places the
// input in a PROT_READ page and runs the decoder with faults turned into panics.

import (
	"runtime/debug"
	"sync"
	"syscall"
)

var roMu sync.Mutex

// withReadOnly runs f on a copy of data that lives in read-only memory; it reports whether f
// tried to write to it (or faulted in any other way).  Empty inputs are passed through.
func withReadOnly(data []byte, f func(buf []byte)) (wrote bool) {
	if len(data) == 0 {
		f(data)
		return false
	}
	roMu.Lock()
	defer roMu.Unlock()
	pg := syscall.Getpagesize()
	n := (len(data) + pg - 1) / pg * pg
	mem, err := syscall.Mmap(-1, 0, n, syscall.PROT_READ|syscall.PROT_WRITE, syscall.MAP_ANON|syscall.MAP_PRIVATE)
	if err != nil {
		f(append([]byte(nil), data...))
		return false
	}
	defer syscall.Munmap(mem)
	// place the data at the END of the mapping so that reads past the slice fault as well
	off := n - len(data)
	copy(mem[off:], data)
	if err := syscall.Mprotect(mem, syscall.PROT_READ); err != nil {
		f(append([]byte(nil), data...))
		return false
	}
	old := debug.SetPanicOnFault(true)
	defer debug.SetPanicOnFault(old)
	defer func() {
		if r := recover(); r != nil {
			wrote = true
		}
	}()
	f(mem[off : off+len(data) : off+len(data)])
	return false
}
