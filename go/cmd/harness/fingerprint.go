package main

import (
	"crypto/sha256"
	"encoding/binary"
	"encoding/hex"

	multiproof "github.com/crate-crypto/go-ipa"
	"github.com/crate-crypto/go-ipa/bandersnatch"
	"github.com/crate-crypto/go-ipa/bandersnatch/fp"
	ipafr "github.com/crate-crypto/go-ipa/bandersnatch/fr"
	"github.com/crate-crypto/go-ipa/banderwagon"
	"github.com/crate-crypto/go-ipa/ipa"
)

// fingerprint hashes every piece of shared state an API call could touch:
// SRS, Q, weight tables, precomputed MSM tables (all entries when full, a fixed
// stride otherwise), the package-level generator/identity/curve parameters and
// the Fiat-Shamir label variables.
func fingerprint(full bool) string {
	ic := config()
	h := sha256.New()
	w64 := func(v uint64) {
		var b [8]byte
		binary.LittleEndian.PutUint64(b[:], v)
		h.Write(b[:])
	}
	wfp := func(e *fp.Element) {
		for _, l := range e {
			w64(l)
		}
	}
	wel := func(e *banderwagon.Element) {
		x, y, z := banderwagon.VerifCoords(e)
		wfp(&x)
		wfp(&y)
		wfp(&z)
	}
	for i := range ic.SRS {
		wel(&ic.SRS[i])
	}
	wel(&ic.Q)
	bary, inv := ipa.VerifWeights(ic.PrecomputedWeights)
	for _, t := range [][]ipafr.Element{bary, inv} {
		for i := range t {
			for _, l := range t[i] {
				w64(l)
			}
		}
	}
	w64(uint64(ipa.VerifNumRounds(ic)))
	g, id := banderwagon.Generator, banderwagon.Identity
	wel(&g)
	wel(&id)
	wfp(&bandersnatch.CurveParams.A)
	wfp(&bandersnatch.CurveParams.D)
	wfp(&bandersnatch.CurveParams.Base.X)
	wfp(&bandersnatch.CurveParams.Base.Y)
	wfp(&bandersnatch.Identity.X)
	wfp(&bandersnatch.Identity.Y)
	wfp(&bandersnatch.Identity.Z)
	wfp(&bandersnatch.IdentityExt.X)
	wfp(&bandersnatch.IdentityExt.Y)
	wfp(&bandersnatch.IdentityExt.Z)
	wfp(&bandersnatch.IdentityExt.T)
	for _, l := range ipa.VerifLabels() {
		h.Write(l)
		h.Write([]byte{0})
	}
	for _, l := range multiproof.VerifLabels() {
		h.Write(l)
		h.Write([]byte{0})
	}
	stride := 4099
	if full {
		stride = 1
	}
	n := 0
	for i := 0; i < 256; i++ {
		_, windows, entries := banderwagon.VerifPrecompShape(&ic.PrecompMSM, i)
		w64(uint64(windows))
		w64(uint64(entries))
		for k := 0; k < windows; k++ {
			for j := 0; j < entries; j++ {
				if n%stride == 0 {
					x, y, t := banderwagon.VerifPrecompEntry(&ic.PrecompMSM, i, k, j)
					wfp(&x)
					wfp(&y)
					wfp(&t)
				}
				n++
			}
		}
	}
	return hex.EncodeToString(h.Sum(nil))
}
