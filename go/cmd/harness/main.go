package main

import (
	"bufio"
	"fmt"
	"github.com/crate-crypto/go-ipa/ipa"
	"os"
	"runtime"
	"strconv"
	"sync"
	"time"
)

func usage() {
	fmt.Fprintln(os.Stderr, "usage: harness gen <ID> <tier> <seed> | exec [-conc N] [-purity] | info")
	os.Exit(2)
}

func main() {
	// history mode: derive a short CRS prefix before anything else touches the configuration (a memoised /
	// resumable CRS derivation must still give NewIPASettings the published 256 points afterwards)
	if v := os.Getenv("VERIF_CRS_FIRST"); v != "" {
		if k, err := strconv.Atoi(v); err == nil && k > 0 {
			_ = ipa.GenerateRandomPoints(uint64(k))
		}
	}
	if len(os.Args) < 2 {
		usage()
	}
	switch os.Args[1] {
	case "gen":
		if len(os.Args) != 5 {
			usage()
		}
		seed, err := strconv.ParseUint(os.Args[4], 10, 64)
		if err != nil {
			usage()
		}
		w := bufio.NewWriterSize(os.Stdout, 1<<20)
		defer w.Flush()
		generate(w, os.Args[2], os.Args[3], seed)
	case "exec":
		conc := 1
		purity := false
		for i := 2; i < len(os.Args); i++ {
			switch os.Args[i] {
			case "-conc":
				i++
				conc, _ = strconv.Atoi(os.Args[i])
			case "-purity":
				purity = true
			}
		}
		execAll(conc, purity)
	case "info":
		fmt.Printf("numcpu=%d gomaxprocs=%d\n", runtime.NumCPU(), runtime.GOMAXPROCS(0))
	default:
		usage()
	}
}

// per-case watchdog (seconds in VERIF_OP_TIMEOUT, default 90)
var opTimeout = func() time.Duration {
	if v, err := strconv.Atoi(os.Getenv("VERIF_OP_TIMEOUT")); err == nil && v > 0 {
		return time.Duration(v) * time.Second
	}
	return 90 * time.Second
}()

func execAll(conc int, purity bool) {
	sc := bufio.NewScanner(os.Stdin)
	sc.Buffer(make([]byte, 1<<20), 1<<28)
	w := bufio.NewWriterSize(os.Stdout, 1<<16)
	defer w.Flush()
	if conc <= 1 {
		var before string
		if purity {
			before = fingerprint(true)
		}
		for sc.Scan() {
			var fpb string
			if purity {
				fpb = fingerprint(false)
			}
			out := execLineTimed(sc.Text(), opTimeout)
			if purity {
				if fpa := fingerprint(false); fpa != fpb {
					out += " !ASSERT[shared configuration or package state changed during the call]"
				}
			}
			fmt.Fprintln(w, out)
			w.Flush()
		}
		if purity {
			if after := fingerprint(true); after != before {
				fmt.Fprintln(w, "!ASSERT[full configuration fingerprint changed over the history]")
			}
		}
		return
	}
	// concurrent mode: all lines are issued from `conc` goroutines sharing the configuration
	var lines []string
	for sc.Scan() {
		lines = append(lines, sc.Text())
	}
	outs := make([]string, len(lines))
	var wg sync.WaitGroup
	next := make(chan int)
	for g := 0; g < conc; g++ {
		wg.Add(1)
		go func() {
			defer wg.Done()
			for i := range next {
				outs[i] = execLineTimed(lines[i], opTimeout)
			}
		}()
	}
	for i := range lines {
		next <- i
	}
	close(next)
	wg.Wait()
	for _, o := range outs {
		fmt.Fprintln(w, o)
	}
}
