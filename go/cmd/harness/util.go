package main

import (
	"encoding/hex"
	"fmt"
	"math/big"
	"strconv"
	"strings"

	"github.com/crate-crypto/go-ipa/bandersnatch/fp"
	"github.com/crate-crypto/go-ipa/bandersnatch/fr"
	"github.com/crate-crypto/go-ipa/banderwagon"
)

var rMod = fr.Modulus()
var pMod, _ = new(big.Int).SetString("52435875175126190479447740508185965837690552500527637822603658699938581184513", 10)

func hx(b []byte) string { return hex.EncodeToString(b) }

func hexOrDash(b []byte) string {
	if len(b) == 0 {
		return "-"
	}
	return hx(b)
}

func unhex(s string) ([]byte, error) {
	if s == "-" {
		return []byte{}, nil
	}
	return hex.DecodeString(s)
}

func mustUnhex(s string) []byte {
	b, err := unhex(s)
	if err != nil {
		panic("bad hex: " + s)
	}
	return b
}

func splitList(sep, s string) []string {
	if s == "-" || s == "" {
		return nil
	}
	return strings.Split(s, sep)
}

func joinWith(sep string, l []string) string {
	if len(l) == 0 {
		return "-"
	}
	return strings.Join(l, sep)
}

// frFromBE parses a big-endian hex value (reducing mod r), without touching the decoders under test.
func frFromBig(v *big.Int) fr.Element {
	var e fr.Element
	e.SetBigInt(v)
	return e
}

func frFromHexBE(s string) fr.Element {
	return frFromBig(new(big.Int).SetBytes(mustUnhex(s)))
}

func frBig(e *fr.Element) *big.Int {
	var b big.Int
	e.ToBigIntRegular(&b)
	return &b
}

func be32(v *big.Int) string {
	var buf [32]byte
	v.FillBytes(buf[:])
	return hx(buf[:])
}

func frHex(e *fr.Element) string { return be32(frBig(e)) }

func fpFromHexBE(s string) fp.Element {
	var e fp.Element
	e.SetBigInt(new(big.Int).SetBytes(mustUnhex(s)))
	return e
}

func fpHex(e *fp.Element) string {
	var b big.Int
	e.BigInt(&b)
	return be32(&b)
}

func vecHex(v []fr.Element) string {
	out := make([]string, len(v))
	for i := range v {
		out[i] = frHex(&v[i])
	}
	return joinWith(",", out)
}

func atoi(s string) int {
	n, err := strconv.Atoi(s)
	if err != nil {
		panic("bad int: " + s)
	}
	return n
}

// splitmix64, shared with the Lean driver
type splitmix struct{ s uint64 }

func (m *splitmix) next() uint64 {
	m.s += 0x9E3779B97F4A7C15
	z := m.s
	z = (z ^ (z >> 30)) * 0xBF58476D1CE4E5B9
	z = (z ^ (z >> 27)) * 0x94D049BB133111EB
	return z ^ (z >> 31)
}

func (m *splitmix) next256() *big.Int {
	v := new(big.Int)
	for i := 0; i < 4; i++ {
		w := new(big.Int).SetUint64(m.next())
		w.Lsh(w, uint(64*i))
		v.Add(v, w)
	}
	return v
}

func randomPoly(seed uint64) []fr.Element {
	m := &splitmix{seed}
	out := make([]fr.Element, 256)
	for i := range out {
		out[i] = frFromBig(m.next256())
	}
	return out
}

// parsePoly mirrors GoIpa.parsePoly
func parsePoly(d string) []fr.Element {
	out := make([]fr.Element, 256)
	switch d[0] {
	case 'k':
		v := frFromHexBE(d[1:])
		for i := range out {
			out[i] = v
		}
	case 'r':
		n, err := strconv.ParseUint(d[1:], 10, 64)
		if err != nil {
			panic(err)
		}
		return randomPoly(n)
	case 'u':
		out[atoi(d[1:])] = fr.One()
	case 'm':
		m1 := fr.MinusOne()
		for i := range out {
			out[i] = m1
		}
	case 'z':
	case 's':
		for _, it := range splitList(",", d[1:]) {
			kv := strings.Split(it, "=")
			out[atoi(kv[0])] = frFromHexBE(kv[1])
		}
	case 'x':
		items := splitList(",", d[1:])
		out = make([]fr.Element, len(items))
		for i, it := range items {
			out[i] = frFromHexBE(it)
		}
	default:
		panic("bad poly " + d)
	}
	return out
}

func ptHex(e *banderwagon.Element) string {
	b := e.Bytes()
	return hx(b[:])
}

func copyElems(v []fr.Element) []fr.Element {
	return append([]fr.Element(nil), v...)
}

func assertf(fails *[]string, cond bool, format string, args ...interface{}) {
	if !cond {
		*fails = append(*fails, fmt.Sprintf(format, args...))
	}
}

// guarded places a copy of s in the middle of a larger backing array — guard elements in front of
// it and behind it, the rear ones being spare capacity of the returned slice — and returns a check
// that everything outside the slice is untouched.  Callers of the library routinely hand over
// sub-slices of larger buffers; an `append` on such an argument writes into the caller's memory.
func guarded[T comparable](fails *[]string, what string, s []T, fill func(i int) T) ([]T, func()) {
	const g = 24
	// the spare capacity behind the slice is larger than the slice itself (an `append` of a vector
	// of the same length, e.g. append(a, b...), then stays inside the caller's buffer)
	rear := len(s) + g
	arena := make([]T, g+len(s)+rear)
	for i := range arena {
		arena[i] = fill(i)
	}
	copy(arena[g:], s)
	snap := append([]T(nil), arena...)
	sub := arena[g : g+len(s)]
	return sub, func() {
		for i := range arena {
			if i >= g && i < g+len(s) {
				continue
			}
			if arena[i] != snap[i] {
				assertf(fails, false, "%s: memory outside the slice handed to the API was modified (offset %d relative to the slice start, slice length %d)", what, i-g, len(s))
				return
			}
		}
	}
}

var sentinelPts = func() []banderwagon.Element {
	out := make([]banderwagon.Element, 64)
	p := banderwagon.Generator
	for i := range out {
		p.Add(&p, &banderwagon.Generator)
		out[i] = p
	}
	return out
}()

func fillPt(i int) banderwagon.Element { return sentinelPts[i%len(sentinelPts)] }
func fillFr(i int) fr.Element {
	var e fr.Element
	e.SetUint64(uint64(0xC0FFEE00 + i))
	return e
}
func fillU8(i int) uint8 { return uint8(200 + i%50) }

// guardedSlices: the outer [][]T in an arena whose guard entries are sentinel slices
func guardedSlices(fails *[]string, what string, s [][]fr.Element) ([][]fr.Element, func()) {
	const g = 8
	sent := make([]fr.Element, 3)
	arena := make([][]fr.Element, g+len(s)+g)
	for i := range arena {
		arena[i] = sent
	}
	copy(arena[g:], s)
	sub := arena[g : g+len(s)]
	return sub, func() {
		for i := range arena {
			if i >= g && i < g+len(s) {
				continue
			}
			if len(arena[i]) != 3 || &arena[i][0] != &sent[0] {
				assertf(fails, false, "%s: memory outside the slice handed to the API was modified (offset %d)", what, i-g)
				return
			}
		}
	}
}
