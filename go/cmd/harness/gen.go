package main

import (
	"bufio"
	"bytes"
	"fmt"
	"math/big"
	"strings"

	multiproof "github.com/crate-crypto/go-ipa"
	"github.com/crate-crypto/go-ipa/bandersnatch/fr"
	"github.com/crate-crypto/go-ipa/banderwagon"
	"github.com/crate-crypto/go-ipa/common"
)

// ---------------------------------------------------------------- random sources

type rng struct{ sm splitmix }

func newRng(seed uint64, salt string) *rng {
	s := seed*0x9E3779B97F4A7C15 + 0x1234567
	for _, c := range []byte(salt) {
		s = s*1099511628211 + uint64(c)
	}
	return &rng{splitmix{s}}
}

func (r *rng) u64() uint64     { return r.sm.next() }
func (r *rng) intn(n int) int  { return int(r.sm.next() % uint64(n)) }
func (r *rng) coin(p int) bool { return r.intn(100) < p }
func (r *rng) big256() *big.Int {
	return r.sm.next256()
}
func (r *rng) bytes(n int) []byte {
	b := make([]byte, n)
	for i := range b {
		b[i] = byte(r.u64())
	}
	return b
}
func (r *rng) frBig() *big.Int { return new(big.Int).Mod(r.big256(), rMod) }
func (r *rng) frHex() string   { return be32(r.frBig()) }
func (r *rng) pick(l []string) string {
	return l[r.intn(len(l))]
}

var (
	two256 = new(big.Int).Lsh(big.NewInt(1), 256)
	bigOne = big.NewInt(1)
)

func sub(a *big.Int, k int64) *big.Int { return new(big.Int).Sub(a, big.NewInt(k)) }
func add(a *big.Int, k int64) *big.Int { return new(big.Int).Add(a, big.NewInt(k)) }
func pow2(k uint) *big.Int             { return new(big.Int).Lsh(bigOne, k) }

// limbPerturbations: every value whose four 64-bit limbs are those of m shifted by -1/0/+1
// (wrapping), i.e. the inputs that separate a correct multi-limb comparison from a wrong one.
func limbPerturbations(m *big.Int) []*big.Int {
	var limbs [4]uint64
	t := new(big.Int).Set(m)
	mask := new(big.Int).SetUint64(^uint64(0))
	for i := 0; i < 4; i++ {
		limbs[i] = new(big.Int).And(t, mask).Uint64()
		t.Rsh(t, 64)
	}
	var out []*big.Int
	for a := -1; a <= 1; a++ {
		for b := -1; b <= 1; b++ {
			for c := -1; c <= 1; c++ {
				for d := -1; d <= 1; d++ {
					v := new(big.Int)
					for i, e := range []int{a, b, c, d} {
						l := new(big.Int).SetUint64(limbs[i] + uint64(int64(e)))
						v.Add(v, l.Lsh(l, uint(64*i)))
					}
					out = append(out, v)
				}
			}
		}
	}
	// one limb saturated / zeroed
	for i := 0; i < 4; i++ {
		for _, x := range []uint64{0, ^uint64(0)} {
			v := new(big.Int)
			for j := 0; j < 4; j++ {
				lv := limbs[j]
				if j == i {
					lv = x
				}
				l := new(big.Int).SetUint64(lv)
				v.Add(v, l.Lsh(l, uint(64*j)))
			}
			out = append(out, v)
		}
	}
	return out
}

// specialScalars: values the properties single out
func specialScalars() []*big.Int {
	out := []*big.Int{big.NewInt(0), big.NewInt(1), big.NewInt(2), big.NewInt(3), big.NewInt(5),
		sub(rMod, 1), sub(rMod, 2), new(big.Int).Rsh(rMod, 1), add(new(big.Int).Rsh(rMod, 1), 1),
		new(big.Int).Mod(two256, rMod)}
	for _, k := range []uint{8, 16, 31, 32, 63, 64, 65, 126, 127, 128, 129, 192, 252} {
		out = append(out, pow2(k), sub(pow2(k), 1), add(pow2(k), 1))
	}
	// values whose MONTGOMERY representation (the in-memory limbs) is structured: a single word,
	// a word with the top bit set, two words, only a high word — "looks like a small integer" to
	// any code that inspects raw limbs
	rinv := new(big.Int).ModInverse(two256, rMod)
	for _, m := range []*big.Int{big.NewInt(1), big.NewInt(2), big.NewInt(255), big.NewInt(256), big.NewInt(0x9e3779b9),
		pow2(63), add(pow2(63), 12345), sub(pow2(64), 1), pow2(64), add(pow2(64), 7), sub(pow2(128), 1), pow2(128), add(pow2(192), 5)} {
		v := new(big.Int).Mul(m, rinv)
		out = append(out, v.Mod(v, rMod))
	}
	return out
}

func (r *rng) scalar() string {
	if r.coin(35) {
		sp := specialScalars()
		return be32(sp[r.intn(len(sp))])
	}
	if r.coin(15) {
		return be32(big.NewInt(int64(r.intn(70000))))
	}
	return r.frHex()
}

func labelHex(s string) string { return hexOrDash([]byte(s)) }

// a pool of valid compressed points
func pointPool(r *rng, n int) []string {
	var out []string
	g := banderwagon.Generator
	id := banderwagon.Identity
	out = append(out, ptHex(&g), ptHex(&id))
	for len(out) < n {
		var p banderwagon.Element
		switch r.intn(3) {
		case 0:
			p = config().SRS[r.intn(256)]
		case 1:
			p = genMultiple(1 + r.intn(3000))
		default:
			a := config().SRS[r.intn(256)]
			b := genMultiple(1 + r.intn(500))
			p.Add(&a, &b)
		}
		out = append(out, ptHex(&p))
	}
	return out
}

func emit(w *bufio.Writer, format string, args ...interface{}) {
	fmt.Fprintf(w, format, args...)
	w.WriteByte('\n')
}

// ---------------------------------------------------------------- dispatcher

func generate(w *bufio.Writer, id, tier string, seed uint64) {
	thorough := tier == "thorough"
	r := newRng(seed, id)
	switch id {
	case "C01", "C03":
		genMp(w, r, thorough, id)
	case "C02":
		genC02(w, r, thorough)
	case "C04":
		genC04(w, r, thorough)
	case "C05":
		genC05(w, r, thorough)
	case "C06":
		genC06(w, r, thorough)
	case "C07", "C08", "C11":
		genGrp(w, r, thorough, id)
	case "C09":
		genC09(w, r, thorough)
	case "C10":
		genC10(w, r, thorough)
	case "C12":
		genMixed(w, r, thorough, true)
	case "C13":
		genMixed(w, r, thorough, false)
	case "C14":
		genC14(w, r, thorough)
	case "C15":
		genC15(w, r, thorough)
	case "C16":
		genC16(w, r, thorough)
	case "C17":
		genC17(w, r, thorough)
	case "C18":
		genC18(w, r, thorough)
	case "C19":
		genC19(w, r, thorough)
	case "C20":
		genC20(w, r, thorough)
	default:
		panic("unknown property " + id)
	}
}

// ---------------------------------------------------------------- C20

func genC20(w *bufio.Writer, r *rng, thorough bool) {
	if thorough {
		for n := 0; n <= 2048; n++ {
			for m := 1; m <= 300; m++ {
				emit(w, "ranges %d %d", n, m)
			}
		}
		return
	}
	for n := 0; n <= 160; n++ {
		for m := 1; m <= 40; m++ {
			emit(w, "ranges %d %d", n, m)
		}
	}
	for m := 1; m <= 300; m += 1 + m/16 {
		for _, k := range []int{1, 2, 3, 6, 7} {
			for d := -1; d <= 1; d++ {
				if n := k*m + d; n >= 0 && n <= 2048 {
					emit(w, "ranges %d %d", n, m)
				}
			}
		}
		emit(w, "ranges 2048 %d", m)
		emit(w, "ranges 2047 %d", m)
	}
	for i := 0; i < 300; i++ {
		emit(w, "ranges %d %d", r.intn(2049), 1+r.intn(300))
	}
}

// ---------------------------------------------------------------- C16

func genC16(w *bufio.Writer, r *rng, thorough bool) {
	kinds := []string{"be", "le", "lecanon"}
	vals := []*big.Int{big.NewInt(0), big.NewInt(1), big.NewInt(513), sub(rMod, 1), rMod, add(rMod, 1), add(rMod, 2),
		sub(two256, 1), pMod, sub(pMod, 1), new(big.Int).Lsh(rMod, 1), sub(new(big.Int).Lsh(rMod, 1), 1), pow2(255), pow2(253), pow2(252)}
	enc := func(v *big.Int, n int, le bool) []byte {
		b := make([]byte, n)
		v.FillBytes(b)
		if le {
			for i, j := 0, len(b)-1; i < j; i, j = i+1, j-1 {
				b[i], b[j] = b[j], b[i]
			}
		}
		return b
	}
	vals = append(vals, limbPerturbations(rMod)...)
	for _, k := range kinds {
		le := k != "be"
		for _, v := range vals {
			for _, n := range []int{32, 33, 40, 64} {
				emit(w, "fr.dec %s %s", k, hexOrDash(enc(v, n, le)))
			}
		}
		for n := 0; n <= 64; n++ {
			reps := 2
			if thorough {
				reps = 20
			}
			for i := 0; i < reps; i++ {
				emit(w, "fr.dec %s %s", k, hexOrDash(r.bytes(n)))
			}
			// short values with leading / trailing zeros
			b := make([]byte, n)
			if n > 0 {
				b[r.intn(n)] = byte(1 + r.intn(255))
			}
			emit(w, "fr.dec %s %s", k, hexOrDash(b))
		}
		cnt := 300
		if thorough {
			cnt = 20000
		}
		for i := 0; i < cnt; i++ {
			// canonical and just-non-canonical 32-byte values
			v := r.frBig()
			if r.coin(30) {
				v = new(big.Int).Add(v, rMod)
				if v.Cmp(two256) >= 0 {
					v.Sub(v, rMod)
				}
			}
			emit(w, "fr.dec %s %s", k, hx(enc(v, 32, le)))
		}
	}
}

// ---------------------------------------------------------------- C15

var qLimbs = [4]uint64{8429901452645165025, 18415085837358793841, 922804724659942912, 2088379214866112338}

// limbGrid: all 4-limb patterns over the per-limb boundary values that are < r,
// returned as the *regular* value whose Montgomery representation has those limbs.
func limbGrid() []*big.Int {
	rinv := new(big.Int).ModInverse(two256, rMod)
	var out []*big.Int
	var pats [4][]uint64
	for i := 0; i < 4; i++ {
		pats[i] = []uint64{0, 1, 1 << 63, ^uint64(0), qLimbs[i] - 1, qLimbs[i], qLimbs[i] + 1}
	}
	for _, a := range pats[0] {
		for _, b := range pats[1] {
			for _, c := range pats[2] {
				for _, d := range pats[3] {
					raw := new(big.Int)
					for i, l := range []uint64{a, b, c, d} {
						t := new(big.Int).SetUint64(l)
						raw.Add(raw, t.Lsh(t, uint(64*i)))
					}
					if raw.Cmp(rMod) < 0 {
						v := new(big.Int).Mul(raw, rinv)
						out = append(out, v.Mod(v, rMod))
					}
				}
			}
		}
	}
	return out
}

func nearValues() []*big.Int {
	var out []*big.Int
	half := new(big.Int).Rsh(rMod, 1)
	rr := new(big.Int).Mod(two256, rMod)
	for _, c := range []*big.Int{big.NewInt(0), half, rMod, rr} {
		for d := int64(-2); d <= 2; d++ {
			v := add(c, d)
			v.Mod(v, rMod)
			out = append(out, v)
		}
	}
	return out
}

func genC15(w *bufio.Writer, r *rng, thorough bool) {
	grid := limbGrid()
	vals := append(append([]*big.Int{}, grid...), nearValues()...)
	for _, s := range specialScalars() {
		vals = append(vals, new(big.Int).Mod(s, rMod))
	}
	// single-bit neighbourhoods of the constants any limb-inspecting shortcut would compare with: the
	// MONTGOMERY limbs of 0, 1, 2, -1, 1/2, R (i.e. the raw patterns 0, R mod r, ..., and the modulus limbs)
	// with one bit of one limb flipped (bits 0..3, 31, 32, 62, 63) — an `IsOne()` / `IsZero()`-style test
	// written with the wrong operator precedence, mask or limb order accepts exactly such values
	{
		rinv := new(big.Int).ModInverse(two256, rMod)
		var pats []*big.Int
		for _, reg := range []*big.Int{big.NewInt(0), big.NewInt(1), big.NewInt(2), sub(rMod, 1), new(big.Int).Rsh(add(rMod, 1), 1), new(big.Int).Mod(two256, rMod)} {
			m := new(big.Int).Mul(reg, two256)
			pats = append(pats, m.Mod(m, rMod)) // its Montgomery limbs
		}
		pats = append(pats, sub(rMod, 1), big.NewInt(1))
		for _, m := range pats {
			for limb := uint(0); limb < 4; limb++ {
				for _, bit := range []uint{0, 1, 2, 3, 31, 32, 62, 63} {
					raw := new(big.Int).Xor(m, pow2(64*limb+bit))
					if raw.Cmp(rMod) >= 0 {
						continue
					}
					v := new(big.Int).Mul(raw, rinv)
					vals = append(vals, v.Mod(v, rMod))
				}
			}
		}
	}
	for _, v := range vals {
		emit(w, "fr.un %s", be32(v))
	}
	nun := 300
	if thorough {
		nun = 20000
	}
	for i := 0; i < nun; i++ {
		emit(w, "fr.un %s", r.frHex())
	}
	if thorough {
		for _, a := range grid {
			for _, b := range grid {
				emit(w, "fr.bin %s %s", be32(a), be32(b))
			}
		}
	} else {
		// every grid value at least once on each side, plus a random subsample of the cross product
		for i, a := range grid {
			emit(w, "fr.bin %s %s", be32(a), be32(grid[(i*7+3)%len(grid)]))
			emit(w, "fr.bin %s %s", be32(a), be32(a))
		}
		for i := 0; i < 25000; i++ {
			emit(w, "fr.bin %s %s", be32(grid[r.intn(len(grid))]), be32(grid[r.intn(len(grid))]))
		}
	}
	// operand pairs whose RESULT lands on a limb-boundary value: product, sum and difference
	bands := append([]*big.Int{}, grid...)
	rinv := new(big.Int).ModInverse(two256, rMod)
	for i := 0; i < 400; i++ { // results with zero top limb(s) and arbitrary lower limbs (reduction bands)
		raw := new(big.Int).And(r.big256(), sub(pow2(uint(64*(1+r.intn(3)))), 1))
		if r.coin(50) {
			raw.Add(raw, new(big.Int).Lsh(big.NewInt(int64(1+r.intn(3))), uint(64*(1+r.intn(2)))))
		}
		raw.Mod(raw, rMod)
		v := new(big.Int).Mul(raw, rinv)
		bands = append(bands, v.Mod(v, rMod))
	}
	reps := 1
	if thorough {
		reps = 6
	}
	for rep := 0; rep < reps; rep++ {
		for _, v := range bands {
			x := r.frBig()
			if x.Sign() == 0 {
				x = big.NewInt(3)
			}
			y := new(big.Int).Mul(v, new(big.Int).ModInverse(x, rMod))
			y.Mod(y, rMod)
			emit(w, "fr.bin %s %s", be32(x), be32(y)) // x*y = v
			d := new(big.Int).Sub(v, x)
			emit(w, "fr.bin %s %s", be32(x), be32(d.Mod(d, rMod))) // x+y = v
			sum := new(big.Int).Add(v, x)
			emit(w, "fr.bin %s %s", be32(sum.Mod(sum, rMod)), be32(x)) // x-y = v
		}
	}
	// pairs of REGULAR values with every per-limb order pattern (<, =, >) — comparison logic
	for pat := 0; pat < 81; pat++ {
		for rep := 0; rep < 2; rep++ {
			a, b := new(big.Int), new(big.Int)
			pp := pat
			for i := 0; i < 4; i++ {
				lim := uint64(1) << 62 // keeps both values below r
				if i < 3 {
					lim = ^uint64(0) - 2
				}
				x := 1 + r.u64()%lim
				var y uint64
				switch pp % 3 {
				case 0:
					y = x
				case 1:
					y = x + 1
				default:
					y = x - 1
				}
				pp /= 3
				xa := new(big.Int).SetUint64(x)
				ya := new(big.Int).SetUint64(y)
				a.Add(a, xa.Lsh(xa, uint(64*i)))
				b.Add(b, ya.Lsh(ya, uint(64*i)))
			}
			emit(w, "fr.bin %s %s", be32(a.Mod(a, rMod)), be32(b.Mod(b, rMod)))
		}
	}
	nb := 3000
	if thorough {
		nb = 100000
	}
	for i := 0; i < nb; i++ {
		a, b := r.frBig(), r.frBig()
		if r.coin(30) {
			a = vals[r.intn(len(vals))]
		}
		if r.coin(30) {
			b = vals[r.intn(len(vals))]
		}
		emit(w, "fr.bin %s %s", be32(a), be32(b))
	}
	nb2 := 1500
	if thorough {
		nb2 = 40000
	}
	for i := 0; i < nb2; i++ {
		a, b := r.frBig(), r.frBig()
		if r.coin(40) {
			a = vals[r.intn(len(vals))]
		}
		if r.coin(40) {
			b = vals[r.intn(len(vals))]
		}
		emit(w, "fr.bin2 %s %s", be32(a), be32(b))
	}
	// BatchInvert: zeros at every position, all zeros, empty, no zeros
	emit(w, "fr.batchinv -")
	for n := 1; n <= 12; n++ {
		for z := 0; z <= n; z++ {
			var items []string
			for i := 0; i < n; i++ {
				if i == z || (z == n && r.coin(50)) {
					items = append(items, be32(big.NewInt(0)))
				} else {
					items = append(items, r.scalar())
				}
			}
			emit(w, "fr.batchinv %s", strings.Join(items, ","))
		}
	}
	emit(w, "fr.batchinv %s", strings.Join([]string{be32(big.NewInt(0)), be32(big.NewInt(0)), be32(big.NewInt(0))}, ","))
	for i := 0; i < 10; i++ {
		var items []string
		for j := 0; j < 256; j++ {
			if r.coin(20) {
				items = append(items, be32(big.NewInt(0)))
			} else {
				items = append(items, r.frHex())
			}
		}
		emit(w, "fr.batchinv %s", strings.Join(items, ","))
	}
}

// ---------------------------------------------------------------- C14

func genTrHistory(r *rng, pool []string, maxLen int) string {
	n := r.intn(maxLen + 1)
	var ops []string
	lab := func() string {
		switch r.intn(6) {
		case 0:
			return "-"
		case 1:
			return labelHex(r.pick([]string{"C", "z", "y", "r", "t", "x", "L", "R", "w", "ipa", "multiproof", "input point"}))
		default:
			return hexOrDash(r.bytes(r.intn(12)))
		}
	}
	for i := 0; i < n; i++ {
		switch r.intn(10) {
		case 0:
			ops = append(ops, "d:"+lab())
		case 1, 2:
			sz := r.intn(40)
			if r.coin(5) {
				sz = 900 + r.intn(4000) // pending buffer beyond 1 kB / 4 kB
			}
			ops = append(ops, "m:"+lab()+":"+hexOrDash(r.bytes(sz)))
		case 3, 4, 5:
			ops = append(ops, "s:"+lab()+":"+r.scalar())
		case 6, 7:
			ops = append(ops, "p:"+lab()+":"+r.pick(pool))
		default:
			ops = append(ops, "c:"+lab())
		}
	}
	if r.coin(80) {
		ops = append(ops, "c:"+lab())
	}
	return joinWith(";", ops)
}

func genC14(w *bufio.Writer, r *rng, thorough bool) {
	pool := pointPool(r, 24)
	maxLen, cnt := 64, 500
	if thorough {
		maxLen, cnt = 512, 6000
	}
	emit(w, "tr %s -", labelHex("simple_protocol"))
	emit(w, "tr - c:-")
	emit(w, "tr - c:-;c:-;c:-")
	for i := 0; i < cnt; i++ {
		l := maxLen
		if r.coin(70) {
			l = 12
		}
		emit(w, "tr %s %s", hexOrDash(r.bytes(r.intn(20))), genTrHistory(r, pool, l))
	}
	// repeated separators and repeated sub-protocol runs on one transcript
	for _, l := range []string{labelHex("ipa"), labelHex("multiproof"), "-", hx(r.bytes(5))} {
		x := labelHex("x")
		emit(w, "tr %s d:%s;c:%s", labelHex("t"), l, x)
		emit(w, "tr %s d:%s;d:%s;c:%s", labelHex("t"), l, l, x)
		emit(w, "tr %s d:%s;d:%s;d:%s;c:%s;d:%s;c:%s", labelHex("t"), l, l, l, x, l, x)
		emit(w, "tr %s d:%s;s:%s:%s;c:%s;d:%s;s:%s:%s;c:%s;d:%s;c:%s", labelHex("t"), l, x, r.scalar(), x, l, x, r.scalar(), x, l, x)
		emit(w, "tr %s d:%s;m:%s:%s;d:%s;m:%s:%s;c:%s", labelHex("t"), l, l, l, l, l, l, l)
		emit(w, "trpair %s d:%s;c:%s %s d:%s;d:%s;c:%s", labelHex("t"), l, x, labelHex("t"), l, l, x)
	}
	// runs of point / scalar appends (a caller that appends a running accumulator after each step)
	for i := 0; i < 12; i++ {
		var ops []string
		for k := 0; k < 2+r.intn(5); k++ {
			ops = append(ops, "p:"+labelHex("acc")+":"+pool[r.intn(len(pool))])
			if r.coin(30) {
				ops = append(ops, "s:"+labelHex("s")+":"+r.scalar())
			}
			if r.coin(40) {
				ops = append(ops, "c:"+labelHex("x"))
			}
		}
		ops = append(ops, "c:"+labelHex("x"))
		emit(w, "tr %s %s", labelHex("acc"), strings.Join(ops, ";"))
	}
	// long CHALLENGE labels (the label is absorbed, and re-absorbed with the challenge), followed by further challenges
	for _, ll := range []int{100, 992, 993, 1023, 1024, 1025, 2048, 5000} {
		long := hx(r.bytes(ll))
		emit(w, "tr %s c:%s;c:%s;s:%s:%s;c:%s", labelHex("t"), long, labelHex("x"), labelHex("y"), r.scalar(), labelHex("x"))
		emit(w, "tr %s m:%s:%s;c:%s;c:%s;c:%s", labelHex("t"), labelHex("L"), hx(r.bytes(40)), long, long, labelHex("x"))
		emit(w, "tr %s d:%s;c:%s;d:%s;c:%s", labelHex("t"), long, labelHex("x"), long, long)
	}
	// long pending buffers: many appends before one challenge
	for _, total := range []int{1000, 1024, 1025, 2047, 4096, 5000, 20000} {
		var ops []string
		left := total
		for left > 0 {
			k := 1 + r.intn(200)
			if k > left {
				k = left
			}
			ops = append(ops, "m:"+labelHex("L")+":"+hx(r.bytes(k)))
			left -= k
		}
		ops = append(ops, "c:"+labelHex("x"), "s:"+labelHex("y")+":"+r.scalar(), "c:"+labelHex("x"))
		emit(w, "tr %s %s", labelHex("test"), strings.Join(ops, ";"))
	}
	// binding pairs
	pcnt := 300
	if thorough {
		pcnt = 4000
	}
	for i := 0; i < pcnt; i++ {
		label := hexOrDash(r.bytes(r.intn(8)))
		h := genTrHistory(r, pool, 10)
		if h == "-" {
			continue
		}
		ops := strings.Split(h, ";")
		mut := append([]string(nil), ops...)
		k := r.intn(len(ops))
		f := strings.Split(mut[k], ":")
		label2 := label
		switch r.intn(5) {
		case 0: // change a byte of a label or message, keeping the length
			j := 1 + r.intn(len(f)-1)
			b := mustUnhex(f[j])
			if len(b) == 0 || f[0] == "p" && j == 2 || f[0] == "s" && j == 2 {
				continue
			}
			b[r.intn(len(b))] ^= byte(1 + r.intn(255))
			f[j] = hx(b)
			mut[k] = strings.Join(f, ":")
		case 1: // swap two operations
			j := r.intn(len(ops))
			mut[k], mut[j] = mut[j], mut[k]
		case 2: // change the protocol label
			label2 = hexOrDash(r.bytes(1 + r.intn(8)))
		case 3: // drop an operation
			mut = append(mut[:k], mut[k+1:]...)
		default: // move bytes between label and message (unframed concatenation)
			if f[0] != "m" {
				continue
			}
			l, m := mustUnhex(f[1]), mustUnhex(f[2])
			if len(l) == 0 {
				continue
			}
			m = append([]byte{l[len(l)-1]}, m...)
			l = l[:len(l)-1]
			mut[k] = "m:" + hexOrDash(l) + ":" + hexOrDash(m)
		}
		if len(mut) == 0 || !strings.HasPrefix(mut[len(mut)-1], "c:") || !strings.HasPrefix(ops[len(ops)-1], "c:") {
			mut = append(mut, "c:"+labelHex("q"))
			ops = append(ops, "c:"+labelHex("q"))
		}
		emit(w, "trpair %s %s %s %s", label, strings.Join(ops, ";"), label2, joinWith(";", mut))
	}
	// the documented framing collision
	emit(w, "trpair - m:%s:%s;c:%s - m:%s:%s;c:%s", hx([]byte("ab")), hx([]byte("c")), hx([]byte("q")), hx([]byte("a")), hx([]byte("bc")), hx([]byte("q")))
}

// ---------------------------------------------------------------- C06 / C17

func bigFromHex(s string) *big.Int { return new(big.Int).SetBytes(mustUnhex(s)) }

var (
	curveA = sub(pMod, 5)
	curveD = func() *big.Int {
		v, _ := new(big.Int).SetString("45022363124591815672509500913686876175488063829319466900776701791074614335719", 10)
		return v
	}()
)

func mulm(a, b *big.Int) *big.Int { v := new(big.Int).Mul(a, b); return v.Mod(v, pMod) }
func subm(a, b *big.Int) *big.Int { v := new(big.Int).Sub(a, b); return v.Mod(v, pMod) }

// classify x (independently of the library): on curve? in the Banderwagon subgroup?
func classifyX(x *big.Int) (onCurve, subgroup bool, y *big.Int) {
	x = new(big.Int).Mod(x, pMod)
	xx := mulm(x, x)
	num := subm(mulm(curveA, xx), bigOne)
	den := subm(mulm(curveD, xx), bigOne)
	y2 := mulm(num, new(big.Int).ModInverse(den, pMod))
	y = new(big.Int).ModSqrt(y2, pMod)
	if y == nil {
		return false, false, nil
	}
	t := subm(bigOne, mulm(curveA, xx))
	return true, t.Sign() != 0 && big.Jacobi(t, pMod) == 1, y
}

func largerRoot(y *big.Int) *big.Int {
	n := subm(big.NewInt(0), y)
	if n.Cmp(y) > 0 {
		return n
	}
	return y
}

func genC06(w *bufio.Writer, r *rng, thorough bool) {
	cnt := 400
	if thorough {
		cnt = 12000
	}
	boundary := []*big.Int{big.NewInt(0), big.NewInt(1), sub(pMod, 1), pMod, add(pMod, 1), sub(two256, 1), new(big.Int).Rsh(pMod, 1)}
	for _, v := range boundary {
		emit(w, "pt.dec %s", be32(v))
		for _, t := range []string{"0", "1"} {
			emit(w, "pt.decunc %s%s %s", be32(v), be32(big.NewInt(1)), t)
			emit(w, "pt.decunc %s%s %s", be32(v), be32(sub(pMod, 1)), t)
			emit(w, "pt.decunc %s%s %s", be32(big.NewInt(0)), be32(v), t)
		}
	}
	for _, v := range limbPerturbations(pMod) {
		emit(w, "pt.dec %s", be32(v))
		emit(w, "pt.decunc %s%s 0", be32(v), be32(sub(pMod, 1)))
		emit(w, "pt.decunc %s%s 0", be32(big.NewInt(0)), be32(v))
	}
	for n := 0; n <= 70; n++ {
		emit(w, "pt.dec %s", hexOrDash(r.bytes(n)))
	}
	for n := 0; n <= 130; n += 1 + n/40 {
		emit(w, "pt.decunc %s 0", hexOrDash(r.bytes(n)))
		emit(w, "pt.decunc %s 1", hexOrDash(r.bytes(n)))
	}
	stats := map[string]int{}
	for i := 0; i < cnt; i++ {
		x := new(big.Int).Mod(r.big256(), pMod)
		on, sg, y := classifyX(x)
		kind := "offcurve"
		if on && sg {
			kind = "valid"
		} else if on {
			kind = "nonsubgroup"
		}
		stats[kind]++
		negx := subm(big.NewInt(0), x)
		alias := new(big.Int).Add(x, pMod) // always < 2^256
		emit(w, "pt.dec %s", be32(x))
		emit(w, "pt.dec %s", be32(alias))
		emit(w, "pt.dec %s", be32(negx))
		if !on {
			emit(w, "pt.decunc %s%s 0", be32(x), be32(new(big.Int).Mod(r.big256(), pMod)))
			continue
		}
		yl := largerRoot(y)
		ys := subm(big.NewInt(0), yl)
		for _, t := range []string{"0", "1"} {
			emit(w, "pt.decunc %s%s %s", be32(x), be32(yl), t)                         // canonical
			emit(w, "pt.decunc %s%s %s", be32(x), be32(ys), t)                         // wrong sign of y
			emit(w, "pt.decunc %s%s %s", be32(alias), be32(yl), t)                     // x + p alias
			emit(w, "pt.decunc %s%s %s", be32(x), be32(new(big.Int).Add(yl, pMod)), t) // y + p alias
			emit(w, "pt.decunc %s%s %s", be32(negx), be32(yl), t)                      // other sign of x
			emit(w, "pt.decunc %s%s %s", be32(x), be32(add(yl, 1)), t)                 // wrong y
			emit(w, "pt.decunc %s%s00 %s", be32(x), be32(yl), t)                       // trailing byte
		}
	}
	// common.ReadPoint over scripted readers: full, truncated (also with zero-padding-valid prefixes), chunked
	for _, h := range pointPool(r, 40) {
		b := mustUnhex(h)
		emit(w, "rdpt %s - 0 -", h)
		emit(w, "rdpt %s 1,1,1,1,1,1,1,1,1,1,1,1,1,1,1,1,1,1,1,1,1,1,1,1,1,1,1,1,1,1,1,1 1 -", h)
		emit(w, "rdpt %s 16,16 1 -", h)
		emit(w, "rdpt %s00 31,5 0 -", h)
		for cut := 31; cut >= 29; cut-- {
			emit(w, "rdpt %s - 0 -", hx(b[:cut]))
			emit(w, "rdpt %s - 1 -", hx(b[:cut]))
		}
		emit(w, "rdpt %s - 0 %d", h, r.intn(33))
	}
	// encodings ending in zero bytes, then truncated: zero padding must not resurrect them
	found := 0
	for k := 1; k < 60000 && found < 4; k++ {
		p := genMultiple(k)
		b := p.Bytes()
		if b[31] == 0 {
			found++
			emit(w, "rdpt %s - 0 -", hx(b[:31]))
			emit(w, "pt.dec %s", hx(b[:31]))
		}
	}
	// valid points at the edges of the canonical range
	for _, x := range boundaryXs() {
		_, _, y := classifyX(x)
		emit(w, "pt.dec %s", be32(x))
		emit(w, "pt.dec %s", be32(new(big.Int).Add(x, pMod)))
		emit(w, "pt.decunc %s%s 0", be32(x), be32(largerRoot(y)))
		emit(w, "pt.decunc %s%s 0", be32(x), be32(subm(big.NewInt(0), largerRoot(y))))
		emit(w, "rdpt %s - 0 -", be32(x))
	}
	// valid encodings of structured elements
	for _, h := range pointPool(r, 40) {
		emit(w, "pt.dec %s", h)
		x := bigFromHex(h)
		emit(w, "pt.dec %s", be32(new(big.Int).Add(x, pMod)))
	}
}

func genC17(w *bufio.Writer, r *rng, thorough bool) {
	g, _ := new(big.Int).SetString("10238227357739495823651030575849232062558860180284477541189508159991286009131", 10)
	odd := func() *big.Int { // random element of odd order: s^(2^32)
		s := new(big.Int).Mod(r.big256(), pMod)
		if s.Sign() == 0 {
			s = big.NewInt(3)
		}
		return new(big.Int).Exp(s, pow2(32), pMod)
	}
	emitV := func(v *big.Int) { emit(w, "fp.sqrt %s", be32(v)) }
	for _, v := range []*big.Int{big.NewInt(0), big.NewInt(1), big.NewInt(2), big.NewInt(4), big.NewInt(5), big.NewInt(7), sub(pMod, 1), sub(pMod, 2), sub(pMod, 5), curveD} {
		emitV(v)
	}
	// 2^k-th roots of unity and their products with odd-order elements
	for k := uint(0); k <= 32; k++ {
		w2k := new(big.Int).Exp(g, pow2(32-k), pMod)
		emitV(w2k)
		emitV(mulm(w2k, odd()))
		emitV(mulm(mulm(w2k, w2k), odd()))
	}
	reps := 1
	if thorough {
		reps = 8
	}
	// every 8-bit value in each of the 4 dlog blocks, other blocks random / zero
	for rep := 0; rep < reps; rep++ {
		for blk := uint(0); blk < 4; blk++ {
			for b := int64(0); b < 256; b++ {
				e := new(big.Int).Lsh(big.NewInt(b), 8*blk)
				if rep > 0 || blk > 0 {
					// randomise the other blocks, sometimes keep the exponent even, sometimes odd
					o := new(big.Int).SetUint64(r.u64() & 0xFFFFFFFF)
					mask := new(big.Int).Lsh(big.NewInt(255), 8*blk)
					o.AndNot(o, mask)
					if rep%2 == 1 {
						e.Or(e, o)
					} else if blk > 0 {
						e.Or(e, new(big.Int).And(o, sub(pow2(8*blk), 0)))
					}
				}
				emitV(mulm(new(big.Int).Exp(g, e, pMod), odd()))
			}
		}
	}
	cnt := 1500
	if thorough {
		cnt = 40000
	}
	for i := 0; i < cnt; i++ {
		v := new(big.Int).Mod(r.big256(), pMod)
		if r.coin(50) {
			v = mulm(v, v)
		}
		emitV(v)
	}
	nx := 600
	if thorough {
		nx = 20000
	}
	for i := 0; i < nx; i++ {
		x := new(big.Int).Mod(r.big256(), pMod)
		emit(w, "pt.fromx %s 1", be32(x))
		emit(w, "pt.fromx %s 0", be32(x))
	}
	for _, v := range []*big.Int{big.NewInt(0), big.NewInt(1), sub(pMod, 1)} {
		emit(w, "pt.fromx %s 1", be32(v))
		emit(w, "pt.fromx %s 0", be32(v))
	}
	// histories: a point recovery (which negates / rescales the root it obtained in place) followed by a square
	// root in the same process — the result of the second call must not depend on the first (no shared
	// "constant" handed out by pointer)
	{
		specials := []*big.Int{big.NewInt(0), big.NewInt(1), sub(pMod, 1), big.NewInt(4), sub(pMod, 4), mulm(big.NewInt(7), big.NewInt(7))}
		for _, x := range []*big.Int{big.NewInt(0), big.NewInt(1), sub(pMod, 1), new(big.Int).Mod(r.big256(), pMod), new(big.Int).Mod(r.big256(), pMod)} {
			for _, b := range []int{1, 0} {
				for _, v := range specials {
					emit(w, "fp.hist %s %d %s", be32(x), b, be32(v))
				}
				// the value just produced, and its negation, as the next input
				emit(w, "fp.hist %s %d %s", be32(x), b, be32(mulm(x, x)))
			}
		}
	}
	// sign selection on roots close to the middle of the field: y = (p-1)/2 + k and (p+1)/2 - k share their
	// upper 192 / 128 / 64 bits with p - y, so the choice between y and -y is decided by the low limbs only.
	// x is recovered from y through the curve equation x^2 = (1 - y^2) / (a - d y^2).
	half := new(big.Int).Rsh(sub(pMod, 1), 1)
	var ks []*big.Int
	nk := int64(40)
	if thorough {
		nk = 400
	}
	for k := int64(1); k <= nk; k++ {
		ks = append(ks, big.NewInt(k))
	}
	for _, sh := range []uint{31, 32, 63, 64, 65, 127, 128, 129, 191, 192} {
		for d := int64(-2); d <= 2; d++ {
			ks = append(ks, add(pow2(sh), d))
		}
		for i := 0; i < 6; i++ {
			ks = append(ks, new(big.Int).Rsh(r.big256(), 256-sh))
		}
	}
	for _, k := range ks {
		for _, y := range []*big.Int{new(big.Int).Add(half, k), new(big.Int).Sub(add(half, 1), k)} {
			yy := mulm(y, y)
			den := subm(curveA, mulm(curveD, yy))
			if den.Sign() == 0 {
				continue
			}
			xx := mulm(subm(bigOne, yy), new(big.Int).ModInverse(den, pMod))
			x := new(big.Int).ModSqrt(xx, pMod)
			if x == nil {
				continue
			}
			emit(w, "pt.fromx %s 1", be32(x))
			emit(w, "pt.fromx %s 0", be32(x))
		}
	}
}

// ---------------------------------------------------------------- C07 / C08 / C11 / C19

func genProgram(r *rng, n int, withZero, allowIdentitySmul bool) string {
	var ins []string
	// what each register is: "v" valid, "z" zero value
	var kind []byte
	push := func(s string, k byte) { ins = append(ins, s); kind = append(kind, k) }
	push("g", 'v')
	push("o", 'v')
	push(fmt.Sprintf("c:%d", r.intn(256)), 'v')
	validReg := func() int {
		for {
			i := r.intn(len(kind))
			if kind[i] == 'v' {
				return i
			}
		}
	}
	for len(ins) < n {
		a, b := validReg(), validReg()
		switch r.intn(22) {
		case 0:
			push(fmt.Sprintf("c:%d", r.intn(256)), 'v')
		case 1, 2, 3:
			push(fmt.Sprintf("add:%d:%d", a, b), 'v')
		case 4, 5:
			push(fmt.Sprintf("sub:%d:%d", a, b), 'v')
		case 6:
			push(fmt.Sprintf("dbl:%d", a), 'v')
		case 7:
			push(fmt.Sprintf("neg:%d", a), 'v')
		case 8, 9, 10:
			if !allowIdentitySmul && (a == 1) {
				continue
			}
			push(fmt.Sprintf("smul:%d:%s", a, r.scalar()), 'v')
		case 11:
			push(fmt.Sprintf("mix:%d:%d", a, b), 'v')
		case 12:
			push(fmt.Sprintf("set:%d", a), 'v')
		case 13:
			push(fmt.Sprintf("norm:%d", a), 'v')
		case 14, 15:
			l := new(big.Int).Mod(r.big256(), pMod)
			if l.Sign() == 0 {
				l = big.NewInt(2)
			}
			push(fmt.Sprintf("resc:%d:%s", a, be32(l)), 'v')
		case 16, 17:
			push(fmt.Sprintf("flip:%d", a), 'v')
		case 18:
			k := 1 + r.intn(6)
			var rs, ss []string
			for i := 0; i < k; i++ {
				rs = append(rs, fmt.Sprint(validReg()))
				ss = append(ss, r.scalar())
			}
			push("msm:"+strings.Join(rs, ",")+":"+strings.Join(ss, ","), 'v')
		case 19:
			k := 1 + r.intn(4)
			var items []string
			for i := 0; i < k; i++ {
				items = append(items, fmt.Sprintf("%d=%s", r.intn(256), r.scalar()))
			}
			push("pmsm:"+strings.Join(items, ","), 'v')
		case 20:
			// re-derive an existing element by another route: a + b - b, 2a = a + a
			push(fmt.Sprintf("add:%d:%d", a, a), 'v')
			push(fmt.Sprintf("dbl:%d", a), 'v')
		default:
			if withZero {
				push("z", 'z')
			} else {
				var p banderwagon.Element
				p = genMultiple(1 + r.intn(2000))
				push("dec:"+ptHex(&p), 'v')
			}
		}
	}
	return strings.Join(ins, ";")
}

// lawProgram: explicit instances of the group laws named in C08
func lawProgram(r *rng, identityOperand bool) string {
	s, t := r.frBig(), r.frBig()
	if r.coin(50) {
		sp := specialScalars()
		s = new(big.Int).Mod(sp[r.intn(len(sp))], rMod)
	}
	st := new(big.Int).Add(s, t)
	st.Mod(st, rMod)
	base := fmt.Sprintf("c:%d", r.intn(256))
	if r.coin(30) {
		base = "g"
	}
	if identityOperand {
		base = "o"
	}
	prog := []string{
		base, fmt.Sprintf("c:%d", r.intn(256)), // 0: P, 1: Q
		"smul:0:" + be32(s), "smul:0:" + be32(t), "add:2:3", "smul:0:" + be32(st), // 4 == 5
		"add:0:1", "smul:6:" + be32(s), "smul:1:" + be32(s), "add:2:8", // 7 == 9
		"smul:0:" + be32(big.NewInt(0)), "o", // 10 == 11
		"smul:0:" + be32(sub(rMod, 1)), "add:12:0", // 13 == identity
		"sub:0:0", "add:0:11", // 14 == identity, 15 == P
		"neg:0", "add:0:16", "smul:0:" + be32(big.NewInt(1)), "smul:0:" + be32(big.NewInt(2)), "dbl:0",
	}
	return strings.Join(prog, ";")
}

// boundaryXs: valid (on-curve, subgroup) x-coordinates sitting at the edges of the canonical
// range: just below p, sharing the top limb(s) of p, tiny values.
func boundaryXs() []*big.Int {
	var out []*big.Int
	mask64 := new(big.Int).SetUint64(^uint64(0))
	top1 := new(big.Int).Lsh(new(big.Int).And(new(big.Int).Rsh(pMod, 192), mask64), 192)
	top2 := new(big.Int).Lsh(new(big.Int).Rsh(pMod, 128), 128)
	top3 := new(big.Int).Lsh(new(big.Int).Rsh(pMod, 64), 64)
	bases := []*big.Int{top1, top2, top3, big.NewInt(0), pow2(64), pow2(128), pow2(192)}
	for _, b := range bases {
		found := 0
		for k := int64(0); k < 400 && found < 4; k++ {
			x := add(b, k)
			if x.Cmp(pMod) >= 0 {
				break
			}
			if on, sg, _ := classifyX(x); on && sg {
				out = append(out, x)
				found++
			}
		}
	}
	found := 0
	for k := int64(1); k < 400 && found < 6; k++ {
		x := sub(pMod, k)
		if on, sg, _ := classifyX(x); on && sg {
			out = append(out, x)
			found++
		}
	}
	return out
}

// pointWithRatio solves the curve equation for a point with x/y = t (independently of the
// library) and returns its compressed encoding, or "" if there is none in the subgroup.
func pointWithRatio(t *big.Int) string {
	t = new(big.Int).Mod(t, pMod)
	if t.Sign() == 0 {
		return ""
	}
	// x = t y:  d t^2 u^2 - (a t^2 + 1) u + 1 = 0  for u = y^2
	tt := mulm(t, t)
	A := mulm(curveD, tt)
	B := new(big.Int).Add(mulm(curveA, tt), bigOne)
	B.Mod(B, pMod)
	disc := subm(mulm(B, B), mulm(big.NewInt(4), A))
	sq := new(big.Int).ModSqrt(disc, pMod)
	if sq == nil {
		return ""
	}
	inv2A := new(big.Int).ModInverse(mulm(big.NewInt(2), A), pMod)
	for _, s := range []*big.Int{sq, subm(big.NewInt(0), sq)} {
		u := mulm(new(big.Int).Mod(new(big.Int).Add(B, s), pMod), inv2A)
		y := new(big.Int).ModSqrt(u, pMod)
		if y == nil {
			continue
		}
		x := mulm(t, y)
		on, sg, _ := classifyX(x)
		if !on || !sg {
			continue
		}
		// compressed: x times the sign of y
		if largerRoot(y).Cmp(y) != 0 {
			x = subm(big.NewInt(0), x)
		}
		return be32(x)
	}
	return ""
}

// ratioTargets: values of x/y at which the reduction into the scalar field is delicate
func ratioTargets(r *rng) []*big.Int {
	var out []*big.Int
	q3 := new(big.Int).SetUint64(qLimbs[3])
	for k := int64(1); k <= 3; k++ {
		kr := new(big.Int).Mul(big.NewInt(k), rMod)
		for d := int64(-3); d <= 3; d++ {
			out = append(out, add(kr, d))
		}
		// top limb equal to k * (top limb of r), lower limbs small / random / saturated
		top := new(big.Int).Lsh(new(big.Int).Mul(big.NewInt(k), q3), 192)
		for i := 0; i < 14; i++ {
			low := new(big.Int).SetUint64(r.u64() >> uint(r.intn(64)))
			if i%3 == 1 {
				low = new(big.Int).And(r.big256(), sub(pow2(192), 1))
			}
			if i%3 == 2 {
				low = new(big.Int).Lsh(new(big.Int).SetUint64(r.u64()), uint(64*r.intn(3)))
			}
			out = append(out, new(big.Int).Add(top, low))
		}
	}
	for i := 0; i < 6; i++ {
		out = append(out, sub(pMod, int64(1+r.intn(5))), big.NewInt(int64(1+r.intn(5))))
	}
	return out
}

func genGrp(w *bufio.Writer, r *rng, thorough bool, id string) {
	if id == "C07" {
		var regs []string
		for _, x := range boundaryXs() {
			regs = append(regs, "dec:"+be32(x))
			// the other sign of x: the negated element, also valid
			regs = append(regs, "dec:"+be32(subm(big.NewInt(0), x)))
		}
		regs = append(regs, "dec:"+be32(big.NewInt(0))) // the identity as decoded: (0,-1)
		for i := 0; i < len(regs); i += 8 {
			j := i + 8
			if j > len(regs) {
				j = len(regs)
			}
			n := j - i
			prog := strings.Join(regs[i:j], ";") + fmt.Sprintf(";flip:0;resc:1:%s;add:0:%d;sub:%d:%d;z;o;smul:%d:%s", be32(big.NewInt(11)), n-1, n+2, n-1, n-1, r.frHex())
			emit(w, "grp %s", prog)
		}
		// decoded identity (0,-1) through every operation
		emit(w, "grp dec:%s;g;add:1:0;sub:2:1;smul:0:%s;smul:3:%s;dbl:0;neg:0;z;o;flip:9;mix:1:0", be32(big.NewInt(0)), r.frHex(), r.frHex())
		// BatchNormalize must only rescale: batches mixing already-normalised (Z = 1) elements —
		// decoded points, the generator, CRS points — with projective ones, and repeated pointers
		for i := 0; i < 10; i++ {
			n := 6 + r.intn(14)
			prog := genProgram(r, n, false, false) + fmt.Sprintf(";dec:%s;c:%d;norm:%d", be32(boundaryXs()[r.intn(len(boundaryXs()))]), r.intn(256), r.intn(n))
			if i%2 == 1 {
				prog += fmt.Sprintf(";alias:%d;alias:%d", r.intn(n), n)
			}
			emit(w, "batch %s", prog)
		}
	}
	if id == "C11" {
		var regs []string
		for _, t := range ratioTargets(r) {
			if h := pointWithRatio(t); h != "" {
				regs = append(regs, "dec:"+h)
			}
		}
		for i := 0; i+6 <= len(regs); i += 6 {
			prog := strings.Join(regs[i:i+6], ";") + ";flip:0;resc:1:" + be32(big.NewInt(7)) + ";o;add:2:8"
			emit(w, "grp %s", prog)
			emit(w, "batch %s", prog)
		}
		// the same pointer several times in one batch: every slot of the caller's storage is written
		for i := 0; i < 10; i++ {
			n := 5 + r.intn(12)
			prog := genProgram(r, n, false, false)
			for k := 0; k < 1+r.intn(4); k++ {
				prog += fmt.Sprintf(";alias:%d", r.intn(n))
			}
			prog += ";alias:1;alias:1" // the identity referenced twice
			emit(w, "batch %s", prog)
		}
		// large batches (also issued concurrently by the check's second mode)
		for i := 0; i < 12; i++ {
			emit(w, "batch %s", genProgram(r, 280+r.intn(60), false, false))
		}
	}
	cnt := 60
	if thorough {
		cnt = 1500
	}
	for i := 0; i < cnt; i++ {
		n := 8 + r.intn(18)
		emit(w, "grp %s", genProgram(r, n, id == "C07", id == "C08"))
	}
	if id == "C08" {
		lc := 40
		if thorough {
			lc = 800
		}
		for i := 0; i < lc; i++ {
			emit(w, "grp %s", lawProgram(r, false))
		}
		// scalar multiplication with an operand in the identity class
		for i := 0; i < 6; i++ {
			emit(w, "grp %s", lawProgram(r, true))
		}
		emit(w, "grp o;smul:0:%s;g;sub:2:2;smul:3:%s;flip:0;smul:5:%s", r.frHex(), r.frHex(), r.frHex())
		// every special scalar (boundary values, powers of two, Montgomery-structured limbs)
		// systematically, on a normalised and on a projective operand: s·P and (s·P − s·P)
		sp := specialScalars()
		for i := 0; i < len(sp); i += 6 {
			prog := []string{fmt.Sprintf("c:%d", r.intn(256)), "dbl:0"}
			end := i + 6
			if end > len(sp) {
				end = len(sp)
			}
			for _, s := range sp[i:end] {
				h := be32(new(big.Int).Mod(s, rMod))
				prog = append(prog, "smul:0:"+h, "smul:1:"+h)
			}
			emit(w, "grp %s", strings.Join(prog, ";"))
		}
	}
}

func genC19(w *bufio.Writer, r *rng, thorough bool) {
	cnt := 40
	if thorough {
		cnt = 600
	}
	emit(w, "batch -")
	emit(w, "batch g")
	emit(w, "batch o")
	for i := 0; i < cnt; i++ {
		n := 3 + r.intn(20)
		if r.coin(15) {
			n = 250 + r.intn(60) // around the Execute partition boundaries
		}
		prog := genProgram(r, n, false, false)
		// aliasing: repeat some registers as the very same pointer
		k := r.intn(6)
		for j := 0; j < k; j++ {
			prog += fmt.Sprintf(";alias:%d", r.intn(n))
			// repeats are not only trailing: further distinct elements follow a repeated pointer
			if r.coin(60) {
				prog += fmt.Sprintf(";c:%d", r.intn(256))
			}
			if r.coin(30) {
				prog += fmt.Sprintf(";dbl:%d", r.intn(n))
			}
		}
		emit(w, "batch %s", prog)
		if r.coin(50) {
			emit(w, "batchfail %s %d", prog, r.intn(n+k+1))
		}
	}
	// long lists (several internal blocks) with one un-normalisable element at the ends / middle
	for _, n := range []int{129, 200, 300} {
		long := genProgram(r, n, false, false)
		for _, pos := range []int{0, n / 2, n} {
			emit(w, "batchfail %s %d", long, pos)
		}
	}
	// mixed representations ending with a normalised element
	for i := 0; i < 6; i++ {
		emit(w, "batch %s;norm:%d", genProgram(r, 6+r.intn(10), false, false), r.intn(5))
		emit(w, "batch g;dbl:0;add:0:1;c:%d", r.intn(256))
	}
	// every position of a short list
	prog := genProgram(r, 9, false, false)
	for pos := 0; pos <= 9; pos++ {
		emit(w, "batchfail %s %d", prog, pos)
	}
}

// ---------------------------------------------------------------- C05

func scalarWithWindow(r *rng, wbits, k int, val uint64, carryIn bool) *big.Int {
	// random scalar whose window k has value val; the window below it is set so that it does (not) carry
	nw := 256 / wbits
	top := 253 / wbits
	v := new(big.Int)
	for i := 0; i < nw; i++ {
		var d uint64
		switch {
		case i == k:
			d = val
		case i == k-1:
			if carryIn {
				d = (1 << uint(wbits)) - 1 - uint64(r.intn(3)) // > 2^(w-1): produces a carry
			} else {
				d = uint64(r.intn(1 << uint(wbits-1))) // ≤ 2^(w-1)-1 and no incoming carry if below also small
			}
		case i < k-1:
			d = uint64(r.intn(1 << uint(wbits-1)))
		case i > top:
			d = 0
		default:
			d = r.u64() & ((1 << uint(wbits)) - 1)
		}
		t := new(big.Int).SetUint64(d)
		v.Add(v, t.Lsh(t, uint(wbits*i)))
	}
	return v.Mod(v, rMod)
}

func genC05(w *bufio.Writer, r *rng, thorough bool) {
	positions := []int{0, 4, 5, 255}
	if thorough {
		positions = []int{0, 1, 2, 3, 4, 5, 6, 7, 100, 128, 254, 255}
	}
	for _, pos := range positions {
		wbits := 8
		if pos < 5 {
			wbits = 16
		}
		half := uint64(1) << uint(wbits-1)
		full := uint64(1) << uint(wbits)
		for k := 0; k < 256/wbits; k++ {
			for _, val := range []uint64{0, 1, half - 1, half, half + 1, full - 2, full - 1} {
				for _, ci := range []bool{false, true} {
					if k == 0 && ci {
						continue
					}
					emit(w, "commit s%d=%s", pos, be32(scalarWithWindow(r, wbits, k, val, ci)))
				}
			}
		}
		// carry chains of all-ones windows of every length, from every start
		for start := 0; start < 256/wbits; start += 1 + (256/wbits)/8 {
			for ln := 1; start+ln <= 256/wbits; ln += 1 + ln/3 {
				v := new(big.Int)
				for i := start; i < start+ln; i++ {
					t := new(big.Int).SetUint64(full - 1)
					v.Add(v, t.Lsh(t, uint(wbits*i)))
				}
				v.Mod(v, rMod)
				emit(w, "commit s%d=%s", pos, be32(v))
			}
		}
		for _, v := range specialScalars() {
			emit(w, "commit s%d=%s", pos, be32(new(big.Int).Mod(v, rMod)))
		}
	}
	// single hot coefficient at every basis position
	step := 1
	if !thorough {
		step = 3
	}
	for i := 0; i < 256; i += step {
		emit(w, "commit s%d=%s", i, r.scalar())
	}
	// short vectors
	for _, n := range []int{0, 1, 4, 5, 6, 255, 256} {
		var items []string
		for i := 0; i < n; i++ {
			if n > 6 && !r.coin(3) {
				items = append(items, be32(big.NewInt(0)))
			} else {
				items = append(items, r.scalar())
			}
		}
		emit(w, "commit x%s", strings.Join(items, ","))
	}
	// dense vectors of awkward lengths (not multiples of any plausible task count)
	denseLens := []int{64, 67, 100, 131, 160, 224, 255}
	if thorough {
		denseLens = []int{33, 63, 64, 65, 67, 96, 97, 128, 129, 131, 160, 192, 199, 223, 224, 225, 250, 251, 253, 254, 255}
	}
	for _, n := range denseLens {
		var items []string
		for i := 0; i < n; i++ {
			items = append(items, r.scalar())
		}
		emit(w, "commit x%s", strings.Join(items, ","))
	}
	// dense vectors with zero stretches: aligned blocks of 8/16/32/64 zero coefficients at the start, in the
	// middle and at the end of an otherwise dense vector (a batched / parallel MSM must treat a batch with
	// no contribution as the identity, not as the zero value)
	holes := [][3]int{{256, 128, 256}, {256, 64, 96}, {130, 0, 32}, {256, 32, 64}, {200, 96, 160}, {256, 0, 64}, {256, 240, 256}, {192, 16, 48}}
	if thorough {
		for i := 0; i < 40; i++ {
			n := 64 + r.intn(193)
			bl := []int{8, 16, 32, 64}[r.intn(4)]
			a := bl * r.intn(n/bl)
			b := a + bl*(1+r.intn(3))
			if b > n {
				b = n
			}
			holes = append(holes, [3]int{n, a, b})
		}
	}
	for _, h := range holes {
		var items []string
		for i := 0; i < h[0]; i++ {
			if i >= h[1] && i < h[2] {
				items = append(items, be32(big.NewInt(0)))
			} else {
				items = append(items, r.scalar())
			}
		}
		emit(w, "commit x%s", strings.Join(items, ","))
	}
	emit(w, "commit z")
	emit(w, "commit m")
	emit(w, "commit k%s", be32(big.NewInt(1)))
	dense := 3
	if thorough {
		dense = 40
	}
	for i := 0; i < dense; i++ {
		emit(w, "commit r%d", r.intn(1<<30))
	}
	// linearity: Commit(a+b), Commit(k·a), single-coefficient update
	lin := 25
	if thorough {
		lin = 400
	}
	for i := 0; i < lin; i++ {
		mk := func() string {
			k := 1 + r.intn(5)
			var items []string
			used := map[int]bool{}
			for len(items) < k {
				j := r.intn(256)
				if r.coin(40) {
					j = r.intn(7)
				}
				if used[j] {
					continue
				}
				used[j] = true
				items = append(items, fmt.Sprintf("%d=%s", j, r.scalar()))
			}
			return "s" + strings.Join(items, ",")
		}
		emit(w, "commit.lin %s %s %s %d %s", mk(), mk(), r.scalar(), r.intn(256), r.scalar())
	}
	// table audit
	audit := 1200
	if thorough {
		audit = 150000
	}
	for i := 0; i < audit; i++ {
		p := r.intn(256)
		if r.coin(30) {
			p = r.intn(6)
		}
		wbits := 8
		if p < 5 {
			wbits = 16
		}
		k := r.intn(256 / wbits)
		j := r.intn(1 << uint(wbits-1))
		switch r.intn(6) {
		case 0:
			j = 0
		case 1:
			j = 1<<uint(wbits-1) - 1
		case 2:
			k = 256/wbits - 1
		}
		emit(w, "ptab %d %d %d", p, k, j)
	}
}

// ---------------------------------------------------------------- C09

func digitScalar(r *rng, c int, pattern int) *big.Int {
	// scalar whose every c-bit chunk follows a boundary pattern
	half := int64(1) << uint(c-1)
	v := new(big.Int)
	for k := 0; k*c < 253; k++ {
		var d int64
		switch pattern {
		case 0:
			d = half - 1
		case 1:
			d = half
		case 2:
			d = half + 1
		case 3:
			d = 2*half - 1
		case 4:
			d = []int64{half - 1, half, half + 1, 2*half - 1, 0, 1}[r.intn(6)]
		default:
			d = int64(r.u64() & uint64(2*half-1))
		}
		t := big.NewInt(d)
		v.Add(v, t.Lsh(t, uint(k*c)))
	}
	return v.Mod(v, rMod)
}

func msmPts(r *rng, n int) []string {
	out := make([]string, n)
	for i := range out {
		switch x := r.intn(100); {
		case x < 3:
			out[i] = "o"
		case x < 10:
			out[i] = fmt.Sprintf("c%d", r.intn(256))
		case x < 20:
			out[i] = fmt.Sprintf("n%d", 1+r.intn(50))
		case x < 35:
			out[i] = fmt.Sprintf("g%d", 1+r.intn(8)) // duplicates, equal-and-opposite with n*
		default:
			out[i] = fmt.Sprintf("g%d", 1+r.intn(4000))
		}
	}
	return out
}

func genC09(w *bufio.Writer, r *rng, thorough bool) {
	sizes := []int{0, 1, 2, 3, 4, 5, 7, 8, 9, 15, 16, 17, 31, 33, 63, 64, 65, 100, 127, 128, 129, 255, 256, 257, 300, 511, 512, 513, 700, 1000, 1023, 1024, 1025, 2047, 2048, 2049, 4095, 4096, 4097}
	tasksL := []int{0, 1, 2, 3, 5, 8, 16, 17, 64, 1024}
	if thorough {
		sizes = append(sizes, 6000, 8191, 8192, 8193, 12000, 16384, 20000, 32768)
	}
	for _, n := range sizes {
		variants := 2
		if thorough {
			variants = 5
		}
		for v := 0; v < variants; v++ {
			tasks := tasksL[r.intn(len(tasksL))]
			if n > 3000 && tasks == 1024 && !thorough {
				tasks = 64
			}
			mont := r.coin(50)
			pts := msmPts(r, n)
			ss := make([]string, n)
			small := r.coin(50) // >= 10% small scalars: first-chunk split path
			for i := range ss {
				switch {
				case small && r.coin(30):
					ss[i] = be32(big.NewInt(int64(r.intn(16))))
				case r.coin(5):
					ss[i] = be32(big.NewInt(0))
				case r.coin(10):
					ss[i] = be32(sub(rMod, int64(1+r.intn(2))))
				default:
					ss[i] = r.frHex()
				}
			}
			emit(w, "msm %d %s %s %s", tasks, b01(mont), joinWith(",", pts), joinWith(",", ss))
		}
	}
	// every NbTasks value on a medium instance
	for _, t := range tasksL {
		n := 40 + r.intn(200)
		pts := msmPts(r, n)
		ss := make([]string, n)
		for i := range ss {
			ss[i] = r.scalar()
		}
		emit(w, "msm %d 1 %s %s", t, joinWith(",", pts), joinWith(",", ss))
		emit(w, "msm %d 0 %s %s", t, joinWith(",", pts), joinWith(",", ss))
	}
	// length mismatch
	emit(w, "msm 4 1 g1,g2,g3 %s,%s", r.frHex(), r.frHex())
	emit(w, "msm 4 1 g1 -")
	// every implemented window through the internal entry point
	cs := []int{4, 5, 6, 7, 8, 9, 10, 11, 12, 13, 14, 15, 16}
	big3 := []int{20, 21, 22}
	for _, c := range append(cs, big3...) {
		pats := []int{0, 1, 2, 3, 4, 5}
		if c >= 20 && !thorough {
			pats = []int{4}
		}
		for _, pat := range pats {
			for _, split := range []bool{false, true} {
				n := 6 + r.intn(20)
				if c >= 20 {
					n = 5
					if split && !thorough {
						continue
					}
				}
				pts := msmPts(r, n)
				ss := make([]string, n)
				for i := range ss {
					ss[i] = be32(digitScalar(r, c, pat))
					if r.coin(10) {
						ss[i] = be32(sub(rMod, 1))
					}
					if r.coin(5) {
						ss[i] = be32(big.NewInt(int64(r.intn(3))))
					}
				}
				emit(w, "msmc %d %s %s %s", c, b01(split), joinWith(",", pts), joinWith(",", ss))
			}
		}
	}
}

func b01(b bool) string {
	if b {
		return "1"
	}
	return "0"
}

// ---------------------------------------------------------------- C01 / C03 / C02 / C04

func polyDesc(r *rng) string {
	switch x := r.intn(100); {
	case x < 8:
		return "z"
	case x < 16:
		return "k" + r.scalar()
	case x < 22:
		return "m"
	case x < 40:
		return fmt.Sprintf("u%d", r.intn(256))
	case x < 85:
		k := 1 + r.intn(3)
		var items []string
		used := map[int]bool{}
		for len(items) < k {
			j := r.intn(256)
			if used[j] {
				continue
			}
			used[j] = true
			items = append(items, fmt.Sprintf("%d=%s", j, r.scalar()))
		}
		return "s" + strings.Join(items, ",")
	default:
		return fmt.Sprintf("r%d", r.intn(1<<20))
	}
}

// openingSet builds n openings following one of the z patterns the property lists
func openingSet(r *rng, n int, pattern int, maxDense int) string {
	var polys []string
	np := 1 + r.intn(4)
	dense := 0
	for i := 0; i < np; i++ {
		d := polyDesc(r)
		if d[0] == 'r' || d[0] == 'k' || d[0] == 'm' {
			if dense >= maxDense {
				d = fmt.Sprintf("u%d", r.intn(256))
			} else {
				dense++
			}
		}
		polys = append(polys, d)
	}
	var ops []string
	zA, zB := r.intn(256), r.intn(256)
	for i := 0; i < n; i++ {
		var z int
		switch pattern {
		case 0: // all equal
			z = zA
		case 1: // all distinct (mod 256)
			z = (zA + i) % 256
		case 2: // two clusters far apart
			z = []int{3, 250}[i%2]
		case 3: // a single used index after a long gap
			z = 255
		case 4: // one group straddling worker boundaries
			z = []int{zA, zA, zB}[i%3]
		default:
			z = r.intn(256)
		}
		flags := ""
		if r.coin(30) {
			flags += "p"
		}
		if r.coin(30) {
			flags += "f"
		}
		if r.coin(30) {
			flags += "r"
		}
		o := fmt.Sprintf("%s@%d", polys[r.intn(len(polys))], z)
		if flags != "" {
			o += "!" + flags
		}
		ops = append(ops, o)
	}
	return strings.Join(ops, ";")
}

func genMp(w *bufio.Writer, r *rng, thorough bool, id string) {
	ns := []int{1, 2, 3, 5, 15, 16, 17, 33}
	if thorough {
		ns = []int{1, 2, 3, 4, 5, 7, 15, 16, 17, 31, 32, 33, 64, 100, 257, 300}
	}
	labels := []string{"-", labelHex("test"), labelHex("vt"), hx(bytes.Repeat([]byte{0xab}, 70))}
	// histories: verifications that END IN AN ERROR (wrong number of L/R points, for statements with non-zero
	// claimed values at the domain edges and in the middle) in between the honest proofs of the same process —
	// an honest proof must verify whatever the verifier was shown before (no scratch state may survive an
	// error return)
	var refused func()
	if id == "C01" {
		hb := makeHonestAt(r, []uint8{0, 7, 255})
		hc := makeHonestAt(r, []uint8{3, 3, 128, 254})
		refused = func() {
			for _, h := range []honest{hb, hc} {
				emit(w, "%s", h.line(h.label, h.cs, h.zs, h.ys, h.d, h.ls[:7], h.rs[:7], h.a))
				emit(w, "%s", h.line(h.label, h.cs, h.zs, h.ys, h.d, h.ls, h.rs[:7], h.a))
			}
		}
		refused()
	}
	for k, n := range ns {
		pats := []int{0, 1, 2, 3, 4, 5}
		if !thorough {
			pats = []int{r.intn(3), 3 + r.intn(3)}
		}
		for _, p := range pats {
			emit(w, "mp %s %s", r.pick(labels), openingSet(r, n, p, 1))
		}
		if refused != nil && k%3 == 1 {
			refused()
		}
	}
	// dense polynomials opened at the extreme domain points (largest index distances in the tables)
	emit(w, "mp %s r%d@255;r%d@0", labelHex("test"), 3+r.intn(100), 3+r.intn(100))
	emit(w, "mp %s r%d@254;r%d@1;m@128", labelHex("test"), 3+r.intn(100), 3+r.intn(100))
	// the published vector shapes
	emit(w, "mp %s r1@0;r2@0", labelHex("test"))
	emit(w, "mp %s z@7", labelHex("test"))
	emit(w, "mp %s m@255;m@0!p", labelHex("test"))
	// every domain point opened in one proof (all 256 evaluation indices in use), in a scrambled
	// order, with cheap-to-commit polynomials; the same with one point missing; and with repeats
	{
		var all, allBut, rep []string
		for i := 0; i < 256; i++ {
			z := (i*91 + 17) % 256
			item := fmt.Sprintf("u%d@%d", (z*7+3)%256, z)
			all = append(all, item)
			if z != 200 {
				allBut = append(allBut, item)
			}
			rep = append(rep, item)
			if i%5 == 0 {
				rep = append(rep, fmt.Sprintf("u%d@%d", (z*11+1)%256, z))
			}
		}
		emit(w, "mp %s %s", labelHex("test"), strings.Join(all, ";"))
		if thorough || id == "C01" {
			emit(w, "mp %s %s", labelHex("test"), strings.Join(allBut, ";"))
			emit(w, "mp %s %s", labelHex("test"), strings.Join(rep, ";"))
		}
	}
	if id == "C03" {
		// IPA proofs on their own
		for i := 0; i < 4; i++ {
			emit(w, "ipa %s %s %s", r.pick(labels), polyDesc(r), r.scalar())
		}
		// dense polynomials at the boundary between in-domain and barycentric evaluation
		for _, z := range []int64{0, 254, 255, 256} {
			emit(w, "ipa %s r%d %s", labelHex("test"), 3+r.intn(1000), be32(big.NewInt(z)))
		}
		// evaluation points wider than one machine word whose low word looks like a domain index
		for _, z := range []*big.Int{pow2(64), add(pow2(64), 5), add(pow2(64), 255), add(pow2(64), 256), add(pow2(128), 200),
			add(pow2(192), 17), add(new(big.Int).Add(pow2(200), pow2(64)), 255)} {
			emit(w, "ipa %s r%d %s", labelHex("test"), 3+r.intn(1000), be32(z))
		}
	}
}

func genC04(w *bufio.Writer, r *rng, thorough bool) {
	pts := []*big.Int{big.NewInt(0), big.NewInt(1), big.NewInt(254), big.NewInt(255), big.NewInt(256), big.NewInt(257),
		sub(pow2(64), 1), pow2(64), add(pow2(64), 1), sub(rMod, 1), sub(rMod, 256), pow2(8 * 31),
		add(pow2(64), 255), add(pow2(64), 256), add(pow2(128), 200), add(pow2(192), 17)}
	rinv := new(big.Int).ModInverse(two256, rMod)
	for _, m := range []*big.Int{big.NewInt(7), big.NewInt(255), big.NewInt(256), sub(pow2(64), 1), pow2(64)} {
		v := new(big.Int).Mul(m, rinv) // Montgomery representation = m
		pts = append(pts, v.Mod(v, rMod))
	}
	reps := 1
	if thorough {
		reps = 6
	}
	for rep := 0; rep < reps; rep++ {
		for _, z := range pts {
			emit(w, "ipa %s %s %s", labelHex("test"), polyDesc(r), be32(z))
		}
		for i := 0; i < 4; i++ {
			emit(w, "ipa %s %s %s", hexOrDash(r.bytes(r.intn(10))), polyDesc(r), r.frHex())
		}
		emit(w, "ipa %s r%d %s", labelHex("test"), r.intn(1000), be32(big.NewInt(int64(r.intn(256)))))
		emit(w, "ipa %s r%d %s", labelHex("test"), r.intn(1000), r.frHex())
	}
	// the barycentric value against direct Lagrange evaluation
	for _, z := range []*big.Int{big.NewInt(256), big.NewInt(257), sub(rMod, 1), r.frBig()} {
		emit(w, "bary.eval r%d %s", r.intn(1000), be32(z))
	}
}

// honestProof creates a real multiproof for perturbation / serialisation tests
type honest struct {
	label []byte
	cs    []string
	zs    []string
	ys    []string
	d     string
	ls    []string
	rs    []string
	a     string
	bytes []byte
}

func makeHonest(r *rng, n int) honest {
	ic := config()
	var h honest
	h.label = r.bytes(r.intn(6))
	var Cs []*banderwagon.Element
	var fs [][]fr.Element
	var zs []uint8
	for i := 0; i < n; i++ {
		var f []fr.Element
		if i > 0 && r.coin(40) {
			f = fs[r.intn(i)]
		} else {
			f = parsePoly(polyDesc(r))
		}
		c := ic.Commit(f)
		z := uint8(r.intn(256))
		if r.coin(40) && i > 0 {
			z = zs[r.intn(i)]
		}
		Cs = append(Cs, &c)
		fs = append(fs, f)
		zs = append(zs, z)
		h.cs = append(h.cs, ptHex(&c))
		h.zs = append(h.zs, fmt.Sprint(z))
		h.ys = append(h.ys, frHex(&f[z]))
	}
	tr := common.NewTranscript(string(h.label))
	p, err := multiproof.CreateMultiProof(tr, ic, Cs, fs, zs)
	if err != nil {
		panic(err)
	}
	h.d = ptHex(&p.D)
	for i := range p.IPA.L {
		h.ls = append(h.ls, ptHex(&p.IPA.L[i]))
		h.rs = append(h.rs, ptHex(&p.IPA.R[i]))
	}
	h.a = frHex(&p.IPA.A_scalar)
	var buf bytes.Buffer
	if err := p.Write(&buf); err != nil {
		panic(err)
	}
	h.bytes = buf.Bytes()
	return h
}

func (h honest) line(label []byte, cs, zs, ys []string, d string, ls, rs []string, a string) string {
	return fmt.Sprintf("mpv %s %s %s %s %s %s %s %s", hexOrDash(label), joinWith(",", cs), joinWith(",", zs), joinWith(",", ys), d, joinWith(",", ls), joinWith(",", rs), a)
}

func cp(l []string) []string { return append([]string(nil), l...) }

func genC02(w *bufio.Writer, r *rng, thorough bool) {
	pool := pointPool(r, 16)
	proofs := 3
	if thorough {
		proofs = 30
	}
	var hs []honest
	for i := 0; i < proofs; i++ {
		n := []int{1, 2, 3, 5, 17}[r.intn(5)]
		if i == 0 {
			n = 3
		}
		h := makeHonest(r, n)
		hs = append(hs, h)
		emit(w, "%s", h.line(h.label, h.cs, h.zs, h.ys, h.d, h.ls, h.rs, h.a))
		otherPt := func(cur string) string {
			for {
				p := r.pick(pool)
				if p != cur {
					return p
				}
			}
		}
		otherSc := func(cur string) string {
			v := bigFromHex(cur)
			switch r.intn(3) {
			case 0:
				v = add(v, 1)
			case 1:
				v = sub(v, 1)
			default:
				return r.frHex()
			}
			return be32(v.Mod(v, rMod))
		}
		// every single-component perturbation
		for k := 0; k < n; k++ {
			c2 := cp(h.cs)
			c2[k] = otherPt(c2[k])
			emit(w, "%s", h.line(h.label, c2, h.zs, h.ys, h.d, h.ls, h.rs, h.a))
			z2 := cp(h.zs)
			z2[k] = fmt.Sprint((atoi(z2[k]) + 1 + r.intn(255)) % 256)
			emit(w, "%s", h.line(h.label, h.cs, z2, h.ys, h.d, h.ls, h.rs, h.a))
			y2 := cp(h.ys)
			y2[k] = otherSc(y2[k])
			emit(w, "%s", h.line(h.label, h.cs, h.zs, y2, h.d, h.ls, h.rs, h.a))
			if !thorough && k >= 2 {
				break
			}
		}
		emit(w, "%s", h.line(h.label, h.cs, h.zs, h.ys, otherPt(h.d), h.ls, h.rs, h.a))
		for k := 0; k < 8; k++ {
			l2 := cp(h.ls)
			l2[k] = otherPt(l2[k])
			emit(w, "%s", h.line(h.label, h.cs, h.zs, h.ys, h.d, l2, h.rs, h.a))
			r2 := cp(h.rs)
			r2[k] = otherPt(r2[k])
			emit(w, "%s", h.line(h.label, h.cs, h.zs, h.ys, h.d, h.ls, r2, h.a))
		}
		emit(w, "%s", h.line(h.label, h.cs, h.zs, h.ys, h.d, h.ls, h.rs, otherSc(h.a)))
		emit(w, "%s", h.line(h.label, h.cs, h.zs, h.ys, h.d, h.rs, h.ls, h.a)) // L and R exchanged
		emit(w, "%s", h.line(append(cp2(h.label), 1), h.cs, h.zs, h.ys, h.d, h.ls, h.rs, h.a))
		emit(w, "%s", h.line([]byte("other"), h.cs, h.zs, h.ys, h.d, h.ls, h.rs, h.a))
		if n >= 2 {
			// order and number of openings
			sw := func(l []string) []string { l = cp(l); l[0], l[1] = l[1], l[0]; return l }
			if h.cs[0] != h.cs[1] || h.zs[0] != h.zs[1] || h.ys[0] != h.ys[1] {
				emit(w, "%s", h.line(h.label, sw(h.cs), sw(h.zs), sw(h.ys), h.d, h.ls, h.rs, h.a))
			}
			emit(w, "%s", h.line(h.label, h.cs[1:], h.zs[1:], h.ys[1:], h.d, h.ls, h.rs, h.a))
		}
		emit(w, "%s", h.line(h.label, append(cp(h.cs), h.cs[0]), append(cp(h.zs), h.zs[0]), append(cp(h.ys), h.ys[0]), h.d, h.ls, h.rs, h.a))
		// malformed shapes: error and false, never a panic
		emit(w, "%s", h.line(h.label, h.cs, h.zs, h.ys[:n-1], h.d, h.ls, h.rs, h.a))
		emit(w, "%s", h.line(h.label, h.cs, h.zs[:n-1], h.ys, h.d, h.ls, h.rs, h.a))
		emit(w, "%s", h.line(h.label, h.cs[:n-1], h.zs, h.ys, h.d, h.ls, h.rs, h.a))
		emit(w, "%s", h.line(h.label, nil, nil, nil, h.d, h.ls, h.rs, h.a))
		emit(w, "%s", h.line(h.label, h.cs, h.zs, h.ys, h.d, h.ls[:7], h.rs[:7], h.a))
		emit(w, "%s", h.line(h.label, h.cs, h.zs, h.ys, h.d, h.ls[:7], h.rs, h.a))
		emit(w, "%s", h.line(h.label, h.cs, h.zs, h.ys, h.d, h.ls, h.rs[:7], h.a))
		emit(w, "%s", h.line(h.label, h.cs, h.zs, h.ys, h.d, append(cp(h.ls), h.ls[0]), append(cp(h.rs), h.rs[0]), h.a))
		emit(w, "%s", h.line(h.label, h.cs, h.zs, h.ys, h.d, nil, nil, h.a))
		// well-formed garbage
		var gl, gr []string
		for k := 0; k < 8; k++ {
			gl = append(gl, r.pick(pool))
			gr = append(gr, r.pick(pool))
		}
		emit(w, "%s", h.line(h.label, h.cs, h.zs, h.ys, r.pick(pool), gl, gr, r.frHex()))
	}
	// splices of two honest proofs
	for i := 0; i+1 < len(hs); i++ {
		a, b := hs[i], hs[i+1]
		emit(w, "%s", a.line(a.label, a.cs, a.zs, a.ys, b.d, a.ls, a.rs, a.a))
		emit(w, "%s", a.line(a.label, a.cs, a.zs, a.ys, a.d, b.ls, b.rs, a.a))
		emit(w, "%s", a.line(a.label, a.cs, a.zs, a.ys, a.d, a.ls, a.rs, b.a))
		emit(w, "%s", a.line(a.label, a.cs, a.zs, a.ys, a.d, append(cp(a.ls[:4]), b.ls[4:]...), a.rs, a.a))
	}
	// IPA verifier on its own: honest tuple and perturbations (from an honest ipa run)
	ni := 2
	if thorough {
		ni = 12
	}
	for i := 0; i < ni; i++ {
		genIpaPerturb(w, r, pool)
	}
}

func cp2(b []byte) []byte { return append([]byte(nil), b...) }

func genIpaPerturb(w *bufio.Writer, r *rng, pool []string) {
	label := r.bytes(r.intn(5))
	poly := polyDesc(r)
	z := r.scalar()
	out := strings.Split(opIpa(new([]string), label, poly, frFromHexBE(z)), " ")
	if len(out) < 6 {
		return
	}
	c, proof, y := out[0], mustUnhex(out[1]), out[2]
	var ls, rs []string
	for k := 0; k < 8; k++ {
		ls = append(ls, hx(proof[32*k:32*k+32]))
		rs = append(rs, hx(proof[256+32*k:256+32*k+32]))
	}
	le := proof[512:544]
	be := make([]byte, 32)
	for i := range le {
		be[31-i] = le[i]
	}
	a := hx(be)
	line := func(label []byte, c, z, y string, ls, rs []string, a string) {
		emit(w, "ipav %s %s %s %s %s %s %s", hexOrDash(label), c, z, y, joinWith(",", ls), joinWith(",", rs), a)
	}
	line(label, c, z, y, ls, rs, a)
	line(label, r.pick(pool), z, y, ls, rs, a)
	line(label, c, r.frHex(), y, ls, rs, a)
	line(label, c, z, r.frHex(), ls, rs, a)
	line(label, c, z, y, ls, rs, r.frHex())
	line(append(cp2(label), 7), c, z, y, ls, rs, a)
	for k := 0; k < 8; k += 3 {
		l2 := cp(ls)
		l2[k] = r.pick(pool)
		line(label, c, z, y, l2, rs, a)
		r2 := cp(rs)
		r2[k] = r.pick(pool)
		line(label, c, z, y, ls, r2, a)
	}
	line(label, c, z, y, ls[:7], rs[:7], a)
	line(label, c, z, y, ls[:7], rs, a)
	line(label, c, z, y, append(cp(ls), ls[0]), append(cp(rs), rs[0]), a)
	line(label, c, z, y, nil, nil, a)
}

// ---------------------------------------------------------------- C10

func nonSubgroupX(r *rng) *big.Int {
	for {
		x := new(big.Int).Mod(r.big256(), pMod)
		on, sg, _ := classifyX(x)
		if on && !sg {
			return x
		}
	}
}

func offCurveX(r *rng) *big.Int {
	for {
		x := new(big.Int).Mod(r.big256(), pMod)
		if on, _, _ := classifyX(x); !on {
			return x
		}
	}
}

func genC10(w *bufio.Writer, r *rng, thorough bool) {
	np := 2
	if thorough {
		np = 10
	}
	le32 := func(v *big.Int) []byte {
		b := make([]byte, 32)
		v.FillBytes(b)
		for i, j := 0, 31; i < j; i, j = i+1, j-1 {
			b[i], b[j] = b[j], b[i]
		}
		return b
	}
	be := func(v *big.Int) []byte { b := make([]byte, 32); v.FillBytes(b); return b }
	scripts := []string{"- 0 -", "- 1 -"}
	for p := 0; p < np; p++ {
		h := makeHonest(r, 1+r.intn(3))
		good := h.bytes
		ones := strings.TrimSuffix(strings.Repeat("1,", 600), ",")
		chunkings := []string{"- 0 -", "- 1 -", ones + " 0 -", ones + " 1 -", "288,288 0 -", "288,288 1 -", "575,1 1 -", "576 1 -", "31,1,32,33,1000 0 -", "7,7,7,7,7,7,7,7,7,7,7,7,7,7,7,7,7,7,7,7,7,7,7,7,7,7,7,7,7,7,7,7,7,7,7,7,7,7,7,7,7,7,7,7,7,7,7,7,7,7,7,7,7,7,7,7,7,7,7,7,7,7,7,7,7,7,7,7,7,7,7,7,7,7,7,7,7,7,7,7,7,7,7 1 -"}
		for _, c := range chunkings {
			emit(w, "serde %s %s", hx(good), c)
			emit(w, "serde %s00 %s", hx(good), c)     // one trailing byte
			emit(w, "serde %s %s", hx(good[:575]), c) // one byte short
		}
		emit(w, "serde.ipa %s - 0 -", hx(good[32:]))
		emit(w, "serde.ipa %s00ff - 0 -", hx(good[32:]))
		emit(w, "serde.ipa %s - 1 -", hx(good[32:575]))
		emit(w, "serde.ipa %s 1,1,1,1,1,1,1,500,1,1,1,1,1,1,1 1 -", hx(good[32:]))
		// I/O failure at offset k
		for _, k := range []int{0, 1, 31, 32, 33, 287, 543, 544, 545, 575, 576} {
			emit(w, "serde %s - 0 %d", hx(good), k)
			emit(w, "serde %s 100,100,100,100,100,100 1 %d", hx(good), k)
		}
		// lengths
		for _, n := range []int{0, 1, 31, 32, 33, 64, 543, 544, 545, 574, 577, 578, 600, 1152} {
			b := append([]byte(nil), good...)
			for len(b) < n {
				b = append(b, good...)
			}
			for _, s := range scripts {
				emit(w, "serde %s %s", hexOrDash(b[:n]), s)
			}
		}
		// field-wise boundary values at each of the 18 positions
		for pos := 0; pos < 18; pos++ {
			var vals [][]byte
			if pos < 17 {
				vals = [][]byte{be(sub(pMod, 1)), be(pMod), be(add(pMod, 1)), be(big.NewInt(0)), be(sub(two256, 1)),
					be(nonSubgroupX(r)), be(offCurveX(r)), be(new(big.Int).Add(new(big.Int).SetBytes(good[32*pos:32*pos+32]), pMod))}
			} else {
				vals = [][]byte{le32(sub(rMod, 1)), le32(rMod), le32(add(rMod, 1)), le32(big.NewInt(0)), le32(sub(two256, 1)), le32(pMod),
					le32(new(big.Int).Add(new(big.Int).SetBytes(be32rev(good[544:576])), rMod))}
			}
			if pos == 17 && p == 0 {
				for _, v := range limbPerturbations(rMod) {
					vals = append(vals, le32(v))
				}
			}
			if pos == (p*7+3)%17 {
				for _, v := range limbPerturbations(pMod) {
					vals = append(vals, be(v))
				}
			}
			for _, v := range vals {
				b := append([]byte(nil), good...)
				copy(b[32*pos:], v)
				emit(w, "serde %s %s", hx(b), scripts[r.intn(2)])
			}
		}
		// random mutations
		nm := 60
		if thorough {
			nm = 600
		}
		for i := 0; i < nm; i++ {
			b := append([]byte(nil), good...)
			for k := 0; k <= r.intn(3); k++ {
				b[r.intn(len(b))] ^= byte(1 << uint(r.intn(8)))
			}
			emit(w, "serde %s %s", hx(b), scripts[r.intn(2)])
		}
	}
	for i := 0; i < 20; i++ {
		emit(w, "serde %s - 0 -", hx(r.bytes(576)))
	}
	// the two field readers on their own
	for i := 0; i < 30; i++ {
		v := r.frBig()
		if r.coin(30) {
			v = new(big.Int).Add(v, rMod)
		}
		b := le32(new(big.Int).Mod(v, two256))
		emit(w, "rdsc %s %s", hx(b), scripts[r.intn(2)])
		emit(w, "rdsc %s 1,2,3,4,5,6,7,8 %d -", hx(b), r.intn(2))
		emit(w, "rdsc %s - %d -", hexOrDash(b[:r.intn(32)]), r.intn(2))
		emit(w, "rdsc %s - 0 %d", hx(b), r.intn(33))
	}
}

func be32rev(le []byte) []byte {
	b := make([]byte, len(le))
	for i := range le {
		b[len(le)-1-i] = le[i]
	}
	return b
}

// ---------------------------------------------------------------- C18

func genC18(w *bufio.Writer, r *rng, thorough bool) {
	emit(w, "bary.tables")
	// X^255 in evaluation form
	var mono []string
	for i := 0; i < 256; i++ {
		mono = append(mono, be32(new(big.Int).Exp(big.NewInt(int64(i)), big.NewInt(255), rMod)))
	}
	polys := []string{fmt.Sprintf("r%d", r.intn(1000)), "u0", "u255", fmt.Sprintf("u%d", r.intn(256)), "k" + r.frHex(), "m", "z", "x" + strings.Join(mono, ",")}
	zs := []*big.Int{big.NewInt(256), big.NewInt(257), sub(rMod, 1), r.frBig(), r.frBig(), pow2(200)}
	// points whose MONTGOMERY representation is structured (single limb, boundary limbs)
	rinv := new(big.Int).ModInverse(two256, rMod)
	for _, m := range []*big.Int{big.NewInt(7), pow2(63), sub(pow2(64), 1), pow2(64), pow2(128), add(pow2(192), 5)} {
		v := new(big.Int).Mul(m, rinv)
		zs = append(zs, v.Mod(v, rMod))
	}
	grid := limbGrid()
	for i := 0; i < 6; i++ {
		zs = append(zs, grid[r.intn(len(grid))])
	}
	var outside []*big.Int
	for _, z := range zs {
		if z.Cmp(big.NewInt(255)) > 0 {
			outside = append(outside, z)
		}
	}
	zs = outside
	for _, p := range polys {
		for _, z := range zs {
			emit(w, "bary.eval %s %s", p, be32(z))
		}
	}
	for _, z := range zs {
		emit(w, "bary.coeffs %s", be32(z))
	}
	for k := 0; k < 256; k++ {
		emit(w, "bary.div %d %s", k, polys[0])
		if thorough || k%16 == 0 || k == 255 {
			for _, p := range polys[1:] {
				emit(w, "bary.div %d %s", k, p)
			}
		}
	}
	if thorough {
		for i := 0; i < 300; i++ {
			emit(w, "bary.div %d r%d", r.intn(256), r.intn(100000))
			emit(w, "bary.eval r%d %s", r.intn(100000), r.frHex())
		}
	}
}

// ---------------------------------------------------------------- C12 / C13: mixed API histories

func genMixed(w *bufio.Writer, r *rng, thorough bool, concurrent bool) {
	pool := pointPool(r, 12)
	cnt := 60
	if thorough {
		cnt = 500
	}
	for i := 0; i < cnt; i++ {
		switch r.intn(12) {
		case 0:
			emit(w, "commit %s", polyDesc(r))
		case 1:
			emit(w, "mp %s %s", labelHex("c"), openingSet(r, 2+r.intn(4), 4, 1)) // >= 2 openings sharing an index
		case 2:
			emit(w, "ipa %s %s %s", labelHex("c"), polyDesc(r), r.scalar())
		case 3:
			n := 1 + r.intn(300)
			pts := msmPts(r, n)
			ss := make([]string, n)
			for j := range ss {
				ss[j] = r.scalar()
			}
			emit(w, "msm %d 1 %s %s", []int{0, 1, 3, 16, 64}[r.intn(5)], joinWith(",", pts), joinWith(",", ss))
		case 4:
			emit(w, "grp %s", genProgram(r, 6+r.intn(10), false, false))
		case 5:
			emit(w, "batch %s", genProgram(r, 6+r.intn(30), false, false))
		case 6:
			emit(w, "tr %s %s", hexOrDash(r.bytes(4)), genTrHistory(r, pool, 12))
		case 7:
			emit(w, "pt.dec %s", r.pick(pool))
		case 8:
			emit(w, "fr.dec %s %s", r.pick([]string{"be", "le", "lecanon"}), hx(r.bytes(32)))
		case 9:
			emit(w, "bary.div %d %s", r.intn(256), polyDesc(r))
		case 10:
			h := makeHonest(r, 1+r.intn(3))
			emit(w, "%s", h.line(h.label, h.cs, h.zs, h.ys, h.d, h.ls, h.rs, h.a))
			emit(w, "serde %s - 0 -", hx(h.bytes))
			emit(w, "serde.ipa %s - 0 -", hx(h.bytes[32:]))
		default:
			emit(w, "bary.eval %s %s", polyDesc(r), r.frHex())
		}
	}
	if concurrent {
		// decoders, transcripts and proof parsing hammered side by side (shared pools / tables)
		h := makeHonest(r, 2)
		for i := 0; i < 25; i++ {
			emit(w, "serde %s - %d -", hx(h.bytes), i%2)
			emit(w, "tr %s %s", hexOrDash(r.bytes(3)), genTrHistory(r, pool, 10))
			emit(w, "fr.dec lecanon %s", hx(be32rev(mustUnhex(r.frHex()))))
			emit(w, "rdsc %s - 0 -", hx(be32rev(mustUnhex(r.frHex()))))
		}
		// openings at points inside the domain, side by side (the unit vector b = e_z of each is its own)
		for i := 0; i < 32; i++ {
			emit(w, "ipa %s %s %s", labelHex("c"), polyDesc(r), be32(big.NewInt(int64((i*37+r.intn(7))%256))))
		}
		// the reducing decoders on exactly the modulus (and its multiples) in between ordinary decodings: the
		// pooled temporaries of the decoders must come back to the pool exactly once on every path
		for i := 0; i < 40; i++ {
			k := []int64{1, 1, 2, 3}[i%4]
			m := new(big.Int).Mul(rMod, big.NewInt(k))
			emit(w, "fr.dec be %s", be32(m))
			emit(w, "fr.dec le %s", hx(be32rev(mustUnhex(be32(m)))))
			for j := 0; j < 6; j++ {
				emit(w, "fr.dec %s %s", r.pick([]string{"be", "le"}), hx(r.bytes(32)))
			}
			emit(w, "tr %s %s", hexOrDash(r.bytes(3)), genTrHistory(r, pool, 6))
		}
		// a burst of proofs with many openings spread over several evaluation points, issued back to back so
		// that their aggregation phases overlap (per-call scratch tables must not be shared between calls)
		burst := 12
		if thorough {
			burst = 48
		}
		for i := 0; i < burst; i++ {
			emit(w, "mp %s %s", labelHex("c"), openingSet(r, 16+r.intn(9), []int{1, 5, 4}[i%3], 1))
		}
		// more openings than CPUs, fewer MSM tasks than CPUs
		emit(w, "mp %s %s", labelHex("c"), openingSet(r, 17, 1, 0))
		emit(w, "mp %s %s", labelHex("c"), openingSet(r, 33, 5, 0))
		for _, t := range []int{1, 2, 15, 17} {
			n := 40
			pts := msmPts(r, n)
			ss := make([]string, n)
			for j := range ss {
				ss[j] = r.scalar()
			}
			emit(w, "msm %d 1 %s %s", t, joinWith(",", pts), joinWith(",", ss))
		}
	}
	// many openings sharing one evaluation point with opening 0 (more than any CPU count)
	emit(w, "mp %s %s", labelHex("c"), openingSet(r, 40, 0, 0))
	// verification histories around the last domain point: z = 255, then others, alternating
	ha := makeHonestAt(r, []uint8{255, 3})
	hb := makeHonestAt(r, []uint8{3, 7})
	hc := makeHonestAt(r, []uint8{0, 255, 128})
	for i := 0; i < 3; i++ {
		for _, h := range []honest{ha, hb, hc} {
			emit(w, "%s", h.line(h.label, h.cs, h.zs, h.ys, h.d, h.ls, h.rs, h.a))
		}
	}
	_ = concurrent
}

func makeHonestAt(r *rng, zsIn []uint8) honest {
	ic := config()
	var h honest
	h.label = r.bytes(3)
	var Cs []*banderwagon.Element
	var fs [][]fr.Element
	for _, z := range zsIn {
		// non-zero evaluations at the opened points: constant or dense polynomials
		desc := "k" + be32(add(r.frBig(), 1))
		if r.coin(40) {
			desc = fmt.Sprintf("r%d", r.intn(1<<20))
		}
		f := parsePoly(desc)
		c := ic.Commit(f)
		Cs = append(Cs, &c)
		fs = append(fs, f)
		h.cs = append(h.cs, ptHex(&c))
		h.zs = append(h.zs, fmt.Sprint(z))
		h.ys = append(h.ys, frHex(&f[z]))
	}
	tr := common.NewTranscript(string(h.label))
	p, err := multiproof.CreateMultiProof(tr, ic, Cs, fs, zsIn)
	if err != nil {
		panic(err)
	}
	h.d = ptHex(&p.D)
	for i := range p.IPA.L {
		h.ls = append(h.ls, ptHex(&p.IPA.L[i]))
		h.rs = append(h.rs, ptHex(&p.IPA.R[i]))
	}
	h.a = frHex(&p.IPA.A_scalar)
	return h
}
