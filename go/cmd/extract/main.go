// extract: regenerates lean/GoIpa/Gen/*.lean from the CURRENT source of /repo (tie T1).
// It is deliberately small and refuses (exit 1) on any shape it does not know: a refusal is a
// broken obligation, handled by bin/check.
package main

import (
	"flag"
	"fmt"
	"go/ast"
	"go/parser"
	"go/printer"
	"go/token"
	"os"
	"path/filepath"
	"sort"
	"strconv"
	"strings"
)

var fset = token.NewFileSet()

func die(format string, args ...interface{}) {
	fmt.Fprintf(os.Stderr, "extract: "+format+"\n", args...)
	os.Exit(1)
}

func parse(path string) *ast.File {
	f, err := parser.ParseFile(fset, path, nil, parser.ParseComments)
	if err != nil {
		die("cannot parse %s: %v", path, err)
	}
	return f
}

func printerFprint(sb *strings.Builder, n ast.Node) { printer.Fprint(sb, fset, n) }

func exprStr(e ast.Expr) string {
	var sb strings.Builder
	printer.Fprint(&sb, fset, e)
	return sb.String()
}

func findFunc(f *ast.File, name string) *ast.FuncDecl {
	for _, d := range f.Decls {
		if fd, ok := d.(*ast.FuncDecl); ok && fd.Name.Name == name {
			return fd
		}
	}
	die("function %s not found", name)
	return nil
}

// constValue returns the literal of a package-level const / var with a basic literal value.
func topLevelValue(f *ast.File, name string) ast.Expr {
	for _, d := range f.Decls {
		gd, ok := d.(*ast.GenDecl)
		if !ok {
			continue
		}
		for _, s := range gd.Specs {
			vs, ok := s.(*ast.ValueSpec)
			if !ok {
				continue
			}
			for i, n := range vs.Names {
				if n.Name == name && i < len(vs.Values) {
					return vs.Values[i]
				}
			}
		}
	}
	die("top-level value %s not found", name)
	return nil
}

func leanString(s string) string { return strconv.Quote(s) }

func leanNatList(vals []string) string { return "[" + strings.Join(vals, ", ") + "]" }

// compositeUints returns the integer literals of a composite literal like Element{1,2,3,4}.
func compositeUints(e ast.Expr) []string {
	cl, ok := e.(*ast.CompositeLit)
	if !ok {
		die("expected composite literal, got %s", exprStr(e))
	}
	var out []string
	for _, el := range cl.Elts {
		bl, ok := el.(*ast.BasicLit)
		if !ok || bl.Kind != token.INT {
			die("expected integer literal in %s", exprStr(e))
		}
		out = append(out, bl.Value)
	}
	return out
}

// ---------------------------------------------------------------- transcript schedules

// fsOps lists, in source order, the transcript operations of a function body:
// "kind label(arg)"; loops are bracketed.
func fsOps(body *ast.BlockStmt, trName string) []string {
	var out []string
	var walk func(n ast.Node)
	walk = func(n ast.Node) {
		switch s := n.(type) {
		case *ast.ForStmt:
			out = append(out, "loop[")
			walk(s.Body)
			out = append(out, "]")
			return
		case *ast.RangeStmt:
			out = append(out, "loop[")
			walk(s.Body)
			out = append(out, "]")
			return
		case *ast.FuncLit:
			return
		case *ast.CallExpr:
			if sel, ok := s.Fun.(*ast.SelectorExpr); ok {
				if id, ok := sel.X.(*ast.Ident); ok && id.Name == trName {
					var args []string
					for _, a := range s.Args {
						args = append(args, exprStr(a))
					}
					// normalised: kind, label variable (last argument), then the value argument if any
					label := args[len(args)-1]
					val := ""
					if len(args) == 2 {
						val = args[0]
					}
					out = append(out, sel.Sel.Name+" "+label+"|"+val)
				}
			}
			// calls that receive the transcript: recorded by name
			for _, a := range s.Args {
				if id, ok := a.(*ast.Ident); ok && id.Name == trName {
					out = append(out, "call:"+exprStr(s.Fun))
				}
			}
		}
		ast.Inspect(n, func(c ast.Node) bool {
			if c == n || c == nil {
				return true
			}
			switch c.(type) {
			case *ast.ForStmt, *ast.RangeStmt, *ast.CallExpr, *ast.FuncLit:
				walk(c)
				return false
			}
			return true
		})
	}
	for _, st := range body.List {
		walk(st)
	}
	// drop loops that contain no transcript operation
	for changed := true; changed; {
		changed = false
		for i := 0; i+1 < len(out); i++ {
			if out[i] == "loop[" && out[i+1] == "]" {
				out = append(out[:i], out[i+2:]...)
				changed = true
				break
			}
		}
	}
	return out
}

// localInits maps local variable names to the text of their initialiser (first definition).
func localInits(body *ast.BlockStmt) map[string]string {
	m := map[string]string{}
	ast.Inspect(body, func(n ast.Node) bool {
		switch s := n.(type) {
		case *ast.AssignStmt:
			if s.Tok == token.DEFINE && len(s.Lhs) == len(s.Rhs) {
				for i, l := range s.Lhs {
					if id, ok := l.(*ast.Ident); ok {
						if _, seen := m[id.Name]; !seen {
							m[id.Name] = exprStr(s.Rhs[i])
						}
					}
				}
			} else if s.Tok == token.DEFINE && len(s.Rhs) == 1 {
				if id, ok := s.Lhs[0].(*ast.Ident); ok {
					if _, seen := m[id.Name]; !seen {
						m[id.Name] = exprStr(s.Rhs[0])
					}
				}
			}
		case *ast.DeclStmt:
			if gd, ok := s.Decl.(*ast.GenDecl); ok {
				for _, sp := range gd.Specs {
					if vs, ok := sp.(*ast.ValueSpec); ok {
						for i, n := range vs.Names {
							if i < len(vs.Values) {
								if _, seen := m[n.Name]; !seen {
									m[n.Name] = exprStr(vs.Values[i])
								}
							}
						}
					}
				}
			}
		}
		return true
	})
	return m
}

func labelValues(f *ast.File, names []string) []string {
	var out []string
	for _, n := range names {
		v := topLevelValue(f, n)
		// []byte("...")
		call, ok := v.(*ast.CallExpr)
		if !ok || len(call.Args) != 1 {
			die("label %s has unexpected shape %s", n, exprStr(v))
		}
		bl, ok := call.Args[0].(*ast.BasicLit)
		if !ok || bl.Kind != token.STRING {
			die("label %s is not a string literal", n)
		}
		out = append(out, "("+leanString(n)+", "+bl.Value+")")
	}
	return out
}

func main() {
	repo := flag.String("repo", "/repo", "repository root")
	out := flag.String("out", "", "output directory for Gen/*.lean")
	flag.Parse()
	if *out == "" {
		die("missing -out")
	}
	os.MkdirAll(*out, 0o755)
	write := func(name, body string) {
		hdr := "/- GENERATED by go/cmd/extract from " + *repo + " — do not edit; regenerated on every check run. -/\nnamespace GoIpa.Gen\n\n"
		if err := os.WriteFile(filepath.Join(*out, name), []byte(hdr+body+"\nend GoIpa.Gen\n"), 0o644); err != nil {
			die("%v", err)
		}
	}

	writeImp := func(name, imports, body string) {
		hdr := "/- GENERATED by go/cmd/extract from " + *repo + " — do not edit; regenerated on every check run. -/\n" + imports + "namespace GoIpa.Gen\n\n"
		if err := os.WriteFile(filepath.Join(*out, name), []byte(hdr+body+"\nend GoIpa.Gen\n"), 0o644); err != nil {
			die("%v", err)
		}
	}

	// ---------------------------------------------------------------- Consts
	{
		var b strings.Builder
		common := parse(filepath.Join(*repo, "common/common.go"))
		b.WriteString("def vectorLength : Nat := " + exprStr(topLevelValue(common, "VectorLength")) + "\n")
		pre := parse(filepath.Join(*repo, "banderwagon/precomp.go"))
		b.WriteString("def supportedMSMLength : Nat := " + exprStr(topLevelValue(pre, "supportedMSMLength")) + "\n")
		b.WriteString("def window16vs8IndexLimit : Nat := " + exprStr(topLevelValue(pre, "window16vs8IndexLimit")) + "\n")
		// window sizes chosen in NewPrecompMSM
		npm := findFunc(pre, "NewPrecompMSM")
		var wins []string
		ast.Inspect(npm, func(n ast.Node) bool {
			if as, ok := n.(*ast.AssignStmt); ok && len(as.Lhs) == 1 && exprStr(as.Lhs[0]) == "windowSize" {
				wins = append(wins, exprStr(as.Rhs[0]))
			}
			return true
		})
		b.WriteString("def precompWindowSizes : List String := [" + quoteAll(wins) + "]\n")
		bary := parse(filepath.Join(*repo, "ipa/barycentric.go"))
		b.WriteString("def domainSizeExpr : String := " + leanString(exprStr(topLevelValue(bary, "domainSize"))) + "\n")
		prover := parse(filepath.Join(*repo, "ipa/prover.go"))
		// maxEvalPointInsideDomain.SetUint64(<expr>) in init, comparison in computeBVector
		var maxExpr, cmpExpr string
		for _, d := range prover.Decls {
			if fd, ok := d.(*ast.FuncDecl); ok && fd.Name.Name == "init" {
				ast.Inspect(fd, func(n ast.Node) bool {
					if c, ok := n.(*ast.CallExpr); ok && strings.HasPrefix(exprStr(c.Fun), "maxEvalPointInsideDomain.SetUint64") {
						maxExpr = exprStr(c.Args[0])
					}
					return true
				})
			}
		}
		cbv := findFunc(prover, "computeBVector")
		if ifs, ok := cbv.Body.List[0].(*ast.IfStmt); ok {
			cmpExpr = exprStr(ifs.Cond)
		}
		if maxExpr == "" || cmpExpr == "" {
			die("computeBVector / maxEvalPointInsideDomain have an unknown shape")
		}
		b.WriteString("def maxEvalPointExpr : String := " + leanString(maxExpr) + "\n")
		b.WriteString("def bVectorOutsideCond : String := " + leanString(cmpExpr) + "\n")
		// IPAProof.Read loop bounds, Equal's num_rounds
		var readBounds []string
		for _, d := range prover.Decls {
			if fd, ok := d.(*ast.FuncDecl); ok && fd.Name.Name == "Read" {
				ast.Inspect(fd, func(n ast.Node) bool {
					if fs, ok := n.(*ast.ForStmt); ok {
						readBounds = append(readBounds, exprStr(fs.Cond))
					}
					return true
				})
			}
		}
		b.WriteString("def ipaReadLoopConds : List String := [" + quoteAll(readBounds) + "]\n")
		b.WriteString("def ipaEqualNumRounds : String := " + leanString(localInits(findMethod(prover, "Equal").Body)["num_rounds"]) + "\n")
		verifier := parse(filepath.Join(*repo, "ipa/verifier.go"))
		var bitTests []string
		ast.Inspect(findFunc(verifier, "CheckIPAProof"), func(n ast.Node) bool {
			if ifs, ok := n.(*ast.IfStmt); ok && strings.Contains(exprStr(ifs.Cond), "<<") {
				bitTests = append(bitTests, exprStr(ifs.Cond))
			}
			return true
		})
		b.WriteString("def foldingBitTests : List String := [" + quoteAll(bitTests) + "]\n")
		cfg := parse(filepath.Join(*repo, "ipa/config.go"))
		b.WriteString("def crsSeed : String := " + localInits(findFunc(cfg, "GenerateRandomPoints").Body)["seed"] + "\n")
		el := parse(filepath.Join(*repo, "banderwagon/element.go"))
		b.WriteString("def coordinateSizeExpr : String := " + leanString(exprStr(topLevelValue(el, "coordinateSize"))) + "\n")
		// glue functions that are not translated: their statements are pinned
		{
			noDocs := func(n ast.Node) {
				ast.Inspect(n, func(n ast.Node) bool {
					switch x := n.(type) {
					case *ast.GenDecl:
						x.Doc = nil
					case *ast.ValueSpec:
						x.Doc, x.Comment = nil, nil
					}
					return true
				})
			}
			bwme := parse(filepath.Join(*repo, "banderwagon/multiexp.go"))
			pin := func(name string, fd *ast.FuncDecl) {
				noDocs(fd)
				var st []string
				for _, s := range fd.Body.List {
					st = append(st, stmtText(s))
				}
				b.WriteString("def glue" + name + " : List String := [" + quoteAll(st) + "]\n")
			}
			pin("NewIPASettings", findFunc(cfg, "NewIPASettings"))
			pin("MultiScalar", findFunc(cfg, "MultiScalar"))
			pin("Commit", findMethod(cfg, "Commit"))
			pin("ComputeNumRounds", findFunc(cfg, "computeNumRounds"))
			pin("GenerateRandomPoints", findFunc(cfg, "GenerateRandomPoints"))
			pin("BanderwagonMultiExp", findMethod(bwme, "MultiExp"))
			pin("NewPrecompMSM", findFunc(pre, "NewPrecompMSM"))
		}
		write("Consts.lean", b.String())
	}

	// ---------------------------------------------------------------- FrConsts
	{
		var b strings.Builder
		fr := parse(filepath.Join(*repo, "bandersnatch/fr/element.go"))
		b.WriteString("def qElement : List Nat := " + leanNatList(compositeUints(topLevelValue(fr, "qElement"))) + "\n")
		b.WriteString("def rSquare : List Nat := " + leanNatList(compositeUints(topLevelValue(fr, "rSquare"))) + "\n")
		b.WriteString("def limbs : Nat := " + exprStr(topLevelValue(fr, "Limbs")) + "\n")
		// Inverse: initial values of u and s, and every other integer literal it uses
		{
			inv := findMethod(fr, "Inverse")
			inits := map[string][]string{}
			inComposite := map[*ast.BasicLit]bool{}
			ast.Inspect(inv, func(n ast.Node) bool {
				if ds, ok := n.(*ast.DeclStmt); ok {
					for _, sp := range ds.Decl.(*ast.GenDecl).Specs {
						if vs, ok := sp.(*ast.ValueSpec); ok && len(vs.Names) == 1 && len(vs.Values) == 1 {
							if cl, ok := vs.Values[0].(*ast.CompositeLit); ok {
								inits[vs.Names[0].Name] = compositeUints(cl)
								for _, e := range cl.Elts {
									if bl, ok := e.(*ast.BasicLit); ok {
										inComposite[bl] = true
									}
								}
							}
						}
					}
				}
				return true
			})
			if inits["u"] == nil || inits["s"] == nil {
				die("Inverse: initialisers of u and s not found")
			}
			b.WriteString("def inverseInitU : List Nat := " + leanNatList(inits["u"]) + "\n")
			b.WriteString("def inverseInitS : List Nat := " + leanNatList(inits["s"]) + "\n")
			lits := map[string]bool{}
			ast.Inspect(inv, func(n ast.Node) bool {
				if bl, ok := n.(*ast.BasicLit); ok && bl.Kind == token.INT && !inComposite[bl] {
					lits[bl.Value] = true
				}
				return true
			})
			var ls []string
			for l := range lits {
				ls = append(ls, l)
			}
			sort.Strings(ls)
			b.WriteString("def inverseLiterals : List Nat := " + leanNatList(ls) + "\n")
		}
		b.WriteString("def bits : Nat := " + exprStr(topLevelValue(fr, "Bits")) + "\n")
		// SetOne limbs
		var one []string
		ast.Inspect(findMethod(fr, "SetOne"), func(n ast.Node) bool {
			if as, ok := n.(*ast.AssignStmt); ok && len(as.Rhs) == 1 {
				if bl, ok := as.Rhs[0].(*ast.BasicLit); ok {
					one = append(one, bl.Value)
				}
			}
			return true
		})
		b.WriteString("def one : List Nat := " + leanNatList(one) + "\n")
		// qInvNeg: the multiplier of c[0] in _mulGeneric (all occurrences must agree)
		qinv := map[string]bool{}
		for _, fn := range []string{"_mulGeneric", "_fromMontGeneric"} {
			ast.Inspect(findFunc(fr, fn), func(n ast.Node) bool {
				if as, ok := n.(*ast.AssignStmt); ok && len(as.Lhs) == 1 && exprStr(as.Lhs[0]) == "m" {
					if be, ok := as.Rhs[0].(*ast.BinaryExpr); ok && be.Op == token.MUL {
						qinv[exprStr(be.Y)] = true
					}
				}
				return true
			})
		}
		if len(qinv) != 1 {
			die("qInvNeg literal not unique: %v", qinv)
		}
		for k := range qinv {
			b.WriteString("def qInvNeg : Nat := " + k + "\n")
		}
		// modulus limbs used by the conditional subtractions / add-backs: every bits.Sub64 / bits.Add64 with a literal
		lits := map[string]bool{}
		for _, fn := range []string{"_mulGeneric", "_fromMontGeneric", "_addGeneric", "_doubleGeneric", "_subGeneric", "_negGeneric", "_reduceGeneric"} {
			ast.Inspect(findFunc(fr, fn), func(n ast.Node) bool {
				if c, ok := n.(*ast.CallExpr); ok {
					f := exprStr(c.Fun)
					if f == "bits.Sub64" || f == "bits.Add64" || strings.HasPrefix(f, "madd") {
						for _, a := range c.Args {
							if bl, ok := a.(*ast.BasicLit); ok && bl.Kind == token.INT && len(bl.Value) > 3 {
								lits[bl.Value] = true
							}
						}
					}
				}
				return true
			})
		}
		var ll []string
		for k := range lits {
			ll = append(ll, k)
		}
		sort.Strings(ll)
		b.WriteString("def arithLiterals : List Nat := " + leanNatList(ll) + "\n")
		// LexicographicallyLargest constants
		var lex []string
		ast.Inspect(findMethod(fr, "LexicographicallyLargest"), func(n ast.Node) bool {
			if c, ok := n.(*ast.CallExpr); ok && exprStr(c.Fun) == "bits.Sub64" {
				if bl, ok := c.Args[1].(*ast.BasicLit); ok {
					lex = append(lex, bl.Value)
				}
			}
			return true
		})
		b.WriteString("def lexHalf : List Nat := " + leanNatList(lex) + "\n")
		// exponents and modulus string
		var legendre, sqrtExp, modulus string
		ast.Inspect(fr, func(n ast.Node) bool {
			if c, ok := n.(*ast.CallExpr); ok && strings.HasSuffix(exprStr(c.Fun), "SetString") && len(c.Args) == 2 {
				arg := exprStr(c.Args[0])
				if id, ok := c.Args[0].(*ast.Ident); ok && id.Name == "sqrtExponentElement" {
					arg = ""
				}
				if strings.HasPrefix(arg, "\"e7db") {
					legendre = arg
				}
				if exprStr(c.Args[1]) == "10" && strings.HasPrefix(arg, "\"1310896") {
					modulus = arg
				}
			}
			return true
		})
		for _, d := range fr.Decls {
			if fd, ok := d.(*ast.FuncDecl); ok && fd.Name.Name == "init" {
				if v, ok := localInits(fd.Body)["sqrtExponentElement"]; ok {
					sqrtExp = v
				}
			}
		}
		if legendre == "" || sqrtExp == "" || modulus == "" {
			die("exponent / modulus literals not found (%q %q %q)", legendre, sqrtExp, modulus)
		}
		b.WriteString("def legendreExpHex : String := " + legendre + "\n")
		b.WriteString("def sqrtExpHex : String := " + sqrtExp + "\n")
		b.WriteString("def modulusDec : String := " + modulus + "\n")
		b.WriteString("def sqrtG : List Nat := " + leanNatList(compositeUints(mustInit(findMethod(fr, "Sqrt").Body, "g"))) + "\n")
		// Inverse, Sqrt, Div, mulByConstant, _butterflyGeneric: not translated (unbounded loops / switch) — their
		// statements are pinned, so that any edit is at least a broken obligation
		noDocs := func(n ast.Node) {
			ast.Inspect(n, func(n ast.Node) bool {
				switch x := n.(type) {
				case *ast.GenDecl:
					x.Doc = nil
				case *ast.ValueSpec:
					x.Doc, x.Comment = nil, nil
				}
				return true
			})
		}
		for _, fn := range []string{"Inverse", "Sqrt", "Div"} {
			var st []string
			noDocs(findMethod(fr, fn))
			for _, s := range findMethod(fr, fn).Body.List {
				st = append(st, stmtText(s))
			}
			b.WriteString("def body" + fn + " : List String := [" + quoteAll(st) + "]\n")
		}
		for _, fn := range []string{"mulByConstant", "_butterflyGeneric"} {
			var st []string
			noDocs(findFunc(fr, fn))
			for _, s := range findFunc(fr, fn).Body.List {
				st = append(st, stmtText(s))
			}
			b.WriteString("def body" + strings.TrimPrefix(fn, "_") + " : List String := [" + quoteAll(st) + "]\n")
		}
		write("FrConsts.lean", b.String())
	}

	// ---------------------------------------------------------------- Schedules
	{
		var b strings.Builder
		mp := parse(filepath.Join(*repo, "multiproof.go"))
		prover := parse(filepath.Join(*repo, "ipa/prover.go"))
		verifier := parse(filepath.Join(*repo, "ipa/verifier.go"))
		emit := func(name string, fd *ast.FuncDecl, vars []string) {
			ops := fsOps(fd.Body, "transcript")
			var kinds, vals []string
			for _, o := range ops {
				if i := strings.Index(o, "|"); i >= 0 {
					kinds = append(kinds, o[:i])
					vals = append(vals, o[i+1:])
				} else {
					kinds = append(kinds, o)
				}
			}
			b.WriteString("def " + name + " : List String := [" + quoteAll(kinds) + "]\n")
			b.WriteString("def " + name + "Args : List String := [" + quoteAll(vals) + "]\n")
			inits := localInits(fd.Body)
			var kv []string
			for _, v := range vars {
				kv = append(kv, "("+leanString(v)+", "+leanString(inits[v])+")")
			}
			b.WriteString("def " + name + "Vars : List (String × String) := [" + strings.Join(kv, ", ") + "]\n")
		}
		emit("mpProver", findFunc(mp, "CreateMultiProof"), []string{"z", "y", "f", "r", "t"})
		emit("mpVerifier", findFunc(mp, "CheckMultiProof"), []string{"z", "r", "t"})
		emit("ipaProver", findFunc(prover, "CreateIPAProof"), []string{"w", "x", "inner_prod", "b"})
		emit("ipaVerifier", findFunc(verifier, "CheckIPAProof"), []string{"w", "b", "challenges"})
		emit("ipaChallenges", findFunc(verifier, "generateChallenges"), nil)
		b.WriteString("def mpLabels : List (String × String) := [" + strings.Join(labelValues(mp, []string{"labelC", "labelZ", "labelY", "labelD", "labelE", "labelT", "labelR", "labelDomainSep"}), ", ") + "]\n")
		b.WriteString("def ipaLabels : List (String × String) := [" + strings.Join(labelValues(prover, []string{"labelDomainSep", "labelC", "labelInputPoint", "labelOutputPoint", "labelW", "labelL", "labelR", "labelX"}), ", ") + "]\n")
		// the transcript implementation itself: what each method writes
		tr := parse(filepath.Join(*repo, "common/transcript.go"))
		for _, m := range []string{"AppendMessage", "AppendScalar", "AppendPoint", "DomainSep", "ChallengeScalar"} {
			var calls []string
			ast.Inspect(findMethod(tr, m), func(n ast.Node) bool {
				if c, ok := n.(*ast.CallExpr); ok {
					calls = append(calls, exprStr(c))
				}
				return true
			})
			b.WriteString("def tr" + m + " : List String := [" + quoteAll(calls) + "]\n")
		}
		write("Schedules.lean", b.String())
	}

	// ---------------------------------------------------------------- Execute (translated)
	translateExecute(*repo, write)

	// ---------------------------------------------------------------- fr limb code (translated)
	translateLimbs(*repo, writeImp)

	// ---------------------------------------------------------------- curve formulas (translated)
	translateFormulas(*repo, writeImp)

	// ---------------------------------------------------------------- scalar-field loop code (translated)
	translateLoops(*repo, writeImp)
	translateElements(*repo, writeImp)
	translateMsmChunk(*repo, writeImp)
	translateSerde(*repo, writeImp)
	translateRecode(*repo, writeImp)
	translatePrecompFull(*repo, writeImp)
	translateMultiExpDriver(*repo, writeImp)
	translateFrCodec(*repo, writeImp)
	translateBatchConv(*repo, writeImp)
	translateSqrtFp(*repo, writeImp)
	translateTranscript(*repo, writeImp)
	translateCRS(*repo, writeImp)
	translateInverse(*repo, writeImp)
	translateMulConst(*repo, writeImp)
	translateFrSqrt(*repo, writeImp)
	fmt.Println("extract: ok")
}

func quoteAll(l []string) string {
	q := make([]string, len(l))
	for i, s := range l {
		q[i] = leanString(s)
	}
	return strings.Join(q, ", ")
}

func findMethod(f *ast.File, name string) *ast.FuncDecl {
	for _, d := range f.Decls {
		if fd, ok := d.(*ast.FuncDecl); ok && fd.Name.Name == name && fd.Recv != nil {
			return fd
		}
	}
	die("method %s not found", name)
	return nil
}

func mustInit(body *ast.BlockStmt, name string) ast.Expr {
	var found ast.Expr
	ast.Inspect(body, func(n ast.Node) bool {
		switch s := n.(type) {
		case *ast.DeclStmt:
			if gd, ok := s.Decl.(*ast.GenDecl); ok {
				for _, sp := range gd.Specs {
					if vs, ok := sp.(*ast.ValueSpec); ok {
						for i, nm := range vs.Names {
							if nm.Name == name && i < len(vs.Values) && found == nil {
								found = vs.Values[i]
							}
						}
					}
				}
			}
		case *ast.AssignStmt:
			if s.Tok == token.DEFINE {
				for i, l := range s.Lhs {
					if id, ok := l.(*ast.Ident); ok && id.Name == name && found == nil && i < len(s.Rhs) {
						found = s.Rhs[i]
					}
				}
			}
		}
		return true
	})
	if found == nil {
		die("initialiser of %s not found", name)
	}
	return found
}
