// msmchunk.go: translates the group-level part of the bucket method of bandersnatch/multiexp.go —
// `msmProcessChunkPointAffineDMA` (bucket initialisation, the add / subtract dispatch on the
// digit, the running-sum reduction) and `msmReduceChunkPointAffineDMA` (Horner combination with
// `c` doublings) — with the statement machinery of loops.go.  The word-selector statements of
// `msmProcessChunkPointAffineDMA` (`jc := …` up to the digit read `bits := …`) are translated with
// 64-bit wrap-around by selector.go (`chunkSelector`, `digitRead`); here the digit of scalar `i` is
// the parameter `digit i`, and the tie theorem instantiates it with `digitRead` of `chunkSelector`.
// Together the two translators cover every statement of the function (checked below).
package main

import (
	"go/ast"
	"go/token"
	"path/filepath"
	"strings"
)

func stmtText(s ast.Stmt) string { return strings.Join(strings.Fields(nodeStr(s)), " ") }

func translateMsmChunk(repo string, write func(name, imports, content string)) {
	f := parse(filepath.Join(repo, "bandersnatch/multiexp.go"))
	t := &loopTr{fns: map[string]*loopFn{}, consts: map[string]string{}, sb: &strings.Builder{}, msm: true, labels: map[string]bool{}}
	t.sb.WriteString("namespace MsmChunk\nopen GoIpa\n\nsection\nvariable {K G : Type} [Zero G] [Add G] [Neg G]\n\n")

	pc := findFunc(f, "msmProcessChunkPointAffineDMA")
	if pc == nil {
		die("msmchunk: msmProcessChunkPointAffineDMA not found")
	}
	// partition the statements: selector.go's share, ours, nothing else
	var body []ast.Stmt
	sawLoop := false
	for _, s := range pc.Body.List {
		txt := stmtText(s)
		switch {
		case strings.HasPrefix(txt, "mask := "), strings.HasPrefix(txt, "jc := "), strings.HasPrefix(txt, "s := selector{}"),
			strings.HasPrefix(txt, "s.index = "), strings.HasPrefix(txt, "s.shift = "), strings.HasPrefix(txt, "s.mask = "),
			strings.HasPrefix(txt, "s.multiWordSelect = "), strings.HasPrefix(txt, "if s.multiWordSelect {"):
			// translated by selector.go (chunkSelector)
		case strings.HasPrefix(txt, "msbWindow := "):
			body = append(body, s)
		case strings.HasPrefix(txt, "for i := 0; i < len(buckets); i++"):
			body = append(body, s)
		case strings.HasPrefix(txt, "for i := 0; i < len(scalars); i++"):
			fs := s.(*ast.ForStmt)
			var nb []ast.Stmt
			for _, ls := range fs.Body.List {
				lt := stmtText(ls)
				switch {
				case strings.HasPrefix(lt, "bits := (scalars[i][s.index] & s.mask) >> s.shift"):
					// the digit read: translated by selector.go (digitRead); here `digit(i)`
					nb = append(nb, &ast.AssignStmt{Lhs: []ast.Expr{ast.NewIdent("bits")}, Tok: token.DEFINE,
						Rhs: []ast.Expr{&ast.CallExpr{Fun: ast.NewIdent("digit"), Args: []ast.Expr{ast.NewIdent("i")}}}})
				case strings.HasPrefix(lt, "if s.multiWordSelect { bits += "):
					// second half of the digit read
				default:
					nb = append(nb, ls)
				}
			}
			if len(nb) != len(fs.Body.List)-1 {
				die("msmchunk: the digit read of msmProcessChunkPointAffineDMA has an unexpected shape")
			}
			body = append(body, &ast.ForStmt{Init: fs.Init, Cond: fs.Cond, Post: fs.Post, Body: &ast.BlockStmt{List: nb}})
			sawLoop = true
		case strings.HasPrefix(txt, "runningSum, total := Identity, Identity"):
			body = append(body, s)
		case strings.HasPrefix(txt, "for k := len(buckets) - 1; k >= 0; k--"):
			body = append(body, s)
		case txt == "*res = total":
			body = append(body, &ast.ReturnStmt{Results: []ast.Expr{ast.NewIdent("total")}})
		default:
			die("msmchunk: unexpected statement in msmProcessChunkPointAffineDMA: %s", txt)
		}
	}
	if !sawLoop {
		die("msmchunk: scalar loop not found")
	}
	if _, ok := body[len(body)-1].(*ast.ReturnStmt); !ok {
		die("msmchunk: msmProcessChunkPointAffineDMA does not end in `*res = total`")
	}
	var params []*ast.Field
	for _, p := range pc.Type.Params.List {
		n := p.Names[0].Name
		if n == "chunk" || n == "res" {
			continue // the chunk number only feeds the selector; the result pointer is the return value
		}
		params = append(params, p)
	}
	extraParams["msmProcessChunkPointAffineDMA"] = "(dbl : G → G) (digit : Int → Int)"
	extraParams["msmReduceChunkPointAffineDMA"] = "(dbl : G → G)"
	fd := &ast.FuncDecl{Name: pc.Name, Type: &ast.FuncType{Params: &ast.FieldList{List: params},
		Results: &ast.FieldList{List: []*ast.Field{{Type: ast.NewIdent("PointProj")}}}}, Body: &ast.BlockStmt{List: body}}
	t.fnDecl(fd, "msmProcessChunkPointAffineDMA", "processChunk", false)

	rc := findFunc(f, "msmReduceChunkPointAffineDMA")
	if rc == nil {
		die("msmchunk: msmReduceChunkPointAffineDMA not found")
	}
	t.fnDecl(rc, "msmReduceChunkPointAffineDMA", "reduceChunk", false)
	t.sb.WriteString("end\n\nend MsmChunk\n")
	write("MsmChunk.lean", "import GoIpa.Model.Loop\n", t.sb.String())
}
