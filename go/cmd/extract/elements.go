// elements.go: translates the functions of banderwagon/element.go (serialisation, decoding,
// equality, map-to-field, the batch serialisers and the wrappers around the gnark point
// operations) into Lean, statement by statement, with the statement machinery of loops.go
// (`let`-shadowing, continuation-style jumps, loops as folds, `error` as `Option`).
//
//   * `Element` (a struct around gnark's PointProj) is `Proj K` (fields X Y Z), `PointAffine` is
//     `Aff K`, `fp.Element` is `K`, byte slices and byte arrays are `Bytes`, `*fr.Element` is `S`;
//   * everything the file calls but does not define (gnark field methods `Bytes`, `SetBytes`,
//     `SetBytesCanonical`, `LexicographicallyLargest`, `Legendre`, the point formulas, `FromProj`,
//     `fp.BatchInvert`, `fp.BytesLE`, `bandersnatch.GetPointFromX`, `fr.SetBytesLE`) is a field of the
//     environment `E : ElemEnv K S` (lean/GoIpa/Model/ElemEnv.lean);
//   * a method with a pointer receiver returns the new value of the receiver (`Option` of it when
//     the Go method returns an `error`); `MapToScalarField(res)` returns the new `res`,
//     `BatchMapToScalarField(result, …)` the new `result`;
//   * `x, nil-check` pairs (`point := GetPointFromX(…); if point == nil {return …}` and
//     `if err := x.SetBytesCanonical(b); err != nil {return …}`) become `match … with | none => none`.
//
// Not translated: `BatchNormalize` (pointer de-duplication through a Go map; modelled on a heap in
// Model/Batch.lean and tied by T2) — the translator checks that it is the only function left out.
package main

import (
	"fmt"
	"go/ast"
	"go/token"
	"path/filepath"
	"sort"
	"strings"
)

const (
	tPt lty = iota + 100
	tAff
	tListPt
	tListBytes
	tS
	tListS
	tUnit
)

func elemLean(t lty) (string, bool) {
	switch t {
	case tPt:
		return "Proj K", true
	case tAff:
		return "Aff K", true
	case tListPt:
		return "List (Proj K)", true
	case tListBytes:
		return "List Bytes", true
	case tS:
		return "S", true
	case tListS:
		return "List S", true
	case tUnit:
		return "Unit", true
	}
	return "", false
}

func elemZero(t lty) (string, bool) {
	switch t {
	case tPt:
		return "(⟨0, 0, 0⟩ : Proj K)", true
	case tAff:
		return "(⟨0, 0⟩ : Aff K)", true
	case tListPt, tListBytes, tListS:
		return "[]", true
	case tS:
		return "(0 : S)", true
	case tBytes:
		return "([] : Bytes)", true
	case tUnit:
		return "()", true
	}
	return "", false
}

// Go type -> Lean type in element mode
func (t *loopTr) elemGoType(e ast.Expr) (lty, bool) {
	s := exprStr(e)
	switch s {
	case "fp.Element", "*fp.Element":
		return tK, true
	case "[]fp.Element":
		return tListK, true
	case "Element", "*Element":
		return tPt, true
	case "[]*Element", "...*Element":
		return tListPt, true
	case "bandersnatch.PointAffine":
		return tAff, true
	case "[]byte", "[CompressedSize]byte", "[UncompressedSize]byte":
		return tBytes, true
	case "[][CompressedSize]byte", "[][UncompressedSize]byte":
		return tListBytes, true
	case "*fr.Element":
		return tS, true
	case "[]*fr.Element":
		return tListS, true
	case "bool":
		return tBool, true
	case "big.Int":
		return tBig, true
	case "int":
		return tInt, true
	}
	return 0, false
}

// byte-array length of an array type expression, "" for slices
func (t *loopTr) byteArrayLen(e ast.Expr) string {
	if at, ok := e.(*ast.ArrayType); ok && at.Len != nil && exprStr(at.Elt) == "byte" {
		return t.intExpr(at.Len)
	}
	return ""
}

// `a.inner.X`, `a.X`, `xs[i].inner.Z`: (base expression, Lean projection)
func (t *loopTr) fieldPath(e ast.Expr) (ast.Expr, string, bool) {
	sel, ok := e.(*ast.SelectorExpr)
	if !ok {
		return nil, "", false
	}
	f := sel.Sel.Name
	if f != "X" && f != "Y" && f != "Z" {
		return nil, "", false
	}
	base := sel.X
	if in, ok := base.(*ast.SelectorExpr); ok && in.Sel.Name == "inner" {
		base = in.X
	}
	switch t.typeOf(base) {
	case tPt:
		return base, f, true
	case tInt:
		if t.heap {
			return base, f, true // a pointer into the heap
		}
	case tAff:
		if f == "Z" {
			die("elements: %s: affine point has no Z", t.cur.name)
		}
		return base, strings.ToLower(f), true
	}
	return nil, "", false
}

func (t *loopTr) elemType(e ast.Expr) (lty, bool) {
	switch x := e.(type) {
	case *ast.SelectorExpr:
		if x.Sel.Name == "inner" {
			if t.typeOf(x.X) == tPt {
				return tPt, true
			}
		}
		if _, _, ok := t.fieldPath(e); ok {
			return tK, true
		}
		if s := exprStr(e); s == "bandersnatch.CurveParams.A" || s == "CurveParams.A" || s == "CurveParams.D" {
			return tK, true
		}
	case *ast.Ident:
		if x.Name == "Identity" {
			return tPt, true
		}
	case *ast.IndexExpr:
		switch t.typeOf(x.X) {
		case tListPt:
			return tPt, true
		case tListBytes:
			return tBytes, true
		case tListS:
			return tS, true
		}
	case *ast.SliceExpr:
		if t.typeOf(x.X) == tBytes {
			return tBytes, true
		}
	case *ast.CallExpr:
		fn := exprStr(x.Fun)
		switch fn {
		case "fp.BatchInvert":
			return tListK, true
		case "fp.BytesLE":
			return tBytes, true
		case "fp.One", "fp.Zero":
			return tK, true
		case "len":
			return tInt, true
		case "bytes.Equal":
			return tBool, true
		}
		if sel, ok := x.Fun.(*ast.SelectorExpr); ok {
			rt := t.typeOf(sel.X)
			switch {
			case rt == tK && sel.Sel.Name == "Bytes":
				return tBytes, true
			case rt == tK && (sel.Sel.Name == "IsZero" || sel.Sel.Name == "IsOne" || sel.Sel.Name == "LexicographicallyLargest" || sel.Sel.Name == "Equal"):
				return tBool, true
			case rt == tK && sel.Sel.Name == "Legendre":
				return tInt, true
			case rt == tK && sel.Sel.Name == "Neg":
				return tK, true
			case rt == tAff && sel.Sel.Name == "IsOnCurve":
				return tBool, true
			case rt == tPt:
				if f := t.fns[sel.Sel.Name]; f != nil && len(f.results) == 1 && !f.option {
					return f.results[0], true
				}
			}
		}
	}
	return 0, false
}

func (t *loopTr) elemVal(e ast.Expr) (string, bool) {
	switch x := e.(type) {
	case *ast.SelectorExpr:
		if x.Sel.Name == "inner" && t.typeOf(x.X) == tPt {
			return t.valExpr(x.X), true
		}
		if base, f, ok := t.fieldPath(e); ok {
			if t.heap && t.typeOf(base) == tInt {
				return "(Loop.get heap " + t.intExpr(base) + " (⟨0, 0, 0⟩ : Proj K))." + f, true
			}
			return "(" + t.valExpr(base) + ")." + f, true
		}
		if s := exprStr(e); s == "bandersnatch.CurveParams.A" || s == "CurveParams.A" {
			return "E.a", true
		}
		if exprStr(e) == "CurveParams.D" {
			return "E.d", true
		}
	case *ast.Ident:
		if x.Name == "Identity" {
			return "identity", true
		}
	case *ast.IndexExpr:
		switch t.typeOf(x.X) {
		case tListPt, tListBytes, tListS:
			z, _ := elemZero(t.typeOf(e))
			return "(Loop.get " + t.valExpr(x.X) + " " + t.intExpr(x.Index) + " " + z + ")", true
		}
	case *ast.SliceExpr:
		if t.typeOf(x.X) == tBytes {
			base := t.valExpr(x.X)
			switch {
			case x.Low == nil && x.High == nil:
				return base, true
			case x.Low == nil:
				return "(Loop.take " + base + " " + t.intExpr(x.High) + ")", true
			case x.High == nil:
				return "(Loop.drop " + base + " " + t.intExpr(x.Low) + ")", true
			}
		}
	case *ast.CallExpr:
		fn := exprStr(x.Fun)
		switch fn {
		case "fp.BatchInvert":
			return "(E.batchInvert " + t.valExpr(x.Args[0]) + ")", true
		case "fp.BytesLE":
			return "(E.encLE " + t.valExpr(x.Args[0]) + ")", true
		case "fp.One":
			return "(1 : K)", true
		case "fp.Zero":
			return "(0 : K)", true
		}
		if sel, ok := x.Fun.(*ast.SelectorExpr); ok {
			rt := t.typeOf(sel.X)
			switch {
			case rt == tK && sel.Sel.Name == "Bytes" && len(x.Args) == 0:
				return "(E.encBE " + t.valExpr(sel.X) + ")", true
			case rt == tK && sel.Sel.Name == "LexicographicallyLargest" && len(x.Args) == 0:
				return "(E.lex " + t.valExpr(sel.X) + ")", true
			case rt == tK && sel.Sel.Name == "Neg" && len(x.Args) == 1:
				return "(-" + t.valExpr(x.Args[0]) + ")", true
			case rt == tAff && sel.Sel.Name == "IsOnCurve":
				return "(E.affOnCurve " + t.valExpr(sel.X) + ")", true
			case rt == tPt:
				if f := t.fns[sel.Sel.Name]; f != nil && !f.option {
					return t.elemCall(f, sel.X, x.Args), true
				}
			}
		}
		if f := t.fns[fn]; f != nil && !f.option && f.recv == "" {
			return t.elemCall(f, nil, x.Args), true
		}
	}
	return "", false
}

// call of a translated function: `name E [recv] args`
func (t *loopTr) elemCall(f *loopFn, recv ast.Expr, args []ast.Expr) string {
	parts := []string{f.name, "E"}
	if f.recv != "" {
		if recv == nil {
			die("elements: %s: method %s called without receiver", t.cur.name, f.name)
		}
		parts = append(parts, t.valExpr(recv))
	}
	if len(args) != len(f.params) {
		die("elements: %s: arity of %s", t.cur.name, f.name)
	}
	for i, a := range args {
		if f.ptypes[i] == tInt {
			parts = append(parts, t.intExpr(a))
		} else {
			parts = append(parts, t.valExpr(a))
		}
	}
	return "(" + strings.Join(parts, " ") + ")"
}

func (t *loopTr) elemCond(e ast.Expr) (string, bool) {
	if b, ok := e.(*ast.BinaryExpr); ok && (b.Op == token.EQL || b.Op == token.NEQ) && t.typeOf(b.X) == tBool && t.typeOf(b.Y) == tBool {
		op := "="
		if b.Op == token.NEQ {
			op = "≠"
		}
		return "(" + t.valExpr(b.X) + " " + op + " " + t.valExpr(b.Y) + ")", true
	}
	switch x := e.(type) {
	case *ast.Ident:
		if t.vars[x.Name] == tBool {
			return "(" + x.Name + " = true)", true
		}
	case *ast.CallExpr:
		if exprStr(x.Fun) == "bytes.Equal" && len(x.Args) == 2 {
			return "(" + t.valExpr(x.Args[0]) + " = " + t.valExpr(x.Args[1]) + ")", true
		}
		if sel, ok := x.Fun.(*ast.SelectorExpr); ok && t.typeOf(sel.X) == tK {
			switch sel.Sel.Name {
			case "IsOne":
				return "(" + t.valExpr(sel.X) + " = 1)", true
			case "LexicographicallyLargest":
				return "(E.lex " + t.valExpr(sel.X) + " = true)", true
			case "Equal":
				return "(" + t.valExpr(sel.X) + " = " + t.valExpr(x.Args[0]) + ")", true
			}
		}
		if sel, ok := x.Fun.(*ast.SelectorExpr); ok && t.typeOf(sel.X) == tAff && sel.Sel.Name == "IsOnCurve" {
			return "(E.affOnCurve " + t.valExpr(sel.X) + " = true)", true
		}
	}
	return "", false
}

func (t *loopTr) elemInt(e ast.Expr) (string, bool) {
	if c, ok := e.(*ast.CallExpr); ok {
		if sel, ok := c.Fun.(*ast.SelectorExpr); ok && sel.Sel.Name == "Legendre" && t.typeOf(sel.X) == tK {
			return "(E.legendre " + t.valExpr(sel.X) + ")", true
		}
	}
	return "", false
}

// assignment to a struct field path or to the pointee of the receiver
func (t *loopTr) elemAssign(ind string, lhs ast.Expr, v string) bool {
	if st, ok := lhs.(*ast.StarExpr); ok {
		if id, ok := st.X.(*ast.Ident); ok && t.vars[id.Name] == tPt {
			fmt.Fprintf(t.sb, "%slet %s : Proj K := %s\n", ind, id.Name, v)
			return true
		}
	}
	if base, f, ok := t.fieldPath(lhs); ok {
		if t.heap && t.typeOf(base) == tInt {
			ptr := t.intExpr(base)
			fmt.Fprintf(t.sb, "%slet heap : List (Proj K) := Loop.set heap %s { (Loop.get heap %s (⟨0, 0, 0⟩ : Proj K)) with %s := %s }\n", ind, ptr, ptr, f, v)
			return true
		}
		id, ok := base.(*ast.Ident)
		if !ok {
			die("elements: %s: unsupported field assignment %s", t.cur.name, exprStr(lhs))
		}
		ty, _ := elemLean(t.vars[id.Name])
		fmt.Fprintf(t.sb, "%slet %s : %s := { %s with %s := %s }\n", ind, id.Name, ty, id.Name, f, v)
		return true
	}
	if ix, ok := lhs.(*ast.IndexExpr); ok {
		if id, ok := ix.X.(*ast.Ident); ok {
			switch t.vars[id.Name] {
			case tListPt, tListBytes, tListS:
				ty, _ := elemLean(t.vars[id.Name])
				fmt.Fprintf(t.sb, "%slet %s : %s := Loop.set %s %s (%s)\n", ind, id.Name, ty, id.Name, t.intExpr(ix.Index), v)
				return true
			}
		}
	}
	return false
}

// the composite literal `Element{inner: bandersnatch.PointProj{X: a, Y: b, Z: c}}`
func (t *loopTr) elemLiteral(e ast.Expr) (string, bool) {
	cl, ok := e.(*ast.CompositeLit)
	if !ok || exprStr(cl.Type) != "Element" || len(cl.Elts) != 1 {
		return "", false
	}
	kv, ok := cl.Elts[0].(*ast.KeyValueExpr)
	if !ok || exprStr(kv.Key) != "inner" {
		return "", false
	}
	in, ok := kv.Value.(*ast.CompositeLit)
	if !ok || exprStr(in.Type) != "bandersnatch.PointProj" || len(in.Elts) != 3 {
		return "", false
	}
	vals := map[string]string{}
	for _, el := range in.Elts {
		kv := el.(*ast.KeyValueExpr)
		vals[exprStr(kv.Key)] = t.valExpr(kv.Value)
	}
	if vals["X"] == "" || vals["Y"] == "" || vals["Z"] == "" {
		return "", false
	}
	return "(⟨" + vals["X"] + ", " + vals["Y"] + ", " + vals["Z"] + "⟩ : Proj K)", true
}

// statements special to element mode; returns (handled, block finished)
func (t *loopTr) elemStmt(ind string, s ast.Stmt, rest []ast.Stmt, k, cont string) (bool, bool) {
	switch x := s.(type) {
	case *ast.DeclStmt:
		for _, sp := range x.Decl.(*ast.GenDecl).Specs {
			vs := sp.(*ast.ValueSpec)
			if len(vs.Values) != 0 {
				return false, false
			}
			ty, ok := t.elemGoType(vs.Type)
			if !ok {
				die("elements: %s: unsupported declaration %s", t.cur.name, exprStr(vs.Type))
			}
			for _, n := range vs.Names {
				t.vars[n.Name] = ty
				var zero, lean string
				if l := t.byteArrayLen(vs.Type); l != "" {
					zero, lean = "List.replicate ("+l+").toNat (0 : UInt8)", "Bytes"
				} else if z, ok := elemZero(ty); ok {
					zero = z
					lean, _ = elemLean(ty)
					if ty == tBytes {
						lean = "Bytes"
					}
				} else {
					zero, lean = ty.zero(), ty.lean()
				}
				fmt.Fprintf(t.sb, "%slet %s : %s := %s\n", ind, n.Name, lean, zero)
			}
		}
		return true, false
	case *ast.AssignStmt:
		if len(x.Lhs) == 1 && len(x.Rhs) == 1 {
			// `*p = Element{…}` / `*p = Identity`
			if _, ok := x.Lhs[0].(*ast.StarExpr); ok {
				v, ok := t.elemLiteral(x.Rhs[0])
				if !ok {
					v = t.valExpr(x.Rhs[0])
				}
				if !t.elemAssign(ind, x.Lhs[0], v) {
					die("elements: %s: unsupported assignment through a pointer", t.cur.name)
				}
				return true, false
			}
			if c, ok := x.Rhs[0].(*ast.CallExpr); ok {
				fn := exprStr(c.Fun)
				// `v := f(…)` for a callee that may return nil, followed by `if v == nil { return … }`
				if x.Tok == token.DEFINE {
					var callee string
					var rty lty
					switch fn {
					case "bandersnatch.GetPointFromX":
						g := t.fns["GetPointFromX"]
						if g == nil {
							die("elements: GetPointFromX used before it is translated")
						}
						callee, rty = t.elemCall(g, nil, c.Args), tAff
					case "computeY":
						g := t.fns["computeY"]
						if g == nil {
							die("elements: computeY used before it is translated")
						}
						callee, rty = t.elemCall(g, nil, c.Args), tK
					case "fp.SqrtPrecomp":
						callee, rty = "E.sqrt "+t.valExpr(c.Args[0]), tK
					}
					if callee != "" {
						name := exprStr(x.Lhs[0])
						if len(rest) == 0 {
							die("elements: %s: result of %s is not checked", t.cur.name, fn)
						}
						chk, ok := rest[0].(*ast.IfStmt)
						if !ok || exprStr(chk.Cond) != name+" == nil" || len(chk.Body.List) != 1 || chk.Else != nil {
							die("elements: %s: result of %s is not checked immediately", t.cur.name, fn)
						}
						if _, ok := chk.Body.List[0].(*ast.ReturnStmt); !ok {
							die("elements: %s: nil branch of %s does not return", t.cur.name, fn)
						}
						fmt.Fprintf(t.sb, "%smatch %s with\n%s| none =>\n", ind, callee, ind)
						saved := t.snapshot()
						t.block(ind+"  ", chk.Body.List, "", cont)
						t.restore(saved)
						fmt.Fprintf(t.sb, "%s| some %s =>\n", ind, name)
						t.vars[name] = rty
						t.block(ind+"  ", rest[1:], k, cont)
						return true, true
					}
				}
				// `err := f(…)` followed by `if err != nil { return err }`
				if x.Tok == token.DEFINE && exprStr(x.Lhs[0]) == "err" {
					f := t.fns[fn]
					if f == nil || !f.option || len(f.results) != 1 || f.results[0] != tUnit {
						die("elements: %s: unsupported error-returning call %s", t.cur.name, fn)
					}
					if len(rest) == 0 {
						die("elements: %s: error of %s is not checked", t.cur.name, fn)
					}
					chk, ok := rest[0].(*ast.IfStmt)
					if !ok || exprStr(chk.Cond) != "err != nil" || len(chk.Body.List) != 1 {
						die("elements: %s: error of %s is not checked immediately", t.cur.name, fn)
					}
					fmt.Fprintf(t.sb, "%smatch %s with\n%s| none => none\n%s| some _ =>\n", ind, t.elemCall(f, nil, c.Args), ind, ind)
					t.block(ind+"  ", rest[1:], k, cont)
					return true, true
				}
				if fn == "make" {
					ty, ok := t.elemGoType(c.Args[0])
					if !ok {
						die("elements: %s: unsupported make(%s)", t.cur.name, exprStr(c.Args[0]))
					}
					var el string
					switch ty {
					case tListK:
						el = "(0 : K)"
					case tListBytes:
						at := c.Args[0].(*ast.ArrayType)
						el = "(List.replicate (" + t.byteArrayLen(at.Elt) + ").toNat (0 : UInt8))"
					default:
						die("elements: %s: unsupported make(%s)", t.cur.name, exprStr(c.Args[0]))
					}
					id := x.Lhs[0].(*ast.Ident)
					t.vars[id.Name] = ty
					lean := ty.lean()
					if l, ok := elemLean(ty); ok {
						lean = l
					}
					fmt.Fprintf(t.sb, "%slet %s : %s := List.replicate (%s).toNat %s\n", ind, id.Name, lean, t.intExpr(c.Args[1]), el)
					return true, false
				}
			}
			// plain assignment whose target is a field path / list slot of element mode
			if x.Tok == token.ASSIGN {
				if _, _, ok := t.fieldPath(x.Lhs[0]); ok {
					t.elemAssign(ind, x.Lhs[0], t.valExpr(x.Rhs[0]))
					return true, false
				}
				if ix, ok := x.Lhs[0].(*ast.IndexExpr); ok {
					switch t.typeOf(ix.X) {
					case tListPt, tListBytes, tListS:
						t.elemAssign(ind, x.Lhs[0], t.valExpr(x.Rhs[0]))
						return true, false
					}
				}
			}
			if x.Tok == token.DEFINE {
				if id, ok := x.Lhs[0].(*ast.Ident); ok {
					ty := t.typeOf(x.Rhs[0])
					if l, ok := elemLean(ty); ok || ty == tBytes {
						if ty == tBytes {
							l = "Bytes"
						}
						t.vars[id.Name] = ty
						fmt.Fprintf(t.sb, "%slet %s : %s := %s\n", ind, id.Name, l, t.valExpr(x.Rhs[0]))
						return true, false
					}
				}
			}
		}
	case *ast.ExprStmt:
		c, ok := x.X.(*ast.CallExpr)
		if !ok {
			return false, false
		}
		if exprStr(c.Fun) == "copy" && len(c.Args) == 2 {
			// copy(dst[off:], src[:]) on byte arrays
			ds, ok := c.Args[0].(*ast.SliceExpr)
			if !ok || ds.High != nil {
				die("elements: %s: unsupported copy destination", t.cur.name)
			}
			off := "(0 : Int)"
			if ds.Low != nil {
				off = t.intExpr(ds.Low)
			}
			if t.typeOf(ds.X) != tBytes {
				die("elements: %s: copy into a non-byte array", t.cur.name)
			}
			v := "Loop.copyAt " + t.valExpr(ds.X) + " " + off + " " + t.valExpr(c.Args[1])
			switch d := ds.X.(type) {
			case *ast.Ident:
				fmt.Fprintf(t.sb, "%slet %s : Bytes := %s\n", ind, d.Name, v)
			case *ast.IndexExpr:
				if !t.elemAssign(ind, d, v) {
					die("elements: %s: unsupported copy destination", t.cur.name)
				}
			default:
				die("elements: %s: unsupported copy destination", t.cur.name)
			}
			return true, false
		}
		sel, ok := c.Fun.(*ast.SelectorExpr)
		if !ok {
			return false, false
		}
		rt := t.typeOf(sel.X)
		m := sel.Sel.Name
		set := func(v string) {
			switch r := sel.X.(type) {
			case *ast.Ident:
				lean, ok := elemLean(rt)
				if !ok {
					lean = rt.lean()
				}
				fmt.Fprintf(t.sb, "%slet %s : %s := %s\n", ind, r.Name, lean, v)
			default:
				if in, ok := sel.X.(*ast.SelectorExpr); ok && in.Sel.Name == "inner" {
					if id, ok := in.X.(*ast.Ident); ok {
						fmt.Fprintf(t.sb, "%slet %s : Proj K := %s\n", ind, id.Name, v)
						return
					}
				}
				if !t.elemAssign(ind, sel.X, v) {
					die("elements: %s: unsupported receiver %s", t.cur.name, exprStr(sel.X))
				}
			}
		}
		switch {
		case rt == tAff && m == "FromProj" && len(c.Args) == 1:
			set("E.fromProj " + t.valExpr(c.Args[0]))
			return true, false
		case rt == tK && m == "SetBytes" && len(c.Args) == 1:
			set("E.decReduce " + t.valExpr(c.Args[0]))
			return true, false
		case rt == tK && m == "Div" && len(c.Args) == 2:
			set(t.valExpr(c.Args[0]) + " * (" + t.valExpr(c.Args[1]) + ")⁻¹")
			return true, false
		case rt == tS && m == "SetBytesLE" && len(c.Args) == 1:
			set("E.frOfLE " + t.valExpr(c.Args[0]))
			return true, false
		case rt == tS && m == "ToBigIntRegular" && len(c.Args) == 1:
			t.assign(ind, c.Args[0], "E.valS "+t.valExpr(sel.X), false, tBig)
			return true, false
		case rt == tPt && exprStrHasInner(sel.X):
			// gnark point operations on `p.inner`
			ops := map[string]string{"Add": "E.pAdd", "Double": "E.pDouble", "Neg": "E.pNeg", "MixedAdd": "E.pMixedAdd", "ScalarMultiplication": "E.pScalarMul"}
			op, ok := ops[m]
			if !ok {
				die("elements: %s: unsupported point operation %s", t.cur.name, m)
			}
			var as []string
			for _, a := range c.Args {
				as = append(as, t.valExpr(a))
			}
			set(op + " " + strings.Join(as, " "))
			return true, false
		case rt == tPt:
			// a translated method with pointer receiver, called for its effect on the receiver
			f := t.fns[m]
			if f == nil || f.option || len(f.results) != 1 || f.results[0] != tPt {
				die("elements: %s: unsupported method call %s", t.cur.name, exprStr(c.Fun))
			}
			set(t.elemCall(f, sel.X, c.Args))
			return true, false
		}
	case *ast.IfStmt:
		// `if err := x.SetBytesCanonical(buf); err != nil { return … }`
		if init, ok := x.Init.(*ast.AssignStmt); ok && len(init.Rhs) == 1 && exprStr(x.Cond) == "err != nil" && x.Else == nil {
			if c, ok := init.Rhs[0].(*ast.CallExpr); ok {
				if sel, ok := c.Fun.(*ast.SelectorExpr); ok && sel.Sel.Name == "SetBytesCanonical" && len(c.Args) == 1 && t.typeOf(sel.X) == tK {
					id, ok := sel.X.(*ast.Ident)
					if !ok || len(x.Body.List) != 1 {
						die("elements: %s: unsupported SetBytesCanonical form", t.cur.name)
					}
					if _, ok := x.Body.List[0].(*ast.ReturnStmt); !ok {
						die("elements: %s: error branch of SetBytesCanonical does not return", t.cur.name)
					}
					fmt.Fprintf(t.sb, "%smatch E.decCanon %s with\n%s| none =>\n", ind, t.valExpr(c.Args[0]), ind)
					saved := t.snapshot()
					t.block(ind+"  ", x.Body.List, "", cont)
					t.restore(saved)
					fmt.Fprintf(t.sb, "%s| some %s =>\n", ind, id.Name)
					t.block(ind+"  ", rest, k, cont)
					return true, true
				}
			}
		}
		if x.Init != nil {
			return false, false
		}
		// an `if` with an else branch, or whose branch contains a return but may also fall through:
		// both branches continue with the rest of the block
		if x.Else != nil || (hasJump(x.Body.List) && !endsInJump(x.Body.List)) {
			fmt.Fprintf(t.sb, "%sif %s then\n", ind, t.condExpr(x.Cond))
			saved := t.snapshot()
			t.block(ind+"  ", append(append([]ast.Stmt{}, x.Body.List...), rest...), k, cont)
			t.restore(saved)
			fmt.Fprintf(t.sb, "%selse\n", ind)
			var eb []ast.Stmt
			if x.Else != nil {
				b, ok := x.Else.(*ast.BlockStmt)
				if !ok {
					die("elements: %s: unsupported else-if", t.cur.name)
				}
				eb = b.List
			}
			t.block(ind+"  ", append(append([]ast.Stmt{}, eb...), rest...), k, cont)
			return true, true
		}
	}
	return false, false
}

func exprStrHasInner(e ast.Expr) bool {
	sel, ok := e.(*ast.SelectorExpr)
	return ok && sel.Sel.Name == "inner"
}

func endsInJump(stmts []ast.Stmt) bool {
	if len(stmts) == 0 {
		return false
	}
	switch x := stmts[len(stmts)-1].(type) {
	case *ast.ReturnStmt, *ast.BranchStmt:
		return true
	case *ast.ExprStmt:
		if c, ok := x.X.(*ast.CallExpr); ok && exprStr(c.Fun) == "panic" {
			return true
		}
	}
	return false
}

// return statements in element mode
func (t *loopTr) elemReturn(r *ast.ReturnStmt) string {
	f := t.cur
	ret := func() string {
		if f.retVar == "" {
			return "()"
		}
		return f.retVar
	}
	if f.nilable {
		if len(r.Results) != 1 {
			die("elements: %s: unsupported return", f.name)
		}
		e := r.Results[0]
		if exprStr(e) == "nil" {
			return "none"
		}
		if u, ok := e.(*ast.UnaryExpr); ok && u.Op == token.AND {
			if cl, ok := u.X.(*ast.CompositeLit); ok && exprStr(cl.Type) == "PointAffine" && len(cl.Elts) == 2 {
				vals := map[string]string{}
				for _, el := range cl.Elts {
					kv := el.(*ast.KeyValueExpr)
					vals[exprStr(kv.Key)] = t.valExpr(kv.Value)
				}
				return "some (⟨" + vals["X"] + ", " + vals["Y"] + "⟩ : Aff K)"
			}
		}
		return "some " + t.valExpr(e)
	}
	if f.option {
		last := exprStr(r.Results[len(r.Results)-1])
		if last == "nil" {
			return "some " + ret()
		}
		// `return p.setBytes(buf, false)`: pass the callee's result on
		if c, ok := r.Results[0].(*ast.CallExpr); ok && len(r.Results) == 1 {
			if sel, ok := c.Fun.(*ast.SelectorExpr); ok {
				if g := t.fns[sel.Sel.Name]; g != nil && g.option && g.recv != "" && t.typeOf(sel.X) == tPt {
					return t.elemCall(g, sel.X, c.Args)
				}
			}
		}
		return "none"
	}
	if len(r.Results) == 0 {
		return ret()
	}
	if len(r.Results) != 1 {
		die("elements: %s: unsupported return", f.name)
	}
	e := r.Results[0]
	if f.results[0] == tInt {
		return t.intExpr(e)
	}
	return t.valExpr(e)
}

// translate one function / method of element.go
func (t *loopTr) elemFn(file *ast.File, goName string) {
	var fd *ast.FuncDecl
	for _, d := range file.Decls {
		if f, ok := d.(*ast.FuncDecl); ok && f.Name.Name == goName {
			fd = f
		}
	}
	if fd == nil {
		die("elements: function %s not found", goName)
	}
	ast.Inspect(fd, func(n ast.Node) bool {
		if id, ok := n.(*ast.Ident); ok && leanReserved[id.Name] {
			id.Name += "_"
		}
		return true
	})
	f := &loopFn{name: "go_" + goName}
	t.vars = map[string]lty{}
	ptrRecv := false
	if fd.Recv != nil {
		rt := exprStr(fd.Recv.List[0].Type)
		if rt != "Element" && rt != "*Element" {
			die("elements: %s: unsupported receiver %s", goName, rt)
		}
		ptrRecv = rt == "*Element"
		f.recv = fd.Recv.List[0].Names[0].Name
		t.vars[f.recv] = tPt
	}
	outParam := ""
	for _, p := range fd.Type.Params.List {
		ty, ok := t.elemGoType(p.Type)
		if !ok {
			die("elements: %s: unsupported parameter type %s", goName, exprStr(p.Type))
		}
		for _, n := range p.Names {
			f.params = append(f.params, n.Name)
			f.ptypes = append(f.ptypes, ty)
			t.vars[n.Name] = ty
			if ty == tS || ty == tListS {
				outParam = n.Name
			}
		}
	}
	var resTypes []string
	if fd.Type.Results != nil {
		for _, r := range fd.Type.Results.List {
			resTypes = append(resTypes, exprStr(r.Type))
		}
	}
	switch strings.Join(resTypes, ",") {
	case "":
		if outParam == "" {
			die("elements: %s: no result and no output parameter", goName)
		}
		f.retVar = outParam
		f.results = []lty{t.vars[outParam]}
	case "error":
		f.option = true
		switch {
		case outParam != "":
			f.retVar = outParam
			f.results = []lty{t.vars[outParam]}
		case ptrRecv:
			f.retVar = f.recv
			f.results = []lty{tPt}
		default:
			f.results = []lty{tUnit}
		}
	case "*fp.Element":
		f.option, f.nilable = true, true
		f.results = []lty{tK}
	case "*PointAffine":
		f.option, f.nilable = true, true
		f.results = []lty{tAff}
	case "*Element":
		if !ptrRecv {
			die("elements: %s: returns *Element without pointer receiver", goName)
		}
		f.retVar = f.recv
		f.results = []lty{tPt}
	default:
		if len(resTypes) != 1 {
			die("elements: %s: unsupported results %v", goName, resTypes)
		}
		ty, ok := t.elemGoType(fd.Type.Results.List[0].Type)
		if !ok {
			die("elements: %s: unsupported result type %s", goName, resTypes[0])
		}
		f.results = []lty{ty}
	}
	t.cur = f
	ps := []string{"(E : ElemEnv K S)"}
	if f.recv != "" {
		ps = append(ps, "("+f.recv+" : Proj K)")
	}
	for i, p := range f.params {
		ps = append(ps, "("+p+" : "+t.leanTy(f.ptypes[i])+")")
	}
	rty := t.leanTy(f.results[0])
	if f.option {
		rty = "Option (" + rty + ")"
	}
	fmt.Fprintf(t.sb, "/-- translated from `%s` -/\ndef %s %s : %s :=\n", goName, f.name, strings.Join(ps, " "), rty)
	k := ""
	if f.retVar != "" && !f.option {
		k = f.retVar // a function without return statement at the end yields its output variable
	}
	t.block("  ", fd.Body.List, k, "")
	t.sb.WriteString("\n")
	t.fns[goName] = f
}

func (t *loopTr) leanTy(ty lty) string {
	if ty == tBytes {
		return "Bytes"
	}
	if l, ok := elemLean(ty); ok {
		return l
	}
	return ty.lean()
}

func translateElements(repo string, write func(name, imports, content string)) {
	el := parse(filepath.Join(repo, "banderwagon/element.go"))
	t := &loopTr{fns: map[string]*loopFn{}, consts: map[string]string{}, sb: &strings.Builder{}, elem: true, labels: map[string]bool{}}
	// sizes: coordinateSize = fp.Limbs * 8 with gnark's Limbs = 4 (external constant), the two others derived
	if s := exprStr(topLevelValue(el, "coordinateSize")); s != "fp.Limbs * 8" {
		die("elements: coordinateSize is %s", s)
	}
	if s := exprStr(topLevelValue(el, "CompressedSize")); s != "coordinateSize" {
		die("elements: CompressedSize is %s", s)
	}
	if s := exprStr(topLevelValue(el, "UncompressedSize")); s != "2 * coordinateSize" {
		die("elements: UncompressedSize is %s", s)
	}
	t.consts["coordinateSize"] = "32"
	t.consts["CompressedSize"] = "32"
	t.consts["UncompressedSize"] = "64"
	t.sb.WriteString("namespace Elements\nopen GoIpa\n\nsection\nvariable {K S : Type} [Zero K] [One K] [Add K] [Sub K] [Mul K] [Neg K] [Inv K] [DecidableEq K] [Zero S]\n\n")
	// the package variable `Identity`
	id := topLevelValue(el, "Identity")
	t.cur = &loopFn{name: "Identity"}
	t.vars = map[string]lty{}
	lit, ok := t.elemLiteral(id)
	if !ok {
		die("elements: unsupported initialiser of Identity")
	}
	t.sb.WriteString("/-- the package variable `Identity` -/\ndef identity : Proj K := " + lit + "\n\n")
	bs := parse(filepath.Join(repo, "bandersnatch/bandersnatch.go"))
	t.elemFn(bs, "computeY")
	t.elemFn(bs, "GetPointFromX")
	order := []string{"Bytes", "BytesUncompressedTrusted", "ElementsToBytes", "BatchToBytesUncompressed",
		"subgroupCheck", "setBytes", "SetBytes", "SetBytesUnsafe", "SetBytesUncompressed",
		"mapToBaseField", "MapToScalarField", "BatchMapToScalarField", "Equal",
		"SetIdentity", "Double", "Add", "AddMixed", "Neg", "Sub", "IsOnCurve", "Normalize", "Set", "ScalarMul"}
	for _, n := range order {
		t.elemFn(el, n)
	}
	t.batchNormalize(el)
	// every function of the file is translated
	var left []string
	for _, d := range el.Decls {
		if f, ok := d.(*ast.FuncDecl); ok {
			if _, ok := t.fns[f.Name.Name]; !ok || f.Name.Name == "computeY" || f.Name.Name == "GetPointFromX" {
				left = append(left, f.Name.Name)
			}
		}
	}
	sort.Strings(left)
	names := append([]string{"computeY", "GetPointFromX", "BatchNormalize"}, order...)
	sort.Strings(names)
	t.sb.WriteString("end\n\ndef translated : List String := [" + quoteAll(names) + "]\n\n/-- functions of the file that are not translated -/\ndef notTranslated : List String := [" + quoteAll(left) + "]\n\nend Elements\n")
	write("Elements.lean", "import GoIpa.Model.Loop\nimport GoIpa.Model.ElemEnv\n", t.sb.String())
}

// BatchNormalize works on pointers: it is translated over a heap (`heap : List (Proj K)`, a pointer
// is an index).  Its first four statements build `dedupedElements` by inserting every pointer of
// `elements` into a Go map and ranging over the map; they are checked textually and replaced by
// the parameter `dedupedElements` (Go's map semantics: SOME duplicate-free enumeration of the
// pointers of `elements` — the tie theorem holds for every such enumeration).  The final
// `parallel.Execute(n, func(start, end int) { for i := start; i < end; i++ { BODY } })` becomes the
// loop `for i := 0; i < n; i++ { BODY }`: BODY touches only `dedupedElements[i]` and `invs[i]`
// (checked), the pointers are distinct, and the ranges tile `[0, n)` (C20).
func (t *loopTr) batchNormalize(file *ast.File) {
	fd := findFunc(file, "BatchNormalize")
	if fd == nil {
		die("elements: BatchNormalize not found")
	}
	want := []string{
		"mapDedupedElements := make(map[*Element]struct{}, len(elements))",
		"for _, e := range elements { mapDedupedElements[e] = struct{}{} }",
		"dedupedElements := make([]*Element, 0, len(mapDedupedElements))",
		"for e := range mapDedupedElements { dedupedElements = append(dedupedElements, e) }",
	}
	if len(fd.Body.List) < len(want)+2 {
		die("elements: BatchNormalize is too short")
	}
	for i, w := range want {
		if got := stmtText(fd.Body.List[i]); got != w {
			die("elements: BatchNormalize: de-duplication statement %d is %q", i, got)
		}
	}
	var body []ast.Stmt
	for _, s := range fd.Body.List[len(want):] {
		if es, ok := s.(*ast.ExprStmt); ok {
			if c, ok := es.X.(*ast.CallExpr); ok && exprStr(c.Fun) == "parallel.Execute" {
				if len(c.Args) != 2 || exprStr(c.Args[0]) != "len(dedupedElements)" {
					die("elements: BatchNormalize: unexpected parallel.Execute call")
				}
				lit, ok := c.Args[1].(*ast.FuncLit)
				if !ok || len(lit.Body.List) != 1 {
					die("elements: BatchNormalize: unexpected work function")
				}
				fs, ok := lit.Body.List[0].(*ast.ForStmt)
				if !ok || stmtText(fs.Init)+"; "+exprStr(fs.Cond)+"; "+stmtText(fs.Post) != "i := start; i < end; i++" {
					die("elements: BatchNormalize: the work function is not `for i := start; i < end; i++`")
				}
				// the body may index only with `i`
				ast.Inspect(fs.Body, func(n ast.Node) bool {
					if ix, ok := n.(*ast.IndexExpr); ok && exprStr(ix.Index) != "i" {
						die("elements: BatchNormalize: the work function indexes with %s", exprStr(ix.Index))
					}
					if id, ok := n.(*ast.Ident); ok && (id.Name == "start" || id.Name == "end" || id.Name == "elements") {
						die("elements: BatchNormalize: the work function mentions %s", id.Name)
					}
					return true
				})
				body = append(body, &ast.ForStmt{
					Init: &ast.AssignStmt{Lhs: []ast.Expr{ast.NewIdent("i")}, Tok: token.DEFINE, Rhs: []ast.Expr{&ast.BasicLit{Kind: token.INT, Value: "0"}}},
					Cond: &ast.BinaryExpr{X: ast.NewIdent("i"), Op: token.LSS, Y: c.Args[0]},
					Post: &ast.IncDecStmt{X: ast.NewIdent("i"), Tok: token.INC},
					Body: fs.Body})
				continue
			}
		}
		body = append(body, s)
	}
	f := &loopFn{name: "go_BatchNormalize", option: true, retVar: "heap", results: []lty{tListPt},
		params: []string{"heap", "elements", "dedupedElements"}, ptypes: []lty{tListPt, tListInt, tListInt}}
	t.vars = map[string]lty{"heap": tListPt, "elements": tListInt, "dedupedElements": tListInt}
	t.cur = f
	t.heap = true
	fmt.Fprintf(t.sb, "/-- translated from `BatchNormalize` (over a heap; `dedupedElements` is the enumeration of the pointer set) -/\ndef go_BatchNormalize (E : ElemEnv K S) (heap : List (Proj K)) (elements : List Int) (dedupedElements : List Int) : Option (List (Proj K)) :=\n")
	t.block("  ", body, "", "")
	t.sb.WriteString("\n")
	t.heap = false
	t.fns["BatchNormalize"] = f
}
