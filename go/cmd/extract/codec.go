// codec.go: translates the byte codecs of bandersnatch/fr/element.go — SetBytes, SetBytesLE,
// SetBytesLECanonical, SetBigInt, setBigInt, Bytes, BytesLE and the one-line wrappers SetZero,
// ToMont, FromMont, ToRegular — statement by statement into Lean functions over the vocabulary of
// lean/GoIpa/Model/Big.lean (a *big.Int is an Int, a byte slice / array a Bytes, an Element an L4).
//
//	vv := bigIntPool.Get().(*big.Int)      let vv := pool        (`pool`: whatever value the pooled object holds)
//	vv.SetBytes(x)                         let vv := Big.setBytes x
//	vv.Set(v) / vv.Mod(v, &_modulus)       let vv := v / let vv := Big.mod v codecModulus
//	bigIntPool.Put(vv)                     (no effect on the result; must be the pooled variable)
//	x := make([]byte, n)                   let x := Big.zeros n
//	for i := range e { x[I] = e[J] }       Loop.forUp 0 (len e) x (fun i x => Loop.set x I (Loop.get e J 0))
//	for i := 0; i < n; i++ { z[i] = uint64(w[i]) }
//	c := v.Cmp(&_modulus); var zero big.Int; if/else-if chains with returns
//	z.SetZero() / z.SetBigInt(vv) / z.setBigInt(v) / z.ToMont() / z.ToRegular()
//	binary.BigEndian.PutUint64(res[a:b], _z[k])     let res := Big.putBE res a b (Big.limb _z k)
//	if bits.UintSize == 64 { A } else { B }          A   (64-bit platform; B is not translated — recorded)
//
// Anything else is refused (exit 1 = broken obligation).  `Mul` / `fromMont` are the limb routines of
// C15 (`Limbs.mulG`, `Limbs.fromMontG`), tied to `_mulGeneric` / `_fromMontGeneric` by Tie.FrLimbs.
package main

import (
	"fmt"
	"go/ast"
	"go/token"
	"math/big"
	"path/filepath"
	"strings"
)

type codecTr struct {
	sb      *strings.Builder
	fn      string
	kind    map[string]string // variable -> big | elem | bytes | words | int
	pool    string            // name of the pooled variable (if any)
	ret     string            // elem | optelem | bytes
	named   string            // named result
	loopVar string            // inside a loop body: the only variable that may be assigned
}

func (t *codecTr) die(format string, args ...interface{}) {
	die("codec: %s: "+format, append([]interface{}{t.fn}, args...)...)
}

// integer / boolean expressions
func (t *codecTr) ex(e ast.Expr) string {
	switch x := e.(type) {
	case *ast.ParenExpr:
		return "(" + t.ex(x.X) + ")"
	case *ast.BasicLit:
		if x.Kind == token.INT {
			return "(" + x.Value + " : Int)"
		}
	case *ast.Ident:
		switch {
		case x.Name == "Limbs":
			return "codecLimbs"
		case t.kind[x.Name] == "int":
			return x.Name
		}
	case *ast.UnaryExpr:
		if x.Op == token.SUB {
			return "(-" + t.ex(x.X) + ")"
		}
	case *ast.CallExpr:
		fn := exprStr(x.Fun)
		if fn == "len" && len(x.Args) == 1 {
			if id, ok := x.Args[0].(*ast.Ident); ok && (t.kind[id.Name] == "bytes" || t.kind[id.Name] == "words") {
				return "(" + id.Name + ".length : Int)"
			}
		}
		if strings.HasSuffix(fn, ".IsZero") && len(x.Args) == 0 && t.kind[strings.TrimSuffix(fn, ".IsZero")] == "elem" {
			return "(go_IsZero " + strings.TrimSuffix(fn, ".IsZero") + " = true)"
		}
		if strings.HasSuffix(fn, ".BitLen") && len(x.Args) == 0 && t.kind[strings.TrimSuffix(fn, ".BitLen")] == "big" {
			return "(Big.bitLen " + strings.TrimSuffix(fn, ".BitLen") + ")"
		}
		if strings.HasSuffix(fn, ".Cmp") && len(x.Args) == 1 {
			v := strings.TrimSuffix(fn, ".Cmp")
			if t.kind[v] == "big" {
				return "(Big.cmp " + v + " " + t.bigArg(x.Args[0]) + ")"
			}
		}
	case *ast.BinaryExpr:
		ops := map[token.Token]string{token.ADD: "+", token.SUB: "-", token.MUL: "*", token.EQL: "=", token.NEQ: "≠",
			token.LSS: "<", token.LEQ: "≤", token.GTR: ">", token.GEQ: "≥", token.LAND: "∧", token.LOR: "∨"}
		if op, ok := ops[x.Op]; ok {
			cmp := x.Op == token.EQL || x.Op == token.NEQ || x.Op == token.LSS || x.Op == token.LEQ || x.Op == token.GTR || x.Op == token.GEQ
			if cmp && (t.isUint(x.X) || t.isUint(x.Y)) {
				return "(" + t.ux(x.X) + " " + op + " " + t.ux(x.Y) + ")"
			}
			return "(" + t.ex(x.X) + " " + op + " " + t.ex(x.Y) + ")"
		}
	}
	t.die("unsupported expression %s", exprStr(e))
	return ""
}

// is this a uint64-typed expression (limb read, uint64 variable, `|` of such)?
func (t *codecTr) isUint(e ast.Expr) bool {
	switch x := e.(type) {
	case *ast.ParenExpr:
		return t.isUint(x.X)
	case *ast.IndexExpr:
		return t.kind[exprStr(x.X)] == "elem"
	case *ast.Ident:
		return t.kind[x.Name] == "uint"
	case *ast.BinaryExpr:
		if x.Op == token.OR {
			return t.isUint(x.X) || t.isUint(x.Y)
		}
	case *ast.CallExpr:
		fn := exprStr(x.Fun)
		if strings.HasSuffix(fn, ".Bit") && t.kind[strings.TrimSuffix(fn, ".Bit")] == "big" {
			return true
		}
	}
	return false
}

// uint64-typed expressions: natural numbers below 2^64
func (t *codecTr) ux(e ast.Expr) string {
	switch x := e.(type) {
	case *ast.ParenExpr:
		return "(" + t.ux(x.X) + ")"
	case *ast.BasicLit:
		if x.Kind == token.INT {
			return "(" + x.Value + " : Nat)"
		}
	case *ast.Ident:
		if t.kind[x.Name] == "uint" {
			return x.Name
		}
	case *ast.IndexExpr:
		if t.kind[exprStr(x.X)] == "elem" {
			return "(Big.limb " + exprStr(x.X) + " " + t.ex(x.Index) + ")"
		}
	case *ast.BinaryExpr:
		if x.Op == token.OR {
			return "(" + t.ux(x.X) + " ||| " + t.ux(x.Y) + ")"
		}
	case *ast.CallExpr:
		fn := exprStr(x.Fun)
		if strings.HasSuffix(fn, ".Bit") && len(x.Args) == 1 && t.kind[strings.TrimSuffix(fn, ".Bit")] == "big" {
			return "(Big.bit " + strings.TrimSuffix(fn, ".Bit") + " " + t.ex(x.Args[0]) + ")"
		}
	}
	t.die("unsupported uint64 expression %s", exprStr(e))
	return ""
}

// `&_modulus`, `&zero`, a big variable
func (t *codecTr) bigArg(e ast.Expr) string {
	s := exprStr(e)
	switch {
	case s == "&_modulus":
		return "codecModulus"
	case s == "_bLegendreExponentElement":
		return "legendreExponent"
	case strings.HasPrefix(s, "&") && t.kind[s[1:]] == "big":
		return s[1:]
	case t.kind[s] == "big":
		return s
	}
	t.die("unsupported big.Int argument %s", s)
	return ""
}

func (t *codecTr) returnStmt(ind string, r *ast.ReturnStmt) {
	switch t.ret {
	case "bytes":
		if len(r.Results) != 0 {
			t.die("unexpected return %s", stmtText(r))
		}
		fmt.Fprintf(t.sb, "%s%s\n", ind, t.named)
	case "bool":
		if len(r.Results) != 1 {
			t.die("unexpected return %s", stmtText(r))
		}
		fmt.Fprintf(t.sb, "%sdecide %s\n", ind, t.ex(r.Results[0]))
	case "int":
		if len(r.Results) != 1 {
			t.die("unexpected return %s", stmtText(r))
		}
		fmt.Fprintf(t.sb, "%s%s\n", ind, t.ex(r.Results[0]))
	case "elem":
		if len(r.Results) != 1 {
			t.die("unexpected return %s", stmtText(r))
		}
		fmt.Fprintf(t.sb, "%s%s\n", ind, t.elemValue(r.Results[0]))
	case "optelem":
		if len(r.Results) != 2 {
			t.die("unexpected return %s", stmtText(r))
		}
		if exprStr(r.Results[1]) == "nil" {
			fmt.Fprintf(t.sb, "%ssome (%s)\n", ind, t.elemValue(r.Results[0]))
		} else if exprStr(r.Results[0]) == "nil" {
			fmt.Fprintf(t.sb, "%snone\n", ind)
		} else {
			t.die("unexpected return %s", stmtText(r))
		}
	}
}

// an expression of type *Element / Element: `z`, `z.setBigInt(v)`, `z.ToMont()`, `z.Mul(z, &rSquare)`, `*z.FromMont()`
func (t *codecTr) elemValue(e ast.Expr) string {
	if st, ok := e.(*ast.StarExpr); ok {
		return t.elemValue(st.X)
	}
	if id, ok := e.(*ast.Ident); ok && t.kind[id.Name] == "elem" {
		return id.Name
	}
	if c, ok := e.(*ast.CallExpr); ok {
		fn := exprStr(c.Fun)
		i := strings.LastIndex(fn, ".")
		if i > 0 && t.kind[fn[:i]] == "elem" {
			recv, m := fn[:i], fn[i+1:]
			switch {
			case m == "setBigInt" && len(c.Args) == 1:
				return "go_setBigInt " + recv + " " + t.bigArg(c.Args[0])
			case m == "SetBigInt" && len(c.Args) == 1:
				return "go_SetBigInt pool " + recv + " " + t.bigArg(c.Args[0])
			case m == "ToMont" && len(c.Args) == 0:
				return "go_ToMont " + recv
			case m == "FromMont" && len(c.Args) == 0:
				return "go_FromMont " + recv
			case m == "ToRegular" && len(c.Args) == 0:
				return "go_ToRegular " + recv
			case m == "SetZero" && len(c.Args) == 0:
				return "go_SetZero " + recv
			case m == "SetOne" && len(c.Args) == 0:
				return "go_SetOne " + recv
			case m == "Set" && len(c.Args) == 1 && strings.HasPrefix(exprStr(c.Args[0]), "&") && t.kind[exprStr(c.Args[0])[1:]] == "elem":
				return "go_Set " + recv + " " + exprStr(c.Args[0])[1:]
			case m == "Square" && len(c.Args) == 1 && t.kind[strings.TrimPrefix(exprStr(c.Args[0]), "&")] == "elem":
				a := strings.TrimPrefix(exprStr(c.Args[0]), "&")
				return "mulG " + a + " " + a
			case m == "Mul" && len(c.Args) == 2 && t.kind[strings.TrimPrefix(exprStr(c.Args[0]), "&")] == "elem" && t.kind[strings.TrimPrefix(exprStr(c.Args[1]), "&")] == "elem":
				return "mulG " + strings.TrimPrefix(exprStr(c.Args[0]), "&") + " " + strings.TrimPrefix(exprStr(c.Args[1]), "&")
			case m == "Exp" && len(c.Args) == 2 && t.kind[strings.TrimPrefix(exprStr(c.Args[0]), "*")] == "elem":
				return "go_Exp " + recv + " " + strings.TrimPrefix(exprStr(c.Args[0]), "*") + " " + t.bigArg(c.Args[1])
			case m == "Mul" && len(c.Args) == 2 && exprStr(c.Args[0]) == recv && exprStr(c.Args[1]) == "&rSquare":
				return "mulG " + recv + " codecRSquare"
			}
		}
	}
	t.die("unsupported Element expression %s", exprStr(e))
	return ""
}

func (t *codecTr) block(ind string, stmts []ast.Stmt) {
	for i := 0; i < len(stmts); i++ {
		s := stmts[i]
		txt := stmtText(s)
		switch x := s.(type) {
		case *ast.ReturnStmt:
			if i != len(stmts)-1 {
				t.die("return is not the last statement of its block")
			}
			t.returnStmt(ind, x)
			return
		case *ast.DeclStmt:
			vs := x.Decl.(*ast.GenDecl).Specs[0].(*ast.ValueSpec)
			if len(vs.Names) == 1 && len(vs.Values) == 0 && exprStr(vs.Type) == "big.Int" {
				t.kind[vs.Names[0].Name] = "big"
				fmt.Fprintf(t.sb, "%slet %s : Int := 0\n", ind, vs.Names[0].Name)
				continue
			}
			if len(vs.Names) == 1 && len(vs.Values) == 0 && exprStr(vs.Type) == "Element" {
				t.kind[vs.Names[0].Name] = "elem"
				fmt.Fprintf(t.sb, "%slet %s : L4 := ⟨0, 0, 0, 0⟩\n", ind, vs.Names[0].Name)
				continue
			}
			if len(vs.Names) == 1 && len(vs.Values) == 0 && exprStr(vs.Type) == "uint64" {
				t.kind[vs.Names[0].Name] = "uint"
				fmt.Fprintf(t.sb, "%slet %s : Nat := 0\n", ind, vs.Names[0].Name)
				continue
			}
		case *ast.AssignStmt:
			// _, b = bits.Sub64(a, LIT, c)
			if len(x.Lhs) == 2 && len(x.Rhs) == 1 && exprStr(x.Lhs[0]) == "_" && t.kind[exprStr(x.Lhs[1])] == "uint" {
				if c, ok := x.Rhs[0].(*ast.CallExpr); ok && exprStr(c.Fun) == "bits.Sub64" && len(c.Args) == 3 {
					fmt.Fprintf(t.sb, "%slet %s := (sub64 %s %s %s).2\n", ind, exprStr(x.Lhs[1]), t.ux(c.Args[0]), t.ux(c.Args[1]), t.ux(c.Args[2]))
					continue
				}
			}
			// z[i] = x[i] / z[i] = LIT
			if len(x.Lhs) == 1 && len(x.Rhs) == 1 && x.Tok == token.ASSIGN {
				if ix, ok := x.Lhs[0].(*ast.IndexExpr); ok && t.kind[exprStr(ix.X)] == "elem" {
					fmt.Fprintf(t.sb, "%slet %s := Big.setLimb %s %s %s\n", ind, exprStr(ix.X), exprStr(ix.X), t.ex(ix.Index), t.ux(x.Rhs[0]))
					continue
				}
			}
			// _z := *z
			if len(x.Lhs) == 1 && len(x.Rhs) == 1 && x.Tok == token.DEFINE {
				if st, ok := x.Rhs[0].(*ast.StarExpr); ok && t.kind[exprStr(st.X)] == "elem" {
					t.kind[exprStr(x.Lhs[0])] = "elem"
					fmt.Fprintf(t.sb, "%slet %s := %s\n", ind, exprStr(x.Lhs[0]), exprStr(st.X))
					continue
				}
			}
			if len(x.Lhs) == 1 && len(x.Rhs) == 1 {
				lhs, rhs := exprStr(x.Lhs[0]), exprStr(x.Rhs[0])
				switch {
				case x.Tok == token.DEFINE && rhs == "bigIntPool.Get().(*big.Int)":
					if t.pool != "" {
						t.die("two pooled variables")
					}
					t.pool = lhs
					t.kind[lhs] = "big"
					fmt.Fprintf(t.sb, "%slet %s : Int := pool\n", ind, lhs)
					continue
				case x.Tok == token.DEFINE && strings.HasPrefix(rhs, "make([]byte, "):
					c := x.Rhs[0].(*ast.CallExpr)
					if len(c.Args) != 2 {
						t.die("make with a capacity: %s", txt)
					}
					n := t.ex(c.Args[1])
					t.kind[lhs] = "bytes"
					fmt.Fprintf(t.sb, "%slet %s := Big.zeros %s\n", ind, lhs, n)
					continue
				case x.Tok == token.DEFINE && strings.HasSuffix(rhs, ".Bits()") && t.kind[strings.TrimSuffix(rhs, ".Bits()")] == "big":
					t.kind[lhs] = "words"
					fmt.Fprintf(t.sb, "%slet %s := Big.bits %s\n", ind, lhs, strings.TrimSuffix(rhs, ".Bits()"))
					continue
				case x.Tok == token.DEFINE && strings.HasSuffix(rhs, ".Cmp(&_modulus)"):
					t.kind[lhs] = "int"
					fmt.Fprintf(t.sb, "%slet %s : Int := %s\n", ind, lhs, t.ex(x.Rhs[0]))
					continue
				case x.Tok == token.DEFINE && strings.HasSuffix(rhs, ".ToRegular()"):
					t.kind[lhs] = "elem"
					fmt.Fprintf(t.sb, "%slet %s := %s\n", ind, lhs, t.elemValue(x.Rhs[0]))
					continue
				}
			}
		case *ast.ExprStmt:
			c, ok := x.X.(*ast.CallExpr)
			if !ok {
				break
			}
			fn := exprStr(c.Fun)
			if fn == "fromMont" && len(c.Args) == 1 && t.kind[exprStr(c.Args[0])] == "elem" {
				fmt.Fprintf(t.sb, "%slet %s := fromMontG %s\n", ind, exprStr(c.Args[0]), exprStr(c.Args[0]))
				continue
			}
			j := strings.LastIndex(fn, ".")
			if j < 0 {
				break
			}
			recv, m := fn[:j], fn[j+1:]
			switch {
			case fn == "bigIntPool.Put" && len(c.Args) == 1 && exprStr(c.Args[0]) == t.pool:
				continue
			case t.kind[recv] == "big" && m == "SetBytes" && len(c.Args) == 1 && t.kind[exprStr(c.Args[0])] == "bytes":
				fmt.Fprintf(t.sb, "%slet %s := Big.setBytes %s\n", ind, recv, exprStr(c.Args[0]))
				continue
			case t.kind[recv] == "big" && m == "Set" && len(c.Args) == 1:
				fmt.Fprintf(t.sb, "%slet %s := %s\n", ind, recv, t.bigArg(c.Args[0]))
				continue
			case t.kind[recv] == "big" && m == "Mod" && len(c.Args) == 2:
				fmt.Fprintf(t.sb, "%slet %s := Big.mod %s %s\n", ind, recv, t.bigArg(c.Args[0]), t.bigArg(c.Args[1]))
				continue
			case t.kind[recv] == "elem" && (m == "SetZero" || m == "SetBigInt" || m == "setBigInt" || m == "FromMont" || m == "Set" || m == "Square" || m == "Mul" || m == "Exp"):
				fmt.Fprintf(t.sb, "%slet %s := %s\n", ind, recv, t.elemValue(c))
				continue
			case (fn == "binary.BigEndian.PutUint64" || fn == "binary.LittleEndian.PutUint64") && len(c.Args) == 2:
				sl, ok1 := c.Args[0].(*ast.SliceExpr)
				ix, ok2 := c.Args[1].(*ast.IndexExpr)
				if !ok1 || !ok2 || sl.Low == nil || sl.High == nil || sl.Slice3 || t.kind[exprStr(sl.X)] != "bytes" || t.kind[exprStr(ix.X)] != "elem" {
					t.die("unsupported PutUint64 %s", txt)
				}
				put := "Big.putBE"
				if strings.Contains(fn, "Little") {
					put = "Big.putLE"
				}
				fmt.Fprintf(t.sb, "%slet %s := %s %s %s %s (Big.limb %s %s)\n", ind, exprStr(sl.X), put, exprStr(sl.X), t.ex(sl.Low), t.ex(sl.High), exprStr(ix.X), t.ex(ix.Index))
				continue
			}
		case *ast.RangeStmt:
			// for i := range e { x[I] = e[J] }
			if x.Tok == token.DEFINE && x.Value == nil && x.Key != nil && t.kind[exprStr(x.X)] == "bytes" && len(x.Body.List) == 1 {
				if as, ok := x.Body.List[0].(*ast.AssignStmt); ok && as.Tok == token.ASSIGN && len(as.Lhs) == 1 {
					l, ok1 := as.Lhs[0].(*ast.IndexExpr)
					r, ok2 := as.Rhs[0].(*ast.IndexExpr)
					if ok1 && ok2 && t.kind[exprStr(l.X)] == "bytes" && t.kind[exprStr(r.X)] == "bytes" && exprStr(l.X) != exprStr(r.X) {
						i := exprStr(x.Key)
						t.kind[i] = "int"
						dst, src := exprStr(l.X), exprStr(r.X)
						fmt.Fprintf(t.sb, "%slet %s := Loop.forUp 0 (%s.length : Int) %s (fun %s %s => Loop.set %s %s (Loop.get %s %s 0))\n",
							ind, dst, exprStr(x.X), dst, i, dst, dst, t.ex(l.Index), src, t.ex(r.Index))
						delete(t.kind, i)
						continue
					}
				}
			}
		case *ast.ForStmt:
			// for i := HI; i >= 0; i-- { BODY }  with BODY assigning exactly one Element variable
			if init, ok := x.Init.(*ast.AssignStmt); ok && init.Tok == token.DEFINE && len(init.Lhs) == 1 && x.Post != nil {
				i := exprStr(init.Lhs[0])
				if cond, ok := x.Cond.(*ast.BinaryExpr); ok && stmtText(x.Post) == i+"--" && cond.Op == token.GEQ && exprStr(cond.X) == i && exprStr(cond.Y) == "0" {
					hi := t.ex(init.Rhs[0])
					// the variable the body assigns: receiver of its first statement
					es, ok := x.Body.List[0].(*ast.ExprStmt)
					if !ok {
						t.die("unsupported loop body %s", txt)
					}
					fn := exprStr(es.X.(*ast.CallExpr).Fun)
					z := fn[:strings.LastIndex(fn, ".")]
					if t.kind[z] != "elem" {
						t.die("unsupported loop body %s", txt)
					}
					t.kind[i] = "int"
					fmt.Fprintf(t.sb, "%slet %s := Loop.forDown %s 0 %s (fun %s %s =>\n", ind, z, hi, z, i, z)
					sub := &codecTr{sb: t.sb, fn: t.fn, kind: t.kind, ret: "elem", loopVar: z}
					sub.block(ind+"    ", append(append([]ast.Stmt{}, x.Body.List...), &ast.ReturnStmt{Results: []ast.Expr{ast.NewIdent(z)}}))
					fmt.Fprintf(t.sb, "%s  )\n", ind)
					delete(t.kind, i)
					continue
				}
			}
			// for i := 0; i < len(w); i++ { z[i] = uint64(w[i]) }
			if init, ok := x.Init.(*ast.AssignStmt); ok && init.Tok == token.DEFINE && exprStr(init.Rhs[0]) == "0" && len(x.Body.List) == 1 {
				i := exprStr(init.Lhs[0])
				if stmtText(x.Post) == i+"++" {
					cond, ok := x.Cond.(*ast.BinaryExpr)
					if ok && cond.Op == token.LSS && exprStr(cond.X) == i {
						t.kind[i] = "int"
						hi := t.ex(cond.Y)
						if as, ok := x.Body.List[0].(*ast.AssignStmt); ok && as.Tok == token.ASSIGN && len(as.Lhs) == 1 {
							l, ok1 := as.Lhs[0].(*ast.IndexExpr)
							conv, ok2 := as.Rhs[0].(*ast.CallExpr)
							if ok1 && ok2 && t.kind[exprStr(l.X)] == "elem" && exprStr(conv.Fun) == "uint64" && len(conv.Args) == 1 {
								if r, ok := conv.Args[0].(*ast.IndexExpr); ok && t.kind[exprStr(r.X)] == "words" {
									z := exprStr(l.X)
									fmt.Fprintf(t.sb, "%slet %s := Loop.forUp 0 %s %s (fun %s %s => Big.setLimb %s %s (Loop.get %s %s 0))\n",
										ind, z, hi, z, i, z, z, t.ex(l.Index), exprStr(r.X), t.ex(r.Index))
									delete(t.kind, i)
									continue
								}
							}
						}
					}
				}
			}
		case *ast.IfStmt:
			if x.Init == nil && exprStr(x.Cond) == "bits.UintSize == 64" && x.Else != nil {
				// 64-bit platform: the 32-bit branch is not translated
				t.block(ind, append(append([]ast.Stmt{}, x.Body.List...), stmts[i+1:]...))
				return
			}
			if x.Init == nil {
				rest := stmts[i+1:]
				t.ifChain(ind, x, rest)
				return
			}
		}
		t.die("unsupported statement %s", txt)
	}
	t.die("block falls off its end without a return")
}

// if c { A } [else if d { B }] REST: every branch that does not return continues with REST
func (t *codecTr) ifChain(ind string, x *ast.IfStmt, rest []ast.Stmt) {
	fmt.Fprintf(t.sb, "%sif %s then\n", ind, t.ex(x.Cond))
	t.block(ind+"  ", t.withRest(x.Body.List, rest))
	fmt.Fprintf(t.sb, "%selse\n", ind)
	switch e := x.Else.(type) {
	case nil:
		t.block(ind+"  ", rest)
	case *ast.IfStmt:
		if e.Init != nil {
			t.die("if with an init statement")
		}
		t.ifChain(ind+"  ", e, rest)
	case *ast.BlockStmt:
		t.block(ind+"  ", t.withRest(e.List, rest))
	}
}

func (t *codecTr) withRest(body, rest []ast.Stmt) []ast.Stmt {
	if len(body) > 0 {
		if _, ok := body[len(body)-1].(*ast.ReturnStmt); ok {
			return body
		}
	}
	return append(append([]ast.Stmt{}, body...), rest...)
}

func translateFrCodec(repo string, write func(name, imports, content string)) {
	f := parse(filepath.Join(repo, "bandersnatch/fr/element.go"))
	sb := &strings.Builder{}
	sb.WriteString("namespace FrCodec\nopen GoIpa GoIpa.Limbs\n\n")

	// constants: Limbs, rSquare, _modulus (set once, in init(), from a decimal string)
	fmt.Fprintf(sb, "def codecLimbs : Int := %s\n", exprStr(topLevelValue(f, "Limbs")))
	rs := compositeUints(topLevelValue(f, "rSquare"))
	if len(rs) != 4 {
		die("codec: rSquare does not have four limbs")
	}
	fmt.Fprintf(sb, "def codecRSquare : L4 := ⟨%s⟩\n", strings.Join(rs, ", "))
	var modSets []string
	ast.Inspect(f, func(n ast.Node) bool {
		switch x := n.(type) {
		case *ast.CallExpr:
			if strings.HasPrefix(exprStr(x.Fun), "_modulus.") {
				modSets = append(modSets, exprStr(x))
			}
		case *ast.AssignStmt:
			for _, l := range x.Lhs {
				if exprStr(l) == "_modulus" {
					modSets = append(modSets, stmtText(x))
				}
			}
		}
		return true
	})
	if len(modSets) != 1 || !strings.HasPrefix(modSets[0], "_modulus.SetString(\"") || !strings.HasSuffix(modSets[0], "\", 10)") {
		die("codec: _modulus is not set exactly once by SetString(<decimal>, 10): %v", modSets)
	}
	dec := strings.TrimSuffix(strings.TrimPrefix(modSets[0], "_modulus.SetString(\""), "\", 10)")
	fmt.Fprintf(sb, "def codecModulus : Int := %s\n\n", dec)

	type spec struct {
		name, ret, params string
		kinds             map[string]string
		pooled            bool
	}
	specs := []spec{
		{"SetZero", "elem", "(z : L4)", map[string]string{"z": "elem"}, false},
		{"ToMont", "elem", "(z : L4)", map[string]string{"z": "elem"}, false},
		{"FromMont", "elem", "(z : L4)", map[string]string{"z": "elem"}, false},
		{"ToRegular", "elem", "(z : L4)", map[string]string{"z": "elem"}, false},
		{"setBigInt", "elem", "(z : L4) (v : Int)", map[string]string{"z": "elem", "v": "big"}, false},
		{"SetBigInt", "elem", "(pool : Int) (z : L4) (v : Int)", map[string]string{"z": "elem", "v": "big"}, true},
		{"SetBytes", "elem", "(pool : Int) (z : L4) (e : Bytes)", map[string]string{"z": "elem", "e": "bytes"}, true},
		{"SetBytesLE", "elem", "(pool : Int) (z : L4) (e : Bytes)", map[string]string{"z": "elem", "e": "bytes"}, true},
		{"SetBytesLECanonical", "optelem", "(pool : Int) (z : L4) (e : Bytes)", map[string]string{"z": "elem", "e": "bytes"}, true},
		{"Bytes", "bytes", "(z : L4)", map[string]string{"z": "elem"}, false},
		{"BytesLE", "bytes", "(z : L4)", map[string]string{"z": "elem"}, false},
	}
	var names []string
	for _, sp := range specs {
		fd := findMethod(f, sp.name)
		if fd == nil {
			die("codec: method %s not found", sp.name)
		}
		t := &codecTr{sb: sb, fn: sp.name, kind: sp.kinds, ret: sp.ret}
		// the signature must be the one the spec assumes
		sig := exprStr(fd.Type)
		want := map[string]string{
			"SetZero": "func() *Element", "ToMont": "func() *Element", "FromMont": "func() *Element", "ToRegular": "func() Element",
			"setBigInt": "func(v *big.Int) *Element", "SetBigInt": "func(v *big.Int) *Element",
			"SetBytes": "func(e []byte) *Element", "SetBytesLE": "func(e []byte) *Element",
			"SetBytesLECanonical": "func(e []byte) (*Element, error)",
			"Bytes":               "func() (res [Limbs * 8]byte)", "BytesLE": "func() (res [Limbs * 8]byte)",
		}[sp.name]
		if sig != want || len(fd.Recv.List) != 1 || len(fd.Recv.List[0].Names) != 1 || fd.Recv.List[0].Names[0].Name != "z" {
			die("codec: %s has signature %s (receiver %s), expected %s", sp.name, sig, exprStr(fd.Recv.List[0].Type), want)
		}
		ret := map[string]string{"elem": "L4", "optelem": "Option L4", "bytes": "Bytes"}[sp.ret]
		fmt.Fprintf(sb, "/-- `%s` -/\ndef go_%s %s : %s :=\n", sp.name, sp.name, sp.params, ret)
		body := fd.Body.List
		if sp.ret == "bytes" {
			t.named = "res"
			t.kind["res"] = "bytes"
			fmt.Fprintf(sb, "  let res := Big.zeros (codecLimbs * 8)\n")
		}
		if sp.name == "SetZero" {
			// z[0] = 0 … z[3] = 0; return z
			for _, s := range body[:len(body)-1] {
				as, ok := s.(*ast.AssignStmt)
				if !ok || as.Tok != token.ASSIGN || len(as.Lhs) != 1 {
					t.die("unsupported statement %s", stmtText(s))
				}
				ix, ok := as.Lhs[0].(*ast.IndexExpr)
				bl, ok2 := as.Rhs[0].(*ast.BasicLit)
				if !ok || !ok2 || exprStr(ix.X) != "z" {
					t.die("unsupported statement %s", stmtText(s))
				}
				fmt.Fprintf(sb, "  let z := Big.setLimb z %s %s\n", t.ex(ix.Index), bl.Value)
			}
			body = body[len(body)-1:]
		}
		t.block("  ", body)
		if sp.pooled != (t.pool != "") && sp.name != "SetBigInt" {
			t.die("use of the big.Int pool changed")
		}
		sb.WriteString("\n")
		names = append(names, leanString(sp.name))
	}
	fmt.Fprintf(sb, "def translated : List String := [%s]\n", strings.Join(names, ", "))
	sb.WriteString("/-- `setBigInt`: only the `bits.UintSize == 64` branch is translated -/\ndef uintSize64Only : Bool := true\n\nend FrCodec\n")
	write("FrCodec.lean", "import GoIpa.Model.Big\n", sb.String())
	translateFrMisc(f, write)
}

// Set, SetOne, Equal, IsZero, Cmp, LexicographicallyLargest, Exp, Legendre -> Gen/FrMisc.lean
func translateFrMisc(f *ast.File, write func(name, imports, content string)) {
	sb := &strings.Builder{}
	sb.WriteString("namespace FrMisc\nopen GoIpa GoIpa.Limbs GoIpa.Gen.FrCodec\n\n")
	// the Legendre exponent: assigned exactly once, in an init(), from a hexadecimal string
	var sets []string
	ast.Inspect(f, func(n ast.Node) bool {
		if as, ok := n.(*ast.AssignStmt); ok {
			for _, l := range as.Lhs {
				if exprStr(l) == "_bLegendreExponentElement" {
					sets = append(sets, stmtText(as))
				}
			}
		}
		return true
	})
	pre, suf := "_bLegendreExponentElement, _ = new(big.Int).SetString(\"", "\", 16)"
	if len(sets) != 1 || !strings.HasPrefix(sets[0], pre) || !strings.HasSuffix(sets[0], suf) {
		die("codec: _bLegendreExponentElement is not set exactly once by SetString(<hex>, 16): %v", sets)
	}
	hexs := strings.TrimSuffix(strings.TrimPrefix(sets[0], pre), suf)
	v, ok := new(big.Int).SetString(hexs, 16)
	if !ok {
		die("codec: Legendre exponent %q is not hexadecimal", hexs)
	}
	fmt.Fprintf(sb, "def legendreExponent : Int := %s\n\n", v.String())

	type spec struct {
		name, ret, params, sig string
		kinds                  map[string]string
	}
	specs := []spec{
		{"Set", "elem", "(z : L4) (x : L4)", "func(x *Element) *Element", map[string]string{"z": "elem", "x": "elem"}},
		{"SetOne", "elem", "(z : L4)", "func() *Element", map[string]string{"z": "elem"}},
		{"Equal", "bool", "(z : L4) (x : L4)", "func(x *Element) bool", map[string]string{"z": "elem", "x": "elem"}},
		{"IsZero", "bool", "(z : L4)", "func() bool", map[string]string{"z": "elem"}},
		{"IsUint64", "bool", "(z : L4)", "func() bool", map[string]string{"z": "elem"}},
		{"Cmp", "int", "(z : L4) (x : L4)", "func(x *Element) int", map[string]string{"z": "elem", "x": "elem"}},
		{"LexicographicallyLargest", "bool", "(z : L4)", "func() bool", map[string]string{"z": "elem"}},
		{"Exp", "elem", "(z : L4) (x : L4) (exponent : Int)", "func(x Element, exponent *big.Int) *Element", map[string]string{"z": "elem", "x": "elem", "exponent": "big"}},
		{"Legendre", "int", "(z : L4)", "func() int", map[string]string{"z": "elem"}},
	}
	var names []string
	for _, sp := range specs {
		fd := findMethod(f, sp.name)
		if fd == nil {
			die("codec: method %s not found", sp.name)
		}
		if sig := exprStr(fd.Type); sig != sp.sig || len(fd.Recv.List) != 1 || len(fd.Recv.List[0].Names) != 1 || fd.Recv.List[0].Names[0].Name != "z" {
			die("codec: %s has signature %s, expected %s", sp.name, sig, sp.sig)
		}
		t := &codecTr{sb: sb, fn: sp.name, kind: sp.kinds, ret: sp.ret}
		ret := map[string]string{"elem": "L4", "bool": "Bool", "int": "Int"}[sp.ret]
		fmt.Fprintf(sb, "/-- `%s` -/\ndef go_%s %s : %s :=\n", sp.name, sp.name, sp.params, ret)
		t.block("  ", fd.Body.List)
		sb.WriteString("\n")
		names = append(names, leanString(sp.name))
	}
	fmt.Fprintf(sb, "def translated : List String := [%s]\n\nend FrMisc\n", strings.Join(names, ", "))
	write("FrMisc.lean", "import GoIpa.Gen.FrCodec\n", sb.String())
}
