// precompfull.go: translates the table constructor and the MSM driver of banderwagon/precomp.go —
// `NewPrecompPoint`, `NewPrecompMSM`, `MSMPrecomp.MSM` — at the level of group elements, with the
// statement machinery of loops.go (bucket-method mode).  (`PrecompPoint.ScalarMul` itself is
// translated with 64-bit wrap-around by selector.go, `Tie/Precomp.lean`.)
//
// NewPrecompPoint runs its windows in an errgroup: `group.Go(func() error { BODY; return nil })`.
// BODY is translated in place (as if run synchronously), which is faithful because — checked on the
// AST — it writes only `windows[i]`, `windows[i][j]` and `res.windows[i]` for the per-iteration copy
// `i := i`, and reads only `base`, `windowSize` and those slots; in particular it does not mention
// `point`, which the loop goes on to multiply.  `PointExtendedFromProj` is the identity on group
// elements, `batchToExtendedPointNormalized` the parameter `normalize`, `Element.ScalarMul(p, s)` is
// `s • p`.  A `PrecompPoint` is the pair (windowSize, windows).
package main

import (
	"go/ast"
	"go/token"
	"path/filepath"
	"strings"
)

func translatePrecompFull(repo string, write func(name, imports, content string)) {
	f := parse(filepath.Join(repo, "banderwagon/precomp.go"))
	t := &loopTr{fns: map[string]*loopFn{}, consts: map[string]string{}, sb: &strings.Builder{}, msm: true, labels: map[string]bool{}}
	for _, c := range []string{"supportedMSMLength", "window16vs8IndexLimit"} {
		lit, ok := topLevelValue(f, c).(*ast.BasicLit)
		if !ok {
			die("precompfull: %s is not a literal", c)
		}
		t.consts[c] = lit.Value
	}
	t.sb.WriteString("namespace PrecompFull\nopen GoIpa\n\nsection\nvariable {K G : Type} [Zero K] [NatCast K] [DecidableEq K] [Zero G] [Add G] [Neg G] [SMul K G]\n\n")

	// ---------------- NewPrecompPoint
	np := findFunc(f, "NewPrecompPoint")
	if np == nil {
		die("precompfull: NewPrecompPoint not found")
	}
	rename := func(n ast.Node) {
		ast.Inspect(n, func(m ast.Node) bool {
			fix := func(e ast.Expr) ast.Expr {
				switch exprStr(e) {
				case "res.windows":
					return ast.NewIdent("reswindows")
				case "point.inner":
					return ast.NewIdent("point")
				}
				return e
			}
			switch x := m.(type) {
			case *ast.IndexExpr:
				x.X = fix(x.X)
			case *ast.CallExpr:
				for i := range x.Args {
					x.Args[i] = fix(x.Args[i])
					if u, ok := x.Args[i].(*ast.UnaryExpr); ok {
						u.X = fix(u.X)
					}
				}
			case *ast.AssignStmt:
				for i := range x.Lhs {
					x.Lhs[i] = fix(x.Lhs[i])
				}
			case *ast.BinaryExpr:
				x.X, x.Y = fix(x.X), fix(x.Y)
			}
			return true
		})
	}
	var body []ast.Stmt
	for _, s := range np.Body.List {
		txt := stmtText(s)
		switch {
		case strings.HasPrefix(txt, "res := PrecompPoint{ windowSize: windowSize, windows: make([][]bandersnatch.PointExtendedNormalized, 256/windowSize), }"),
			strings.HasPrefix(txt, "res := PrecompPoint{windowSize: windowSize, windows: make([][]bandersnatch.PointExtendedNormalized, 256/windowSize)"):
			cl := s.(*ast.AssignStmt).Rhs[0].(*ast.CompositeLit)
			var mk ast.Expr
			for _, el := range cl.Elts {
				kv := el.(*ast.KeyValueExpr)
				if exprStr(kv.Key) == "windows" {
					mk = kv.Value
				}
				if exprStr(kv.Key) == "windowSize" && exprStr(kv.Value) != "windowSize" {
					die("precompfull: res.windowSize is %s", exprStr(kv.Value))
				}
			}
			body = append(body, &ast.AssignStmt{Lhs: []ast.Expr{ast.NewIdent("reswindows")}, Tok: token.DEFINE, Rhs: []ast.Expr{mk}})
		case txt == "group, _ := errgroup.WithContext(context.Background())", txt == "group.SetLimit(runtime.NumCPU())", txt == "_ = group.Wait()":
			// the errgroup: see the header comment
		case txt == "return res, nil":
			body = append(body, &ast.ReturnStmt{Results: []ast.Expr{ast.NewIdent("windowSize"), ast.NewIdent("reswindows"), ast.NewIdent("nil")}})
		default:
			if fs, ok := s.(*ast.ForStmt); ok && strings.HasPrefix(txt, "for i := 0; i < len(res.windows); i++") {
				var nb []ast.Stmt
				sawGo := false
				for _, ls := range fs.Body.List {
					lt := stmtText(ls)
					switch {
					case lt == "i := i":
					case lt == "base := bandersnatch.PointExtendedFromProj(&point.inner)":
						nb = append(nb, &ast.AssignStmt{Lhs: []ast.Expr{ast.NewIdent("base")}, Tok: token.DEFINE, Rhs: []ast.Expr{ast.NewIdent("point")}})
					case strings.HasPrefix(lt, "group.Go(func() error {"):
						lit := ls.(*ast.ExprStmt).X.(*ast.CallExpr).Args[0].(*ast.FuncLit)
						cb := lit.Body.List
						if len(cb) == 0 || stmtText(cb[len(cb)-1]) != "return nil" {
							die("precompfull: the errgroup closure does not end in `return nil`")
						}
						// what the closure may touch
						ast.Inspect(lit.Body, func(n ast.Node) bool {
							switch x := n.(type) {
							case *ast.Ident:
								if x.Name == "point" || x.Name == "specialWindow" || x.Name == "group" {
									die("precompfull: the errgroup closure mentions %s", x.Name)
								}
							case *ast.AssignStmt:
								for _, l := range x.Lhs {
									ls := exprStr(l)
									if !(ls == "windows[i]" || ls == "windows[i][j]" || ls == "res.windows[i]" || ls == "curr" || ls == "j") {
										die("precompfull: the errgroup closure writes %s", ls)
									}
								}
							case *ast.ReturnStmt:
								if len(x.Results) != 1 || exprStr(x.Results[0]) != "nil" {
									die("precompfull: the errgroup closure returns an error")
								}
							}
							return true
						})
						nb = append(nb, cb[:len(cb)-1]...)
						sawGo = true
					case lt == "point.ScalarMul(&point, &specialWindow)":
						nb = append(nb, ls)
					default:
						die("precompfull: unexpected statement in the window loop: %s", lt)
					}
				}
				if !sawGo {
					die("precompfull: group.Go not found")
				}
				nf := &ast.ForStmt{Init: fs.Init, Cond: fs.Cond, Post: fs.Post, Body: &ast.BlockStmt{List: nb}}
				body = append(body, nf)
				continue
			}
			body = append(body, s)
		}
	}
	for _, s := range body {
		rename(s)
	}
	// the loop condition `i < len(res.windows)`
	for _, s := range body {
		if fs, ok := s.(*ast.ForStmt); ok {
			if be, ok := fs.Cond.(*ast.BinaryExpr); ok {
				if c, ok := be.Y.(*ast.CallExpr); ok && exprStr(c.Fun) == "len" && exprStr(c.Args[0]) == "res.windows" {
					c.Args[0] = ast.NewIdent("reswindows")
				}
			}
		}
	}
	extraParams["NewPrecompPoint"] = "(normalize : List G → List G)"
	fd := &ast.FuncDecl{Name: np.Name,
		Type: &ast.FuncType{
			Params: &ast.FieldList{List: []*ast.Field{
				{Names: []*ast.Ident{ast.NewIdent("point")}, Type: ast.NewIdent("PointProj")},
				{Names: []*ast.Ident{ast.NewIdent("windowSize")}, Type: ast.NewIdent("int")}}},
			Results: &ast.FieldList{List: []*ast.Field{{Type: ast.NewIdent("int")}, {Type: ast.NewIdent("windowsT")}, {Type: ast.NewIdent("error")}}}},
		Body: &ast.BlockStmt{List: body}}
	t.fnDecl(fd, "NewPrecompPoint", "newPrecompPoint", false)

	// ---------------- MSMPrecomp.MSM
	mm := findMethodOf(f, "MSMPrecomp", "MSM")
	if mm == nil {
		die("precompfull: MSMPrecomp.MSM not found")
	}
	var mb []ast.Stmt
	for _, s := range mm.Body.List {
		txt := stmtText(s)
		switch {
		case txt == "result := bandersnatch.IdentityExt":
			mb = append(mb, &ast.AssignStmt{Lhs: []ast.Expr{ast.NewIdent("result")}, Tok: token.DEFINE, Rhs: []ast.Expr{ast.NewIdent("Identity")}})
		case strings.HasPrefix(txt, "for i := range scalars {"):
			rs := s.(*ast.RangeStmt)
			if len(rs.Body.List) != 1 {
				die("precompfull: MSM loop body")
			}
			is, ok := rs.Body.List[0].(*ast.IfStmt)
			if !ok || exprStr(is.Cond) != "!scalars[i].IsZero()" || len(is.Body.List) != 1 || is.Else != nil ||
				stmtText(is.Body.List[0]) != "msm.precompPoints[i].ScalarMul(scalars[i], &result)" {
				die("precompfull: MSM loop body has an unexpected shape")
			}
			call := &ast.AssignStmt{Lhs: []ast.Expr{ast.NewIdent("result")}, Tok: token.ASSIGN, Rhs: []ast.Expr{
				&ast.CallExpr{Fun: ast.NewIdent("ppScalarMul"), Args: []ast.Expr{ast.NewIdent("i"), &ast.IndexExpr{X: ast.NewIdent("scalars"), Index: ast.NewIdent("i")}, ast.NewIdent("result")}}}}
			mb = append(mb, &ast.RangeStmt{Key: rs.Key, Tok: rs.Tok, X: rs.X, Body: &ast.BlockStmt{List: []ast.Stmt{
				&ast.IfStmt{Cond: is.Cond, Body: &ast.BlockStmt{List: []ast.Stmt{call}}}}}})
		case strings.HasPrefix(txt, "return Element{inner: bandersnatch.PointProj{ X: result.X, Y: result.Y, Z: result.Z, }}"),
			strings.HasPrefix(txt, "return Element{inner: bandersnatch.PointProj{X: result.X, Y: result.Y, Z: result.Z"):
			mb = append(mb, &ast.ReturnStmt{Results: []ast.Expr{ast.NewIdent("result")}})
		default:
			die("precompfull: unexpected statement in MSM: %s", txt)
		}
	}
	extraParams["MSM"] = "(ppScalarMul : Int → K → G → G)"
	md := &ast.FuncDecl{Name: ast.NewIdent("MSM"),
		Type: &ast.FuncType{Params: &ast.FieldList{List: []*ast.Field{{Names: []*ast.Ident{ast.NewIdent("scalars")}, Type: &ast.ArrayType{Elt: &ast.SelectorExpr{X: ast.NewIdent("fr"), Sel: ast.NewIdent("Element")}}}}},
			Results: &ast.FieldList{List: []*ast.Field{{Type: ast.NewIdent("PointProj")}}}},
		Body: &ast.BlockStmt{List: mb}}
	t.fnDecl(md, "MSM", "msm", false)
	t.sb.WriteString("end\n\n")
	// ---------------- NewPrecompMSM: the window choice, as facts
	nm := findFunc(f, "NewPrecompMSM")
	var facts []string
	for _, s := range nm.Body.List {
		facts = append(facts, stmtText(s))
	}
	t.sb.WriteString("def newPrecompMSMBody : List String := [" + quoteAll(facts) + "]\n\nend PrecompFull\n")
	write("PrecompFull.lean", "import GoIpa.Model.Loop\n", t.sb.String())
}
