// sqrtfp.go: translates the table-driven square root of bandersnatch/fp/sqrt.go —
// sqrtAlg_NegDlogInSmallDyadicSubgroup, sqrtAlg_GetPrecomputedRootOfUnity, invSqrtEqDyadic and
// SqrtPrecomp, with the integer constants sqrtParam_* — statement by statement into Lean
// (Gen/SqrtFp.lean) over an abstract field K:
//
//	*feType_SquareRoot / Element values         K            x.Mul(&a,&b) ↦ a * b, x.Square(&a) ↦ a * a, x.SetOne() ↦ 1
//	[sqrtParam_Blocks]feType_SquareRoot         List K       a[i] = v ↦ List.set, a[i] ↦ List.getD
//	uint / int                                   Nat          >> << & | + - * / as on naturals (all values < 2^33; `a - b` only with b ≤ a)
//	sqrtPrecomp_dlogLUT[uint16(x[0]&0xFFFF)]     lut (limb0 x &&& 0xFFFF)      parameters limb0 : K → Nat, lut : Nat → Nat
//	sqrtPrecomp_PrecomputedBlocks[order][m]      blocks order m                parameter blocks : Nat → Nat → K
//	sqrtAlg_ComputeRelevantPowers(&x,&c,&r)      (c, r) := powers x            parameter (the addition chain: Tie.SqrtChain)
//	for i := lo; i < hi; i++ { … }               Loop.forNat lo hi state (fun i state => …) over the variables the body assigns
//	if c { return … }                            continuation style
//	func(z *K) bool                              returns (Bool × K): the flag and the new value of *z
//
// Anything else is refused (exit 1).
package main

import (
	"fmt"
	"go/ast"
	"go/token"
	"path/filepath"
	"sort"
	"strings"
)

type sqTr struct {
	sb   *strings.Builder
	fn   string
	kind map[string]string // k | nat | arr
	ret  func(ind string, r *ast.ReturnStmt)
}

func (t *sqTr) die(format string, args ...interface{}) {
	die("sqrtfp: %s: "+format, append([]interface{}{t.fn}, args...)...)
}

func (t *sqTr) nat(e ast.Expr) string {
	switch x := e.(type) {
	case *ast.ParenExpr:
		return "(" + t.nat(x.X) + ")"
	case *ast.BasicLit:
		if x.Kind == token.INT {
			return "(" + x.Value + " : Nat)"
		}
	case *ast.Ident:
		if t.kind[x.Name] == "nat" || strings.HasPrefix(x.Name, "sqrtParam_") || x.Name == "BaseField2Adicity" {
			return x.Name
		}
	case *ast.CallExpr:
		fn := exprStr(x.Fun)
		if (fn == "int" || fn == "uint") && len(x.Args) == 1 {
			return t.nat(x.Args[0])
		}
		if fn == "sqrtAlg_NegDlogInSmallDyadicSubgroup" && len(x.Args) == 1 {
			return "(go_NegDlog limb0 lut " + t.elem(x.Args[0]) + ")"
		}
	case *ast.BinaryExpr:
		ops := map[token.Token]string{token.ADD: "+", token.SUB: "-", token.MUL: "*", token.QUO: "/", token.SHL: "<<<", token.SHR: ">>>", token.AND: "&&&", token.OR: "|||"}
		if op, ok := ops[x.Op]; ok {
			return "(" + t.nat(x.X) + " " + op + " " + t.nat(x.Y) + ")"
		}
	}
	t.die("unsupported integer expression %s", exprStr(e))
	return ""
}

func (t *sqTr) cond(e ast.Expr) string {
	switch x := e.(type) {
	case *ast.ParenExpr:
		return "(" + t.cond(x.X) + ")"
	case *ast.UnaryExpr:
		if x.Op == token.NOT {
			if c, ok := x.X.(*ast.CallExpr); ok && exprStr(c.Fun) == "invSqrtEqDyadic" {
				return "" // handled by the caller
			}
		}
	case *ast.CallExpr:
		fn := exprStr(x.Fun)
		if strings.HasSuffix(fn, ".IsZero") && len(x.Args) == 0 {
			return "(" + t.elem(x.Fun.(*ast.SelectorExpr).X) + " = 0)"
		}
	case *ast.BinaryExpr:
		ops := map[token.Token]string{token.EQL: "=", token.NEQ: "≠", token.LSS: "<", token.LEQ: "≤", token.GTR: ">", token.GEQ: "≥"}
		if op, ok := ops[x.Op]; ok {
			return "(" + t.nat(x.X) + " " + op + " " + t.nat(x.Y) + ")"
		}
	}
	t.die("unsupported condition %s", exprStr(e))
	return ""
}

// a field-element expression: x, *x, &x, a[i], &a[i]
func (t *sqTr) elem(e ast.Expr) string {
	switch x := e.(type) {
	case *ast.UnaryExpr:
		if x.Op == token.AND {
			return t.elem(x.X)
		}
	case *ast.StarExpr:
		return t.elem(x.X)
	case *ast.Ident:
		if t.kind[x.Name] == "k" {
			return x.Name
		}
	case *ast.IndexExpr:
		if id, ok := x.X.(*ast.Ident); ok && t.kind[id.Name] == "arr" {
			return "(" + id.Name + ".getD " + t.nat(x.Index) + " 0)"
		}
	}
	t.die("unsupported field-element expression %s", exprStr(e))
	return ""
}

// assignment of a field-element value to a variable or an array slot
func (t *sqTr) store(ind string, dst ast.Expr, val string) {
	switch x := dst.(type) {
	case *ast.UnaryExpr:
		if x.Op == token.AND {
			t.store(ind, x.X, val)
			return
		}
	case *ast.StarExpr:
		t.store(ind, x.X, val)
		return
	case *ast.Ident:
		if t.kind[x.Name] == "k" {
			fmt.Fprintf(t.sb, "%slet %s := %s\n", ind, x.Name, val)
			return
		}
	case *ast.IndexExpr:
		if id, ok := x.X.(*ast.Ident); ok && t.kind[id.Name] == "arr" {
			fmt.Fprintf(t.sb, "%slet %s := %s.set %s (%s)\n", ind, id.Name, id.Name, t.nat(x.Index), val)
			return
		}
	}
	t.die("unsupported assignment target %s", exprStr(dst))
}

func baseVar(e ast.Expr) string {
	switch x := e.(type) {
	case *ast.UnaryExpr:
		return baseVar(x.X)
	case *ast.StarExpr:
		return baseVar(x.X)
	case *ast.IndexExpr:
		return baseVar(x.X)
	case *ast.Ident:
		return x.Name
	}
	return ""
}

// the outer variables a block assigns (declared before the block)
func (t *sqTr) assigned(stmts []ast.Stmt) []string {
	set := map[string]bool{}
	local := map[string]bool{}
	var walk func(ss []ast.Stmt)
	walk = func(ss []ast.Stmt) {
		for _, s := range ss {
			switch x := s.(type) {
			case *ast.AssignStmt:
				for _, l := range x.Lhs {
					v := baseVar(l)
					if x.Tok == token.DEFINE {
						local[v] = true
					} else if !local[v] {
						set[v] = true
					}
				}
			case *ast.IncDecStmt:
				set[baseVar(x.X)] = true
			case *ast.ExprStmt:
				if c, ok := x.X.(*ast.CallExpr); ok {
					if sel, ok := c.Fun.(*ast.SelectorExpr); ok {
						if v := baseVar(sel.X); t.kind[v] != "" && !local[v] {
							set[v] = true
						}
					} else if exprStr(c.Fun) == "sqrtAlg_GetPrecomputedRootOfUnity" {
						set[baseVar(c.Args[0])] = true
					}
				}
			case *ast.ForStmt:
				walk(x.Body.List)
			case *ast.IfStmt:
				walk(x.Body.List)
			}
		}
	}
	walk(stmts)
	var out []string
	for v := range set {
		if t.kind[v] != "" {
			out = append(out, v)
		}
	}
	sort.Strings(out)
	return out
}

func sqTuple(vs []string) string {
	if len(vs) == 1 {
		return vs[0]
	}
	return "(" + strings.Join(vs, ", ") + ")"
}

func (t *sqTr) block(ind string, stmts []ast.Stmt, tail string) {
	for i := 0; i < len(stmts); i++ {
		s := stmts[i]
		txt := stmtText(s)
		switch x := s.(type) {
		case *ast.ReturnStmt:
			t.ret(ind, x)
			return
		case *ast.DeclStmt:
			gd := x.Decl.(*ast.GenDecl)
			ok := true
			for _, sp := range gd.Specs {
				vs := sp.(*ast.ValueSpec)
				ty := exprStr(vs.Type)
				for k, n := range vs.Names {
					switch {
					case ty == "uint" && len(vs.Values) == 0:
						t.kind[n.Name] = "nat"
						fmt.Fprintf(t.sb, "%slet %s : Nat := 0\n", ind, n.Name)
					case ty == "feType_SquareRoot" && len(vs.Values) == 0:
						t.kind[n.Name] = "k"
						fmt.Fprintf(t.sb, "%slet %s : K := 0\n", ind, n.Name)
					case ty == "feType_SquareRoot" && len(vs.Values) == len(vs.Names):
						t.kind[n.Name] = "k"
						fmt.Fprintf(t.sb, "%slet %s : K := %s\n", ind, n.Name, t.elem(vs.Values[k]))
					case ty == "[sqrtParam_Blocks]feType_SquareRoot" && len(vs.Values) == 0:
						t.kind[n.Name] = "arr"
						fmt.Fprintf(t.sb, "%slet %s : List K := List.replicate sqrtParam_Blocks 0\n", ind, n.Name)
					default:
						ok = false
					}
				}
			}
			if ok {
				continue
			}
		case *ast.AssignStmt:
			if len(x.Lhs) == 1 && len(x.Rhs) == 1 {
				l := baseVar(x.Lhs[0])
				switch {
				case x.Tok == token.DEFINE && exprStr(x.Rhs[0]) == "Zero()":
					t.kind[l] = "k"
					fmt.Fprintf(t.sb, "%slet %s : K := 0\n", ind, l)
					continue
				case x.Tok == token.DEFINE:
					t.kind[l] = "nat"
					fmt.Fprintf(t.sb, "%slet %s : Nat := %s\n", ind, l, t.nat(x.Rhs[0]))
					continue
				case t.kind[l] == "nat" && x.Tok == token.ASSIGN:
					fmt.Fprintf(t.sb, "%slet %s := %s\n", ind, l, t.nat(x.Rhs[0]))
					continue
				case t.kind[l] == "nat" && (x.Tok == token.SHR_ASSIGN || x.Tok == token.OR_ASSIGN):
					op := map[token.Token]string{token.SHR_ASSIGN: ">>>", token.OR_ASSIGN: "|||"}[x.Tok]
					fmt.Fprintf(t.sb, "%slet %s := %s %s %s\n", ind, l, l, op, t.nat(x.Rhs[0]))
					continue
				case (t.kind[l] == "k" || t.kind[l] == "arr") && x.Tok == token.ASSIGN:
					t.store(ind, x.Lhs[0], t.elem(x.Rhs[0]))
					continue
				}
			}
		case *ast.ExprStmt:
			c, ok := x.X.(*ast.CallExpr)
			if !ok {
				break
			}
			if exprStr(c.Fun) == "sqrtAlg_GetPrecomputedRootOfUnity" && len(c.Args) == 3 {
				t.store(ind, c.Args[0], "go_GetPrecomputedRootOfUnity blocks "+t.nat(c.Args[1])+" "+t.nat(c.Args[2]))
				continue
			}
			if exprStr(c.Fun) == "sqrtAlg_ComputeRelevantPowers" && len(c.Args) == 3 {
				fmt.Fprintf(t.sb, "%slet (%s, %s) : K × K := powers %s\n", ind, baseVar(c.Args[1]), baseVar(c.Args[2]), t.elem(c.Args[0]))
				continue
			}
			if sel, ok := c.Fun.(*ast.SelectorExpr); ok {
				switch {
				case sel.Sel.Name == "Square" && len(c.Args) == 1:
					a := t.elem(c.Args[0])
					t.store(ind, sel.X, a+" * "+a)
					continue
				case sel.Sel.Name == "Mul" && len(c.Args) == 2:
					t.store(ind, sel.X, t.elem(c.Args[0])+" * "+t.elem(c.Args[1]))
					continue
				case sel.Sel.Name == "SetOne" && len(c.Args) == 0:
					t.store(ind, sel.X, "1")
					continue
				}
			}
		case *ast.ForStmt:
			init, ok1 := x.Init.(*ast.AssignStmt)
			cond, ok2 := x.Cond.(*ast.BinaryExpr)
			if ok1 && ok2 && init.Tok == token.DEFINE && len(init.Lhs) == 1 && cond.Op == token.LSS {
				i := exprStr(init.Lhs[0])
				if exprStr(cond.X) == i && stmtText(x.Post) == i+"++" {
					vs := t.assigned(x.Body.List)
					if len(vs) == 0 {
						t.die("loop assigns nothing: %s", txt)
					}
					lo, hi := t.nat(init.Rhs[0]), t.nat(cond.Y)
					t.kind[i] = "nat"
					fmt.Fprintf(t.sb, "%slet %s := Loop.forNat %s %s %s (fun %s st =>\n", ind, sqTuple(vs), lo, hi, sqTuple(vs), i)
					if len(vs) > 1 {
						fmt.Fprintf(t.sb, "%s    let %s := st\n", ind, sqTuple(vs))
					} else {
						fmt.Fprintf(t.sb, "%s    let %s := st\n", ind, vs[0])
					}
					saved := t.ret
					t.ret = func(string, *ast.ReturnStmt) { t.die("return inside a loop") }
					t.block(ind+"    ", x.Body.List, sqTuple(vs))
					t.ret = saved
					fmt.Fprintf(t.sb, "%s  )\n", ind)
					delete(t.kind, i)
					continue
				}
			}
		case *ast.IfStmt:
			if x.Init == nil && x.Else == nil && len(x.Body.List) == 1 {
				if r, ok := x.Body.List[0].(*ast.ReturnStmt); ok {
					// if !invSqrtEqDyadic(&v) { return nil }
					if u, ok := x.Cond.(*ast.UnaryExpr); ok && u.Op == token.NOT {
						if c, ok := u.X.(*ast.CallExpr); ok && exprStr(c.Fun) == "invSqrtEqDyadic" && len(c.Args) == 1 {
							v := baseVar(c.Args[0])
							fmt.Fprintf(t.sb, "%smatch go_invSqrtEqDyadic limb0 lut blocks %s with\n%s| (false, _) =>\n", ind, t.elem(c.Args[0]), ind)
							t.ret(ind+"  ", r)
							fmt.Fprintf(t.sb, "%s| (true, %s) =>\n", ind, v)
							t.block(ind+"  ", stmts[i+1:], tail)
							return
						}
					}
					fmt.Fprintf(t.sb, "%sif %s then\n", ind, t.cond(x.Cond))
					t.ret(ind+"  ", r)
					fmt.Fprintf(t.sb, "%selse\n", ind)
					t.block(ind+"  ", stmts[i+1:], tail)
					return
				}
			}
		}
		t.die("unsupported statement %s", txt)
	}
	if tail == "" {
		t.die("block falls off its end without a return")
	}
	fmt.Fprintf(t.sb, "%s%s\n", ind, tail)
}

func translateSqrtFp(repo string, write func(name, imports, content string)) {
	f := parse(filepath.Join(repo, "bandersnatch/fp/sqrt.go"))
	sb := &strings.Builder{}
	sb.WriteString("namespace SqrtFp\nopen GoIpa\n\n")
	// integer constants, in source order
	t0 := &sqTr{sb: sb, fn: "constants", kind: map[string]string{}}
	for _, d := range f.Decls {
		gd, ok := d.(*ast.GenDecl)
		if !ok || gd.Tok != token.CONST {
			continue
		}
		for _, sp := range gd.Specs {
			vs := sp.(*ast.ValueSpec)
			for k, n := range vs.Names {
				if n.Name == "BaseField2Adicity" || strings.HasPrefix(n.Name, "sqrtParam_") {
					fmt.Fprintf(sb, "def %s : Nat := %s\n", n.Name, t0.nat(vs.Values[k]))
				}
			}
		}
	}
	sb.WriteString("\nsection\nvariable {K : Type} [Mul K] [One K] [Zero K] [DecidableEq K]\n\n")

	// sqrtAlg_NegDlogInSmallDyadicSubgroup: return sqrtPrecomp_dlogLUT[uint16(x[0]&0xFFFF)]
	{
		fd := findFunc(f, "sqrtAlg_NegDlogInSmallDyadicSubgroup")
		if exprStr(fd.Type) != "func(x *feType_SquareRoot) uint" || len(fd.Body.List) != 1 {
			die("sqrtfp: sqrtAlg_NegDlogInSmallDyadicSubgroup has an unknown shape")
		}
		r, ok := fd.Body.List[0].(*ast.ReturnStmt)
		if !ok || len(r.Results) != 1 {
			die("sqrtfp: sqrtAlg_NegDlogInSmallDyadicSubgroup has an unknown shape")
		}
		ix, ok := r.Results[0].(*ast.IndexExpr)
		if !ok || exprStr(ix.X) != "sqrtPrecomp_dlogLUT" {
			die("sqrtfp: sqrtAlg_NegDlogInSmallDyadicSubgroup does not read sqrtPrecomp_dlogLUT")
		}
		conv, ok := ix.Index.(*ast.CallExpr)
		if !ok || exprStr(conv.Fun) != "uint16" || len(conv.Args) != 1 {
			die("sqrtfp: the LUT key is not a uint16 conversion")
		}
		be, ok := conv.Args[0].(*ast.BinaryExpr)
		if !ok || be.Op != token.AND || exprStr(be.X) != "x[0]" {
			die("sqrtfp: the LUT key is not x[0] & mask")
		}
		mask, ok := be.Y.(*ast.BasicLit)
		if !ok {
			die("sqrtfp: the LUT key mask is not a literal")
		}
		fmt.Fprintf(sb, "/-- `sqrtAlg_NegDlogInSmallDyadicSubgroup` (`limb0 x` = `x[0]`, the low Montgomery limb; `lut` = the map lookup) -/\ndef go_NegDlog (limb0 : K → Nat) (lut : Nat → Nat) (x : K) : Nat :=\n  lut ((limb0 x &&& (%s : Nat)) %% 65536)\n\n", mask.Value)
	}
	// sqrtAlg_GetPrecomputedRootOfUnity: *target = sqrtPrecomp_PrecomputedBlocks[order][multiplier]
	{
		fd := findFunc(f, "sqrtAlg_GetPrecomputedRootOfUnity")
		if exprStr(fd.Type) != "func(target *feType_SquareRoot, multiplier int, order uint)" || len(fd.Body.List) != 1 ||
			stmtText(fd.Body.List[0]) != "*target = sqrtPrecomp_PrecomputedBlocks[order][multiplier]" {
			die("sqrtfp: sqrtAlg_GetPrecomputedRootOfUnity has an unknown shape")
		}
		sb.WriteString("/-- `sqrtAlg_GetPrecomputedRootOfUnity` -/\ndef go_GetPrecomputedRootOfUnity (blocks : Nat → Nat → K) (multiplier order : Nat) : K :=\n  blocks order multiplier\n\n")
	}
	// invSqrtEqDyadic
	{
		fd := findFunc(f, "invSqrtEqDyadic")
		if exprStr(fd.Type) != "func(z *Element) bool" {
			die("sqrtfp: invSqrtEqDyadic has signature %s", exprStr(fd.Type))
		}
		t := &sqTr{sb: sb, fn: "invSqrtEqDyadic", kind: map[string]string{"z": "k"}}
		t.ret = func(ind string, r *ast.ReturnStmt) {
			if len(r.Results) != 1 || (exprStr(r.Results[0]) != "true" && exprStr(r.Results[0]) != "false") {
				t.die("unexpected return %s", stmtText(r))
			}
			fmt.Fprintf(sb, "%s(%s, z)\n", ind, exprStr(r.Results[0]))
		}
		sb.WriteString("/-- `invSqrtEqDyadic`: the flag and the new value of `*z` -/\ndef go_invSqrtEqDyadic (limb0 : K → Nat) (lut : Nat → Nat) (blocks : Nat → Nat → K) (z : K) : Bool × K :=\n")
		t.block("  ", fd.Body.List, "")
		sb.WriteString("\n")
	}
	// SqrtPrecomp
	{
		fd := findFunc(f, "SqrtPrecomp")
		if exprStr(fd.Type) != "func(x *Element) *Element" {
			die("sqrtfp: SqrtPrecomp has signature %s", exprStr(fd.Type))
		}
		t := &sqTr{sb: sb, fn: "SqrtPrecomp", kind: map[string]string{"x": "k"}}
		t.ret = func(ind string, r *ast.ReturnStmt) {
			if len(r.Results) != 1 {
				t.die("unexpected return %s", stmtText(r))
			}
			switch s := exprStr(r.Results[0]); {
			case s == "nil":
				fmt.Fprintf(sb, "%snone\n", ind)
			case s == "&res":
				fmt.Fprintf(sb, "%ssome res\n", ind)
			default:
				c, ok := r.Results[0].(*ast.CallExpr)
				if !ok || exprStr(c.Fun) != "res.Mul" || len(c.Args) != 2 {
					t.die("unexpected return %s", stmtText(r))
				}
				fmt.Fprintf(sb, "%ssome (%s * %s)\n", ind, t.elem(c.Args[0]), t.elem(c.Args[1]))
			}
		}
		sb.WriteString("/-- `SqrtPrecomp` (`powers` = `sqrtAlg_ComputeRelevantPowers`: candidate and root of unity) -/\ndef go_SqrtPrecomp (limb0 : K → Nat) (lut : Nat → Nat) (blocks : Nat → Nat → K) (powers : K → K × K) (x : K) : Option K :=\n")
		t.block("  ", fd.Body.List, "")
		sb.WriteString("\n")
	}
	sb.WriteString("end\n\n")
	// init(): the three table-building closures are not translated; their statements are pinned
	{
		var initFn *ast.FuncDecl
		for _, d := range f.Decls {
			if fd, ok := d.(*ast.FuncDecl); ok && fd.Name.Name == "init" {
				if initFn != nil {
					die("sqrtfp: two init() functions")
				}
				initFn = fd
			}
		}
		if initFn == nil {
			die("sqrtfp: init() not found")
		}
		ast.Inspect(initFn, func(n ast.Node) bool {
			switch x := n.(type) {
			case *ast.GenDecl:
				x.Doc = nil
			case *ast.ValueSpec:
				x.Doc, x.Comment = nil, nil
			}
			return true
		})
		var st []string
		for _, s := range initFn.Body.List {
			st = append(st, stmtText(s))
		}
		sb.WriteString("/-- the statements of `init()` (table construction) -/\ndef initBody : List String := [" + quoteAll(st) + "]\n\n")
	}
	// init(): the first two closures (dyadic roots, precomputed blocks) are also translated; the look-up table
	// closure stays pinned
	{
		var initFn *ast.FuncDecl
		for _, d := range f.Decls {
			if fd, ok := d.(*ast.FuncDecl); ok && fd.Name.Name == "init" {
				initFn = fd
			}
		}
		closure := func(k int, lhs string) *ast.FuncLit {
			as, ok := initFn.Body.List[k].(*ast.AssignStmt)
			if !ok || len(as.Lhs) != 1 || exprStr(as.Lhs[0]) != lhs {
				die("sqrtfp: init(): statement %d does not assign %s", k, lhs)
			}
			c, ok := as.Rhs[0].(*ast.CallExpr)
			if !ok || len(c.Args) != 0 {
				die("sqrtfp: init(): %s is not an immediately invoked closure", lhs)
			}
			fl, ok := c.Fun.(*ast.FuncLit)
			if !ok {
				die("sqrtfp: init(): %s is not an immediately invoked closure", lhs)
			}
			return fl
		}
		// (a) roots
		fl := closure(0, "sqrtPrecomp_PrimitiveDyadicRoots")
		var st []string
		for _, s := range fl.Body.List {
			st = append(st, stmtText(s))
		}
		pre := "if _, err := ret[0].SetString(\""
		if exprStr(fl.Type) != "func() (ret [BaseField2Adicity + 1]feType_SquareRoot)" || len(st) != 6 || !strings.HasPrefix(st[0], pre) ||
			!strings.HasSuffix(st[0], "\"); err != nil { panic(err) }") ||
			st[1] != "for i := 1; i <= BaseField2Adicity; i++ { ret[i].Square(&ret[i-1]) }" ||
			st[2] != "x := big.NewInt(0)" || st[3] != "ret[BaseField2Adicity-1].BigInt(x)" ||
			st[4] != "if ret[BaseField2Adicity-1].String() != \"-1\" { panic(\"something is wrong with the dyadic roots of unity\") }" || st[5] != "return" {
			die("sqrtfp: init(): the dyadic-roots closure has an unknown shape: %q", st)
		}
		lit := strings.TrimSuffix(strings.TrimPrefix(st[0], pre), "\"); err != nil { panic(err) }")
		sb.WriteString("/-- the decimal literal of the hard-coded primitive `2^32`-th root of unity -/\ndef rootLiteral : Nat := " + lit + "\n\n")
		sb.WriteString("section\nvariable {K : Type} [Mul K] [One K] [Zero K]\n\n")
		sb.WriteString("/-- the closure that fills `sqrtPrecomp_PrimitiveDyadicRoots` (`g` = the literal as a field element; the `-1` self-check is not translated) -/\ndef go_dyadicRoots (g : K) : List K :=\n  let ret : List K := List.replicate (BaseField2Adicity + 1) 0\n  let ret := ret.set 0 g\n  let ret := Loop.forNat 1 (BaseField2Adicity + 1) ret (fun i ret => ret.set i ((ret.getD (i - 1) 0) * (ret.getD (i - 1) 0)))\n  ret\n\n")
		// reconstruction root
		if stmtText(initFn.Body.List[1]) != "sqrtPrecomp_ReconstructionDyadicRoot = sqrtPrecomp_PrimitiveDyadicRoots[BaseField2Adicity-sqrtParam_BlockSize]" {
			die("sqrtfp: init(): the reconstruction root has an unknown shape")
		}
		sb.WriteString("/-- index of `sqrtPrecomp_ReconstructionDyadicRoot` among the dyadic roots -/\ndef reconIndex : Nat := BaseField2Adicity - sqrtParam_BlockSize\n\n")
		// (c) blocks
		fl = closure(2, "sqrtPrecomp_PrecomputedBlocks")
		st = nil
		for _, s := range fl.Body.List {
			st = append(st, stmtText(s))
		}
		if exprStr(fl.Type) != "func() (blocks [sqrtParam_Blocks][1 << sqrtParam_BlockSize]feType_SquareRoot)" || len(st) != 2 ||
			st[0] != "for i := 0; i < sqrtParam_Blocks; i++ { blocks[i][0].SetOne() for j := 1; j < (1 << sqrtParam_BlockSize); j++ { blocks[i][j].Mul(&blocks[i][j-1], &sqrtPrecomp_PrimitiveDyadicRoots[i*sqrtParam_BlockSize]) } }" || st[1] != "return" {
			die("sqrtfp: init(): the precomputed-blocks closure has an unknown shape: %q", st)
		}
		sb.WriteString("/-- the closure that fills `sqrtPrecomp_PrecomputedBlocks` from the dyadic roots -/\ndef go_blocks (roots : List K) : List (List K) :=\n  let blocks : List (List K) := List.replicate sqrtParam_Blocks (List.replicate (1 <<< sqrtParam_BlockSize) 0)\n  let blocks := Loop.forNat 0 sqrtParam_Blocks blocks (fun i blocks =>\n      let blocks := blocks.set i ((blocks.getD i []).set 0 1)\n      let blocks := Loop.forNat 1 (1 <<< sqrtParam_BlockSize) blocks (fun j blocks =>\n          blocks.set i ((blocks.getD i []).set j (((blocks.getD i []).getD (j - 1) 0) * (roots.getD (i * sqrtParam_BlockSize) 0))))\n      blocks)\n  blocks\n\n")
		// (d) the discrete-log look-up table: a Go map, translated as an association list (newest entry first)
		fl = closure(3, "sqrtPrecomp_dlogLUT")
		st = nil
		for _, s := range fl.Body.List {
			st = append(st, stmtText(s))
		}
		wantLUT := []string{
			"const LUTSize = 1 << sqrtParam_BlockSize",
			"ret = make(map[uint16]uint, LUTSize)",
			"var rootOfUnity feType_SquareRoot",
			"rootOfUnity.SetOne()",
			"for i := 0; i < LUTSize; i++ { const mask = LUTSize - 1 ret[uint16(rootOfUnity[0]&0xFFFF)] = uint((-i) & mask) rootOfUnity.Mul(&rootOfUnity, &sqrtPrecomp_ReconstructionDyadicRoot) }",
			"if len(ret) != LUTSize { panic(\"failed to store all appropriate roots of unity in a map\") }",
			"return",
		}
		if exprStr(fl.Type) != "func() (ret map[uint16]uint)" || len(st) != len(wantLUT) {
			die("sqrtfp: init(): the look-up-table closure has an unknown shape: %q", st)
		}
		for k := range wantLUT {
			if st[k] != wantLUT[k] {
				die("sqrtfp: init(): look-up-table closure, statement %d is %q, expected %q", k, st[k], wantLUT[k])
			}
		}
		sb.WriteString("/-- `LUTSize` -/\ndef lutSize : Nat := 1 <<< sqrtParam_BlockSize\n\n")
		sb.WriteString("/-- the closure that fills `sqrtPrecomp_dlogLUT`: the Go map as an association list with the newest entry first\n(a later store to the same key hides the earlier one, as in the map); `uint((-i) & mask)` for the power-of-two\n`LUTSize = mask + 1` is `(LUTSize − i mod LUTSize) mod LUTSize`; the final `len(ret)` self-check is not translated -/\ndef go_lut (limb0 : K → Nat) (recon : K) : List (Nat × Nat) :=\n  let ret : List (Nat × Nat) := []\n  let rootOfUnity : K := 1\n  let st := Loop.forNat 0 lutSize (ret, rootOfUnity) (fun i st =>\n      let (ret, rootOfUnity) := st\n      let ret := (((limb0 rootOfUnity &&& (0xFFFF : Nat)) % 65536), ((lutSize - i % lutSize) % lutSize)) :: ret\n      let rootOfUnity := rootOfUnity * recon\n      (ret, rootOfUnity))\n  st.1\n\n/-- reading the map (a missing key reads 0) -/\ndef lutLookup (l : List (Nat × Nat)) (k : Nat) : Nat := ((l.find? (fun e => e.1 == k)).map (·.2)).getD 0\n\nend\n\n")
	}
	sb.WriteString("end SqrtFp\n")
	write("SqrtFp.lean", "import GoIpa.Model.Loop\n", sb.String())
}
