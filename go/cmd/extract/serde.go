// serde.go: translates the proof (de)serialisation code — common.ReadPoint, common.ReadScalar,
// IPAProof.Read / Write, MultiProof.Read / Write — into Lean functions over the reader / writer
// state machines of lean/GoIpa/Model/Serde.lean.  The functions are short and regular; every
// statement must have one of the shapes below, anything else is refused (exit 1):
//
//	var x = make([]byte, N)                                        buffer of N bytes
//	if _, err := io.ReadAtLeast(r, x, N); err != nil { return … }  Reader.full r N   (len(x) = N required)
//	var p = &banderwagon.Element{} / var s = &fr.Element{}          receiver of a decoder
//	if err := p.SetBytes(x); err != nil { return … }               E.decPoint x
//	if _, err := s.SetBytesLECanonical(x); err != nil { return … } E.decScalar x
//	v, err := common.ReadPoint(r) / ReadScalar(r); if err != nil { return … }
//	var L []banderwagon.Element;  L = append(L, *v);  ip.L = L;  ip.A_scalar = *v;  mp.D = *v
//	for i := 0; i < K; i++ { … }                                   Loop.forUpOpt over (list, reader)
//	if err := mp.IPA.Read(r); err != nil { return … }
//	var buf [1]byte;  if _, err := io.ReadFull(r, buf[:]); err != io.EOF { return … }
//	for _, el := range ip.L { if err := binary.Write(w, binary.BigEndian, el.Bytes()); err != nil { return … } }
//	if err := binary.Write(w, binary.BigEndian, X.Bytes() | X.BytesLE()); err != nil { return … }
//	if err := mp.IPA.Write(w); err != nil { return … }
//	return v, nil  /  return nil
//
// An `error` result is `Option` (`none` = any error); the reader / writer is threaded and returned.
package main

import (
	"fmt"
	"go/ast"
	"go/token"
	"path/filepath"
	"strings"
)

type serdeTr struct {
	sb    *strings.Builder
	fn    string
	bufs  map[string]string // byte buffer variable -> its length
	kinds map[string]string // variable -> "point" | "scalar" | "points"
	recv  string            // receiver name ("" for functions)
	ret   string            // what `return nil` yields
}

func (t *serdeTr) die(format string, args ...interface{}) {
	die("serde: %s: "+format, append([]interface{}{t.fn}, args...)...)
}

func isErrReturn(s ast.Stmt) bool {
	r, ok := s.(*ast.ReturnStmt)
	if !ok || len(r.Results) == 0 {
		return false
	}
	return exprStr(r.Results[len(r.Results)-1]) != "nil"
}

// `if [init]; cond { return …err }` with a single error return in the body
func (t *serdeTr) errIf(s ast.Stmt, cond string) (*ast.AssignStmt, bool) {
	is, ok := s.(*ast.IfStmt)
	if !ok || is.Else != nil || exprStr(is.Cond) != cond || len(is.Body.List) != 1 || !isErrReturn(is.Body.List[0]) {
		return nil, false
	}
	if is.Init == nil {
		return nil, true
	}
	as, ok := is.Init.(*ast.AssignStmt)
	if !ok || as.Tok != token.DEFINE || len(as.Rhs) != 1 {
		return nil, false
	}
	return as, true
}

func (t *serdeTr) fieldVar(e ast.Expr) string {
	return strings.ReplaceAll(exprStr(e), ".", "")
}

func (t *serdeTr) block(ind string, stmts []ast.Stmt) {
	for i := 0; i < len(stmts); i++ {
		s := stmts[i]
		txt := stmtText(s)
		// declarations without effect on the translation
		if ds, ok := s.(*ast.DeclStmt); ok {
			vs := ds.Decl.(*ast.GenDecl).Specs[0].(*ast.ValueSpec)
			name := vs.Names[0].Name
			switch {
			case len(vs.Values) == 1 && strings.HasPrefix(exprStr(vs.Values[0]), "make([]byte, "):
				c := vs.Values[0].(*ast.CallExpr)
				t.bufs[name] = exprStr(c.Args[1])
				continue
			case len(vs.Values) == 1 && exprStr(vs.Values[0]) == "&banderwagon.Element{}":
				t.kinds[name] = "point"
				continue
			case len(vs.Values) == 1 && exprStr(vs.Values[0]) == "&fr.Element{}":
				t.kinds[name] = "scalar"
				continue
			case len(vs.Values) == 0 && exprStr(vs.Type) == "[]banderwagon.Element":
				t.kinds[name] = "points"
				fmt.Fprintf(t.sb, "%slet %s : List P := []\n", ind, name)
				continue
			case len(vs.Values) == 0 && exprStr(vs.Type) == "[1]byte":
				t.bufs[name] = "1"
				continue
			}
			t.die("unsupported declaration %s", txt)
		}
		// error-checked calls in an `if` header
		if as, ok := t.errIf(s, "err != nil"); ok && as != nil {
			c, ok := as.Rhs[0].(*ast.CallExpr)
			if !ok {
				t.die("unsupported statement %s", txt)
			}
			fn := exprStr(c.Fun)
			switch {
			case fn == "io.ReadAtLeast" && len(c.Args) == 3:
				buf := exprStr(c.Args[1])
				if exprStr(c.Args[0]) != "r" || t.bufs[buf] == "" || t.bufs[buf] != exprStr(c.Args[2]) {
					t.die("io.ReadAtLeast with a buffer whose length is not the minimum: %s", txt)
				}
				fmt.Fprintf(t.sb, "%smatch Reader.full r %s with\n%s| (.error _, _) => none\n%s| (.ok %s, r) =>\n", ind, t.bufs[buf], ind, ind, buf)
				ind += "  "
				continue
			case strings.HasSuffix(fn, ".SetBytes") && len(c.Args) == 1 && t.kinds[strings.TrimSuffix(fn, ".SetBytes")] == "point":
				p := strings.TrimSuffix(fn, ".SetBytes")
				fmt.Fprintf(t.sb, "%smatch E.decPoint %s with\n%s| none => none\n%s| some %s =>\n", ind, exprStr(c.Args[0]), ind, ind, p)
				ind += "  "
				continue
			case strings.HasSuffix(fn, ".SetBytesLECanonical") && len(c.Args) == 1 && t.kinds[strings.TrimSuffix(fn, ".SetBytesLECanonical")] == "scalar":
				p := strings.TrimSuffix(fn, ".SetBytesLECanonical")
				fmt.Fprintf(t.sb, "%smatch E.decScalar %s with\n%s| none => none\n%s| some %s =>\n", ind, exprStr(c.Args[0]), ind, ind, p)
				ind += "  "
				continue
			case fn == "mp.IPA.Read" && len(c.Args) == 1 && exprStr(c.Args[0]) == "r":
				fmt.Fprintf(t.sb, "%smatch ipaRead E r with\n%s| none => none\n%s| some (mpIPA, r) =>\n", ind, ind, ind)
				ind += "  "
				continue
			case fn == "mp.IPA.Write" && len(c.Args) == 1 && exprStr(c.Args[0]) == "w":
				fmt.Fprintf(t.sb, "%smatch ipaWrite E mpIPA w with\n%s| none => none\n%s| some w =>\n", ind, ind, ind)
				ind += "  "
				continue
			case fn == "binary.Write" && len(c.Args) == 3 && exprStr(c.Args[0]) == "w" && exprStr(c.Args[1]) == "binary.BigEndian":
				fmt.Fprintf(t.sb, "%smatch Writer.write w %s with\n%s| none => none\n%s| some w =>\n", ind, t.encoded(c.Args[2]), ind, ind)
				ind += "  "
				continue
			}
			t.die("unsupported error-checked call %s", txt)
		}
		// the end-of-stream probe
		if is, ok := s.(*ast.IfStmt); ok && exprStr(is.Cond) == "err != io.EOF" && is.Init != nil && len(is.Body.List) == 1 && isErrReturn(is.Body.List[0]) && is.Else == nil {
			as, ok := is.Init.(*ast.AssignStmt)
			if !ok || len(as.Rhs) != 1 {
				t.die("unsupported probe %s", txt)
			}
			c, ok := as.Rhs[0].(*ast.CallExpr)
			if !ok || exprStr(c.Fun) != "io.ReadFull" || len(c.Args) != 2 || exprStr(c.Args[0]) != "r" {
				t.die("unsupported probe %s", txt)
			}
			buf := strings.TrimSuffix(exprStr(c.Args[1]), "[:]")
			if t.bufs[buf] == "" {
				t.die("io.ReadFull into an unknown buffer: %s", txt)
			}
			fmt.Fprintf(t.sb, "%smatch Reader.full r %s with\n%s| (.error .eof, r) =>\n", ind, t.bufs[buf], ind)
			t.block(ind+"  ", stmts[i+1:])
			fmt.Fprintf(t.sb, "%s| _ => none\n", ind)
			return
		}
		switch x := s.(type) {
		case *ast.AssignStmt:
			// `v, err := common.ReadPoint(r)` followed by `if err != nil { return … }`
			if x.Tok == token.DEFINE && len(x.Lhs) == 2 && len(x.Rhs) == 1 && exprStr(x.Lhs[1]) == "err" {
				c, ok := x.Rhs[0].(*ast.CallExpr)
				if !ok || len(c.Args) != 1 || exprStr(c.Args[0]) != "r" {
					t.die("unsupported call %s", txt)
				}
				var callee, kind string
				switch exprStr(c.Fun) {
				case "common.ReadPoint":
					callee, kind = "readPoint", "point"
				case "common.ReadScalar":
					callee, kind = "readScalar", "scalar"
				default:
					t.die("unsupported call %s", txt)
				}
				if i+1 >= len(stmts) {
					t.die("error of %s is not checked", exprStr(c.Fun))
				}
				if as, ok := t.errIf(stmts[i+1], "err != nil"); !ok || as != nil {
					t.die("error of %s is not checked immediately", exprStr(c.Fun))
				}
				v := exprStr(x.Lhs[0])
				t.kinds[v] = kind
				fmt.Fprintf(t.sb, "%smatch %s E r with\n%s| none => none\n%s| some (%s, r) =>\n", ind, callee, ind, ind, v)
				ind += "  "
				i++
				continue
			}
			if x.Tok == token.ASSIGN && len(x.Lhs) == 1 && len(x.Rhs) == 1 {
				lhs, rhs := x.Lhs[0], x.Rhs[0]
				// L = append(L, *v)
				if c, ok := rhs.(*ast.CallExpr); ok && exprStr(c.Fun) == "append" && len(c.Args) == 2 && exprStr(c.Args[0]) == exprStr(lhs) && t.kinds[exprStr(lhs)] == "points" {
					st, ok := c.Args[1].(*ast.StarExpr)
					if !ok || t.kinds[exprStr(st.X)] != "point" {
						t.die("unsupported append %s", txt)
					}
					fmt.Fprintf(t.sb, "%slet %s : List P := %s ++ [%s]\n", ind, exprStr(lhs), exprStr(lhs), exprStr(st.X))
					continue
				}
				// ip.L = L / ip.A_scalar = *A / mp.D = *D
				if sel, ok := lhs.(*ast.SelectorExpr); ok && exprStr(sel.X) == t.recv {
					val := rhs
					if st, ok := rhs.(*ast.StarExpr); ok {
						val = st.X
					}
					id, ok := val.(*ast.Ident)
					if !ok || t.kinds[id.Name] == "" {
						t.die("unsupported field assignment %s", txt)
					}
					fmt.Fprintf(t.sb, "%slet %s := %s\n", ind, t.fieldVar(lhs), id.Name)
					continue
				}
			}
		case *ast.ForStmt:
			// for i := 0; i < K; i++ { v, err := common.ReadPoint(r); if err … ; L = append(L, *v) }
			hdr := stmtText(x.Init) + "; " + exprStr(x.Cond) + "; " + stmtText(x.Post)
			init, ok := x.Init.(*ast.AssignStmt)
			cond, ok2 := x.Cond.(*ast.BinaryExpr)
			if !ok || !ok2 || exprStr(init.Rhs[0]) != "0" || cond.Op != token.LSS || stmtText(x.Post) != exprStr(init.Lhs[0])+"++" {
				t.die("unsupported loop header %s", hdr)
			}
			// the list the body appends to
			var acc string
			ast.Inspect(x.Body, func(n ast.Node) bool {
				if as, ok := n.(*ast.AssignStmt); ok && as.Tok == token.ASSIGN && len(as.Lhs) == 1 && t.kinds[exprStr(as.Lhs[0])] == "points" {
					acc = exprStr(as.Lhs[0])
				}
				return true
			})
			if acc == "" {
				t.die("loop without accumulator %s", hdr)
			}
			fmt.Fprintf(t.sb, "%smatch Loop.forUpOpt (0 : Int) (%s : Int) (%s, r) (fun (_ : Int) (st : List P × Reader) =>\n%s    let (%s, r) := st\n", ind, exprStr(cond.Y), acc, ind, acc)
			sub := &serdeTr{sb: t.sb, fn: t.fn, bufs: t.bufs, kinds: t.kinds, recv: t.recv, ret: "(" + acc + ", r)"}
			sub.block(ind+"    ", append(append([]ast.Stmt{}, x.Body.List...), &ast.ReturnStmt{Results: []ast.Expr{ast.NewIdent("nil")}}))
			fmt.Fprintf(t.sb, "%s  ) with\n%s| none => none\n%s| some (%s, r) =>\n", ind, ind, ind, acc)
			ind += "  "
			continue
		case *ast.RangeStmt:
			// for _, el := range ip.L { if err := binary.Write(w, binary.BigEndian, el.Bytes()); err != nil { return … } }
			v, ok := x.Value.(*ast.Ident)
			if !ok || exprStr(x.Key) != "_" || len(x.Body.List) != 1 {
				t.die("unsupported range loop %s", txt)
			}
			as, ok := t.errIf(x.Body.List[0], "err != nil")
			if !ok || as == nil {
				t.die("unsupported range body %s", txt)
			}
			c, ok := as.Rhs[0].(*ast.CallExpr)
			if !ok || exprStr(c.Fun) != "binary.Write" || len(c.Args) != 3 || exprStr(c.Args[0]) != "w" || exprStr(c.Args[1]) != "binary.BigEndian" || exprStr(c.Args[2]) != v.Name+".Bytes()" {
				t.die("unsupported range body %s", txt)
			}
			list := t.fieldVar(x.X)
			fmt.Fprintf(t.sb, "%smatch Loop.forUpOpt (0 : Int) (((%s).length : Nat) : Int) w (fun (i : Int) (w : Writer) =>\n%s    Writer.write w (E.encPoint (Loop.get %s i E.zeroP))) with\n%s| none => none\n%s| some w =>\n", ind, list, ind, list, ind, ind)
			ind += "  "
			continue
		case *ast.ReturnStmt:
			last := exprStr(x.Results[len(x.Results)-1])
			if last != "nil" {
				fmt.Fprintf(t.sb, "%snone\n", ind)
				return
			}
			if len(x.Results) == 2 {
				fmt.Fprintf(t.sb, "%ssome (%s, r)\n", ind, exprStr(x.Results[0]))
				return
			}
			fmt.Fprintf(t.sb, "%ssome %s\n", ind, t.ret)
			return
		}
		t.die("unsupported statement %s", txt)
	}
	t.die("control falls off the end")
}

// `X.Bytes()` of a point-valued field / `X.BytesLE()` of a scalar-valued field
func (t *serdeTr) encoded(e ast.Expr) string {
	c, ok := e.(*ast.CallExpr)
	if !ok || len(c.Args) != 0 {
		t.die("unsupported value written: %s", exprStr(e))
	}
	sel := c.Fun.(*ast.SelectorExpr)
	switch sel.Sel.Name {
	case "Bytes":
		return "(E.encPoint " + t.fieldVar(sel.X) + ")"
	case "BytesLE":
		return "(E.encScalar " + t.fieldVar(sel.X) + ")"
	}
	t.die("unsupported value written: %s", exprStr(e))
	return ""
}

func translateSerde(repo string, write func(name, imports, content string)) {
	common := parse(filepath.Join(repo, "common/common.go"))
	prover := parse(filepath.Join(repo, "ipa/prover.go"))
	mp := parse(filepath.Join(repo, "multiproof.go"))
	sb := &strings.Builder{}
	sb.WriteString("namespace Serde\nopen GoIpa\n\nsection\nvariable {P S : Type}\n\n")
	one := func(fd *ast.FuncDecl, lean, sig, ret, recv string) {
		if fd == nil {
			die("serde: function for %s not found", lean)
		}
		t := &serdeTr{sb: sb, fn: lean, bufs: map[string]string{}, kinds: map[string]string{}, recv: recv, ret: ret}
		fmt.Fprintf(sb, "/-- translated from `%s` -/\ndef %s (E : SerdeEnv P S) %s :=\n", fd.Name.Name, lean, sig)
		t.block("  ", fd.Body.List)
		sb.WriteString("\n")
	}
	one(findFunc(common, "ReadPoint"), "readPoint", "(r : Reader) : Option (P × Reader)", "", "")
	one(findFunc(common, "ReadScalar"), "readScalar", "(r : Reader) : Option (S × Reader)", "", "")
	one(findMethodOf(prover, "IPAProof", "Read"), "ipaRead", "(r : Reader) : Option ((List P × List P × S) × Reader)", "((ipL, ipR, ipA_scalar), r)", "ip")
	one(findMethodOf(mp, "MultiProof", "Read"), "mpRead", "(r : Reader) : Option ((P × (List P × List P × S)) × Reader)", "((mpD, mpIPA), r)", "mp")
	// writers: the proof's fields are parameters
	wr := func(fd *ast.FuncDecl, lean, sig, recv string, pre string) {
		if fd == nil {
			die("serde: function for %s not found", lean)
		}
		t := &serdeTr{sb: sb, fn: lean, bufs: map[string]string{}, kinds: map[string]string{}, recv: recv, ret: "w"}
		fmt.Fprintf(sb, "/-- translated from `%s` -/\ndef %s (E : SerdeEnv P S) %s : Option Writer :=\n%s", fd.Name.Name, lean, sig, pre)
		t.block("  ", fd.Body.List)
		sb.WriteString("\n")
	}
	wr(findMethodOf(prover, "IPAProof", "Write"), "ipaWrite", "(ip : List P × List P × S) (w : Writer)", "ip",
		"  let ipL := ip.1\n  let ipR := ip.2.1\n  let ipA_scalar := ip.2.2\n")
	wr(findMethodOf(mp, "MultiProof", "Write"), "mpWrite", "(mpD : P) (mpIPA : List P × List P × S) (w : Writer)", "mp", "")
	sb.WriteString("end\n\nend Serde\n")
	write("Serde.lean", "import GoIpa.Model.Loop\nimport GoIpa.Model.Serde\n", sb.String())
}
