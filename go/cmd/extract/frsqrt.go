// frsqrt.go: translates the straight-line pieces of fr.Element.Sqrt (Tonelli–Shanks for 2-adicity 5) — the
// prologue `w = x^((s-1)/2); y = x·w; b = w·y`, the test "t is the Montgomery form of 1", the loop tail
// `g = t²; y = y·t; b = b·g`, the constants — into Lean (Gen/FrSqrtGo.lean).  The loop skeleton (unbounded `for`
// loops) is pinned as text (Tie.FrConsts.untranslated_bodies) and mirrored over these pieces in Tie/FrSqrtGo.lean.
// The statements of Sqrt are compared one by one with the expected shapes; anything else is refused (exit 1).
package main

import (
	"fmt"
	"go/ast"
	"math/big"
	"path/filepath"
	"strings"
)

func translateFrSqrt(repo string, write func(name, imports, content string)) {
	f := parse(filepath.Join(repo, "bandersnatch/fr/element.go"))
	fd := findMethod(f, "Sqrt")
	ast.Inspect(fd, func(n ast.Node) bool {
		switch x := n.(type) {
		case *ast.GenDecl:
			x.Doc = nil
		case *ast.ValueSpec:
			x.Doc, x.Comment = nil, nil
		}
		return true
	})
	var st []string
	for _, s := range fd.Body.List {
		st = append(st, stmtText(s))
	}
	if len(st) != 11 {
		die("frsqrt: Sqrt has %d statements, expected 11", len(st))
	}
	want := map[int]string{
		0: "var y, b, t, w Element",
		1: "w.Exp(*x, _bSqrtExponentElement)",
		2: "y.Mul(x, &w)",
		3: "b.Mul(&w, &y)",
		5: "r := uint64(5)",
		6: "t = b",
		7: "for i := uint64(0); i < r-1; i++ { t.Square(&t) }",
		8: "if t.IsZero() { return z.SetZero() }",
	}
	for k, w := range want {
		if st[k] != w {
			die("frsqrt: statement %d is %q, expected %q", k, st[k], w)
		}
	}
	g := compositeUints(mustInit(fd.Body, "g"))
	if len(g) != 4 {
		die("frsqrt: g does not have four limbs")
	}
	// the `is one` test: statement 9 is `if !(COND) { return nil }`
	is9, ok := fd.Body.List[9].(*ast.IfStmt)
	if !ok || stmtText(is9.Body) != "{ return nil }" {
		die("frsqrt: statement 9 is not `if !(t is one) { return nil }`")
	}
	neg, ok := is9.Cond.(*ast.UnaryExpr)
	if !ok || neg.Op.String() != "!" {
		die("frsqrt: statement 9 does not negate the one-test")
	}
	oneTest := exprStr(neg.X)
	tail := "for { var m uint64 t = b for !" + oneTest + " { t.Square(&t) m++ } if m == 0 { return z.Set(&y) } ge := int(r - m - 1) t = g for ge > 0 { t.Square(&t) ge-- } g.Square(&t) y.Mul(&y, &t) b.Mul(&b, &g) r = m }"
	if st[10] != tail {
		die("frsqrt: the main loop is %q, expected %q", st[10], tail)
	}
	// the exponent: const sqrtExponentElement = "<hex>"; _bSqrtExponentElement, _ = new(big.Int).SetString(sqrtExponentElement, 16)
	var hexs string
	for _, d := range f.Decls {
		if ifd, ok := d.(*ast.FuncDecl); ok && ifd.Name.Name == "init" {
			if v, ok := localInits(ifd.Body)["sqrtExponentElement"]; ok {
				hexs = strings.Trim(v, "\"")
			}
		}
	}
	e, ok2 := new(big.Int).SetString(hexs, 16)
	if hexs == "" || !ok2 {
		die("frsqrt: the Sqrt exponent literal was not found")
	}
	t := &codecTr{sb: &strings.Builder{}, fn: "Sqrt", kind: map[string]string{"t": "elem"}, ret: "bool"}
	sb := &strings.Builder{}
	sb.WriteString("namespace FrSqrtGo\nopen GoIpa GoIpa.Limbs GoIpa.Gen.FrCodec GoIpa.Gen.FrMisc\n\n")
	fmt.Fprintf(sb, "/-- `_bSqrtExponentElement` -/\ndef sqrtExponent : Int := %s\n\n", e.String())
	fmt.Fprintf(sb, "/-- the hard-coded `g` (Montgomery limbs) and the initial `r` -/\ndef sqrtG : L4 := ⟨%s⟩\ndef sqrtR0 : Nat := 5\n\n", strings.Join(g, ", "))
	sb.WriteString("/-- the prologue: `w = x^e; y = x·w; b = w·y` — returns (y, b) -/\ndef go_sqrtInit (x : L4) : L4 × L4 :=\n  let w : L4 := ⟨0, 0, 0, 0⟩\n  let w := go_Exp w x sqrtExponent\n  let y := mulG x w\n  let b := mulG w y\n  (y, b)\n\n")
	fmt.Fprintf(sb, "/-- the test `t == 1` (Montgomery form), limb by limb -/\ndef go_sqrtIsOne (t : L4) : Bool :=\n  decide %s\n\n", t.ex(neg.X))
	sb.WriteString("/-- the tail of the main loop: `g = t²; y = y·t; b = b·g` — returns (g, y, b) -/\ndef go_sqrtStep (y b t : L4) : L4 × L4 × L4 :=\n  let g := mulG t t\n  let y := mulG y t\n  let b := mulG b g\n  (g, y, b)\n\nend FrSqrtGo\n")
	write("FrSqrtGo.lean", "import GoIpa.Gen.FrMisc\n", sb.String())
}
