// loops.go: translates the scalar-field "loop code" of the repository — functions that fill and
// read slices of field elements with counting loops, `continue`, early returns and calls of each
// other (ipa/barycentric.go, fr.BatchInvert, the vector helpers of ipa/config.go,
// common.PowersOf) — into Lean, statement by statement.
//
//   * a Go variable becomes a Lean `let` (shadowing gives the successive values);
//   * `[]fr.Element` / `[]bool` become `List K` / `List Bool`, read with `Loop.get`, written with
//     `Loop.set` (an out-of-range write is a no-op, an out-of-range read the zero value: the Go
//     code would panic there, the tie theorems are stated for in-range arguments);
//   * every integer type becomes `Int` (all integer values in these functions are below 2^10; Go's
//     fixed-width wrap-around is NOT modelled here — it is in limbs.go/selector.go where it matters);
//   * `for i := lo; i < hi; i++` becomes `Loop.forUp lo hi state (fun i state => body)` over the
//     tuple of outer variables the body assigns; `for i := hi; i >= lo; i--` becomes `Loop.forDown`;
//   * `continue`, `return` and `panic` are translated in continuation style (the branch ends
//     there), other `if`s join the assigned variables;
//   * a function with an `error` result returns `Option`: `return x, nil` is `some x`, an error
//     return is `none`;  `panic` is the zero value of the result type (the callers never reach it).
//
// Unknown shapes are refused (exit 1).
package main

import (
	"fmt"
	"go/ast"
	"go/token"
	"path/filepath"
	"sort"
	"strings"
)

type lty int

const (
	tK lty = iota
	tListK
	tListBool
	tInt
	tBool
	tG     // group element (abstract)
	tListG // slice of group elements
	tTr    // Fiat-Shamir transcript
	tBytes // a label
	tListInt
	tListListK
	tProof // an IPAProof value: (L, R, A_scalar)
	tListListG // list of lists of group elements
	tBig   // a big.Int holding the regular (non-Montgomery) integer value of a field element
)

func (t lty) lean() string {
	if l, ok := elemLean(t); ok {
		return l
	}
	switch t {
	case tK:
		return "K"
	case tListK:
		return "List K"
	case tListBool:
		return "List Bool"
	case tInt:
		return "Int"
	case tBool:
		return "Bool"
	case tG:
		return "G"
	case tListG:
		return "List G"
	case tTr:
		return "Tr"
	case tBytes:
		return "Bytes"
	case tListInt:
		return "List Int"
	case tListListK:
		return "List (List K)"
	case tProof:
		return "(List G × List G × K)"
	case tBig:
		return "Nat"
	case tListListG:
		return "List (List G)"
	}
	return "?"
}

func (t lty) zero() string {
	if z, ok := elemZero(t); ok {
		return z
	}
	switch t {
	case tK, tG:
		return "0"
	case tListK, tListBool, tListG, tListInt, tListListK, tListListG:
		return "[]"
	case tInt, tBig:
		return "0"
	case tBool:
		return "false"
	}
	return "?"
}

type loopFn struct {
	name    string // Lean name
	params  []string
	ptypes  []lty
	results []lty
	option  bool   // last Go result is `error`
	recv    string // receiver name ("" if none); receiver fields become leading params
	proto   bool   // protocol function: leading parameters enc, bvec, multiScalar
	hasTr   bool   // takes (and mutates) the transcript: it is returned as the last component
	flat    []int  // for each Go parameter, how many Lean parameters it was flattened into
	structBase []string // for each Go parameter, its name (prefix of the flattened Lean names)
	retVar  string // element mode: the variable whose final value is the result ("" if none)
	nilable bool   // element mode: the Go function returns a pointer that may be nil (Option)
}

// struct parameters are flattened into their fields
var structFields = map[string][][2]string{
	"*IPAConfig": {{"Q", "G"}, {"SRS", "ListG"}, {"numRounds", "Int"}},
	"IPAProof":   {{"L", "ListG"}, {"R", "ListG"}, {"A_scalar", "K"}},
	"*IPAProof":  {{"L", "ListG"}, {"R", "ListG"}, {"A_scalar", "K"}},
	"*ipa.IPAConfig": {{"Q", "G"}, {"SRS", "ListG"}, {"numRounds", "Int"}},
	"*MultiProof": {{"IPAL", "ListG"}, {"IPAR", "ListG"}, {"IPAA_scalar", "K"}, {"D", "G"}},
}

func fieldTy(s string) lty {
	return map[string]lty{"G": tG, "ListG": tListG, "Int": tInt, "K": tK}[s]
}

const protoParams = "(enc : Enc K G) (bvec : K → List K) (multiScalar : List G → List K → Option G)"
const protoArgs = "enc bvec multiScalar"

// further abstract parameters of single functions
var extraParams = map[string]string{
	"computeBVector": "(val : K → Nat) (wBary wInvDom : List K)",
	"CreateMultiProof": "(normalize : List G → Option (List G)) (commitFn : List K → G) (groupFn : List (List K) → List K → List Int → List (List K)) (wBary wInvDom : List K)",
}

type loopTr struct {
	fns    map[string]*loopFn // Go name -> signature (helpers already translated)
	consts map[string]string  // integer constants
	vars   map[string]lty
	cur    *loopFn
	sb     *strings.Builder
	fields []string // receiver fields, in order
	labels map[string]bool
	tmpN   int
	optLoop int // nesting depth of loops that can be left by an error return
	labelPrefix string
	preVars map[string]lty // variables in scope at function entry besides the parameters
	globals map[string]lty // package-level variables emitted as Lean definitions
	elem    bool           // element mode (elements.go)
	heap    bool           // element mode on a heap of points (BatchNormalize)
	msm     bool           // bucket-method mode (msmchunk.go)
	u64     map[string]bool // recode mode: integer variables declared `uint64` (their shifts wrap at 64 bits)
	curIV   string         // innermost loop variable
	recv    func(iv string) string // translation of a channel receive inside the loop over `iv`
	recvTy  lty
}

func goType(e ast.Expr) (lty, bool) {
	switch exprStr(e) {
	case "fr.Element", "Element":
		return tK, true
	case "[]fr.Element", "[]Element":
		return tListK, true
	case "[]bool":
		return tListBool, true
	case "int", "uint64", "uint8", "uint32", "uint":
		return tInt, true
	case "bool":
		return tBool, true
	case "banderwagon.Element":
		return tG, true
	case "[]banderwagon.Element", "[]*banderwagon.Element":
		return tListG, true
	case "[]*fr.Element":
		return tListK, true
	case "[]uint8":
		return tListInt, true
	case "[][]fr.Element", "[common.VectorLength][]fr.Element":
		return tListListK, true
	case "*common.Transcript":
		return tTr, true
	case "big.Int":
		return tBig, true
	case "PointProj", "*PointProj":
		return tG, true
	case "[]PointProj", "[]PointAffine", "[]bandersnatch.PointExtended", "[]bandersnatch.PointExtendedNormalized":
		return tListG, true
	case "windowsT", "[][]bandersnatch.PointExtended", "[][]bandersnatch.PointExtendedNormalized":
		return tListListG, true
	}
	return 0, false
}

func (t *loopTr) typeOf(e ast.Expr) lty {
	if t.elem {
		if ty, ok := t.elemType(e); ok {
			return ty
		}
	}
	switch x := e.(type) {
	case *ast.ParenExpr:
		return t.typeOf(x.X)
	case *ast.UnaryExpr:
		if x.Op == token.AND {
			return t.typeOf(x.X)
		}
		if x.Op == token.NOT {
			return tBool
		}
		if x.Op == token.ARROW {
			if t.recv == nil {
				die("loops: %s: channel receive outside a goroutine translation", t.cur.name)
			}
			return t.recvTy
		}
		return t.typeOf(x.X)
	case *ast.StarExpr:
		return t.typeOf(x.X)
	case *ast.BasicLit:
		return tInt
	case *ast.Ident:
		if x.Name == "true" || x.Name == "false" {
			return tBool
		}
		if t.msm && x.Name == "Identity" {
			return tG
		}
		if t.labels[t.labelPrefix+x.Name] {
			return tBytes
		}
		if _, ok := t.consts[x.Name]; ok {
			return tInt
		}
		if ty, ok := t.vars[x.Name]; ok {
			return ty
		}
		die("loops: %s: unknown identifier %s", t.cur.name, x.Name)
	case *ast.SelectorExpr:
		s := exprStr(x)
		if t.cur.recv != "" && strings.HasPrefix(s, t.cur.recv+".") {
			return tListK
		}
		if ty, ok := t.vars[strings.ReplaceAll(s, ".", "")]; ok {
			return ty
		}
		if _, ok := t.consts[x.Sel.Name]; ok {
			return tInt
		}
		die("loops: %s: unknown selector %s", t.cur.name, s)
	case *ast.CompositeLit:
		if ty, ok := goType(x.Type); ok {
			return ty
		}
		die("loops: %s: unsupported composite literal %s", t.cur.name, exprStr(x.Type))
	case *ast.IndexExpr:
		switch t.typeOf(x.X) {
		case tListK:
			return tK
		case tListBool:
			return tBool
		case tListG:
			return tG
		case tListInt:
			return tInt
		case tListListK:
			return tListK
		case tListListG:
			return tListG
		}
		die("loops: %s: index into non-slice %s", t.cur.name, exprStr(x))
	case *ast.SliceExpr:
		return t.typeOf(x.X)
	case *ast.BinaryExpr:
		switch x.Op {
		case token.LSS, token.GTR, token.LEQ, token.GEQ, token.EQL, token.NEQ, token.LAND, token.LOR:
			return tBool
		}
		return tInt
	case *ast.CallExpr:
		fn := exprStr(x.Fun)
		switch fn {
		case "fr.One", "One", "fr.Zero", "Zero":
			return tK
		case "len", "int", "uint64", "uint8", "uint32", "digit", "bestC":
			return tInt
		case "batchToExtendedPointNormalized":
			return tListG
		case "ppScalarMul":
			return tG
		case "fr.BatchInvert", "BatchInvert", "computeBVector":
			return tListK
		case "append":
			return t.typeOf(x.Args[0])
		case "groupPolynomialsByEvaluationPoint":
			return tListListK
		}
		if strings.HasSuffix(fn, ".PrecomputedWeights.DivideOnDomain") {
			return tListK
		}
		if strings.HasSuffix(fn, ".Commit") && len(x.Args) == 1 {
			return tG
		}
		if strings.HasSuffix(fn, ".PrecomputedWeights.ComputeBarycentricCoefficients") {
			return tListK
		}
		if sel, ok := x.Fun.(*ast.SelectorExpr); ok && (sel.Sel.Name == "IsZero" || sel.Sel.Name == "Equal") {
			return tBool
		}
		if f := t.lookupFn(fn); f != nil && len(f.results) == 1 && !f.option {
			return f.results[0]
		}
		die("loops: %s: unsupported call %s", t.cur.name, fn)
	}
	die("loops: %s: cannot type %s", t.cur.name, exprStr(e))
	return 0
}

func (t *loopTr) lookupFn(goName string) *loopFn {
	if i := strings.LastIndex(goName, "."); i >= 0 {
		goName = goName[i+1:]
	}
	return t.fns[goName]
}

// integer expression
func (t *loopTr) intExpr(e ast.Expr) string {
	if t.elem {
		if v, ok := t.elemInt(e); ok {
			return v
		}
	}
	switch x := e.(type) {
	case *ast.ParenExpr:
		return "(" + t.intExpr(x.X) + ")"
	case *ast.BasicLit:
		return "(" + x.Value + " : Int)"
	case *ast.Ident:
		if v, ok := t.consts[x.Name]; ok {
			return "(" + v + " : Int)"
		}
		if t.vars[x.Name] != tInt {
			die("loops: %s: %s is not an integer", t.cur.name, x.Name)
		}
		return x.Name
	case *ast.SelectorExpr:
		n := strings.ReplaceAll(exprStr(x), ".", "")
		if t.vars[n] == tInt {
			return n
		}
		if v, ok := t.consts[x.Sel.Name]; ok {
			return "(" + v + " : Int)"
		}
	case *ast.IndexExpr:
		if t.typeOf(x.X) == tListInt {
			return "(Loop.get " + t.valExpr(x.X) + " " + t.intExpr(x.Index) + " 0)"
		}
	case *ast.UnaryExpr:
		if x.Op == token.SUB {
			return "(-" + t.intExpr(x.X) + ")"
		}
	case *ast.BinaryExpr:
		op := map[token.Token]string{token.ADD: "+", token.SUB: "-", token.MUL: "*", token.QUO: "/", token.REM: "%"}[x.Op]
		if op != "" {
			return "(" + t.intExpr(x.X) + " " + op + " " + t.intExpr(x.Y) + ")"
		}
		if x.Op == token.AND {
			if u, ok := x.Y.(*ast.UnaryExpr); ok && u.Op == token.XOR {
				return "(Loop.bandNot " + t.intExpr(x.X) + " " + t.intExpr(u.X) + ")"
			}
			return "(Loop.band " + t.intExpr(x.X) + " " + t.intExpr(x.Y) + ")"
		}
		if x.Op == token.AND_NOT {
			return "(Loop.bandNot " + t.intExpr(x.X) + " " + t.intExpr(x.Y) + ")"
		}
		if x.Op == token.SHL {
			if id, ok := x.X.(*ast.Ident); ok && t.u64 != nil && t.u64[id.Name] {
				return "(Loop.shl64 " + t.intExpr(x.X) + " " + t.intExpr(x.Y) + ")"
			}
			return "(Loop.shl " + t.intExpr(x.X) + " " + t.intExpr(x.Y) + ")"
		}
		if x.Op == token.SHR {
			return "(Loop.shr " + t.intExpr(x.X) + " " + t.intExpr(x.Y) + ")"
		}
		if x.Op == token.OR {
			return "(Loop.bor " + t.intExpr(x.X) + " " + t.intExpr(x.Y) + ")"
		}
	case *ast.CallExpr:
		switch exprStr(x.Fun) {
		case "int", "uint64", "uint8", "uint32":
			return t.intExpr(x.Args[0])
		case "digit":
			if !t.msm {
				die("loops: digit() outside bucket-method mode")
			}
			return "(digit " + t.intExpr(x.Args[0]) + ")"
		case "bestC":
			if !t.msm {
				die("loops: bestC() outside bucket-method mode")
			}
			return "(bestC " + t.intExpr(x.Args[0]) + ")"
		case "len":
			return "(((" + t.valExpr(x.Args[0]) + ").length : Nat) : Int)"
		}
		if sel, ok := x.Fun.(*ast.SelectorExpr); ok && sel.Sel.Name == "Uint64" && len(x.Args) == 0 {
			if id, ok := sel.X.(*ast.Ident); ok && t.vars[id.Name] == tBig {
				return "(((" + id.Name + " % 18446744073709551616 : Nat)) : Int)"
			}
		}
		if f := t.lookupFn(exprStr(x.Fun)); f != nil && len(f.results) == 1 && f.results[0] == tInt {
			return t.callExpr(x)
		}
	}
	die("loops: %s: unsupported integer expression %s", t.cur.name, exprStr(e))
	return ""
}

// condition as a Lean Prop
func (t *loopTr) condExpr(e ast.Expr) string {
	if t.elem {
		if v, ok := t.elemCond(e); ok {
			return v
		}
	}
	switch x := e.(type) {
	case *ast.ParenExpr:
		return "(" + t.condExpr(x.X) + ")"
	case *ast.Ident:
		if t.vars[x.Name] == tBool {
			return "(" + x.Name + " = true)"
		}
	case *ast.IndexExpr:
		if t.typeOf(x) == tBool {
			return "(" + t.valExpr(x) + " = true)"
		}
	case *ast.UnaryExpr:
		if x.Op == token.NOT {
			return "(¬ " + t.condExpr(x.X) + ")"
		}
	case *ast.BinaryExpr:
		op := map[token.Token]string{token.LSS: "<", token.GTR: ">", token.LEQ: "≤", token.GEQ: "≥", token.EQL: "=", token.NEQ: "≠"}[x.Op]
		if (x.Op == token.EQL || x.Op == token.NEQ) && exprStr(x.Y) == "nil" {
			// a nil slice is the empty list (the translated functions never build an empty non-nil slice)
			switch t.typeOf(x.X) {
			case tListK, tListG, tListBool, tListInt, tListListK:
				return "(" + t.valExpr(x.X) + " " + op + " [])"
			}
			die("loops: %s: comparison of a non-slice with nil", t.cur.name)
		}
		if c, ok := x.X.(*ast.CallExpr); ok && op != "" && exprStr(x.Y) == "0" {
			// `a.Cmp(&b) OP 0` on field elements compares their regular integer values
			if sel, ok := c.Fun.(*ast.SelectorExpr); ok && sel.Sel.Name == "Cmp" && len(c.Args) == 1 && t.typeOf(sel.X) == tK && t.typeOf(c.Args[0]) == tK {
				return "(val " + t.valExpr(sel.X) + " " + op + " val " + t.valExpr(c.Args[0]) + ")"
			}
		}
		if op != "" {
			return "(" + t.intExpr(x.X) + " " + op + " " + t.intExpr(x.Y) + ")"
		}
		if x.Op == token.LAND {
			return "(" + t.condExpr(x.X) + " ∧ " + t.condExpr(x.Y) + ")"
		}
		if x.Op == token.LOR {
			return "(" + t.condExpr(x.X) + " ∨ " + t.condExpr(x.Y) + ")"
		}
	case *ast.CallExpr:
		if sel, ok := x.Fun.(*ast.SelectorExpr); ok && sel.Sel.Name == "IsZero" && len(x.Args) == 0 {
			return "(" + t.valExpr(sel.X) + " = 0)"
		}
		if sel, ok := x.Fun.(*ast.SelectorExpr); ok && sel.Sel.Name == "Equal" && len(x.Args) == 1 && t.typeOf(sel.X) == tG {
			return "(enc.eqG " + t.valExpr(sel.X) + " " + t.valExpr(x.Args[0]) + " = true)"
		}
	}
	die("loops: %s: unsupported condition %s", t.cur.name, exprStr(e))
	return ""
}

func (t *loopTr) callExpr(c *ast.CallExpr) string {
	fn := exprStr(c.Fun)
	f := t.lookupFn(fn)
	if f == nil {
		die("loops: %s: call of untranslated function %s", t.cur.name, fn)
	}
	var args []string
	if f.recv != "" {
		sel, ok := c.Fun.(*ast.SelectorExpr)
		if !ok {
			die("loops: method %s called without receiver", fn)
		}
		r := exprStr(sel.X)
		if r != t.cur.recv {
			die("loops: %s: method %s called on %s", t.cur.name, fn, r)
		}
		args = append(args, t.fields...)
	}
	if f.proto {
		args = append(args, protoArgs)
	}
	if f.flat == nil {
		if len(c.Args) != len(f.params) {
			die("loops: %s: arity of %s", t.cur.name, fn)
		}
		for i, a := range c.Args {
			if f.ptypes[i] == tInt {
				args = append(args, t.intExpr(a))
			} else {
				args = append(args, t.valExpr(a))
			}
		}
		return "(" + f.name + " " + strings.Join(args, " ") + ")"
	}
	if len(c.Args) != len(f.flat) {
		die("loops: %s: arity of %s", t.cur.name, fn)
	}
	pi := 0
	for i, a := range c.Args {
		if f.flat[i] == 1 {
			if f.ptypes[pi] == tInt {
				args = append(args, t.intExpr(a))
			} else {
				args = append(args, t.valExpr(a))
			}
			pi++
			continue
		}
		// a struct argument: pass the flattened fields of the caller's variable of the same shape
		if u, ok := a.(*ast.UnaryExpr); ok && u.Op == token.AND {
			a = u.X
		}
		base := strings.ReplaceAll(exprStr(a), ".", "")
		for k := 0; k < f.flat[i]; k++ {
			suffix := strings.TrimPrefix(f.params[pi], f.structBase[i])
			args = append(args, base+suffix)
			pi++
		}
	}
	return "(" + f.name + " " + strings.Join(args, " ") + ")"
}

// value expression of any non-integer type (integers are delegated)
func (t *loopTr) valExpr(e ast.Expr) string {
	if t.elem {
		if v, ok := t.elemVal(e); ok {
			return v
		}
	}
	switch x := e.(type) {
	case *ast.ParenExpr:
		return t.valExpr(x.X)
	case *ast.UnaryExpr:
		if x.Op == token.AND {
			return t.valExpr(x.X)
		}
		if x.Op == token.NOT {
			return "(decide " + t.condExpr(e) + ")"
		}
		if x.Op == token.ARROW {
			if t.recv == nil || t.curIV == "" {
				die("loops: %s: channel receive outside a goroutine translation", t.cur.name)
			}
			return t.recv(t.curIV)
		}
	case *ast.StarExpr:
		return t.valExpr(x.X)
	case *ast.Ident:
		if x.Name == "true" || x.Name == "false" {
			return x.Name
		}
		if t.msm && x.Name == "Identity" {
			return "(0 : G)"
		}
		if t.labels[t.labelPrefix+x.Name] {
			return t.labelPrefix + x.Name
		}
		if ty, ok := t.vars[x.Name]; ok {
			if ty == tInt {
				return t.intExpr(e)
			}
			return x.Name
		}
		if _, ok := t.consts[x.Name]; ok {
			return t.intExpr(e)
		}
	case *ast.BasicLit:
		return t.intExpr(e)
	case *ast.SelectorExpr:
		s := exprStr(x)
		if t.cur.recv != "" && strings.HasPrefix(s, t.cur.recv+".") {
			f := strings.TrimPrefix(s, t.cur.recv+".")
			for _, k := range t.fields {
				if k == f {
					return f
				}
			}
		}
		if n := strings.ReplaceAll(s, ".", ""); true {
			if ty, ok := t.vars[n]; ok {
				if ty == tInt {
					return t.intExpr(e)
				}
				return n
			}
		}
	case *ast.CompositeLit:
		ty, ok := goType(x.Type)
		if !ok || (ty != tListK && ty != tListG) {
			die("loops: %s: unsupported composite literal", t.cur.name)
		}
		var els []string
		for _, el := range x.Elts {
			els = append(els, t.valExpr(el))
		}
		return "([" + strings.Join(els, ", ") + "] : " + ty.lean() + ")"
	case *ast.IndexExpr:
		if t.typeOf(x.X) == tListInt {
			return t.intExpr(e)
		}
		base := t.valExpr(x.X)
		return "(Loop.get " + base + " " + t.intExpr(x.Index) + " " + t.typeOf(e).zero() + ")"
	case *ast.SliceExpr:
		base := t.valExpr(x.X)
		if x.Low == nil && x.High != nil {
			return "(Loop.take " + base + " " + t.intExpr(x.High) + ")"
		}
		if x.Low != nil && x.High == nil {
			return "(Loop.drop " + base + " " + t.intExpr(x.Low) + ")"
		}
	case *ast.BinaryExpr:
		if t.typeOf(e) == tBool {
			return "(decide " + t.condExpr(e) + ")"
		}
		return t.intExpr(e)
	case *ast.CallExpr:
		switch exprStr(x.Fun) {
		case "fr.One", "One":
			return "(1 : K)"
		case "fr.Zero", "Zero":
			return "(0 : K)"
		case "fr.BatchInvert", "BatchInvert":
			if t.lookupFn("BatchInvert") == nil {
				die("loops: BatchInvert used before it is translated")
			}
			return "(" + t.lookupFn("BatchInvert").name + " " + t.valExpr(x.Args[0]) + ")"
		case "int", "uint64", "uint8", "uint32", "len", "digit", "bestC":
			return t.intExpr(e)
		case "batchToExtendedPointNormalized":
			return "(normalize " + t.valExpr(x.Args[0]) + ")"
		case "ppScalarMul":
			return "(ppScalarMul " + t.intExpr(x.Args[0]) + " " + t.valExpr(x.Args[1]) + " " + t.valExpr(x.Args[2]) + ")"
		case "computeBVector":
			return "(bvec " + t.valExpr(x.Args[1]) + ")"
		case "append":
			if len(x.Args) != 2 {
				die("loops: %s: unsupported append", t.cur.name)
			}
			return "(" + t.valExpr(x.Args[0]) + " ++ [" + t.valExpr(x.Args[1]) + "])"
		case "groupPolynomialsByEvaluationPoint":
			return "(groupFn " + t.valExpr(x.Args[0]) + " " + t.valExpr(x.Args[1]) + " " + t.valExpr(x.Args[2]) + ")"
		}
		if fn := exprStr(x.Fun); strings.HasSuffix(fn, ".PrecomputedWeights.DivideOnDomain") {
			d := t.lookupFn("DivideOnDomain")
			if d == nil {
				die("loops: DivideOnDomain used before it is translated")
			}
			return "(" + d.name + " wBary wInvDom " + t.intExpr(x.Args[0]) + " " + t.valExpr(x.Args[1]) + ")"
		} else if strings.HasSuffix(fn, ".Commit") && len(x.Args) == 1 {
			return "(commitFn " + t.valExpr(x.Args[0]) + ")"
		} else if strings.HasSuffix(fn, ".PrecomputedWeights.ComputeBarycentricCoefficients") && len(x.Args) == 1 {
			d := t.lookupFn("ComputeBarycentricCoefficients")
			if d == nil {
				die("loops: ComputeBarycentricCoefficients used before it is translated")
			}
			return "(" + d.name + " wBary wInvDom " + t.valExpr(x.Args[0]) + ")"
		}
		if sel, ok := x.Fun.(*ast.SelectorExpr); ok && (sel.Sel.Name == "IsZero" || sel.Sel.Name == "Equal") {
			return "(decide " + t.condExpr(e) + ")"
		}
		return t.callExpr(x)
	}
	die("loops: %s: unsupported expression %s", t.cur.name, exprStr(e))
	return ""
}

// names assigned in a statement list (receivers of methods, lhs of assignments), excluding
// names declared inside it
func (t *loopTr) assigned(stmts []ast.Stmt) []string {
	seen := map[string]bool{}
	declared := map[string]bool{}
	var order []string
	add := func(n string) {
		if t.heap && n == "dedupedElements" {
			n = "heap"
		}
		if !seen[n] && !declared[n] {
			seen[n] = true
			order = append(order, n)
		}
	}
	base := func(e ast.Expr) string {
		for {
			switch x := e.(type) {
			case *ast.IndexExpr:
				e = x.X
			case *ast.UnaryExpr:
				e = x.X
			case *ast.ParenExpr:
				e = x.X
			case *ast.StarExpr:
				e = x.X
			case *ast.SliceExpr:
				if !t.elem {
					return ""
				}
				e = x.X
			case *ast.SelectorExpr:
				if !t.elem {
					return ""
				}
				e = x.X
			case *ast.Ident:
				return x.Name
			default:
				return ""
			}
		}
	}
	var walk func(ss []ast.Stmt)
	walk = func(ss []ast.Stmt) {
		for _, s := range ss {
			switch x := s.(type) {
			case *ast.DeclStmt:
				for _, sp := range x.Decl.(*ast.GenDecl).Specs {
					for _, n := range sp.(*ast.ValueSpec).Names {
						declared[n.Name] = true
					}
				}
			case *ast.AssignStmt:
				for _, r := range x.Rhs {
					ast.Inspect(r, func(n ast.Node) bool {
						if c, ok := n.(*ast.CallExpr); ok {
							if sel, ok := c.Fun.(*ast.SelectorExpr); ok && sel.Sel.Name == "ChallengeScalar" {
								if n := base(sel.X); n != "" {
									add(n)
								}
							}
							if f := t.lookupFn(exprStr(c.Fun)); f != nil && f.hasTr {
								add("transcript")
							}
						}
						return true
					})
				}
				for _, l := range x.Lhs {
					if x.Tok == token.DEFINE {
						if id, ok := l.(*ast.Ident); ok {
							declared[id.Name] = true
							continue
						}
					}
					if n := base(l); n != "" && n != "_" && n != "err" {
						add(n)
					}
				}
			case *ast.ExprStmt:
				if c, ok := x.X.(*ast.CallExpr); ok {
					if t.elem {
						if exprStr(c.Fun) == "copy" && len(c.Args) == 2 {
							if n := base(c.Args[0]); n != "" {
								add(n)
							}
						} else if sel, ok := c.Fun.(*ast.SelectorExpr); ok {
							if n := base(sel.X); n != "" {
								add(n)
							}
							if sel.Sel.Name == "ToBigIntRegular" && len(c.Args) == 1 {
								if n := base(c.Args[0]); n != "" {
									add(n)
								}
							}
						}
					}
					if sel, ok := c.Fun.(*ast.SelectorExpr); ok {
						_, isMethod := fieldMethods[sel.Sel.Name]
						if isMethod || sel.Sel.Name == "DomainSep" || sel.Sel.Name == "AppendPoint" || sel.Sel.Name == "AppendScalar" {
							if n := base(sel.X); n != "" {
								add(n)
							}
						}
					}
				}
			case *ast.IfStmt:
				walk(x.Body.List)
				if x.Else != nil {
					if b, ok := x.Else.(*ast.BlockStmt); ok {
						walk(b.List)
					}
				}
			case *ast.ForStmt:
				walk(x.Body.List)
			case *ast.RangeStmt:
				if id, ok := x.Key.(*ast.Ident); ok {
					declared[id.Name] = true
				}
				if id, ok := x.Value.(*ast.Ident); ok {
					declared[id.Name] = true
				}
				walk(x.Body.List)
			case *ast.IncDecStmt:
				if n := base(x.X); n != "" {
					add(n)
				}
			case *ast.BlockStmt:
				walk(x.List)
			}
		}
	}
	walk(stmts)
	return order
}

var fieldMethods = map[string]int{"Mul": 2, "Add": 2, "Sub": 2, "Inverse": 1, "SetUint64": 1, "Set": 1, "Neg": 1, "SetOne": 0, "SetZero": 0, "Square": 1, "Double": 1, "ScalarMul": 2, "SetIdentity": 0, "FromAffine": 1}

func hasJump(stmts []ast.Stmt) bool {
	found := false
	for _, s := range stmts {
		ast.Inspect(s, func(n ast.Node) bool {
			switch x := n.(type) {
			case *ast.BranchStmt, *ast.ReturnStmt:
				found = true
			case *ast.CallExpr:
				if exprStr(x.Fun) == "panic" {
					found = true
				}
			case *ast.ForStmt:
				return false // a continue inside a nested loop belongs to it
			}
			return true
		})
	}
	return found
}

// assign value v to the lvalue e
func (t *loopTr) assign(ind string, lhs ast.Expr, v string, define bool, vty lty) {
	if t.elem && t.elemAssign(ind, lhs, v) {
		return
	}
	switch x := lhs.(type) {
	case *ast.Ident:
		if x.Name == "_" {
			return
		}
		if define {
			t.vars[x.Name] = vty
		}
		ty, ok := t.vars[x.Name]
		if !ok {
			die("loops: %s: assignment to unknown %s", t.cur.name, x.Name)
		}
		fmt.Fprintf(t.sb, "%slet %s : %s := %s\n", ind, x.Name, ty.lean(), v)
	case *ast.IndexExpr:
		if in, ok := x.X.(*ast.IndexExpr); ok {
			// `a[i][j] = v`  ==  `a[i] = (a[i] with [j] = v)`
			b, ok := in.X.(*ast.Ident)
			if !ok || (t.vars[b.Name] != tListListK && t.vars[b.Name] != tListListG) {
				die("loops: %s: unsupported lvalue %s", t.cur.name, exprStr(lhs))
			}
			row := "(Loop.get " + b.Name + " " + t.intExpr(in.Index) + " [])"
			fmt.Fprintf(t.sb, "%slet %s : %s := Loop.set %s %s (Loop.set %s %s (%s))\n", ind, b.Name, t.vars[b.Name].lean(), b.Name, t.intExpr(in.Index), row, t.intExpr(x.Index), v)
			return
		}
		b, ok := x.X.(*ast.Ident)
		if !ok {
			die("loops: %s: unsupported lvalue %s", t.cur.name, exprStr(lhs))
		}
		fmt.Fprintf(t.sb, "%slet %s : %s := Loop.set %s %s (%s)\n", ind, b.Name, t.vars[b.Name].lean(), b.Name, t.intExpr(x.Index), v)
	case *ast.UnaryExpr, *ast.ParenExpr, *ast.StarExpr:
		var inner ast.Expr
		switch y := lhs.(type) {
		case *ast.UnaryExpr:
			inner = y.X
		case *ast.ParenExpr:
			inner = y.X
		case *ast.StarExpr:
			inner = y.X
		}
		t.assign(ind, inner, v, define, vty)
	default:
		die("loops: %s: unsupported lvalue %s", t.cur.name, exprStr(lhs))
	}
}

// translate stmts followed by the continuation text `k` (a Lean term for "what the enclosing
// construct yields when control falls off the end"); `brk` is what `continue` yields.
func (t *loopTr) block(ind string, stmts []ast.Stmt, k string, cont string) {
	for i, s := range stmts {
		rest := stmts[i+1:]
		if t.elem {
			if handled, done := t.elemStmt(ind, s, rest, k, cont); handled {
				if done {
					return
				}
				continue
			}
		}
		switch x := s.(type) {
		case *ast.DeclStmt:
			for _, sp := range x.Decl.(*ast.GenDecl).Specs {
				vs := sp.(*ast.ValueSpec)
				for j, n := range vs.Names {
					if len(vs.Values) > j {
						ty := t.typeOf(vs.Values[j])
						v := t.valExpr(vs.Values[j])
						t.vars[n.Name] = ty
						fmt.Fprintf(t.sb, "%slet %s : %s := %s\n", ind, n.Name, ty.lean(), v)
						continue
					}
					if exprStr(vs.Type) == "error" {
						continue
					}
					ty, ok := goType(vs.Type)
					if !ok {
						die("loops: %s: unsupported declaration %s", t.cur.name, exprStr(vs.Type))
					}
					t.vars[n.Name] = ty
					if t.u64 != nil && exprStr(vs.Type) == "uint64" {
						t.u64[n.Name] = true
					}
					zero := ty.zero()
					if at, ok := vs.Type.(*ast.ArrayType); ok && at.Len != nil {
						// the zero value of an array has its full length
						ety, ok := goType(at.Elt)
						if !ok {
							die("loops: %s: unsupported array element %s", t.cur.name, exprStr(at.Elt))
						}
						zero = "List.replicate (" + t.intExpr(at.Len) + ").toNat (" + ety.zero() + " : " + ety.lean() + ")"
					}
					fmt.Fprintf(t.sb, "%slet %s : %s := %s\n", ind, n.Name, ty.lean(), zero)
				}
			}
		case *ast.AssignStmt:
			define := x.Tok == token.DEFINE
			if t.msm && len(x.Lhs) == 1 && (x.Tok == token.MUL_ASSIGN || x.Tok == token.SHL_ASSIGN || x.Tok == token.SHR_ASSIGN) {
				id, ok := x.Lhs[0].(*ast.Ident)
				if !ok || t.vars[id.Name] != tInt {
					die("loops: %s: compound assignment on a non-integer", t.cur.name)
				}
				var v string
				switch x.Tok {
				case token.MUL_ASSIGN:
					v = id.Name + " * " + t.intExpr(x.Rhs[0])
				case token.SHL_ASSIGN:
					v = "Loop.shl " + id.Name + " " + t.intExpr(x.Rhs[0])
				case token.SHR_ASSIGN:
					v = "Loop.shr " + id.Name + " " + t.intExpr(x.Rhs[0])
				}
				fmt.Fprintf(t.sb, "%slet %s : Int := %s\n", ind, id.Name, v)
				continue
			}
			if (x.Tok == token.ADD_ASSIGN || x.Tok == token.SUB_ASSIGN) && len(x.Lhs) == 1 {
				id, ok := x.Lhs[0].(*ast.Ident)
				if !ok || t.vars[id.Name] != tInt {
					die("loops: %s: += / -= on a non-integer", t.cur.name)
				}
				op := "+"
				if x.Tok == token.SUB_ASSIGN {
					op = "-"
				}
				fmt.Fprintf(t.sb, "%slet %s : Int := %s %s %s\n", ind, id.Name, id.Name, op, t.intExpr(x.Rhs[0]))
				continue
			}
			if x.Tok == token.OR_ASSIGN && len(x.Lhs) == 1 && t.msm {
				ix, ok := x.Lhs[0].(*ast.IndexExpr)
				if !ok || t.typeOf(ix.X) != tListInt {
					die("loops: %s: unsupported |= target", t.cur.name)
				}
				cur := "(Loop.get " + t.valExpr(ix.X) + " " + t.intExpr(ix.Index) + " 0)"
				t.assign(ind, x.Lhs[0], "Loop.bor "+cur+" "+t.intExpr(x.Rhs[0]), false, tInt)
				continue
			}
			if x.Tok != token.DEFINE && x.Tok != token.ASSIGN {
				die("loops: %s: unsupported assignment operator in %s", t.cur.name, exprStr(x.Lhs[0]))
			}
			// `x, err := f(...)` followed by `if err != nil { return ... }`: a bind in the Option monad
			if len(x.Rhs) == 1 && len(x.Lhs) >= 2 && exprStr(x.Lhs[len(x.Lhs)-1]) == "err" {
				c, ok := x.Rhs[0].(*ast.CallExpr)
				if !ok {
					die("loops: %s: unsupported error-returning expression", t.cur.name)
				}
				fnName := exprStr(c.Fun)
				var call string
				var rtys []lty
				withTr := false
				if fnName == "MultiScalar" || fnName == "ipa.MultiScalar" {
					call = "(multiScalar " + t.valExpr(c.Args[0]) + " " + t.valExpr(c.Args[1]) + ")"
					rtys = []lty{tG}
				} else {
					f := t.lookupFn(fnName)
					if f == nil || !f.option {
						die("loops: %s: unsupported error-returning call %s", t.cur.name, fnName)
					}
					call = t.callExpr(c)
					rtys = f.results
					withTr = f.hasTr
				}
				if len(rtys) == 3 && len(x.Lhs) == 2 && rtys[0] == tListG && rtys[1] == tListG && rtys[2] == tK {
					rtys = []lty{tProof}
				}
				if len(rtys) != len(x.Lhs)-1 {
					die("loops: %s: arity of %s", t.cur.name, fnName)
				}
				if len(rest) == 0 {
					die("loops: %s: error of %s is not checked", t.cur.name, fnName)
				}
				chk, ok := rest[0].(*ast.IfStmt)
				if !ok || exprStr(chk.Cond) != "err != nil" || len(chk.Body.List) != 1 {
					die("loops: %s: error of %s is not checked immediately", t.cur.name, fnName)
				}
				if _, ok := chk.Body.List[0].(*ast.ReturnStmt); !ok {
					die("loops: %s: error branch of %s does not return", t.cur.name, fnName)
				}
				var names []string
				for j, l := range x.Lhs[:len(x.Lhs)-1] {
					id, ok := l.(*ast.Ident)
					if !ok {
						die("loops: %s: unsupported bind target", t.cur.name)
					}
					if define || t.vars[id.Name] == 0 && id.Name != "_" {
						t.vars[id.Name] = rtys[j]
					}
					t.vars[id.Name] = rtys[j]
					names = append(names, id.Name)
				}
				pat := tuple(names)
				if withTr {
					pat = "(" + pat + ", transcript)"
				}
				fmt.Fprintf(t.sb, "%smatch %s with\n%s| none => none\n%s| some %s =>\n", ind, call, ind, ind, pat)
				t.block(ind+"  ", rest[1:], k, cont)
				return
			}
			// `x := transcript.ChallengeScalar(label)` / `xs[i] = transcript.ChallengeScalar(label)`
			if len(x.Lhs) == 1 && len(x.Rhs) == 1 {
				if c, ok := x.Rhs[0].(*ast.CallExpr); ok {
					if sel, ok := c.Fun.(*ast.SelectorExpr); ok && sel.Sel.Name == "ChallengeScalar" && t.typeOf(sel.X) == tTr {
						t.tmpN++
						tmp := fmt.Sprintf("c_%d", t.tmpN)
						tr := t.valExpr(sel.X)
						fmt.Fprintf(t.sb, "%slet (%s, %s) := Tr.challenge enc %s %s\n", ind, tmp, tr, tr, t.valExpr(c.Args[0]))
						t.vars[tmp] = tK
						t.assign(ind, x.Lhs[0], tmp, define, tK)
						continue
					}
					// a call of a translated function that takes the transcript (and has no error result)
					if f := t.lookupFn(exprStr(c.Fun)); f != nil && f.hasTr && !f.option {
						if len(f.results) != 1 {
							die("loops: %s: unsupported transcript-returning call", t.cur.name)
						}
						t.tmpN++
						tmp := fmt.Sprintf("r_%d", t.tmpN)
						fmt.Fprintf(t.sb, "%slet (%s, transcript) := %s\n", ind, tmp, t.callExpr(c))
						t.vars[tmp] = f.results[0]
						t.assign(ind, x.Lhs[0], tmp, define, f.results[0])
						continue
					}
				}
			}
			if len(x.Lhs) > 1 && len(x.Rhs) == len(x.Lhs) && x.Tok == token.DEFINE {
				// `a, b := e1, e2` with right-hand sides that do not mention the new names
				for j, l := range x.Lhs {
					id, ok := l.(*ast.Ident)
					if !ok {
						die("loops: %s: unsupported parallel definition", t.cur.name)
					}
					ast.Inspect(x.Rhs[j], func(n ast.Node) bool {
						if r, ok := n.(*ast.Ident); ok {
							for _, l2 := range x.Lhs {
								if exprStr(l2) == r.Name {
									die("loops: %s: parallel definition reads one of its targets", t.cur.name)
								}
							}
						}
						return true
					})
					ty := t.typeOf(x.Rhs[j])
					t.assign(ind, id, t.valExpr(x.Rhs[j]), true, ty)
				}
				continue
			}
			if len(x.Lhs) > 1 && len(x.Rhs) == 1 {
				c, ok := x.Rhs[0].(*ast.CallExpr)
				f := (*loopFn)(nil)
				if ok {
					f = t.lookupFn(exprStr(c.Fun))
				}
				if f == nil || len(f.results) != len(x.Lhs) || f.option {
					die("loops: %s: unsupported multi-assignment", t.cur.name)
				}
				var names []string
				for j, l := range x.Lhs {
					id := l.(*ast.Ident)
					t.vars[id.Name] = f.results[j]
					names = append(names, id.Name)
				}
				fmt.Fprintf(t.sb, "%slet %s := %s\n", ind, tuple(names), t.callExpr(c))
				continue
			}
			if len(x.Lhs) != 1 || len(x.Rhs) != 1 {
				die("loops: %s: unsupported assignment", t.cur.name)
			}
			rhs := x.Rhs[0]
			if c, ok := rhs.(*ast.CallExpr); ok && exprStr(c.Fun) == "make" {
				ty, ok := goType(c.Args[0])
				if !ok {
					die("loops: %s: unsupported make(%s)", t.cur.name, exprStr(c.Args[0]))
				}
				if len(c.Args) == 3 {
					if exprStr(c.Args[1]) != "0" {
						die("loops: %s: make with capacity and non-zero length", t.cur.name)
					}
					t.assign(ind, x.Lhs[0], "[]", define, ty)
					continue
				}
				var el string
				switch ty {
				case tListK:
					el = "(0 : K)"
				case tListBool:
					el = "false"
				case tListG:
					el = "(0 : G)"
				case tListListG:
					el = "([] : List G)"
				}
				t.assign(ind, x.Lhs[0], "List.replicate ("+t.intExpr(c.Args[1])+").toNat "+el, define, ty)
				continue
			}
			ty := t.typeOf(rhs)
			t.assign(ind, x.Lhs[0], t.valExpr(rhs), define, ty)
		case *ast.IncDecStmt:
			id, ok := x.X.(*ast.Ident)
			if !ok || t.vars[id.Name] != tInt {
				die("loops: %s: ++/-- on a non-integer", t.cur.name)
			}
			op := "+"
			if x.Tok == token.DEC {
				op = "-"
			}
			fmt.Fprintf(t.sb, "%slet %s : Int := %s %s 1\n", ind, id.Name, id.Name, op)
		case *ast.ExprStmt:
			c, ok := x.X.(*ast.CallExpr)
			if !ok {
				die("loops: %s: unsupported statement", t.cur.name)
			}
			if exprStr(c.Fun) == "panic" {
				fmt.Fprintf(t.sb, "%s%s\n", ind, t.panicValue())
				return
			}
			sel, ok := c.Fun.(*ast.SelectorExpr)
			if !ok {
				die("loops: %s: unsupported call statement %s", t.cur.name, exprStr(c))
			}
			if t.typeOf(sel.X) == tTr {
				tr := t.valExpr(sel.X)
				switch sel.Sel.Name {
				case "DomainSep":
					fmt.Fprintf(t.sb, "%slet %s : Tr := Tr.domainSep %s %s\n", ind, tr, tr, t.valExpr(c.Args[0]))
				case "AppendPoint":
					fmt.Fprintf(t.sb, "%slet %s : Tr := Tr.appendPoint enc %s %s %s\n", ind, tr, tr, t.valExpr(c.Args[0]), t.valExpr(c.Args[1]))
				case "AppendScalar":
					fmt.Fprintf(t.sb, "%slet %s : Tr := Tr.appendScalar enc %s %s %s\n", ind, tr, tr, t.valExpr(c.Args[0]), t.valExpr(c.Args[1]))
				default:
					die("loops: %s: unsupported transcript method %s", t.cur.name, sel.Sel.Name)
				}
				continue
			}
			if sel.Sel.Name == "ToBigIntRegular" && len(c.Args) == 1 && t.typeOf(sel.X) == tK && t.typeOf(c.Args[0]) == tBig {
				t.assign(ind, c.Args[0], "val "+t.valExpr(sel.X), false, tBig)
				continue
			}
			ar, ok := fieldMethods[sel.Sel.Name]
			if !ok || ar != len(c.Args) {
				die("loops: %s: unsupported method %s/%d", t.cur.name, sel.Sel.Name, len(c.Args))
			}
			rty := t.typeOf(sel.X)
			var v string
			a := func(i int) string { return t.valExpr(c.Args[i]) }
			switch sel.Sel.Name {
			case "Mul":
				v = a(0) + " * " + a(1)
			case "Add":
				v = a(0) + " + " + a(1)
			case "Sub":
				v = a(0) + " - " + a(1)
			case "Inverse":
				v = a(0) + "⁻¹"
			case "Neg":
				v = "-" + a(0)
			case "Square":
				v = a(0) + " * " + a(0)
			case "Double":
				v = a(0) + " + " + a(0)
				if t.msm {
					v = "dbl " + a(0)
				}
			case "Set", "FromAffine":
				v = a(0)
			case "SetOne":
				v = "1"
			case "SetZero", "SetIdentity":
				v = "0"
			case "SetUint64":
				v = "(((" + t.intExpr(c.Args[0]) + ").toNat : Nat) : K)"
			case "ScalarMul":
				if rty != tG {
					die("loops: ScalarMul on a non-group value")
				}
				v = a(1) + " • " + a(0)
			}
			t.assign(ind, sel.X, v, false, rty)
		case *ast.IfStmt:
			// `if err := banderwagon.BatchNormalize(Cs); err != nil { return … }`
			if init, ok := x.Init.(*ast.AssignStmt); ok && len(init.Rhs) == 1 && exprStr(x.Cond) == "err != nil" {
				if c, ok := init.Rhs[0].(*ast.CallExpr); ok && exprStr(c.Fun) == "banderwagon.BatchNormalize" && len(c.Args) == 1 {
					arg := t.valExpr(c.Args[0])
					fmt.Fprintf(t.sb, "%smatch (normalize %s) with\n%s| none => none\n%s| some %s =>\n", ind, arg, ind, ind, arg)
					t.block(ind+"  ", rest, k, cont)
					return
				}
			}
			if t.msm && x.Init == nil && x.Else != nil {
				// both branches continue with the rest of the block
				eb, ok := x.Else.(*ast.BlockStmt)
				if !ok {
					die("loops: %s: unsupported else-if", t.cur.name)
				}
				fmt.Fprintf(t.sb, "%sif %s then\n", ind, t.condExpr(x.Cond))
				saved := t.snapshot()
				t.block(ind+"  ", append(append([]ast.Stmt{}, x.Body.List...), rest...), k, cont)
				t.restore(saved)
				fmt.Fprintf(t.sb, "%selse\n", ind)
				t.block(ind+"  ", append(append([]ast.Stmt{}, eb.List...), rest...), k, cont)
				t.restore(saved)
				return
			}
			if x.Init != nil || x.Else != nil {
				die("loops: %s: unsupported if (init/else)", t.cur.name)
			}
			cond := t.condExpr(x.Cond)
			if hasJump(x.Body.List) {
				// continuation style: the then-branch ends in a jump; the rest is the else-branch
				fmt.Fprintf(t.sb, "%sif %s then\n", ind, cond)
				saved := t.snapshot()
				t.block(ind+"  ", x.Body.List, "", cont)
				t.restore(saved)
				fmt.Fprintf(t.sb, "%selse\n", ind)
				t.block(ind+"  ", rest, k, cont)
				return
			}
			muts := t.assigned(x.Body.List)
			var live []string
			for _, m := range muts {
				if _, ok := t.vars[m]; ok {
					live = append(live, m)
				}
			}
			if len(live) == 0 {
				continue
			}
			fmt.Fprintf(t.sb, "%slet %s :=\n%s  if %s then\n", ind, tuple(live), ind, cond)
			saved := t.snapshot()
			t.block(ind+"    ", x.Body.List, tuple(live), cont)
			t.restore(saved)
			fmt.Fprintf(t.sb, "%s  else %s\n", ind, tuple(live))
		case *ast.ForStmt:
			if t.forLoop(ind, x, rest, k, cont) {
				return
			}
		case *ast.RangeStmt:
			// `for k, v := range xs { body }`  ==  `for k := 0; k < len(xs); k++ { v := xs[k]; body }`
			if x.Tok != token.DEFINE {
				die("loops: %s: unsupported range statement", t.cur.name)
			}
			key := "_"
			if id, ok := x.Key.(*ast.Ident); ok {
				key = id.Name
			}
			if key == "_" {
				t.tmpN++
				key = fmt.Sprintf("i_%d", t.tmpN)
			}
			kid := ast.NewIdent(key)
			body := x.Body.List
			if v, ok := x.Value.(*ast.Ident); ok && v.Name != "_" {
				bind := &ast.AssignStmt{Lhs: []ast.Expr{ast.NewIdent(v.Name)}, Tok: token.DEFINE,
					Rhs: []ast.Expr{&ast.IndexExpr{X: x.X, Index: kid}}}
				body = append([]ast.Stmt{bind}, body...)
			}
			loop := &ast.ForStmt{
				Init: &ast.AssignStmt{Lhs: []ast.Expr{kid}, Tok: token.DEFINE, Rhs: []ast.Expr{&ast.BasicLit{Kind: token.INT, Value: "0"}}},
				Cond: &ast.BinaryExpr{X: kid, Op: token.LSS, Y: &ast.CallExpr{Fun: ast.NewIdent("len"), Args: []ast.Expr{x.X}}},
				Post: &ast.IncDecStmt{X: kid, Tok: token.INC},
				Body: &ast.BlockStmt{List: body},
			}
			if t.forLoop(ind, loop, rest, k, cont) {
				return
			}
		case *ast.BranchStmt:
			if x.Tok != token.CONTINUE || cont == "" {
				die("loops: %s: unsupported branch statement", t.cur.name)
			}
			fmt.Fprintf(t.sb, "%s%s\n", ind, cont)
			return
		case *ast.ReturnStmt:
			fmt.Fprintf(t.sb, "%s%s\n", ind, t.returnValue(x))
			return
		default:
			die("loops: %s: unsupported statement %T", t.cur.name, s)
		}
	}
	if k == "" {
		die("loops: %s: control falls off a branch that must end in a jump", t.cur.name)
	}
	fmt.Fprintf(t.sb, "%s%s\n", ind, k)
}

func (t *loopTr) snapshot() map[string]lty {
	m := map[string]lty{}
	for k, v := range t.vars {
		m[k] = v
	}
	return m
}
func (t *loopTr) restore(m map[string]lty) { t.vars = m }

func (t *loopTr) resultType() string {
	var parts []string
	for _, r := range t.cur.results {
		parts = append(parts, r.lean())
	}
	ty := strings.Join(parts, " × ")
	if t.cur.hasTr {
		ty = "(" + ty + ") × Tr"
	}
	if t.cur.option {
		return "Option (" + ty + ")"
	}
	return ty
}

func (t *loopTr) panicValue() string {
	var parts []string
	for _, r := range t.cur.results {
		parts = append(parts, "("+r.zero()+" : "+r.lean()+")")
	}
	v := tuple(parts)
	if t.cur.option {
		return "none"
	}
	return v
}

func (t *loopTr) returnValue(r *ast.ReturnStmt) string {
	if t.elem {
		return t.elemReturn(r)
	}
	res := r.Results
	// `return MultiScalar(a, b)`: the callee's (value, error) pair is passed on
	if t.cur.option && !t.cur.hasTr && len(res) == 1 {
		if c, ok := res[0].(*ast.CallExpr); ok && (exprStr(c.Fun) == "MultiScalar" || exprStr(c.Fun) == "ipa.MultiScalar") {
			return "(multiScalar " + t.valExpr(c.Args[0]) + " " + t.valExpr(c.Args[1]) + ")"
		}
	}
	if t.cur.option {
		last := exprStr(res[len(res)-1])
		if last != "nil" {
			return "none"
		}
		res = res[:len(res)-1]
	}
	if t.optLoop > 0 {
		die("loops: %s: a loop is left by a non-error return", t.cur.name)
	}
	wrap := func(v string) string {
		if t.cur.hasTr {
			v = "(" + v + ", transcript)"
		}
		if t.cur.option {
			return "some " + v
		}
		return v
	}
	// `return &T{f1: a, f2: b}` / `return T{...}`: the field values in declaration order
	if len(res) == 1 {
		e := res[0]
		if u, ok := e.(*ast.UnaryExpr); ok && u.Op == token.AND {
			e = u.X
		}
		if cl, ok := e.(*ast.CompositeLit); ok {
			if _, isSlice := goType(cl.Type); !isSlice {
				var parts []string
				for _, el := range cl.Elts {
					kv := el.(*ast.KeyValueExpr)
					parts = append(parts, t.valExpr(kv.Value))
				}
				return wrap(tuple(parts))
			}
		}
	}
	if len(res) != len(t.cur.results) {
		die("loops: %s: return arity", t.cur.name)
	}
	var parts []string
	for i, e := range res {
		if t.cur.results[i] == tInt {
			parts = append(parts, t.intExpr(e))
		} else {
			parts = append(parts, t.valExpr(e))
		}
	}
	return wrap(tuple(parts))
}

func hasReturn(stmts []ast.Stmt) bool {
	found := false
	for _, s := range stmts {
		ast.Inspect(s, func(n ast.Node) bool {
			if _, ok := n.(*ast.ReturnStmt); ok {
				found = true
			}
			return true
		})
	}
	return found
}

func (t *loopTr) forLoop(ind string, f *ast.ForStmt, rest []ast.Stmt, k string, cont string) bool {
	init, ok := f.Init.(*ast.AssignStmt)
	if !ok || init.Tok != token.DEFINE || len(init.Lhs) != 1 {
		die("loops: %s: unsupported loop header", t.cur.name)
	}
	iv := init.Lhs[0].(*ast.Ident).Name
	prevIV := t.curIV
	t.curIV = iv
	defer func() { t.curIV = prevIV }()
	cond, ok := f.Cond.(*ast.BinaryExpr)
	post, ok2 := f.Post.(*ast.IncDecStmt)
	if !ok || !ok2 || exprStr(cond.X) != iv || exprStr(post.X) != iv {
		die("loops: %s: unsupported loop header", t.cur.name)
	}
	start := t.intExpr(init.Rhs[0])
	opt := hasReturn(f.Body.List)
	var head string
	switch {
	case cond.Op == token.LSS && post.Tok == token.INC && !opt:
		head = "Loop.forUp " + start + " " + t.intExpr(cond.Y)
	case cond.Op == token.LSS && post.Tok == token.INC && opt:
		head = "Loop.forUpOpt " + start + " " + t.intExpr(cond.Y)
	case cond.Op == token.GEQ && post.Tok == token.DEC && !opt:
		head = "Loop.forDown " + start + " " + t.intExpr(cond.Y)
	default:
		die("loops: %s: unsupported loop shape", t.cur.name)
	}
	muts := t.assigned(f.Body.List)
	var st []string
	for _, m := range muts {
		if _, ok := t.vars[m]; ok && m != iv {
			st = append(st, m)
		}
	}
	if len(st) == 0 && !opt {
		die("loops: %s: loop without effect", t.cur.name)
	}
	var tys []string
	for _, s := range st {
		tys = append(tys, t.vars[s].lean())
	}
	sty := strings.Join(tys, " × ")
	if len(st) == 0 {
		// a pure validation loop: only its error exit matters
		fmt.Fprintf(t.sb, "%smatch %s (() : Unit) (fun (%s : Int) (_ : Unit) =>\n", ind, head, iv)
		saved := t.snapshot()
		t.vars[iv] = tInt
		t.optLoop++
		t.block(ind+"    ", f.Body.List, "some ()", "some ()")
		t.optLoop--
		t.restore(saved)
		fmt.Fprintf(t.sb, "%s  ) with\n%s| none => none\n%s| some _ =>\n", ind, ind, ind)
		t.block(ind+"  ", rest, k, cont)
		return true
	}
	if !opt {
		fmt.Fprintf(t.sb, "%slet %s : %s := %s %s (fun (%s : Int) (st : %s) =>\n", ind, tuple(st), sty, head, tuple(st), iv, sty)
		fmt.Fprintf(t.sb, "%s    let %s := st\n", ind, tuple(st))
		saved := t.snapshot()
		t.vars[iv] = tInt
		t.block(ind+"    ", f.Body.List, tuple(st), tuple(st))
		t.restore(saved)
		fmt.Fprintf(t.sb, "%s  )\n", ind)
		return false
	}
	if !t.cur.option {
		die("loops: %s: error return inside a loop of a function without error result", t.cur.name)
	}
	fmt.Fprintf(t.sb, "%smatch %s (%s : %s) (fun (%s : Int) (st : %s) =>\n", ind, head, tuple(st), sty, iv, sty)
	fmt.Fprintf(t.sb, "%s    let %s := st\n", ind, tuple(st))
	saved := t.snapshot()
	t.vars[iv] = tInt
	t.optLoop++
	t.block(ind+"    ", f.Body.List, "some "+tuple(st), "some "+tuple(st))
	t.optLoop--
	t.restore(saved)
	fmt.Fprintf(t.sb, "%s  ) with\n%s| none => none\n%s| some %s =>\n", ind, ind, ind, tuple(st))
	t.block(ind+"  ", rest, k, cont)
	return true
}

var leanReserved = map[string]bool{"in": true, "at": true, "from": true, "fun": true, "do": true, "then": true, "end": true,
	"open": true, "let": true, "have": true, "show": true, "with": true, "match": true, "where": true, "at_": false,
	"by": true, "calc": true, "section": true, "namespace": true, "variable": true, "def": true, "theorem": true,
	"instance": true, "structure": true, "class": true, "deriving": true, "mutual": true, "private": true, "protected": true,
	"_p": true}

// translate one function or method
func (t *loopTr) fn(file *ast.File, goName string, leanName string, proto bool) {
	var fd *ast.FuncDecl
	for _, d := range file.Decls {
		if f, ok := d.(*ast.FuncDecl); ok && f.Name.Name == goName {
			fd = f
		}
	}
	if fd == nil {
		die("loops: function %s not found", goName)
	}
	t.fnDecl(fd, goName, leanName, proto)
}

// translate a function declaration (of the source, or synthesised from a goroutine closure)
func (t *loopTr) fnDecl(fd *ast.FuncDecl, goName string, leanName string, proto bool) {
	// Go identifiers that are Lean keywords get a trailing underscore
	ast.Inspect(fd, func(n ast.Node) bool {
		if id, ok := n.(*ast.Ident); ok && leanReserved[id.Name] {
			id.Name += "_"
		}
		return true
	})
	f := &loopFn{name: leanName}
	t.vars = map[string]lty{}
	for k, v := range t.preVars {
		t.vars[k] = v
	}
	for k, v := range t.globals {
		t.vars[k] = v
	}
	if fd.Recv != nil && len(fd.Recv.List) == 1 && len(fd.Recv.List[0].Names) == 1 {
		rt := exprStr(fd.Recv.List[0].Type)
		if rt != "*PrecomputedWeights" {
			die("loops: %s: unsupported receiver %s", goName, rt)
		}
		f.recv = fd.Recv.List[0].Names[0].Name
	}
	for _, p := range fd.Type.Params.List {
		pt := exprStr(p.Type)
		if fields, ok := structFields[pt]; ok {
			for _, n := range p.Names {
				for _, fl := range fields {
					f.params = append(f.params, n.Name+fl[0])
					f.ptypes = append(f.ptypes, fieldTy(fl[1]))
					t.vars[n.Name+fl[0]] = fieldTy(fl[1])
				}
				f.flat = append(f.flat, len(fields))
				f.structBase = append(f.structBase, n.Name)
			}
			continue
		}
		ty, ok := goType(p.Type)
		if !ok {
			die("loops: %s: unsupported parameter type %s", goName, pt)
		}
		for _, n := range p.Names {
			f.params = append(f.params, n.Name)
			f.ptypes = append(f.ptypes, ty)
			t.vars[n.Name] = ty
			f.flat = append(f.flat, 1)
			f.structBase = append(f.structBase, n.Name)
			if ty == tTr {
				f.hasTr = true
			}
		}
	}
	f.proto = proto
	if !proto {
		f.flat = nil
	}
	if fd.Type.Results != nil {
		for _, r := range fd.Type.Results.List {
			rs := exprStr(r.Type)
			if rs == "error" {
				f.option = true
				continue
			}
			if rs == "*PrecomputedWeights" {
				f.results = append(f.results, tListK, tListK)
				continue
			}
			if rs == "IPAProof" {
				f.results = append(f.results, tListG, tListG, tK)
				continue
			}
			if rs == "*MultiProof" {
				f.results = append(f.results, tProof, tG)
				continue
			}
			ty, ok := goType(r.Type)
			if !ok {
				die("loops: %s: unsupported result type %s", goName, rs)
			}
			n := len(r.Names)
			if n == 0 {
				n = 1
			}
			for i := 0; i < n; i++ {
				f.results = append(f.results, ty)
			}
		}
	}
	t.cur = f
	var ps []string
	if f.proto {
		ps = append(ps, protoParams)
	}
	if ex, ok := extraParams[goName]; ok {
		ps = append(ps, ex)
	}
	if f.recv != "" {
		for _, k := range t.fields {
			ps = append(ps, "("+k+" : List K)")
		}
	}
	for i, p := range f.params {
		ps = append(ps, "("+p+" : "+f.ptypes[i].lean()+")")
	}
	fmt.Fprintf(t.sb, "/-- translated from `%s` -/\ndef %s %s : %s :=\n", goName, leanName, strings.Join(ps, " "), t.resultType())
	t.block("  ", fd.Body.List, "", "")
	t.sb.WriteString("\n")
	t.fns[goName] = f
}

func translateLoops(repo string, write func(name, imports, content string)) {
	bary := parse(filepath.Join(repo, "ipa/barycentric.go"))
	cfg := parse(filepath.Join(repo, "ipa/config.go"))
	frEl := parse(filepath.Join(repo, "bandersnatch/fr/element.go"))
	common := parse(filepath.Join(repo, "common/common.go"))

	// integer constants: common.VectorLength and ipa.domainSize = common.VectorLength
	vl := topLevelValue(common, "VectorLength")
	lit, ok := vl.(*ast.BasicLit)
	if !ok {
		die("loops: common.VectorLength is not a literal")
	}
	if s := exprStr(topLevelValue(bary, "domainSize")); s != "common.VectorLength" {
		die("loops: ipa.domainSize is %s, expected common.VectorLength", s)
	}
	t := &loopTr{fns: map[string]*loopFn{}, consts: map[string]string{"domainSize": lit.Value}, sb: &strings.Builder{},
		fields: []string{"barycentricWeights", "invertedDomain"}}
	// the struct the methods read: exactly these two slices, in this order
	var fieldNames []string
	ast.Inspect(bary, func(n ast.Node) bool {
		if ts, ok := n.(*ast.TypeSpec); ok && ts.Name.Name == "PrecomputedWeights" {
			for _, fl := range ts.Type.(*ast.StructType).Fields.List {
				for _, nm := range fl.Names {
					fieldNames = append(fieldNames, nm.Name+":"+exprStr(fl.Type))
				}
			}
		}
		return true
	})
	if strings.Join(fieldNames, ",") != "barycentricWeights:[]fr.Element,invertedDomain:[]fr.Element" {
		die("loops: PrecomputedWeights has fields %v", fieldNames)
	}

	t.sb.WriteString("namespace Loops\nopen GoIpa\n\nsection\nvariable {K : Type} [Zero K] [One K] [Add K] [Sub K] [Mul K] [Neg K] [Inv K] [NatCast K] [DecidableEq K]\n\n")
	t.fn(frEl, "BatchInvert", "batchInvert", false)
	t.fn(common, "PowersOf", "powersOf", false)
	t.fn(bary, "absInt", "absInt", false)
	t.fn(bary, "getInvertedElement", "getInvertedElement", false)
	t.fn(bary, "getRatioOfWeights", "getRatioOfWeights", false)
	t.fn(bary, "computeBarycentricWeightForElement", "computeBarycentricWeightForElement", false)
	t.fn(bary, "NewPrecomputedWeights", "newPrecomputedWeights", false)
	t.fn(bary, "ComputeBarycentricCoefficients", "computeBarycentricCoefficients", false)
	t.fn(bary, "DivideOnDomain", "divideOnDomain", false)
	t.fn(cfg, "InnerProd", "innerProd", false)
	t.fn(cfg, "foldScalars", "foldScalars", false)
	t.fn(cfg, "splitScalars", "splitScalars", false)
	t.sb.WriteString("end\n\nsection\nvariable {K G : Type} [Zero G] [Add G] [SMul K G]\n\n")
	t.fn(cfg, "foldPoints", "foldPoints", false)
	t.fn(cfg, "splitPoints", "splitPoints", false)
	t.sb.WriteString("end\n\n")

	// ---- the inner-product argument itself: prover, verifier, challenge generation
	prover := parse(filepath.Join(repo, "ipa/prover.go"))
	verifier := parse(filepath.Join(repo, "ipa/verifier.go"))
	t.labels = map[string]bool{}
	t.sb.WriteString("/-! the Fiat–Shamir labels of `ipa/prover.go` -/\n")
	for _, l := range []string{"labelDomainSep", "labelC", "labelInputPoint", "labelOutputPoint", "labelW", "labelL", "labelR", "labelX"} {
		v := topLevelValue(prover, l)
		c, ok := v.(*ast.CallExpr)
		if !ok || exprStr(c.Fun) != "[]byte" || len(c.Args) != 1 {
			die("loops: label %s is not a []byte(\"...\") conversion", l)
		}
		lit, ok := c.Args[0].(*ast.BasicLit)
		if !ok || lit.Kind != token.STRING {
			die("loops: label %s is not a string literal", l)
		}
		t.sb.WriteString("def " + l + " : Bytes := str " + lit.Value + "\n")
		t.labels[l] = true
	}
	t.sb.WriteString("\nsection\nvariable {K G : Type} [Zero K] [One K] [Add K] [Sub K] [Mul K] [Neg K] [Inv K] [NatCast K] [DecidableEq K]\nvariable [Zero G] [Add G] [SMul K G]\n\n")
	// the package variable `maxEvalPointInsideDomain` and its only assignment, in `init()`
	{
		initFn := findFunc(prover, "init")
		if initFn == nil || len(initFn.Body.List) != 1 {
			die("loops: ipa/prover.go: init() is not the single assignment of maxEvalPointInsideDomain")
		}
		es, ok := initFn.Body.List[0].(*ast.ExprStmt)
		if !ok {
			die("loops: ipa/prover.go: unexpected statement in init()")
		}
		call, ok := es.X.(*ast.CallExpr)
		if !ok || exprStr(call.Fun) != "maxEvalPointInsideDomain.SetUint64" || len(call.Args) != 1 {
			die("loops: ipa/prover.go: init() does not set maxEvalPointInsideDomain with SetUint64")
		}
		nAssign := 0
		ast.Inspect(prover, func(n ast.Node) bool {
			if sel, ok := n.(*ast.SelectorExpr); ok && exprStr(sel.X) == "maxEvalPointInsideDomain" {
				nAssign++
			}
			if u, ok := n.(*ast.UnaryExpr); ok && u.Op == token.AND && exprStr(u.X) == "maxEvalPointInsideDomain" {
				if nAssign >= 0 {
					nAssign += 100
				}
			}
			return true
		})
		if nAssign != 101 {
			die("loops: ipa/prover.go: maxEvalPointInsideDomain is used other than by its init() assignment and one read by address (%d)", nAssign)
		}
		t.cur = &loopFn{name: "maxEvalPointInsideDomain"}
		t.vars = map[string]lty{}
		t.consts["VectorLength"] = lit.Value
		t.sb.WriteString("/-- `maxEvalPointInsideDomain`, set once in `init()` -/\ndef maxEvalPointInsideDomain : K := (((" + t.intExpr(call.Args[0]) + ").toNat : Nat) : K)\n\n")
		t.globals = map[string]lty{"maxEvalPointInsideDomain": tK}
	}
	t.fn(prover, "computeBVector", "computeBVector", false)
	t.globals = nil
	t.fn(cfg, "commit", "commit", true)
	t.fn(verifier, "generateChallenges", "generateChallenges", true)
	t.fn(prover, "CreateIPAProof", "createIPAProof", true)
	t.fn(verifier, "CheckIPAProof", "checkIPAProof", true)
	t.sb.WriteString("end\n\n")

	// ---- the multiproof verifier
	mp := parse(filepath.Join(repo, "multiproof.go"))
	t.sb.WriteString("/-! the Fiat–Shamir labels of `multiproof.go` -/\n")
	for _, l := range []string{"labelC", "labelZ", "labelY", "labelD", "labelE", "labelT", "labelR", "labelDomainSep"} {
		v := topLevelValue(mp, l)
		c, ok := v.(*ast.CallExpr)
		if !ok || exprStr(c.Fun) != "[]byte" || len(c.Args) != 1 {
			die("loops: multiproof label %s is not a []byte(\"...\") conversion", l)
		}
		lit, ok := c.Args[0].(*ast.BasicLit)
		if !ok || lit.Kind != token.STRING {
			die("loops: multiproof label %s is not a string literal", l)
		}
		t.sb.WriteString("def mp_" + l + " : Bytes := str " + lit.Value + "\n")
		t.labels["mp_"+l] = true
	}
	t.labelPrefix = "mp_"
	t.consts["VectorLength"] = lit.Value
	t.sb.WriteString("\nsection\nvariable {K G : Type} [Zero K] [One K] [Add K] [Sub K] [Mul K] [Neg K] [Inv K] [NatCast K] [DecidableEq K]\nvariable [Zero G] [Add G] [Sub G] [SMul K G]\n\n")
	t.fn(mp, "domainToFr", "domainToFr", false)
	t.goroutineFn(mp, "groupPolynomialsByEvaluationPoint", "groupPolynomialsByEvaluationPoint")
	t.fn(mp, "CheckMultiProof", "checkMultiProof", true)
	t.fn(mp, "CreateMultiProof", "createMultiProof", true)
	t.sb.WriteString("end\n\n")
	t.labelPrefix = ""
	// names, sorted, for the tie file to check that nothing was dropped
	var names []string
	for k := range t.fns {
		names = append(names, k)
	}
	sort.Strings(names)
	t.sb.WriteString("def translated : List String := [" + quoteAll(names) + "]\n\nend Loops\n")
	write("Loops.lean", "import GoIpa.Model.Loop\nimport GoIpa.Model.Ipa\n", t.sb.String())
}
