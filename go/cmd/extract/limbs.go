// limbs.go: translates the straight-line 64-bit limb code of bandersnatch/fr (arith.go and the
// `_xxxGeneric` functions of element.go) into Lean definitions over naturals, statement by
// statement.
//
//   - `math/bits` primitives become `mul64`/`add64`/`sub64` of Model/FrLimbs.lean (their
//     semantics is part of the trusted base); wrapping `*` and `+` become `(…) % W`.
//   - An `*Element` parameter or a `[4]uint64` local is a value of type `L4`; reading `p[i]`
//     is `p.l<i>` until the limb is assigned, then the freshly bound `p<i>`.  Scalars keep
//     their Go names (Lean shadowing provides the SSA versions).
//   - Parameters are grouped into alias classes, so the same function is also translated under
//     the assumption that the destination aliases an operand (`_zx`, `_zy`, `_zxy`).
//   - Every top-level `{…}` block and `if` of a function becomes its own definition (a "piece")
//     from the arrays/scalars it uses to the arrays/scalars it writes that are still live; the
//     function itself is the composition of its pieces.  That keeps every tie obligation small.
//
// Unknown shapes are refused (exit 1).
package main

import (
	"go/ast"
	"go/token"
	"path/filepath"
	"strings"
)

type arrState struct {
	base string   // Lean variable holding the packed value ("" = none: every limb is in `over`)
	over []string // per limb: Lean scalar name, or "" = read it from base
}

func (a *arrState) clone() *arrState {
	return &arrState{base: a.base, over: append([]string{}, a.over...)}
}

// mutable bookkeeping shared between a translator and the sub-translators of inlined methods
type usage struct {
	usedOrder []string // first-use order of outer arrays / scalars (parameters of the piece)
	used      map[string]bool
	wroteArr  []string // outer arrays with at least one limb assigned, in order
	wroteSc   []string // outer scalars assigned, in order
}

type limbTr struct {
	methods map[string]*ast.FuncDecl
	alias   map[string]string    // Element parameter -> array name (alias class)
	dest    string               // the only Element parameter that may be assigned
	arrs    map[string]*arrState // arrays by Lean name (alias classes and local arrays)
	scalars map[string]bool      // declared scalars
	scopes  []map[string]bool    // names declared per Go scope (to refuse shadowing)
	name    string               // Lean name of the function (prefix of its pieces)
	pieces  *strings.Builder
	npiece  *int
	top     bool
	resTail []string // element-level names read by the function result

	// while translating a piece: what exists outside it
	outerArr    map[string]bool
	outerScalar map[string]bool
	assignedSc  map[string]bool // outer scalars assigned inside (shadowing the outer value)
	u           *usage
}

func (t *limbTr) declare(name string) {
	for _, s := range t.scopes[:len(t.scopes)-1] {
		if s[name] {
			die("limbs: %s declared in a nested block shadows an outer variable", name)
		}
	}
	t.scopes[len(t.scopes)-1][name] = true
}

func (t *limbTr) noteUse(n string) {
	if !t.u.used[n] {
		t.u.used[n] = true
		t.u.usedOrder = append(t.u.usedOrder, n)
	}
}

func appendOnce(l []string, n string) []string {
	for _, x := range l {
		if x == n {
			return l
		}
	}
	return append(l, n)
}

// array name and limb index of an index expression
func (t *limbTr) limbOf(x *ast.IndexExpr) (string, int) {
	base, ok := x.X.(*ast.Ident)
	lit, ok2 := x.Index.(*ast.BasicLit)
	if !ok || !ok2 || lit.Kind != token.INT || len(lit.Value) != 1 {
		die("limbs: unsupported index expression %s", exprStr(x))
	}
	name := base.Name
	if cls, isElem := t.alias[name]; isElem {
		name = cls
	}
	a := t.arrs[name]
	i := int(lit.Value[0] - '0')
	if a == nil || i >= len(a.over) {
		die("limbs: index into unknown or short array %s", exprStr(x))
	}
	return name, i
}

func idx(i int) string { return string(rune('0' + i)) }

func (t *limbTr) readLimb(name string, i int) string {
	a := t.arrs[name]
	if a.over[i] != "" {
		if t.outerScalar[a.over[i]] && !t.assignedSc[a.over[i]] { // limb of a short outer array
			t.noteUse(a.over[i])
		}
		return a.over[i]
	}
	if a.base == "" {
		die("limbs: limb %s%d read before assignment", name, i)
	}
	if t.outerArr[name] {
		t.noteUse(name)
	}
	return a.base + ".l" + idx(i)
}

func (t *limbTr) readScalar(n string) string {
	if !t.scalars[n] {
		die("limbs: undeclared variable %s", n)
	}
	if t.outerScalar[n] && !t.assignedSc[n] {
		t.noteUse(n)
	}
	return n
}

// pack: the L4 value of an array in the current state
func (t *limbTr) pack(name string) string {
	a := t.arrs[name]
	if a == nil || len(a.over) != 4 {
		die("limbs: array %s is not an element", name)
	}
	all := true
	for _, o := range a.over {
		if o != "" {
			all = false
		}
	}
	if all {
		if t.outerArr[name] {
			t.noteUse(name)
		}
		return a.base
	}
	var ls []string
	for i := range a.over {
		ls = append(ls, t.readLimb(name, i))
	}
	return "⟨" + strings.Join(ls, ", ") + "⟩"
}

func (t *limbTr) noteScalarWrite(n string) {
	if t.outerScalar[n] {
		t.u.wroteSc = appendOnce(t.u.wroteSc, n)
		t.assignedSc[n] = true
	}
}

// assignTarget: Lean binder for an lvalue, updating the state
func (t *limbTr) assignTarget(e ast.Expr, define bool) string {
	switch x := e.(type) {
	case *ast.Ident:
		if x.Name == "_" {
			return "_"
		}
		if define {
			t.declare(x.Name)
			t.scalars[x.Name] = true
			delete(t.outerScalar, x.Name)
		}
		if !t.scalars[x.Name] {
			die("limbs: assignment to undeclared or non-scalar %s", x.Name)
		}
		t.noteScalarWrite(x.Name)
		return x.Name
	case *ast.IndexExpr:
		if b, ok := x.X.(*ast.Ident); ok {
			if _, isElem := t.alias[b.Name]; isElem && b.Name != t.dest {
				die("limbs: assignment to operand %s", exprStr(e))
			}
		}
		name, i := t.limbOf(x)
		t.bindName(name + idx(i))
		return name + idx(i)
	case *ast.ParenExpr:
		return t.assignTarget(x.X, define)
	}
	die("limbs: unsupported assignment target %s", exprStr(e))
	return ""
}

func (t *limbTr) expr(e ast.Expr) string {
	switch x := e.(type) {
	case *ast.BasicLit:
		if x.Kind != token.INT {
			die("limbs: literal %s", x.Value)
		}
		return x.Value
	case *ast.Ident:
		return t.readScalar(x.Name)
	case *ast.IndexExpr:
		name, i := t.limbOf(x)
		return t.readLimb(name, i)
	case *ast.ParenExpr:
		return t.expr(x.X)
	case *ast.BinaryExpr:
		a, b := t.expr(x.X), t.expr(x.Y)
		switch x.Op {
		case token.MUL:
			return "((" + a + " * " + b + ") % W)"
		case token.ADD:
			return "((" + a + " + " + b + ") % W)"
		case token.OR:
			return "(" + a + " ||| " + b + ")"
		}
	}
	die("limbs: unsupported expression %s", exprStr(e))
	return ""
}

// sub-translator for an inlined method whose receiver is bound to the caller's array
func (t *limbTr) method(sel *ast.SelectorExpr) (*limbTr, *ast.FuncDecl, bool) {
	recv, ok := sel.X.(*ast.Ident)
	if !ok {
		return nil, nil, false
	}
	cls, isElem := t.alias[recv.Name]
	if !isElem {
		return nil, nil, false
	}
	m := t.methods[sel.Sel.Name]
	if m == nil || m.Recv == nil || len(m.Recv.List) != 1 || len(m.Recv.List[0].Names) != 1 {
		die("limbs: cannot inline method %s", sel.Sel.Name)
	}
	rn := m.Recv.List[0].Names[0].Name
	sub := *t // shares arrs, scalars, usage
	sub.alias = map[string]string{rn: cls}
	sub.dest = ""
	if recv.Name == t.dest {
		sub.dest = rn
	}
	sub.top = false
	return &sub, m, true
}

func (t *limbTr) cond(e ast.Expr) string {
	switch x := e.(type) {
	case *ast.ParenExpr:
		return "(" + t.cond(x.X) + ")"
	case *ast.UnaryExpr:
		if x.Op == token.NOT {
			return "¬" + t.cond(x.X)
		}
	case *ast.BinaryExpr:
		switch x.Op {
		case token.LOR:
			return t.cond(x.X) + " ∨ " + t.cond(x.Y)
		case token.LAND:
			return t.cond(x.X) + " ∧ " + t.cond(x.Y)
		case token.LSS:
			return t.expr(x.X) + " < " + t.expr(x.Y)
		case token.EQL:
			return t.expr(x.X) + " = " + t.expr(x.Y)
		case token.NEQ:
			return t.expr(x.X) + " ≠ " + t.expr(x.Y)
		}
	case *ast.CallExpr:
		// boolean method of an element parameter, inlined: a single `return <cond>`
		if sel, ok := x.Fun.(*ast.SelectorExpr); ok && len(x.Args) == 0 {
			if sub, m, ok := t.method(sel); ok {
				if len(m.Body.List) == 1 {
					if ret, ok := m.Body.List[0].(*ast.ReturnStmt); ok && len(ret.Results) == 1 {
						return "(" + sub.cond(ret.Results[0]) + ")"
					}
				}
				die("limbs: cannot inline method %s", sel.Sel.Name)
			}
		}
	}
	die("limbs: unsupported condition %s", exprStr(e))
	return ""
}

func (t *limbTr) call(c *ast.CallExpr, nres int) string {
	var args []string
	for _, a := range c.Args {
		args = append(args, t.expr(a))
	}
	name := exprStr(c.Fun)
	want := map[string][2]int{"bits.Mul64": {2, 2}, "bits.Add64": {3, 2}, "bits.Sub64": {3, 2},
		"madd0": {3, 1}, "madd1": {3, 2}, "madd2": {4, 2}, "madd3": {5, 2}}
	w, ok := want[name]
	if !ok || w[0] != len(args) || w[1] != nres {
		die("limbs: unsupported call %s with %d results", exprStr(c), nres)
	}
	lean := map[string]string{"bits.Mul64": "mul64", "bits.Add64": "add64", "bits.Sub64": "sub64"}[name]
	if lean == "" {
		lean = name
	}
	return lean + " " + strings.Join(args, " ")
}

func tuple(names []string) string {
	if len(names) == 1 {
		return names[0]
	}
	return "(" + strings.Join(names, ", ") + ")"
}

// snapshot / restore of the variable state (for branches)
type snap struct {
	arrs map[string]*arrState
	asg  map[string]bool
}

func (t *limbTr) save() snap {
	s := snap{arrs: map[string]*arrState{}, asg: map[string]bool{}}
	for k, v := range t.arrs {
		s.arrs[k] = v.clone()
	}
	for k, v := range t.assignedSc {
		s.asg[k] = v
	}
	return s
}

func (t *limbTr) restore(s snap) {
	for k, v := range s.arrs { // keep the map identity: sub-translators share it
		t.arrs[k] = v
	}
	for k := range t.assignedSc {
		delete(t.assignedSc, k)
	}
	for k, v := range s.asg {
		t.assignedSc[k] = v
	}
}

// element-level names assigned by a statement list that exist outside it, in order
func (t *limbTr) assignedOuter(stmts []ast.Stmt) []string {
	var out []string
	local := map[string]bool{}
	var walk func(ss []ast.Stmt)
	add := func(n string) { out = appendOnce(out, n) }
	walk = func(ss []ast.Stmt) {
		for _, s := range ss {
			switch x := s.(type) {
			case *ast.DeclStmt:
				for _, sp := range x.Decl.(*ast.GenDecl).Specs {
					for _, n := range sp.(*ast.ValueSpec).Names {
						local[n.Name] = true
					}
				}
			case *ast.AssignStmt:
				for _, l := range x.Lhs {
					switch lv := l.(type) {
					case *ast.Ident:
						if x.Tok == token.DEFINE {
							local[lv.Name] = true
						}
						if lv.Name != "_" && !local[lv.Name] {
							add(lv.Name)
						}
					case *ast.IndexExpr:
						if b, ok := lv.X.(*ast.Ident); ok && local[b.Name] {
							continue
						}
						add(t.rawName(lv))
					default:
						die("limbs: unsupported assignment target %s", exprStr(l))
					}
				}
			case *ast.BlockStmt:
				walk(x.List)
			case *ast.IfStmt:
				walk(x.Body.List)
			case *ast.ExprStmt:
				if c, ok := x.X.(*ast.CallExpr); ok {
					if sel, ok := c.Fun.(*ast.SelectorExpr); ok {
						if recv, ok := sel.X.(*ast.Ident); ok {
							if cls, isElem := t.alias[recv.Name]; isElem {
								for i := 0; i < 4; i++ {
									add(cls + idx(i))
								}
							}
						}
					}
				}
			}
		}
	}
	walk(stmts)
	return out
}

// limb of an element-level name, if it is one
func (t *limbTr) asLimb(n string) (string, int, bool) {
	if k := len(n); k > 1 {
		if a, ok := t.arrs[n[:k-1]]; ok && n[k-1] >= '0' && int(n[k-1]-'0') < len(a.over) {
			return n[:k-1], int(n[k-1] - '0'), true
		}
	}
	return "", 0, false
}

// current value of an element-level name (`z0` → limb 0 of z, otherwise a scalar)
func (t *limbTr) readName(n string) string {
	if a, i, ok := t.asLimb(n); ok {
		return t.readLimb(a, i)
	}
	return t.readScalar(n)
}

// bindName: after `let <n> := …` the element-level name n is bound
func (t *limbTr) bindName(n string) {
	if an, i, ok := t.asLimb(n); ok {
		a := t.arrs[an]
		if len(a.over) == 4 {
			a.over[i] = n
			if t.outerArr[an] {
				t.u.wroteArr = appendOnce(t.u.wroteArr, an)
			}
		} else {
			t.noteScalarWrite(n)
		}
		return
	}
	t.noteScalarWrite(n)
}

// stmts translates a statement list followed by the tail expression produced by `tail()`
func (t *limbTr) stmts(ss []ast.Stmt, ind string, tail func() string) string {
	if len(ss) == 0 {
		return ind + tail() + "\n"
	}
	s, rest := ss[0], ss[1:]
	switch x := s.(type) {
	case *ast.DeclStmt:
		gd := x.Decl.(*ast.GenDecl)
		if gd.Tok != token.VAR {
			die("limbs: unsupported declaration")
		}
		out := ""
		for _, sp := range gd.Specs {
			vs := sp.(*ast.ValueSpec)
			if len(vs.Values) != 0 {
				die("limbs: initialised var declaration")
			}
			for _, n := range vs.Names {
				t.declare(n.Name)
				switch ty := vs.Type.(type) {
				case *ast.Ident:
					if ty.Name != "uint64" {
						die("limbs: var of type %s", ty.Name)
					}
					t.scalars[n.Name] = true
					delete(t.outerScalar, n.Name)
					out += ind + "let " + n.Name + " : Nat := 0\n"
				case *ast.ArrayType:
					ln, ok := ty.Len.(*ast.BasicLit)
					if !ok || exprStr(ty.Elt) != "uint64" || len(ln.Value) != 1 {
						die("limbs: unsupported array type %s", exprStr(ty))
					}
					k := int(ln.Value[0] - '0')
					a := &arrState{over: make([]string, k)}
					if k == 4 {
						a.base = n.Name
						out += ind + "let " + n.Name + " : L4 := ⟨0, 0, 0, 0⟩\n"
					} else {
						for i := 0; i < k; i++ {
							a.over[i] = n.Name + idx(i)
							t.scalars[n.Name+idx(i)] = true
							out += ind + "let " + n.Name + idx(i) + " : Nat := 0\n"
						}
					}
					t.arrs[n.Name] = a
					delete(t.outerArr, n.Name)
				default:
					die("limbs: unsupported var type %s", exprStr(vs.Type))
				}
			}
		}
		return out + t.stmts(rest, ind, tail)
	case *ast.AssignStmt:
		if x.Tok != token.ASSIGN && x.Tok != token.DEFINE {
			die("limbs: unsupported assignment operator")
		}
		if len(x.Rhs) != 1 {
			die("limbs: parallel assignment")
		}
		var rhs string
		if c, ok := x.Rhs[0].(*ast.CallExpr); ok {
			rhs = t.call(c, len(x.Lhs))
		} else {
			if len(x.Lhs) != 1 {
				die("limbs: tuple assignment from a non-call")
			}
			rhs = t.expr(x.Rhs[0])
		}
		var names []string
		for _, l := range x.Lhs {
			names = append(names, t.assignTarget(l, x.Tok == token.DEFINE))
		}
		return ind + "let " + tuple(names) + " := " + rhs + "\n" + t.stmts(rest, ind, tail)
	case *ast.BlockStmt:
		if t.top {
			return t.piece(x.List, rest, ind, "b") + t.stmts(rest, ind, tail)
		}
		t.scopes = append(t.scopes, map[string]bool{})
		inner := t.stmtsKeep(x.List, ind)
		t.scopes = t.scopes[:len(t.scopes)-1]
		return inner + t.stmts(rest, ind, tail)
	case *ast.IfStmt:
		if x.Init != nil || x.Else != nil {
			die("limbs: if with init/else")
		}
		body := x.Body.List
		if n := len(body); n > 0 {
			if ret, ok := body[n-1].(*ast.ReturnStmt); ok && len(ret.Results) == 0 {
				c := t.cond(x.Cond)
				wasTop := t.top
				t.top = false
				before := t.save()
				t.scopes = append(t.scopes, map[string]bool{})
				thenS := t.stmts(body[:n-1], ind+"  ", tail)
				t.scopes = t.scopes[:len(t.scopes)-1]
				t.restore(before)
				elseS := t.stmts(rest, ind+"  ", tail)
				t.top = wasTop
				return ind + "if " + c + " then\n" + thenS + ind + "else\n" + elseS
			}
		}
		if t.top {
			return t.piece([]ast.Stmt{x}, rest, ind, "i") + t.stmts(rest, ind, tail)
		}
		c := t.cond(x.Cond)
		outer := t.assignedOuter(body)
		if len(outer) == 0 {
			die("limbs: if without effect")
		}
		var elseVals []string
		for _, n := range outer {
			elseVals = append(elseVals, t.readName(n))
		}
		before := t.save()
		t.scopes = append(t.scopes, map[string]bool{})
		thenS := t.stmts(body, ind+"    ", func() string {
			var vs []string
			for _, n := range outer {
				vs = append(vs, t.readName(n))
			}
			return tuple(vs)
		})
		t.scopes = t.scopes[:len(t.scopes)-1]
		t.restore(before)
		for _, n := range outer {
			t.bindName(n)
		}
		return ind + "let " + tuple(outer) + " :=\n" + ind + "  if " + c + " then\n" + thenS + ind + "  else " + tuple(elseVals) + "\n" + t.stmts(rest, ind, tail)
	case *ast.ExprStmt:
		// `p.SetZero()`-style call on the destination: inline the method's assignments
		if c, ok := x.X.(*ast.CallExpr); ok && len(c.Args) == 0 {
			if sel, ok := c.Fun.(*ast.SelectorExpr); ok {
				if sub, m, ok := t.method(sel); ok {
					if sub.dest == "" {
						die("limbs: mutating method on operand %s", exprStr(sel.X))
					}
					lst := m.Body.List
					if n := len(lst); n > 0 {
						if ret, ok := lst[n-1].(*ast.ReturnStmt); ok && len(ret.Results) == 1 && exprStr(ret.Results[0]) == sub.dest {
							lst = lst[:n-1]
						}
					}
					sub.scopes = append(append([]map[string]bool{}, t.scopes...), map[string]bool{})
					inner := sub.stmtsKeep(lst, ind)
					return inner + t.stmts(rest, ind, tail)
				}
			}
		}
		die("limbs: unsupported expression statement %s", exprStr(x.X))
	case *ast.ReturnStmt:
		if len(x.Results) != 0 || len(rest) != 0 {
			die("limbs: unsupported return")
		}
		return ind + tail() + "\n"
	}
	die("limbs: unsupported statement")
	return ""
}

// stmtsKeep translates a statement list into `let` lines only (no tail)
func (t *limbTr) stmtsKeep(ss []ast.Stmt, ind string) string {
	const marker = "\x00TAIL\x00"
	s := t.stmts(ss, ind, func() string { return marker })
	i := strings.LastIndex(s, ind+marker+"\n")
	if i < 0 || strings.Count(s, marker) != 1 {
		die("limbs: block with early return")
	}
	return s[:i]
}

// ---------------------------------------------------------------------------------------------
// element-level read-before-assign analysis, for the liveness of a piece's outputs

type rwState struct {
	reads    []string
	seen     map[string]bool
	assigned map[string]bool
}

func newRW() *rwState { return &rwState{seen: map[string]bool{}, assigned: map[string]bool{}} }

func (st *rwState) clone() *rwState {
	n := &rwState{reads: st.reads, seen: st.seen, assigned: map[string]bool{}}
	for k, v := range st.assigned {
		n.assigned[k] = v
	}
	return n
}

func (st *rwState) read(n string) {
	if n == "_" || st.assigned[n] || st.seen[n] {
		return
	}
	st.seen[n] = true
	st.reads = append(st.reads, n)
}

func (t *limbTr) rawName(e ast.Expr) string {
	switch x := e.(type) {
	case *ast.Ident:
		return x.Name
	case *ast.ParenExpr:
		return t.rawName(x.X)
	case *ast.IndexExpr:
		base, ok := x.X.(*ast.Ident)
		lit, ok2 := x.Index.(*ast.BasicLit)
		if !ok || !ok2 {
			die("limbs: unsupported index expression %s", exprStr(e))
		}
		if cls, isElem := t.alias[base.Name]; isElem {
			return cls + lit.Value
		}
		return base.Name + lit.Value
	}
	die("limbs: unsupported variable expression %s", exprStr(e))
	return ""
}

func (t *limbTr) scanExpr(e ast.Expr, st *rwState) {
	switch x := e.(type) {
	case *ast.BasicLit:
	case *ast.Ident:
		if _, isElem := t.alias[x.Name]; !isElem {
			st.read(x.Name)
		}
	case *ast.IndexExpr:
		st.read(t.rawName(x))
	case *ast.ParenExpr:
		t.scanExpr(x.X, st)
	case *ast.UnaryExpr:
		t.scanExpr(x.X, st)
	case *ast.BinaryExpr:
		t.scanExpr(x.X, st)
		t.scanExpr(x.Y, st)
	case *ast.CallExpr:
		if sel, ok := x.Fun.(*ast.SelectorExpr); ok {
			if recv, ok := sel.X.(*ast.Ident); ok {
				if cls, isElem := t.alias[recv.Name]; isElem { // boolean method: reads all limbs
					for i := 0; i < 4; i++ {
						st.read(cls + idx(i))
					}
					return
				}
			}
		}
		for _, a := range x.Args {
			t.scanExpr(a, st)
		}
	default:
		die("limbs: scan: unsupported expression %s", exprStr(e))
	}
}

func (t *limbTr) scan(ss []ast.Stmt, tail []string, st *rwState) {
	for i, s := range ss {
		switch x := s.(type) {
		case *ast.DeclStmt:
			for _, sp := range x.Decl.(*ast.GenDecl).Specs {
				vs := sp.(*ast.ValueSpec)
				for _, n := range vs.Names {
					if at, ok := vs.Type.(*ast.ArrayType); ok {
						k := int(at.Len.(*ast.BasicLit).Value[0] - '0')
						for j := 0; j < k; j++ {
							st.assigned[n.Name+idx(j)] = true
						}
					} else {
						st.assigned[n.Name] = true
					}
				}
			}
		case *ast.AssignStmt:
			for _, r := range x.Rhs {
				t.scanExpr(r, st)
			}
			for _, l := range x.Lhs {
				st.assigned[t.rawName(l)] = true
			}
		case *ast.BlockStmt:
			t.scan(x.List, nil, st)
		case *ast.IfStmt:
			t.scanExpr(x.Cond, st)
			body := x.Body.List
			if n := len(body); n > 0 {
				if ret, ok := body[n-1].(*ast.ReturnStmt); ok && len(ret.Results) == 0 {
					a := st.clone()
					t.scan(body[:n-1], tail, a)
					st.reads = a.reads
					t.scan(ss[i+1:], tail, st)
					return
				}
			}
			a := st.clone()
			t.scan(body, nil, a)
			st.reads = a.reads
			for _, o := range t.assignedOuter(body) {
				st.read(o)
				st.assigned[o] = true
			}
		case *ast.ExprStmt:
			if c, ok := x.X.(*ast.CallExpr); ok {
				if sel, ok := c.Fun.(*ast.SelectorExpr); ok {
					if recv, ok := sel.X.(*ast.Ident); ok {
						if cls, isElem := t.alias[recv.Name]; isElem {
							for j := 0; j < 4; j++ {
								st.assigned[cls+idx(j)] = true
							}
							continue
						}
					}
				}
			}
			die("limbs: scan: unsupported expression statement")
		case *ast.ReturnStmt:
		default:
			die("limbs: scan: unsupported statement")
		}
	}
	for _, n := range tail {
		st.read(n)
	}
}

// piece: emits a top-level block or `if` as its own definition; returns the `let` that calls it
func (t *limbTr) piece(body []ast.Stmt, rest []ast.Stmt, ind string, kind string) string {
	live := newRW()
	t.scan(rest, t.resTail, live)
	liveSet := map[string]bool{}
	for _, n := range live.reads {
		liveSet[n] = true
	}
	name := t.name + "_" + kind + idx(*t.npiece)
	*t.npiece++

	sub := &limbTr{methods: t.methods, alias: t.alias, dest: t.dest, arrs: map[string]*arrState{}, scalars: map[string]bool{},
		name: name, pieces: t.pieces, npiece: t.npiece,
		outerArr: map[string]bool{}, outerScalar: map[string]bool{}, assignedSc: map[string]bool{},
		u: &usage{used: map[string]bool{}}}
	sub.scopes = append(append([]map[string]bool{}, t.scopes...), map[string]bool{})
	for n, a := range t.arrs {
		if len(a.over) == 4 {
			sub.arrs[n] = &arrState{base: n, over: make([]string, 4)}
			sub.outerArr[n] = true
		} else { // short local arrays are scalars limb by limb
			sub.arrs[n] = &arrState{over: make([]string, len(a.over))}
			for i := range a.over {
				sub.arrs[n].over[i] = n + idx(i)
				sub.scalars[n+idx(i)] = true
				sub.outerScalar[n+idx(i)] = true
			}
		}
	}
	for n := range t.scalars {
		sub.scalars[n] = true
		sub.outerScalar[n] = true
	}
	var outs []string // names bound by the caller
	text := sub.stmts(body, "  ", func() string {
		var vals []string
		for _, a := range sub.u.wroteArr {
			isLive := false
			for i := 0; i < 4; i++ {
				if liveSet[a+idx(i)] {
					isLive = true
				}
			}
			if isLive {
				outs = append(outs, a)
				vals = append(vals, sub.pack(a))
			}
		}
		for _, s := range sub.u.wroteSc {
			if liveSet[s] {
				outs = append(outs, s)
				vals = append(vals, s)
			}
		}
		return tuple(vals)
	})
	if len(outs) == 0 {
		die("limbs: dead top-level statement in %s", t.name)
	}
	var ps, args, tys []string
	for _, p := range sub.u.usedOrder {
		if _, isArr := t.arrs[p]; isArr && len(t.arrs[p].over) == 4 {
			ps = append(ps, "("+p+" : L4)")
			args = append(args, t.pack(p))
		} else {
			ps = append(ps, "("+p+" : Nat)")
			args = append(args, t.readName(p))
		}
	}
	for _, o := range outs {
		if a, isArr := t.arrs[o]; isArr && len(a.over) == 4 {
			tys = append(tys, "L4")
		} else {
			tys = append(tys, "Nat")
		}
	}
	t.pieces.WriteString("def " + name + " " + strings.Join(ps, " ") + " : " + strings.Join(tys, " × ") + " :=\n" + text + "\n")
	for _, o := range outs {
		if a, ok := t.arrs[o]; ok && len(a.over) == 4 {
			a.base = o
			a.over = make([]string, 4)
			if t.outerArr[o] {
				t.u.wroteArr = appendOnce(t.u.wroteArr, o)
			}
		} else {
			t.bindName(o)
		}
	}
	return ind + "let " + tuple(outs) + " := " + name + " " + strings.Join(args, " ") + "\n"
}

// translateLimbFunc: Lean definitions (pieces, then the function) of `fd` under alias classes
func translateLimbFunc(methods map[string]*ast.FuncDecl, fd *ast.FuncDecl, leanName string, alias map[string]string) string {
	np := 0
	t := &limbTr{methods: methods, alias: map[string]string{}, arrs: map[string]*arrState{}, scalars: map[string]bool{},
		scopes: []map[string]bool{{}}, name: leanName, pieces: &strings.Builder{}, npiece: &np, top: true,
		outerArr: map[string]bool{}, outerScalar: map[string]bool{}, assignedSc: map[string]bool{}, u: &usage{used: map[string]bool{}}}
	var params []string
	first := ""
	for _, f := range fd.Type.Params.List {
		ty := exprStr(f.Type)
		for _, n := range f.Names {
			switch ty {
			case "*Element":
				cls := n.Name
				if a, ok := alias[n.Name]; ok {
					cls = a
				}
				t.alias[n.Name] = cls
				if first == "" {
					first = n.Name
				}
				if t.arrs[cls] == nil {
					t.arrs[cls] = &arrState{base: cls, over: make([]string, 4)}
					t.scopes[0][cls] = true
					params = append(params, "("+cls+" : L4)")
				}
			case "uint64":
				t.scopes[0][n.Name] = true
				t.scalars[n.Name] = true
				params = append(params, "("+n.Name+" : Nat)")
			default:
				die("limbs: parameter type %s", ty)
			}
		}
	}
	var resTy, binds string
	var tail func() string
	if fd.Type.Results != nil {
		var rs []string
		for _, f := range fd.Type.Results.List {
			if exprStr(f.Type) != "uint64" || len(f.Names) == 0 {
				die("limbs: result type")
			}
			for _, n := range f.Names {
				t.scopes[0][n.Name] = true
				t.scalars[n.Name] = true
				binds += "  let " + n.Name + " : Nat := 0\n"
				rs = append(rs, n.Name)
			}
		}
		tail = func() string { return tuple(rs) }
		t.resTail = rs
		resTy = "Nat"
		if len(rs) == 2 {
			resTy = "Nat × Nat"
		}
		t.top = false // the arithmetic helpers are single definitions
	} else {
		if first == "" {
			die("limbs: no destination")
		}
		t.dest = first
		c := t.alias[first]
		tail = func() string { return t.pack(c) }
		t.resTail = []string{c + "0", c + "1", c + "2", c + "3"}
		resTy = "L4"
	}
	body := t.stmts(fd.Body.List, "  ", tail)
	return t.pieces.String() + "def " + leanName + " " + strings.Join(params, " ") + " : " + resTy + " :=\n" + binds + body + "\n"
}

func translateLimbs(repo string, writeImp func(string, string, string)) {
	arith := parse(filepath.Join(repo, "bandersnatch/fr/arith.go"))
	elem := parse(filepath.Join(repo, "bandersnatch/fr/element.go"))
	methods := map[string]*ast.FuncDecl{}
	for _, d := range elem.Decls {
		if fd, ok := d.(*ast.FuncDecl); ok && fd.Recv != nil {
			methods[fd.Name.Name] = fd
		}
	}
	var b strings.Builder
	b.WriteString("open GoIpa.Limbs (W L4 mul64 add64 sub64)\n\n")
	for _, n := range []string{"madd0", "madd1", "madd2", "madd3"} {
		b.WriteString(translateLimbFunc(methods, findFunc(arith, n), n, nil))
	}
	type variant struct {
		suffix string
		alias  map[string]string
	}
	three := []variant{{"", nil}, {"_zx", map[string]string{"x": "z"}}, {"_zy", map[string]string{"y": "z"}}, {"_zxy", map[string]string{"x": "z", "y": "z"}}}
	two := []variant{{"", nil}, {"_zx", map[string]string{"x": "z"}}}
	one := []variant{{"", nil}}
	for _, f := range []struct {
		goName, lean string
		vs           []variant
	}{
		{"_mulGeneric", "mulGeneric", three}, {"_addGeneric", "addGeneric", three}, {"_subGeneric", "subGeneric", three},
		{"_doubleGeneric", "doubleGeneric", two}, {"_negGeneric", "negGeneric", two},
		{"_fromMontGeneric", "fromMontGeneric", one}, {"_reduceGeneric", "reduceGeneric", one},
	} {
		fd := findFunc(elem, f.goName)
		for _, v := range f.vs {
			b.WriteString(translateLimbFunc(methods, fd, f.lean+v.suffix, v.alias))
		}
	}
	writeImp("FrLimbs.lean", "import GoIpa.Model.FrLimbs\n", b.String())
}
