// batchconv.go: translates the two batch coordinate conversions of banderwagon/precomp.go —
// batchProjToAffine (feeds every MultiExp) and batchToExtendedPointNormalized (feeds the
// precomputed tables) — by desugaring their slices of structs into one slice per coordinate and
// handing the result to the loop translator (loops.go):
//
//	points []bandersnatch.PointProj / PointExtended      pointsX, pointsY, pointsZ []fr.Element
//	result := make([]…PointAffine / …Normalized, n)      resultX, resultY[, resultT] := make([]fr.Element, n)
//	points[i].Z, result[i].X, …                          pointsZ[i], resultX[i], …
//	fp.One(), fp.Element                                 One(), fr.Element (the base field is the parameter K)
//	parallel.Execute(len(points), func(start, end int) { for i := start; i < end; i++ { BODY } })
//	                                                     for i := 0; i < len(points); i++ { BODY }
//	return result                                        return resultX, resultY[, resultT]
//
// The sequentialisation of parallel.Execute is faithful because BODY reads and writes index i only
// (checked: every index expression in BODY is the identifier i) and the ranges handed to the
// workers tile [0, n) (C20, Tie.Execute).  Each rewrite must apply exactly the expected number of
// times and no use of `points` / `result` may survive; anything else is refused (exit 1).
package main

import (
	"go/parser"
	"path/filepath"
	"regexp"
	"strings"
)

func desugarBatchConv(src string, name string, inTy, outTy string, outFields []string) string {
	die2 := func(msg string) { die("batchconv: %s: %s", name, msg) }
	src = regexp.MustCompile(`(?m)[ \t]*//.*$`).ReplaceAllString(src, "")
	replN := func(old, new string, n int) {
		if c := strings.Count(src, old); c != n {
			die2("expected " + string(rune('0'+n)) + " occurrence(s) of `" + old + "`")
		}
		src = strings.ReplaceAll(src, old, new)
	}
	replN("func "+name+"(points []bandersnatch."+inTy+") []bandersnatch."+outTy+" {",
		"func "+name+"(pointsX []fr.Element, pointsY []fr.Element, pointsZ []fr.Element) ("+strings.TrimSuffix(strings.Repeat("[]fr.Element, ", len(outFields)), ", ")+") {", 1)
	var makes, rets []string
	for _, f := range outFields {
		makes = append(makes, "result"+f+" := make([]fr.Element, len(pointsX))")
		rets = append(rets, "result"+f)
	}
	replN("result := make([]bandersnatch."+outTy+", len(points))", strings.Join(makes, "\n\t"), 1)
	replN("return result\n", "return "+strings.Join(rets, ", ")+"\n", 1)
	// parallel.Execute(len(points), func(start, end int) { for i := start; i < end; i++ { BODY } })
	re := regexp.MustCompile(`(?s)parallel\.Execute\(len\(points\), func\(start, end int\) \{\s*for i := start; i < end; i\+\+ \{(.*?)\n\t\t\}\n\t\}\)`)
	m := re.FindAllStringSubmatchIndex(src, -1)
	if len(m) != 1 {
		die2("the parallel.Execute(len(points), func(start, end int) { for i := start; i < end; i++ {…} }) block was not found exactly once")
	}
	body := src[m[0][2]:m[0][3]]
	for _, ix := range regexp.MustCompile(`\[([^\]]*)\]`).FindAllStringSubmatch(body, -1) {
		if ix[1] != "i" {
			die2("the worker body indexes with `" + ix[1] + "`, not with its own index i")
		}
	}
	if strings.Contains(body, "start") || strings.Contains(body, "end") {
		die2("the worker body uses its range bounds")
	}
	src = src[:m[0][0]] + "for i := 0; i < len(points); i++ {" + body + "\n\t}" + src[m[0][1]:]
	src = strings.ReplaceAll(src, "len(points)", "len(pointsX)")
	src = regexp.MustCompile(`\b(points|result)\[i\]\.([XYZT])\b`).ReplaceAllString(src, "$1$2[i]")
	replN("fp.One()", "One()", 1)
	src = strings.ReplaceAll(src, "fp.Element", "fr.Element")
	if regexp.MustCompile(`\b(points|result)\b`).MatchString(src) {
		die2("a use of `points` / `result` other than a coordinate access survives the desugaring")
	}
	if strings.Contains(src, "pointsT") {
		die2("the T coordinate of the input is read")
	}
	return src
}

func translateBatchConv(repo string, write func(name, imports, content string)) {
	path := filepath.Join(repo, "banderwagon/precomp.go")
	f := parse(path)
	t := &loopTr{fns: map[string]*loopFn{}, consts: map[string]string{}, sb: &strings.Builder{}, labels: map[string]bool{}}
	t.sb.WriteString("namespace BatchConv\nopen GoIpa\n\nsection\nvariable {K : Type} [Zero K] [One K] [Add K] [Sub K] [Mul K] [Neg K] [Inv K] [NatCast K] [DecidableEq K]\n\n")
	for _, c := range []struct {
		name, inTy, outTy string
		out               []string
	}{
		{"batchProjToAffine", "PointProj", "PointAffine", []string{"X", "Y"}},
		{"batchToExtendedPointNormalized", "PointExtended", "PointExtendedNormalized", []string{"X", "Y", "T"}},
	} {
		fd := findFunc(f, c.name)
		src := nodeStr(fd)
		des := desugarBatchConv(src, c.name, c.inTy, c.outTy, c.out)
		nf, err := parser.ParseFile(fset, c.name+".desugared.go", "package p\n\n"+des+"\n", 0)
		if err != nil {
			die("batchconv: %s: the desugared function does not parse: %v\n%s", c.name, err, des)
		}
		t.fnDecl(findFunc(nf, c.name), c.name, c.name, false)
	}
	t.sb.WriteString("end\n\nend BatchConv\n")
	write("BatchConv.lean", "import GoIpa.Model.Loop\n", t.sb.String())
}
