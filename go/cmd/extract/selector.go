// selector.go: translates the word-selector code of bandersnatch/multiexp.go — the computation of
// (index, shift, mask, multiWordSelect, maskHigh, shiftHigh) in `partitionScalars` and in
// `msmProcessChunkPointAffineDMA`, the digit read `(scalar[index] & mask) >> shift (+ high part)`
// and the digit write `out[index] |= bits << shift (; out[index+1] |= bits >> shiftHigh)` —
// into Lean definitions over naturals with explicit 64-bit wrap-around, statement by statement.
// Unknown shapes are refused (exit 1).
package main

import (
	"go/ast"
	"go/token"
	"path/filepath"
	"strings"
)

type selTr struct {
	lines  []string
	arrays map[string]string // Go slice expression prefix (e.g. "scalars[i]") -> Lean list variable
	named  bool              // wrap-around operations as the named functions u64add/u64sub/u64mul/u64shl
}

// wrap renders one wrapping uint64 operation
func (t *selTr) wrap(op, a, b string) string {
	if t.named {
		return "(u64" + op + " " + a + " " + b + ")"
	}
	switch op {
	case "shl":
		return "((" + a + " <<< " + b + ") % " + w64 + ")"
	case "add":
		return "((" + a + " + " + b + ") % " + w64 + ")"
	case "sub":
		return "((" + a + " + " + w64 + " - " + b + ") % " + w64 + ")"
	case "mul":
		return "((" + a + " * " + b + ") % " + w64 + ")"
	}
	die("selector: unknown wrapping operation %s", op)
	return ""
}

const w64 = "18446744073709551616"

func (t *selTr) name(e ast.Expr) string {
	s := exprStr(e)
	s = strings.ReplaceAll(s, ".", "_")
	for _, ch := range s {
		if !(ch == '_' || (ch >= 'a' && ch <= 'z') || (ch >= 'A' && ch <= 'Z') || (ch >= '0' && ch <= '9')) {
			die("selector: unsupported name %s", exprStr(e))
		}
	}
	return s
}

// uint64-valued expression
func (t *selTr) expr(e ast.Expr) string {
	switch x := e.(type) {
	case *ast.BasicLit:
		return x.Value
	case *ast.ParenExpr:
		return t.expr(x.X)
	case *ast.Ident:
		return x.Name
	case *ast.SelectorExpr:
		if exprStr(x) == "fr.Limbs" {
			return "4"
		}
		return t.name(x)
	case *ast.CallExpr:
		if f, ok := x.Fun.(*ast.Ident); ok && (f.Name == "uint64" || f.Name == "int" || f.Name == "uint") && len(x.Args) == 1 {
			return t.expr(x.Args[0])
		}
	case *ast.IndexExpr:
		// scalars[i][s.index]  /  toReturn[i][s.index+1]
		if lv, ok := t.arrays[exprStr(x.X)]; ok {
			return "(" + lv + ".getD (" + t.expr(x.Index) + ") 0)"
		}
	case *ast.BinaryExpr:
		a, b := t.expr(x.X), t.expr(x.Y)
		switch x.Op {
		case token.SHL:
			return t.wrap("shl", a, b)
		case token.SHR:
			return "(" + a + " >>> " + b + ")"
		case token.AND:
			return "(" + a + " &&& " + b + ")"
		case token.OR:
			return "(" + a + " ||| " + b + ")"
		case token.ADD:
			return t.wrap("add", a, b)
		case token.SUB:
			return t.wrap("sub", a, b)
		case token.MUL:
			return t.wrap("mul", a, b)
		case token.QUO:
			return "(" + a + " / " + b + ")"
		case token.REM:
			return "(" + a + " % " + b + ")"
		}
	}
	die("selector: unsupported expression %s", exprStr(e))
	return ""
}

// boolean expression
func (t *selTr) cond(e ast.Expr) string {
	switch x := e.(type) {
	case *ast.ParenExpr:
		return "(" + t.cond(x.X) + ")"
	case *ast.UnaryExpr:
		if x.Op == token.NOT {
			return "(!" + t.cond(x.X) + ")"
		}
	case *ast.Ident:
		return x.Name
	case *ast.SelectorExpr:
		return t.name(x)
	case *ast.BinaryExpr:
		switch x.Op {
		case token.LAND:
			return "(" + t.cond(x.X) + " && " + t.cond(x.Y) + ")"
		case token.LOR:
			return "(" + t.cond(x.X) + " || " + t.cond(x.Y) + ")"
		case token.GTR:
			return "decide (" + t.expr(x.X) + " > " + t.expr(x.Y) + ")"
		case token.LSS:
			return "decide (" + t.expr(x.X) + " < " + t.expr(x.Y) + ")"
		case token.EQL:
			return "decide (" + t.expr(x.X) + " = " + t.expr(x.Y) + ")"
		case token.NEQ:
			return "decide (" + t.expr(x.X) + " ≠ " + t.expr(x.Y) + ")"
		}
	}
	die("selector: unsupported condition %s", exprStr(e))
	return ""
}

func isBoolField(n string) bool { return strings.HasSuffix(n, "multiWordSelect") || n == "cDivides64" }

// one statement -> `let` lines (ind = indentation)
func (t *selTr) stmt(s ast.Stmt, ind string) []string {
	switch x := s.(type) {
	case *ast.AssignStmt:
		if len(x.Lhs) != 1 || len(x.Rhs) != 1 {
			die("selector: unsupported assignment %s", nodeStr(s))
		}
		// d := selector{}
		if cl, ok := x.Rhs[0].(*ast.CompositeLit); ok && exprStr(cl.Type) == "selector" && len(cl.Elts) == 0 {
			d := t.name(x.Lhs[0])
			return []string{
				ind + "let " + d + "_index : Nat := 0", ind + "let " + d + "_mask : Nat := 0", ind + "let " + d + "_shift : Nat := 0",
				ind + "let " + d + "_multiWordSelect : Bool := false", ind + "let " + d + "_maskHigh : Nat := 0", ind + "let " + d + "_shiftHigh : Nat := 0"}
		}
		// out[idx] |= E   (a word of the output vector)
		if ie, ok := x.Lhs[0].(*ast.IndexExpr); ok {
			lv, ok := t.arrays[exprStr(ie.X)]
			if !ok || x.Tok != token.OR_ASSIGN {
				die("selector: unsupported indexed assignment %s", nodeStr(s))
			}
			idx := t.expr(ie.Index)
			return []string{ind + "let " + lv + " := " + lv + ".set (" + idx + ") ((" + lv + ".getD (" + idx + ") 0) ||| " + t.expr(x.Rhs[0]) + ")"}
		}
		n := t.name(x.Lhs[0])
		if isBoolField(n) {
			if x.Tok != token.ASSIGN && x.Tok != token.DEFINE {
				die("selector: unsupported boolean assignment")
			}
			return []string{ind + "let " + n + " : Bool := " + t.cond(x.Rhs[0])}
		}
		switch x.Tok {
		case token.ASSIGN, token.DEFINE:
			return []string{ind + "let " + n + " : Nat := " + t.expr(x.Rhs[0])}
		case token.ADD_ASSIGN:
			return []string{ind + "let " + n + " : Nat := " + t.wrap("add", n, t.expr(x.Rhs[0]))}
		case token.OR_ASSIGN:
			return []string{ind + "let " + n + " : Nat := (" + n + " ||| " + t.expr(x.Rhs[0]) + ")"}
		}
	case *ast.IfStmt:
		if x.Init != nil || x.Else != nil {
			die("selector: if with init/else")
		}
		// names assigned in the body that exist outside (everything except `:=` definitions)
		var outer []string
		var body []string
		for _, b := range x.Body.List {
			as, ok := b.(*ast.AssignStmt)
			if !ok {
				die("selector: unsupported statement in if: %s", nodeStr(b))
			}
			if as.Tok != token.DEFINE {
				if ie, ok := as.Lhs[0].(*ast.IndexExpr); ok {
					outer = appendOnce(outer, t.arrays[exprStr(ie.X)])
				} else {
					outer = appendOnce(outer, t.name(as.Lhs[0]))
				}
			}
			body = append(body, t.stmt(b, ind+"    ")...)
		}
		return []string{ind + "let " + tuple(outer) + " :=\n" + ind + "  if " + t.cond(x.Cond) + " then\n" + strings.Join(body, "\n") + "\n" + ind + "    " + tuple(outer) + "\n" + ind + "  else " + tuple(outer)}
	}
	die("selector: unsupported statement %s", nodeStr(s))
	return nil
}

// statements of `list` from the first one whose text starts with `from` up to (excluding) the
// first later one whose text starts with `until`
func sliceStmts(list []ast.Stmt, from, until string) []ast.Stmt {
	var out []ast.Stmt
	on := false
	for _, s := range list {
		txt := strings.Join(strings.Fields(nodeStr(s)), " ")
		if !on && strings.HasPrefix(txt, from) {
			on = true
		}
		if on && until != "" && strings.HasPrefix(txt, until) {
			break
		}
		if on {
			out = append(out, s)
		}
	}
	if len(out) == 0 {
		die("selector: statements starting at %q not found", from)
	}
	return out
}

func findLoopBody(list []ast.Stmt, headerPrefix string) []ast.Stmt {
	for _, s := range list {
		if fs, ok := s.(*ast.ForStmt); ok {
			hdr := strings.Join(strings.Fields(nodeStr(fs.Init)+"; "+nodeStr(fs.Cond)), " ")
			if strings.HasPrefix(hdr, headerPrefix) {
				return fs.Body.List
			}
		}
	}
	die("selector: loop %q not found", headerPrefix)
	return nil
}

func translateSelectors(repo string) string {
	f := parse(filepath.Join(repo, "bandersnatch/multiexp.go"))
	var b strings.Builder
	emit := func(name, params, resTy, result string, pre []string, stmts []ast.Stmt, arrays map[string]string) {
		t := &selTr{arrays: arrays}
		var ls []string
		ls = append(ls, pre...)
		for _, s := range stmts {
			ls = append(ls, t.stmt(s, "  ")...)
		}
		b.WriteString("def " + name + " " + params + " : " + resTy + " :=\n" + strings.Join(ls, "\n") + "\n  " + result + "\n\n")
	}
	selRes := func(v string) string {
		return "(" + v + "_index, " + v + "_mask, " + v + "_shift, " + v + "_multiWordSelect, " + v + "_maskHigh, " + v + "_shiftHigh)"
	}
	selTy := "Nat × Nat × Nat × Bool × Nat × Nat"
	// --- partitionScalars: constants before the loop, then the loop body up to `selectors[chunk] = d`
	ps := findFunc(f, "partitionScalars")
	pre := sliceStmts(ps.Body.List, "mask := ", "selectors := ")
	body := findLoopBody(ps.Body.List, "chunk := uint64(0); chunk < nbChunks")
	selBody := sliceStmts(body, "jc := ", "selectors[chunk] = d")
	emit("partitionSelector", "(c chunk : Nat)", selTy, selRes("d"), nil, append(append([]ast.Stmt{}, pre...), selBody...), nil)
	// the recoder's two stores, inside `for chunk … { … }` of the worker
	var worker []ast.Stmt
	ast.Inspect(ps, func(n ast.Node) bool {
		if fs, ok := n.(*ast.ForStmt); ok && fs.Init != nil && strings.HasPrefix(strings.Join(strings.Fields(nodeStr(fs.Init)), " "), "chunk := uint64(0)") {
			for _, s := range fs.Body.List {
				if strings.HasPrefix(strings.Join(strings.Fields(nodeStr(s)), " "), "toReturn[i][s.index] |=") {
					worker = fs.Body.List
				}
			}
		}
		return true
	})
	if worker == nil {
		die("selector: recoder stores not found")
	}
	stores := sliceStmts(worker, "toReturn[i][s.index] |=", "")
	emit("recoderStore", "(s_index s_shift s_shiftHigh : Nat) (s_multiWordSelect : Bool) (bits : Nat) (out : List Nat)", "List Nat", "out", nil, stores,
		map[string]string{"toReturn[i]": "out"})
	// --- msmProcessChunkPointAffineDMA: its own selector and the digit read
	pc := findFunc(f, "msmProcessChunkPointAffineDMA")
	pre2 := sliceStmts(pc.Body.List, "mask := ", "for i := 0; i < len(buckets)")
	sel2 := sliceStmts(pc.Body.List, "jc := ", "for i := 0; i < len(scalars)")
	emit("chunkSelector", "(c chunk : Nat)", selTy, selRes("s"), nil, append(append([]ast.Stmt{}, pre2...), sel2...), nil)
	loop := findLoopBody(pc.Body.List, "i := 0; i < len(scalars)")
	read := sliceStmts(loop, "bits := ", "if bits == 0")
	emit("digitRead", "(s_index s_mask s_shift s_maskHigh s_shiftHigh : Nat) (s_multiWordSelect : Bool) (limbs : List Nat)", "Nat", "bits", nil, read,
		map[string]string{"scalars[i]": "limbs"})
	return b.String()
}

// ---------------------------------------------------------------------------------------------
// PrecompPoint.ScalarMul (banderwagon/precomp.go): the body of the window loop, with the group
// operations kept abstract (`ExtendedAddNormalized(res, res, &X)` is `res + X`, `pNeg.Neg(&X)`
// is `-X`, `pp.windows[a][b]` is `windows a b`); the integer part with 64-bit wrap-around.

type precompTr struct {
	sel *selTr
}

func (p *precompTr) point(e ast.Expr) string {
	if u, ok := e.(*ast.UnaryExpr); ok && u.Op == token.AND {
		e = u.X
	}
	if ie, ok := e.(*ast.IndexExpr); ok {
		if ie2, ok := ie.X.(*ast.IndexExpr); ok && exprStr(ie2.X) == "pp.windows" {
			return "(windows (" + p.sel.expr(ie2.Index) + ") (" + p.sel.expr(ie.Index) + "))"
		}
	}
	if id, ok := e.(*ast.Ident); ok {
		return id.Name
	}
	die("precomp: unsupported point expression %s", exprStr(e))
	return ""
}

// block translates a statement list; `k` is the continuation expression (the state tuple)
func (p *precompTr) block(ss []ast.Stmt, ind string, k string) string {
	if len(ss) == 0 {
		return ind + k + "\n"
	}
	s, rest := ss[0], ss[1:]
	switch x := s.(type) {
	case *ast.AssignStmt:
		return strings.Join(p.sel.stmt(x, ind), "\n") + "\n" + p.block(rest, ind, k)
	case *ast.ExprStmt:
		c, ok := x.X.(*ast.CallExpr)
		if !ok {
			die("precomp: unsupported statement %s", nodeStr(s))
		}
		switch fn := exprStr(c.Fun); {
		case fn == "pNeg.Neg" && len(c.Args) == 1:
			return ind + "let pNeg : G := -" + p.point(c.Args[0]) + "\n" + p.block(rest, ind, k)
		case fn == "bandersnatch.ExtendedAddNormalized" && len(c.Args) == 3 && exprStr(c.Args[0]) == "res" && exprStr(c.Args[1]) == "res":
			return ind + "let res : G := res + " + p.point(c.Args[2]) + "\n" + p.block(rest, ind, k)
		}
		die("precomp: unsupported call %s", nodeStr(s))
	case *ast.BranchStmt:
		if x.Tok == token.CONTINUE && x.Label == nil {
			return ind + k + "\n" // the iteration ends here with the current state
		}
	case *ast.IfStmt:
		// both branches continue with the statements after the `if` (assignments made in a
		// branch stay visible); a branch may not declare a variable, whose Go scope would end
		if x.Init != nil {
			die("precomp: if with init")
		}
		noDefine := func(l []ast.Stmt) {
			for _, st := range l {
				if a, ok := st.(*ast.AssignStmt); ok && a.Tok == token.DEFINE {
					die("precomp: declaration inside a branch: %s", nodeStr(st))
				}
			}
		}
		c := p.sel.cond(x.Cond)
		var elseL []ast.Stmt
		if x.Else != nil {
			eb, ok := x.Else.(*ast.BlockStmt)
			if !ok {
				die("precomp: else-if")
			}
			elseL = eb.List
		}
		noDefine(x.Body.List)
		noDefine(elseL)
		thenS := p.block(append(append([]ast.Stmt{}, x.Body.List...), rest...), ind+"  ", k)
		elseS := p.block(append(append([]ast.Stmt{}, elseL...), rest...), ind+"  ", k)
		return ind + "if " + c + " then\n" + thenS + ind + "else\n" + elseS
	}
	die("precomp: unsupported statement %s", nodeStr(s))
	return ""
}

func translatePrecompScalarMul(repo string) string {
	f := parse(filepath.Join(repo, "banderwagon/precomp.go"))
	fd := findMethodOf(f, "PrecompPoint", "ScalarMul")
	norm := func(n ast.Node) string { return strings.Join(strings.Fields(nodeStr(n)), " ") }
	// shape of the function around the loop body
	var shape []string
	var inner *ast.ForStmt
	for _, s := range fd.Body.List {
		if fs, ok := s.(*ast.ForStmt); ok {
			shape = append(shape, "for "+norm(fs.Init)+"; "+norm(fs.Cond)+"; "+norm(fs.Post))
			if len(fs.Body.List) != 1 {
				die("precomp: the limb loop has %d statements", len(fs.Body.List))
			}
			in, ok := fs.Body.List[0].(*ast.ForStmt)
			if !ok {
				die("precomp: the limb loop does not contain the window loop only")
			}
			shape = append(shape, "for "+norm(in.Init)+"; "+norm(in.Cond)+"; "+norm(in.Post))
			inner = in
			continue
		}
		shape = append(shape, norm(s))
	}
	if inner == nil {
		die("precomp: window loop not found")
	}
	p := &precompTr{sel: &selTr{arrays: map[string]string{"scalar": "scalarLimbs"}, named: true}}
	body := p.block(inner.Body.List, "  ", "(res, carry)")
	return "/-- Go's wrapping `uint64` operations -/\n" +
		"def u64add (a b : Nat) : Nat := (a + b) % " + w64 + "\n" +
		"def u64sub (a b : Nat) : Nat := (a + " + w64 + " - b) % " + w64 + "\n" +
		"def u64mul (a b : Nat) : Nat := (a * b) % " + w64 + "\n" +
		"def u64shl (a b : Nat) : Nat := (a <<< b) % " + w64 + "\n" +
		"attribute [irreducible] u64add u64sub u64mul u64shl\n" +
		"def precompShape : List String := [" + quoteAll(shape) + "]\n" +
		"section\nvariable {G : Type} [Add G] [Neg G]\n" +
		"def precompBody (pp_windowSize numWindowsInLimb : Nat) (windows : Nat → Nat → G) (scalarLimbs : List Nat) (l w : Nat) (res : G) (carry : Nat) : G × Nat :=\n" +
		body + "end\n"
}
