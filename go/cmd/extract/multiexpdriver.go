// multiexpdriver.go: the driver `MultiExp` of bandersnatch/multiexp.go.
//   - the body of its splitting loop `for nbChunks < config.NbTasks { … }` is translated statement by
//     statement (loops.go, bucket-method mode) into `chooseStep`, with the float cost model
//     `bestC` as a parameter; the loop header and the initial values are emitted as facts;
//   - every other statement of the function (length check, default task count, the call of
//     partitionScalars, the first-chunk-split decision, the goroutine fan-out over the splits, the
//     last split on the caller's goroutine, the fan-in that adds the partial results in arrival
//     order) is emitted as a normalised statement list, compared with the expected list by a tie
//     theorem: any edit of the driver breaks the tie.
package main

import (
	"go/ast"
	"path/filepath"
	"strings"
)

func translateMultiExpDriver(repo string, write func(name, imports, content string)) {
	f := parse(filepath.Join(repo, "bandersnatch/multiexp.go"))
	me := findFunc(f, "MultiExp")
	if me == nil {
		die("multiexpdriver: MultiExp not found")
	}
	var loop *ast.ForStmt
	var facts []string
	for _, s := range me.Body.List {
		txt := stmtText(s)
		if fs, ok := s.(*ast.ForStmt); ok && fs.Init == nil && fs.Post == nil && fs.Cond != nil && exprStr(fs.Cond) == "nbChunks < config.NbTasks" {
			if loop != nil {
				die("multiexpdriver: two splitting loops")
			}
			loop = fs
			facts = append(facts, "for nbChunks < config.NbTasks { <chooseStep> }")
			continue
		}
		if strings.HasPrefix(txt, "bestC := func(nbPoints int) uint64 {") {
			facts = append(facts, "bestC := <cost model>")
			continue
		}
		if ds, ok := s.(*ast.DeclStmt); ok { // comments attached to a declaration are not part of the statement
			if gd, ok := ds.Decl.(*ast.GenDecl); ok {
				gd.Doc = nil
			}
			txt = stmtText(s)
		}
		facts = append(facts, txt)
	}
	if loop == nil {
		die("multiexpdriver: splitting loop not found")
	}
	// the loop body as a function of the variables it reads and writes
	ast.Inspect(loop.Body, func(n ast.Node) bool {
		if sel, ok := n.(*ast.SelectorExpr); ok && exprStr(sel) == "config.NbTasks" {
			sel.X = ast.NewIdent("cfg")
			sel.Sel = ast.NewIdent("NbTasks")
		}
		return true
	})
	// config.NbTasks -> nbTasks, fr.Limbs -> 4 (gnark: four 64-bit limbs)
	var fix func(e ast.Expr) ast.Expr
	fix = func(e ast.Expr) ast.Expr {
		switch exprStr(e) {
		case "cfg.NbTasks":
			return ast.NewIdent("nbTasks")
		case "fr.Limbs":
			return &ast.BasicLit{Kind: 5, Value: "4"}
		}
		return e
	}
	ast.Inspect(loop.Body, func(n ast.Node) bool {
		switch x := n.(type) {
		case *ast.BinaryExpr:
			x.X, x.Y = fix(x.X), fix(x.Y)
		case *ast.ParenExpr:
			x.X = fix(x.X)
		case *ast.CallExpr:
			for i := range x.Args {
				x.Args[i] = fix(x.Args[i])
			}
		case *ast.IfStmt:
			x.Cond = fix(x.Cond)
		}
		return true
	})
	body := append([]ast.Stmt{}, loop.Body.List...)
	body = append(body, &ast.ReturnStmt{Results: []ast.Expr{ast.NewIdent("C"), ast.NewIdent("nbSplits"), ast.NewIdent("nbChunks"), ast.NewIdent("nbPoints")}})
	ints := func(names ...string) *ast.Field {
		var ids []*ast.Ident
		for _, n := range names {
			ids = append(ids, ast.NewIdent(n))
		}
		return &ast.Field{Names: ids, Type: ast.NewIdent("int")}
	}
	fd := &ast.FuncDecl{Name: ast.NewIdent("chooseStep"),
		Type: &ast.FuncType{Params: &ast.FieldList{List: []*ast.Field{ints("nbTasks", "C", "nbSplits", "nbChunks", "nbPoints")}},
			Results: &ast.FieldList{List: []*ast.Field{{Type: ast.NewIdent("int")}, {Type: ast.NewIdent("int")}, {Type: ast.NewIdent("int")}, {Type: ast.NewIdent("int")}}}},
		Body: &ast.BlockStmt{List: body}}
	t := &loopTr{fns: map[string]*loopFn{}, consts: map[string]string{}, sb: &strings.Builder{}, msm: true, labels: map[string]bool{}}
	extraParams["chooseStep"] = "(bestC : Int → Int)"
	t.sb.WriteString("namespace MultiExpDriver\nopen GoIpa\n\n")
	t.fnDecl(fd, "chooseStep", "chooseStep", false)
	t.sb.WriteString("/-- the statements of `MultiExp` around the splitting loop -/\ndef driver : List String := [" + quoteAll(facts) + "]\n\n")
	// partitionScalars around its two translated regions: the selector loop body (selector.go) and the
	// body of the chunk loop inside the parallel.Execute worker (recode.go + selector.go's digit read)
	{
		ps := findFunc(f, "partitionScalars")
		var outer []string
		nSel, nRec := 0, 0
		for _, s := range ps.Body.List {
			if fs, ok := s.(*ast.ForStmt); ok && fs.Init != nil && strings.HasPrefix(stmtText(fs.Init), "chunk := ") {
				outer = append(outer, "for "+stmtText(fs.Init)+"; "+exprStr(fs.Cond)+"; "+stmtText(fs.Post)+" { <selector> }")
				nSel++
				continue
			}
			if es, ok := s.(*ast.ExprStmt); ok {
				if c, ok := es.X.(*ast.CallExpr); ok && exprStr(c.Fun) == "parallel.Execute" && len(c.Args) == 3 {
					fl, ok := c.Args[1].(*ast.FuncLit)
					if !ok {
						die("multiexpdriver: partitionScalars: the worker of parallel.Execute is not a function literal")
					}
					// inside the worker: the loop over i, inside it the loop over the chunks
					ast.Inspect(fl.Body, func(n ast.Node) bool {
						if fs, ok := n.(*ast.ForStmt); ok && fs.Init != nil && strings.HasPrefix(stmtText(fs.Init), "chunk := ") {
							fs.Body = &ast.BlockStmt{List: []ast.Stmt{&ast.ExprStmt{X: ast.NewIdent("recodeStep")}}}
							nRec++
							return false
						}
						return true
					})
					outer = append(outer, "parallel.Execute("+exprStr(c.Args[0])+", "+strings.Join(strings.Fields(nodeStr(fl)), " ")+", "+exprStr(c.Args[2])+")")
					continue
				}
			}
			outer = append(outer, stmtText(s))
		}
		if nSel != 1 || nRec != 1 {
			die("multiexpdriver: partitionScalars: selector loop / chunk loop not found exactly once (%d, %d)", nSel, nRec)
		}
		t.sb.WriteString("/-- the statements of `partitionScalars` around the selector computation and the recoding step -/\ndef partitionOuter : List String := [" + quoteAll(outer) + "]\n\n")
	}
	t.sb.WriteString("end MultiExpDriver\n")
	write("MultiExpDriver.lean", "import GoIpa.Model.Loop\n", t.sb.String())
}
