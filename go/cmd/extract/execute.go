package main

import (
	"fmt"
	"go/ast"
	"go/token"
	"path/filepath"
	"strings"
)

// translateExecute turns common/parallel.Execute into a Lean function over integers:
// the prologue becomes `let`s, the counting loop becomes a structurally recursive function
// whose state is the tuple of integer variables assigned in the loop body, and the
// `work(_start, _end)` call inside the `go` statement becomes the emitted pair.
// Anything outside this small imperative subset makes the extractor refuse.
func translateExecute(repo string, write func(string, string)) {
	f := parse(filepath.Join(repo, "common/parallel/execute.go"))
	fd := findFunc(f, "Execute")
	if len(fd.Type.Params.List) != 3 {
		die("Execute: unexpected signature")
	}
	nIter := fd.Type.Params.List[0].Names[0].Name
	workName := fd.Type.Params.List[1].Names[0].Name
	maxName := fd.Type.Params.List[2].Names[0].Name

	var b strings.Builder
	var pre []string // prologue lets
	var facts []string
	var loop *ast.ForStmt
	seenWait := false
	for _, st := range fd.Body.List {
		switch s := st.(type) {
		case *ast.AssignStmt:
			if len(s.Lhs) != 1 || len(s.Rhs) != 1 {
				die("Execute: unsupported assignment %s", exprStr(s.Lhs[0]))
			}
			pre = append(pre, fmt.Sprintf("let %s : Int := %s", exprStr(s.Lhs[0]), intExpr(s.Rhs[0], maxName)))
		case *ast.IfStmt:
			pre = append(pre, ifToLets(s, maxName)...)
		case *ast.DeclStmt:
			// var wg sync.WaitGroup
			facts = append(facts, "decl:"+declNames(s))
		case *ast.ForStmt:
			if loop != nil {
				die("Execute: more than one loop")
			}
			loop = s
		case *ast.ExprStmt:
			if exprStr(s.X) == "wg.Wait()" {
				if loop == nil {
					die("Execute: wg.Wait() before the loop")
				}
				seenWait = true
				facts = append(facts, "wait-after-loop")
			} else {
				die("Execute: unsupported statement %s", exprStr(s.X))
			}
		default:
			die("Execute: unsupported statement kind %T", st)
		}
	}
	if loop == nil || !seenWait {
		die("Execute: loop or wg.Wait() missing")
	}
	// loop header: for i := 0; i < nbTasks; i++
	init, ok := loop.Init.(*ast.AssignStmt)
	if !ok || exprStr(init.Rhs[0]) != "0" {
		die("Execute: loop must start at 0")
	}
	iv := exprStr(init.Lhs[0])
	cond, ok := loop.Cond.(*ast.BinaryExpr)
	if !ok || cond.Op != token.LSS || exprStr(cond.X) != iv {
		die("Execute: loop condition must be %s < bound", iv)
	}
	bound := exprStr(cond.Y)
	if inc, ok := loop.Post.(*ast.IncDecStmt); !ok || inc.Tok != token.INC || exprStr(inc.X) != iv {
		die("Execute: loop must increment %s", iv)
	}
	// loop body
	var body []string
	var stateVars []string // variables of the enclosing scope mutated in the body
	emitted := ""
	addState := func(v string) {
		for _, s := range stateVars {
			if s == v {
				return
			}
		}
		stateVars = append(stateVars, v)
	}
	var doBody func(list []ast.Stmt, indent string)
	doBody = func(list []ast.Stmt, indent string) {
		for _, st := range list {
			switch s := st.(type) {
			case *ast.ExprStmt:
				if exprStr(s.X) == "wg.Add(1)" {
					if emitted != "" {
						die("Execute: wg.Add(1) after the go statement")
					}
					facts = append(facts, "add-before-go")
				} else {
					die("Execute: unsupported loop statement %s", exprStr(s.X))
				}
			case *ast.AssignStmt:
				if len(s.Lhs) != 1 {
					die("Execute: unsupported loop assignment")
				}
				name := exprStr(s.Lhs[0])
				if s.Tok == token.DEFINE {
					body = append(body, indent+fmt.Sprintf("let %s : Int := %s", name, intExpr(s.Rhs[0], maxName)))
				} else {
					addState(name)
					body = append(body, indent+fmt.Sprintf("let %s : Int := %s", name, intExpr(s.Rhs[0], maxName)))
				}
			case *ast.IncDecStmt:
				name := exprStr(s.X)
				op := "+"
				if s.Tok == token.DEC {
					op = "-"
				}
				addState(name)
				body = append(body, indent+fmt.Sprintf("let %s : Int := %s %s 1", name, name, op))
			case *ast.IfStmt:
				if s.Else != nil || s.Init != nil {
					die("Execute: unsupported if in loop")
				}
				// if c { x++ ; y-- ...}  ==> per-variable conditional lets
				for _, inner := range s.Body.List {
					switch is := inner.(type) {
					case *ast.IncDecStmt:
						name := exprStr(is.X)
						op := "+"
						if is.Tok == token.DEC {
							op = "-"
						}
						if !strings.HasPrefix(name, "_") {
							addState(name)
						}
						body = append(body, indent+fmt.Sprintf("let %s : Int := if %s then %s %s 1 else %s", name+"'", boolExpr(s.Cond), name, op, name))
					default:
						die("Execute: unsupported statement in loop if")
					}
				}
				// commit the primed names (simultaneous update semantics are preserved because the
				// condition is evaluated on the unprimed values in every line)
				for _, inner := range s.Body.List {
					name := exprStr(inner.(*ast.IncDecStmt).X)
					body = append(body, indent+fmt.Sprintf("let %s : Int := %s'", name, name))
				}
			case *ast.GoStmt:
				fl, ok := s.Call.Fun.(*ast.FuncLit)
				if !ok || len(fl.Body.List) != 2 {
					die("Execute: go statement must run a two-statement closure")
				}
				call, ok := fl.Body.List[0].(*ast.ExprStmt)
				if !ok {
					die("Execute: closure must call work first")
				}
				c, ok := call.X.(*ast.CallExpr)
				if !ok || exprStr(c.Fun) != workName || len(c.Args) != 2 {
					die("Execute: closure must call %s(start, end)", workName)
				}
				done, ok := fl.Body.List[1].(*ast.ExprStmt)
				if !ok || exprStr(done.X) != "wg.Done()" {
					die("Execute: closure must end with wg.Done()")
				}
				emitted = fmt.Sprintf("(%s, %s)", exprStr(c.Args[0]), exprStr(c.Args[1]))
				facts = append(facts, "work-then-done")
			default:
				die("Execute: unsupported loop statement kind %T", st)
			}
		}
	}
	doBody(loop.Body.List, "    ")
	if emitted == "" {
		die("Execute: no go statement in the loop")
	}
	// Lean: loop over fuel (number of iterations), state = (i, stateVars...)
	params := append([]string{iv}, stateVars...)
	b.WriteString("/-- loop of `Execute`, translated statement by statement; `fuel` = iterations left -/\n")
	b.WriteString("def executeLoop (" + nIter + " nbTasks nbIterationsPerCpus : Int) : Nat → " + strings.Repeat("Int → ", len(params)) + "List (Int × Int)\n")
	b.WriteString("  | 0" + strings.Repeat(", _", len(params)) + " => []\n")
	b.WriteString("  | fuel + 1, " + strings.Join(params, ", ") + " =>\n")
	for _, l := range body {
		b.WriteString(l + "\n")
	}
	next := []string{iv + " + 1"}
	next = append(next, stateVars...)
	b.WriteString("    " + emitted + " :: executeLoop " + nIter + " nbTasks nbIterationsPerCpus fuel (" + strings.Join(next, ") (") + ")\n\n")
	b.WriteString("/-- `Execute(" + nIter + ", work, m)`: the (start, end) pairs handed to `work`, in spawn order -/\n")
	b.WriteString("def executeRanges (" + nIter + " : Int) (" + maxName + " : Int) (numCPU : Int := " + maxName + ") : List (Int × Int) :=\n")
	for _, l := range pre {
		b.WriteString("  " + l + "\n")
	}
	var initArgs []string
	initArgs = append(initArgs, "0")
	initArgs = append(initArgs, stateVars...)
	b.WriteString("  executeLoop " + nIter + " nbTasks nbIterationsPerCpus (" + bound + ").toNat (" + strings.Join(initArgs, ") (") + ")\n\n")
	b.WriteString("def executeFacts : List String := [" + quoteAll(facts) + "]\n")
	b.WriteString("def executeLoopBound : String := " + leanString(bound) + "\n")
	write("Execute.lean", b.String())
}

func declNames(s *ast.DeclStmt) string {
	var out []string
	if gd, ok := s.Decl.(*ast.GenDecl); ok {
		for _, sp := range gd.Specs {
			if vs, ok := sp.(*ast.ValueSpec); ok {
				for _, n := range vs.Names {
					out = append(out, n.Name+":"+exprStr(vs.Type))
				}
			}
		}
	}
	return strings.Join(out, ",")
}

// intExpr translates an integer Go expression to Lean (Int; `/` is truncated division: Int.tdiv)
func intExpr(e ast.Expr, maxName string) string {
	switch x := e.(type) {
	case *ast.BasicLit:
		return x.Value
	case *ast.Ident:
		return x.Name
	case *ast.ParenExpr:
		return "(" + intExpr(x.X, maxName) + ")"
	case *ast.BinaryExpr:
		l, r := intExpr(x.X, maxName), intExpr(x.Y, maxName)
		switch x.Op {
		case token.ADD:
			return "(" + l + " + " + r + ")"
		case token.SUB:
			return "(" + l + " - " + r + ")"
		case token.MUL:
			return "(" + l + " * " + r + ")"
		case token.QUO:
			return "(Int.tdiv " + l + " " + r + ")"
		}
	case *ast.CallExpr:
		if exprStr(x.Fun) == "runtime.NumCPU" {
			return "numCPU"
		}
	case *ast.IndexExpr:
		if exprStr(x.X) == maxName && exprStr(x.Index) == "0" {
			return maxName
		}
	}
	die("Execute: unsupported integer expression %s", exprStr(e))
	return ""
}

func boolExpr(e ast.Expr) string {
	if be, ok := e.(*ast.BinaryExpr); ok {
		ops := map[token.Token]string{token.LSS: "<", token.GTR: ">", token.LEQ: "≤", token.GEQ: "≥", token.EQL: "=", token.NEQ: "≠"}
		if op, ok := ops[be.Op]; ok {
			return intExpr(be.X, "") + " " + op + " " + intExpr(be.Y, "")
		}
	}
	die("Execute: unsupported condition %s", exprStr(e))
	return ""
}

// ifToLets handles the two prologue ifs:  if len(maxCpus) == 1 { nbTasks = maxCpus[0] }  and
// if nbIterationsPerCpus < 1 { a = ..; b = .. }
func ifToLets(s *ast.IfStmt, maxName string) []string {
	if s.Else != nil || s.Init != nil {
		die("Execute: unsupported prologue if")
	}
	cond := exprStr(s.Cond)
	var out []string
	if cond == "len("+maxName+") == 1" {
		// the model is parameterised by the explicit limit; the default (NumCPU) is `numCPU`
		for _, st := range s.Body.List {
			as, ok := st.(*ast.AssignStmt)
			if !ok || len(as.Lhs) != 1 {
				die("Execute: unsupported statement in maxCpus if")
			}
			out = append(out, fmt.Sprintf("let %s : Int := %s", exprStr(as.Lhs[0]), intExpr(as.Rhs[0], maxName)))
		}
		return out
	}
	c := boolExpr(s.Cond)
	// all right-hand sides are evaluated with the values before the if (check: no rhs mentions an
	// earlier-assigned lhs of the same block)
	var names []string
	for _, st := range s.Body.List {
		as, ok := st.(*ast.AssignStmt)
		if !ok || len(as.Lhs) != 1 || as.Tok != token.ASSIGN {
			die("Execute: unsupported statement in prologue if")
		}
		name := exprStr(as.Lhs[0])
		rhs := intExpr(as.Rhs[0], maxName)
		for _, prev := range names {
			if strings.Contains(rhs, prev) {
				die("Execute: sequential dependency inside prologue if")
			}
		}
		names = append(names, name)
		out = append(out, fmt.Sprintf("let %s' : Int := if %s then %s else %s", name, c, rhs, name))
	}
	for _, n := range names {
		out = append(out, fmt.Sprintf("let %s : Int := %s'", n, n))
	}
	return out
}
