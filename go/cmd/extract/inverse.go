// inverse.go: translates the limb arithmetic of fr.Element.Inverse (binary extended Euclid on the Montgomery
// representation) piece by piece — the body of the halving loop, the comparison `bigger`, the subtract-and-
// correct branch, the loop conditions and exit tests — into Lean functions over `L4` (Gen/FrInverse.lean).
// The loop skeleton itself (`for { for v[0]&1 == 0 {…}; for u[0]&1 == 0 {…}; bigger = …; if bigger {…} else {…};
// if u == 1 { return r }; if v == 1 { return s } }`) is unbounded and is not translated: it is checked here
// (the second halving loop is the first with v,s renamed to u,r; the else-branch is the if-branch with
// (v,s) and (u,r) exchanged; the two exit tests are the same test on u and on v) and mirrored by
// `Model/FrInverse.lean`, whose steps the tie proves equal to these pieces.
//
//	x[i] = x[i]>>1 | x[i+1]<<63        let x := Big.setLimb x i ((limb x i >>> 1) ||| ((limb x (i+1) <<< 63) % W))
//	x[3] >>= 1                          let x := Big.setLimb x 3 (limb x 3 >>> 1)
//	x[i], c = bits.Add64(a, b, c0)      let p := add64 a b c0; let x := Big.setLimb x i p.1; let c := p.2
//	x[i], _ = bits.Sub64(a, b, c0)      let p := sub64 a b c0; let x := Big.setLimb x i p.1
//	if cond { S } (S assigns one Element)   let x := if cond then (S; x) else x
//
// Anything else is refused (exit 1).
package main

import (
	"fmt"
	"go/ast"
	"go/token"
	"path/filepath"
	"regexp"
	"strings"
)

type invTr struct {
	sb *strings.Builder
}

var ifBodies = map[string]string{}
var ifDefs = &strings.Builder{}

func (t *invTr) die(format string, args ...interface{}) {
	die("inverse: "+format, args...)
}

func (t *invTr) val(e ast.Expr) string {
	switch x := e.(type) {
	case *ast.ParenExpr:
		return "(" + t.val(x.X) + ")"
	case *ast.BasicLit:
		return "(" + x.Value + " : Nat)"
	case *ast.Ident:
		return x.Name
	case *ast.IndexExpr:
		return "(Big.limb " + exprStr(x.X) + " (" + exprStr(x.Index) + " : Int))"
	case *ast.BinaryExpr:
		switch x.Op {
		case token.SHR:
			return "(" + t.val(x.X) + " >>> " + t.val(x.Y) + ")"
		case token.SHL:
			return "((" + t.val(x.X) + " <<< " + t.val(x.Y) + ") % W)"
		case token.OR:
			return "(" + t.val(x.X) + " ||| " + t.val(x.Y) + ")"
		case token.AND:
			return "(" + t.val(x.X) + " &&& " + t.val(x.Y) + ")"
		}
	}
	t.die("unsupported value expression %s", exprStr(e))
	return ""
}

func (t *invTr) cond(e ast.Expr) string {
	switch x := e.(type) {
	case *ast.ParenExpr:
		return "(" + t.cond(x.X) + ")"
	case *ast.UnaryExpr:
		if x.Op == token.NOT {
			return "(¬ " + t.cond(x.X) + ")"
		}
	case *ast.BinaryExpr:
		switch x.Op {
		case token.LAND:
			return "(" + t.cond(x.X) + " ∧ " + t.cond(x.Y) + ")"
		case token.LOR:
			return "(" + t.cond(x.X) + " ∨ " + t.cond(x.Y) + ")"
		case token.EQL:
			return "(" + t.val(x.X) + " = " + t.val(x.Y) + ")"
		case token.LSS:
			return "(" + t.val(x.X) + " < " + t.val(x.Y) + ")"
		}
	}
	t.die("unsupported condition %s", exprStr(e))
	return ""
}

// straight-line limb statements; returns the set of Element variables assigned
func (t *invTr) stmts(ind string, ss []ast.Stmt, np *int) map[string]bool {
	assigned := map[string]bool{}
	for _, s := range ss {
		txt := stmtText(s)
		switch x := s.(type) {
		case *ast.AssignStmt:
			if len(x.Lhs) == 1 && len(x.Rhs) == 1 {
				ix, ok := x.Lhs[0].(*ast.IndexExpr)
				if !ok {
					t.die("unsupported statement %s", txt)
				}
				v := exprStr(ix.X)
				switch x.Tok {
				case token.ASSIGN:
					fmt.Fprintf(t.sb, "%slet %s := Big.setLimb %s (%s : Int) %s\n", ind, v, v, exprStr(ix.Index), t.val(x.Rhs[0]))
				case token.SHR_ASSIGN:
					fmt.Fprintf(t.sb, "%slet %s := Big.setLimb %s (%s : Int) (%s >>> %s)\n", ind, v, v, exprStr(ix.Index), t.val(x.Lhs[0]), t.val(x.Rhs[0]))
				default:
					t.die("unsupported statement %s", txt)
				}
				assigned[v] = true
				continue
			}
			if len(x.Lhs) == 2 && len(x.Rhs) == 1 && x.Tok == token.ASSIGN {
				c, ok := x.Rhs[0].(*ast.CallExpr)
				ix, ok2 := x.Lhs[0].(*ast.IndexExpr)
				if ok && ok2 && len(c.Args) == 3 && (exprStr(c.Fun) == "bits.Add64" || exprStr(c.Fun) == "bits.Sub64") {
					fn := map[string]string{"bits.Add64": "add64", "bits.Sub64": "sub64"}[exprStr(c.Fun)]
					*np++
					p := fmt.Sprintf("p%d", *np)
					v := exprStr(ix.X)
					fmt.Fprintf(t.sb, "%slet %s := %s %s %s %s\n", ind, p, fn, t.val(c.Args[0]), t.val(c.Args[1]), t.val(c.Args[2]))
					fmt.Fprintf(t.sb, "%slet %s := Big.setLimb %s (%s : Int) %s.1\n", ind, v, v, exprStr(ix.Index), p)
					if sc := exprStr(x.Lhs[1]); sc != "_" {
						fmt.Fprintf(t.sb, "%slet %s := %s.2\n", ind, sc, p)
					}
					assigned[v] = true
					continue
				}
			}
		case *ast.IfStmt:
			if x.Init == nil && x.Else == nil {
				sub := &invTr{sb: &strings.Builder{}}
				as := sub.stmts(ind+"    ", x.Body.List, np)
				if len(as) != 1 {
					t.die("an `if` inside a piece must assign exactly one Element: %s", txt)
				}
				var v string
				for k := range as {
					v = k
				}
				// the body only reads and writes v (and literals / its own carries): emitted once as its own function
				ast.Inspect(x.Body, func(n ast.Node) bool {
					if ie, ok := n.(*ast.IndexExpr); ok && exprStr(ie.X) != v {
						t.die("the body of %s reads %s", txt, exprStr(ie.X))
					}
					return true
				})
				key := rename(stmtText(x.Body), map[string]string{v: "x"})
				name, seen := ifBodies[key]
				if !seen {
					name = fmt.Sprintf("go_invIf%d", len(ifBodies)+1)
					ifBodies[key] = name
					sub2 := &invTr{sb: &strings.Builder{}}
					n2 := 0
					sub2.stmts("  ", x.Body.List, &n2)
					fmt.Fprintf(ifDefs, "/-- the body of `if … %s` -/\ndef %s (%s : L4) : L4 :=\n%s  %s\n\n", strings.Join(strings.Fields(stmtText(x.Body)), " ")[:40]+"…", name, v, sub2.sb.String(), v)
				}
				fmt.Fprintf(t.sb, "%slet %s := if %s then %s %s else %s\n", ind, v, t.cond(x.Cond), name, v, v)
				assigned[v] = true
				continue
			}
		}
		t.die("unsupported statement %s", txt)
	}
	return assigned
}

func rename(s string, m map[string]string) string {
	return regexp.MustCompile(`\b[a-z]\b`).ReplaceAllStringFunc(s, func(w string) string {
		if r, ok := m[w]; ok {
			return r
		}
		return w
	})
}

func translateInverse(repo string, write func(name, imports, content string)) {
	f := parse(filepath.Join(repo, "bandersnatch/fr/element.go"))
	fd := findMethod(f, "Inverse")
	ast.Inspect(fd, func(n ast.Node) bool {
		switch x := n.(type) {
		case *ast.GenDecl:
			x.Doc = nil
		case *ast.ValueSpec:
			x.Doc, x.Comment = nil, nil
		}
		return true
	})
	t := &invTr{sb: &strings.Builder{}}
	body := fd.Body.List
	if len(body) != 8 {
		t.die("Inverse has %d top-level statements, expected 8", len(body))
	}
	for k, want := range map[int]string{0: "if x.IsZero() { z.SetZero() return z }", 3: "r := Element{}", 4: "v := *x", 5: "var carry, borrow uint64", 6: "var bigger bool"} {
		if stmtText(body[k]) != want {
			t.die("statement %d is %q, expected %q", k, stmtText(body[k]), want)
		}
	}
	if !strings.HasPrefix(stmtText(body[1]), "var u = Element{") || !strings.HasPrefix(stmtText(body[2]), "var s = Element{") {
		t.die("u / s are not initialised by composite literals")
	}
	outer, ok := body[7].(*ast.ForStmt)
	if !ok || outer.Cond != nil || outer.Init != nil || outer.Post != nil || len(outer.Body.List) != 6 {
		t.die("the outer loop is not `for { … }` with six statements")
	}
	l1, ok1 := outer.Body.List[0].(*ast.ForStmt)
	l2, ok2 := outer.Body.List[1].(*ast.ForStmt)
	if !ok1 || !ok2 || l1.Init != nil || l1.Post != nil || l2.Init != nil || l2.Post != nil {
		t.die("the two halving loops are not `for cond { … }`")
	}
	if rename(stmtText(l1), map[string]string{"v": "u", "s": "r"}) != stmtText(l2) {
		t.die("the second halving loop is not the first with v,s renamed to u,r")
	}
	np := 0
	fmt.Fprintf(t.sb, "/-- the condition of the halving loops: `v[0]&1 == 0` -/\ndef go_invEven (v : L4) : Bool :=\n  decide %s\n\n", t.cond(l1.Cond))
	t.sb.WriteString("/-- the body of the halving loops on (v, s) resp. (u, r) -/\ndef go_invHalve (v s : L4) : L4 × L4 :=\n")
	as := t.stmts("  ", l1.Body.List, &np)
	if len(as) != 2 || !as["v"] || !as["s"] {
		t.die("the halving loop assigns %v, expected v and s", as)
	}
	t.sb.WriteString("  (v, s)\n\n")
	// bigger = !(…)
	bg, ok := outer.Body.List[2].(*ast.AssignStmt)
	if !ok || len(bg.Lhs) != 1 || exprStr(bg.Lhs[0]) != "bigger" || bg.Tok != token.ASSIGN {
		t.die("statement 3 of the loop is not `bigger = …`")
	}
	fmt.Fprintf(t.sb, "/-- `bigger`: v ≥ u, limb by limb from the top -/\ndef go_invBigger (v u : L4) : Bool :=\n  decide %s\n\n", t.cond(bg.Rhs[0]))
	br, ok := outer.Body.List[3].(*ast.IfStmt)
	if !ok || exprStr(br.Cond) != "bigger" || br.Else == nil {
		t.die("statement 4 of the loop is not `if bigger { … } else { … }`")
	}
	els, ok := br.Else.(*ast.BlockStmt)
	if !ok {
		t.die("unexpected else branch")
	}
	sw := map[string]string{"v": "u", "u": "v", "s": "r", "r": "s"}
	if rename(stmtText(br.Body), sw) != stmtText(els) {
		t.die("the else-branch is not the if-branch with (v,s) and (u,r) exchanged")
	}
	t.sb.WriteString("/-- the branch `bigger`: v -= u; s -= r (+ q when it borrowed) — the other branch is the same with (v,s) and (u,r) exchanged -/\ndef go_invSub (v u s r : L4) : L4 × L4 :=\n")
	as = t.stmts("  ", br.Body.List, &np)
	if len(as) != 2 || !as["v"] || !as["s"] {
		t.die("the subtract branch assigns %v, expected v and s", as)
	}
	t.sb.WriteString("  (v, s)\n\n")
	e1, ok1 := outer.Body.List[4].(*ast.IfStmt)
	e2, ok2 := outer.Body.List[5].(*ast.IfStmt)
	if !ok1 || !ok2 || stmtText(e1.Body) != "{ z.Set(&r) return z }" || stmtText(e2.Body) != "{ z.Set(&s) return z }" ||
		rename(exprStr(e1.Cond), map[string]string{"u": "v"}) != exprStr(e2.Cond) {
		t.die("the exit tests have an unknown shape")
	}
	fmt.Fprintf(t.sb, "/-- the exit test `(u[0] == 1) && (u[3]|u[2]|u[1]) == 0` (the same on v) -/\ndef go_invIsOne (u : L4) : Bool :=\n  decide %s\n\n", t.cond(e1.Cond))
	us := compositeUints(mustInit(fd.Body, "u"))
	ss := compositeUints(mustInit(fd.Body, "s"))
	if len(us) != 4 || len(ss) != 4 {
		t.die("u / s do not have four limbs")
	}
	fmt.Fprintf(t.sb, "def invInitU : L4 := ⟨%s⟩\ndef invInitS : L4 := ⟨%s⟩\n\nend FrInverse\n", strings.Join(us, ", "), strings.Join(ss, ", "))
	write("FrInverse.lean", "import GoIpa.Model.Big\n", "namespace FrInverse\nopen GoIpa GoIpa.Limbs\n\n"+ifDefs.String()+t.sb.String())
}
