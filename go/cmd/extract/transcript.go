// transcript.go: translates common/transcript.go — NewTranscript, AppendMessage, AppendScalar,
// AppendPoint, DomainSep, ChallengeScalar — statement by statement into Lean functions over the
// model's transcript state `Tr` (the bytes written to the running hash since its last reset, and the
// pending buffer):
//
//	digest := sha256.New(); digest.Write([]byte(label))          hashed := label
//	&Transcript{state: digest, buff: bytes.NewBuffer(make([]byte, 0, N))}   ⟨hashed, []⟩
//	t.buff.Write(x)                                               buf := buf ++ x
//	t.state.Write(t.buff.Bytes())                                 hashed := hashed ++ buf
//	t.buff.Reset() / t.state.Reset()                              buf := [] / hashed := []
//	bytes := t.state.Sum(nil)                                     bytes := H hashed        (H: the hash, a parameter)
//	var tmp fr.Element; tmp.SetBytesLE(bytes)                     tmp := setLE bytes       (parameter; C16)
//	x := scalar.BytesLE() / point.Bytes()                         x := scBytes scalar / ptBytes point   (parameters)
//	t.AppendMessage(x[:], label) / t.AppendScalar(&tmp, label) / t.DomainSep(label)   calls of the translated methods
//
// Anything else is refused (exit 1).
package main

import (
	"fmt"
	"go/ast"
	"path/filepath"
	"strings"
)

func translateTranscript(repo string, write func(name, imports, content string)) {
	f := parse(filepath.Join(repo, "common/transcript.go"))
	sb := &strings.Builder{}
	sb.WriteString("namespace Transcript\nopen GoIpa\n\nsection\nvariable {F G : Type} (H : Bytes → Bytes) (setLE : Bytes → F) (scBytes : F → Bytes) (ptBytes : G → Bytes)\n\n")
	// the struct: exactly a hash and a buffer
	var fields []string
	ast.Inspect(f, func(n ast.Node) bool {
		if ts, ok := n.(*ast.TypeSpec); ok && ts.Name.Name == "Transcript" {
			for _, fl := range ts.Type.(*ast.StructType).Fields.List {
				for _, nm := range fl.Names {
					fields = append(fields, nm.Name+":"+exprStr(fl.Type))
				}
			}
		}
		return true
	})
	if strings.Join(fields, ",") != "state:hash.Hash,buff:*bytes.Buffer" {
		die("transcript: Transcript has fields %v", fields)
	}
	die2 := func(fn, format string, args ...interface{}) {
		die("transcript: %s: "+format, append([]interface{}{fn}, args...)...)
	}
	// NewTranscript
	{
		fd := findFunc(f, "NewTranscript")
		var st []string
		for _, s := range fd.Body.List {
			st = append(st, stmtText(s))
		}
		want := []string{"digest := sha256.New()", "digest.Write([]byte(label))"}
		if len(st) != 4 || st[0] != want[0] || st[1] != want[1] || st[3] != "return transcript" ||
			!strings.HasPrefix(st[2], "transcript := &Transcript{ state: digest, buff: bytes.NewBuffer(make([]byte, 0, ") {
			die2("NewTranscript", "unknown shape %q", st)
		}
		sb.WriteString("/-- `NewTranscript` -/\ndef go_NewTranscript (label : Bytes) : Tr :=\n  let hashed : Bytes := []\n  let hashed := hashed ++ label\n  ⟨hashed, []⟩\n\n")
	}
	type spec struct{ name, params, ret string }
	for _, sp := range []spec{
		{"AppendMessage", "(t : Tr) (message : Bytes) (label : Bytes)", "Tr"},
		{"AppendScalar", "(t : Tr) (scalar : F) (label : Bytes)", "Tr"},
		{"AppendPoint", "(t : Tr) (point : G) (label : Bytes)", "Tr"},
		{"DomainSep", "(t : Tr) (label : Bytes)", "Tr"},
		{"ChallengeScalar", "(t : Tr) (label : Bytes)", "F × Tr"},
	} {
		fd := findMethod(f, sp.name)
		if fd == nil || len(fd.Recv.List) != 1 || len(fd.Recv.List[0].Names) != 1 || fd.Recv.List[0].Names[0].Name != "t" || exprStr(fd.Recv.List[0].Type) != "*Transcript" {
			die2(sp.name, "unexpected receiver")
		}
		wantSig := map[string]string{
			"AppendMessage": "func(message []byte, label []byte)", "AppendScalar": "func(scalar *fr.Element, label []byte)",
			"AppendPoint": "func(point *banderwagon.Element, label []byte)", "DomainSep": "func(label []byte)",
			"ChallengeScalar": "func(label []byte) fr.Element"}[sp.name]
		if exprStr(fd.Type) != wantSig {
			die2(sp.name, "signature %s, expected %s", exprStr(fd.Type), wantSig)
		}
		implicit := map[string]string{"AppendMessage": "", "AppendScalar": "scBytes ", "AppendPoint": "ptBytes ", "DomainSep": "", "ChallengeScalar": "H setLE scBytes "}
		_ = implicit
		fmt.Fprintf(sb, "/-- `%s` -/\ndef go_%s %s : %s :=\n", sp.name, sp.name, sp.params, sp.ret)
		bytesVars := map[string]bool{"label": true, "message": true}
		elemVars := map[string]bool{}
		returned := false
		for _, s := range fd.Body.List {
			txt := stmtText(s)
			switch {
			case strings.HasPrefix(txt, "t.buff.Write(") && strings.HasSuffix(txt, ")"):
				a := strings.TrimSuffix(strings.TrimPrefix(txt, "t.buff.Write("), ")")
				if !bytesVars[a] {
					die2(sp.name, "unsupported statement %s", txt)
				}
				fmt.Fprintf(sb, "  let t : Tr := { t with buf := t.buf ++ %s }\n", a)
			case txt == "t.state.Write(t.buff.Bytes())":
				sb.WriteString("  let t : Tr := { t with hashed := t.hashed ++ t.buf }\n")
			case txt == "t.buff.Reset()":
				sb.WriteString("  let t : Tr := { t with buf := [] }\n")
			case txt == "t.state.Reset()":
				sb.WriteString("  let t : Tr := { t with hashed := [] }\n")
			case txt == "bytes := t.state.Sum(nil)":
				bytesVars["bytes"] = true
				sb.WriteString("  let bytes : Bytes := H t.hashed\n")
			case txt == "var tmp fr.Element":
				elemVars["tmp"] = true
			case txt == "tmp.SetBytesLE(bytes)" && elemVars["tmp"] && bytesVars["bytes"]:
				sb.WriteString("  let tmp : F := setLE bytes\n")
			case txt == "tmpBytes := scalar.BytesLE()" && sp.name == "AppendScalar":
				bytesVars["tmpBytes[:]"] = true
				sb.WriteString("  let tmpBytes : Bytes := scBytes scalar\n")
			case txt == "tmp_bytes := point.Bytes()" && sp.name == "AppendPoint":
				bytesVars["tmp_bytes[:]"] = true
				sb.WriteString("  let tmp_bytes : Bytes := ptBytes point\n")
			case strings.HasPrefix(txt, "t.AppendMessage(") && strings.HasSuffix(txt, ", label)"):
				a := strings.TrimSuffix(strings.TrimPrefix(txt, "t.AppendMessage("), ", label)")
				if !bytesVars[a] {
					die2(sp.name, "unsupported statement %s", txt)
				}
				fmt.Fprintf(sb, "  let t : Tr := go_AppendMessage t %s label\n", strings.TrimSuffix(a, "[:]"))
			case txt == "t.AppendScalar(&tmp, label)" && elemVars["tmp"]:
				sb.WriteString("  let t : Tr := go_AppendScalar scBytes t tmp label\n")
			case txt == "t.DomainSep(label)":
				sb.WriteString("  let t : Tr := go_DomainSep t label\n")
			case txt == "return tmp" && sp.name == "ChallengeScalar":
				sb.WriteString("  (tmp, t)\n")
				returned = true
			default:
				die2(sp.name, "unsupported statement %s", txt)
			}
		}
		if sp.name != "ChallengeScalar" {
			sb.WriteString("  t\n")
		} else if !returned {
			die2(sp.name, "no return")
		}
		sb.WriteString("\n")
	}
	sb.WriteString("end\n\nend Transcript\n")
	write("Transcript.lean", "import GoIpa.Model.Transcript\n", sb.String())
}
