// goroutines.go: translation of a fan-out / fan-in function of the shape
//
//	ch := make(chan T)                       // unbuffered
//	n := runtime.NumCPU()
//	...integer prologue...
//	for i := 0; i < n; i++ { go func(params) { BODY; ch <- v }(args) }
//	...
//	for i := 0; i < n; i++ { x := <-ch; ... }
//	return ...
//
// (multiproof.go: groupPolynomialsByEvaluationPoint).  The closure becomes a Lean function of the
// outer parameters it captures and of its own parameters, returning the value it sends; the
// function itself gets two extra parameters: `numCPU : Int` (what runtime.NumCPU() returns) and
// `arrival : Int → Int` (the k-th receive yields the value sent by goroutine `arrival k` — on an
// unbuffered channel with one send per goroutine and as many receives as goroutines, every
// execution is described by a bijection `arrival` of [0, n)).  The receive inside the fan-in loop
// over `k` is translated as the closure applied to the spawn arguments at `i := arrival k`.
//
// Everything the reading above relies on is checked on the AST and refused otherwise: the channel
// is unbuffered and used for nothing else, the spawn loop and the fan-in loop have the same header
// `i := 0; i < n; i++`, the spawn loop's body is the single `go` statement, the closure sends
// exactly once, as its last statement, captures parameters of the outer function only, and the
// variables its arguments mention are not assigned after the spawn loop; the fan-in loop receives
// exactly once per iteration, in its first statement.
package main

import (
	"go/ast"
	"go/token"
	"strings"
)

func (t *loopTr) goroutineFn(file *ast.File, goName, leanName string) {
	fd := findFunc(file, goName)
	if fd == nil {
		die("goroutines: function %s not found", goName)
	}
	outerParams := map[string]ast.Expr{}
	var outerOrder []string
	for _, p := range fd.Type.Params.List {
		for _, n := range p.Names {
			outerParams[n.Name] = p.Type
			outerOrder = append(outerOrder, n.Name)
		}
	}
	var chName, cpuVar string
	var chElem ast.Expr
	var spawn *ast.ForStmt
	spawnIdx := -1
	var mainBody []ast.Stmt
	for i, s := range fd.Body.List {
		if as, ok := s.(*ast.AssignStmt); ok && as.Tok == token.DEFINE && len(as.Lhs) == 1 && len(as.Rhs) == 1 {
			if c, ok := as.Rhs[0].(*ast.CallExpr); ok {
				if exprStr(c.Fun) == "make" {
					if ct, ok := c.Args[0].(*ast.ChanType); ok {
						if chName != "" {
							die("goroutines: %s: more than one channel", goName)
						}
						if len(c.Args) != 1 {
							die("goroutines: %s: the channel is buffered", goName)
						}
						chName = as.Lhs[0].(*ast.Ident).Name
						chElem = ct.Value
						continue
					}
				}
				if exprStr(c.Fun) == "runtime.NumCPU" && len(c.Args) == 0 {
					cpuVar = as.Lhs[0].(*ast.Ident).Name
					mainBody = append(mainBody, &ast.AssignStmt{Lhs: as.Lhs, Tok: token.DEFINE, Rhs: []ast.Expr{ast.NewIdent("numCPU")}})
					continue
				}
			}
		}
		if f, ok := s.(*ast.ForStmt); ok && len(f.Body.List) == 1 {
			if _, ok := f.Body.List[0].(*ast.GoStmt); ok {
				if spawn != nil {
					die("goroutines: %s: more than one spawn loop", goName)
				}
				spawn = f
				spawnIdx = i
				continue
			}
		}
		mainBody = append(mainBody, s)
	}
	if chName == "" || cpuVar == "" || spawn == nil {
		die("goroutines: %s: channel / runtime.NumCPU() / spawn loop not found", goName)
	}
	header := func(f *ast.ForStmt) string {
		return exprStr(f.Init.(*ast.AssignStmt).Lhs[0]) + ":=" + exprStr(f.Init.(*ast.AssignStmt).Rhs[0]) + ";" + exprStr(f.Cond) + ";" + exprStr(f.Post.(*ast.IncDecStmt).X) + f.Post.(*ast.IncDecStmt).Tok.String()
	}
	spawnHeader := header(spawn)
	spawnIV := exprStr(spawn.Init.(*ast.AssignStmt).Lhs[0])
	if spawnHeader != spawnIV+":=0;"+spawnIV+" < "+cpuVar+";"+spawnIV+"++" {
		die("goroutines: %s: spawn loop header is %s", goName, spawnHeader)
	}
	gs := spawn.Body.List[0].(*ast.GoStmt)
	lit, ok := gs.Call.Fun.(*ast.FuncLit)
	if !ok {
		die("goroutines: %s: `go` does not start a function literal", goName)
	}
	// ---- the closure
	cbody := lit.Body.List
	if len(cbody) == 0 {
		die("goroutines: %s: empty closure", goName)
	}
	send, ok := cbody[len(cbody)-1].(*ast.SendStmt)
	if !ok || exprStr(send.Chan) != chName {
		die("goroutines: %s: the closure does not end in a send on %s", goName, chName)
	}
	ownNames := map[string]bool{}
	var ownParams []*ast.Field
	for _, p := range lit.Type.Params.List {
		ownParams = append(ownParams, p)
		for _, n := range p.Names {
			ownNames[n.Name] = true
		}
	}
	// outer locals declared before the spawn loop must not be captured (except the channel in the send)
	outerLocals := map[string]bool{}
	for _, s := range fd.Body.List[:spawnIdx] {
		if as, ok := s.(*ast.AssignStmt); ok && as.Tok == token.DEFINE {
			for _, l := range as.Lhs {
				outerLocals[exprStr(l)] = true
			}
		}
		if ds, ok := s.(*ast.DeclStmt); ok {
			for _, sp := range ds.Decl.(*ast.GenDecl).Specs {
				for _, n := range sp.(*ast.ValueSpec).Names {
					outerLocals[n.Name] = true
				}
			}
		}
	}
	captured := map[string]bool{}
	for _, s := range cbody[:len(cbody)-1] {
		ast.Inspect(s, func(n ast.Node) bool {
			switch x := n.(type) {
			case *ast.SendStmt, *ast.GoStmt:
				die("goroutines: %s: send / go inside the closure body", goName)
			case *ast.UnaryExpr:
				if x.Op == token.ARROW {
					die("goroutines: %s: receive inside the closure", goName)
				}
			case *ast.Ident:
				if ownNames[x.Name] {
					return true
				}
				if _, ok := outerParams[x.Name]; ok {
					captured[x.Name] = true
				} else if outerLocals[x.Name] {
					die("goroutines: %s: the closure captures the local variable %s", goName, x.Name)
				}
			}
			return true
		})
	}
	ast.Inspect(send.Value, func(n ast.Node) bool {
		if id, ok := n.(*ast.Ident); ok && (outerLocals[id.Name]) {
			die("goroutines: %s: the closure sends the outer variable %s", goName, id.Name)
		}
		return true
	})
	var capOrder []string
	var params []*ast.Field
	for _, n := range outerOrder {
		if captured[n] {
			capOrder = append(capOrder, n)
			params = append(params, &ast.Field{Names: []*ast.Ident{ast.NewIdent(n)}, Type: outerParams[n]})
		}
	}
	params = append(params, ownParams...)
	wbody := append([]ast.Stmt{}, cbody[:len(cbody)-1]...)
	wbody = append(wbody, &ast.ReturnStmt{Results: []ast.Expr{send.Value}})
	worker := &ast.FuncDecl{
		Name: ast.NewIdent(goName + "Worker"),
		Type: &ast.FuncType{Params: &ast.FieldList{List: params}, Results: &ast.FieldList{List: []*ast.Field{{Type: chElem}}}},
		Body: &ast.BlockStmt{List: wbody},
	}
	workerLean := leanName + "Worker"
	t.fnDecl(worker, goName+"Worker", workerLean, false)

	// ---- the function itself
	if len(gs.Call.Args) != len(t.fns[goName+"Worker"].params)-len(capOrder) {
		die("goroutines: %s: arity of the go call", goName)
	}
	// variables of the spawn arguments must keep their value until the receives
	argVars := map[string]bool{}
	for _, a := range gs.Call.Args {
		ast.Inspect(a, func(n ast.Node) bool {
			if id, ok := n.(*ast.Ident); ok && id.Name != spawnIV {
				argVars[id.Name] = true
			}
			return true
		})
	}
	for _, n := range t.assigned(fd.Body.List[spawnIdx+1:]) {
		if argVars[n] {
			die("goroutines: %s: %s is assigned after the goroutines were started", goName, n)
		}
	}
	// the fan-in loop
	nRecv := 0
	for _, s := range mainBody {
		ast.Inspect(s, func(n ast.Node) bool {
			if u, ok := n.(*ast.UnaryExpr); ok && u.Op == token.ARROW {
				nRecv++
			}
			return true
		})
	}
	var fanIn *ast.ForStmt
	for _, s := range mainBody {
		if f, ok := s.(*ast.ForStmt); ok && len(f.Body.List) > 0 {
			if as, ok := f.Body.List[0].(*ast.AssignStmt); ok && len(as.Rhs) == 1 {
				if u, ok := as.Rhs[0].(*ast.UnaryExpr); ok && u.Op == token.ARROW && exprStr(u.X) == chName {
					fanIn = f
				}
			}
		}
	}
	if fanIn == nil || nRecv != 1 {
		die("goroutines: %s: expected exactly one receive, in the first statement of the fan-in loop (found %d)", goName, nRecv)
	}
	if h := header(fanIn); strings.ReplaceAll(h, exprStr(fanIn.Init.(*ast.AssignStmt).Lhs[0]), spawnIV) != spawnHeader {
		die("goroutines: %s: fan-in loop header %s differs from the spawn loop's %s", goName, h, spawnHeader)
	}
	ety, ok := goType(chElem)
	if !ok {
		die("goroutines: %s: unsupported channel element type %s", goName, exprStr(chElem))
	}
	t.preVars = map[string]lty{"numCPU": tInt}
	t.recvTy = ety
	t.recv = func(iv string) string {
		var args []string
		args = append(args, capOrder...)
		for _, a := range gs.Call.Args {
			args = append(args, t.intExpr(a))
		}
		return "(let " + spawnIV + " : Int := arrival " + iv + "; " + workerLean + " " + strings.Join(args, " ") + ")"
	}
	// the spawn loop variable is in scope (as an Int) inside the receive's `let`
	t.preVars[spawnIV] = tInt
	extraParams[goName] = "(numCPU : Int) (arrival : Int → Int)"
	main := &ast.FuncDecl{Name: fd.Name, Type: fd.Type, Body: &ast.BlockStmt{List: mainBody}}
	t.fnDecl(main, goName, leanName, false)
	t.preVars = nil
	t.recv = nil
}
