// recode.go: translates one iteration of the signed-digit recoding loop of `partitionScalars`
// (bandersnatch/multiexp.go) — the body of `for chunk := uint64(0); chunk < nbChunks; chunk++`
// inside the worker closure: digit = carry + window, the `digit >= max` borrow, the encoding of a
// negative digit as `(-digit-1) | msbWindow`, and the two stores into the output limbs — with the
// statement machinery of loops.go in bucket-method mode.  The selector of the chunk
// (`s := selectors[chunk]`) is a parameter (`s_index … s_shiftHigh`; its computation is
// `partitionSelector` of selector.go); a store through a `uint64` variable wraps at 64 bits.
package main

import (
	"go/ast"
	"go/token"
	"path/filepath"
	"strings"
)

func translateRecode(repo string, write func(name, imports, content string)) {
	f := parse(filepath.Join(repo, "bandersnatch/multiexp.go"))
	ps := findFunc(f, "partitionScalars")
	if ps == nil {
		die("recode: partitionScalars not found")
	}
	// the chunk loop inside the worker closure
	var loop *ast.ForStmt
	ast.Inspect(ps, func(n ast.Node) bool {
		if fs, ok := n.(*ast.ForStmt); ok && fs.Init != nil && stmtText(fs.Init) == "chunk := uint64(0)" {
			for _, s := range fs.Body.List {
				if strings.HasPrefix(stmtText(s), "digit := carry") {
					loop = fs
				}
			}
		}
		return true
	})
	if loop == nil {
		die("recode: recoding loop not found")
	}
	if h := stmtText(loop.Init) + "; " + exprStr(loop.Cond) + "; " + stmtText(loop.Post); h != "chunk := uint64(0); chunk < nbChunks; chunk++" {
		die("recode: loop header is %s", h)
	}
	var body []ast.Stmt
	for i, s := range loop.Body.List {
		txt := stmtText(s)
		if i == 0 {
			if txt != "s := selectors[chunk]" {
				die("recode: the loop does not start with `s := selectors[chunk]`: %s", txt)
			}
			continue
		}
		body = append(body, s)
	}
	// rewrite: s.f -> s_f, toReturn[i] -> out, continue -> return out, carry
	var rewrite func(n ast.Node) ast.Node
	rewriteExpr := func(e ast.Expr) ast.Expr {
		switch x := e.(type) {
		case *ast.SelectorExpr:
			if exprStr(x.X) == "s" {
				return ast.NewIdent("s_" + x.Sel.Name)
			}
		case *ast.IndexExpr:
			if exprStr(x) == "toReturn[i]" {
				return ast.NewIdent("out")
			}
		}
		return e
	}
	rewrite = func(n ast.Node) ast.Node {
		ast.Inspect(n, func(m ast.Node) bool {
			switch x := m.(type) {
			case *ast.BinaryExpr:
				x.X, x.Y = rewriteExpr(x.X), rewriteExpr(x.Y)
			case *ast.UnaryExpr:
				x.X = rewriteExpr(x.X)
			case *ast.ParenExpr:
				x.X = rewriteExpr(x.X)
			case *ast.IndexExpr:
				x.X, x.Index = rewriteExpr(x.X), rewriteExpr(x.Index)
			case *ast.CallExpr:
				for i := range x.Args {
					x.Args[i] = rewriteExpr(x.Args[i])
				}
			case *ast.AssignStmt:
				for i := range x.Lhs {
					x.Lhs[i] = rewriteExpr(x.Lhs[i])
				}
				for i := range x.Rhs {
					x.Rhs[i] = rewriteExpr(x.Rhs[i])
				}
			case *ast.IfStmt:
				x.Cond = rewriteExpr(x.Cond)
			}
			return true
		})
		return n
	}
	ret := func() ast.Stmt {
		return &ast.ReturnStmt{Results: []ast.Expr{ast.NewIdent("out"), ast.NewIdent("carry")}}
	}
	var fix func(ss []ast.Stmt) []ast.Stmt
	fix = func(ss []ast.Stmt) []ast.Stmt {
		var out []ast.Stmt
		for _, s := range ss {
			rewrite(s)
			switch x := s.(type) {
			case *ast.BranchStmt:
				if x.Tok != token.CONTINUE {
					die("recode: unexpected branch statement")
				}
				out = append(out, ret())
				continue
			case *ast.IfStmt:
				x.Body.List = fix(x.Body.List)
				if b, ok := x.Else.(*ast.BlockStmt); ok {
					b.List = fix(b.List)
				}
			}
			out = append(out, s)
		}
		return out
	}
	body = append(fix(body), ret())
	mk := func(names []string, ty string) *ast.Field {
		var ids []*ast.Ident
		for _, n := range names {
			ids = append(ids, ast.NewIdent(n))
		}
		return &ast.Field{Names: ids, Type: ast.NewIdent(ty)}
	}
	fd := &ast.FuncDecl{
		Name: ast.NewIdent("recodeStep"),
		Type: &ast.FuncType{
			Params: &ast.FieldList{List: []*ast.Field{
				mk([]string{"c", "max", "msbWindow", "s_index", "s_mask", "s_shift", "s_maskHigh", "s_shiftHigh"}, "int"),
				mk([]string{"s_multiWordSelect"}, "bool"),
				{Names: []*ast.Ident{ast.NewIdent("scalar"), ast.NewIdent("out")}, Type: &ast.ArrayType{Elt: ast.NewIdent("uint8")}},
				mk([]string{"carry"}, "int"),
			}},
			Results: &ast.FieldList{List: []*ast.Field{{Type: &ast.ArrayType{Elt: ast.NewIdent("uint8")}}, {Type: ast.NewIdent("int")}}},
		},
		Body: &ast.BlockStmt{List: body},
	}
	t := &loopTr{fns: map[string]*loopFn{}, consts: map[string]string{}, sb: &strings.Builder{}, msm: true, labels: map[string]bool{}, u64: map[string]bool{}}
	t.sb.WriteString("namespace Recode\nopen GoIpa\n\n")
	t.fnDecl(fd, "recodeStep", "recodeStep", false)
	t.sb.WriteString("end Recode\n")
	write("Recode.lean", "import GoIpa.Model.Loop\n", t.sb.String())
}
