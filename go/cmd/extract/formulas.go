// formulas.go: translates the straight-line field-element code of the repository's own curve
// routines (method-call style: `A.Mul(&x, &y)`, chained calls, `p.Y = p1.Y`) into Lean
// expressions over an arbitrary field-like type, statement by statement.  Every variable or
// struct field path (`p1.X`, `p.inner.Y`) becomes one Lean name (`p1X`, `pY`); the receiver of a
// method is re-bound by a `let` (Lean shadowing gives the SSA versions), so a receiver that
// aliases an operand is handled as Go does.  Translation stops at the first statement listed in
// `stopAt` (e.g. the square-root call) and returns the requested values.
// Unknown shapes are refused (exit 1).
package main

import (
	"go/ast"
	"go/token"
	"path/filepath"
	"strconv"
	"strings"
)

type formTr struct {
	known map[string]bool // bound Lean names
	lines []string
}

// Lean name of an operand expression (`&x`, `x`, `p1.X`, `&bandersnatch.CurveParams.A`)
func (t *formTr) operand(e ast.Expr) string {
	if u, ok := e.(*ast.UnaryExpr); ok && u.Op == token.AND {
		e = u.X
	}
	s := exprStr(e)
	switch s {
	case "CurveParams.A", "bandersnatch.CurveParams.A":
		return "a"
	case "CurveParams.D", "bandersnatch.CurveParams.D":
		return "d"
	}
	s = strings.ReplaceAll(s, ".inner.", ".")
	name := strings.ReplaceAll(s, ".", "")
	for _, ch := range name {
		if !(ch == '_' || (ch >= 'a' && ch <= 'z') || (ch >= 'A' && ch <= 'Z') || (ch >= '0' && ch <= '9')) {
			die("formulas: unsupported operand %s", s)
		}
	}
	return name
}

func (t *formTr) use(n string) string {
	if n != "a" && n != "d" && !t.known[n] {
		die("formulas: %s used before it is bound", n)
	}
	return n
}

func (t *formTr) bind(n, rhs string) {
	t.lines = append(t.lines, "  let "+n+" : K := "+rhs)
	t.known[n] = true
}

// one method call `recv.Op(args)`; returns the receiver name
func (t *formTr) method(recv string, op string, args []ast.Expr) {
	var as []string
	for _, a := range args {
		as = append(as, t.use(t.operand(a)))
	}
	arity := map[string]int{"Mul": 2, "Add": 2, "Sub": 2, "Div": 2, "Square": 1, "Neg": 1, "Set": 1, "Inverse": 1, "Double": 1, "SetOne": 0, "SetZero": 0}
	n, ok := arity[op]
	if !ok || n != len(as) {
		die("formulas: unsupported method %s/%d", op, len(as))
	}
	switch op {
	case "Mul":
		t.bind(recv, as[0]+" * "+as[1])
	case "Add":
		t.bind(recv, as[0]+" + "+as[1])
	case "Sub":
		t.bind(recv, as[0]+" - "+as[1])
	case "Div":
		t.bind(recv, as[0]+" * "+as[1]+"⁻¹")
	case "Square":
		t.bind(recv, as[0]+" * "+as[0])
	case "Neg":
		t.bind(recv, "-"+as[0])
	case "Set":
		t.bind(recv, as[0])
	case "Inverse":
		t.bind(recv, as[0]+"⁻¹")
	case "Double":
		t.bind(recv, as[0]+" + "+as[0])
	case "SetOne":
		t.bind(recv, "1")
	case "SetZero":
		t.bind(recv, "0")
	}
}

// a (possibly chained) call expression whose innermost receiver is a field element
func (t *formTr) callChain(c *ast.CallExpr) {
	sel, ok := c.Fun.(*ast.SelectorExpr)
	if !ok {
		die("formulas: unsupported call %s", exprStr(c))
	}
	if name := exprStr(c.Fun); name == "gnarkfr.MulBy5" || name == "fp.MulBy5" {
		if len(c.Args) != 1 {
			die("formulas: MulBy5 arity")
		}
		x := t.use(t.operand(c.Args[0]))
		t.bind(x, "((5 : Nat) : K) * "+x)
		return
	}
	if inner, ok := sel.X.(*ast.CallExpr); ok { // chained: evaluate the inner call first
		t.callChain(inner)
		t.method(t.chainRecv(inner), sel.Sel.Name, c.Args)
		return
	}
	t.method(t.operand(sel.X), sel.Sel.Name, c.Args)
}

func (t *formTr) chainRecv(c *ast.CallExpr) string {
	sel := c.Fun.(*ast.SelectorExpr)
	if inner, ok := sel.X.(*ast.CallExpr); ok {
		return t.chainRecv(inner)
	}
	return t.operand(sel.X)
}

// translateFormula: `inputs` are the Lean parameters (already-bound names), `outputs` the names
// returned (as a tuple); translation covers the statements before the first one whose source
// text starts with `stopAt` ("" = whole body, ignoring `return`)
func translateFormula(fd *ast.FuncDecl, leanName string, inputs, outputs []string, stopAt string) string {
	t := &formTr{known: map[string]bool{}}
	for _, in := range inputs {
		t.known[in] = true
	}
	for _, s := range fd.Body.List {
		if stopAt != "" && strings.HasPrefix(nodeStr(s), stopAt) {
			break
		}
		switch x := s.(type) {
		case *ast.DeclStmt:
			gd := x.Decl.(*ast.GenDecl)
			for _, sp := range gd.Specs {
				vs, ok := sp.(*ast.ValueSpec)
				if !ok || len(vs.Values) != 0 {
					die("formulas: unsupported declaration in %s", fd.Name.Name)
				}
				ty := exprStr(vs.Type)
				if ty != "fp.Element" && ty != "gnarkfr.Element" {
					die("formulas: declaration of type %s", ty)
				}
				for _, n := range vs.Names {
					t.bind(n.Name, "0")
				}
			}
		case *ast.ExprStmt:
			c, ok := x.X.(*ast.CallExpr)
			if !ok {
				die("formulas: unsupported statement in %s", fd.Name.Name)
			}
			t.callChain(c)
		case *ast.AssignStmt:
			if len(x.Lhs) != 1 || len(x.Rhs) != 1 {
				die("formulas: unsupported assignment in %s", fd.Name.Name)
			}
			if _, isCall := x.Rhs[0].(*ast.CallExpr); isCall {
				die("formulas: assignment from a call in %s: %s", fd.Name.Name, nodeStr(s))
			}
			t.bind(t.operand(x.Lhs[0]), t.use(t.operand(x.Rhs[0])))
		case *ast.ReturnStmt:
			// the values are taken from `outputs`
		default:
			die("formulas: unsupported statement in %s: %s", fd.Name.Name, nodeStr(s))
		}
	}
	var ps []string
	for _, in := range inputs {
		ps = append(ps, "("+in+" : K)")
	}
	var outs []string
	for _, o := range outputs {
		outs = append(outs, t.use(o))
	}
	ty := "K"
	for i := 1; i < len(outs); i++ {
		ty += " × K"
	}
	return "def " + leanName + " (a d : K) " + strings.Join(ps, " ") + " : " + ty + " :=\n" + strings.Join(t.lines, "\n") + "\n  " + tuple(outs) + "\n\n"
}

func nodeStr(n ast.Node) string {
	var sb strings.Builder
	printerFprint(&sb, n)
	return sb.String()
}

func translateFormulas(repo string, writeImp func(string, string, string)) {
	bs := parse(filepath.Join(repo, "bandersnatch/bandersnatch.go"))
	el := parse(filepath.Join(repo, "banderwagon/element.go"))
	var b strings.Builder
	b.WriteString("section\nvariable {K : Type} [Zero K] [One K] [Add K] [Sub K] [Mul K] [Neg K] [Inv K] [NatCast K]\n\n")
	b.WriteString(translateFormula(findFunc(bs, "ExtendedAddNormalized"), "extendedAddNormalized",
		[]string{"p1X", "p1Y", "p1Z", "p1T", "p2X", "p2Y", "p2T"}, []string{"pX", "pY", "pZ", "pT"}, ""))
	b.WriteString(translateFormula(findMethodOf(bs, "PointExtendedNormalized", "Neg"), "extNormalizedNeg",
		[]string{"p1X", "p1Y", "p1T"}, []string{"pX", "pY", "pT"}, ""))
	b.WriteString(translateFormula(findFunc(bs, "PointExtendedFromProj"), "extendedFromProjT",
		[]string{"pX", "pY", "pZ"}, []string{"z"}, "return"))
	b.WriteString(translateFormula(findFunc(bs, "computeY"), "computeYSquare",
		[]string{"x"}, []string{"y"}, "sqrtY :="))
	b.WriteString(translateFormula(findFunc(el, "subgroupCheck"), "subgroupCheckArg",
		[]string{"x"}, []string{"res"}, "if "))
	b.WriteString(translateFormula(findMethod(el, "mapToBaseField"), "mapToBaseField",
		[]string{"pX", "pY"}, []string{"res"}, ""))
	b.WriteString("end\n")
	// Equal: the two zero tests and the cross products, as facts
	eq := findMethod(el, "Equal")
	var facts []string
	for _, s := range eq.Body.List {
		if ds, ok := s.(*ast.DeclStmt); ok {
			ds.Decl.(*ast.GenDecl).Doc = nil
		}
		facts = append(facts, strings.Join(strings.Fields(nodeStr(s)), " "))
	}
	b.WriteString("def equalBody : List String := [" + quoteAll(facts) + "]\n")
	b.WriteString(translateSqrtChain(repo))
	b.WriteString(translateMsmInstances(repo))
	b.WriteString(translateSelectors(repo))
	b.WriteString(translatePrecompScalarMul(repo))
	writeImp("Formulas.lean", "", b.String())
}

func findMethodOf(f *ast.File, recvType, name string) *ast.FuncDecl {
	for _, d := range f.Decls {
		if fd, ok := d.(*ast.FuncDecl); ok && fd.Name.Name == name && fd.Recv != nil && len(fd.Recv.List) == 1 {
			t := exprStr(fd.Recv.List[0].Type)
			if strings.TrimPrefix(t, "*") == recvType {
				return fd
			}
		}
	}
	die("method %s.%s not found", recvType, name)
	return nil
}

// translateSqrtChain: the addition chain of sqrtAlg_ComputeRelevantPowers as data:
// (op, dst, a, b, n) with op ∈ {"sq", "mul", "sqn"}
func translateSqrtChain(repo string) string {
	f := parse(filepath.Join(repo, "bandersnatch/fp/sqrt.go"))
	fd := findFunc(f, "sqrtAlg_ComputeRelevantPowers")
	name := func(e ast.Expr) string {
		if u, ok := e.(*ast.UnaryExpr); ok && u.Op == token.AND {
			e = u.X
		}
		id, ok := e.(*ast.Ident)
		if !ok {
			die("sqrt chain: unsupported operand %s", exprStr(e))
		}
		return id.Name
	}
	var ops []string
	helper := ""
	for _, s := range fd.Body.List {
		switch x := s.(type) {
		case *ast.DeclStmt:
		case *ast.AssignStmt: // SquareEqNTimes := func(z, n) { for i := 0; i < n; i++ { z.Square(z) } }
			if len(x.Lhs) == 1 && exprStr(x.Lhs[0]) == "SquareEqNTimes" {
				helper = strings.Join(strings.Fields(nodeStr(x.Rhs[0])), " ")
				continue
			}
			die("sqrt chain: unsupported assignment %s", nodeStr(s))
		case *ast.ExprStmt:
			c, ok := x.X.(*ast.CallExpr)
			if !ok {
				die("sqrt chain: unsupported statement %s", nodeStr(s))
			}
			if id, ok := c.Fun.(*ast.Ident); ok && id.Name == "SquareEqNTimes" && len(c.Args) == 2 {
				n, ok := c.Args[1].(*ast.BasicLit)
				if !ok {
					die("sqrt chain: non-literal repetition count")
				}
				ops = append(ops, "(\"sqn\", "+leanString(name(c.Args[0]))+", \"\", \"\", "+n.Value+")")
				continue
			}
			sel, ok := c.Fun.(*ast.SelectorExpr)
			if !ok {
				die("sqrt chain: unsupported call %s", nodeStr(s))
			}
			dst := name(sel.X)
			switch {
			case sel.Sel.Name == "Square" && len(c.Args) == 1:
				ops = append(ops, "(\"sq\", "+leanString(dst)+", "+leanString(name(c.Args[0]))+", \"\", 0)")
			case sel.Sel.Name == "Mul" && len(c.Args) == 2:
				ops = append(ops, "(\"mul\", "+leanString(dst)+", "+leanString(name(c.Args[0]))+", "+leanString(name(c.Args[1]))+", 0)")
			default:
				die("sqrt chain: unsupported method %s", nodeStr(s))
			}
		default:
			die("sqrt chain: unsupported statement %s", nodeStr(s))
		}
	}
	return "def sqrtChainHelper : String := " + leanString(helper) + "\n" +
		"def sqrtChain : List (String × String × String × String × Nat) := [\n  " + strings.Join(ops, ",\n  ") + "]\n"
}

// translateMsmInstances: the template instances msmC<k> of multiexp.go and the dispatch switch,
// as normalised statement lists (comments dropped, whitespace collapsed)
func translateMsmInstances(repo string) string {
	f := parse(filepath.Join(repo, "bandersnatch/multiexp.go"))
	norm := func(n ast.Node) string { return strings.Join(strings.Fields(nodeStr(n)), " ") }
	var insts []string
	for _, d := range f.Decls {
		fd, ok := d.(*ast.FuncDecl)
		if !ok || !strings.HasPrefix(fd.Name.Name, "msmC") || fd.Recv != nil {
			continue
		}
		k := strings.TrimPrefix(fd.Name.Name, "msmC")
		if _, err := strconv.Atoi(k); err != nil {
			continue
		}
		var stmts []string
		stmts = append(stmts, norm(fd.Type))
		for _, s := range fd.Body.List {
			if ds, ok := s.(*ast.DeclStmt); ok {
				if gd, ok := ds.Decl.(*ast.GenDecl); ok {
					gd.Doc = nil
					for _, sp := range gd.Specs {
						if vs, ok := sp.(*ast.ValueSpec); ok {
							vs.Doc, vs.Comment = nil, nil
						}
					}
				}
			}
			stmts = append(stmts, norm(s))
		}
		insts = append(insts, "("+k+", ["+quoteAll(stmts)+"])")
	}
	// dispatch: case k -> call
	var cases []string
	inner := findFunc(f, "msmInnerPointProj")
	ast.Inspect(inner, func(n ast.Node) bool {
		if cc, ok := n.(*ast.CaseClause); ok && len(cc.List) == 1 && len(cc.Body) == 1 {
			cases = append(cases, "("+exprStr(cc.List[0])+", "+leanString(norm(cc.Body[0]))+")")
		}
		return true
	})
	return "def msmInstances : List (Nat × List String) := [\n  " + strings.Join(insts, ",\n  ") + "]\n" +
		"def msmDispatch : List (Nat × String) := [" + strings.Join(cases, ", ") + "]\n"
}
