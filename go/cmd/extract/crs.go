// crs.go: translates ipa.GenerateRandomPoints (the derivation of the CRS) statement by statement:
//
//	for uint64(len(points)) != numPoints { BODY }      Loop.whileN fuel (fun st => st.1.length ≠ numPoints) BODY (points, increment)
//	digest := sha256.New(); digest.Write([]byte(seed)); b := make([]byte, 8); binary.BigEndian.PutUint64(b, increment);
//	digest.Write(b); hash := digest.Sum(nil)            hash := H (seed ++ natToBE 8 increment)
//	var x fp.Element; x.SetBytes(hash)                  x := fpSetBytes hash          (gnark's reducing decoder: parameter)
//	increment++
//	x_as_bytes := x.Bytes()                             x_as_bytes := fpBytes x
//	var point_found banderwagon.Element
//	err := point_found.SetBytes(x_as_bytes[:]); if err != nil { continue }   match decode x_as_bytes with | none => (points, increment) | some p => …
//	points = append(points, point_found)
//
// The loop has no bound in Go; the translation takes the number of iterations as `fuel` (the tie is
// for every fuel).  Anything else is refused (exit 1).
package main

import (
	"go/ast"
	"path/filepath"
	"strings"
)

func translateCRS(repo string, write func(name, imports, content string)) {
	f := parse(filepath.Join(repo, "ipa/config.go"))
	fd := findFunc(f, "GenerateRandomPoints")
	if exprStr(fd.Type) != "func(numPoints uint64) []banderwagon.Element" {
		die("crs: GenerateRandomPoints has signature %s", exprStr(fd.Type))
	}
	ast.Inspect(fd, func(n ast.Node) bool {
		switch x := n.(type) {
		case *ast.GenDecl:
			x.Doc = nil
		case *ast.ValueSpec:
			x.Doc, x.Comment = nil, nil
		}
		return true
	})
	var st []string
	for _, s := range fd.Body.List {
		st = append(st, stmtText(s))
	}
	if len(st) != 5 || !strings.HasPrefix(st[0], "seed := \"") || st[1] != "points := []banderwagon.Element{}" || st[2] != "var increment uint64 = 0" || st[4] != "return points" {
		die("crs: GenerateRandomPoints: unknown outer shape %q", st)
	}
	seed := strings.TrimPrefix(st[0], "seed := ")
	loop, ok := fd.Body.List[3].(*ast.ForStmt)
	if !ok || loop.Init != nil || loop.Post != nil || exprStr(loop.Cond) != "uint64(len(points)) != numPoints" {
		die("crs: GenerateRandomPoints: unknown loop header")
	}
	var body []string
	for _, s := range loop.Body.List {
		body = append(body, stmtText(s))
	}
	want := []string{
		"digest := sha256.New()",
		"digest.Write([]byte(seed))",
		"b := make([]byte, 8)",
		"binary.BigEndian.PutUint64(b, increment)",
		"digest.Write(b)",
		"hash := digest.Sum(nil)",
		"var x fp.Element",
		"x.SetBytes(hash)",
		"increment++",
		"x_as_bytes := x.Bytes()",
		"var point_found banderwagon.Element",
		"err := point_found.SetBytes(x_as_bytes[:])",
		"if err != nil { continue }",
		"points = append(points, point_found)",
	}
	if len(body) != len(want) {
		die("crs: GenerateRandomPoints: the loop body has %d statements, expected %d: %q", len(body), len(want), body)
	}
	for i := range want {
		if body[i] != want[i] {
			die("crs: GenerateRandomPoints: statement %d is %q, expected %q", i, body[i], want[i])
		}
	}
	sb := &strings.Builder{}
	sb.WriteString("namespace CRS\nopen GoIpa\n\nsection\nvariable {K G : Type} (H : Bytes → Bytes) (fpSetBytes : Bytes → K) (fpBytes : K → Bytes) (decode : Bytes → Option G)\n\n")
	sb.WriteString("def seed : Bytes := str " + seed + "\n\n")
	sb.WriteString(`/-- the body of the derivation loop on (points, increment) -/
def go_crsBody (st : List G × Nat) : List G × Nat :=
  let (points, increment) := st
  let digest : Bytes := []
  let digest := digest ++ seed
  let b : Bytes := natToBE 8 increment
  let digest := digest ++ b
  let hash : Bytes := H digest
  let x : K := fpSetBytes hash
  let increment := increment + 1
  let x_as_bytes : Bytes := fpBytes x
  match decode x_as_bytes with
  | none => (points, increment)
  | some point_found =>
    let points := points ++ [point_found]
    (points, increment)

/-- ` + "`GenerateRandomPoints`" + `, cut off after ` + "`fuel`" + ` iterations of its loop -/
def go_GenerateRandomPoints (fuel : Nat) (numPoints : Nat) : List G :=
  let points : List G := []
  let increment : Nat := 0
  let (points, _) := Loop.whileN fuel (fun (st : List G × Nat) => decide (st.1.length ≠ numPoints))
    (go_crsBody H fpSetBytes fpBytes decode) (points, increment)
  points

end

end CRS
`)
	write("CRS.lean", "import GoIpa.Model.Loop\nimport GoIpa.Model.Basic\nimport GoIpa.Model.Sha256\nimport GoIpa.Model.Ipa\n", sb.String())
}
