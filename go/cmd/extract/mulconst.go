// mulconst.go: translates mulByConstant, _butterflyGeneric and SetUint64 of bandersnatch/fr/element.go (the
// portable versions of MulBy3 / MulBy5 / MulBy13 / Butterfly) into Lean over the limb routines of C15:
//
//	switch c { case k: S … default: S }      if c = k then S … else S          (c a natural number)
//	z.SetZero()                               ⟨0,0,0,0⟩          z.Double(z) ↦ doubleG z      z.Add(z, &w) ↦ addG z w
//	z.Double(z).Add(z, &_z)                   chained calls, left to right      b.Sub(&t, b) ↦ subG t b
//	_z := *z / t := *a                        copies
//	var y Element; y.SetUint64(uint64(c))     go_SetUint64 c = mulG ⟨c,0,0,0⟩ rSquare   (`*z = Element{v}; return z.Mul(z, &rSquare)`)
//	z.Mul(z, &y)                              mulG z y
//
// Anything else is refused (exit 1).
package main

import (
	"fmt"
	"go/ast"
	"path/filepath"
	"strings"
)

func translateMulConst(repo string, write func(name, imports, content string)) {
	f := parse(filepath.Join(repo, "bandersnatch/fr/element.go"))
	sb := &strings.Builder{}
	sb.WriteString("namespace FrMulConst\nopen GoIpa GoIpa.Limbs GoIpa.Gen.FrCodec\n\n")
	// SetUint64
	{
		fd := findMethod(f, "SetUint64")
		var st []string
		for _, s := range fd.Body.List {
			st = append(st, stmtText(s))
		}
		if exprStr(fd.Type) != "func(v uint64) *Element" || len(st) != 2 || st[0] != "*z = Element{v}" || st[1] != "return z.Mul(z, &rSquare)" {
			die("mulconst: SetUint64 has an unknown shape: %q", st)
		}
		sb.WriteString("/-- `SetUint64` -/\ndef go_SetUint64 (v : Nat) : L4 :=\n  let z : L4 := ⟨v, 0, 0, 0⟩\n  mulG z codecRSquare\n\n")
	}
	// a statement on the element variables
	var stmt func(ind string, s ast.Stmt, vars map[string]bool) bool // returns true when the statement is `return`
	chain := func(e ast.Expr, vars map[string]bool) (string, string) {
		// z.M1(a).M2(b, c)…  → receiver and the Lean value after all calls
		var calls []*ast.CallExpr
		cur := e
		for {
			c, ok := cur.(*ast.CallExpr)
			if !ok {
				break
			}
			sel, ok := c.Fun.(*ast.SelectorExpr)
			if !ok {
				die("mulconst: unsupported call %s", exprStr(e))
			}
			calls = append([]*ast.CallExpr{c}, calls...)
			cur = sel.X
		}
		recv := exprStr(cur)
		if !vars[recv] {
			die("mulconst: unsupported receiver in %s", exprStr(e))
		}
		val := recv
		arg := func(a ast.Expr) string {
			n := strings.TrimPrefix(exprStr(a), "&")
			if n == recv {
				return "(" + val + ")"
			}
			if !vars[n] {
				die("mulconst: unsupported argument %s", exprStr(a))
			}
			return n
		}
		for _, c := range calls {
			m := c.Fun.(*ast.SelectorExpr).Sel.Name
			switch {
			case m == "SetZero" && len(c.Args) == 0:
				val = "(⟨0, 0, 0, 0⟩ : L4)"
			case m == "Double" && len(c.Args) == 1:
				val = "doubleG " + arg(c.Args[0])
			case m == "Add" && len(c.Args) == 2:
				val = "addG " + arg(c.Args[0]) + " " + arg(c.Args[1])
			case m == "Sub" && len(c.Args) == 2:
				val = "subG " + arg(c.Args[0]) + " " + arg(c.Args[1])
			case m == "Mul" && len(c.Args) == 2:
				val = "mulG " + arg(c.Args[0]) + " " + arg(c.Args[1])
			case m == "SetUint64" && len(c.Args) == 1 && exprStr(c.Args[0]) == "uint64(c)":
				val = "go_SetUint64 c"
			default:
				die("mulconst: unsupported method call %s", exprStr(c))
			}
		}
		return recv, val
	}
	stmt = func(ind string, s ast.Stmt, vars map[string]bool) bool {
		txt := stmtText(s)
		switch x := s.(type) {
		case *ast.ReturnStmt:
			if len(x.Results) == 0 {
				return true
			}
		case *ast.ExprStmt:
			recv, val := chain(x.X, vars)
			fmt.Fprintf(sb, "%slet %s := %s\n", ind, recv, val)
			return false
		case *ast.AssignStmt:
			if len(x.Lhs) == 1 && len(x.Rhs) == 1 {
				if st, ok := x.Rhs[0].(*ast.StarExpr); ok && vars[exprStr(st.X)] {
					vars[exprStr(x.Lhs[0])] = true
					fmt.Fprintf(sb, "%slet %s := %s\n", ind, exprStr(x.Lhs[0]), exprStr(st.X))
					return false
				}
			}
		case *ast.DeclStmt:
			if txt == "var y Element" {
				vars["y"] = true
				fmt.Fprintf(sb, "%slet y : L4 := ⟨0, 0, 0, 0⟩\n", ind)
				return false
			}
		}
		die("mulconst: unsupported statement %s", txt)
		return false
	}
	// mulByConstant
	{
		fd := findFunc(f, "mulByConstant")
		if exprStr(fd.Type) != "func(z *Element, c uint8)" || len(fd.Body.List) != 1 {
			die("mulconst: mulByConstant has an unknown shape")
		}
		sw, ok := fd.Body.List[0].(*ast.SwitchStmt)
		if !ok || sw.Init != nil || exprStr(sw.Tag) != "c" {
			die("mulconst: mulByConstant is not a switch on c")
		}
		sb.WriteString("/-- `mulByConstant` -/\ndef go_mulByConstant (z : L4) (c : Nat) : L4 :=\n")
		ind := "  "
		for _, cc := range sw.Body.List {
			cl := cc.(*ast.CaseClause)
			if cl.List != nil {
				if len(cl.List) != 1 {
					die("mulconst: case with several values")
				}
				fmt.Fprintf(sb, "%sif c = %s then\n", ind, exprStr(cl.List[0]))
			}
			vars := map[string]bool{"z": true}
			for _, s := range cl.Body {
				if stmt(ind+"  ", s, vars) {
					break
				}
			}
			fmt.Fprintf(sb, "%s  z\n", ind)
			if cl.List != nil {
				fmt.Fprintf(sb, "%selse\n", ind)
			} else if cc != sw.Body.List[len(sw.Body.List)-1] {
				die("mulconst: default is not the last clause")
			}
		}
		sb.WriteString("\n")
	}
	// _butterflyGeneric
	{
		fd := findFunc(f, "_butterflyGeneric")
		if exprStr(fd.Type) != "func(a, b *Element)" {
			die("mulconst: _butterflyGeneric has an unknown signature")
		}
		sb.WriteString("/-- `_butterflyGeneric`: the new values of `*a` and `*b` -/\ndef go_butterfly (a b : L4) : L4 × L4 :=\n")
		vars := map[string]bool{"a": true, "b": true}
		for _, s := range fd.Body.List {
			stmt("  ", s, vars)
		}
		sb.WriteString("  (a, b)\n\n")
	}
	sb.WriteString("end FrMulConst\n")
	write("FrMulConst.lean", "import GoIpa.Gen.FrCodec\n", sb.String())
}
