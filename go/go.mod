module verifharness

go 1.18

require github.com/crate-crypto/go-ipa v0.0.0

require (
	github.com/bits-and-blooms/bitset v1.7.0 // indirect
	github.com/consensys/bavard v0.1.13 // indirect
	github.com/consensys/gnark-crypto v0.13.0 // indirect
	github.com/mmcloughlin/addchain v0.4.0 // indirect
	golang.org/x/sync v0.1.0 // indirect
	golang.org/x/sys v0.15.0 // indirect
	rsc.io/tmplfunc v0.0.3 // indirect
)

replace github.com/crate-crypto/go-ipa => /repo
