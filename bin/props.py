"""Per-property configuration of bin/check."""
import re

TRUSTED_BASE = [
    "Lean 4.33.0 kernel; Mathlib v4.33.0 as shipped; axioms propext, Classical.choice, Quot.sound only (audited with #print axioms on every property theorem)",
    "no sorry/admit/axiom/native_decide/bv_decide/implemented_by/unsafe in the sources the theorems rest on (grep in bin/check)",
    "the hand-written Lean model lean/GoIpa/Model/*.lean is tied to /repo by the correspondence run: go/cmd/harness executes the real code (built from /repo's working tree with -tags verif) and lean/Driver executes the model's definitions on the same self-contained case lines; bin/check compares the output lines",
    "go/cmd/extract (T1) regenerates lean/GoIpa/Gen/*.lean from /repo's source on every run — constants, Fiat-Shamir schedules, and statement-by-statement translations of parallel.Execute, of the 64-bit limb routines of fr (with every aliasing variant), of the repository's own curve formulas and of the square-root addition chain; Gen-dependent theorems are re-checked; the translators (≈2100 lines of Go) and the semantics given to math/bits Mul64/Add64/Sub64 are trusted",
    "thorough tier: the compiled modules are additionally re-checked with leanchecker",
    "modelled, not verified: gnark-crypto's base-field arithmetic and curve formulas' Go code, Go runtime (goroutines, channels, sync), math/big, crypto/sha256, bytes.Buffer, io.ReadAtLeast, the amd64 assembly of fr",
]

ASSUMPTIONS = [
    "G-assumption: discharged for the model — the Banderwagon group is an abelian group whose operations the coordinate formulas compute (Props/C08Group), it has exactly r elements (Props/C08Order, C08Concrete.card_BW: involution bound, no 2-torsion, r*G=O by kernel computation), hence is an Fr-module, and the group-level theorems are transported to the executable Pt-level model by Lemmas/Simulation (Props/ConcreteExec). What remains assumed about the *code*: gnark-crypto's GLV ScalarMul is multiplication by the scalar (external dependency; validated by the C08 correspondence runs against the model's double-and-add)",
    "H-assumption: SHA-256 is a parameter of the model; statements needing collision resistance or the random-oracle model are sampled, not proved",
    "no longer assumed: p and r are prime (Pratt certificates, Lemmas/Primes.lean), Zp p / Zp r are fields with the executable operations (Lemmas/ZpField.lean), a and d are non-squares (Props/Concrete.lean)",
]


def taskset(k):
    return ["taskset", "-c", "0-%d" % (k - 1)] if k > 1 else ["taskset", "-c", "0"]


def c14_verdict(line, model_out):
    # binding clause on pairs of different histories
    if line.startswith("trpair "):
        f = line.split(" ")
        if (f[1], f[2]) != (f[3], f[4]):
            if model_out == "eq-stream":
                return "two different histories with the same concatenated byte stream yield the same challenge"
            if model_out == "eq-nostream":
                return "two histories with different hashed streams yield the same challenge"
    return None


CPU_MODES = [
    {"name": "default"},
    {"name": "cpu1-procs1", "prefix": taskset(1), "env": {"GOMAXPROCS": "1"}},
    {"name": "cpu3", "prefix": taskset(3)},
    {"name": "cpu5-procs2", "prefix": taskset(5), "env": {"GOMAXPROCS": "2"}},
    {"name": "cpu16-procs4", "env": {"GOMAXPROCS": "4"}},
    {"name": "cpu4-procs9", "prefix": taskset(4), "env": {"GOMAXPROCS": "9"}},  # more Ps than CPUs
]

CPU_MODES_THOROUGH = CPU_MODES + [
    {"name": "cpu2", "prefix": taskset(2)},
    {"name": "cpu7", "prefix": taskset(7)},
    {"name": "cpu8-procs16", "prefix": taskset(8), "env": {"GOMAXPROCS": "16"}},
    {"name": "cpu13", "prefix": taskset(13)},
]

PROPS = {
    "C01": dict(ties=['Loops', 'Protocol', 'ProtocolMp', 'Grouping', 'Schedules', 'Consts', 'GoIpa.Lemmas.Grouping', 'GoIpa.Lemmas.DivideOnDomain', 'GoIpa.Lemmas.MpAlgebra', 'GoIpa.Lemmas.MpComplete', 'GoIpa.Lemmas.MpVerifier', 'GoIpa.Props.C01Complete', 'GoIpa.Lemmas.ZpField', 'GoIpa.Lemmas.Primes', 'GoIpa.Props.Concrete', 'GoIpa.Lemmas.Simulation', 'GoIpa.Props.ConcreteExec', 'GoIpa.Props.C01Translated'], level="proof", selftest=True, modes=CPU_MODES, thorough=dict(modes=CPU_MODES_THOROUGH),
                rule="openings sets over n in {1..300}, six z patterns (all equal, all distinct, two clusters, single index after a gap, straddling group, random), polynomials zero/constant/unit/sparse/r-1/random, commitments as shared pointers / rescaled / sign-flipped, labels empty..70 bytes; each case under several CPU-count/GOMAXPROCS configurations (taskset)."),
    "C02": dict(ties=['Loops', 'Protocol', 'BVector', 'Schedules', 'Consts', 'GoIpa.Props.C02Mp'], level="proof", selftest=True,
                rule="honest (label,Cs,zs,ys,proof) tuples and every single-component perturbation, reorderings, dropped/duplicated openings, splices of two honest proofs, malformed shapes, well-formed garbage; each implementation decision also re-evaluated under three re-representations of all group elements."),
    "C03": dict(ties=['Loops', 'Protocol', 'BVector', 'ProtocolMp', 'Grouping', 'Schedules', 'Consts'], level="proof", selftest=True, modes=CPU_MODES, thorough=dict(modes=CPU_MODES_THOROUGH),
                rule="as C01 plus stand-alone IPA proofs; byte-for-byte comparison of the serialized proof and of the post-proof challenge with the Lean model (which reproduces the published cross-implementation vectors), under several CPU-count/GOMAXPROCS configurations."),
    "C04": dict(ties=['Loops', 'Protocol', 'BVector', 'Schedules', 'Consts', 'GoIpa.Lemmas.IpaAlgebra', 'GoIpa.Lemmas.FoldingScalars', 'GoIpa.Props.C04Value', 'GoIpa.Lemmas.Simulation', 'GoIpa.Props.ConcreteExec'], level="proof", selftest=True, modes=[{"name": "default"}, {"name": "cpu3", "prefix": taskset(3)}, {"name": "cpu6-procs5", "prefix": taskset(6), "env": {"GOMAXPROCS": "5"}}],
                rule="evaluation points 0,1,254,255,256,257,2^64-1,2^64,2^64+1,r-1,r-256,random x polynomials zero/constant/unit/sparse/r-1/random; result p(z) must be accepted, p(z)+1, p(z)-1 and 0 rejected (asserted on the implementation); barycentric value against direct Lagrange evaluation."),
    "C05": dict(ties=['Formulas', 'Consts', 'Selector', 'Precomp', 'PrecompFull', 'BatchConv', 'CRS', 'GoIpa.Props.C05Translated'], level="proof",
                modes=[{"name": "default"}, {"name": "cpu6", "prefix": taskset(6)}, {"name": "cpu3-procs3", "prefix": taskset(3)},
                       {"name": "crs-prefix-first", "env": {"VERIF_CRS_FIRST": "5"}, "filter": "^(ptab |commit s|commit r)"}],
                thorough=dict(modes=[{"name": "default"}, {"name": "cpu6", "prefix": taskset(6)}, {"name": "cpu3-procs3", "prefix": taskset(3)},
                                     {"name": "crs-prefix-first", "env": {"VERIF_CRS_FIRST": "5"}, "filter": "^(ptab |commit s|commit r)"},
                                     {"name": "crs-prefix-first-200", "env": {"VERIF_CRS_FIRST": "200"}, "filter": "^(ptab |commit r)"},
                                     {"name": "cpu5", "prefix": taskset(5)}, {"name": "cpu7", "prefix": taskset(7)}, {"name": "cpu12", "prefix": taskset(12)}]),
                rule="per basis position and per window position: window values {0,1,2^(w-1)-1,2^(w-1),2^(w-1)+1,2^w-2,2^w-1} x carry-in {0,1}; all-ones carry chains; r-1, r-2, powers of two; single hot coefficient at the basis positions; short vectors; dense random; linearity/update triples; audit of precomputed table entries against (j+1)2^(wk)G_i."),
    "C06": dict(ties=['Formulas', 'Elements', 'SqrtChain', 'SqrtFp', 'GoIpa.Props.C06Exact'], level="proof",
                rule="byte strings of every length 0..70 (compressed) / 0..130 (uncompressed); random x classified independently (valid / on-curve non-subgroup / off-curve) each with its x+p alias and -x; uncompressed: both signs of y, x+p, y+p, wrong y, trailing byte; boundary values 0,1,p-1,p,p+1,2^256-1."),
    "C07": dict(ties=['Formulas', 'Elements', 'BatchNormalize', 'GoIpa.Props.C07Concrete'], level="proof",
                rule="elements reached by random histories (Add, Sub, Double, Neg, ScalarMul, AddMixed, Set, Normalize, MSM both engines, decode) in representations Z=1 / rescaled / sign-flipped, including the all-zero value; Bytes, Equal matrix over all pairs, decode(Bytes)."),
    "C08": dict(ties=['Formulas', 'Elements', 'GoIpa.Lemmas.EdwardsAssoc', 'GoIpa.Props.C08Group', 'GoIpa.Props.C08Order', 'GoIpa.Props.C08Concrete'], level="proof",
                rule="random group histories plus explicit law instances ((s+t)P, s(P+Q), 0*P, (r-1)P+P, P-P, P+O, -P) with special scalars; every operation also executed with the receiver aliasing each operand; all representations; identity-class operands of ScalarMul."),
    "C09": dict(ties=['Msm', 'Selector', 'MsmChunk', 'Recode', 'MultiExpDriver', 'BatchConv', 'Consts', 'GoIpa.Lemmas.Pippenger', 'GoIpa.Lemmas.PipBits', 'GoIpa.Props.C09Msm'], level="proof", workers=4, model_workers=16,
                rule="n crossing every window-size threshold up to 4097 (thorough 32768), NbTasks in {0,1,2,3,5,8,16,17,64,1024}, Montgomery and regular scalars, >=10% small scalars, duplicates / opposite points / identity, zero and r-1 scalars; every implemented window c in {4..16,20,21,22} through the internal entry point with boundary digit patterns, with and without first-chunk split."),
    "C10": dict(ties=['Consts', 'Serde'], level="proof",
                rule="honest 576-byte proofs, one byte short/long, lengths 0..1152, field-wise boundary values (p-1,p,p+1,0,2^256-1, non-subgroup, off-curve, x+p; r-1,r,r+1,s+r) at each of the 18 positions, random bit flips; reader scripts: one shot, 1 byte at a time, halves, data+EOF together, odd chunkings, I/O failure at offset k; writer failing at each Write call."),
    "C11": dict(ties=['Formulas', 'Elements', 'GoIpa.Props.C07Concrete'], level="proof", race=True, modes=[{"name": "default"}, {"name": "conc16", "args": ["-conc", "16"], "workers": 1, "filter": "^batch ", "env": {"VERIF_BATCH_REPEAT": "40"}}],
                rule="elements whose x/y is crafted (by solving the curve equation) to lie within 3 of k*r or to share the top limb of k*r (k=1..3), near 0 and near p; as C07: map-to-scalar-field of every element of random histories in all representations, single and batch variants, against the model's x/y computed on its own representation."),
    "C12": dict(ties=['Execute', 'Grouping'], level="other", race=True, workers=1, model_workers=16,
                modes=[{"name": "conc8-race", "args": ["-conc", "8"]},
                       {"name": "conc16-procs2-race", "args": ["-conc", "16"], "env": {"GOMAXPROCS": "2"}},
                       {"name": "conc4-procs1-race", "args": ["-conc", "4"], "env": {"GOMAXPROCS": "1"}},
                       {"name": "conc4-cpu3-procs7-race", "args": ["-conc", "4"], "prefix": taskset(3), "env": {"GOMAXPROCS": "7"}}],
                rule="mixed API histories (commit, multiproof create+verify, IPA, MSM, group programs, batch helpers, transcripts, decoders, DivideOnDomain, serde) issued from 4/8/16 goroutines sharing one IPAConfig, race detector on, GOMAXPROCS 1/2/16; every output must equal the sequential model output.",
                explanation="Protocol-level theorems (order independence of every merge, no deadlock / all results delivered for the fan-out/fan-in skeletons) are proved on the model; absence of data races and real scheduling are runtime facts sampled with the Go race detector, not proved."),
    "C13": dict(ties=['Consts', 'BatchConv', 'FrCodec'], level="proof", workers=1, model_workers=16,
                modes=[{"name": "purity-fingerprint", "args": ["-purity"]},
                       {"name": "purity-cpu2", "args": ["-purity"], "prefix": taskset(2), "filter": "^mp "},
                       # one P: sync.Pool hands a recycled object straight back to the next call
                       {"name": "history-procs1", "env": {"GOMAXPROCS": "1"}, "filter": "^(mpv|mp|ipa|msm|batch|commit|serde) "}],
                rule="mixed API histories executed sequentially; a fingerprint of SRS, Q, weight tables, precomputed tables (strided per call, complete before/after the history), package variables and labels is taken around every call; every call checks its own inputs bit-for-bit afterwards; outputs compared with the model (history independence: the model is a pure function of the case line)."),
    "C14": dict(ties=['Schedules', 'Transcript'], level="proof", selftest=True, verdict=c14_verdict,
                rule="operation sequences of length 0..64 (thorough 0..512) over the five operations, empty labels/messages, pending buffers beyond 1 kB / 4 kB / 20 kB, scalars 0, r-1, points in several representations, consecutive challenges; binding pairs (same-shape byte change, swap, drop, protocol label change, label/message boundary shift)."),
    "C15": dict(ties=['Loops', 'FrConsts', 'FrLimbs', 'FrCodec', 'FrMisc', 'FrMiscModel', 'FrInverse', 'FrInverseValue', 'FrMulConst', 'FrSqrtGo', 'FrSqrtValue', 'GoIpa.Lemmas.Cios', 'GoIpa.Lemmas.ZpField', 'GoIpa.Lemmas.Primes', 'GoIpa.Lemmas.InverseProof', 'GoIpa.Lemmas.SqrtProof'], level="proof",
                rule="Montgomery-limb boundary grid {0,1,2^63,2^64-1,q_i-1,q_i,q_i+1}^4 restricted to < r (1207 values): full cross product for add/sub/mul/cmp in thorough, all values plus 25k random pairs in quick; unary ops on grid, values within 2 of 0, r/2, r, R mod r, special and random values; div/exp pairs; BatchInvert with zeros at every position; every op through the assembly path, the assembly path with ADX disabled, the portable generic functions and all aliasing patterns."),
    "C16": dict(ties=['FrConsts', 'FrCodec', 'FrCodecEnc'], level="proof",
                rule="byte strings of every length 0..64 for the three decoders; values 0,1,r-1,r,r+1,2r-1,2r,p,2^256-1 in 32/33/40/64-byte encodings; canonical and just-non-canonical 32-byte values; the caller's buffer is compared before/after and decoded twice."),
    "C17": dict(ties=['Formulas', 'SqrtChain', 'SqrtFp', 'SqrtTables', 'Elements', 'GoIpa.Lemmas.ZpField', 'GoIpa.Lemmas.Primes', 'GoIpa.Lemmas.SqrtPrecompProof'], level="proof",
                rule="0,1,2,4,5,7,p-1,p-2,-5,d; every 2^k-th root of unity (k=0..32) and products with odd-order elements; every 8-bit value in each of the four discrete-log blocks with the other blocks zero/random/odd/even; random squares and non-squares in equal share; point recovery for random x with both sign requests."),
    "C18": dict(ties=['Loops', 'Consts', 'GoIpa.Lemmas.DivideOnDomain'], level="proof", modes=[{"name": "default"}, {"name": "cpu3", "prefix": taskset(3)}, {"name": "cpu7-procs5", "prefix": taskset(7), "env": {"GOMAXPROCS": "5"}}],
                rule="both precomputed tables (512+510 entries); f in {random, unit vectors, constant, r-1, zero, X^255}; z in {256,257,r-1,2^200,random}: inner product with barycentric coefficients against direct Lagrange evaluation; DivideOnDomain for all 256 indices against the model and the defining relation q_i (i-k) = f_i - f_k."),
    "C19": dict(ties=['Elements', 'BatchNormalize'], level="proof", race=True, modes=[{"name": "default"}, {"name": "conc16", "args": ["-conc", "16"], "workers": 1, "filter": "^batch ", "env": {"VERIF_BATCH_REPEAT": "40"}}],
                rule="element lists of length 0..310 from random histories with repeated pointers (alias), mixed normalised/projective/sign-flipped, identity included: batch serialisers, BatchMapToScalarField, BatchNormalize vs single-element results from the model; one un-normalisable element (Z=0) at each position must fail with nothing modified."),
    "C20": dict(ties=['Execute'], level="proof", exhaustive=False,
                rule="(n, m) pairs: quick = full box n<=160 x m<=40 plus multiples of m +-1 up to 2048 and random pairs; thorough = exhaustive box n in 0..2048 x m in 1..300; one case in 17 sleeps inside work and the completion counter is read right after Execute returns.",
                thorough=dict(exhaustive=True)),
}
