/-
  I/O shell of the model: one case per input line, one canonical line out.
  `drv --selftest` reproduces the published cross-implementation vectors.
-/
import GoIpa.Model.Ops
open GoIpa

partial def loop (ctx : Ctx) (hin hout : IO.FS.Stream) : IO Unit := do
  let line ← hin.getLine
  if line.isEmpty then return ()
  hout.putStrLn (runLine ctx line)
  hout.flush
  loop ctx hin hout

def poly32 : String := "x" ++ ",".intercalate ((List.range 256).map fun i => frHex (Zp.ofNat R (i % 32 + 1)))
def poly32r : String := "x" ++ ",".intercalate ((List.range 256).map fun i => frHex (Zp.ofNat R (32 - i % 32)))

def expectEq (name got want : String) : IO Bool := do
  if got = want then
    IO.println s!"selftest ok   {name}"
    return true
  else
    IO.println s!"selftest FAIL {name}\n  got  {got}\n  want {want}"
    return false

def selftest (ctx : Ctx) : IO UInt32 := do
  let mut ok := true
  -- FIPS 180-4 vectors
  ok := (← expectEq "sha256(abc)" (hexOfBytes (Sha256.hash (str "abc")))
    "ba7816bf8f01cfea414140de5dae2223b00361a396177a9cb410ff61f20015ad") && ok
  ok := (← expectEq "sha256(empty)" (hexOfBytes (Sha256.hash []))
    "e3b0c44298fc1c149afbf4c8996fb92427ae41e4649b934ca495991b7852b855") && ok
  ok := (← expectEq "sha256(448 bits)" (hexOfBytes (Sha256.hash (str "abcdbcdecdefdefgefghfghighijhijkijkljklmklmnlmnomnopnopq")))
    "248d6a61d20638b8e5c026930c3e6039a33ce45964ff2167f6ecedd419db06c1") && ok
  -- CRS (ipa_test.go TestCRSGeneration)
  ok := (← expectEq "crs[0]" (hexOfBytes ctx.srs[0]!.bytes)
    "01587ad1336675eb912550ec2a28eb8923b824b490dd2ba82e48f14590a298a0") && ok
  ok := (← expectEq "crs[255]" (hexOfBytes ctx.srs[255]!.bytes)
    "3de2be346b539395b0c0de56a5ccca54a317f1b5c80107b0802af9a62276a4d8") && ok
  -- transcript vectors (common/transcript_test.go)
  let sp := hexOfBytes (str "simple_protocol")
  let sc := hexOfBytes (str "simple_challenge")
  let five := frHex (Zp.ofNat R 5)
  let m1 := frHex (Zp.ofNat R (R - 1))
  let one := frHex (Zp.ofNat R 1)
  let h (s : String) := hexOfBytes (str s)
  ok := (← expectEq "transcript vector 1" (runLine ctx s!"tr {sp} c:{sc}")
    "c2aa02607cbdf5595f00ee0dd94a2bbff0bed6a2bf8452ada9011eadb538d003") && ok
  ok := (← expectEq "transcript vector 2" (runLine ctx s!"tr {sp} s:{h "five"}:{five};s:{h "five again"}:{five};c:{sc}")
    "498732b694a8ae1622d4a9347535be589e4aee6999ffc0181d13fe9e4d037b0b") && ok
  ok := (← expectEq "transcript vector 3"
    (runLine ctx s!"tr {sp} s:{h "-1"}:{m1};d:{h "separate me"};s:{h "-1 again"}:{m1};d:{h "separate me again"};s:{h "now 1"}:{one};c:{sc}")
    "14f59938e9e9b1389e74311a464f45d3d88d8ac96adf1c1129ac466de088d618") && ok
  ok := (← expectEq "transcript vector 4"
    (runLine ctx s!"tr {sp} p:{h "generator"}:{hexOfBytes Pt.generator.bytes};c:{sc}")
    "8c2dafe7c0aabfa9ed542bb2cbf0568399ae794fc44fdfd7dff6cc0e6144921c") && ok
  -- IPA vector (ipa_test.go TestIPAConsistencySimpleProof)
  let z := frHex (Zp.ofNat R 2101)
  let out := (runLine ctx s!"ipa {h "test"} {poly32} {z}").splitOn " "
  ok := (← expectEq "ipa commitment" (out.getD 0 "") "1b9dff8f5ebbac250d291dfe90e36283a227c64b113c37f1bfb9e7a743cdb128") && ok
  ok := (← expectEq "ipa output point" (hexOfBytes ((frOfHexBE (out.getD 2 "")).getD 0).bytesLE)
    "4a353e70b03c89f161de002e8713beec0d740a5e20722fd5bd68b30540a33208") && ok
  ok := (← expectEq "ipa prover transcript" (out.getD 3 "") "0a81881cbfd7d7197a54ebd67ed6a68b5867f3c783706675b34ece43e85e7306") && ok
  ok := (← expectEq "ipa verifies" (out.getD 4 "") "1") && ok
  ok := (← expectEq "ipa verifier transcript" (out.getD 5 "") "0a81881cbfd7d7197a54ebd67ed6a68b5867f3c783706675b34ece43e85e7306") && ok
  -- multiproof vector (multiproof_test.go TestMultiProofConsistency)
  let out := (runLine ctx s!"mp {h "test"} {poly32}@0;{poly32r}@0").splitOn " "
  ok := (← expectEq "multiproof bytes" (out.getD 0 "")
    "4f53588244efaf07a370ee3f9c467f933eed360d4fbf7a19dfc8bc49b67df4711bf1d0a720717cd6a8c75f1a668cb7cbdd63b48c676b89a7aee4298e71bd7f4013d7657146aa9736817da47051ed6a45fc7b5a61d00eb23e5df82a7f285cc10e67d444e91618465ca68d8ae4f2c916d1942201b7e2aae491ef0f809867d00e83468fb7f9af9b42ede76c1e90d89dd789ff22eb09e8b1d062d8a58b6f88b3cbe80136fc68331178cd45a1df9496ded092d976911b5244b85bc3de41e844ec194256b39aeee4ea55538a36139211e9910ad6b7a74e75d45b869d0a67aa4bf600930a5f760dfb8e4df9938d1f47b743d71c78ba8585e3b80aba26d24b1f50b36fa1458e79d54c05f58049245392bc3e2b5c5f9a1b99d43ed112ca82b201fb143d401741713188e47f1d6682b0bf496a5d4182836121efff0fd3b030fc6bfb5e21d6314a200963fe75cb856d444a813426b2084dfdc49dca2e649cb9da8bcb47859a4c629e97898e3547c591e39764110a224150d579c33fb74fa5eb96427036899c04154feab5344873d36a53a5baefd78c132be419f3f3a8dd8f60f72eb78dd5f43c53226f5ceb68947da3e19a750d760fb31fa8d4c7f53bfef11c4b89158aa56b1f4395430e16a3128f88e234ce1df7ef865f2d2c4975e8c82225f578310c31fd41d265fd530cbfa2b8895b228a510b806c31dff3b1fa5c08bffad443d567ed0e628febdd22775776e0cc9cebcaea9c6df9279a5d91dd0ee5e7a0434e989a160005321c97026cb559f71db23360105460d959bcdf74bee22c4ad8805a1d497507") && ok
  ok := (← expectEq "multiproof prover transcript" (out.getD 1 "") "eee8a80357ff74b766eba39db90797d022e8d6dee426ded71234241be504d519") && ok
  ok := (← expectEq "multiproof verifies" (out.getD 2 "") "1") && ok
  -- recoder and Pippenger models over the group ℤ return the scalar
  let s := frHex (Zp.ofNat R (R - 1))
  ok := (← expectEq "recoder(8) over Z" (runLine ctx s!"recode.int 8 {s}") (toString (R - 1))) && ok
  ok := (← expectEq "recoder(16) over Z" (runLine ctx s!"recode.int 16 {s}") (toString (R - 1))) && ok
  for c in [4, 5, 6, 7, 8, 9, 10, 11, 12, 13, 14, 15, 16, 20, 21, 22] do
    ok := (← expectEq s!"pippenger c={c} over Z" (runLine ctx s!"pip.int {c} 0 {s},{five},{m1}") (toString ((R - 1 + 10 + 3 * (R - 1)) % R))) && ok
  return if ok then 0 else 1

def main (args : List String) : IO UInt32 := do
  let ctx := Ctx.mk'
  if args.contains "--selftest" then
    selftest ctx
  else
    loop ctx (← IO.getStdin) (← IO.getStdout)
    return 0
