/-
  Tie T1 for the word-selector code of `bandersnatch/multiexp.go`: the selector computations of
  `partitionScalars` and `msmProcessChunkPointAffineDMA`, the digit read and the recoder's stores,
  translated with explicit 64-bit wrap-around (Gen/Formulas.lean), are the model's `mkSelector`,
  `selectBits` and `writeBits` — the objects of `selectBits_spec` / `writeBits_spec` (C09) — for
  every window width `1 ≤ c < 64` and every chunk inside the 256 bits.
-/
import GoIpa.Gen.Formulas
import GoIpa.Lemmas.PipBits
import Mathlib.Tactic.NormNum
namespace GoIpa.Tie.Selector
open GoIpa GoIpa.PipBits

def W64 : Nat := 18446744073709551616

theorem wrap_id (a : Nat) (h : a < W64) : a % 18446744073709551616 = a := Nat.mod_eq_of_lt h

theorem wrap_sub (a b : Nat) (hb : b ≤ a) (ha : a < W64) : (a + 18446744073709551616 - b) % 18446744073709551616 = a - b := by
  unfold W64 at ha; omega

/-- the selector as a tuple, in the order the translation returns it -/
def selTuple (s : Selector) : Nat × Nat × Nat × Bool × Nat × Nat :=
  (s.index, s.mask, s.shift, s.multiWord, s.maskHigh, s.shiftHigh)

theorem pow_lt_W (c : Nat) (hc : c < 64) : 2 ^ c < W64 := by
  have : 2 ^ c < 2 ^ 64 := Nat.pow_lt_pow_right (by omega) hc
  unfold W64; omega

/-- the common arithmetic of both selector computations -/
theorem selector_core (c k : Nat) (hc1 : 1 ≤ c) (hc : c < 64) (hk : k * c < 256) (nd : Bool)
    (hnd : nd = decide (64 % c ≠ 0)) :
    (let mask : Nat := ((((1 <<< c) % 18446744073709551616) + 18446744073709551616 - 1) % 18446744073709551616)
     let jc : Nat := ((k * c) % 18446744073709551616)
     let d_index : Nat := (jc / 64)
     let d_shift : Nat := ((jc + 18446744073709551616 - ((d_index * 64) % 18446744073709551616)) % 18446744073709551616)
     let d_mask : Nat := ((mask <<< d_shift) % 18446744073709551616)
     let d_multiWordSelect : Bool := ((nd && decide (d_shift > ((64 + 18446744073709551616 - c) % 18446744073709551616))) && decide (d_index < ((4 + 18446744073709551616 - 1) % 18446744073709551616)))
     let (d_maskHigh, d_shiftHigh) :=
       if d_multiWordSelect then
         let nbBitsHigh : Nat := ((d_shift + 18446744073709551616 - ((64 + 18446744073709551616 - c) % 18446744073709551616)) % 18446744073709551616)
         let d_maskHigh : Nat := ((((1 <<< nbBitsHigh) % 18446744073709551616) + 18446744073709551616 - 1) % 18446744073709551616)
         let d_shiftHigh : Nat := ((c + 18446744073709551616 - nbBitsHigh) % 18446744073709551616)
         (d_maskHigh, d_shiftHigh)
       else ((0 : Nat), (0 : Nat))
     (d_index, d_mask, d_shift, d_multiWordSelect, d_maskHigh, d_shiftHigh)) = selTuple (mkSelector c k) := by
  have hpc := pow_lt_W c hc
  have hpos : 1 ≤ 2 ^ c := Nat.one_le_two_pow
  have e_mask : ((((1 <<< c) % 18446744073709551616) + 18446744073709551616 - 1) % 18446744073709551616) = (1 <<< c) - 1 := by
    rw [Nat.one_shiftLeft, wrap_id _ hpc, wrap_sub _ 1 hpos hpc]
  have e_jc : (k * c) % 18446744073709551616 = k * c := wrap_id _ (by unfold W64; omega)
  have e_i64 : (k * c / 64 * 64) % 18446744073709551616 = k * c / 64 * 64 := wrap_id _ (by unfold W64; omega)
  have e_shift : (k * c + 18446744073709551616 - k * c / 64 * 64) % 18446744073709551616 = k * c - k * c / 64 * 64 :=
    wrap_sub _ _ (by omega) (by unfold W64; omega)
  have e_64c : (64 + 18446744073709551616 - c) % 18446744073709551616 = 64 - c := wrap_sub 64 c (by omega) (by unfold W64; omega)
  have e_3 : (4 + 18446744073709551616 - 1) % 18446744073709551616 = 3 := by decide
  simp only [e_mask, e_jc, e_i64, e_shift, e_64c, e_3]
  unfold selTuple mkSelector
  simp only
  have hmaskeq : ((((1 <<< c) - 1) <<< (k * c - k * c / 64 * 64)) % 18446744073709551616)
      = (((1 <<< c) - 1) <<< (k * c - k * c / 64 * 64)) &&& mask64 := by
    rw [mask64_eq, Nat.and_two_pow_sub_one_eq_mod]
  rw [hmaskeq, hnd]
  by_cases hm : ((decide (64 % c ≠ 0) && decide (k * c - k * c / 64 * 64 > 64 - c)) && decide (k * c / 64 < 3)) = true
  · rw [if_pos hm, if_pos hm]
    have hm' := hm
    simp only [Bool.and_eq_true, decide_eq_true_eq] at hm'
    obtain ⟨⟨_, hgt⟩, _⟩ := hm'
    have e_nb : (k * c - k * c / 64 * 64 + 18446744073709551616 - (64 - c)) % 18446744073709551616
        = k * c - k * c / 64 * 64 - (64 - c) := wrap_sub _ _ (by omega) (by unfold W64; omega)
    have hnb : k * c - k * c / 64 * 64 - (64 - c) < 64 := by omega
    have hpn := pow_lt_W _ hnb
    have e_mh : ((((1 <<< (k * c - k * c / 64 * 64 - (64 - c))) % 18446744073709551616) + 18446744073709551616 - 1) % 18446744073709551616)
        = (1 <<< (k * c - k * c / 64 * 64 - (64 - c))) - 1 := by
      rw [Nat.one_shiftLeft, wrap_id _ hpn, wrap_sub _ 1 Nat.one_le_two_pow hpn]
    have e_sh : (c + 18446744073709551616 - (k * c - k * c / 64 * 64 - (64 - c))) % 18446744073709551616
        = c - (k * c - k * c / 64 * 64 - (64 - c)) := wrap_sub _ _ (by omega) (by unfold W64; omega)
    simp only [e_nb, e_mh, e_sh, hm]
  · rw [if_neg hm, if_neg hm]
    have : ((decide (64 % c ≠ 0) && decide (k * c - k * c / 64 * 64 > 64 - c)) && decide (k * c / 64 < 3)) = false := by
      simpa using hm
    simp only [this]

/-- **The selector computed in `partitionScalars` is the model's `mkSelector`.** -/
theorem partitionSelector_eq (c k : Nat) (hc1 : 1 ≤ c) (hc : c < 64) (hk : k * c < 256) :
    Gen.partitionSelector c k = selTuple (mkSelector c k) := by
  have h := selector_core c k hc1 hc hk (!decide (64 % c = 0)) (by simp)
  unfold Gen.partitionSelector
  exact h

/-- **The selector recomputed in `msmProcessChunkPointAffineDMA` is the same one.** -/
theorem chunkSelector_eq (c k : Nat) (hc1 : 1 ≤ c) (hc : c < 64) (hk : k * c < 256) :
    Gen.chunkSelector c k = selTuple (mkSelector c k) := by
  have h := selector_core c k hc1 hc hk (decide (64 % c ≠ 0)) rfl
  unfold Gen.chunkSelector
  exact h

/-- **The digit read of `msmProcessChunk` is the model's `selectBits`** (for words below `2^64`,
so that the sum of the two parts does not wrap) -/
theorem digitRead_eq (c k : Nat) (hc1 : 1 ≤ c) (hc : c < 64) (hk : k * c < 256)
    (l0 l1 l2 l3 : Nat) (h0 : l0 < 2 ^ 64) (h1 : l1 < 2 ^ 64) (h2 : l2 < 2 ^ 64) (h3 : l3 < 2 ^ 64) :
    Gen.digitRead (mkSelector c k).index (mkSelector c k).mask (mkSelector c k).shift (mkSelector c k).maskHigh
        (mkSelector c k).shiftHigh (mkSelector c k).multiWord [l0, l1, l2, l3]
      = selectBits c [l0, l1, l2, l3] k := by
  have e64 : (2 : ℕ) ^ 64 = 18446744073709551616 := by norm_num
  have hspec := selectBits_spec c k hc1 (by omega) hk l0 l1 l2 l3 h0 h1 h2 h3
  have hlt : selectBits c [l0, l1, l2, l3] k < 18446744073709551616 := by
    rw [hspec, ← e64]
    exact Nat.lt_of_lt_of_le (Nat.mod_lt _ (Nat.two_pow_pos c)) (Nat.pow_le_pow_right (by omega) (by omega))
  unfold Gen.digitRead
  unfold selectBits at hlt ⊢
  simp only at hlt ⊢
  have hidx : (mkSelector c k).index + 1 < 18446744073709551616 := by
    unfold mkSelector; simp only; split <;> simp only <;> omega
  by_cases hm : (mkSelector c k).multiWord = true
  · rw [if_pos hm]
    rw [if_pos hm] at hlt ⊢
    rw [Nat.mod_eq_of_lt hidx]
    -- neither the shifted high part nor the sum wraps
    have hhi : ((([l0, l1, l2, l3].getD ((mkSelector c k).index + 1) 0 &&& (mkSelector c k).maskHigh)) <<< (mkSelector c k).shiftHigh) < 18446744073709551616 :=
      Nat.lt_of_le_of_lt (Nat.le_add_left _ _) hlt
    rw [Nat.mod_eq_of_lt hhi, Nat.mod_eq_of_lt hlt]
  · rw [if_neg hm]
    rw [if_neg hm]

theorem getD4_lt (o0 o1 o2 o3 i : Nat) (h0 : o0 < 2 ^ 64) (h1 : o1 < 2 ^ 64) (h2 : o2 < 2 ^ 64) (h3 : o3 < 2 ^ 64) :
    [o0, o1, o2, o3].getD i 0 < 2 ^ 64 := by
  rcases i with _ | _ | _ | _ | i <;> simp <;> omega

theorem store_word (o x : Nat) (ho : o < 2 ^ 64) :
    o ||| (x % 18446744073709551616) = (o ||| x) &&& mask64 := by
  have e64 : (18446744073709551616 : ℕ) = 2 ^ 64 := by norm_num
  rw [mask64_eq, Nat.and_two_pow_sub_one_eq_mod, Nat.or_mod_two_pow, Nat.mod_eq_of_lt ho, e64]

/-- **The recoder's two stores are the model's `writeBits`** (for output words below `2^64`) -/
theorem recoderStore_eq (c k bits : Nat) (hk : k * c < 256) (o0 o1 o2 o3 : Nat)
    (h0 : o0 < 2 ^ 64) (h1 : o1 < 2 ^ 64) (h2 : o2 < 2 ^ 64) (h3 : o3 < 2 ^ 64) :
    Gen.recoderStore (mkSelector c k).index (mkSelector c k).shift (mkSelector c k).shiftHigh
        (mkSelector c k).multiWord bits [o0, o1, o2, o3]
      = writeBits c k bits [o0, o1, o2, o3] := by
  have hidx : (mkSelector c k).index + 1 < 18446744073709551616 := by
    have : (mkSelector c k).index = k * c / 64 := by unfold mkSelector; simp only; split <;> rfl
    rw [this]; omega
  unfold Gen.recoderStore writeBits
  simp only
  rw [store_word _ _ (getD4_lt o0 o1 o2 o3 _ h0 h1 h2 h3), Nat.mod_eq_of_lt hidx]

end GoIpa.Tie.Selector
