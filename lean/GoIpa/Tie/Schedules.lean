/-
  Tie T1 for C01/C02/C03/C04/C14: the Fiat–Shamir schedule extracted from the current source —
  which operations, with which label variables and which value expressions, in which order and
  loop nesting — is the schedule of the Lean model, prover and verifier agree, the label
  variables hold the specified bytes, and the transcript methods write label-then-message.
-/
import GoIpa.Gen.Schedules
import GoIpa.Model.Ipa
namespace GoIpa.Tie.Schedules
open GoIpa

/-- the multiproof schedule of the specification / of `mpProve` and `mpVerify` -/
def specMp : List String :=
  ["DomainSep labelDomainSep", "loop[", "AppendPoint labelC", "AppendScalar labelZ", "AppendScalar labelY", "]",
   "ChallengeScalar labelR", "AppendPoint labelD", "ChallengeScalar labelT", "AppendPoint labelE"]

/-- the IPA schedule of the specification / of `ipaProve` and `ipaVerify` -/
def specIpa : List String :=
  ["DomainSep labelDomainSep", "AppendPoint labelC", "AppendScalar labelInputPoint", "AppendScalar labelOutputPoint",
   "ChallengeScalar labelW", "loop[", "AppendPoint labelL", "AppendPoint labelR", "ChallengeScalar labelX", "]"]

theorem mp_prover_schedule : Gen.mpProver = specMp ++ ["call:ipa.CreateIPAProof"] := by decide
theorem mp_verifier_schedule : Gen.mpVerifier = specMp ++ ["call:ipa.CheckIPAProof"] := by decide
theorem ipa_prover_schedule : Gen.ipaProver = specIpa := by decide
theorem ipa_verifier_schedule :
    Gen.ipaVerifier ++ Gen.ipaChallenges = specIpa.take 5 ++ ["call:generateChallenges"] ++ specIpa.drop 5 := by decide

/-- the values absorbed: each opening's own commitment, its own evaluation point `zs[i]` and
its own value; `D`, `E`; the IPA commitment, point, value, `L`, `R` -/
theorem mp_prover_args :
    Gen.mpProverArgs = ["", "Cs[i]", "&z", "&y", "", "&D", "", "&E"] ∧
    Gen.mpProverVars.lookup "z" = some "domainToFr(zs[i])" ∧ Gen.mpProverVars.lookup "y" = some "f[zs[i]]" ∧
    Gen.mpProverVars.lookup "f" = some "fs[i]" := by decide
theorem mp_verifier_args :
    Gen.mpVerifierArgs = ["", "Cs[i]", "&z", "ys[i]", "", "&proof.D", "", "&E"] ∧
    Gen.mpVerifierVars.lookup "z" = some "domainToFr(zs[i])" := by decide
theorem ipa_args :
    Gen.ipaProverArgs = ["", "&commitment", "&evalPoint", "&inner_prod", "", "&C_L", "&C_R", ""] ∧
    Gen.ipaVerifierArgs = ["", "&commitment", "&evalPoint", "&result", ""] ∧
    Gen.ipaChallengesArgs = ["&proof.L[i]", "&proof.R[i]", ""] ∧
    Gen.ipaProverVars.lookup "inner_prod" = some "InnerProd(a, b)" ∧
    Gen.ipaProverVars.lookup "b" = some "computeBVector(ic, evalPoint)" ∧
    Gen.ipaVerifierVars.lookup "b" = some "computeBVector(ic, evalPoint)" := by decide

/-- the label variables hold the bytes the model uses -/
theorem mp_labels :
    Gen.mpLabels.map (fun p => str p.2) =
      [Label.C, Label.z, Label.y, Label.D, Label.E, Label.t, Label.r, Label.multiproof] := by decide +kernel
theorem ipa_labels :
    Gen.ipaLabels.map (fun p => str p.2) =
      [Label.ipa, Label.C, Label.inputPoint, Label.outputPoint, Label.w, Label.L, Label.R, Label.x] := by decide +kernel

/-- the transcript methods: label then message, both unconditionally; scalars/points through
their encoders; a challenge separates, flushes, sums, resets and re-absorbs -/
theorem transcript_methods :
    Gen.trAppendMessage = ["t.buff.Write(label)", "t.buff.Write(message)"] ∧
    Gen.trAppendScalar = ["scalar.BytesLE()", "t.AppendMessage(tmpBytes[:], label)"] ∧
    Gen.trAppendPoint = ["point.Bytes()", "t.AppendMessage(tmp_bytes[:], label)"] ∧
    Gen.trDomainSep = ["t.buff.Write(label)"] ∧
    Gen.trChallengeScalar = ["t.DomainSep(label)", "t.state.Write(t.buff.Bytes())", "t.buff.Bytes()", "t.buff.Reset()",
      "t.state.Sum(nil)", "tmp.SetBytesLE(bytes)", "t.state.Reset()", "t.AppendScalar(&tmp, label)"] := by decide

end GoIpa.Tie.Schedules
