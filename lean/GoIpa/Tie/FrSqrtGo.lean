/-
  Tie T1 for C15, `Sqrt`: the straight-line pieces of `fr.Element.Sqrt` (Tonelli–Shanks for 2-adicity 5) —
  the prologue `w = x^((s−1)/2); y = x·w; b = w·y`, the limb test "t is the Montgomery form of 1", the loop tail
  `g = t²; y = y·t; b = b·g`, the exponent, the hard-coded `g`, the initial `r = 5` — extracted / pattern-checked
  from the current source (`Gen/FrSqrtGo.lean`).  The loop skeleton (two unbounded `for` loops; pinned as text by
  `Tie.FrConsts.untranslated_bodies`) is written over these pieces (`sqN'`, `countSq'`, `goLoop`, `goSqrt`) and
  proved, through the homomorphism `valOf` of `Tie.FrMiscModel`, to be the model's `FrSqrt.sqrt` on the
  represented scalars (`goSqrt_spec`) — the function of which `SqrtProof.sqrt_spec` shows: a returned `y` has
  `y² = x`, `nil` exactly for non-residues, `Sqrt(0) = 0`.
-/
import GoIpa.Gen.FrSqrtGo
import GoIpa.Tie.FrMiscModel
import GoIpa.Model.FrSqrt
import GoIpa.Lemmas.SqrtProof
namespace GoIpa.Tie.FrSqrtGo
open GoIpa GoIpa.Limbs GoIpa.Cios GoIpa.Gen.FrCodec GoIpa.Gen.FrMisc GoIpa.Gen.FrSqrtGo GoIpa.Tie.FrCodec GoIpa.Tie.FrMisc

/-- fully reduced limb vectors -/
def Red (x : L4) : Prop := x.ok ∧ x.val < R

theorem red_mul (x y : L4) (hx : Red x) (hy : Red y) : Red (mulG x y) := by
  obtain ⟨ok, lt, _⟩ := mulG_correct x y hx.1 hy.1 hy.2
  exact ⟨ok, lt⟩

theorem valOf_mul' (x y : L4) (hx : Red x) (hy : Red y) : valOf (mulG x y) = valOf x * valOf y :=
  valOf_mul x y hx.1 hy.1 hy.2

theorem red_one : Red oneL := ⟨one_repr.2.2, one_repr.2.1⟩
theorem red_zero : Red ⟨0, 0, 0, 0⟩ := ⟨zero_repr.2.2, zero_repr.2.1⟩

/-- the limb test of `Sqrt` decides `valOf t = 1` -/
theorem isOne_iff (t : L4) (ht : Red t) : go_sqrtIsOne t = true ↔ (valOf t).val = 1 := by
  have h1 : go_sqrtIsOne t = true ↔ t = oneL := by
    obtain ⟨t0, t1, t2, t3⟩ := t
    unfold go_sqrtIsOne oneL
    rw [decide_eq_true_eq, L4.mk.injEq]
    show ((((t3 = _) ∧ (t2 = _)) ∧ (t1 = _)) ∧ (t0 = _)) ↔ _
    constructor
    · rintro ⟨⟨⟨a, b⟩, c⟩, d⟩; exact ⟨d, c, b, a⟩
    · rintro ⟨d, c, b, a⟩; exact ⟨⟨⟨a, b⟩, c⟩, d⟩
  rw [h1, ← valOf_inj t oneL ht.1 red_one.1 ht.2 red_one.2, valOf_one]
  constructor
  · intro h; rw [h]; rfl
  · intro h; exact fr_ext _ _ (by rw [h]; rfl)

theorem isZero_iff' (t : L4) (ht : Red t) : go_IsZero t = true ↔ (valOf t).val = 0 := by
  rw [isZero_iff, ← valOf_inj t _ ht.1 red_zero.1 ht.2 red_zero.2, valOf_zero]
  constructor
  · intro h; rw [h]; rfl
  · intro h; exact fr_ext _ _ (by rw [h]; rfl)

/-! ### the loop skeleton (pinned text) over the translated pieces -/


/-- `n`-fold iteration -/
def iter {α : Type} (f : α → α) : Nat → α → α
  | 0, t => t
  | n + 1, t => iter f n (f t)

/-- `n` in-place squarings -/
def sqN' (n : Nat) (t : L4) : L4 := iter (fun t => mulG t t) n t

theorem sqN'_zero (t : L4) : sqN' 0 t = t := by unfold sqN'; rw [iter]
theorem sqN'_succ (n : Nat) (t : L4) : sqN' (n + 1) t = sqN' n (mulG t t) := by unfold sqN'; rw [iter]

theorem sqN'_spec : ∀ (n : Nat) (t : L4), Red t → Red (sqN' n t) ∧ valOf (sqN' n t) = FrSqrt.sqN n (valOf t) := by
  intro n
  induction n with
  | zero => intro t ht; rw [sqN'_zero, FrSqrt.sqN]; exact ⟨ht, rfl⟩
  | succ n ih =>
    intro t ht
    obtain ⟨r, e⟩ := ih (mulG t t) (red_mul t t ht ht)
    rw [sqN'_succ, FrSqrt.sqN]
    refine ⟨r, ?_⟩
    rw [e, valOf_mul' t t ht ht]

/-- `for t != 1 { t = t²; m++ }`, cut off after `fuel` iterations -/
def countSq' : Nat → L4 → Nat
  | 0, _ => 0
  | fuel + 1, t => if go_sqrtIsOne t = true then 0 else 1 + countSq' fuel (mulG t t)

theorem countSq'_spec : ∀ (fuel : Nat) (t : L4), Red t → countSq' fuel t = FrSqrt.countSq fuel (valOf t) := by
  intro fuel
  induction fuel with
  | zero => intro t _; rfl
  | succ fuel ih =>
    intro t ht
    unfold countSq' FrSqrt.countSq
    by_cases h : (valOf t).val = 1
    · rw [if_pos ((isOne_iff t ht).2 h), if_pos h]
    · have h' : ¬ go_sqrtIsOne t = true := fun e => h ((isOne_iff t ht).1 e)
      rw [if_neg h', if_neg h, ih _ (red_mul t t ht ht), valOf_mul' t t ht ht]

/-- the main loop on `(g, y, b, r)` -/
def goLoop : Nat → L4 → L4 → L4 → Nat → Option L4
  | 0, _, _, _, _ => none
  | fuel + 1, g, y, b, r =>
    let m := countSq' r b
    if m = 0 then some y
    else
      let t := sqN' (r - m - 1) g
      let st := go_sqrtStep y b t
      goLoop fuel st.1 st.2.1 st.2.2 m

theorem goLoop_spec : ∀ (fuel : Nat) (g y b : L4) (r : Nat), Red g → Red y → Red b →
    (goLoop fuel g y b r).map valOf = FrSqrt.loop fuel (valOf g) (valOf y) (valOf b) r ∧
      ∀ z, goLoop fuel g y b r = some z → Red z := by
  intro fuel
  induction fuel with
  | zero => intro g y b r _ _ _; exact ⟨rfl, fun z h => by cases h⟩
  | succ fuel ih =>
    intro g y b r hg hy hb
    unfold goLoop FrSqrt.loop
    simp only
    rw [countSq'_spec r b hb]
    by_cases hm : FrSqrt.countSq r (valOf b) = 0
    · rw [if_pos hm, if_pos hm]
      exact ⟨rfl, fun z h => by cases h; exact hy⟩
    · rw [if_neg hm, if_neg hm]
      obtain ⟨rt, et⟩ := sqN'_spec (r - FrSqrt.countSq r (valOf b) - 1) g hg
      have rg' := red_mul _ _ rt rt
      have ry' := red_mul _ _ hy rt
      have rb' := red_mul _ _ hb rg'
      have := ih (mulG (sqN' (r - FrSqrt.countSq r (valOf b) - 1) g) (sqN' (r - FrSqrt.countSq r (valOf b) - 1) g))
        (mulG y (sqN' (r - FrSqrt.countSq r (valOf b) - 1) g))
        (mulG b (mulG (sqN' (r - FrSqrt.countSq r (valOf b) - 1) g) (sqN' (r - FrSqrt.countSq r (valOf b) - 1) g)))
        (FrSqrt.countSq r (valOf b)) rg' ry' rb'
      rw [valOf_mul' _ _ hb rg', valOf_mul' _ _ hy rt, valOf_mul' _ _ rt rt, et] at this
      exact this

/-- `Sqrt` over the translated pieces (`none` = the Go `nil`) -/
def goSqrt (x : L4) : Option L4 :=
  let yb := go_sqrtInit x
  let t := sqN' (sqrtR0 - 1) yb.2
  if go_IsZero t = true then some ⟨0, 0, 0, 0⟩
  else if ¬ (go_sqrtIsOne t = true) then none
  else goLoop 6 sqrtG yb.1 yb.2 sqrtR0

theorem sqrtExponent_eq : sqrtExponent = ((((FrSqrt.sOdd - 1) / 2 : Nat)) : Int) := by decide +kernel
theorem sqrtG_red : Red sqrtG := by
  constructor
  · unfold L4.ok; decide +kernel
  · decide +kernel
theorem sqrtG_val : valOf sqrtG = FrSqrt.gConst := by decide +kernel

/-- **`Sqrt` over the translated pieces is the model's Tonelli–Shanks `FrSqrt.sqrt`** on the represented scalars
(of which `SqrtProof.sqrt_spec` shows: a returned `y` has `y² = x`, `nil` exactly for non-residues) -/
theorem goSqrt_spec (x : L4) (hx : Red x) : (goSqrt x).map valOf = FrSqrt.sqrt (valOf x) := by
  unfold goSqrt go_sqrtInit FrSqrt.sqrt
  simp only
  rw [sqrtExponent_eq]
  obtain ⟨_, lw, ow⟩ := exp_repr ⟨0, 0, 0, 0⟩ x (valOf x).val (((FrSqrt.sOdd - 1) / 2 : Nat) : Int) (by omega) hx.1 hx.2 (repr_valOf x hx.1)
  have rw' : Red (go_Exp ⟨0, 0, 0, 0⟩ x (((FrSqrt.sOdd - 1) / 2 : Nat) : Int)) := ⟨ow, lw⟩
  have ew : valOf (go_Exp ⟨0, 0, 0, 0⟩ x (((FrSqrt.sOdd - 1) / 2 : Nat) : Int)) = FrSqrt.exp (valOf x) ((FrSqrt.sOdd - 1) / 2) := by
    rw [FrSqrt.exp_eq_pow]
    apply fr_ext
    unfold valOf Zp.ofNat
    simp only
    rw [exp_model ⟨0, 0, 0, 0⟩ x (valOf x) ((FrSqrt.sOdd - 1) / 2) hx.1 hx.2 (repr_valOf x hx.1)]
    exact Nat.mod_eq_of_lt (valOf x ^ ((FrSqrt.sOdd - 1) / 2)).lt
  generalize go_Exp ⟨0, 0, 0, 0⟩ x (((FrSqrt.sOdd - 1) / 2 : Nat) : Int) = w at *
  have ry := red_mul x w hx rw'
  have rb := red_mul w (mulG x w) rw' ry
  have ey : valOf (mulG x w) = valOf x * FrSqrt.exp (valOf x) ((FrSqrt.sOdd - 1) / 2) := by rw [valOf_mul' x w hx rw', ew]
  have eb : valOf (mulG w (mulG x w)) = FrSqrt.exp (valOf x) ((FrSqrt.sOdd - 1) / 2) * (valOf x * FrSqrt.exp (valOf x) ((FrSqrt.sOdd - 1) / 2)) := by
    rw [valOf_mul' w _ rw' ry, ew, ey]
  have h4 : sqrtR0 - 1 = 4 := rfl
  rw [h4]
  obtain ⟨rt, et⟩ := sqN'_spec 4 _ rb
  rw [← eb, ← ey, ← et]
  generalize sqN' 4 (mulG w (mulG x w)) = t at *
  by_cases hz : (valOf t).val = 0
  · rw [if_pos ((isZero_iff' t rt).2 hz), if_pos hz]
    show some (valOf ⟨0, 0, 0, 0⟩) = some 0
    rw [valOf_zero]
  · have hz' : ¬ go_IsZero t = true := fun e => hz ((isZero_iff' t rt).1 e)
    rw [if_neg hz', if_neg hz]
    by_cases h1 : (valOf t).val = 1
    · have h1' : go_sqrtIsOne t = true := (isOne_iff t rt).2 h1
      have : ¬ ¬ (go_sqrtIsOne t = true) := fun h => h h1'
      rw [if_neg this, if_neg (show ¬ (valOf t).val ≠ 1 from fun h => h h1)]
      have := (goLoop_spec 6 sqrtG (mulG x w) (mulG w (mulG x w)) sqrtR0 sqrtG_red ry rb).1
      rw [sqrtG_val] at this
      exact this
    · have h1' : ¬ (go_sqrtIsOne t = true) := fun e => h1 ((isOne_iff t rt).1 e)
      rw [if_pos h1', if_pos (show (valOf t).val ≠ 1 from h1)]
      rfl

end GoIpa.Tie.FrSqrtGo
