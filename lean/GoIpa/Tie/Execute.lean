/-
  Tie T1 for C20/C12: the Lean function REGENERATED from `common/parallel/execute.go` on every
  run computes exactly the ranges of the hand-written model, for every `n` and every `m ≥ 1`;
  and the WaitGroup statements sit where the join model assumes them.
-/
import Mathlib.Tactic.Ring
import Mathlib.Tactic.Linarith
import GoIpa.Gen.Execute
import GoIpa.Model.Ranges
namespace GoIpa.Tie.Execute
open GoIpa

def castPair (p : Nat × Nat) : Int × Int := ((p.1 : Int), (p.2 : Int))

theorem loop_eq (n nbTasks : Int) (per : Nat) : ∀ (fuel i extra off : Nat),
    Gen.executeLoop n nbTasks (per : Int) fuel (i : Int) (extra : Int) (off : Int)
      = (rangesLoop per fuel i extra off).map castPair := by
  intro fuel
  induction fuel with
  | zero => intro i extra off; simp [Gen.executeLoop, rangesLoop]
  | succ fuel ih =>
    intro i extra off
    unfold Gen.executeLoop rangesLoop
    dsimp only
    by_cases h : extra > 0
    · have h' : (extra : Int) > 0 := by omega
      simp only [h, h', ↓reduceIte, List.map_cons]
      have e1 : (i : Int) + 1 = ((i + 1 : Nat) : Int) := by omega
      have e2 : (extra : Int) - 1 = ((extra - 1 : Nat) : Int) := by omega
      have e3 : (off : Int) + 1 = ((off + 1 : Nat) : Int) := by omega
      rw [e1, e2, e3, ih]
      simp only [castPair]
      congr 1
      try (refine Prod.ext ?_ ?_ <;> simp only <;> push_cast <;> ring)
    · have h' : ¬ (extra : Int) > 0 := by omega
      simp only [h, h', ↓reduceIte, List.map_cons]
      have e1 : (i : Int) + 1 = ((i + 1 : Nat) : Int) := by omega
      rw [e1, ih]
      simp only [castPair]
      congr 1
      try (refine Prod.ext ?_ ?_ <;> simp only <;> push_cast <;> ring)

/-- **The translated `Execute` hands out exactly the model's ranges.** -/
theorem executeRanges_eq (n m : Nat) (hm : 1 ≤ m) (numCPU : Int) :
    Gen.executeRanges (n : Int) (m : Int) numCPU = (ranges n m).map castPair := by
  unfold Gen.executeRanges ranges
  dsimp only
  have hdiv : Int.tdiv (n : Int) (m : Int) = ((n / m : Nat) : Int) := by
    rw [Int.tdiv_eq_ediv_of_nonneg (by omega)]; norm_cast
  rw [hdiv]
  by_cases h : n / m < 1
  · have h' : ((n / m : Nat) : Int) < 1 := by omega
    simp only [h, h', ↓reduceIte]
    have e : (n : Int) - (n : Int) * 1 = ((n - n * 1 : Nat) : Int) := by omega
    rw [e, Int.toNat_natCast]
    exact loop_eq (n : Int) (n : Int) 1 n 0 (n - n * 1) 0
  · have h' : ¬ ((n / m : Nat) : Int) < 1 := by omega
    simp only [h, h', ↓reduceIte]
    have hle : m * (n / m) ≤ n := Nat.mul_div_le n m
    have e : (n : Int) - (m : Int) * ((n / m : Nat) : Int) = ((n - m * (n / m) : Nat) : Int) := by
      push_cast [Nat.cast_sub hle]; ring
    rw [e, Int.toNat_natCast]
    exact loop_eq (n : Int) (m : Int) (n / m) m 0 (n - m * (n / m)) 0

/-- the WaitGroup statements: `Add(1)` before each `go`, `Done()` right after `work`,
`Wait()` after the loop, and the loop runs `nbTasks` times -/
theorem waitgroup_shape :
    Gen.executeFacts = ["decl:wg:sync.WaitGroup", "wait-after-loop", "add-before-go", "work-then-done"] ∧
    Gen.executeLoopBound = "nbTasks" := by decide

end GoIpa.Tie.Execute
