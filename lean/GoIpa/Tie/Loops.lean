/-
  Tie T1 for the scalar-field loop code: the functions of `ipa/barycentric.go`, `ipa/config.go`,
  `common.PowersOf` and `fr.BatchInvert`, translated statement by statement from the current
  source (`Gen/Loops.lean`, regenerated on every run), are the functions of the hand-written model
  (`Model/Bary.lean`, `Model/Ipa.lean`) that the property theorems are about.

  The translated code is imperative in shape — slices written in place by counting loops with
  `continue`, interleaved updates of two positions — whereas the model is written with `map`,
  `zipWith` and folds; each theorem below is a loop-invariant proof that the two agree.
-/
import GoIpa.Gen.Loops
import GoIpa.Lemmas.LoopLemmas
import GoIpa.Model.Ipa
import Mathlib.Tactic.Ring
set_option linter.unusedSectionVars false
namespace GoIpa.Tie.Loops
open GoIpa GoIpa.Loop

variable {K : Type} [Zero K] [One K] [Add K] [Sub K] [Mul K] [Neg K] [Inv K] [NatCast K] [DecidableEq K]

/-! ### the index helpers -/

theorem absInt_eq (x : Int) : Gen.Loops.absInt x = (((GoIpa.absInt x).1 : Int), (GoIpa.absInt x).2) := by
  unfold Gen.Loops.absInt GoIpa.absInt
  by_cases h : x < 0
  · simp only [h, decide_true, ↓reduceIte]
    congr 1
    omega
  · simp only [h, decide_false, Bool.false_eq_true, ↓reduceIte]
    congr 1
    omega

theorem getInvertedElement_eq (bary invDom : List K) (element : Nat) (h1 : 1 ≤ element) (isNeg : Bool) :
    Gen.Loops.getInvertedElement bary invDom (element : Int) isNeg
      = (⟨bary, invDom⟩ : Weights K).invertedElement element isNeg := by
  unfold Gen.Loops.getInvertedElement Weights.invertedElement
  have e1 : ((element : Int) - 1) = ((element - 1 : Nat) : Int) := by omega
  have e2 : ((invDom.length : Int) / 2) = ((invDom.length / 2 : Nat) : Int) := by omega
  cases isNeg
  · simp only [Bool.false_eq_true, ↓reduceIte, e1]
    exact get_nat _ _ _
  · simp only [↓reduceIte, e1, e2]
    rw [← Nat.cast_add]
    exact get_nat _ _ _

theorem getRatioOfWeights_eq (bary invDom : List K) (num den : Nat) :
    Gen.Loops.getRatioOfWeights bary invDom (num : Int) (den : Int) = (⟨bary, invDom⟩ : Weights K).ratio num den := by
  unfold Gen.Loops.getRatioOfWeights Weights.ratio
  have e2 : ((bary.length : Int) / 2) = ((bary.length / 2 : Nat) : Int) := by omega
  simp only [e2]
  rw [← Nat.cast_add, get_nat, get_nat]

/-! ### `DivideOnDomain` -/

/-- the off-index quotient entries `q_i = (f_i − f_k) / (i − k)` as the model computes them -/
def qEntry (w : Weights K) (k : Nat) (f : List K) (i : Nat) : K :=
  if i = k then 0
  else (f.getD i 0 - f.getD k 0) * w.invertedElement (GoIpa.absInt ((i : Int) - (k : Int))).1 (GoIpa.absInt ((i : Int) - (k : Int))).2

theorem absInt_pos (i k : Nat) (h : i ≠ k) : 1 ≤ (GoIpa.absInt ((i : Int) - (k : Int))).1 := by
  unfold GoIpa.absInt
  by_cases hlt : (i : Int) - (k : Int) < 0
  · simp only [hlt, ↓reduceIte]; omega
  · simp only [hlt, ↓reduceIte]; omega

/-- **`DivideOnDomain` as written in Go — one loop that writes `quotient[i]` and at the same
time subtracts from `quotient[index]` — is the model's two-pass definition.** -/
theorem divideOnDomain_eq (w : Weights K) (k : Nat) (hk : k < 256) (f : List K) :
    Gen.Loops.divideOnDomain w.bary w.invDom (k : Int) f = w.divideOnDomain 256 k f := by
  unfold Gen.Loops.divideOnDomain
  simp only
  have h256 : ((256 : Int)) = ((256 : Nat) : Int) := rfl
  rw [h256, forUp_zero]
  -- the invariant after `n` iterations
  let qk : Nat → K := fun n => (List.range n).foldl (fun acc i =>
      if i = k then acc else acc - w.ratio k i * qEntry w k f i) 0
  generalize hres : List.foldl _ _ _ = res
  have inv : res.length = 256 ∧ res.getD k 0 = qk 256 ∧
      ∀ j, j < 256 → j ≠ k → res.getD j 0 = if j < 256 then qEntry w k f j else 0 := by
    rw [← hres]
    refine foldl_range_inv
      (fun n (q : List K) => q.length = 256 ∧ q.getD k 0 = qk n ∧
        ∀ j, j < 256 → j ≠ k → q.getD j 0 = if j < n then qEntry w k f j else 0) _ _ 256 ?_ ?_
    · refine ⟨List.length_replicate, ?_, ?_⟩
      · show (List.replicate 256 (0 : K)).getD k 0 = _
        rw [getD_replicate _ _ _ _ hk]; rfl
      · intro j hj _
        show (List.replicate 256 (0 : K)).getD j 0 = _
        rw [getD_replicate _ _ _ _ hj]; simp
    · intro n q hn ⟨hlen, hqk, hrest⟩
      by_cases hnk : n = k
      · -- the iteration at the division index does nothing
        subst hnk
        have : ¬ ((n : Int) ≠ (n : Int)) := by simp
        simp only [this, ↓reduceIte]
        refine ⟨hlen, ?_, ?_⟩
        · rw [hqk]
          show qk n = qk (n + 1)
          simp only [qk]
          rw [List.range_succ, List.foldl_append]
          simp
        · intro j hj hjk
          rw [hrest j hj hjk]
          have hiff : (j < n + 1) ↔ (j < n) := by omega
          simp only [hiff]
      · have hne : ((n : Int) ≠ (k : Int)) := by omega
        simp only [hne, ne_eq, not_false_eq_true, ↓reduceIte]
        rw [absInt_eq]
        simp only
        rw [getInvertedElement_eq _ _ _ (absInt_pos n k hnk), getRatioOfWeights_eq]
        simp only [get_nat, set_nat]
        -- the value written at position n
        have hn256 : n < q.length := by omega
        have hv : ((q.set n (f.getD n 0 - f.getD k 0)).getD n 0) = f.getD n 0 - f.getD k 0 := by
          rw [getD_set]; simp [hn256]
        rw [hv]
        have hq : (f.getD n 0 - f.getD k 0) *
            Weights.invertedElement ⟨w.bary, w.invDom⟩ (GoIpa.absInt ((n : Int) - (k : Int))).1 (GoIpa.absInt ((n : Int) - (k : Int))).2
            = qEntry w k f n := by
          unfold qEntry; rw [if_neg hnk]
        rw [hq]
        have hset2 : ((q.set n (f.getD n 0 - f.getD k 0)).set n (qEntry w k f n)) = q.set n (qEntry w k f n) := by
          rw [List.set_set]
        rw [hset2]
        have hvn : (q.set n (qEntry w k f n)).getD n 0 = qEntry w k f n := by
          rw [getD_set]; simp [hn256]
        have hvk : (q.set n (qEntry w k f n)).getD k 0 = q.getD k 0 := by
          rw [getD_set]; simp [hnk]
        rw [hvn, hvk]
        refine ⟨by simp [hlen], ?_, ?_⟩
        · rw [getD_set]
          simp only [List.length_set, hlen, hk, and_self, ↓reduceIte]
          rw [hqk]
          show _ = qk (n + 1)
          simp only [qk]
          rw [List.range_succ, List.foldl_append]
          simp [hnk]
        · intro j hj hjk
          rw [getD_set]
          have : ¬ (k = j ∧ k < (q.set n (qEntry w k f n)).length) := by
            intro h; exact hjk h.1.symm
          rw [if_neg this, getD_set]
          by_cases hjn : n = j
          · subst hjn
            simp [hn256]
          · have : ¬ (n = j ∧ n < q.length) := fun h => hjn h.1
            rw [if_neg this, hrest j hj hjk]
            have hiff : (j < n + 1) ↔ (j < n) := by omega
            simp only [hiff]
  obtain ⟨hlen, hqk, hrest⟩ := inv
  -- compare with the model pointwise
  unfold Weights.divideOnDomain
  simp only
  apply ext_getD _ _ (0 : K) (by rw [hlen, List.length_map, List.length_range])
  intro j hj
  rw [hlen] at hj
  rw [getD_map_range _ _ _ _ hj]
  have hqmap : ∀ i, i < 256 → ((List.range 256).map fun i =>
      if i = k then (0 : K) else
        match GoIpa.absInt ((i : Int) - (k : Int)) with
        | (absDen, isNeg) => (f.getD i 0 - f.getD k 0) * w.invertedElement absDen isNeg).getD i 0 = qEntry w k f i := by
    intro i hi
    rw [getD_map_range _ _ _ _ hi]
    unfold qEntry
    rfl
  by_cases hjk : j = k
  · subst hjk
    simp only [↓reduceIte]
    rw [hqk]
    show qk 256 = _
    simp only [qk]
    apply List.foldl_ext
    intro acc i hi
    have hi' : i < 256 := List.mem_range.mp hi
    by_cases hik : i = j
    · simp [hik]
    · simp only [hik, ↓reduceIte]
      rw [hqmap i hi']
  · simp only [hjk, ↓reduceIte]
    rw [hrest j hj hjk, if_pos hj, hqmap j hj]

end GoIpa.Tie.Loops
