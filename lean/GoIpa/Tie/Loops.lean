/-
  Tie T1 for the scalar-field loop code: the functions of `ipa/barycentric.go`, `ipa/config.go`,
  `common.PowersOf` and `fr.BatchInvert`, translated statement by statement from the current
  source (`Gen/Loops.lean`, regenerated on every run), are the functions of the hand-written model
  (`Model/Bary.lean`, `Model/Ipa.lean`) that the property theorems are about.

  The translated code is imperative in shape — slices written in place by counting loops with
  `continue`, interleaved updates of two positions — whereas the model is written with `map`,
  `zipWith` and folds; each theorem below is a loop-invariant proof that the two agree.
-/
import GoIpa.Gen.Loops
import GoIpa.Lemmas.LoopLemmas
import GoIpa.Model.Ipa
import GoIpa.Lemmas.BatchInvert
import Mathlib.Tactic.Ring
set_option linter.unusedSectionVars false
namespace GoIpa.Tie.Loops
open GoIpa GoIpa.Loop

variable {K : Type} [Zero K] [One K] [Add K] [Sub K] [Mul K] [Neg K] [Inv K] [NatCast K] [DecidableEq K]

/-! ### the index helpers -/

theorem absInt_eq (x : Int) : Gen.Loops.absInt x = (((GoIpa.absInt x).1 : Int), (GoIpa.absInt x).2) := by
  unfold Gen.Loops.absInt GoIpa.absInt
  by_cases h : x < 0
  · simp only [h, decide_true, ↓reduceIte]
    congr 1
    omega
  · simp only [h, decide_false, Bool.false_eq_true, ↓reduceIte]
    congr 1
    omega

theorem getInvertedElement_eq (bary invDom : List K) (element : Nat) (h1 : 1 ≤ element) (isNeg : Bool) :
    Gen.Loops.getInvertedElement bary invDom (element : Int) isNeg
      = (⟨bary, invDom⟩ : Weights K).invertedElement element isNeg := by
  unfold Gen.Loops.getInvertedElement Weights.invertedElement
  have e1 : ((element : Int) - 1) = ((element - 1 : Nat) : Int) := by omega
  have e2 : ((invDom.length : Int) / 2) = ((invDom.length / 2 : Nat) : Int) := by omega
  cases isNeg
  · simp only [Bool.false_eq_true, ↓reduceIte, e1]
    exact get_nat _ _ _
  · simp only [↓reduceIte, e1, e2]
    rw [← Nat.cast_add]
    exact get_nat _ _ _

theorem getRatioOfWeights_eq (bary invDom : List K) (num den : Nat) :
    Gen.Loops.getRatioOfWeights bary invDom (num : Int) (den : Int) = (⟨bary, invDom⟩ : Weights K).ratio num den := by
  unfold Gen.Loops.getRatioOfWeights Weights.ratio
  have e2 : ((bary.length : Int) / 2) = ((bary.length / 2 : Nat) : Int) := by omega
  simp only [e2]
  rw [← Nat.cast_add, get_nat, get_nat]

/-! ### `DivideOnDomain` -/

/-- the off-index quotient entries `q_i = (f_i − f_k) / (i − k)` as the model computes them -/
def qEntry (w : Weights K) (k : Nat) (f : List K) (i : Nat) : K :=
  if i = k then 0
  else (f.getD i 0 - f.getD k 0) * w.invertedElement (GoIpa.absInt ((i : Int) - (k : Int))).1 (GoIpa.absInt ((i : Int) - (k : Int))).2

theorem absInt_pos (i k : Nat) (h : i ≠ k) : 1 ≤ (GoIpa.absInt ((i : Int) - (k : Int))).1 := by
  unfold GoIpa.absInt
  by_cases hlt : (i : Int) - (k : Int) < 0
  · simp only [hlt, ↓reduceIte]; omega
  · simp only [hlt, ↓reduceIte]; omega

/-- **`DivideOnDomain` as written in Go — one loop that writes `quotient[i]` and at the same
time subtracts from `quotient[index]` — is the model's two-pass definition.** -/
theorem divideOnDomain_eq (w : Weights K) (k : Nat) (hk : k < 256) (f : List K) :
    Gen.Loops.divideOnDomain w.bary w.invDom (k : Int) f = w.divideOnDomain 256 k f := by
  unfold Gen.Loops.divideOnDomain
  simp only
  have h256 : ((256 : Int)) = ((256 : Nat) : Int) := rfl
  rw [h256, forUp_zero]
  -- the invariant after `n` iterations
  let qk : Nat → K := fun n => (List.range n).foldl (fun acc i =>
      if i = k then acc else acc - w.ratio k i * qEntry w k f i) 0
  generalize hres : List.foldl _ _ _ = res
  have inv : res.length = 256 ∧ res.getD k 0 = qk 256 ∧
      ∀ j, j < 256 → j ≠ k → res.getD j 0 = if j < 256 then qEntry w k f j else 0 := by
    rw [← hres]
    refine foldl_range_inv
      (fun n (q : List K) => q.length = 256 ∧ q.getD k 0 = qk n ∧
        ∀ j, j < 256 → j ≠ k → q.getD j 0 = if j < n then qEntry w k f j else 0) _ _ 256 ?_ ?_
    · refine ⟨List.length_replicate, ?_, ?_⟩
      · show (List.replicate 256 (0 : K)).getD k 0 = _
        rw [getD_replicate _ _ _ _ hk]; rfl
      · intro j hj _
        show (List.replicate 256 (0 : K)).getD j 0 = _
        rw [getD_replicate _ _ _ _ hj]; simp
    · intro n q hn ⟨hlen, hqk, hrest⟩
      by_cases hnk : n = k
      · -- the iteration at the division index does nothing
        subst hnk
        have : ¬ ((n : Int) ≠ (n : Int)) := by simp
        simp only [this, ↓reduceIte]
        refine ⟨hlen, ?_, ?_⟩
        · rw [hqk]
          show qk n = qk (n + 1)
          simp only [qk]
          rw [List.range_succ, List.foldl_append]
          simp
        · intro j hj hjk
          rw [hrest j hj hjk]
          have hiff : (j < n + 1) ↔ (j < n) := by omega
          simp only [hiff]
      · have hne : ((n : Int) ≠ (k : Int)) := by omega
        simp only [hne, ne_eq, not_false_eq_true, ↓reduceIte]
        rw [absInt_eq]
        simp only
        rw [getInvertedElement_eq _ _ _ (absInt_pos n k hnk), getRatioOfWeights_eq]
        simp only [get_nat, set_nat]
        -- the value written at position n
        have hn256 : n < q.length := by omega
        have hv : ((q.set n (f.getD n 0 - f.getD k 0)).getD n 0) = f.getD n 0 - f.getD k 0 := by
          rw [getD_set]; simp [hn256]
        rw [hv]
        have hq : (f.getD n 0 - f.getD k 0) *
            Weights.invertedElement ⟨w.bary, w.invDom⟩ (GoIpa.absInt ((n : Int) - (k : Int))).1 (GoIpa.absInt ((n : Int) - (k : Int))).2
            = qEntry w k f n := by
          unfold qEntry; rw [if_neg hnk]
        rw [hq]
        have hset2 : ((q.set n (f.getD n 0 - f.getD k 0)).set n (qEntry w k f n)) = q.set n (qEntry w k f n) := by
          rw [List.set_set]
        rw [hset2]
        have hvn : (q.set n (qEntry w k f n)).getD n 0 = qEntry w k f n := by
          rw [getD_set]; simp [hn256]
        have hvk : (q.set n (qEntry w k f n)).getD k 0 = q.getD k 0 := by
          rw [getD_set]; simp [hnk]
        rw [hvn, hvk]
        refine ⟨by simp [hlen], ?_, ?_⟩
        · rw [getD_set]
          simp only [List.length_set, hlen, hk, and_self, ↓reduceIte]
          rw [hqk]
          show _ = qk (n + 1)
          simp only [qk]
          rw [List.range_succ, List.foldl_append]
          simp [hnk]
        · intro j hj hjk
          rw [getD_set]
          have : ¬ (k = j ∧ k < (q.set n (qEntry w k f n)).length) := by
            intro h; exact hjk h.1.symm
          rw [if_neg this, getD_set]
          by_cases hjn : n = j
          · subst hjn
            simp [hn256]
          · have : ¬ (n = j ∧ n < q.length) := fun h => hjn h.1
            rw [if_neg this, hrest j hj hjk]
            have hiff : (j < n + 1) ↔ (j < n) := by omega
            simp only [hiff]
  obtain ⟨hlen, hqk, hrest⟩ := inv
  -- compare with the model pointwise
  unfold Weights.divideOnDomain
  simp only
  apply ext_getD _ _ (0 : K) (by rw [hlen, List.length_map, List.length_range])
  intro j hj
  rw [hlen] at hj
  rw [getD_map_range _ _ _ _ hj]
  have hqmap : ∀ i, i < 256 → ((List.range 256).map fun i =>
      if i = k then (0 : K) else
        match GoIpa.absInt ((i : Int) - (k : Int)) with
        | (absDen, isNeg) => (f.getD i 0 - f.getD k 0) * w.invertedElement absDen isNeg).getD i 0 = qEntry w k f i := by
    intro i hi
    rw [getD_map_range _ _ _ _ hi]
    unfold qEntry
    rfl
  by_cases hjk : j = k
  · subst hjk
    simp only [↓reduceIte]
    rw [hqk]
    show qk 256 = _
    simp only [qk]
    apply List.foldl_ext
    intro acc i hi
    have hi' : i < 256 := List.mem_range.mp hi
    by_cases hik : i = j
    · simp [hik]
    · simp only [hik, ↓reduceIte]
      rw [hqmap i hi']
  · simp only [hjk, ↓reduceIte]
    rw [hrest j hj hjk, if_pos hj, hqmap j hj]

/-! ### the vector helpers of `ipa/config.go` -/

/-- `InnerProd` -/
theorem innerProd_eq (a b : List K) (h : a.length = b.length) :
    Gen.Loops.innerProd a b = some (GoIpa.innerProd a b) := by
  unfold Gen.Loops.innerProd
  have hne : ¬ (((a.length : Nat) : Int) ≠ ((b.length : Nat) : Int)) := by simp [h]
  simp only [hne, ↓reduceIte]
  rw [forUp_zero]
  congr 1
  unfold GoIpa.innerProd sumF
  rw [zipWith_eq_range_map (· * ·) a b 0 0 h, List.foldl_map]
  apply List.foldl_ext
  intro acc i _
  simp only [get_nat]

/-- `foldScalars` -/
theorem foldScalars_eq (a b : List K) (x : K) (h : a.length = b.length) :
    Gen.Loops.foldScalars a b x = some (GoIpa.foldScalars a b x) := by
  unfold Gen.Loops.foldScalars
  have hne : ¬ (((a.length : Nat) : Int) ≠ ((b.length : Nat) : Int)) := by simp [h]
  simp only [hne, ↓reduceIte]
  rw [forUp_zero]
  congr 1
  have hrep : (((a.length : Nat) : Int)).toNat = a.length := by simp
  rw [hrep]
  rw [foldl_pointwise a.length (0 : K) (fun i _ => x * b.getD i 0 + a.getD i 0) _ _ List.length_replicate]
  · unfold GoIpa.foldScalars
    rw [zipWith_eq_range_map _ a b 0 0 h]
  · intro l i hi hl
    simp only [get_nat, set_nat]
    refine ⟨by simp [hl], ?_⟩
    intro j _
    rw [getD_set]
    by_cases hji : j = i
    · subst hji; simp [hl, hi]
    · have : ¬ (i = j ∧ i < l.length) := fun hh => hji hh.1.symm
      rw [if_neg this, if_neg hji]

theorem splitScalars_eq (x : List K) (h : x.length % 2 = 0) :
    Gen.Loops.splitScalars x = some (x.take (x.length / 2), x.drop (x.length / 2)) := by
  unfold Gen.Loops.splitScalars
  have hne : ¬ ((((x.length : Nat) : Int) % 2) ≠ 0) := by omega
  simp only [hne, ↓reduceIte]
  have e2 : ((x.length : Int) / 2) = ((x.length / 2 : Nat) : Int) := by omega
  simp only [e2, Loop.take, Loop.drop, Int.toNat_natCast]

section points
variable {G : Type} [Zero G] [Add G] [SMul K G]

/-- `foldPoints` -/
theorem foldPoints_eq (a b : List G) (x : K) (h : a.length = b.length) :
    Gen.Loops.foldPoints a b x = some (GoIpa.foldPoints a b x) := by
  unfold Gen.Loops.foldPoints
  have hne : ¬ (((a.length : Nat) : Int) ≠ ((b.length : Nat) : Int)) := by simp [h]
  simp only [hne, ↓reduceIte]
  rw [forUp_zero]
  congr 1
  have hrep : (((a.length : Nat) : Int)).toNat = a.length := by simp
  rw [hrep]
  rw [foldl_pointwise a.length (0 : G) (fun i _ => x • b.getD i 0 + a.getD i 0) _ _ List.length_replicate]
  · unfold GoIpa.foldPoints
    rw [zipWith_eq_range_map _ a b 0 0 h]
  · intro l i hi hl
    simp only [get_nat, set_nat]
    refine ⟨by simp [hl], ?_⟩
    intro j _
    rw [getD_set]
    by_cases hji : j = i
    · subst hji; simp [hl, hi]
    · have : ¬ (i = j ∧ i < l.length) := fun hh => hji hh.1.symm
      rw [if_neg this, if_neg hji]

theorem splitPoints_eq (x : List G) (h : x.length % 2 = 0) :
    Gen.Loops.splitPoints x = some (x.take (x.length / 2), x.drop (x.length / 2)) := by
  unfold Gen.Loops.splitPoints
  have hne : ¬ ((((x.length : Nat) : Int) % 2) ≠ 0) := by omega
  simp only [hne, ↓reduceIte]
  have e2 : ((x.length : Int) / 2) = ((x.length / 2 : Nat) : Int) := by omega
  simp only [e2, Loop.take, Loop.drop, Int.toNat_natCast]
end points

/-! ### `computeBarycentricWeightForElement`, `ComputeBarycentricCoefficients` -/

theorem foldl_skip {α β : Type} (l : List α) (p : α → Prop) [DecidablePred p] (f : β → α → β) (init : β) :
    l.foldl (fun acc x => if p x then acc else f acc x) init = (l.filter (fun x => ¬ p x)).foldl f init := by
  induction l generalizing init with
  | nil => rfl
  | cons x l ih =>
    by_cases hp : p x
    · simp [List.filter, hp, ih]
    · simp [List.filter, hp, ih]

/-- `A'(x_i)`: the product loop with `continue` at `i = element` is the model's filtered product -/
theorem baryWeight_eq (element : Nat) (h : element ≤ 256) :
    Gen.Loops.computeBarycentricWeightForElement (K := K) (element : Int) = baryWeight 256 element := by
  unfold Gen.Loops.computeBarycentricWeightForElement
  have hgt : ¬ ((element : Int) > 256) := by omega
  simp only [hgt, ↓reduceIte]
  have h256 : ((256 : Int)) = ((256 : Nat) : Int) := rfl
  rw [h256, forUp_zero]
  unfold baryWeight prodF
  rw [List.foldl_map]
  have : (List.range 256).foldl (fun (st : K) (k : Nat) =>
        if ((k : Int) = (element : Int)) then st
        else st * ((((element : Int).toNat : Nat) : K) - ((((k : Int).toNat : Nat)) : K))) 1
      = ((List.range 256).filter (fun k => ¬ (k = element))).foldl
          (fun (acc : K) (j : Nat) => acc * (((element : Nat) : K) - ((j : Nat) : K))) 1 := by
    rw [← foldl_skip (List.range 256) (fun k => k = element)]
    apply List.foldl_ext
    intro acc k _
    by_cases hk : k = element
    · simp [hk]
    · have : ¬ ((k : Int) = (element : Int)) := by omega
      simp [hk, this]
  convert this using 2

/-- `ComputeBarycentricCoefficients` (three loops and `BatchInvert`) over the model's batch inversion -/
theorem baryCoeffs_eq (w : Weights K) (z : K)
    (hbi : ∀ l : List K, Gen.Loops.batchInvert l = GoIpa.batchInvert l)
    (hlen : ∀ l : List K, (GoIpa.batchInvert l).length = l.length) :
    Gen.Loops.computeBarycentricCoefficients w.bary w.invDom z = w.baryCoeffs 256 z := by
  unfold Gen.Loops.computeBarycentricCoefficients
  simp only
  have h256 : ((256 : Int)) = ((256 : Nat) : Int) := rfl
  rw [h256]
  simp only [forUp_zero, Int.toNat_natCast]
  -- first loop: lagrangeEvals[i] = (z − i)·A'(i)
  rw [foldl_pointwise 256 (0 : K) (fun i _ => (z - ((i : Nat) : K)) * w.bary.getD i 0) _ _ List.length_replicate
    (by
      intro l i hi hl
      simp only [get_nat, set_nat, Int.toNat_natCast]
      refine ⟨by simp [hl], ?_⟩
      intro j _
      rw [List.set_set, getD_set_self _ _ _ _ (by omega), getD_set]
      by_cases hji : j = i
      · subst hji; simp [hl, hi]
      · have : ¬ (i = j ∧ i < l.length) := fun hh => hji hh.1.symm
        rw [if_neg this, if_neg hji])]
  rw [hbi]
  unfold Weights.baryCoeffs prodF
  simp only
  -- second loop: the product of (z − i)
  have hprod : (List.range 256).foldl (fun (st : K) (k : Nat) => st * (z - ((k : Nat) : K))) 1
      = ((List.range 256).map fun (i : Nat) => z - (i : K)).foldl (· * ·) 1 := by
    rw [List.foldl_map]
  rw [hprod]
  set total := ((List.range 256).map fun (i : Nat) => z - (i : K)).foldl (· * ·) 1
  set inv := GoIpa.batchInvert ((List.range 256).map fun (i : Nat) => (z - (i : K)) * w.bary.getD i 0) with hinv
  have hil : inv.length = 256 := by rw [hinv, hlen]; simp
  -- third loop: every entry multiplied by the product
  rw [foldl_pointwise 256 (0 : K) (fun _ v => v * total) _ inv hil
    (by
      intro l i hi hl
      simp only [get_nat, set_nat]
      refine ⟨by simp [hl], ?_⟩
      intro j _
      rw [getD_set]
      by_cases hji : j = i
      · subst hji; simp [hl, hi]
      · have : ¬ (i = j ∧ i < l.length) := fun hh => hji hh.1.symm
        rw [if_neg this, if_neg hji])]
  conv_rhs => rw [eq_range_map inv 0, hil]
  rw [List.map_map]
  rfl

/-! ### `NewPrecomputedWeights` -/

set_option maxRecDepth 100000 in
/-- **The two tables `NewPrecomputedWeights` builds are the model's tables.** -/
theorem newPrecomputedWeights_eq :
    Gen.Loops.newPrecomputedWeights (K := K) = (baryWeightsTable 256, invertedDomainTable 256) := by
  unfold Gen.Loops.newPrecomputedWeights
  simp only
  have h256 : ((256 : Int)) = ((256 : Nat) : Int) := rfl
  have h1 : ((1 : Int)) = ((1 : Nat) : Int) := rfl
  rw [Prod.mk.injEq]
  constructor
  · -- A'(x_i) and 1/A'(x_i)
    rw [h256, forUp_zero]
    have hrep : (((256 : Nat) : Int) * 2).toNat = 2 * 256 := rfl
    rw [hrep]
    rw [foldl_two_blocks 256 (0 : K) (fun i => baryWeight 256 i) (fun i => (baryWeight 256 i : K)⁻¹)]
    · rfl
    · intro l k hk _
      rw [baryWeight_eq k (by omega), ← Nat.cast_add, set_nat, set_nat]
  · -- 1/k and −1/k
    have h255 : ((256 : Int) - 1) = ((255 : Nat) : Int) := rfl
    rw [h255, h256, h1, forUp_nat 1 256]
    have hrep : (((255 : Nat) : Int) * 2).toNat = 2 * 255 := rfl
    rw [hrep]
    show List.foldl _ _ (List.range 255) = _
    rw [foldl_two_blocks 255 (0 : K) (fun i => (((i + 1 : Nat) : K))⁻¹) (fun i => (0 : K) - (((i + 1 : Nat) : K))⁻¹)]
    · rfl
    · intro l k hk _
      have e1 : (((1 + k : Nat) : Int) - ((1 : Nat) : Int)) = ((k : Nat) : Int) := by omega
      have e2 : (((1 + k : Nat) : Int)).toNat = k + 1 := by omega
      rw [e1, e2, ← Nat.cast_add, set_nat, set_nat]

/-! ### `common.PowersOf` -/

/-- `x^j` without a monoid: `j` multiplications by `x` -/
def iterMul (x : K) (c : K) : Nat → K
  | 0 => c
  | j + 1 => iterMul x (c * x) j

theorem powersFrom_getD (x c : K) (n j : Nat) (hj : j < n) : (powersFrom x c n).getD j 0 = iterMul x c j := by
  induction n generalizing c j with
  | zero => omega
  | succ n ih =>
    cases j with
    | zero => simp [powersFrom, iterMul]
    | succ j =>
      simp only [powersFrom, List.getD_cons_succ, iterMul]
      exact ih (c * x) j (by omega)

theorem powersFrom_length (x c : K) (n : Nat) : (powersFrom x c n).length = n := by
  induction n generalizing c with
  | zero => rfl
  | succ n ih => simp [powersFrom, ih]

theorem iterMul_succ (x c : K) (j : Nat) : iterMul x c (j + 1) = iterMul x c j * x := by
  induction j generalizing c with
  | zero => rfl
  | succ j ih =>
    show iterMul x (c * x) (j + 1) = iterMul x (c * x) j * x
    exact ih (c * x)

/-- **`PowersOf`** (`result[i] = result[i-1]·x`) is the model's list of powers -/
theorem powersOf_eq (x : K) (n : Nat) (hn : 1 ≤ n) : Gen.Loops.powersOf x (n : Int) = GoIpa.powersOf x n := by
  unfold Gen.Loops.powersOf GoIpa.powersOf
  simp only
  have h1 : ((1 : Int)) = ((1 : Nat) : Int) := rfl
  have h0 : ((0 : Int)) = ((0 : Nat) : Int) := rfl
  rw [h1, forUp_nat 1 n, h0, set_nat, Int.toNat_natCast]
  have inv := foldl_range_inv
    (fun k (l : List K) => l.length = n ∧ ∀ j, j < n → l.getD j 0 = if j ≤ k then iterMul x 1 j else 0)
    (fun (st : List K) (k : Nat) => Loop.set st (((1 + k : Nat)) : Int)
      (Loop.get st ((((1 + k : Nat)) : Int) - ((1 : Nat) : Int)) 0 * x))
    ((List.replicate n (0 : K)).set 0 1) (n - 1)
    (by
      refine ⟨by simp, ?_⟩
      intro j hj
      rw [getD_set]
      by_cases hj0 : j = 0
      · subst hj0
        rw [if_pos ⟨rfl, by rw [List.length_replicate]; omega⟩]
        simp [iterMul]
      · have : ¬ (0 = j ∧ 0 < (List.replicate n (0 : K)).length) := fun hh => hj0 hh.1.symm
        rw [if_neg this, getD_replicate _ _ _ _ hj]
        have : ¬ (j ≤ 0) := by omega
        rw [if_neg this])
    (by
      intro k l hk ⟨hlen, hpt⟩
      have e1 : (((1 + k : Nat) : Int) - ((1 : Nat) : Int)) = ((k : Nat) : Int) := by omega
      rw [e1, get_nat, set_nat]
      refine ⟨by simp [hlen], ?_⟩
      intro j hj
      rw [getD_set]
      by_cases hjk : 1 + k = j
      · subst hjk
        rw [if_pos ⟨rfl, by omega⟩, hpt k (by omega), if_pos (Nat.le_refl k), if_pos (by omega)]
        have : 1 + k = k + 1 := by omega
        rw [this, iterMul_succ]
      · have : ¬ (1 + k = j ∧ 1 + k < l.length) := fun hh => hjk hh.1
        rw [if_neg this, hpt j hj]
        have hiff : (j ≤ k + 1) ↔ (j ≤ k) := by omega
        simp only [hiff])
  obtain ⟨hlen, hpt⟩ := inv
  apply ext_getD _ _ (0 : K) (by rw [hlen, powersFrom_length])
  intro j hj
  rw [hlen] at hj
  rw [hpt j hj, if_pos (by omega), powersFrom_getD x 1 n j hj]

/-! ### `fr.BatchInvert` — proved correct directly on the translated code -/

section field
variable {F : Type} [Field F] [DecidableEq F]

theorem forDown_nat {σ : Type} (n : Nat) (hn : 1 ≤ n) (st : σ) (body : Int → σ → σ) :
    Loop.forDown ((n : Int) - 1) 0 st body
      = (List.range n).foldl (fun st (k : Nat) => body (((n - 1 - k : Nat)) : Int) st) st := by
  unfold Loop.forDown
  have : ((n : Int) - 1 - 0 + 1).toNat = n := by omega
  rw [this]
  apply List.foldl_ext
  intro st k hk
  have hk' : k < n := List.mem_range.mp hk
  congr 1
  omega

/-- product of the non-zero entries among the first `j` -/
def pref (a : List F) (j : Nat) : F := biTotal 1 (a.take j)

theorem biTotal_append (c : F) (l : List F) (x : F) :
    biTotal c (l ++ [x]) = if x = 0 then biTotal c l else biTotal c l * x := by
  induction l generalizing c with
  | nil => simp [biTotal]
  | cons y l ih =>
    by_cases hy : y = 0
    · simp only [List.cons_append, biTotal, hy, ↓reduceIte]; exact ih c
    · simp only [List.cons_append, biTotal, hy, ↓reduceIte]; exact ih (c * y)

theorem pref_zero (a : List F) : pref a 0 = 1 := by simp [pref, biTotal]

theorem pref_succ (a : List F) (j : Nat) (hj : j < a.length) :
    pref a (j + 1) = if a.getD j 0 = 0 then pref a j else pref a j * a.getD j 0 := by
  unfold pref
  rw [List.take_succ_eq_append_getElem hj, biTotal_append]
  simp [List.getD_eq_getElem?_getD, hj]

theorem pref_ne_zero (a : List F) (j : Nat) : pref a j ≠ 0 := biTotal_ne_zero 1 one_ne_zero _

attribute [-simp] List.getD_eq_getElem?_getD in
/-- **`fr.BatchInvert`, as written in Go (two passes over index loops with `continue`, a `[]bool`
of zero flags, in-place products), returns the entry-wise inverse with zeros left at zero**, for
every input list — hence it is the model's `batchInvert`. -/
theorem batchInvert_spec (a : List F) : Gen.Loops.batchInvert a = a.map (·⁻¹) := by
  unfold Gen.Loops.batchInvert
  simp only
  by_cases hn0 : a.length = 0
  · have : (((a.length : Nat) : Int) = 0) := by omega
    simp only [this, ↓reduceIte]
    have : a = [] := List.eq_nil_of_length_eq_zero hn0
    subst this; rfl
  have hne : ¬ (((a.length : Nat) : Int) = 0) := by omega
  simp only [hne, ↓reduceIte]
  set n := a.length with hn
  have hn1 : 1 ≤ n := by omega
  rw [forUp_zero, forDown_nat n hn1, Int.toNat_natCast]
  -- forward pass
  have fwd := foldl_range_inv
    (fun k (st : List Bool × List F × F) => st.1.length = n ∧ st.2.1.length = n ∧ st.2.2 = pref a k ∧
      ∀ j, j < n → st.1.getD j false = decide (j < k ∧ a.getD j 0 = 0) ∧
        st.2.1.getD j 0 = if j < k ∧ a.getD j 0 ≠ 0 then pref a j else 0)
    (fun (st : List Bool × List F × F) (k : Nat) =>
      match st with
      | (zeroes, res, accumulator) =>
        if Loop.get a (k : Int) 0 = 0 then (Loop.set zeroes (k : Int) true, res, accumulator)
        else (zeroes, Loop.set res (k : Int) accumulator, accumulator * Loop.get a (k : Int) 0))
    (List.replicate n false, List.replicate n (0 : F), (1 : F)) n
    ⟨List.length_replicate, List.length_replicate, (pref_zero a).symm, fun j hj => by
      rw [getD_replicate _ _ _ _ hj, getD_replicate _ _ _ _ hj]; simp⟩
    (by
      rintro k ⟨zs, res, acc⟩ hk ⟨h1, h2, h3, h4⟩
      simp only at h1 h2 h3 h4
      simp only [get_nat, set_nat]
      by_cases hz : a.getD k 0 = 0
      · simp only [hz, ↓reduceIte]
        refine ⟨by simp [h1], h2, by rw [h3, pref_succ a k hk, if_pos hz], ?_⟩
        intro j hj
        obtain ⟨g1, g2⟩ := h4 j hj
        constructor
        · rw [getD_set]
          by_cases hkj : k = j
          · subst hkj; simp [h1, hk, hz]
          · have : ¬ (k = j ∧ k < zs.length) := fun hh => hkj hh.1
            rw [if_neg this, g1]
            by_cases hjk : j < k
            · simp [hjk, Nat.lt_succ_of_lt hjk]
            · have : ¬ j < k + 1 := by omega
              simp [hjk, this]
        · rw [g2]
          by_cases hkj : k = j
          · subst hkj; simp [hz]
          · have hiff : (j < k + 1) ↔ (j < k) := by omega
            simp only [hiff]
      · simp only [hz, ↓reduceIte]
        refine ⟨h1, by simp [h2], by rw [h3, pref_succ a k hk, if_neg hz], ?_⟩
        intro j hj
        obtain ⟨g1, g2⟩ := h4 j hj
        constructor
        · rw [g1]
          by_cases hkj : k = j
          · subst hkj; simp [hz]
          · have hiff : (j < k + 1) ↔ (j < k) := by omega
            simp only [hiff]
        · rw [getD_set]
          by_cases hkj : k = j
          · subst hkj; simp [h2, hk, hz, h3]
          · have : ¬ (k = j ∧ k < res.length) := fun hh => hkj hh.1
            rw [if_neg this, g2]
            have hiff : (j < k + 1) ↔ (j < k) := by omega
            simp only [hiff])
  generalize hF : List.foldl _ (List.replicate n false, List.replicate n (0 : F), (1 : F)) (List.range n) = F1 at fwd ⊢
  obtain ⟨zs, res0, acc0⟩ := F1
  obtain ⟨f1, f2, f3, f4⟩ := fwd
  simp only at f1 f2 f3 f4 ⊢
  -- backward pass
  have bwd := foldl_range_inv
    (fun k (st : List F × F) => st.1.length = n ∧ st.2 = (pref a (n - k))⁻¹ ∧
      ∀ j, j < n → st.1.getD j 0 = if n - k ≤ j then (a.getD j 0)⁻¹ else (if a.getD j 0 ≠ 0 then pref a j else 0))
    (fun (st : List F × F) (k : Nat) =>
      match st with
      | (res, accumulator) =>
        if Loop.get zs (((n - 1 - k : Nat)) : Int) false = true then (res, accumulator)
        else (Loop.set res (((n - 1 - k : Nat)) : Int) (Loop.get res (((n - 1 - k : Nat)) : Int) 0 * accumulator),
          accumulator * Loop.get a (((n - 1 - k : Nat)) : Int) 0))
    (res0, acc0⁻¹) n
    ⟨f2, by rw [f3]; simp, fun j hj => by
      rw [(f4 j hj).2]
      have : ¬ (n - 0 ≤ j) := by omega
      simp [this, hj]⟩
    (by
      rintro k ⟨res, acc⟩ hk ⟨h1, h2, h3⟩
      simp only at h1 h2 h3
      simp only [get_nat, set_nat]
      have hi : n - 1 - k < n := by omega
      have hsucc : n - k = (n - 1 - k) + 1 := by omega
      have hpk : pref a (n - k) = if a.getD (n - 1 - k) 0 = 0 then pref a (n - 1 - k)
          else pref a (n - 1 - k) * a.getD (n - 1 - k) 0 := by
        rw [hsucc]; exact pref_succ a _ hi
      have hnk1 : n - (k + 1) = n - 1 - k := by omega
      rw [(f4 _ hi).1]
      by_cases hz : a.getD (n - 1 - k) 0 = 0
      · have : (decide (n - 1 - k < n ∧ a.getD (n - 1 - k) 0 = 0)) = true := by simp [hi, hz]
        simp only [this, ↓reduceIte]
        refine ⟨h1, by rw [h2, hpk, if_pos hz, hnk1], ?_⟩
        intro j hj
        rw [h3 j hj, hnk1]
        by_cases hji : j = n - 1 - k
        · have a1 : ¬ (n - k ≤ j) := by omega
          have a2 : n - 1 - k ≤ j := by omega
          rw [if_neg a1, if_pos a2, hji, hz]; simp
        · have hiff : (n - k ≤ j) ↔ (n - 1 - k ≤ j) := by omega
          simp only [hiff]
      · have : (decide (n - 1 - k < n ∧ a.getD (n - 1 - k) 0 = 0)) = false := by simp [hz]
        simp only [this, Bool.false_eq_true, ↓reduceIte]
        have hp := pref_ne_zero a (n - 1 - k)
        refine ⟨by simp [h1], ?_, ?_⟩
        · rw [h2, hpk, if_neg hz, hnk1]
          field_simp
        · intro j hj
          rw [getD_set, hnk1]
          by_cases hji : n - 1 - k = j
          · subst hji
            rw [if_pos ⟨rfl, by omega⟩, h3 _ hi]
            have a1 : ¬ (n - k ≤ n - 1 - k) := by omega
            rw [if_neg a1, if_pos hz, if_pos (Nat.le_refl _), h2, hpk, if_neg hz]
            field_simp
          · have : ¬ (n - 1 - k = j ∧ n - 1 - k < res.length) := fun hh => hji hh.1
            rw [if_neg this, h3 j hj]
            have hiff : (n - k ≤ j) ↔ (n - 1 - k ≤ j) := by omega
            simp only [hiff])
  generalize hB : List.foldl _ (res0, acc0⁻¹) (List.range n) = B1 at bwd ⊢
  obtain ⟨res1, acc1⟩ := B1
  obtain ⟨b1, _, b3⟩ := bwd
  simp only at b1 b3 ⊢
  apply ext_getD _ _ (0 : F) (by rw [b1, List.length_map])
  intro j hj
  rw [b1] at hj
  rw [b3 j hj, if_pos (by omega)]
  have hja : j < a.length := by omega
  simp [List.getD_eq_getElem?_getD, List.getElem?_eq_getElem hja]

/-- hence the translated `BatchInvert` is the model's -/
theorem batchInvert_eq (a : List F) : Gen.Loops.batchInvert a = GoIpa.batchInvert a := by
  rw [batchInvert_spec, batchInvert_eq_map]

/-- `ComputeBarycentricCoefficients`, unconditionally over a field -/
theorem baryCoeffs_eq_field (w : Weights F) (z : F) :
    Gen.Loops.computeBarycentricCoefficients w.bary w.invDom z = w.baryCoeffs 256 z :=
  baryCoeffs_eq w z batchInvert_eq batchInvert_length

end field

/-- nothing the translator emitted is left without a tie theorem (the protocol functions `commit`,
`generateChallenges`, `CreateIPAProof`, `CheckIPAProof`, `CheckMultiProof`, `domainToFr` are tied in `Tie/Protocol.lean`, `CreateMultiProof` in `Tie/ProtocolMp.lean`, `groupPolynomialsByEvaluationPoint` and its goroutine body in `Tie/Grouping.lean`, `computeBVector` in `Tie/BVector.lean`) -/
theorem all_translated_tied : Gen.Loops.translated =
    ["BatchInvert", "CheckIPAProof", "CheckMultiProof", "ComputeBarycentricCoefficients", "CreateIPAProof",
     "CreateMultiProof", "DivideOnDomain", "InnerProd", "NewPrecomputedWeights", "PowersOf", "absInt", "commit",
     "computeBVector", "computeBarycentricWeightForElement", "domainToFr", "foldPoints", "foldScalars", "generateChallenges",
     "getInvertedElement", "getRatioOfWeights", "groupPolynomialsByEvaluationPoint",
     "groupPolynomialsByEvaluationPointWorker", "splitPoints", "splitScalars"] := by decide

end GoIpa.Tie.Loops
