/-
  Tie T1 for `groupPolynomialsByEvaluationPoint` (multiproof.go): the fan-out / fan-in function,
  translated from the current source on every run (`go/cmd/extract/goroutines.go` →
  `Gen/Loops.lean`: the goroutine body as `groupPolynomialsByEvaluationPointWorker`, the function
  itself with the two extra parameters `numCPU` — what `runtime.NumCPU()` returns — and `arrival` —
  the k-th receive yields the table sent by goroutine `arrival k`), **is** the model's `groupPolys`
  for that worker count and arrival order:

      groupPolynomials_eq :
        groupPolynomialsByEvaluationPoint w (k ↦ order[k]) fs pows zs = tableOf (groupPolys 256 fs pows zs w order)

  for every `w ≥ 1` and every arrival list of length `w` (the property theorems additionally ask
  for a permutation of `[0, w)`, which is what an unbuffered channel with one send per goroutine
  delivers).  With it the hypothesis `hgroup` of `createMultiProof_eq` /
  `multiproof_complete_translated` is discharged (`Props/C01Translated.lean`).
-/
import GoIpa.Tie.ProtocolMp
import GoIpa.Lemmas.Grouping
namespace GoIpa.Tie.Grouping
open GoIpa GoIpa.Loop GoIpa.Grouping GoIpa.Tie.ProtocolMp

variable {K : Type} [Field K] [DecidableEq K]

/-! ### rows of a table -/

/-- a loop that only rewrites row `z` of a table is a loop on that row -/
theorem foldl_row {α : Type} (n : Nat) (body : List α → Nat → List α) (z : Nat) :
    ∀ (T : List (List α)), z < T.length →
    (List.range n).foldl (fun (T : List (List α)) j => T.set z (body (T.getD z []) j)) T
      = T.set z ((List.range n).foldl body (T.getD z [])) := by
  induction n with
  | zero =>
    intro T hz
    simp only [List.range_zero, List.foldl_nil]
    apply ext_getD _ _ [] (by simp)
    intro j _
    rw [getD_set]
    by_cases h : z = j
    · subst h; simp [hz]
    · simp [h]
  | succ n ih =>
    intro T hz
    rw [List.range_succ, List.foldl_append, List.foldl_append, ih T hz]
    simp only [List.foldl_cons, List.foldl_nil]
    rw [getD_set_self _ _ _ _ hz, List.set_set]

theorem tableOf_set (g : Groups K) (z : Nat) (v : List K) : tableOf (g.set z (some v)) = (tableOf g).set z v := by
  unfold tableOf
  rw [List.map_set]; rfl

theorem tableOf_length (g : Groups K) : (tableOf g).length = g.length := by
  unfold tableOf; simp

theorem tableOf_empty : tableOf (Groups.empty 256 : Groups K) = List.replicate 256 ([] : List K) := by
  unfold tableOf Groups.empty
  rw [List.map_replicate]; rfl

/-- `v[j] += r·f[j]` over the whole vector -/
theorem scaledRow_loop (v f : List K) (r : K) (hv : v.length = 256) (hf : f.length = 256) :
    (List.range 256).foldl (fun (st : List K) (j : Nat) => st.set j (st.getD j 0 + r * f.getD j 0)) v
      = addVec v (scaleVec r f) := by
  rw [foldl_pointwise 256 (0 : K) (fun j x => x + r * f.getD j 0) _ v hv
    (by
      intro l i hi hl
      refine ⟨by simp [hl], ?_⟩
      intro j _
      rw [getD_set]
      by_cases hji : j = i
      · subst hji; simp [hl, hi]
      · have : ¬ (i = j ∧ i < l.length) := fun hh => hji hh.1.symm
        rw [if_neg this, if_neg hji])]
  unfold addVec scaleVec
  rw [zipWith_eq_range_map _ v (f.map (r * ·)) 0 0 (by rw [hv, List.length_map, hf]), hv]
  apply List.map_congr_left
  intro j hj
  have hj' : j < f.length := by rw [hf]; exact List.mem_range.mp hj
  simp [List.getD_eq_getElem?_getD, hj']

/-! ### one goroutine -/

/-- one iteration of the goroutine's loop, on natural-number indices -/
def goAccum (T : List (List K)) (z : Nat) (r : K) (f : List K) : List (List K) :=
  (List.range 256).foldl
    (fun (T : List (List K)) (j : Nat) => T.set z ((T.getD z []).set j ((T.getD z []).getD j 0 + r * f.getD j 0)))
    (if ((T.getD z []).length : Int) = 0 then T.set z (List.replicate 256 (0 : K)) else T)

theorem goAccum_eq (g : Groups K) (hg : WF 256 g) (z : Nat) (hz : z < 256) (r : K) (f : List K) (hf : f.length = 256) :
    goAccum (tableOf g) z r f = tableOf (Groups.accum 256 g z r f) := by
  obtain ⟨hl, hv⟩ := hg
  have hzl : z < (tableOf g).length := by rw [tableOf_length]; omega
  unfold goAccum Groups.accum
  rw [tableOf_set]
  cases hgz : g.getD z none with
  | none =>
    have h0 : (tableOf g).getD z [] = [] := by rw [tableOf_getD, hgz]; rfl
    rw [h0]
    simp only [List.length_nil, Int.natCast_zero, ↓reduceIte, Option.getD_none]
    rw [foldl_row 256 (fun row j => row.set j (row.getD j 0 + r * f.getD j 0)) z _ (by rw [List.length_set]; exact hzl)]
    rw [getD_set_self _ _ _ _ hzl, List.set_set, scaledRow_loop _ _ _ List.length_replicate hf]
  | some v =>
    have hvl := hv z v hgz
    have h0 : (tableOf g).getD z [] = v := by rw [tableOf_getD, hgz]; rfl
    rw [h0]
    have : ¬ ((v.length : Int) = 0) := by omega
    rw [if_neg this]
    simp only [Option.getD_some]
    rw [foldl_row 256 (fun row j => row.set j (row.getD j 0 + r * f.getD j 0)) z _ hzl, h0, scaledRow_loop _ _ _ hvl hf]

theorem getD_map_cast (zs : List Nat) (i : Nat) : (zs.map (fun (z : Nat) => (z : Int))).getD i 0 = ((zs.getD i 0 : Nat) : Int) := by
  simp only [List.getD_eq_getElem?_getD, List.getElem?_map]
  cases zs[i]? <;> simp

/-- the goroutine body, translated from the source, computes the model's per-worker table -/
theorem worker_eq (fs : List (List K)) (pows : List K) (zs : List Nat) (start stop : Nat)
    (hgood : Good 256 fs zs (List.range fs.length)) :
    Gen.Loops.groupPolynomialsByEvaluationPointWorker fs pows (zs.map (fun (z : Nat) => (z : Int))) (start : Int) (stop : Int)
      = tableOf (workerGroups 256 fs pows zs start stop) ∧ WF 256 (workerGroups 256 fs pows zs start stop) := by
  unfold Gen.Loops.groupPolynomialsByEvaluationPointWorker workerGroups
  have hend : (if ((stop : Int) > ((fs.length : Nat) : Int)) then ((fs.length : Nat) : Int) else (stop : Int))
      = ((min stop fs.length : Nat) : Int) := by
    split <;> omega
  simp only [hend]
  rw [forUp_nat, List.foldl_map]
  have h256 : ((256 : Int)).toNat = 256 := rfl
  rw [h256, ← tableOf_empty]
  set n := min stop fs.length - start with hn
  have inv := foldl_range_inv
    (fun k (T : List (List K)) =>
      T = tableOf ((List.range k).foldl (fun g (i : Nat) => Groups.accum 256 g (zs.getD (i + start) 0) (pows.getD (i + start) 0) (fs.getD (i + start) [])) (Groups.empty 256))
      ∧ WF 256 ((List.range k).foldl (fun g (i : Nat) => Groups.accum 256 g (zs.getD (i + start) 0) (pows.getD (i + start) 0) (fs.getD (i + start) [])) (Groups.empty 256)))
    (fun (st : List (List K)) (k : Nat) =>
      (fun (i : Int) (st : List (List K)) =>
        let groupedFs := st
        let z : Int := (Loop.get (zs.map (fun (z : Nat) => (z : Int))) i 0)
        let groupedFs :=
          if (((((Loop.get groupedFs z [])).length : Nat) : Int) = (0 : Int)) then
            let groupedFs : List (List K) := Loop.set groupedFs z (List.replicate ((256 : Int)).toNat (0 : K))
            groupedFs
          else groupedFs
        let groupedFs : List (List K) := Loop.forUp (0 : Int) (256 : Int) groupedFs (fun (j : Int) (st : List (List K)) =>
            let groupedFs := st
            let scaledEvaluation : K := 0
            let scaledEvaluation : K := (Loop.get pows i 0) * (Loop.get (Loop.get fs i []) j 0)
            let groupedFs : List (List K) := Loop.set groupedFs z (Loop.set (Loop.get groupedFs z []) j ((Loop.get (Loop.get groupedFs z []) j 0) + scaledEvaluation))
            groupedFs
          )
        groupedFs) (((start + k : Nat)) : Int) st)
    (tableOf (Groups.empty 256)) n
    ⟨rfl, wf_empty 256⟩
    (by
      intro k st hk ⟨hst, hwf⟩
      have hi : k + start < fs.length := by omega
      obtain ⟨hz, hf⟩ := hgood (k + start) (List.mem_range.mpr hi)
      rw [List.range_succ, List.foldl_append]
      simp only [List.foldl_cons, List.foldl_nil]
      refine ⟨?_, (accum_spec 256 _ hwf _ hz _ _ hf).1⟩
      rw [← goAccum_eq _ hwf _ hz _ _ hf, ← hst]
      simp only [get_nat, getD_map_cast, set_nat, h256]
      rw [show (256 : Int) = ((256 : Nat) : Int) from rfl, forUp_zero]
      simp only [get_nat, set_nat, Nat.add_comm start k]
      rfl)
  exact inv

/-! ### the fan-in -/

/-- the fan-in of one worker's table, on natural-number indices -/
def goMerge (T wk : List (List K)) : List (List K) :=
  (List.range wk.length).foldl (fun (T : List (List K)) (z : Nat) =>
    if (((wk.getD z []).length : Nat) : Int) = 0 then T
    else if T.getD z [] = [] then T.set z (wk.getD z [])
    else (List.range 256).foldl
      (fun (T : List (List K)) (j : Nat) => T.set z ((T.getD z []).set j ((T.getD z []).getD j 0 + (wk.getD z []).getD j 0))) T) T

theorem zipWith_getD {α β γ : Type} (f : α → β → γ) (a : List α) (b : List β) (da : α) (db : β) (dc : γ) (z : Nat)
    (ha : z < a.length) (hb : z < b.length) : (List.zipWith f a b).getD z dc = f (a.getD z da) (b.getD z db) := by
  simp [List.getD_eq_getElem?_getD, List.getElem?_zipWith, List.getElem?_eq_getElem ha, List.getElem?_eq_getElem hb]

theorem goMerge_eq (a b : Groups K) (ha : WF 256 a) (hb : WF 256 b) :
    goMerge (tableOf a) (tableOf b) = tableOf (mergeGroups a b) := by
  have hm := (merge_spec 256 a b ha hb).1
  unfold goMerge
  rw [tableOf_length, hb.1]
  rw [foldl_pointwise 256 ([] : List K)
    (fun z row => if ((((tableOf b).getD z []).length : Nat) : Int) = 0 then row
      else if row = [] then (tableOf b).getD z []
      else (List.range 256).foldl (fun (st : List K) (j : Nat) => st.set j (st.getD j 0 + ((tableOf b).getD z []).getD j 0)) row)
    _ (tableOf a) (by rw [tableOf_length, ha.1])
    (by
      intro l i hi hl
      by_cases h1 : ((((tableOf b).getD i []).length : Nat) : Int) = 0
      · simp only [h1, ↓reduceIte]
        refine ⟨hl, ?_⟩
        intro j _
        by_cases hji : j = i
        · subst hji; simp
        · simp [hji]
      · simp only [h1, ↓reduceIte]
        by_cases h2 : l.getD i [] = []
        · simp only [h2, ↓reduceIte]
          refine ⟨by simp [hl], ?_⟩
          intro j _
          rw [getD_set]
          by_cases hji : j = i
          · subst hji; simp [hl, hi]
          · have : ¬ (i = j ∧ i < l.length) := fun hh => hji hh.1.symm
            rw [if_neg this, if_neg hji]
        · simp only [h2, ↓reduceIte]
          rw [foldl_row 256 (fun row j => row.set j (row.getD j 0 + ((tableOf b).getD i []).getD j 0)) i l (by omega)]
          refine ⟨by simp [hl], ?_⟩
          intro j _
          rw [getD_set]
          by_cases hji : j = i
          · subst hji; simp [hl, hi]
          · have : ¬ (i = j ∧ i < l.length) := fun hh => hji hh.1.symm
            rw [if_neg this, if_neg hji])]
  apply ext_getD _ _ ([] : List K) (by rw [List.length_map, List.length_range, tableOf_length, hm.1])
  intro z hz
  rw [List.length_map, List.length_range] at hz
  rw [getD_map_range _ _ _ _ hz, tableOf_getD, tableOf_getD, tableOf_getD]
  unfold mergeGroups
  rw [zipWith_getD _ a b none none none z (by rw [ha.1]; exact hz) (by rw [hb.1]; exact hz)]
  cases hbz : b.getD z none with
  | none => simp
  | some v =>
    have hvl := hb.2 z v hbz
    have hv0 : ¬ (((v.length : Nat) : Int) = 0) := by omega
    cases haz : a.getD z none with
    | none => simp
    | some u =>
      have hul := ha.2 z u haz
      have hu0 : ¬ (u = []) := by intro h; rw [h] at hul; simp at hul
      simp only [Option.getD_some, hv0, ↓reduceIte, hu0]
      exact addVec_loop u v hul hvl

/-- **`groupPolynomialsByEvaluationPoint`, translated from the source, is the model's `groupPolys`**
for the worker count `runtime.NumCPU()` returned and the order in which the workers' tables arrived. -/
theorem groupPolynomials_eq (fs : List (List K)) (pows : List K) (zs : List Nat)
    (hgood : Good 256 fs zs (List.range fs.length)) (w : Nat) (hw : 1 ≤ w) (order : List Nat) (hlen : order.length = w) :
    Gen.Loops.groupPolynomialsByEvaluationPoint (w : Int) (fun k => ((order.getD k.toNat 0 : Nat) : Int)) fs pows
        (zs.map (fun (z : Nat) => (z : Int)))
      = tableOf (groupPolys 256 fs pows zs w order) := by
  unfold Gen.Loops.groupPolynomialsByEvaluationPoint groupPolys
  have hb : ((((fs.length : Nat) : Int) + (w : Int)) - (1 : Int)) / (w : Int) = (((fs.length + w - 1) / w : Nat) : Int) := by
    rw [Int.natCast_div]
    congr 1
    omega
  simp only [hb]
  set batch := (fs.length + w - 1) / w with hbatch
  have h256 : ((256 : Int)).toNat = 256 := rfl
  rw [h256, ← tableOf_empty, forUp_zero]
  let step : Groups K → Nat → Groups K := fun agg i => mergeGroups agg (workerGroups 256 fs pows zs (i * batch) ((i + 1) * batch))
  have hfull : order.take w = order := by rw [← hlen]; exact List.take_length
  refine Eq.trans (foldl_range_inv
    (fun k (T : List (List K)) => T = tableOf ((order.take k).foldl step (Groups.empty 256))
      ∧ WF 256 ((order.take k).foldl step (Groups.empty 256)))
    _ _ w ⟨by simp, by simpa using wf_empty 256⟩ ?_).1 (by rw [hfull])
  intro k st hk ⟨hst, hwf⟩
  have hk' : k < order.length := by omega
  have htake : order.take (k + 1) = order.take k ++ [order.getD k 0] := by
    rw [List.take_add_one, List.getD_eq_getElem?_getD, List.getElem?_eq_getElem hk']; simp
  rw [htake, List.foldl_append]
  simp only [List.foldl_cons, List.foldl_nil]
  set o := order.getD k 0 with ho
  have hwk := worker_eq fs pows zs (o * batch) ((o + 1) * batch) hgood
  refine ⟨?_, (merge_spec 256 _ _ hwf hwk.2).1⟩
  show _ = tableOf (mergeGroups _ _)
  rw [← goMerge_eq _ _ hwf hwk.2, ← hst, ← hwk.1]
  simp only [Int.toNat_natCast, ← ho]
  have e1 : ((o : Nat) : Int) * ((batch : Nat) : Int) = ((o * batch : Nat) : Int) := by push_cast; rfl
  have e2 : (((o : Nat) : Int) + 1) * ((batch : Nat) : Int) = (((o + 1) * batch : Nat) : Int) := by push_cast; rfl
  rw [e1, e2]
  unfold goMerge
  rw [forUp_zero]
  simp only [get_nat, set_nat]
  rw [show (256 : Int) = ((256 : Nat) : Int) from rfl]
  simp only [forUp_zero, get_nat, set_nat]

end GoIpa.Tie.Grouping
