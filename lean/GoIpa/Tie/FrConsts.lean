/-
  Tie T1 for C15/C16: the numeric constants of `bandersnatch/fr/element.go`, as they stand in
  the current source, are the ones arithmetic modulo r needs (kernel-checked).
-/
import GoIpa.Gen.FrConsts
import GoIpa.Model.FrLimbs
import GoIpa.Model.Field
import GoIpa.Model.FrInverse
import GoIpa.Model.FrSqrt
namespace GoIpa.Tie.FrConsts
open GoIpa GoIpa.Limbs

def limbsVal (l : List Nat) : Nat := l.foldr (fun x acc => x + W * acc) 0

def hexDigitVal (c : Char) : Nat :=
  if '0' ≤ c ∧ c ≤ '9' then c.toNat - 48 else if 'a' ≤ c ∧ c ≤ 'f' then c.toNat - 87 else 0
def natOfHex (s : String) : Nat := s.toList.foldl (fun acc c => 16 * acc + hexDigitVal c) 0
def natOfDec (s : String) : Nat := s.toList.foldl (fun acc c => 10 * acc + (c.toNat - 48)) 0

/-- modulus limbs, and every literal used by the conditional subtractions / add-backs is one of them -/
theorem modulus_limbs :
    Gen.qElement = [q0, q1, q2, q3] ∧ limbsVal Gen.qElement = R ∧ natOfDec Gen.modulusDec = R ∧
    (∀ x ∈ Gen.arithLiterals, x ∈ Gen.qElement) ∧ Gen.limbs = 4 ∧ Gen.bits = 253 := by decide +kernel

/-- `qInvNeg = −q⁻¹ mod 2^64` -/
theorem qInvNeg_ok : Gen.qInvNeg = qInvNeg ∧ (q0 * Gen.qInvNeg) % W = W - 1 := by decide +kernel

/-- `rSquare = 2^512 mod r`, `one = 2^256 mod r` (Montgomery constants) -/
theorem montgomery_constants :
    limbsVal Gen.rSquare = 2 ^ 512 % R ∧ limbsVal Gen.one = 2 ^ 256 % R := by decide +kernel

/-- `LexicographicallyLargest` subtracts `(r−1)/2 + 1` -/
theorem lex_half : limbsVal Gen.lexHalf = (R - 1) / 2 + 1 := by decide +kernel

/-- Legendre exponent `(r−1)/2`; Tonelli–Shanks: `r − 1 = 2^5·s`, exponent `(s−1)/2` -/
theorem exponents :
    natOfHex Gen.legendreExpHex = (R - 1) / 2 ∧ (R - 1) % 32 = 0 ∧ (R - 1) / 32 % 2 = 1 ∧
    natOfHex Gen.sqrtExpHex = ((R - 1) / 32 - 1) / 2 := by decide +kernel

/-- `Inverse` starts from `u = q`, `s = 2^512 mod r` and uses no other constant than the modulus
limbs, limb indices and the shift 63 -/
theorem inverse_constants :
    limbsVal Gen.inverseInitU = R ∧ limbsVal Gen.inverseInitS = FrInv.rSquare ∧ FrInv.rSquare = 2 ^ 512 % R ∧
    (∀ x ∈ Gen.inverseLiterals, x ∈ Gen.qElement ∨ x ∈ [0, 1, 2, 3, 63]) := by decide +kernel

/-- the hard-coded `g` of `Sqrt` is the Montgomery form of `7^s` (`s` the odd part of `r − 1`) -/
theorem sqrt_g : limbsVal Gen.sqrtG = FrSqrt.gConst.val * FrInv.W256 % R := by decide +kernel

end GoIpa.Tie.FrConsts
