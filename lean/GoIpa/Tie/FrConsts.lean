/-
  Tie T1 for C15/C16: the numeric constants of `bandersnatch/fr/element.go`, as they stand in
  the current source, are the ones arithmetic modulo r needs (kernel-checked).
-/
import GoIpa.Gen.FrConsts
import GoIpa.Model.FrLimbs
import GoIpa.Model.Field
import GoIpa.Model.FrInverse
import GoIpa.Model.FrSqrt
namespace GoIpa.Tie.FrConsts
open GoIpa GoIpa.Limbs

def limbsVal (l : List Nat) : Nat := l.foldr (fun x acc => x + W * acc) 0

def hexDigitVal (c : Char) : Nat :=
  if '0' ≤ c ∧ c ≤ '9' then c.toNat - 48 else if 'a' ≤ c ∧ c ≤ 'f' then c.toNat - 87 else 0
def natOfHex (s : String) : Nat := s.toList.foldl (fun acc c => 16 * acc + hexDigitVal c) 0
def natOfDec (s : String) : Nat := s.toList.foldl (fun acc c => 10 * acc + (c.toNat - 48)) 0

/-- modulus limbs, and every literal used by the conditional subtractions / add-backs is one of them -/
theorem modulus_limbs :
    Gen.qElement = [q0, q1, q2, q3] ∧ limbsVal Gen.qElement = R ∧ natOfDec Gen.modulusDec = R ∧
    (∀ x ∈ Gen.arithLiterals, x ∈ Gen.qElement) ∧ Gen.limbs = 4 ∧ Gen.bits = 253 := by decide +kernel

/-- `qInvNeg = −q⁻¹ mod 2^64` -/
theorem qInvNeg_ok : Gen.qInvNeg = qInvNeg ∧ (q0 * Gen.qInvNeg) % W = W - 1 := by decide +kernel

/-- `rSquare = 2^512 mod r`, `one = 2^256 mod r` (Montgomery constants) -/
theorem montgomery_constants :
    limbsVal Gen.rSquare = 2 ^ 512 % R ∧ limbsVal Gen.one = 2 ^ 256 % R := by decide +kernel

/-- `LexicographicallyLargest` subtracts `(r−1)/2 + 1` -/
theorem lex_half : limbsVal Gen.lexHalf = (R - 1) / 2 + 1 := by decide +kernel

/-- Legendre exponent `(r−1)/2`; Tonelli–Shanks: `r − 1 = 2^5·s`, exponent `(s−1)/2` -/
theorem exponents :
    natOfHex Gen.legendreExpHex = (R - 1) / 2 ∧ (R - 1) % 32 = 0 ∧ (R - 1) / 32 % 2 = 1 ∧
    natOfHex Gen.sqrtExpHex = ((R - 1) / 32 - 1) / 2 := by decide +kernel

/-- `Inverse` starts from `u = q`, `s = 2^512 mod r` and uses no other constant than the modulus
limbs, limb indices and the shift 63 -/
theorem inverse_constants :
    limbsVal Gen.inverseInitU = R ∧ limbsVal Gen.inverseInitS = FrInv.rSquare ∧ FrInv.rSquare = 2 ^ 512 % R ∧
    (∀ x ∈ Gen.inverseLiterals, x ∈ Gen.qElement ∨ x ∈ [0, 1, 2, 3, 63]) := by decide +kernel

/-- the hard-coded `g` of `Sqrt` is the Montgomery form of `7^s` (`s` the odd part of `r − 1`) -/
theorem sqrt_g : limbsVal Gen.sqrtG = FrSqrt.gConst.val * FrInv.W256 % R := by decide +kernel

/-- the statements of `Inverse`, `Sqrt`, `Div`, `mulByConstant`, `_butterflyGeneric` are pinned, so that any edit
of them is a broken obligation.  `Sqrt`, `Div` and the loop *skeleton* of `Inverse` are not translated (unbounded
`for` loops; the models `FrSqrt.sqrt`, `FrInv.loop` mirror exactly these statements); the limb arithmetic of
`Inverse` is translated piece by piece (`Tie.FrInverse`), `mulByConstant` and `_butterflyGeneric` completely
(`Tie.FrMulConst`) — for those the pin is an additional, purely textual guard. -/
theorem untranslated_bodies :
    Gen.bodyInverse = ["if x.IsZero() { z.SetZero() return z }", "var u = Element{ 8429901452645165025, 18415085837358793841, 922804724659942912, 2088379214866112338, }", "var s = Element{ 15831548891076708299, 4682191799977818424, 12294384630081346794, 785759240370973821, }", "r := Element{}", "v := *x", "var carry, borrow uint64", "var bigger bool", "for { for v[0]&1 == 0 { v[0] = v[0]>>1 | v[1]<<63 v[1] = v[1]>>1 | v[2]<<63 v[2] = v[2]>>1 | v[3]<<63 v[3] >>= 1 if s[0]&1 == 1 { s[0], carry = bits.Add64(s[0], 8429901452645165025, 0) s[1], carry = bits.Add64(s[1], 18415085837358793841, carry) s[2], carry = bits.Add64(s[2], 922804724659942912, carry) s[3], _ = bits.Add64(s[3], 2088379214866112338, carry) } s[0] = s[0]>>1 | s[1]<<63 s[1] = s[1]>>1 | s[2]<<63 s[2] = s[2]>>1 | s[3]<<63 s[3] >>= 1 } for u[0]&1 == 0 { u[0] = u[0]>>1 | u[1]<<63 u[1] = u[1]>>1 | u[2]<<63 u[2] = u[2]>>1 | u[3]<<63 u[3] >>= 1 if r[0]&1 == 1 { r[0], carry = bits.Add64(r[0], 8429901452645165025, 0) r[1], carry = bits.Add64(r[1], 18415085837358793841, carry) r[2], carry = bits.Add64(r[2], 922804724659942912, carry) r[3], _ = bits.Add64(r[3], 2088379214866112338, carry) } r[0] = r[0]>>1 | r[1]<<63 r[1] = r[1]>>1 | r[2]<<63 r[2] = r[2]>>1 | r[3]<<63 r[3] >>= 1 } bigger = !(v[3] < u[3] || (v[3] == u[3] && (v[2] < u[2] || (v[2] == u[2] && (v[1] < u[1] || (v[1] == u[1] && (v[0] < u[0]))))))) if bigger { v[0], borrow = bits.Sub64(v[0], u[0], 0) v[1], borrow = bits.Sub64(v[1], u[1], borrow) v[2], borrow = bits.Sub64(v[2], u[2], borrow) v[3], _ = bits.Sub64(v[3], u[3], borrow) s[0], borrow = bits.Sub64(s[0], r[0], 0) s[1], borrow = bits.Sub64(s[1], r[1], borrow) s[2], borrow = bits.Sub64(s[2], r[2], borrow) s[3], borrow = bits.Sub64(s[3], r[3], borrow) if borrow == 1 { s[0], carry = bits.Add64(s[0], 8429901452645165025, 0) s[1], carry = bits.Add64(s[1], 18415085837358793841, carry) s[2], carry = bits.Add64(s[2], 922804724659942912, carry) s[3], _ = bits.Add64(s[3], 2088379214866112338, carry) } } else { u[0], borrow = bits.Sub64(u[0], v[0], 0) u[1], borrow = bits.Sub64(u[1], v[1], borrow) u[2], borrow = bits.Sub64(u[2], v[2], borrow) u[3], _ = bits.Sub64(u[3], v[3], borrow) r[0], borrow = bits.Sub64(r[0], s[0], 0) r[1], borrow = bits.Sub64(r[1], s[1], borrow) r[2], borrow = bits.Sub64(r[2], s[2], borrow) r[3], borrow = bits.Sub64(r[3], s[3], borrow) if borrow == 1 { r[0], carry = bits.Add64(r[0], 8429901452645165025, 0) r[1], carry = bits.Add64(r[1], 18415085837358793841, carry) r[2], carry = bits.Add64(r[2], 922804724659942912, carry) r[3], _ = bits.Add64(r[3], 2088379214866112338, carry) } } if (u[0] == 1) && (u[3]|u[2]|u[1]) == 0 { z.Set(&r) return z } if (v[0] == 1) && (v[3]|v[2]|v[1]) == 0 { z.Set(&s) return z } }"] ∧
    Gen.bodySqrt = ["var y, b, t, w Element", "w.Exp(*x, _bSqrtExponentElement)", "y.Mul(x, &w)", "b.Mul(&w, &y)", "var g = Element{ 5415081136944170355, 16923187137941795325, 11911047149493888393, 436996551065533341, }", "r := uint64(5)", "t = b", "for i := uint64(0); i < r-1; i++ { t.Square(&t) }", "if t.IsZero() { return z.SetZero() }", "if !((t[3] == 1739710354780652911) && (t[2] == 11064306276430008312) && (t[1] == 253265890806062196) && (t[0] == 6347764673676886264)) { return nil }", "for { var m uint64 t = b for !((t[3] == 1739710354780652911) && (t[2] == 11064306276430008312) && (t[1] == 253265890806062196) && (t[0] == 6347764673676886264)) { t.Square(&t) m++ } if m == 0 { return z.Set(&y) } ge := int(r - m - 1) t = g for ge > 0 { t.Square(&t) ge-- } g.Square(&t) y.Mul(&y, &t) b.Mul(&b, &g) r = m }"] ∧
    Gen.bodyDiv = ["var yInv Element", "yInv.Inverse(y)", "z.Mul(x, &yInv)", "return z"] ∧
    Gen.bodymulByConstant = ["switch c { case 0: z.SetZero() return case 1: return case 2: z.Double(z) return case 3: _z := *z z.Double(z).Add(z, &_z) case 5: _z := *z z.Double(z).Double(z).Add(z, &_z) default: var y Element y.SetUint64(uint64(c)) z.Mul(z, &y) }"] ∧
    Gen.bodybutterflyGeneric = ["t := *a", "a.Add(a, b)", "b.Sub(&t, b)"] := by
  exact ⟨rfl, rfl, rfl, rfl, rfl⟩

end GoIpa.Tie.FrConsts
