/-
  Tie T1 for `banderwagon/element.go`: every function of the file is
  translated (`BatchNormalize` over a heap: `Tie/BatchNormalize.lean`; plus `computeY` / `GetPointFromX`) from the current source on every run (`go/cmd/extract/elements.go` →
  `Gen/Elements.lean`) over an environment `E : ElemEnv K S` of the external operations it calls;
  here each translated function is proved equal to the model function the property theorems of
  C06, C07, C08, C11, C19 are about:

    go_Bytes                    = Proj.encode                  (C07)
    go_Equal                    = Proj.equalE                  (C07)
    go_mapToBaseField           = Proj.mapToBase               (C11)
    go_MapToScalarField         = frOfLE ∘ encLE ∘ mapToBase   (C11)
    go_BatchMapToScalarField    = … of batchMapToBase          (C11, C19)
    go_ElementsToBytes          = batchEncode                  (C19)
    go_BatchToBytesUncompressed = batchEncodeUncompressed      (C19)
    go_BytesUncompressedTrusted = encBE x ++ encBE y           (C19)
    go_Normalize                = Proj.normalize (error iff Z = 0)   (C19)
    go_Set / go_Sub / go_ScalarMul / go_Add / …               (C08 wrapper logic)

  and, at the executable base field with the model's own `computeY`/`subgroupOk`
  (`realEnv`):

    go_setBytes / go_SetBytes / go_SetBytesUnsafe = decodeCompressed        (C06)
    go_SetBytesUncompressed                       = decodeUncompressed      (C06)
    go_subgroupCheck                              = subgroupOk              (C06)

  Assumptions (fields of the environment, external code): `FromProj` is `(X/Z, Y/Z)`,
  `fp.BatchInvert` is the zero-skipping Montgomery trick of the model (the repository's own
  `fr.BatchInvert` is translated and proved in `Tie/Loops.lean`), field encoders return 32 bytes.
-/
import GoIpa.Gen.Elements
import GoIpa.Model.Batch
import GoIpa.Model.Config
import GoIpa.Lemmas.LoopLemmas
import GoIpa.Lemmas.BatchInvert
import Mathlib.Algebra.Field.Basic
namespace GoIpa.Tie.Elements
open GoIpa GoIpa.Loop GoIpa.Gen.Elements

section generic
variable {K S : Type} [Field K] [DecidableEq K] [Zero S]
variable (E : ElemEnv K S)

theorem bytes_eq (hfp : ∀ p, E.fromProj p = p.toAff) (p : Proj K) :
    go_Bytes E p = Proj.encode E.lex E.encBE p := by
  unfold go_Bytes Proj.encode
  by_cases hz : p.Z = 1
  · simp only [hz, not_true_eq_false, ↓reduceIte]
    by_cases hl : E.lex p.Y = true <;> simp [hl]
  · simp only [hz, not_false_eq_true, ↓reduceIte, hfp]
    by_cases hl : E.lex p.toAff.y = true <;> simp [hl]

theorem equal_eq (p q : Proj K) : go_Equal E p q = Proj.equalE p q := by
  unfold go_Equal Proj.equalE
  by_cases h1 : p.X = 0 ∧ p.Y = 0
  · simp [h1]
  · by_cases h2 : q.X = 0 ∧ q.Y = 0
    · simp [h1, h2]
    · simp [h1, h2]

theorem mapToBaseField_eq (p : Proj K) : go_mapToBaseField E p = p.mapToBase := rfl

theorem mapToScalarField_eq (p : Proj K) (res : S) :
    go_MapToScalarField E p res = E.frOfLE (E.encLE p.mapToBase) := rfl

theorem set_eq (p p1 : Proj K) : go_Set E p p1 = p1 := rfl

theorem sub_eq (p p1 p2 : Proj K) : go_Sub E p p1 p2 = E.pAdd p1 (E.pNeg p2) := rfl

theorem add_eq (p p1 p2 : Proj K) : go_Add E p p1 p2 = E.pAdd p1 p2 := rfl
theorem double_eq (p p1 : Proj K) : go_Double E p p1 = E.pDouble p1 := rfl
theorem neg_eq (p p1 : Proj K) : go_Neg E p p1 = E.pNeg p1 := rfl
theorem addMixed_eq (p p1 : Proj K) (q : Aff K) : go_AddMixed E p p1 q = E.pMixedAdd p1 q := rfl
theorem setIdentity_eq (p : Proj K) : go_SetIdentity E p = (⟨0, 1, 1⟩ : Proj K) := rfl
theorem isOnCurve_eq (p : Proj K) : go_IsOnCurve E p = E.affOnCurve (E.fromProj p) := rfl

/-- the wrappers never read the old value of the receiver -/
theorem receiver_irrelevant (p p' p1 p2 : Proj K) (q : Aff K) (s : S) :
    go_Add E p p1 p2 = go_Add E p' p1 p2 ∧ go_Sub E p p1 p2 = go_Sub E p' p1 p2 ∧
    go_Double E p p1 = go_Double E p' p1 ∧ go_Neg E p p1 = go_Neg E p' p1 ∧
    go_AddMixed E p p1 q = go_AddMixed E p' p1 q ∧ go_Set E p p1 = go_Set E p' p1 ∧
    go_ScalarMul E p p1 s = go_ScalarMul E p' p1 s ∧ go_SetIdentity E p = go_SetIdentity E p' :=
  ⟨rfl, rfl, rfl, rfl, rfl, rfl, by unfold go_ScalarMul; split <;> rfl, rfl⟩

/-- `ScalarMul`: the identity class (both representatives, any `Z`) is mapped to the identity,
everything else goes to the library's scalar multiplication with the scalar's regular value -/
theorem scalarMul_eq (p p1 : Proj K) (s : S) :
    go_ScalarMul E p p1 s = if p1.X = 0 ∧ p1.Y ≠ 0 then (⟨0, 1, 1⟩ : Proj K) else E.pScalarMul p1 (E.valS s) := by
  unfold go_ScalarMul
  by_cases h : p1.X = 0 ∧ ¬ (p1.Y = 0)
  · rw [if_pos h, if_pos h]; rfl
  · rw [if_neg h, if_neg h]

theorem normalize_eq (hfp : ∀ p, E.fromProj p = p.toAff) (p : Proj K) :
    go_Normalize E p = if p.Z = 0 then none else some p.normalize := by
  unfold go_Normalize Proj.normalize
  by_cases h : p.Z = 0
  · simp [h]
  · simp [h, hfp, Proj.toAff]

/-! ### the batch serialisers -/

/-- a loop that writes `g k` into slot `k` -/
theorem foldl_fill {α : Type} (n : Nat) (d : α) (g : Nat → α) (l0 : List α) (h : l0.length = n) :
    (List.range n).foldl (fun (st : List α) (k : Nat) => st.set k (g k)) l0 = (List.range n).map g := by
  rw [foldl_pointwise n d (fun i _ => g i) _ l0 h
    (by
      intro l i hi hl
      refine ⟨by simp [hl], ?_⟩
      intro j _
      rw [getD_set]
      by_cases hji : j = i
      · subst hji; simp [hl, hi]
      · have : ¬ (i = j ∧ i < l.length) := fun hh => hji hh.1.symm
        rw [if_neg this, if_neg hji])]

theorem map_eq_range_map {α β : Type} (f : α → β) (l : List α) (d : α) :
    l.map f = (List.range l.length).map (fun k => f (l.getD k d)) := by
  apply List.ext_getElem (by simp)
  intro j h1 h2
  simp only [List.length_map] at h1
  simp [List.getD_eq_getElem?_getD, h1]

/-- the `zs[i] = elements[i].inner.Z` loop -/
theorem collect_loop (ps : List (Proj K)) (f : Proj K → K) :
    (List.range ps.length).foldl (fun (st : List K) (k : Nat) => st.set k (f (ps.getD k ⟨0, 0, 0⟩)))
      (List.replicate ps.length (0 : K)) = ps.map f := by
  rw [foldl_fill ps.length (0 : K) _ _ List.length_replicate, map_eq_range_map f ps ⟨0, 0, 0⟩]

theorem elementsToBytes_eq (hbi : ∀ l, E.batchInvert l = batchInvert l) (ps : List (Proj K)) :
    go_ElementsToBytes E ps = batchEncode E.lex E.encBE ps := by
  unfold go_ElementsToBytes batchEncode
  simp only [forUp_zero, get_nat, set_nat, Int.toNat_natCast]
  rw [collect_loop ps (·.Z), hbi]
  rw [foldl_fill ps.length ([] : Bytes) _ _ List.length_replicate]
  rw [zipWith_eq_range_map _ ps (batchInvert (ps.map (·.Z))) ⟨0, 0, 0⟩ 0 (by rw [batchInvert_length, List.length_map])]
  apply List.map_congr_left
  intro k _
  by_cases hl : E.lex ((ps.getD k ⟨0, 0, 0⟩).Y * (batchInvert (ps.map (·.Z))).getD k 0) = true
  · rw [if_neg (not_not_intro hl), if_pos hl]
  · rw [if_pos hl, if_neg hl]

/-- two 32-byte halves copied into a zeroed 64-byte array -/
theorem copy_halves (x y : Bytes) (hx : x.length = 32) (hy : y.length = 32) (z : Bytes) (hz : z.length = 64) :
    Loop.copyAt (Loop.copyAt z 0 x) 32 y = x ++ y := by
  unfold Loop.copyAt
  simp only [Int.toNat_zero, List.take_zero, List.nil_append, Nat.sub_zero, Nat.zero_add]
  have h32 : (32 : Int).toNat = 32 := rfl
  rw [h32]
  have t1 : x.take z.length = x := List.take_of_length_le (by omega)
  rw [t1]
  have l1 : (x ++ z.drop x.length).length = 64 := by simp [hx, hz]
  rw [l1]
  have t2 : (x ++ z.drop x.length).take 32 = x := by
    rw [List.take_append_of_le_length (by omega), List.take_of_length_le (by omega)]
  have t3 : y.take (64 - 32) = y := List.take_of_length_le (by omega)
  have t4 : (x ++ z.drop x.length).drop (32 + y.length) = [] := by
    apply List.drop_of_length_le; omega
  rw [t2, t3, t4, List.append_nil]

theorem batchToBytesUncompressed_eq (hbi : ∀ l, E.batchInvert l = batchInvert l) (henc : ∀ v, (E.encBE v).length = 32)
    (ps : List (Proj K)) :
    go_BatchToBytesUncompressed E ps = batchEncodeUncompressed E.encBE ps := by
  unfold go_BatchToBytesUncompressed batchEncodeUncompressed
  simp only [forUp_zero, get_nat, set_nat, Int.toNat_natCast]
  rw [collect_loop ps (·.Z), hbi]
  have h64 : (64 : Int).toNat = 64 := rfl
  rw [h64]
  -- each iteration rewrites slot `i`, starting from the zeroed 64-byte array
  rw [foldl_pointwise ps.length ([] : Bytes)
    (fun i old => Loop.copyAt (Loop.copyAt old 0 (E.encBE ((ps.getD i ⟨0, 0, 0⟩).X * (batchInvert (ps.map (·.Z))).getD i 0)))
      32 (E.encBE ((ps.getD i ⟨0, 0, 0⟩).Y * (batchInvert (ps.map (·.Z))).getD i 0)))
    _ _ List.length_replicate
    (by
      intro l i hi hl
      refine ⟨by simp [hl], ?_⟩
      intro j _
      by_cases hji : j = i
      · subst hji
        rw [if_pos rfl, getD_set_self _ _ _ _ (by simp [hl, hi]), getD_set_self _ _ _ _ (by omega)]
      · rw [if_neg hji, getD_set_ne _ _ _ _ _ (Ne.symm hji), getD_set_ne _ _ _ _ _ (Ne.symm hji)])]
  rw [zipWith_eq_range_map _ ps (batchInvert (ps.map (·.Z))) ⟨0, 0, 0⟩ 0 (by rw [batchInvert_length, List.length_map])]
  apply List.map_congr_left
  intro k hk
  rw [getD_replicate _ _ _ _ (List.mem_range.mp hk)]
  exact copy_halves _ _ (henc _) (henc _) _ List.length_replicate

theorem bytesUncompressedTrusted_eq (hfp : ∀ p, E.fromProj p = p.toAff) (henc : ∀ v, (E.encBE v).length = 32) (p : Proj K) :
    go_BytesUncompressedTrusted E p = E.encBE p.toAff.x ++ E.encBE p.toAff.y := by
  unfold go_BytesUncompressedTrusted
  simp only [hfp]
  exact copy_halves _ _ (henc _) (henc _) _ List.length_replicate

theorem batchMapToScalarField_eq (hbi : ∀ l, E.batchInvert l = batchInvert l) (result : List S) (ps : List (Proj K)) :
    go_BatchMapToScalarField E result ps =
      if result.length = ps.length then some ((batchMapToBase ps).map (fun v => E.frOfLE (E.encLE v))) else none := by
  unfold go_BatchMapToScalarField batchMapToBase
  by_cases hlen : result.length = ps.length
  · have h1 : ¬ (((result.length : Nat) : Int) ≠ ((ps.length : Nat) : Int)) := by omega
    rw [if_neg h1, if_pos hlen]
    simp only [forUp_zero, get_nat, set_nat, Int.toNat_natCast]
    rw [collect_loop ps (·.Y), hbi]
    rw [foldl_fill ps.length (0 : S) _ _ hlen]
    rw [zipWith_eq_range_map _ ps (batchInvert (ps.map (·.Y))) ⟨0, 0, 0⟩ 0 (by rw [batchInvert_length, List.length_map])]
    rw [List.map_map]
    rfl
  · have h1 : (((result.length : Nat) : Int) ≠ ((ps.length : Nat) : Int)) := by omega
    rw [if_pos h1, if_neg hlen]

/-- the batch map writes every slot: the result does not depend on what the caller's result
slots held before -/
theorem batchMap_result_irrelevant (result result' : List S) (ps : List (Proj K))
    (h : result.length = result'.length) (hbi : ∀ l, E.batchInvert l = batchInvert l) :
    go_BatchMapToScalarField E result ps = go_BatchMapToScalarField E result' ps := by
  rw [batchMapToScalarField_eq E hbi, batchMapToScalarField_eq E hbi, h]

end generic

/-! ### the decoders at the executable base field -/

section concrete

/-- the environment of the executable model: the model's own field encoders, `computeY`
(`GetPointFromX`), Legendre symbol, point formulas and scalar-field reduction -/
def realEnv (sqrt : Fp → Option Fp) : ElemEnv Fp Fr where
  a := bandersnatch.a
  d := bandersnatch.d
  lex := Fp.lexLargest
  legendre := Fp.legendre
  encBE := Zp.bytesBE
  encLE := Zp.bytesLE
  decCanon := fun b => if h : beNat b < P then some ⟨beNat b, h⟩ else none
  decReduce := fun b => Zp.ofNat P (beNat b)
  fromProj := Proj.toAff
  sqrt := sqrt
  batchInvert := batchInvert
  pAdd := Pt.add
  pDouble := Pt.double
  pNeg := Pt.neg
  pMixedAdd := fun p q => Pt.add p (Proj.ofAff q)
  pScalarMul := fun p n => Pt.nsmul n p
  affOnCurve := fun q => decide (q.onCurve bandersnatch)
  frOfLE := fun b => Zp.ofNat R (leNat b)
  valS := Zp.val

theorem zp_mul_comm {n : Nat} [NeZero n] (a b : Zp n) : a * b = b * a := by
  show Zp.ofNat n (a.val * b.val) = Zp.ofNat n (b.val * a.val)
  rw [Nat.mul_comm]

theorem zp_div_eq {n : Nat} [NeZero n] (a b : Zp n) : a / b = a * b⁻¹ := rfl

theorem legendre_range (v : Fp) : Fp.legendre v = 0 ∨ Fp.legendre v = 1 ∨ Fp.legendre v = -1 := by
  unfold Fp.legendre
  extract_lets l
  by_cases h0 : l.val = 0
  · left; rw [if_pos h0]
  · by_cases h1 : l.val = 1
    · right; left; rw [if_neg h0, if_pos h1]
    · right; right; rw [if_neg h0, if_neg h1]

-- the Euler-criterion power must not be unfolded by the unifier (a 255-step square-and-multiply)
attribute [local irreducible] Fp.legendre

theorem legendre_le_zero_iff (v : Fp) : Fp.legendre v ≤ 0 ↔ ¬ (Fp.legendre v = 1) := by
  rcases legendre_range v with h | h | h <;> omega

theorem subgroupCheck_gen {K S : Type} [Zero K] [One K] [Add K] [Sub K] [Mul K] [Neg K] [Inv K] [DecidableEq K] [Zero S]
    (E : ElemEnv K S) (x : K) :
    go_subgroupCheck E x = if E.legendre (1 - x * x * E.a) ≤ 0 then none else some () := rfl

/-- **`computeY` (bandersnatch.go), translated from the source, is the model's `computeY`**:
radicand `(a x² − 1)/(d x² − 1)`, the square-root routine, the choice of the requested root -/
theorem computeY_eq (sqrt : Fp → Option Fp) (x : Fp) (l : Bool) :
    go_computeY (realEnv sqrt) x l = computeY sqrt x l := by
  unfold go_computeY computeY
  have ha : x * x * bandersnatch.a = bandersnatch.a * (x * x) := zp_mul_comm _ _
  have hd : x * x * bandersnatch.d = bandersnatch.d * (x * x) := zp_mul_comm _ _
  simp only [realEnv, ha, hd, zp_div_eq]
  cases sqrt ((bandersnatch.a * (x * x) - 1) * (bandersnatch.d * (x * x) - 1)⁻¹) with
  | none => rfl
  | some y =>
    simp only
    by_cases h : l = Fp.lexLargest y
    · subst h; simp
    · have h' : ¬ Fp.lexLargest y = l := fun h' => h h'.symm
      simp [h, h']

/-- `GetPointFromX` = the model's `computeY` paired with `x` -/
theorem getPointFromX_eq (sqrt : Fp → Option Fp) (x : Fp) (l : Bool) :
    go_GetPointFromX (realEnv sqrt) x l = (computeY sqrt x l).map (fun y => (⟨x, y⟩ : Aff Fp)) := by
  unfold go_GetPointFromX
  rw [computeY_eq]
  cases computeY sqrt x l <;> rfl

theorem sgc_aux (L : Int) (hr : L = 0 ∨ L = 1 ∨ L = -1) [d : Decidable (L ≤ 0)] :
    (if L ≤ 0 then (none : Option Unit) else some ()) = if (L == 1) = true then some () else none := by
  rcases hr with h | h | h <;> subst h
  · rw [if_pos (by omega)]; rfl
  · rw [if_neg (by omega)]; rfl
  · rw [if_pos (by omega)]; rfl

/-- `subgroupCheck` is the model's `subgroupOk` -/
theorem subgroupCheck_eq (sqrt : Fp → Option Fp) (x : Fp) :
    go_subgroupCheck (realEnv sqrt) x = if subgroupOk x then some () else none :=
  (subgroupCheck_gen (realEnv sqrt) x).trans
    ((sgc_aux _ (legendre_range (1 - x * x * bandersnatch.a))).trans
      (congrArg (fun t => if (Fp.legendre (1 - t) == 1) = true then some () else none)
        (zp_mul_comm (x * x) bandersnatch.a)))

/-- **`setBytes` (behind `SetBytes` and `SetBytesUnsafe`), translated from the source, is the
model's `decodeCompressed`** — same acceptance set, same returned coordinates -/
theorem setBytes_eq (sqrt : Fp → Option Fp) (p : Pt) (buf : Bytes) (trusted : Bool) :
    go_setBytes (realEnv sqrt) p buf trusted = (decodeCompressed sqrt buf trusted).toOption := by
  unfold go_setBytes decodeCompressed
  by_cases hl : buf.length = 32
  · have t1 : ¬ (((buf.length : Nat) : Int) ≠ 32) := by omega
    have t2 : ¬ (buf.length ≠ 32) := not_not_intro hl
    rw [if_neg t1, if_neg t2]
    simp only [subgroupCheck_eq, getPointFromX_eq]
    by_cases hc : beNat buf < P
    · simp only [realEnv, hc, ↓reduceDIte]
      cases hy : computeY sqrt ⟨beNat buf, hc⟩ true with
      | none => simp [Except.toOption]
      | some y =>
        simp only [Option.map_some]
        cases trusted <;> by_cases hs : subgroupOk ⟨beNat buf, hc⟩ = true <;> simp [hs, Except.toOption]
    · simp only [realEnv, hc, ↓reduceDIte]
      simp [Except.toOption]
  · have t1 : (((buf.length : Nat) : Int) ≠ 32) := by omega
    rw [if_pos t1, if_pos hl]
    rfl

theorem SetBytes_eq (sqrt : Fp → Option Fp) (p : Pt) (buf : Bytes) :
    go_SetBytes (realEnv sqrt) p buf = (decodeCompressed sqrt buf false).toOption := setBytes_eq sqrt p buf false

theorem SetBytesUnsafe_eq (sqrt : Fp → Option Fp) (p : Pt) (buf : Bytes) :
    go_SetBytesUnsafe (realEnv sqrt) p buf = (decodeCompressed sqrt buf true).toOption := setBytes_eq sqrt p buf true

/-- **`SetBytesUncompressed`, translated from the source, is the model's `decodeUncompressed`** -/
theorem SetBytesUncompressed_eq (sqrt : Fp → Option Fp) (p : Pt) (buf : Bytes) (trusted : Bool) :
    go_SetBytesUncompressed (realEnv sqrt) p buf trusted = (decodeUncompressed sqrt buf trusted).toOption := by
  unfold go_SetBytesUncompressed decodeUncompressed
  by_cases hl : buf.length = 64
  · have t1 : ¬ (((buf.length : Nat) : Int) ≠ 64) := by omega
    have t2 : ¬ (buf.length ≠ 64) := not_not_intro hl
    rw [if_neg t1, if_neg t2]
    have h32 : (32 : Int).toNat = 32 := rfl
    simp only [subgroupCheck_eq, getPointFromX_eq, Loop.take, Loop.drop, h32]
    cases trusted with
    | true => simp [realEnv, Except.toOption]
    | false =>
      simp only [Bool.false_eq_true, not_false_eq_true, ↓reduceIte]
      by_cases hc : beNat (buf.take 32) < P
      · simp only [realEnv, hc, ↓reduceDIte]
        cases hy : computeY sqrt ⟨beNat (buf.take 32), hc⟩ true with
        | none => simp [Except.toOption]
        | some y =>
          simp only [Option.map_some]
          by_cases hyb : y.bytesBE = buf.drop 32
          · by_cases hs : subgroupOk ⟨beNat (buf.take 32), hc⟩ = true <;> simp [hyb, hs, Except.toOption]
          · simp [hyb, Except.toOption]
      · simp only [realEnv, hc, ↓reduceDIte]
        simp [Except.toOption]
  · have t1 : (((buf.length : Nat) : Int) ≠ 64) := by omega
    rw [if_pos t1, if_pos hl]
    rfl

/-- `MapToScalarField` at the executable types is the model's `Pt.mapToScalar` -/
theorem mapToScalarField_real (sqrt : Fp → Option Fp) (p : Pt) (res : Fr) :
    go_MapToScalarField (realEnv sqrt) p res = Pt.mapToScalar p := rfl

theorem bytes_real (sqrt : Fp → Option Fp) (p : Pt) : go_Bytes (realEnv sqrt) p = Pt.bytes p := by
  unfold go_Bytes Pt.bytes Proj.encode
  by_cases hz : p.Z = 1
  · simp only [realEnv, hz, not_true_eq_false, ↓reduceIte]
    by_cases hl : Fp.lexLargest p.Y = true <;> simp [hl]
  · simp only [realEnv, hz, not_false_eq_true, ↓reduceIte]
    by_cases hl : Fp.lexLargest p.toAff.y = true <;> simp [hl]

theorem equal_real (sqrt : Fp → Option Fp) (p q : Pt) : go_Equal (realEnv sqrt) p q = Pt.equal p q := by
  unfold go_Equal Pt.equal Proj.equalE
  by_cases h1 : p.X = 0 ∧ p.Y = 0
  · simp [h1]
  · by_cases h2 : q.X = 0 ∧ q.Y = 0
    · simp [h1, h2]
    · simp [h1, h2]

end concrete

/-- what the translator covered: every function of `element.go` (and `computeY`, `GetPointFromX`) -/
theorem coverage : Gen.Elements.notTranslated = [] ∧ Gen.Elements.translated.length = 26 := by decide

end GoIpa.Tie.Elements
