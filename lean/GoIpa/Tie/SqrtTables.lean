/-
  Tie T1 for C17, the tables: the first two table-building closures of `init()` in
  `bandersnatch/fp/sqrt.go` — the dyadic roots `ret[i] = ret[i−1]²` from the hard-coded primitive
  `2^32`-th root of unity, and the precomputed blocks `blocks[i][j] = blocks[i][j−1]·roots[8i]` from
  `blocks[i][0] = 1` — translated from the current source (`Gen/SqrtFp.lean`: `go_dyadicRoots`,
  `go_blocks`, `rootLiteral`, `reconIndex`).  Proved: over any field the roots are the iterated
  squares and the blocks the iterated products (`dyadicRoots_spec`, `blocks_spec`); at the base field
  they are the model's `dyadicRoots`, `precompBlock` and `g8` (`dyadicRoots_model`, `blocks_model`,
  `recon_model`) — the tables `Tie.SqrtFp.sqrtPrecomp_eq` takes as parameters and
  `C17.sqrtPrecomp_spec` is proved for.  The look-up-table closure (a Go map) is translated as an association
  list with the newest entry first: `lut_spec` (entry `i` is `key(recon^i) ↦ (256 − i) mod 256`), `lut_model`
  (= the model's `dlogLUT`, reversed) and `lutLookup_model` (reading it = the model's look-up, because the 256 keys
  are pairwise distinct: `C17.lut_keys_distinct`).
-/
import GoIpa.Lemmas.LoopLemmas
import GoIpa.Lemmas.ZpField
import GoIpa.Model.Sqrt
import GoIpa.Tie.SqrtFp
import GoIpa.Props.C17
namespace GoIpa.Tie.SqrtTables
open GoIpa GoIpa.Gen.SqrtFp GoIpa.Tie.SqrtFp

section
variable {K : Type} [Mul K] [One K] [Zero K]

/-- `r^j` as the loop computes it: `j` multiplications by `r` from the left-hand accumulator 1 -/
def powL (r : K) : Nat → K
  | 0 => 1
  | j + 1 => powL r j * r

theorem forNat_eq {σ : Type} (lo hi : Nat) (st : σ) (body : Nat → σ → σ) :
    Loop.forNat lo hi st body = (List.range (hi - lo)).foldl (fun st k => body (lo + k) st) st := rfl

/-- **the dyadic roots**: entry `i` is `g` squared `i` times -/
theorem dyadicRoots_spec (g : K) :
    (go_dyadicRoots g).length = 33 ∧ ∀ i, i ≤ 32 → (go_dyadicRoots g).getD i 0 = sqTimesG i g := by
  unfold go_dyadicRoots
  have c : BaseField2Adicity = 32 := rfl
  simp only [c, forNat_eq]
  have key := Loop.foldl_range_inv
    (fun k (ret : List K) => ret.length = 33 ∧ ∀ j, j ≤ k → ret.getD j 0 = sqTimesG j g)
    (fun (ret : List K) (k : Nat) => ret.set (1 + k) ((ret.getD (1 + k - 1) 0) * (ret.getD (1 + k - 1) 0)))
    ((List.replicate (32 + 1) (0 : K)).set 0 g) (32 + 1 - 1)
    (by
      refine ⟨by simp, ?_⟩
      intro j hj
      have : j = 0 := by omega
      subst this
      simp [sqTimesG])
    (by
      intro k ret hk ⟨hl, hv⟩
      refine ⟨by simp [hl], ?_⟩
      intro j hj
      have e : 1 + k - 1 = k := by omega
      rw [e, Loop.getD_set]
      by_cases hjk : 1 + k = j
      · have h1 : 1 + k = j ∧ 1 + k < ret.length := ⟨hjk, by omega⟩
        rw [if_pos h1, hv k (Nat.le_refl k), ← hjk, Nat.add_comm 1 k]
        show _ = sqTimesG k (g * g)
        rw [sqTimesG_sq]
      · have h1 : ¬ (1 + k = j ∧ 1 + k < ret.length) := fun h => hjk h.1
        rw [if_neg h1]
        exact hv j (by omega))
  exact key

/-- the inner loop of the blocks closure on row `i`: row `i` becomes the powers of `r` -/
theorem blocks_inner (r : K) (i : Nat) (blocks : List (List K)) (hi : i < blocks.length)
    (hrow : (blocks.getD i []).length = 256) (h0 : (blocks.getD i []).getD 0 0 = 1) :
    let res := Loop.forNat 1 256 blocks (fun j blocks =>
      blocks.set i ((blocks.getD i []).set j (((blocks.getD i []).getD (j - 1) 0) * r)))
    res.length = blocks.length ∧ (∀ i', i' ≠ i → res.getD i' [] = blocks.getD i' []) ∧
      (res.getD i []).length = 256 ∧ ∀ j, j < 256 → (res.getD i []).getD j 0 = powL r j := by
  intro res
  have key := Loop.foldl_range_inv
    (fun k (b : List (List K)) => b.length = blocks.length ∧ (∀ i', i' ≠ i → b.getD i' [] = blocks.getD i' []) ∧
      (b.getD i []).length = 256 ∧ ∀ j, j ≤ k → (b.getD i []).getD j 0 = powL r j)
    (fun (b : List (List K)) (k : Nat) => b.set i ((b.getD i []).set (1 + k) (((b.getD i []).getD (1 + k - 1) 0) * r)))
    blocks (256 - 1)
    (by
      refine ⟨rfl, fun _ _ => rfl, hrow, ?_⟩
      intro j hj
      have : j = 0 := by omega
      subst this
      exact h0)
    (by
      intro k b hk ⟨hl, ho, hr, hv⟩
      have hib : i < b.length := by omega
      refine ⟨by rw [List.length_set]; exact hl, ?_, ?_, ?_⟩
      · intro i' hi'
        rw [Loop.getD_set_ne _ _ _ _ _ (fun h => hi' h.symm)]
        exact ho i' hi'
      · rw [Loop.getD_set_self _ _ _ _ hib, List.length_set]; exact hr
      · intro j hj
        rw [Loop.getD_set_self _ _ _ _ hib]
        have e : 1 + k - 1 = k := by omega
        rw [e, Loop.getD_set]
        by_cases hjk : 1 + k = j
        · have h1 : 1 + k = j ∧ 1 + k < (b.getD i []).length := ⟨hjk, by omega⟩
          rw [if_pos h1, hv k (Nat.le_refl k), ← hjk, Nat.add_comm 1 k]
          rfl
        · have h1 : ¬ (1 + k = j ∧ 1 + k < (b.getD i []).length) := fun h => hjk h.1
          rw [if_neg h1]
          exact hv j (by omega))
  obtain ⟨k1, k2, k3, k4⟩ := key
  exact ⟨k1, k2, k3, fun j hj => k4 j (by omega)⟩

/-- **the precomputed blocks**: `blocks[i][j] = roots[8i]^j` (`j` multiplications from 1) -/
theorem blocks_spec (roots : List K) :
    ∀ i, i < 4 → ∀ j, j < 256 → ((go_blocks roots).getD i []).getD j 0 = powL (roots.getD (i * 8) 0) j := by
  unfold go_blocks
  have c1 : sqrtParam_Blocks = 4 := rfl
  have c2 : sqrtParam_BlockSize = 8 := rfl
  have c3 : (1 <<< 8 : Nat) = 256 := rfl
  simp only [c1, c2, c3]
  rw [forNat_eq]
  have key := Loop.foldl_range_inv
    (fun k (b : List (List K)) => b.length = 4 ∧ (∀ i, i < 4 → (b.getD i []).length = 256) ∧
      ∀ i, i < k → ∀ j, j < 256 → (b.getD i []).getD j 0 = powL (roots.getD (i * 8) 0) j)
    (fun (blocks : List (List K)) (k : Nat) =>
      (fun i blocks =>
        let blocks := blocks.set i ((blocks.getD i []).set 0 1)
        let blocks := Loop.forNat 1 256 blocks (fun j blocks =>
            blocks.set i ((blocks.getD i []).set j (((blocks.getD i []).getD (j - 1) 0) * (roots.getD (i * 8) 0))))
        blocks) (0 + k) blocks)
    (List.replicate 4 (List.replicate 256 (0 : K))) (4 - 0)
    (by
      refine ⟨List.length_replicate, ?_, fun i hi => absurd hi (Nat.not_lt_zero i)⟩
      intro i hi
      rw [Loop.getD_replicate _ _ _ _ hi, List.length_replicate])
    (by
      intro k b hk ⟨hl, hr, hv⟩
      simp only [Nat.zero_add]
      have hkb : k < b.length := by omega
      have hk4 : k < 4 := by omega
      have hl1 : (b.set k ((b.getD k []).set 0 1)).length = b.length := List.length_set
      obtain ⟨r1, r2, r3, r4⟩ := blocks_inner (roots.getD (k * 8) 0) k (b.set k ((b.getD k []).set 0 1))
        (by rw [hl1]; exact hkb)
        (by rw [Loop.getD_set_self _ _ _ _ hkb, List.length_set]; exact hr k hk4)
        (by
          rw [Loop.getD_set_self _ _ _ _ hkb]
          exact Loop.getD_set_self _ _ _ _ (by rw [hr k hk4]; decide))
      refine ⟨by rw [r1, hl1, hl], ?_, ?_⟩
      · intro i hi
        by_cases hik : i = k
        · subst hik; exact r3
        · rw [r2 i hik, Loop.getD_set_ne _ _ _ _ _ (fun h => hik h.symm)]; exact hr i hi
      · intro i hi j hj
        by_cases hik : i = k
        · subst hik; exact r4 j hj
        · rw [r2 i hik, Loop.getD_set_ne _ _ _ _ _ (fun h => hik h.symm)]
          exact hv i (by omega) j hj)
  intro i hi j hj
  exact key.2.2 i hi j hj

end

/-! ### at the base field: the tables are the model's `dyadicRoots` / `precompBlock` -/

theorem toZ_sqTimesG (i : Nat) (g : Fp) : Zp.toZ (sqTimesG i g) = Zp.toZ g ^ (2 ^ i) := by
  induction i generalizing g with
  | zero => simp [sqTimesG]
  | succ i ih =>
    show Zp.toZ (sqTimesG i (g * g)) = _
    rw [ih (g * g), Zp.toZ_mul, ← pow_two, ← pow_mul, pow_succ, Nat.mul_comm]

theorem toZ_powL (r : Fp) (j : Nat) : Zp.toZ (powL r j) = Zp.toZ r ^ j := by
  induction j with
  | zero => simp [powL]
  | succ j ih =>
    show Zp.toZ (powL r j * r) = _
    rw [Zp.toZ_mul, ih, pow_succ]

theorem rootLiteral_eq : dyadicRoot = Zp.ofNat P rootLiteral := rfl

/-- **the dyadic roots built by `init()` are the model's** -/
theorem dyadicRoots_model (i : Nat) (hi : i ≤ 32) : (go_dyadicRoots dyadicRoot).getD i 0 = dyadicRoots i := by
  rw [(dyadicRoots_spec dyadicRoot).2 i hi]
  apply Zp.toZ_injective
  rw [toZ_sqTimesG]
  unfold dyadicRoots
  rw [Zp.toZ_pow]

/-- **the precomputed blocks built by `init()` are the model's `precompBlock`** -/
theorem blocks_model (i : Nat) (hi : i < 4) (j : Nat) (hj : j < 256) :
    ((go_blocks (go_dyadicRoots dyadicRoot)).getD i []).getD j 0 = precompBlock i j := by
  rw [blocks_spec _ i hi j hj, dyadicRoots_model (i * 8) (by omega)]
  apply Zp.toZ_injective
  rw [toZ_powL]
  unfold precompBlock
  rw [Zp.toZ_pow, Nat.mul_comm]

/-- the reconstruction root is `dyadicRoots 24 = g8` -/
theorem recon_model : (go_dyadicRoots dyadicRoot).getD reconIndex 0 = g8 := by
  have : reconIndex = 24 := rfl
  rw [this, dyadicRoots_model 24 (by omega)]
  rfl

/-! ### the discrete-log look-up table -/

section
variable {K : Type} [Mul K] [One K] [Zero K]

/-- the key the table is indexed with -/
def lutKey (limb0 : K → Nat) (x : K) : Nat := (limb0 x &&& (0xFFFF : Nat)) % 65536

/-- **the look-up-table closure**: entry `i` (in store order) is `key(recon^i) ↦ (256 − i) mod 256` -/
theorem lut_spec (limb0 : K → Nat) (recon : K) :
    go_lut limb0 recon = ((List.range 256).map (fun i => (lutKey limb0 (powL recon i), (256 - i % 256) % 256))).reverse := by
  unfold go_lut
  have c : lutSize = 256 := rfl
  simp only [c, forNat_eq, Nat.sub_zero, Nat.zero_add]
  have key := Loop.foldl_range_inv
    (fun k (st : List (Nat × Nat) × K) =>
      st.1 = ((List.range k).map (fun i => (lutKey limb0 (powL recon i), (256 - i % 256) % 256))).reverse ∧ st.2 = powL recon k)
    (fun (st : List (Nat × Nat) × K) (k : Nat) =>
      (fun i (st : List (Nat × Nat) × K) =>
        let (ret, rootOfUnity) := st
        let ret := (((limb0 rootOfUnity &&& (0xFFFF : Nat)) % 65536), ((256 - i % 256) % 256)) :: ret
        let rootOfUnity := rootOfUnity * recon
        (ret, rootOfUnity)) k st)
    (([] : List (Nat × Nat)), (1 : K)) 256
    ⟨rfl, rfl⟩
    (by
      rintro k ⟨ret, x⟩ hk ⟨h1, h2⟩
      simp only at h1 h2
      subst h1 h2
      refine ⟨?_, rfl⟩
      simp only [List.range_succ, List.map_append, List.map_cons, List.map_nil, List.reverse_append,
        List.reverse_cons, List.reverse_nil, List.nil_append, List.cons_append]
      rfl)
  exact key.1

end

/-- on a list with pairwise distinct keys, the newest-first and the oldest-first association list read the same -/
theorem find_reverse (l : List (Nat × Nat)) (hn : (l.map (·.1)).Nodup) (k : Nat) :
    l.reverse.find? (fun e => e.1 == k) = l.find? (fun e => e.1 == k) := by
  induction l with
  | nil => rfl
  | cons a t ih =>
    have hn' : (t.map (·.1)).Nodup := (List.nodup_cons.1 (by simpa using hn)).2
    have hna : a.1 ∉ t.map (·.1) := (List.nodup_cons.1 (by simpa using hn)).1
    rw [List.reverse_cons, List.find?_append, ih hn']
    by_cases hk : a.1 = k
    · have hnone : t.find? (fun e => e.1 == k) = none := by
        rw [List.find?_eq_none]
        intro e he hek
        apply hna
        have : e.1 = k := by simpa using hek
        rw [hk, ← this]
        exact List.mem_map_of_mem he
      rw [hnone]
      simp [List.find?, hk]
    · have : (a.1 == k) = false := by simpa using hk
      simp [List.find?, this]

/-! ### the look-up table at the base field is the model's `dlogLUT` -/

theorem powL_pow (r : Fp) (j : Nat) : powL r j = r ^ j := by
  apply Zp.toZ_injective
  rw [toZ_powL, Zp.toZ_pow]

theorem key_eq (x : Fp) : lutKey limb0P x = montKey x := by
  unfold lutKey limb0P montKey
  have e : (0xFFFF : Nat) = 2 ^ 16 - 1 := by decide
  rw [e, Nat.and_two_pow_sub_one_eq_mod]
  have e2 : (65536 : Nat) = 2 ^ 16 := by decide
  rw [e2, Nat.mod_mod, Nat.mod_mod_of_dvd _ (by decide : 2 ^ 16 ∣ 2 ^ 64)]

/-- **the look-up table built by `init()` is the model's `dlogLUT`** (as a Go map: newest entry first) -/
theorem lut_model : go_lut limb0P g8 = dlogLUT.reverse := by
  rw [lut_spec]
  apply congrArg List.reverse
  unfold dlogLUT
  apply List.map_congr_left
  intro i hi
  have hi' : i < 256 := List.mem_range.1 hi
  rw [key_eq, powL_pow, Nat.mod_eq_of_lt hi']

/-- reading the translated table = the model's look-up (`Tie.SqrtFp.lutP`), because the 256 keys are
pairwise distinct (`C17.lut_keys_distinct`) -/
theorem lutLookup_model (k : Nat) : lutLookup (go_lut limb0P g8) k = lutP k := by
  unfold lutLookup lutP
  rw [lut_model, find_reverse _ C17.lut_keys_distinct]

end GoIpa.Tie.SqrtTables
