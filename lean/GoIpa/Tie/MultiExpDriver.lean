/-
  Tie T1 for the driver `MultiExp` (bandersnatch/multiexp.go): the body of its splitting loop
  `for nbChunks < config.NbTasks { … }`, translated from the current source on every run
  (`go/cmd/extract/multiexpdriver.go` → `Gen/MultiExpDriver.chooseStep`), iterated while its
  condition holds, **is** the model's `chooseSplit` (the object of `C09.chooseSplit_exits` and of
  `multiExp_correct`, which holds for every cost model `bestC`); the remaining statements of the
  driver — length check, default task count, `partitionScalars`, the first-chunk-split decision,
  one goroutine per split but the last, the last split on the caller's goroutine, the fan-in adding
  the partial results in arrival order — are checked as a statement list.
-/
import GoIpa.Gen.MultiExpDriver
import GoIpa.Model.Pippenger
import GoIpa.Lemmas.LoopLemmas
namespace GoIpa.Tie.MultiExpDriver
open GoIpa GoIpa.Loop

/-- the Go loop: run the translated body while `nbChunks < nbTasks` (with fuel) -/
def goChoose (bestC : Int → Int) (nbTasks : Int) : Nat → (Int × Int × Int × Int) → (Int × Int × Int × Int)
  | 0, st => st
  | fuel + 1, (C, nbSplits, nbChunksV, nbPoints) =>
    if nbChunksV < nbTasks then goChoose bestC nbTasks fuel (Gen.MultiExpDriver.chooseStep bestC nbTasks C nbSplits nbChunksV nbPoints)
    else (C, nbSplits, nbChunksV, nbPoints)

/-- one translated iteration, on naturals -/
theorem chooseStep_nat (bestC : Nat → Nat) (hC : ∀ p, 1 ≤ bestC p) (T C0 s k p : Nat) :
    Gen.MultiExpDriver.chooseStep (fun i => ((bestC i.toNat : Nat) : Int)) (T : Int) (C0 : Int) (s : Int) (k : Int) (p : Int)
      = (((bestC p : Nat) : Int),
         ((if nbChunks (bestC p) * s < T then 2 * s else s : Nat) : Int),
         ((nbChunks (bestC p) * s : Nat) : Int),
         ((if nbChunks (bestC p) * s < T then p / 2 else p : Nat) : Int)) := by
  unfold Gen.MultiExpDriver.chooseStep
  simp only [Int.toNat_natCast]
  have hc := hC p
  generalize bestC p = c at hc ⊢
  have h256 : ((4 : Int) * 64) = ((256 : Nat) : Int) := by decide
  have hdiv : ((256 : Nat) : Int) / (c : Int) = ((256 / c : Nat) : Int) := by omega
  have hmod : ((256 : Nat) : Int) % (c : Int) = ((256 % c : Nat) : Int) := by omega
  rw [h256, hdiv, hmod]
  have hnb : (if (((256 % c : Nat)) : Int) ≠ 0 then (((256 / c : Nat)) : Int) + 1 else (((256 / c : Nat)) : Int))
      = ((nbChunks c : Nat) : Int) := by
    unfold nbChunks
    by_cases h : 256 % c ≠ 0
    · have : (((256 % c : Nat)) : Int) ≠ 0 := by omega
      rw [if_pos this, if_pos h]; omega
    · have : ¬ ((((256 % c : Nat)) : Int) ≠ 0) := by omega
      rw [if_neg this, if_neg h]
  simp only [hnb]
  have hmul : ((nbChunks c : Nat) : Int) * (s : Int) = ((nbChunks c * s : Nat) : Int) := (Int.natCast_mul _ _).symm
  rw [hmul]
  have hshl : Loop.shl (s : Int) 1 = ((2 * s : Nat) : Int) := by
    unfold Loop.shl
    simp only [Int.toNat_natCast]
    have : (1 : Int).toNat = 1 := rfl
    rw [this, Nat.shiftLeft_eq, Nat.pow_one, Nat.mul_comm]
  have hshr : Loop.shr (p : Int) 1 = ((p / 2 : Nat) : Int) := by
    unfold Loop.shr
    simp only [Int.toNat_natCast]
    have : (1 : Int).toNat = 1 := rfl
    rw [this, Nat.shiftRight_eq_div_pow, Nat.pow_one]
  rw [hshl, hshr]
  by_cases hlt : nbChunks c * s < T
  · have : (((nbChunks c * s : Nat)) : Int) < (T : Int) := by omega
    simp only [this, hlt, ↓reduceIte]
  · have : ¬ ((((nbChunks c * s : Nat)) : Int) < (T : Int)) := by omega
    simp only [this, hlt, ↓reduceIte]

theorem nbChunks_pos (c : Nat) (hc : 1 ≤ c) (hc256 : c ≤ 256) : 1 ≤ nbChunks c := by
  unfold nbChunks
  have : 1 ≤ 256 / c := (Nat.le_div_iff_mul_le (by omega)).mpr (by omega)
  split <;> omega

/-- **The splitting loop of `MultiExp`, run on the translated body, is the model's `chooseSplit`**
(for every cost model with values in `1..256`; `fuel` large enough for the loop to exit by its own
condition, which `2^fuel · nbSplits ≥ nbTasks` guarantees): same window, same number of splits, same
points per split, and `nbChunks` ends as `nbChunks(c) · nbSplits` -/
theorem goChoose_eq (bestC : Nat → Nat) (hC : ∀ p, 1 ≤ bestC p ∧ bestC p ≤ 256) (T : Nat) :
    ∀ (fuel p s C0 k : Nat), k < T → T ≤ s * 2 ^ fuel →
      goChoose (fun i => ((bestC i.toNat : Nat) : Int)) (T : Int) (fuel + 1) ((C0 : Int), (s : Int), (k : Int), (p : Int))
        = ((((chooseSplit bestC T fuel p s).1 : Nat) : Int),
           (((chooseSplit bestC T fuel p s).2.1 : Nat) : Int),
           ((nbChunks (chooseSplit bestC T fuel p s).1 * (chooseSplit bestC T fuel p s).2.1 : Nat) : Int),
           (((chooseSplit bestC T fuel p s).2.2 : Nat) : Int)) := by
  intro fuel
  induction fuel with
  | zero =>
    intro p s C0 k hk hT
    simp only [Nat.pow_zero, Nat.mul_one] at hT
    have hpos := nbChunks_pos (bestC p) (hC p).1 (hC p).2
    have hge : ¬ (nbChunks (bestC p) * s < T) := by
      have : s ≤ nbChunks (bestC p) * s := Nat.le_mul_of_pos_left _ hpos
      omega
    unfold goChoose
    have hk' : ((k : Nat) : Int) < (T : Int) := by omega
    rw [if_pos hk', chooseStep_nat bestC (fun p => (hC p).1)]
    simp only [hge, ↓reduceIte, goChoose, chooseSplit]
  | succ fuel ih =>
    intro p s C0 k hk hT
    unfold goChoose
    have hk' : ((k : Nat) : Int) < (T : Int) := by omega
    rw [if_pos hk', chooseStep_nat bestC (fun p => (hC p).1)]
    unfold chooseSplit
    simp only
    by_cases hlt : nbChunks (bestC p) * s < T
    · simp only [hlt, ↓reduceIte]
      have := ih (p / 2) (2 * s) (bestC p) (nbChunks (bestC p) * s) hlt
        (by rw [Nat.pow_succ] at hT; rw [Nat.mul_comm 2 s, Nat.mul_assoc, Nat.mul_comm 2 (2 ^ fuel)]; exact hT)
      rw [this, Nat.mul_comm 2 s]
    · simp only [hlt, ↓reduceIte]
      have hge : ¬ ((((nbChunks (bestC p) * s : Nat)) : Int) < (T : Int)) := by omega
      unfold goChoose
      rw [if_neg hge]

/-- the driver around the loop -/
theorem driver_shape : Gen.MultiExpDriver.driver =
    ["nbPoints := len(points)",
     "if nbPoints != len(scalars) { return nil, errors.New(\"len(points) != len(scalars)\") }",
     "if config.NbTasks <= 0 { config.NbTasks = runtime.NumCPU() }",
     "bestC := <cost model>", "var C uint64", "nbSplits := 1", "nbChunks := 0",
     "for nbChunks < config.NbTasks { <chooseStep> }",
     "var smallValues int",
     "scalars, smallValues = partitionScalars(scalars, C, config.ScalarsMont, config.NbTasks)",
     "splitFirstChunk := (float64(smallValues) / float64(len(scalars))) >= 0.1",
     "_p := make([]PointProj, nbSplits-1)", "chDone := make(chan int, nbSplits-1)",
     "for i := 0; i < nbSplits-1; i++ { start := i * nbPoints end := start + nbPoints go func(start, end, i int) { msmInnerPointProj(&_p[i], int(C), points[start:end], scalars[start:end], splitFirstChunk) chDone <- i }(start, end, i) }",
     "msmInnerPointProj(p, int(C), points[(nbSplits-1)*nbPoints:], scalars[(nbSplits-1)*nbPoints:], splitFirstChunk)",
     "for i := 0; i < nbSplits-1; i++ { done := <-chDone p.Add(p, &_p[done]) }",
     "close(chDone)", "return p, nil"] := by decide +kernel

/-- `partitionScalars` around its two translated regions (the selector computation: `Tie.Selector`;
one iteration of the chunk loop: `Tie.Recode` + `Tie.Selector.digitRead_eq`): a fresh zeroed result,
the number of chunks `⌈256/c⌉`, one recoding pass per scalar with the carry starting at 0 — after the
optional conversion out of Montgomery form; a scalar that is zero is skipped (its digits stay zero);
small-value counting only feeds the first-chunk-split heuristic — over the ranges of `parallel.Execute`
(which tile `[0, n)`: C20), one send per worker into a channel of capacity `nbTasks`. -/
theorem partition_shape : Gen.MultiExpDriver.partitionOuter =
    ["toReturn := make([]fr.Element, len(scalars))",
     "nbChunks := fr.Limbs * 64 / c",
     "if (fr.Limbs*64)%c != 0 { nbChunks++ }",
     "mask := uint64((1 << c) - 1)", "msbWindow := uint64(1 << (c - 1))", "max := int(1 << (c - 1))",
     "cDivides64 := (64 % c) == 0",
     "selectors := make([]selector, nbChunks)",
     "for chunk := uint64(0); chunk < nbChunks; chunk++ { <selector> }",
     "chSmallValues := make(chan int, nbTasks)",
     "parallel.Execute(len(scalars), func(start, end int) { smallValues := 0 for i := start; i < end; i++ { var carry int scalar := scalars[i] if scalarsMont { scalar.FromMont() } if scalar.IsUint64() { if scalar[0] == 0 { continue } if scalar[0]&mask == scalar[0] { smallValues++ } } for chunk := uint64(0); chunk < nbChunks; chunk++ { recodeStep } } chSmallValues <- smallValues }, nbTasks)",
     "close(chSmallValues)", "smallValues := 0",
     "for o := range chSmallValues { smallValues += o }",
     "return toReturn, smallValues"] := by decide +kernel

end GoIpa.Tie.MultiExpDriver
