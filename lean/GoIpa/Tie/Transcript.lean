/-
  Tie T1 for C14: `common/transcript.go` — `NewTranscript`, `AppendMessage`, `AppendScalar`,
  `AppendPoint`, `DomainSep`, `ChallengeScalar` — translated statement by statement from the
  current source (`Gen/Transcript.lean`; a `hash.Hash` is the byte string written to it since its
  last reset, a `bytes.Buffer` the pending bytes) **is** the implementation-shaped transcript `Tr`
  of `Model/Transcript.lean`, the object of `C14.transcript_refines` (`Tr` = the specified single
  stream) — for every hash, every field decoder and every pair of encoders.
-/
import GoIpa.Gen.Transcript
import GoIpa.Model.Config
import GoIpa.Model.Codec
namespace GoIpa.Tie.Transcript
open GoIpa GoIpa.Gen.Transcript

variable {F G : Type} (enc : Enc F G)

theorem new_eq (label : Bytes) : go_NewTranscript label = Tr.new label := by
  simp [go_NewTranscript, Tr.new]

theorem appendMessage_eq (t : Tr) (message label : Bytes) :
    go_AppendMessage t message label = t.appendMessage message label := rfl

theorem appendScalar_eq (t : Tr) (s : F) (label : Bytes) :
    go_AppendScalar enc.scBytes t s label = t.appendScalar enc s label := rfl

theorem appendPoint_eq (t : Tr) (p : G) (label : Bytes) :
    go_AppendPoint enc.ptBytes t p label = t.appendPoint enc p label := rfl

theorem domainSep_eq (t : Tr) (label : Bytes) : go_DomainSep t label = t.domainSep label := rfl

/-- **`ChallengeScalar`**: absorb the label, flush the buffer into the hash, squeeze, decode
little-endian with reduction, reset, re-absorb the challenge under the label — for every hash `H`
and decoder `setLE` such that the model's hash-to-field function is `setLE ∘ H`. -/
theorem challenge_eq (H : Bytes → Bytes) (setLE : Bytes → F) (hc : enc.chal = fun s => setLE (H s))
    (t : Tr) (label : Bytes) :
    go_ChallengeScalar H setLE enc.scBytes t label = Tr.challenge enc t label := by
  unfold go_ChallengeScalar Tr.challenge
  rw [hc]
  rfl

/-- at the executable instance: SHA-256 and the reducing little-endian decoder of C16
(`Fr.setBytesLE`, which the translated `SetBytesLE` is: `Tie.FrCodec.setBytesLE_eq`) -/
theorem challenge_eq_sha (t : Tr) (label : Bytes) :
    go_ChallengeScalar Sha256.hash Fr.setBytesLE encSha.scBytes t label = Tr.challenge encSha t label :=
  challenge_eq encSha Sha256.hash Fr.setBytesLE rfl t label

/-- a whole history: running the translated methods is running the model's `Tr.step` -/
def goStep (H : Bytes → Bytes) (setLE : Bytes → F) (t : Tr) : TrOp F G → Tr × Option F
  | .domainSep l => (go_DomainSep t l, none)
  | .message m l => (go_AppendMessage t m l, none)
  | .scalar s l => (go_AppendScalar enc.scBytes t s l, none)
  | .point p l => (go_AppendPoint enc.ptBytes t p l, none)
  | .challenge l => let r := go_ChallengeScalar H setLE enc.scBytes t l; (r.2, some r.1)

theorem step_eq (H : Bytes → Bytes) (setLE : Bytes → F) (hc : enc.chal = fun s => setLE (H s))
    (t : Tr) (op : TrOp F G) : goStep enc H setLE t op = Tr.step enc t op := by
  cases op with
  | domainSep l => rfl
  | message m l => rfl
  | scalar s l => rfl
  | point p l => rfl
  | challenge l =>
    simp only [goStep, Tr.step, challenge_eq enc H setLE hc]

end GoIpa.Tie.Transcript
