/-
  Tie T1 for the signed-digit recoding of `partitionScalars` (bandersnatch/multiexp.go): one
  iteration of the chunk loop — digit = carry + window, the borrow when the digit reaches
  `2^(c-1)`, the encoding of a negative digit as `(−digit−1) | msbWindow`, the two stores into the
  output limbs — translated from the current source on every run (`go/cmd/extract/recode.go` →
  `Gen/Recode.lean`), **is** the model's `partitionStep`, the step function of
  `PipBits.step` / `loop_inv` / `partitionScalar_spec` (the recoding invariant
  `Σ_{j<k} d_j 2^(cj) + carry·2^(ck) = s mod 2^(ck)`).

  The selector of the chunk is a parameter of the translation; it is instantiated with the
  model's `mkSelector`, which `Tie.Selector.partitionSelector_eq` identifies with the selector
  statements of the same Go function.
-/
import GoIpa.Gen.Recode
import GoIpa.Model.Pippenger
import GoIpa.Lemmas.LoopLemmas
import Mathlib.Tactic.Ring
namespace GoIpa.Tie.Recode
open GoIpa GoIpa.Loop

def castL (l : List Nat) : List Int := l.map (fun (n : Nat) => (n : Int))

theorem get_castL (l : List Nat) (n : Nat) : Loop.get (castL l) (n : Int) 0 = ((l.getD n 0 : Nat) : Int) := by
  rw [get_nat]
  unfold castL
  simp only [List.getD_eq_getElem?_getD, List.getElem?_map]
  cases l[n]? <;> simp

theorem get_castL_succ (l : List Nat) (n : Nat) : Loop.get (castL l) ((n : Int) + 1) 0 = ((l.getD (n + 1) 0 : Nat) : Int) := by
  have : (n : Int) + 1 = ((n + 1 : Nat) : Int) := by omega
  rw [this, get_castL]

theorem set_castL (l : List Nat) (n v : Nat) : Loop.set (castL l) (n : Int) ((v : Nat) : Int) = castL (l.set n v) := by
  rw [set_nat]
  unfold castL
  rw [List.map_set]

theorem set_castL_succ (l : List Nat) (n v : Nat) : Loop.set (castL l) ((n : Int) + 1) ((v : Nat) : Int) = castL (l.set (n + 1) v) := by
  have : (n : Int) + 1 = ((n + 1 : Nat) : Int) := by omega
  rw [this, set_castL]

theorem band_cast (a b : Nat) : Loop.band (a : Int) (b : Int) = ((a &&& b : Nat) : Int) := by
  unfold Loop.band; simp only [Int.toNat_natCast]
theorem bor_cast (a b : Nat) : Loop.bor (a : Int) (b : Int) = ((a ||| b : Nat) : Int) := by
  unfold Loop.bor; simp only [Int.toNat_natCast]
theorem shr_cast (a b : Nat) : Loop.shr (a : Int) (b : Int) = ((a >>> b : Nat) : Int) := by
  unfold Loop.shr; simp only [Int.toNat_natCast]
theorem shl_cast (a b : Nat) : Loop.shl (a : Int) (b : Int) = ((a <<< b : Nat) : Int) := by
  unfold Loop.shl; simp only [Int.toNat_natCast]
theorem shl64_cast (a b : Nat) : Loop.shl64 (a : Int) (b : Int) = (((a <<< b) % 18446744073709551616 : Nat) : Int) := by
  unfold Loop.shl64; simp only [Int.toNat_natCast]

/-- storing into a limb below `2^64`: the model's `(old ||| v) &&& mask64` is Go's `old | (v mod 2^64)` -/
theorem store_mask (a v : Nat) (ha : a < 2 ^ 64) : (a ||| v) &&& mask64 = a ||| (v % 18446744073709551616) := by
  have e : mask64 = 2 ^ 64 - 1 := rfl
  have e64 : (18446744073709551616 : Nat) = 2 ^ 64 := by decide
  rw [e, Nat.and_two_pow_sub_one_eq_mod, Nat.or_mod_two_pow, Nat.mod_eq_of_lt ha, e64]

/-- the two stores of one digit -/
theorem stores_eq (s : Selector) (out : List Nat) (b : Nat) (hout : out.getD s.index 0 < 2 ^ 64) :
    (if s.multiWord = true then
        Loop.set (Loop.set (castL out) (s.index : Int) (Loop.bor ((out.getD s.index 0 : Nat) : Int) (Loop.shl64 (b : Int) (s.shift : Int))))
          ((s.index : Int) + 1)
          (Loop.bor (Loop.get (Loop.set (castL out) (s.index : Int) (Loop.bor ((out.getD s.index 0 : Nat) : Int) (Loop.shl64 (b : Int) (s.shift : Int)))) ((s.index : Int) + 1) 0)
            (Loop.shr (b : Int) (s.shiftHigh : Int)))
      else Loop.set (castL out) (s.index : Int) (Loop.bor ((out.getD s.index 0 : Nat) : Int) (Loop.shl64 (b : Int) (s.shift : Int))))
      = castL (if s.multiWord = true then
          (out.set s.index ((out.getD s.index 0 ||| (b <<< s.shift)) &&& mask64)).set (s.index + 1)
            ((out.set s.index ((out.getD s.index 0 ||| (b <<< s.shift)) &&& mask64)).getD (s.index + 1) 0 ||| (b >>> s.shiftHigh))
        else out.set s.index ((out.getD s.index 0 ||| (b <<< s.shift)) &&& mask64)) := by
  have h1 : Loop.set (castL out) (s.index : Int) (Loop.bor ((out.getD s.index 0 : Nat) : Int) (Loop.shl64 (b : Int) (s.shift : Int)))
      = castL (out.set s.index ((out.getD s.index 0 ||| (b <<< s.shift)) &&& mask64)) := by
    rw [shl64_cast, bor_cast, set_castL, store_mask _ _ hout]
  rw [h1]
  by_cases hmw : s.multiWord = true
  · rw [if_pos hmw, if_pos hmw, get_castL_succ, shr_cast, bor_cast, set_castL_succ]
  · rw [if_neg hmw, if_neg hmw]

/-- **One iteration of the recoding loop of `partitionScalars`, translated from the source, is the
model's `partitionStep`** (output limbs below `2^64`, any incoming carry) -/
theorem recodeStep_eq (c k : Nat) (limbs out : List Nat) (carry : Int)
    (hout : ∀ j, out.getD j 0 < 2 ^ 64) :
    Gen.Recode.recodeStep (c : Int) (((1 <<< (c - 1) : Nat)) : Int) (((1 <<< (c - 1) : Nat)) : Int)
        ((mkSelector c k).index : Int) ((mkSelector c k).mask : Int) ((mkSelector c k).shift : Int)
        ((mkSelector c k).maskHigh : Int) ((mkSelector c k).shiftHigh : Int) (mkSelector c k).multiWord
        (castL limbs) (castL out) carry
      = (castL (partitionStep c limbs (out, carry) k).1, (partitionStep c limbs (out, carry) k).2) := by
  unfold Gen.Recode.recodeStep partitionStep selectBits
  generalize mkSelector c k = s
  simp only [get_castL, get_castL_succ, band_cast, shr_cast, shl_cast]
  -- the digit on both sides
  have hdig : (if s.multiWord = true then
        carry + (((limbs.getD s.index 0 &&& s.mask) >>> s.shift : Nat) : Int)
          + ((((limbs.getD (s.index + 1) 0 &&& s.maskHigh) <<< s.shiftHigh : Nat)) : Int)
      else carry + (((limbs.getD s.index 0 &&& s.mask) >>> s.shift : Nat) : Int))
      = carry + (((if s.multiWord = true then
          (limbs.getD s.index 0 &&& s.mask) >>> s.shift + ((limbs.getD (s.index + 1) 0 &&& s.maskHigh) <<< s.shiftHigh)
        else (limbs.getD s.index 0 &&& s.mask) >>> s.shift : Nat)) : Int) := by
    split <;> push_cast <;> ring
  rw [hdig]
  generalize carry + (((if s.multiWord = true then
          (limbs.getD s.index 0 &&& s.mask) >>> s.shift + ((limbs.getD (s.index + 1) 0 &&& s.maskHigh) <<< s.shiftHigh)
        else (limbs.getD s.index 0 &&& s.mask) >>> s.shift : Nat)) : Int) = D
  by_cases hD : D = 0
  · simp [hD, castL]
  · rw [if_neg hD, if_neg hD]
    have hshl : Loop.shl 1 (c : Int) = (((1 <<< c : Nat)) : Int) := by
      unfold Loop.shl; simp
    rw [hshl]
    generalize (if D ≥ (((1 <<< (c - 1) : Nat)) : Int) then (D - (((1 <<< c : Nat)) : Int), (1 : Int)) else (D, 0)) = P
    obtain ⟨d', c'⟩ := P
    simp only
    by_cases hd : d' ≥ 0
    · rw [if_pos hd, if_pos hd]
      obtain ⟨n, rfl⟩ : ∃ n : Nat, d' = (n : Int) := ⟨d'.toNat, by omega⟩
      simp only [Int.toNat_natCast]
      rw [stores_eq s out n (hout s.index)]
    · rw [if_neg hd, if_neg hd]
      obtain ⟨n, hn⟩ : ∃ n : Nat, -d' - 1 = (n : Int) := ⟨(-d' - 1).toNat, by omega⟩
      simp only [hn, Int.toNat_natCast, bor_cast]
      rw [stores_eq s out (n ||| 1 <<< (c - 1)) (hout s.index)]

end GoIpa.Tie.Recode
