/-
  Tie T1 for C15, the small-constant multiplications and the butterfly: `mulByConstant` (the portable
  `MulBy3` / `MulBy5` / `MulBy13`), `_butterflyGeneric` and `SetUint64` of `bandersnatch/fr/element.go`,
  translated from the current source (`Gen/FrMulConst.lean`: the `switch` as an if-chain, chained method
  calls left to right, the limb routines `doubleG` / `addG` / `subG` / `mulG` of C15).  Proved on the
  translated code: `mulByConstant_repr` (for every constant below 2^64 a fully reduced Montgomery
  representation of `a·c`: the `0`, `1`, `2`, `3 = 2+1`, `5 = 4+1` branches and the general `SetUint64` +
  `Mul` branch), `setUint64_repr`, `butterfly_spec` (`(a + b, a − b)` with the *old* `a`).
-/
import GoIpa.Gen.FrMulConst
import GoIpa.Tie.FrCodec
import GoIpa.Props.C15
namespace GoIpa.Tie.FrMulConst
open GoIpa GoIpa.Limbs GoIpa.Cios GoIpa.Gen.FrCodec GoIpa.Gen.FrMulConst GoIpa.Tie.FrCodec

/-- sums of fully reduced Montgomery representations -/
theorem add_repr (x y : L4) (a b : Nat) (hx : x.ok) (hy : y.ok) (hxr : x.val < R) (hyr : y.val < R)
    (rx : Cios.Repr x a) (ry : Cios.Repr y b) :
    Cios.Repr (addG x y) (a + b) ∧ (addG x y).val < R ∧ (addG x y).ok := by
  obtain ⟨ok, ev, lt⟩ := C15.addG_correct x y hx hy hxr hyr
  refine ⟨?_, lt, ok⟩
  unfold Cios.Repr at *
  rw [ev, Nat.add_mul]
  exact (Nat.mod_modEq _ _).trans (Nat.ModEq.add rx ry)

theorem double_repr (x : L4) (a : Nat) (hx : x.ok) (hxr : x.val < R) (rx : Cios.Repr x a) :
    Cios.Repr (doubleG x) (2 * a) ∧ (doubleG x).val < R ∧ (doubleG x).ok := by
  have := add_repr x x a a hx hx hxr hxr rx rx
  rw [show a + a = 2 * a by omega] at this
  exact this

/-- `SetUint64(v)` for `v < 2^64`: the Montgomery representation of `v` -/
theorem setUint64_repr (v : Nat) (hv : v < W) :
    Cios.Repr (go_SetUint64 v) v ∧ (go_SetUint64 v).val < R ∧ (go_SetUint64 v).ok := by
  have h : go_SetUint64 v = go_ToMont (Limbs.ofNat v) := by
    unfold go_SetUint64 go_ToMont Limbs.ofNat
    have e1 : v % W = v := Nat.mod_eq_of_lt hv
    have e2 : v / W % W = 0 := by rw [Nat.div_eq_of_lt hv]; rfl
    have e3 : v / (W * W) % W = 0 := by
      rw [Nat.div_eq_of_lt (Nat.lt_of_lt_of_le hv (by decide))]; rfl
    have e4 : v / (W * W * W) % W = 0 := by
      rw [Nat.div_eq_of_lt (Nat.lt_of_lt_of_le hv (by decide))]; rfl
    rw [e1, e2, e3, e4]
  rw [h]
  exact toMont_repr v (Nat.lt_of_lt_of_le hv (by decide))

/-- **`mulByConstant`** (the portable `MulBy3` / `MulBy5` / `MulBy13`): on a fully reduced Montgomery
representation of `a`, for every constant `c < 2^64`, a fully reduced Montgomery representation of `a·c` -/
theorem mulByConstant_repr (z : L4) (a c : Nat) (hc : c < W) (hz : z.ok) (hzr : z.val < R) (rz : Cios.Repr z a) :
    Cios.Repr (go_mulByConstant z c) (a * c) ∧ (go_mulByConstant z c).val < R ∧ (go_mulByConstant z c).ok := by
  unfold go_mulByConstant
  by_cases h0 : c = 0
  · subst h0; simp only [if_true, Nat.mul_zero]; exact zero_repr
  · rw [if_neg h0]
    by_cases h1 : c = 1
    · subst h1; simp only [if_true, Nat.mul_one]; exact ⟨rz, hzr, hz⟩
    · rw [if_neg h1]
      by_cases h2 : c = 2
      · subst h2; simp only [if_true]
        rw [Nat.mul_comm]; exact double_repr z a hz hzr rz
      · rw [if_neg h2]
        by_cases h3 : c = 3
        · subst h3; simp only [if_true]
          obtain ⟨r2, l2, o2⟩ := double_repr z a hz hzr rz
          have := add_repr (doubleG z) z (2 * a) a o2 hz l2 hzr r2 rz
          rw [show 2 * a + a = a * 3 by omega] at this
          exact this
        · rw [if_neg h3]
          by_cases h5 : c = 5
          · subst h5; simp only [if_true]
            obtain ⟨r2, l2, o2⟩ := double_repr z a hz hzr rz
            obtain ⟨r4, l4, o4⟩ := double_repr (doubleG z) (2 * a) o2 l2 r2
            have := add_repr (doubleG (doubleG z)) z (2 * (2 * a)) a o4 hz l4 hzr r4 rz
            rw [show 2 * (2 * a) + a = a * 5 by omega] at this
            exact this
          · rw [if_neg h5]
            obtain ⟨ry, ly, oy⟩ := setUint64_repr c hc
            exact mulG_repr z (go_SetUint64 c) a c hz oy ly rz ry

theorem butterfly_unfold (a b : L4) : go_butterfly a b = (addG a b, subG a b) := rfl

/-- **`_butterflyGeneric`**: `(a, b) ← (a + b, a − b)` modulo `r` (the old `a` is used for the difference) -/
theorem butterfly_spec (a b : L4) (ha : a.ok) (hb : b.ok) (har : a.val < R) (hbr : b.val < R) :
    go_butterfly a b = (addG a b, subG a b) ∧
      (addG a b).val = (a.val + b.val) % R ∧ (subG a b).val = (a.val + R - b.val) % R ∧
      (addG a b).ok ∧ (subG a b).ok ∧ (addG a b).val < R ∧ (subG a b).val < R := by
  obtain ⟨o1, e1, l1⟩ := C15.addG_correct a b ha hb har hbr
  obtain ⟨o2, e2, l2⟩ := C15.subG_correct a b ha hb har hbr
  exact ⟨butterfly_unfold a b, e1, e2, o1, o2, l1, l2⟩

end GoIpa.Tie.FrMulConst
