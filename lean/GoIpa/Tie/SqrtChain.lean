/-
  Tie T1 for the hand-crafted addition chain of `sqrtAlg_ComputeRelevantPowers`
  (`bandersnatch/fp/sqrt.go`): the chain, extracted as data on every run, raises `z` to
  `(Q−1)/2` (`acc`), `Q` (`rootOfUnity`) and `(Q+1)/2` (`squareRootCandidate`), where
  `p − 1 = Q·2^32`, in every commutative monoid.
-/
import Mathlib.Algebra.Group.Basic
import Mathlib.Algebra.Group.Defs
import Mathlib.Tactic.Ring
import GoIpa.Gen.Formulas
import GoIpa.Model.Sqrt
namespace GoIpa.Tie.SqrtChain
open GoIpa

abbrev Op := String × String × String × String × Nat

/-- environment: variable name ↦ value, later bindings first -/
def lookup {α : Type} (d : α) (env : List (String × α)) (x : String) : α :=
  match env.find? (·.1 == x) with
  | some e => e.2
  | none => d

/-- one step on exponents: squaring doubles, multiplying adds, `SquareEqNTimes` multiplies by `2^n` -/
def stepE (env : List (String × Nat)) (op : Op) : List (String × Nat) :=
  if op.1 == "sq" then (op.2.1, 2 * lookup 0 env op.2.2.1) :: env
  else if op.1 == "mul" then (op.2.1, lookup 0 env op.2.2.1 + lookup 0 env op.2.2.2.1) :: env
  else if op.1 == "sqn" then (op.2.1, 2 ^ op.2.2.2.2 * lookup 0 env op.2.1) :: env
  else env

section
variable {M : Type} [CommMonoid M]

def sqN (n : Nat) (x : M) : M := x ^ (2 ^ n)

/-- the same step on values -/
def stepM (env : List (String × M)) (op : Op) : List (String × M) :=
  if op.1 == "sq" then (op.2.1, lookup 1 env op.2.2.1 * lookup 1 env op.2.2.1) :: env
  else if op.1 == "mul" then (op.2.1, lookup 1 env op.2.2.1 * lookup 1 env op.2.2.2.1) :: env
  else if op.1 == "sqn" then (op.2.1, sqN op.2.2.2.2 (lookup 1 env op.2.1)) :: env
  else env

/-- values are `z` to the tracked exponents -/
def Agree (z : M) (envM : List (String × M)) (envE : List (String × Nat)) : Prop :=
  ∀ x, lookup 1 envM x = z ^ lookup 0 envE x

theorem lookup_cons {α : Type} (d : α) (env : List (String × α)) (k x : String) (v : α) :
    lookup d ((k, v) :: env) x = if k == x then v else lookup d env x := by
  unfold lookup
  simp only [List.find?_cons]
  by_cases h : (k == x) = true
  · simp [h]
  · simp [h]

theorem step_agree (z : M) (envM : List (String × M)) (envE : List (String × Nat)) (op : Op)
    (h : Agree z envM envE) : Agree z (stepM envM op) (stepE envE op) := by
  intro x
  unfold stepM stepE
  by_cases h1 : (op.1 == "sq") = true
  · simp only [h1, ↓reduceIte, lookup_cons]
    by_cases hx : (op.2.1 == x) = true
    · simp only [hx, ↓reduceIte, h op.2.2.1]; rw [← pow_add]; congr 1; omega
    · simp only [hx, Bool.false_eq_true, ↓reduceIte]; exact h x
  · by_cases h2 : (op.1 == "mul") = true
    · simp only [h1, h2, Bool.false_eq_true, ↓reduceIte, lookup_cons]
      by_cases hx : (op.2.1 == x) = true
      · simp only [hx, ↓reduceIte, h op.2.2.1, h op.2.2.2.1]; rw [← pow_add]
      · simp only [hx, Bool.false_eq_true, ↓reduceIte]; exact h x
    · by_cases h3 : (op.1 == "sqn") = true
      · simp only [h1, h2, h3, Bool.false_eq_true, ↓reduceIte, lookup_cons]
        by_cases hx : (op.2.1 == x) = true
        · simp only [hx, ↓reduceIte, sqN, h op.2.1]; rw [← pow_mul, Nat.mul_comm]
        · simp only [hx, Bool.false_eq_true, ↓reduceIte]; exact h x
      · simp only [h1, h2, h3, Bool.false_eq_true, ↓reduceIte]; exact h x

/-- **Soundness of the exponent bookkeeping**: running the chain on values gives `z` to the
exponents obtained by running it on exponents -/
theorem chain_agree (z : M) (chain : List Op) :
    Agree z (chain.foldl stepM [("z", z)]) (chain.foldl stepE [("z", 1)]) := by
  have base : Agree z [("z", z)] [("z", 1)] := by
    intro x
    rw [lookup_cons, lookup_cons]
    by_cases hx : ("z" == x) = true
    · simp [hx]
    · simp [hx, lookup]
  generalize ([("z", z)] : List (String × M)) = envM at *
  generalize ([("z", 1)] : List (String × Nat)) = envE at *
  induction chain generalizing envM envE with
  | nil => exact base
  | cons op chain ih => exact ih _ _ (step_agree z envM envE op base)
end

/-- the exponents the extracted chain ends with -/
def finalExps : List (String × Nat) := Gen.sqrtChain.foldl stepE [("z", 1)]

/-- **The addition chain of the current source computes the three powers the square-root
algorithm needs** (`Q` = the odd part of `p − 1`). -/
theorem chain_exponents :
    lookup 0 finalExps "acc" = (Qodd - 1) / 2 ∧ lookup 0 finalExps "rootOfUnity" = Qodd ∧
    lookup 0 finalExps "squareRootCandidate" = (Qodd + 1) / 2 := by decide +kernel

/-- the helper repeats a squaring `n` times -/
theorem helper_shape : Gen.sqrtChainHelper =
    "func(z *feType_SquareRoot, n int) { for i := 0; i < n; i++ { z.Square(z) } }" := by decide

end GoIpa.Tie.SqrtChain
