/-
  Tie T1 for the limb code: the definitions translated from `bandersnatch/fr/arith.go` and the
  `_xxxGeneric` functions of `element.go` (Gen/FrLimbs.lean, regenerated on every run) are equal,
  as functions, to the model `GoIpa.Limbs` on which the C15 limb theorems are stated — for the
  plain call, where the previous content of the destination is irrelevant, and for every way the
  destination may alias an operand.
-/
import GoIpa.Gen.FrLimbs
import GoIpa.Model.FrLimbs
namespace GoIpa.Tie.FrLimbs
open GoIpa GoIpa.Limbs

theorem madd0_eq (a b c : Nat) : Gen.madd0 a b c = madd0 a b c := rfl
theorem madd1_eq (a b c : Nat) : Gen.madd1 a b c = madd1 a b c := rfl
theorem madd2_eq (a b c d : Nat) : Gen.madd2 a b c d = madd2 a b c d := rfl
theorem madd3_eq (a b c d e : Nat) : Gen.madd3 a b c d e = madd3 a b c d e := rfl

/-! ### the conditional subtraction that ends every routine -/

theorem reduce_piece (z : L4) : Gen.reduceGeneric_i0 z = reduceG z := by
  unfold Gen.reduceGeneric_i0 reduceG
  by_cases h : ltQ z
  · have h' : ¬¬(z.l3 < 2088379214866112338 ∨ (z.l3 = 2088379214866112338 ∧ (z.l2 < 922804724659942912 ∨ (z.l2 = 922804724659942912 ∧ (z.l1 < 18415085837358793841 ∨ (z.l1 = 18415085837358793841 ∧ (z.l0 < 8429901452645165025))))))) :=
      fun hn => hn h
    simp only [h, h', ↓reduceIte]
  · have h' : ¬(z.l3 < 2088379214866112338 ∨ (z.l3 = 2088379214866112338 ∧ (z.l2 < 922804724659942912 ∨ (z.l2 = 922804724659942912 ∧ (z.l1 < 18415085837358793841 ∨ (z.l1 = 18415085837358793841 ∧ (z.l0 < 8429901452645165025))))))) := h
    simp only [h, h', ↓reduceIte]
    rfl

theorem reduceGeneric_eq (z : L4) : Gen.reduceGeneric z = reduceG z := reduce_piece z

/-- all routines end with the same text -/
theorem reduce_pieces_same :
    Gen.mulGeneric_i4 = Gen.reduceGeneric_i0 ∧ Gen.mulGeneric_zx_i4 = Gen.reduceGeneric_i0 ∧
    Gen.mulGeneric_zy_i4 = Gen.reduceGeneric_i0 ∧ Gen.mulGeneric_zxy_i4 = Gen.reduceGeneric_i0 ∧
    Gen.addGeneric_i0 = Gen.reduceGeneric_i0 ∧ Gen.addGeneric_zx_i0 = Gen.reduceGeneric_i0 ∧
    Gen.addGeneric_zy_i0 = Gen.reduceGeneric_i0 ∧ Gen.addGeneric_zxy_i0 = Gen.reduceGeneric_i0 ∧
    Gen.doubleGeneric_i0 = Gen.reduceGeneric_i0 ∧ Gen.doubleGeneric_zx_i0 = Gen.reduceGeneric_i0 ∧
    Gen.fromMontGeneric_i4 = Gen.reduceGeneric_i0 :=
  ⟨rfl, rfl, rfl, rfl, rfl, rfl, rfl, rfl, rfl, rfl, rfl⟩

/-! ### `_mulGeneric` -/

theorem mul_b0 (x y : L4) : Gen.mulGeneric_b0 x y = mulRound x.l0 y ⟨0, 0, 0, 0⟩ true := rfl
theorem mul_b1 (x y t : L4) : Gen.mulGeneric_b1 x y t = mulRound x.l1 y t false := rfl
theorem mul_b2 (x y t : L4) : Gen.mulGeneric_b2 x y t = mulRound x.l2 y t false := rfl
theorem mul_b3 (x y t : L4) : Gen.mulGeneric_b3 x y t = mulRound x.l3 y t false := rfl

/-- **`_mulGeneric` is the model's `mulG`**, whatever the destination held before -/
theorem mulGeneric_eq (z x y : L4) : Gen.mulGeneric z x y = mulG x y := by
  unfold Gen.mulGeneric mulG
  simp only [mul_b0, mul_b1, mul_b2, mul_b3, reduce_pieces_same.1, reduce_piece]

/-- aliasing: the rounds read their operands limb by limb before the destination limb is
written, so the blocks are literally the same functions -/
theorem mul_alias_pieces :
    (∀ z y, Gen.mulGeneric_zx_b0 z y = Gen.mulGeneric_b0 z y) ∧
    (∀ z y t, Gen.mulGeneric_zx_b1 z y t = Gen.mulGeneric_b1 z y t) ∧
    (∀ z y t, Gen.mulGeneric_zx_b2 z y t = Gen.mulGeneric_b2 z y t) ∧
    (∀ z y t, Gen.mulGeneric_zx_b3 z y t = Gen.mulGeneric_b3 z y t) ∧
    (∀ x z, Gen.mulGeneric_zy_b0 x z = Gen.mulGeneric_b0 x z) ∧
    (∀ x z t, Gen.mulGeneric_zy_b1 x z t = Gen.mulGeneric_b1 x z t) ∧
    (∀ x z t, Gen.mulGeneric_zy_b2 x z t = Gen.mulGeneric_b2 x z t) ∧
    (∀ x z t, Gen.mulGeneric_zy_b3 x z t = Gen.mulGeneric_b3 x z t) ∧
    (∀ z, Gen.mulGeneric_zxy_b0 z = Gen.mulGeneric_b0 z z) ∧
    (∀ z t, Gen.mulGeneric_zxy_b1 z t = Gen.mulGeneric_b1 z z t) ∧
    (∀ z t, Gen.mulGeneric_zxy_b2 z t = Gen.mulGeneric_b2 z z t) ∧
    (∀ z t, Gen.mulGeneric_zxy_b3 z t = Gen.mulGeneric_b3 z z t) :=
  ⟨fun _ _ => rfl, fun _ _ _ => rfl, fun _ _ _ => rfl, fun _ _ _ => rfl,
   fun _ _ => rfl, fun _ _ _ => rfl, fun _ _ _ => rfl, fun _ _ _ => rfl,
   fun _ => rfl, fun _ _ => rfl, fun _ _ => rfl, fun _ _ => rfl⟩

theorem mulGeneric_zx_eq (x y : L4) : Gen.mulGeneric_zx x y = mulG x y := by
  obtain ⟨a0, a1, a2, a3, _⟩ := mul_alias_pieces
  unfold Gen.mulGeneric_zx mulG
  simp only [a0, a1, a2, a3, mul_b0, mul_b1, mul_b2, mul_b3, reduce_pieces_same.2.1, reduce_piece]

theorem mulGeneric_zy_eq (y x : L4) : Gen.mulGeneric_zy y x = mulG x y := by
  obtain ⟨_, _, _, _, a0, a1, a2, a3, _⟩ := mul_alias_pieces
  unfold Gen.mulGeneric_zy mulG
  simp only [a0, a1, a2, a3, mul_b0, mul_b1, mul_b2, mul_b3, reduce_pieces_same.2.2.1, reduce_piece]

theorem mulGeneric_zxy_eq (x : L4) : Gen.mulGeneric_zxy x = mulG x x := by
  obtain ⟨_, _, _, _, _, _, _, _, a0, a1, a2, a3⟩ := mul_alias_pieces
  unfold Gen.mulGeneric_zxy mulG
  simp only [a0, a1, a2, a3, mul_b0, mul_b1, mul_b2, mul_b3, reduce_pieces_same.2.2.2.1, reduce_piece]

/-! ### `_fromMontGeneric` -/

theorem fm_b0 (z : L4) : Gen.fromMontGeneric_b0 z = fromMontRound z := rfl
theorem fm_blocks_same : Gen.fromMontGeneric_b1 = Gen.fromMontGeneric_b0 ∧
    Gen.fromMontGeneric_b2 = Gen.fromMontGeneric_b0 ∧ Gen.fromMontGeneric_b3 = Gen.fromMontGeneric_b0 :=
  ⟨rfl, rfl, rfl⟩

theorem fromMontGeneric_eq (z : L4) : Gen.fromMontGeneric z = fromMontG z := by
  unfold Gen.fromMontGeneric fromMontG
  simp only [fm_blocks_same.1, fm_blocks_same.2.1, fm_blocks_same.2.2, fm_b0, reduce_pieces_same.2.2.2.2.2.2.2.2.2.2,
    reduce_piece]

/-! ### `_addGeneric`, `_doubleGeneric` -/

theorem addGeneric_eq (z x y : L4) : Gen.addGeneric z x y = addG x y := by
  unfold Gen.addGeneric addG
  simp only [reduce_pieces_same.2.2.2.2.1, reduce_piece]

theorem addGeneric_zx_eq (x y : L4) : Gen.addGeneric_zx x y = addG x y := by
  unfold Gen.addGeneric_zx addG
  simp only [reduce_pieces_same.2.2.2.2.2.1, reduce_piece]

theorem addGeneric_zy_eq (y x : L4) : Gen.addGeneric_zy y x = addG x y := by
  unfold Gen.addGeneric_zy addG
  simp only [reduce_pieces_same.2.2.2.2.2.2.1, reduce_piece]

theorem addGeneric_zxy_eq (x : L4) : Gen.addGeneric_zxy x = addG x x := by
  unfold Gen.addGeneric_zxy addG
  simp only [reduce_pieces_same.2.2.2.2.2.2.2.1, reduce_piece]

theorem doubleGeneric_eq (z x : L4) : Gen.doubleGeneric z x = doubleG x := by
  unfold Gen.doubleGeneric doubleG addG
  simp only [reduce_pieces_same.2.2.2.2.2.2.2.2.1, reduce_piece]

theorem doubleGeneric_zx_eq (x : L4) : Gen.doubleGeneric_zx x = doubleG x := by
  unfold Gen.doubleGeneric_zx doubleG addG
  simp only [reduce_pieces_same.2.2.2.2.2.2.2.2.2.1, reduce_piece]

/-! ### `_subGeneric` -/

/-- the add-back of `q` when the subtraction borrowed -/
def addBack (b : Nat) (z : L4) : L4 :=
  if b ≠ 0 then
    let (a0, c) := add64 z.l0 q0 0
    let (a1, c) := add64 z.l1 q1 c
    let (a2, c) := add64 z.l2 q2 c
    let (a3, _) := add64 z.l3 q3 c
    ⟨a0, a1, a2, a3⟩
  else z

theorem sub_piece (b : Nat) (z : L4) : Gen.subGeneric_i0 b z = addBack b z := by
  unfold Gen.subGeneric_i0 addBack
  by_cases h : b ≠ 0
  · rw [if_pos h, if_pos h]; rfl
  · rw [if_neg h, if_neg h]

theorem sub_pieces_same : Gen.subGeneric_zx_i0 = Gen.subGeneric_i0 ∧ Gen.subGeneric_zy_i0 = Gen.subGeneric_i0 ∧
    Gen.subGeneric_zxy_i0 = Gen.subGeneric_i0 := ⟨rfl, rfl, rfl⟩

theorem subG_addBack (x y : L4) :
    subG x y = addBack (sub64 x.l3 y.l3 (sub64 x.l2 y.l2 (sub64 x.l1 y.l1 (sub64 x.l0 y.l0 0).2).2).2).2
      ⟨(sub64 x.l0 y.l0 0).1, (sub64 x.l1 y.l1 (sub64 x.l0 y.l0 0).2).1,
       (sub64 x.l2 y.l2 (sub64 x.l1 y.l1 (sub64 x.l0 y.l0 0).2).2).1,
       (sub64 x.l3 y.l3 (sub64 x.l2 y.l2 (sub64 x.l1 y.l1 (sub64 x.l0 y.l0 0).2).2).2).1⟩ := rfl

theorem subGeneric_eq (z x y : L4) : Gen.subGeneric z x y = subG x y := by
  rw [subG_addBack]; unfold Gen.subGeneric; simp only [sub_piece]

theorem subGeneric_zx_eq (x y : L4) : Gen.subGeneric_zx x y = subG x y := by
  rw [subG_addBack]; unfold Gen.subGeneric_zx; simp only [sub_pieces_same.1, sub_piece]

theorem subGeneric_zy_eq (y x : L4) : Gen.subGeneric_zy y x = subG x y := by
  rw [subG_addBack]; unfold Gen.subGeneric_zy; simp only [sub_pieces_same.2.1, sub_piece]

theorem subGeneric_zxy_eq (x : L4) : Gen.subGeneric_zxy x = subG x x := by
  rw [subG_addBack]; unfold Gen.subGeneric_zxy; simp only [sub_pieces_same.2.2, sub_piece]

/-! ### `_negGeneric` -/

theorem isZero_iff (x : L4) : ((((x.l3 ||| x.l2) ||| x.l1) ||| x.l0) = 0) ↔ (x.l0 = 0 ∧ x.l1 = 0 ∧ x.l2 = 0 ∧ x.l3 = 0) := by
  simp only [Nat.or_eq_zero_iff]
  constructor
  · rintro ⟨⟨⟨a, b⟩, c⟩, d⟩; exact ⟨d, c, b, a⟩
  · rintro ⟨d, c, b, a⟩; exact ⟨⟨⟨a, b⟩, c⟩, d⟩

theorem negGeneric_eq (z x : L4) : Gen.negGeneric z x = negG x := by
  unfold Gen.negGeneric negG
  by_cases h : x.l0 = 0 ∧ x.l1 = 0 ∧ x.l2 = 0 ∧ x.l3 = 0
  · have h' := (isZero_iff x).mpr h
    rw [if_pos h', if_pos h]
  · have h' : ¬((((x.l3 ||| x.l2) ||| x.l1) ||| x.l0) = 0) := fun hh => h ((isZero_iff x).mp hh)
    rw [if_neg h', if_neg h]
    rfl

theorem negGeneric_zx_eq (x : L4) : Gen.negGeneric_zx x = negG x := negGeneric_eq x x

end GoIpa.Tie.FrLimbs
