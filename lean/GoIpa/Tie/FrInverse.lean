/-
  Tie T1 for C15, `Inverse`: the limb arithmetic of `fr.Element.Inverse` (binary extended Euclid on
  Montgomery representations) translated piece by piece from the current source (`Gen/FrInverse.lean`:
  the halving-loop body, its condition, the comparison `bigger`, the subtract-and-correct branch, the
  exit test, the conditional `+= q`, the initial `u`, `s`).  Proved on the translated pieces, for all
  limb vectors: the 256-bit right shift `x[i]>>1 | x[i+1]<<63` halves the value (`shr_or`, `shrL_spec`),
  `+= q` adds the modulus modulo 2^256 (`addQL_spec`), the four-limb subtraction with its borrow
  (`subL_spec`), `invHalve_spec`, `invSub_spec` (= the model's `subMod`), `invEven_iff`, `invBigger_iff`,
  `invIsOne_iff`, `init_vals`; and the loop skeleton — which is unbounded in Go and pinned as text by
  `Tie.FrConsts.untranslated_bodies` — written over these pieces (`goHalve`, `goLoop`) computes the
  model's `FrInv.halve` / `FrInv.loop` on the 256-bit values (`goHalve_spec`, `goLoop_spec`,
  `inverse_pieces_spec`), the functions `Lemmas/InverseProof` proves correct (`inverseMont_spec`,
  `inverseValue_eq_inv : Inverse(a) = a⁻¹`).
-/
import GoIpa.Gen.FrInverse
import GoIpa.Model.FrInverse
import GoIpa.Tie.FrMisc
namespace GoIpa.Tie.FrInverse
open GoIpa GoIpa.Limbs GoIpa.Gen.FrInverse

theorem set0 (a b c d x : Nat) : Big.setLimb ⟨a, b, c, d⟩ (0 : Int) x = ⟨x, b, c, d⟩ := rfl
theorem set1 (a b c d x : Nat) : Big.setLimb ⟨a, b, c, d⟩ (1 : Int) x = ⟨a, x, c, d⟩ := rfl
theorem set2 (a b c d x : Nat) : Big.setLimb ⟨a, b, c, d⟩ (2 : Int) x = ⟨a, b, x, d⟩ := rfl
theorem set3 (a b c d x : Nat) : Big.setLimb ⟨a, b, c, d⟩ (3 : Int) x = ⟨a, b, c, x⟩ := rfl
theorem get0 (a b c d : Nat) : Big.limb ⟨a, b, c, d⟩ (0 : Int) = a := rfl
theorem get1 (a b c d : Nat) : Big.limb ⟨a, b, c, d⟩ (1 : Int) = b := rfl
theorem get2 (a b c d : Nat) : Big.limb ⟨a, b, c, d⟩ (2 : Int) = c := rfl
theorem get3 (a b c d : Nat) : Big.limb ⟨a, b, c, d⟩ (3 : Int) = d := rfl

theorem and_one (x : Nat) : x &&& 1 = x % 2 := by
  have e : (1 : Nat) = 2 ^ 1 - 1 := by decide
  rw [e, Nat.and_two_pow_sub_one_eq_mod]

/-- one limb of the 256-bit right shift: `a>>1 | b<<63` (64-bit wrap) -/
theorem shr_or (a b : Nat) (ha : a < W) : (a >>> 1) ||| ((b <<< 63) % W) = a / 2 + (b % 2) * 2 ^ 63 := by
  have h1 : a >>> 1 = a / 2 := by rw [Nat.shiftRight_eq_div_pow]
  have h2 : (b <<< 63) % W = (b % 2) <<< 63 := by
    rw [Nat.shiftLeft_eq, Nat.shiftLeft_eq]
    have : W = 2 * 2 ^ 63 := by decide
    rw [this, Nat.mul_mod_mul_right]
  have h3 : a / 2 < 2 ^ 63 := by unfold W at ha; omega
  rw [h1, h2, Nat.or_comm, ← Nat.shiftLeft_add_eq_or_of_lt h3, Nat.shiftLeft_eq]
  omega

theorem W256_eq : FrInv.W256 = W * W * W * W := by decide

/-- `v[0]&1 == 0` ⇔ the 256-bit value is even -/
theorem invEven_iff (v : L4) : go_invEven v = true ↔ v.val % 2 = 0 := by
  obtain ⟨v0, v1, v2, v3⟩ := v
  unfold go_invEven
  rw [decide_eq_true_eq, get0, and_one]
  unfold L4.val W
  simp only
  constructor <;> intro h <;> omega

/-- `(u[0] == 1) && (u[3]|u[2]|u[1]) == 0` ⇔ the value is 1 -/
theorem invIsOne_iff (u : L4) (hu : u.ok) : go_invIsOne u = true ↔ u.val = 1 := by
  obtain ⟨u0, u1, u2, u3⟩ := u
  unfold go_invIsOne
  rw [decide_eq_true_eq, get0, get1, get2, get3]
  simp only [Nat.or_eq_zero_iff]
  unfold L4.ok L4.val W at *
  simp only at *
  constructor
  · rintro ⟨h0, ⟨h3, h2⟩, h1⟩; subst h0 h1 h2 h3; rfl
  · intro h; omega

/-- `bigger` ⇔ `u ≤ v` as 256-bit values -/
theorem invBigger_iff (v u : L4) (hv : v.ok) (hu : u.ok) : go_invBigger v u = true ↔ u.val ≤ v.val := by
  obtain ⟨v0, v1, v2, v3⟩ := v
  obtain ⟨u0, u1, u2, u3⟩ := u
  unfold go_invBigger
  rw [decide_eq_true_eq]
  simp only [get0, get1, get2, get3]
  unfold L4.ok L4.val W at *
  simp only at *
  constructor <;> intro h <;> omega

/-- the 256-bit right shift by one, limb by limb -/
def shrL (a : L4) : L4 :=
  ⟨(a.l0 >>> 1) ||| ((a.l1 <<< 63) % W), (a.l1 >>> 1) ||| ((a.l2 <<< 63) % W), (a.l2 >>> 1) ||| ((a.l3 <<< 63) % W), a.l3 >>> 1⟩

/-- `s += q` on four limbs, the carry out of the top limb dropped -/
def addQL (s : L4) : L4 :=
  let p1 := add64 s.l0 8429901452645165025 0
  let p2 := add64 s.l1 18415085837358793841 p1.2
  let p3 := add64 s.l2 922804724659942912 p2.2
  let p4 := add64 s.l3 2088379214866112338 p3.2
  ⟨p1.1, p2.1, p3.1, p4.1⟩

theorem invIf1_eq (s : L4) : go_invIf1 s = addQL s := by
  obtain ⟨s0, s1, s2, s3⟩ := s
  rfl

theorem invHalve_unfold (v s : L4) :
    go_invHalve v s = (shrL v, shrL (if (s.l0 &&& 1) = 1 then addQL s else s)) := by
  have h : go_invHalve v s = (shrL v, shrL (if (s.l0 &&& 1) = 1 then go_invIf1 s else s)) := by
    obtain ⟨v0, v1, v2, v3⟩ := v
    obtain ⟨s0, s1, s2, s3⟩ := s
    rfl
  rw [h, invIf1_eq]

theorem shrL_spec (a : L4) (ha : a.ok) : (shrL a).ok ∧ (shrL a).val = a.val / 2 := by
  obtain ⟨a0, a1, a2, a3⟩ := a
  obtain ⟨h0, h1, h2, h3⟩ := ha
  simp only at h0 h1 h2 h3
  unfold shrL
  simp only
  rw [shr_or a0 a1 h0, shr_or a1 a2 h1, shr_or a2 a3 h2, Nat.shiftRight_eq_div_pow]
  unfold L4.ok L4.val W at *
  simp only
  refine ⟨⟨?_, ?_, ?_, ?_⟩, ?_⟩ <;> omega

theorem addQL_spec (s : L4) (hs : s.ok) : (addQL s).ok ∧ (addQL s).val = (s.val + R) % (W * W * W * W) := by
  obtain ⟨s0, s1, s2, s3⟩ := s
  obtain ⟨h0, h1, h2, h3⟩ := hs
  simp only at h0 h1 h2 h3
  unfold addQL add64 L4.ok L4.val R W at *
  simp only
  refine ⟨⟨?_, ?_, ?_, ?_⟩, ?_⟩ <;> omega

/-- **the body of the halving loops**: `v ← v/2`, `s ← (s odd ? (s + q) mod 2^256 : s)/2` -/
theorem invHalve_spec (v s : L4) (hv : v.ok) (hs : s.ok) :
    (go_invHalve v s).1.ok ∧ (go_invHalve v s).2.ok ∧ (go_invHalve v s).1.val = v.val / 2 ∧
      (go_invHalve v s).2.val = (if s.val % 2 = 1 then (s.val + R) % FrInv.W256 else s.val) / 2 := by
  rw [invHalve_unfold, W256_eq]
  obtain ⟨vo, vv⟩ := shrL_spec v hv
  have hpar : (s.l0 &&& 1) = 1 ↔ s.val % 2 = 1 := by
    rw [and_one]; unfold L4.val W; omega
  by_cases h : s.val % 2 = 1
  · have h' := hpar.2 h
    obtain ⟨ao, av⟩ := addQL_spec s hs
    obtain ⟨so, sv⟩ := shrL_spec (addQL s) ao
    simp only [h', h, if_true]
    exact ⟨vo, so, vv, by rw [sv, av]⟩
  · have h' : ¬ (s.l0 &&& 1) = 1 := fun e => h (hpar.1 e)
    obtain ⟨so, sv⟩ := shrL_spec s hs
    simp only [h', h, if_false]
    exact ⟨vo, so, vv, sv⟩

/-- `a -= b` on four limbs: the difference and the borrow out of the top limb -/
def subL (a b : L4) : L4 × Nat :=
  let p1 := sub64 a.l0 b.l0 0
  let p2 := sub64 a.l1 b.l1 p1.2
  let p3 := sub64 a.l2 b.l2 p2.2
  let p4 := sub64 a.l3 b.l3 p3.2
  (⟨p1.1, p2.1, p3.1, p4.1⟩, p4.2)

theorem invSub_unfold (v u s r : L4) :
    go_invSub v u s r = ((subL v u).1, if (subL s r).2 = 1 then addQL (subL s r).1 else (subL s r).1) := by
  have h : go_invSub v u s r = ((subL v u).1, if (subL s r).2 = 1 then go_invIf1 (subL s r).1 else (subL s r).1) := by
    obtain ⟨v0, v1, v2, v3⟩ := v
    obtain ⟨u0, u1, u2, u3⟩ := u
    obtain ⟨s0, s1, s2, s3⟩ := s
    obtain ⟨r0, r1, r2, r3⟩ := r
    rfl
  rw [h, invIf1_eq]

theorem subL_spec (a b : L4) (ha : a.ok) (hb : b.ok) :
    (subL a b).1.ok ∧ (subL a b).1.val = (a.val + W * W * W * W - b.val) % (W * W * W * W) ∧
      (subL a b).2 = if a.val < b.val then 1 else 0 := by
  obtain ⟨a0, a1, a2, a3⟩ := a
  obtain ⟨b0, b1, b2, b3⟩ := b
  obtain ⟨h0, h1, h2, h3⟩ := ha
  obtain ⟨g0, g1, g2, g3⟩ := hb
  simp only at h0 h1 h2 h3 g0 g1 g2 g3
  unfold subL sub64 L4.ok L4.val W at *
  simp only
  refine ⟨⟨?_, ?_, ?_, ?_⟩, ?_, ?_⟩
  all_goals (repeat' split) <;> omega

/-- **the subtract-and-correct branch**: `v ← v − u` (mod 2^256), `s ← s − r` corrected by `+q` when it
borrowed — the model's `subMod` -/
theorem invSub_spec (v u s r : L4) (hv : v.ok) (hu : u.ok) (hs : s.ok) (hr : r.ok) :
    (go_invSub v u s r).1.ok ∧ (go_invSub v u s r).2.ok ∧
      (go_invSub v u s r).1.val = (v.val + FrInv.W256 - u.val) % FrInv.W256 ∧
      (go_invSub v u s r).2.val = FrInv.subMod s.val r.val := by
  rw [invSub_unfold, W256_eq]
  obtain ⟨vo, vv, _⟩ := subL_spec v u hv hu
  obtain ⟨so, sv, sb⟩ := subL_spec s r hs hr
  unfold FrInv.subMod
  rw [W256_eq]
  by_cases h : s.val < r.val
  · rw [if_pos h] at sb
    obtain ⟨ao, av⟩ := addQL_spec (subL s r).1 so
    simp only [sb, if_true, h]
    exact ⟨vo, ao, vv, by rw [av, sv]⟩
  · rw [if_neg h] at sb
    simp only [sb, h, if_false, show ¬ ((0 : Nat) = 1) by decide]
    refine ⟨vo, so, vv, ?_⟩
    rw [sv]
    have hsl : s.val < W * W * W * W := by
      obtain ⟨a, b, c, d⟩ := hs
      unfold L4.val W at *; omega
    have : W * W * W * W = 115792089237316195423570985008687907853269984665640564039457584007913129639936 := by decide
    rw [this] at hsl ⊢
    omega

theorem init_vals : invInitU.val = R ∧ invInitS.val = FrInv.rSquare ∧ invInitU.ok ∧ invInitS.ok := by
  refine ⟨by decide +kernel, by decide +kernel, ?_, ?_⟩ <;> (unfold L4.ok; decide +kernel)

/-! ### the loop skeleton (pinned text: `Tie.FrConsts.untranslated_bodies`) over the translated pieces -/

/-- `for v[0]&1 == 0 { halve }`, cut off after `fuel` iterations -/
def goHalve : Nat → L4 → L4 → L4 × L4
  | 0, v, s => (v, s)
  | fuel + 1, v, s => if go_invEven v = true then goHalve fuel (go_invHalve v s).1 (go_invHalve v s).2 else (v, s)

theorem goHalve_spec : ∀ (fuel : Nat) (v s : L4), v.ok → s.ok →
    (goHalve fuel v s).1.ok ∧ (goHalve fuel v s).2.ok ∧
      ((goHalve fuel v s).1.val, (goHalve fuel v s).2.val) = FrInv.halve fuel v.val s.val := by
  intro fuel
  induction fuel with
  | zero => intro v s hv hs; exact ⟨hv, hs, rfl⟩
  | succ fuel ih =>
    intro v s hv hs
    unfold goHalve FrInv.halve
    by_cases he : v.val % 2 = 0
    · have he' : go_invEven v = true := (invEven_iff v).2 he
      obtain ⟨o1, o2, e1, e2⟩ := invHalve_spec v s hv hs
      rw [if_pos he', if_pos he]
      obtain ⟨r1, r2, r3⟩ := ih _ _ o1 o2
      refine ⟨r1, r2, ?_⟩
      rw [r3, e1, e2]
    · have he' : ¬ go_invEven v = true := fun h => he ((invEven_iff v).1 h)
      rw [if_neg he', if_neg he]
      exact ⟨hv, hs, rfl⟩

/-- the outer loop over the pieces: halve both pairs, subtract the smaller from the larger, leave when `u` or `v`
is one — `fuel` outer iterations, 256 halvings each (a 256-bit value has at most 256 trailing zeros) -/
def goLoop : Nat → L4 → L4 → L4 → L4 → L4
  | 0, _, _, _, _ => ⟨0, 0, 0, 0⟩
  | fuel + 1, u, v, r, s =>
    let vs := goHalve 256 v s
    let ur := goHalve 256 u r
    let v := vs.1
    let s := vs.2
    let u := ur.1
    let r := ur.2
    if go_invBigger v u = true then
      let v' := (go_invSub v u s r).1
      let s' := (go_invSub v u s r).2
      if go_invIsOne u = true then r else if go_invIsOne v' = true then s' else goLoop fuel u v' r s'
    else
      let u' := (go_invSub u v r s).1
      let r' := (go_invSub u v r s).2
      if go_invIsOne u' = true then r' else if go_invIsOne v = true then s else goLoop fuel u' v r' s

/-- **the loop over the translated pieces computes the model's `FrInv.loop`** (the function
`InverseProof.inverseMont_spec` / `inverseValue_eq_inv` are about), on the 256-bit values -/
theorem goLoop_spec : ∀ (fuel : Nat) (u v r s : L4), u.ok → v.ok → r.ok → s.ok →
    (goLoop fuel u v r s).ok ∧ (goLoop fuel u v r s).val = FrInv.loop fuel u.val v.val r.val s.val := by
  intro fuel
  induction fuel with
  | zero =>
    intro u v r s _ _ _ _
    refine ⟨?_, rfl⟩
    unfold goLoop L4.ok; decide
  | succ fuel ih =>
    intro u v r s hu hv hr hs
    unfold goLoop FrInv.loop
    obtain ⟨vo, so, evs⟩ := goHalve_spec 256 v s hv hs
    obtain ⟨uo, ro, eur⟩ := goHalve_spec 256 u r hu hr
    simp only
    rw [← evs, ← eur]
    simp only
    generalize (goHalve 256 v s).1 = v1 at *
    generalize (goHalve 256 v s).2 = s1 at *
    generalize (goHalve 256 u r).1 = u1 at *
    generalize (goHalve 256 u r).2 = r1 at *
    by_cases hb : u1.val ≤ v1.val
    · have hb' : go_invBigger v1 u1 = true := (invBigger_iff v1 u1 vo uo).2 hb
      obtain ⟨o1, o2, e1, e2⟩ := invSub_spec v1 u1 s1 r1 vo uo so ro
      rw [if_pos hb', if_pos (show v1.val ≥ u1.val from hb)]
      by_cases h1 : u1.val = 1
      · rw [if_pos ((invIsOne_iff u1 uo).2 h1), if_pos h1]
        exact ⟨ro, rfl⟩
      · have h1' : ¬ go_invIsOne u1 = true := fun h => h1 ((invIsOne_iff u1 uo).1 h)
        rw [if_neg h1', if_neg h1, ← e1, ← e2]
        by_cases h2 : (go_invSub v1 u1 s1 r1).1.val = 1
        · rw [if_pos ((invIsOne_iff _ o1).2 h2), if_pos h2]
          exact ⟨o2, rfl⟩
        · have h2' : ¬ go_invIsOne (go_invSub v1 u1 s1 r1).1 = true := fun h => h2 ((invIsOne_iff _ o1).1 h)
          rw [if_neg h2', if_neg h2]
          exact ih _ _ _ _ uo o1 ro o2
    · have hb' : ¬ go_invBigger v1 u1 = true := fun h => hb ((invBigger_iff v1 u1 vo uo).1 h)
      obtain ⟨o1, o2, e1, e2⟩ := invSub_spec u1 v1 r1 s1 uo vo ro so
      rw [if_neg hb', if_neg (show ¬ v1.val ≥ u1.val from hb), ← e1, ← e2]
      by_cases h1 : (go_invSub u1 v1 r1 s1).1.val = 1
      · rw [if_pos ((invIsOne_iff _ o1).2 h1), if_pos h1]
        exact ⟨o2, rfl⟩
      · have h1' : ¬ go_invIsOne (go_invSub u1 v1 r1 s1).1 = true := fun h => h1 ((invIsOne_iff _ o1).1 h)
        rw [if_neg h1', if_neg h1]
        by_cases h2 : v1.val = 1
        · rw [if_pos ((invIsOne_iff v1 vo).2 h2), if_pos h2]
          exact ⟨so, rfl⟩
        · have h2' : ¬ go_invIsOne v1 = true := fun h => h2 ((invIsOne_iff v1 vo).1 h)
          rw [if_neg h2', if_neg h2]
          exact ih _ _ _ _ o1 vo o2 so

/-- **`Inverse` on a non-zero operand**: from `u = q`, `v = x`, `r = 0`, `s = 2^512 mod q` the loop over the
translated pieces returns limbs whose 256-bit value is the model's `FrInv.inverseMont x` — of which
`InverseProof.inverseMont_spec` shows `· x ≡ 2^512 (mod r)`, i.e. the Montgomery form of the inverse, and
`inverseValue_eq_inv` that `Inverse(a) = a⁻¹`. -/
theorem inverse_pieces_spec (x : L4) (hx : x.ok) (h0 : x.val ≠ 0) :
    (goLoop (R + x.val) invInitU x ⟨0, 0, 0, 0⟩ invInitS).ok ∧
      (goLoop (R + x.val) invInitU x ⟨0, 0, 0, 0⟩ invInitS).val = FrInv.inverseMont x.val := by
  obtain ⟨hu, hs, ou, os⟩ := init_vals
  have oz : (⟨0, 0, 0, 0⟩ : L4).ok := by unfold L4.ok; decide
  obtain ⟨ok, e⟩ := goLoop_spec (R + x.val) invInitU x ⟨0, 0, 0, 0⟩ invInitS ou hx oz os
  refine ⟨ok, ?_⟩
  unfold FrInv.inverseMont
  rw [if_neg h0, e, hu, hs]
  rfl

end GoIpa.Tie.FrInverse
