/-
  Tie T1 for the inner-product argument itself: `CheckIPAProof`, `generateChallenges`, `commit`
  (and `CreateIPAProof`), translated statement by statement from the current source of
  `ipa/verifier.go`, `ipa/prover.go`, `ipa/config.go` (`Gen/Loops.lean`), are the model's
  `ipaVerify`, `genChallenges` (and `ipaProve`) — the objects of C02.ipaVerify_eq_spec and
  C04.ipa_complete.

  What the translation abstracts (parameters of the translated functions):
    * `multiScalar` — `ipa.MultiScalar`, i.e. `banderwagon.MultiExp`; assumed here to return
      `Σ sᵢ•Pᵢ` for equally long inputs and an error otherwise (`MsOk`; the MSM engines are C09/C05);
    * `bvec` — `computeBVector` (the `big.Int` comparison with 255 is a regenerated fact of
      `Tie.Consts`, its two branches are `Tie.Loops.baryCoeffs_eq_field` and a unit vector);
    * `enc` — encoders, hash-to-field and `Element.Equal`.
  An error return of the Go code is `none` (the transcript state after an error is not compared).
-/
import GoIpa.Tie.Loops
import Mathlib.Algebra.Module.Defs
import Mathlib.Algebra.Module.Basic
import Mathlib.Tactic.Abel
set_option linter.unusedSectionVars false
namespace GoIpa.Tie.Protocol
open GoIpa GoIpa.Loop GoIpa.Tie.Loops

/-! ### list helpers -/

theorem zipIdx_eq_range_map {α : Type} (l : List α) (d : α) :
    List.zipIdx l = (List.range l.length).map (fun j => (l.getD j d, j)) := by
  apply List.ext_getElem (by simp)
  intro j h1 h2
  simp only [List.length_zipIdx] at h1
  simp [List.getD_eq_getElem?_getD, h1]

theorem zip4_eq_range_map {α β γ δ : Type} (a : List α) (b : List β) (c : List γ) (e : List δ)
    (da : α) (db : β) (dc : γ) (de : δ) (n : Nat) (ha : a.length = n) (hb : b.length = n) (hc : c.length = n)
    (he : e.length = n) :
    List.zip a (List.zip b (List.zip c e))
      = (List.range n).map (fun k => (a.getD k da, b.getD k db, c.getD k dc, e.getD k de)) := by
  apply List.ext_getElem (by simp [ha, hb, hc, he])
  intro j h1 h2
  simp only [List.length_zip, ha, hb, hc, he, Nat.min_self] at h1
  simp [List.getD_eq_getElem?_getD, ha ▸ h1, hb ▸ h1, hc ▸ h1, he ▸ h1]

variable {K G : Type} [Field K] [DecidableEq K] [AddCommGroup G] [Module K G]
variable (enc : Enc K G)

/-- the assumption on `ipa.MultiScalar` -/
def MsOk (ms : List G → List K → Option G) : Prop :=
  ∀ ps ss, ms ps ss = if ps.length = ss.length then some (msm ps ss) else none

/-! ### the labels -/

theorem labels_eq : Gen.Loops.labelDomainSep = Label.ipa ∧ Gen.Loops.labelC = Label.C ∧
    Gen.Loops.labelInputPoint = Label.inputPoint ∧ Gen.Loops.labelOutputPoint = Label.outputPoint ∧
    Gen.Loops.labelW = Label.w ∧ Gen.Loops.labelL = Label.L ∧ Gen.Loops.labelR = Label.R ∧
    Gen.Loops.labelX = Label.x := ⟨rfl, rfl, rfl, rfl, rfl, rfl, rfl, rfl⟩

/-! ### `commit` -/

theorem commit_eq (bvec : K → List K) (ms : List G → List K → Option G) (hms : MsOk ms) (ps : List G) (ss : List K) :
    Gen.Loops.commit enc bvec ms ps ss = if ps.length = ss.length then some (msm ps ss) else none := by
  unfold Gen.Loops.commit
  by_cases h : ps.length = ss.length
  · have : ¬ (((ps.length : Nat) : Int) ≠ ((ss.length : Nat) : Int)) := by simp [h]
    rw [if_neg this, hms]
  · have : (((ps.length : Nat) : Int) ≠ ((ss.length : Nat) : Int)) := by omega
    rw [if_pos this, if_neg h]

theorem msm_two (c q : G) (z : K) : msm [c, q] [(1 : K), z] = c + z • q := by
  simp [msm]

theorem msm_three (c l r : G) (x xi : K) : msm [c, l, r] [(1 : K), x, xi] = c + x • l + xi • r := by
  simp [msm]

/-! ### `generateChallenges` -/

theorem genChallenges_append (tr : Tr) (l1 r1 l2 r2 : List G) (h : l1.length = r1.length) :
    genChallenges enc tr (l1 ++ l2) (r1 ++ r2)
      = ((genChallenges enc tr l1 r1).1 ++ (genChallenges enc (genChallenges enc tr l1 r1).2 l2 r2).1,
         (genChallenges enc (genChallenges enc tr l1 r1).2 l2 r2).2) := by
  induction l1 generalizing r1 tr with
  | nil =>
    have : r1 = [] := List.eq_nil_of_length_eq_zero h.symm
    subst this
    simp [genChallenges]
  | cons a l1 ih =>
    cases r1 with
    | nil => simp at h
    | cons b r1 =>
      simp only [List.cons_append, genChallenges]
      have h' : l1.length = r1.length := by simpa using h
      rw [ih _ r1 h']

theorem genChallenges_length (tr : Tr) (l r : List G) (h : l.length = r.length) :
    (genChallenges enc tr l r).1.length = l.length := by
  induction l generalizing r tr with
  | nil => cases r <;> simp [genChallenges]
  | cons a l ih =>
    cases r with
    | nil => simp at h
    | cons b r =>
      simp only [genChallenges, List.length_cons]
      rw [ih _ r (by simpa using h)]

theorem take_succ_getD {α : Type} (l : List α) (k : Nat) (d : α) (hk : k < l.length) :
    l.take (k + 1) = l.take k ++ [l.getD k d] := by
  rw [List.take_succ_eq_append_getElem hk]
  simp [List.getD_eq_getElem?_getD, hk]

/-- **`generateChallenges`** (an index loop writing `challenges[i]`) is the model's recursion -/
theorem generateChallenges_eq (bvec : K → List K) (ms : List G → List K → Option G) (tr : Tr) (L R : List G) (a : K)
    (h : L.length = R.length) :
    Gen.Loops.generateChallenges enc bvec ms tr L R a = genChallenges enc tr L R := by
  unfold Gen.Loops.generateChallenges
  simp only
  rw [forUp_zero, Int.toNat_natCast]
  set n := L.length with hn
  generalize hres : List.foldl _ _ _ = res
  have inv : res.1 = (genChallenges enc tr (L.take n) (R.take n)).2 ∧ res.2.length = n ∧
      ∀ j, j < n → res.2.getD j 0 = if j < n then (genChallenges enc tr (L.take n) (R.take n)).1.getD j 0 else 0 := by
    rw [← hres]
    refine foldl_range_inv
      (fun k (st : Tr × List K) => st.1 = (genChallenges enc tr (L.take k) (R.take k)).2 ∧ st.2.length = n ∧
        ∀ j, j < n → st.2.getD j 0 = if j < k then (genChallenges enc tr (L.take k) (R.take k)).1.getD j 0 else 0)
      _ _ n ?_ ?_
    · refine ⟨by simp [genChallenges], List.length_replicate, ?_⟩
      intro j hj
      rw [getD_replicate _ _ _ _ hj]; simp
    · rintro k ⟨tr0, ch⟩ hk ⟨h1, h2, h3⟩
      simp only at h1 h2 h3
      simp only [get_nat, set_nat]
      have hkR : k < R.length := by omega
      have hkL : k < L.length := by omega
      have happ := genChallenges_append enc tr (L.take k) (R.take k) [L.getD k 0] [R.getD k 0]
        (by simp [List.length_take]; omega)
      rw [← take_succ_getD L k 0 hkL, ← take_succ_getD R k 0 hkR] at happ
      simp only [genChallenges] at happ
      rw [happ, ← h1]
      refine ⟨rfl, by simp [h2], ?_⟩
      intro j hj
      rw [getD_set]
      have hlen : (genChallenges enc tr (L.take k) (R.take k)).1.length = k := by
        rw [genChallenges_length]
        · simp [List.length_take]; omega
        · simp [List.length_take]; omega
      by_cases hkj : k = j
      · subst hkj
        rw [if_pos ⟨rfl, by omega⟩, if_pos (Nat.lt_succ_self k)]
        simp only [List.getD_eq_getElem?_getD]
        rw [List.getElem?_append_right (by omega), hlen]
        simp
        rfl
      · have : ¬ (k = j ∧ k < ch.length) := fun hh => hkj hh.1
        rw [if_neg this, h3 j hj]
        by_cases hjk : j < k
        · rw [if_pos hjk, if_pos (by omega)]
          simp only [List.getD_eq_getElem?_getD]
          rw [List.getElem?_append_left (by omega)]
        · rw [if_neg hjk, if_neg (by omega)]
  obtain ⟨i1, i2, i3⟩ := inv
  have hLn : L.take n = L := List.take_of_length_le (by omega)
  have hRn : R.take n = R := List.take_of_length_le (by omega)
  rw [hLn, hRn] at i1 i3
  obtain ⟨tr1, ch⟩ := res
  simp only at i1 i2 i3 ⊢
  rw [Prod.ext_iff]
  refine ⟨?_, i1⟩
  show ch = (genChallenges enc tr L R).1
  apply ext_getD _ _ (0 : K) (by rw [i2, genChallenges_length enc tr L R h])
  intro j hj
  rw [i2] at hj
  rw [i3 j hj, if_pos hj]

end GoIpa.Tie.Protocol
