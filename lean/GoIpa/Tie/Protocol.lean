/-
  Tie T1 for the inner-product argument itself: `CheckIPAProof`, `generateChallenges`, `commit`
  (and `CreateIPAProof`), translated statement by statement from the current source of
  `ipa/verifier.go`, `ipa/prover.go`, `ipa/config.go` (`Gen/Loops.lean`), are the model's
  `ipaVerify`, `genChallenges` (and `ipaProve`) — the objects of C02.ipaVerify_eq_spec and
  C04.ipa_complete.

  What the translation abstracts (parameters of the translated functions):
    * `multiScalar` — `ipa.MultiScalar`, i.e. `banderwagon.MultiExp`; assumed here to return
      `Σ sᵢ•Pᵢ` for equally long inputs and an error otherwise (`MsOk`; the MSM engines are C09/C05);
    * `bvec` — `computeBVector` (the `big.Int` comparison with 255 is a regenerated fact of
      `Tie.Consts`, its two branches are `Tie.Loops.baryCoeffs_eq_field` and a unit vector);
    * `enc` — encoders, hash-to-field and `Element.Equal`.
  An error return of the Go code is `none` (the transcript state after an error is not compared).
-/
import GoIpa.Tie.Loops
import GoIpa.Model.Multiproof
import GoIpa.Props.C02Mp
import Mathlib.Algebra.Module.Defs
import Mathlib.Algebra.Module.Basic
import Mathlib.Tactic.Abel
set_option linter.unusedSectionVars false
namespace GoIpa.Tie.Protocol
open GoIpa GoIpa.Loop GoIpa.Tie.Loops

/-! ### list helpers -/

theorem zipIdx_eq_range_map {α : Type} (l : List α) (d : α) :
    List.zipIdx l = (List.range l.length).map (fun j => (l.getD j d, j)) := by
  apply List.ext_getElem (by simp)
  intro j h1 h2
  simp only [List.length_zipIdx] at h1
  simp [List.getD_eq_getElem?_getD, h1]

theorem zip4_eq_range_map {α β γ δ : Type} (a : List α) (b : List β) (c : List γ) (e : List δ)
    (da : α) (db : β) (dc : γ) (de : δ) (n : Nat) (ha : a.length = n) (hb : b.length = n) (hc : c.length = n)
    (he : e.length = n) :
    List.zip a (List.zip b (List.zip c e))
      = (List.range n).map (fun k => (a.getD k da, b.getD k db, c.getD k dc, e.getD k de)) := by
  apply List.ext_getElem (by simp [ha, hb, hc, he])
  intro j h1 h2
  simp only [List.length_zip, ha, hb, hc, he, Nat.min_self] at h1
  simp [List.getD_eq_getElem?_getD, ha ▸ h1, hb ▸ h1, hc ▸ h1, he ▸ h1]

variable {K G : Type} [Field K] [DecidableEq K] [AddCommGroup G] [Module K G]
variable (enc : Enc K G)

/-- the assumption on `ipa.MultiScalar` -/
def MsOk (ms : List G → List K → Option G) : Prop :=
  ∀ ps ss, ms ps ss = if ps.length = ss.length then some (msm ps ss) else none

/-! ### the labels -/

theorem labels_eq : Gen.Loops.labelDomainSep = Label.ipa ∧ Gen.Loops.labelC = Label.C ∧
    Gen.Loops.labelInputPoint = Label.inputPoint ∧ Gen.Loops.labelOutputPoint = Label.outputPoint ∧
    Gen.Loops.labelW = Label.w ∧ Gen.Loops.labelL = Label.L ∧ Gen.Loops.labelR = Label.R ∧
    Gen.Loops.labelX = Label.x := ⟨rfl, rfl, rfl, rfl, rfl, rfl, rfl, rfl⟩

/-! ### `commit` -/

theorem commit_eq (bvec : K → List K) (ms : List G → List K → Option G) (hms : MsOk ms) (ps : List G) (ss : List K) :
    Gen.Loops.commit enc bvec ms ps ss = if ps.length = ss.length then some (msm ps ss) else none := by
  unfold Gen.Loops.commit
  by_cases h : ps.length = ss.length
  · have : ¬ (((ps.length : Nat) : Int) ≠ ((ss.length : Nat) : Int)) := by simp [h]
    rw [if_neg this, hms]
  · have : (((ps.length : Nat) : Int) ≠ ((ss.length : Nat) : Int)) := by omega
    rw [if_pos this, if_neg h]

theorem msm_two (c q : G) (z : K) : msm [c, q] [(1 : K), z] = c + z • q := by
  simp [msm]

theorem msm_three (c l r : G) (x xi : K) : msm [c, l, r] [(1 : K), x, xi] = c + x • l + xi • r := by
  simp [msm]

/-! ### `generateChallenges` -/

theorem genChallenges_append (tr : Tr) (l1 r1 l2 r2 : List G) (h : l1.length = r1.length) :
    genChallenges enc tr (l1 ++ l2) (r1 ++ r2)
      = ((genChallenges enc tr l1 r1).1 ++ (genChallenges enc (genChallenges enc tr l1 r1).2 l2 r2).1,
         (genChallenges enc (genChallenges enc tr l1 r1).2 l2 r2).2) := by
  induction l1 generalizing r1 tr with
  | nil =>
    have : r1 = [] := List.eq_nil_of_length_eq_zero h.symm
    subst this
    simp [genChallenges]
  | cons a l1 ih =>
    cases r1 with
    | nil => simp at h
    | cons b r1 =>
      simp only [List.cons_append, genChallenges]
      have h' : l1.length = r1.length := by simpa using h
      rw [ih _ r1 h']

theorem genChallenges_length (tr : Tr) (l r : List G) (h : l.length = r.length) :
    (genChallenges enc tr l r).1.length = l.length := by
  induction l generalizing r tr with
  | nil => cases r <;> simp [genChallenges]
  | cons a l ih =>
    cases r with
    | nil => simp at h
    | cons b r =>
      simp only [genChallenges, List.length_cons]
      rw [ih _ r (by simpa using h)]

theorem take_succ_getD {α : Type} (l : List α) (k : Nat) (d : α) (hk : k < l.length) :
    l.take (k + 1) = l.take k ++ [l.getD k d] := by
  rw [List.take_succ_eq_append_getElem hk]
  simp [List.getD_eq_getElem?_getD, hk]

/-- **`generateChallenges`** (an index loop writing `challenges[i]`) is the model's recursion -/
theorem generateChallenges_eq (bvec : K → List K) (ms : List G → List K → Option G) (tr : Tr) (L R : List G) (a : K)
    (h : L.length = R.length) :
    Gen.Loops.generateChallenges enc bvec ms tr L R a = genChallenges enc tr L R := by
  unfold Gen.Loops.generateChallenges
  simp only
  rw [forUp_zero, Int.toNat_natCast]
  set n := L.length with hn
  generalize hres : List.foldl _ _ _ = res
  have inv : res.1 = (genChallenges enc tr (L.take n) (R.take n)).2 ∧ res.2.length = n ∧
      ∀ j, j < n → res.2.getD j 0 = if j < n then (genChallenges enc tr (L.take n) (R.take n)).1.getD j 0 else 0 := by
    rw [← hres]
    refine foldl_range_inv
      (fun k (st : Tr × List K) => st.1 = (genChallenges enc tr (L.take k) (R.take k)).2 ∧ st.2.length = n ∧
        ∀ j, j < n → st.2.getD j 0 = if j < k then (genChallenges enc tr (L.take k) (R.take k)).1.getD j 0 else 0)
      _ _ n ?_ ?_
    · refine ⟨by simp [genChallenges], List.length_replicate, ?_⟩
      intro j hj
      rw [getD_replicate _ _ _ _ hj]; simp
    · rintro k ⟨tr0, ch⟩ hk ⟨h1, h2, h3⟩
      simp only at h1 h2 h3
      simp only [get_nat, set_nat]
      have hkR : k < R.length := by omega
      have hkL : k < L.length := by omega
      have happ := genChallenges_append enc tr (L.take k) (R.take k) [L.getD k 0] [R.getD k 0]
        (by simp [List.length_take]; omega)
      rw [← take_succ_getD L k 0 hkL, ← take_succ_getD R k 0 hkR] at happ
      simp only [genChallenges] at happ
      rw [happ, ← h1]
      refine ⟨rfl, by simp [h2], ?_⟩
      intro j hj
      rw [getD_set]
      have hlen : (genChallenges enc tr (L.take k) (R.take k)).1.length = k := by
        rw [genChallenges_length]
        · simp [List.length_take]; omega
        · simp [List.length_take]; omega
      by_cases hkj : k = j
      · subst hkj
        rw [if_pos ⟨rfl, by omega⟩, if_pos (Nat.lt_succ_self k)]
        simp only [List.getD_eq_getElem?_getD]
        rw [List.getElem?_append_right (by omega), hlen]
        simp
        rfl
      · have : ¬ (k = j ∧ k < ch.length) := fun hh => hkj hh.1
        rw [if_neg this, h3 j hj]
        by_cases hjk : j < k
        · rw [if_pos hjk, if_pos (by omega)]
          simp only [List.getD_eq_getElem?_getD]
          rw [List.getElem?_append_left (by omega)]
        · rw [if_neg hjk, if_neg (by omega)]
  obtain ⟨i1, i2, i3⟩ := inv
  have hLn : L.take n = L := List.take_of_length_le (by omega)
  have hRn : R.take n = R := List.take_of_length_le (by omega)
  rw [hLn, hRn] at i1 i3
  obtain ⟨tr1, ch⟩ := res
  simp only at i1 i2 i3 ⊢
  rw [Prod.ext_iff]
  refine ⟨?_, i1⟩
  show ch = (genChallenges enc tr L R).1
  apply ext_getD _ _ (0 : K) (by rw [i2, genChallenges_length enc tr L R h])
  intro j hj
  rw [i2] at hj
  rw [i3 j hj, if_pos hj]

/-! ### `CheckIPAProof` -/

theorem forUpOpt_some {σ : Type} (lo hi : Int) (st : σ) (body : Int → σ → Option σ) (f : Int → σ → σ)
    (h : ∀ i s, body i s = some (f i s)) : Loop.forUpOpt lo hi st body = some (Loop.forUp lo hi st f) := by
  unfold Loop.forUpOpt Loop.forUp
  generalize (List.range (hi - lo).toNat) = l
  induction l generalizing st with
  | nil => rfl
  | cons k l ih =>
    rw [List.foldl_cons, List.foldl_cons]
    show List.foldl _ (body (lo + (k : Int)) st) l = _
    rw [h]
    exact ih _

theorem bit_test (i j : Nat) (hj : j < 8) :
    (Loop.band (i : Int) (Loop.shl 1 (7 - (j : Int))) > 0) ↔ (i &&& (1 <<< (8 - 1 - j)) > 0) := by
  unfold Loop.band Loop.shl
  have e : (7 - (j : Int)).toNat = 8 - 1 - j := by omega
  simp only [Int.toNat_natCast, e, Int.toNat_one]
  omega

/-- the result of the translated verifier that corresponds to a result of the model -/
def ofModel (r : Except VErr Bool × Tr) : Option (Bool × Tr) :=
  match r.1 with
  | .ok b => some (b, r.2)
  | .error _ => none

/-- **`CheckIPAProof`, translated from the source, is the model's `ipaVerify`** (for the 8-round
configuration the code hard-wires in its bit test `1 << (7 − j)`): same decision, same transcript,
an error return exactly where the model reports one. -/
theorem checkIPAProof_eq (cfg : IpaCfg K G) (ms : List G → List K → Option G) (hms : MsOk ms)
    (hr : cfg.rounds = 8) (tr : Tr) (C : G) (proof : IpaProof K G) (z y : K)
    (hb : (bVector cfg z).length = cfg.srs.length) :
    Gen.Loops.checkIPAProof enc (bVector cfg) ms tr cfg.Q cfg.srs (cfg.rounds : Int) C proof.L proof.R proof.a z y
      = ofModel (ipaVerify enc cfg tr C proof z y) := by
  unfold Gen.Loops.checkIPAProof ipaVerify ofModel
  simp only
  by_cases h1 : proof.L.length = proof.R.length
  swap
  · have t1 : (((proof.L.length : Nat) : Int) ≠ ((proof.R.length : Nat) : Int)) := by omega
    have m1 : proof.L.length ≠ proof.R.length := h1
    simp only [t1, m1, ne_eq, not_false_eq_true, ↓reduceIte]
  have h1' : ¬ (((proof.L.length : Nat) : Int) ≠ ((proof.R.length : Nat) : Int)) := by omega
  have m1 : ¬ (proof.L.length ≠ proof.R.length) := by simpa using h1
  by_cases h2 : proof.L.length = cfg.rounds
  swap
  · have t2 : (((proof.L.length : Nat) : Int) ≠ ((cfg.rounds : Nat) : Int)) := by omega
    have m2 : proof.L.length ≠ cfg.rounds := h2
    rw [if_neg h1', if_pos t2, if_neg m1, if_pos m2]
  have h2' : ¬ (((proof.L.length : Nat) : Int) ≠ ((cfg.rounds : Nat) : Int)) := by omega
  have m2 : ¬ (proof.L.length ≠ cfg.rounds) := by simpa using h2
  rw [if_neg h1', if_neg h2', if_neg m1, if_neg m2]
  -- the transcript prefix
  rw [show Gen.Loops.labelDomainSep = Label.ipa from rfl, show Gen.Loops.labelC = Label.C from rfl,
    show Gen.Loops.labelInputPoint = Label.inputPoint from rfl, show Gen.Loops.labelOutputPoint = Label.outputPoint from rfl,
    show Gen.Loops.labelW = Label.w from rfl]
  generalize (((tr.domainSep Label.ipa).appendPoint enc C Label.C).appendScalar enc z Label.inputPoint).appendScalar enc y
    Label.outputPoint = tr1
  generalize Tr.challenge enc tr1 Label.w = wc
  obtain ⟨w, tr2⟩ := wc
  simp only
  rw [generateChallenges_eq enc _ _ tr2 proof.L proof.R proof.a h1, batchInvert_eq]
  generalize hgc : genChallenges enc tr2 proof.L proof.R = gc
  have hxl : gc.1.length = proof.L.length := by rw [← hgc]; exact genChallenges_length enc tr2 _ _ h1
  obtain ⟨xs, tr3⟩ := gc
  simp only at hxl ⊢
  set xInvs := GoIpa.batchInvert xs with hxi
  have hxil : xInvs.length = xs.length := batchInvert_length xs
  have h8 : xs.length = 8 := by omega
  -- the accumulation C + Σ xⱼ Lⱼ + xⱼ⁻¹ Rⱼ
  rw [forUpOpt_some _ _ _ _ (fun (i : Int) (c : G) =>
      c + Loop.get xs i 0 • Loop.get proof.L i 0 + Loop.get xInvs i 0 • Loop.get proof.R i 0)
    (by
      intro i s
      rw [commit_eq enc _ ms hms]
      simp only [List.length_cons, List.length_nil, ↓reduceIte, msm_three])]
  simp only [forUp_zero, Int.toNat_natCast]
  have hacc : (List.range xs.length).foldl (fun (st : G) (k : Nat) =>
        st + Loop.get xs (k : Int) 0 • Loop.get proof.L (k : Int) 0 + Loop.get xInvs (k : Int) 0 • Loop.get proof.R (k : Int) 0)
        (C + y • w • cfg.Q)
      = (List.zip xs (List.zip xInvs (List.zip proof.L proof.R))).foldl
        (fun (c : G) (e : K × K × G × G) => c + e.1 • e.2.2.1 + e.2.1 • e.2.2.2) (C + y • w • cfg.Q) := by
    rw [zip4_eq_range_map xs xInvs proof.L proof.R 0 0 0 0 xs.length rfl hxil (by omega) (by omega), List.foldl_map]
    apply List.foldl_ext
    intro acc k _
    simp only [get_nat]
  rw [hacc]
  -- the folding scalars
  rw [foldl_pointwise cfg.srs.length (0 : K) (fun i _ => foldingScalar cfg.rounds xInvs i) _ _ List.length_replicate
    (by
      intro l i hi hl
      simp only [set_nat]
      refine ⟨by simp [hl], ?_⟩
      intro j _
      rw [getD_set]
      have hinner : (List.range xs.length).foldl (fun (st : K) (k : Nat) =>
            if Loop.band (i : Int) (Loop.shl 1 (7 - (k : Int))) > 0 then st * Loop.get xInvs (k : Int) 0 else st) (1 : K)
          = foldingScalar cfg.rounds xInvs i := by
        unfold foldingScalar
        rw [zipIdx_eq_range_map xInvs 0, List.foldl_map, hxil, hr]
        apply List.foldl_ext
        intro acc k hk
        have hk8 : k < 8 := by rw [← h8]; exact List.mem_range.mp hk
        simp only [get_nat]
        by_cases hbit : i &&& (1 <<< (8 - 1 - k)) > 0
        · rw [if_pos ((bit_test i k hk8).mpr hbit), if_pos hbit]
        · rw [if_neg (fun hh => hbit ((bit_test i k hk8).mp hh)), if_neg hbit]
      by_cases hji : j = i
      · subst hji
        rw [if_pos ⟨rfl, by omega⟩, if_pos rfl]
        exact hinner
      · have : ¬ (i = j ∧ i < l.length) := fun hh => hji hh.1.symm
        rw [if_neg this, if_neg hji])]
  set fs := (List.range cfg.srs.length).map fun i => foldingScalar cfg.rounds xInvs i with hfs
  have hfl : fs.length = cfg.srs.length := by simp [hfs]
  rw [hms, if_pos hfl.symm]
  simp only
  rw [Tie.Loops.innerProd_eq (bVector cfg z) fs (by rw [hb, hfl])]
  simp only [Bool.decide_eq_true]

/-! ### `CreateIPAProof` -/

/-- the loop state of `CreateIPAProof`: `L`, `R`, transcript, `a`, `b`, current basis -/
abbrev PState (K G : Type) := List G × List G × Tr × List K × List K × List G

/-- the body of the round loop, as the translator emits it (checked against the generated
function by `createIPAProof_unfold`) -/
def goBody (bvec : K → List K) (ms : List G → List K → Option G) (q : G) (i : Int) (st : PState K G) : Option (PState K G) :=
  let (L, R, transcript, a, b, current_basis) := st
  match (Gen.Loops.splitScalars a) with
  | none => none
  | some (a_L, a_R) =>
    match (Gen.Loops.splitScalars b) with
    | none => none
    | some (b_L, b_R) =>
      match (Gen.Loops.splitPoints current_basis) with
      | none => none
      | some (G_L, G_R) =>
        match (Gen.Loops.innerProd a_R b_L) with
        | none => none
        | some z_L =>
          match (Gen.Loops.innerProd a_L b_R) with
          | none => none
          | some z_R =>
            match (Gen.Loops.commit enc bvec ms G_L a_R) with
            | none => none
            | some C_L_1 =>
              match (Gen.Loops.commit enc bvec ms ([C_L_1, q] : List G) ([(1 : K), z_L] : List K)) with
              | none => none
              | some C_L =>
                match (Gen.Loops.commit enc bvec ms G_R a_L) with
                | none => none
                | some C_R_1 =>
                  match (Gen.Loops.commit enc bvec ms ([C_R_1, q] : List G) ([(1 : K), z_R] : List K)) with
                  | none => none
                  | some C_R =>
                    let L : List G := Loop.set L i (C_L)
                    let R : List G := Loop.set R i (C_R)
                    let transcript : Tr := Tr.appendPoint enc transcript C_L Gen.Loops.labelL
                    let transcript : Tr := Tr.appendPoint enc transcript C_R Gen.Loops.labelR
                    let (c_3, transcript) := Tr.challenge enc transcript Gen.Loops.labelX
                    let x : K := c_3
                    let xInv : K := 0
                    let xInv : K := x⁻¹
                    match (Gen.Loops.foldScalars a_L a_R x) with
                    | none => none
                    | some a =>
                      match (Gen.Loops.foldScalars b_L b_R xInv) with
                      | none => none
                      | some b =>
                        match (Gen.Loops.foldPoints G_L G_R xInv) with
                        | none => none
                        | some current_basis =>
                          some (L, R, transcript, a, b, current_basis)

theorem two_pow_succ_half (n : Nat) : 2 ^ (n + 1) / 2 = 2 ^ n := by
  rw [pow_succ]; omega

/-- one round of the Go loop is one unfolding of the model's `ipaRounds` -/
theorem goBody_step (bvec : K → List K) (ms : List G → List K → Option G) (hms : MsOk ms) (q : G) (i : Nat) (n : Nat)
    (L R : List G) (tr : Tr) (a b : List K) (g : List G)
    (ha : a.length = 2 ^ (n + 1)) (hb : b.length = 2 ^ (n + 1)) (hg : g.length = 2 ^ (n + 1)) :
    let m := a.length / 2
    let cL := msm (g.take m) (a.drop m) + innerProd (a.drop m) (b.take m) • q
    let cR := msm (g.drop m) (a.take m) + innerProd (a.take m) (b.drop m) • q
    let xc := ((tr.appendPoint enc cL Label.L).appendPoint enc cR Label.R).challenge enc Label.x
    goBody enc bvec ms q (i : Int) (L, R, tr, a, b, g)
      = some (L.set i cL, R.set i cR, xc.2, GoIpa.foldScalars (a.take m) (a.drop m) xc.1,
          GoIpa.foldScalars (b.take m) (b.drop m) xc.1⁻¹, GoIpa.foldPoints (g.take m) (g.drop m) xc.1⁻¹) := by
  intro m cL cR xc
  have hm : m = 2 ^ n := by show a.length / 2 = _; rw [ha, two_pow_succ_half]
  have hbm : b.length / 2 = m := by rw [hb, two_pow_succ_half, hm]
  have hgm : g.length / 2 = m := by rw [hg, two_pow_succ_half, hm]
  have h2n : 2 ^ (n + 1) = 2 ^ n + 2 ^ n := by rw [pow_succ]; omega
  have ev : ∀ k, k = 2 ^ (n + 1) → k % 2 = 0 := by intro k hk; rw [hk, pow_succ]; omega
  unfold goBody
  simp only
  rw [splitScalars_eq a (ev _ ha), splitScalars_eq b (ev _ hb), splitPoints_eq g (ev _ hg)]
  simp only [hbm, hgm]
  have l1 : (a.drop m).length = (b.take m).length := by simp [List.length_take, List.length_drop, ha, hb, hm]; omega
  have l2 : (a.take m).length = (b.drop m).length := by simp [List.length_take, List.length_drop, ha, hb, hm]; omega
  have l3 : (g.take m).length = (a.drop m).length := by simp [List.length_take, List.length_drop, ha, hg, hm]; omega
  have l4 : (g.drop m).length = (a.take m).length := by simp [List.length_take, List.length_drop, ha, hg, hm]; omega
  have l5 : (a.take m).length = (a.drop m).length := by simp [List.length_take, List.length_drop, ha, hm]; omega
  have l6 : (b.take m).length = (b.drop m).length := by simp [List.length_take, List.length_drop, hb, hm]; omega
  have l7 : (g.take m).length = (g.drop m).length := by simp [List.length_take, List.length_drop, hg, hm]; omega
  rw [Tie.Loops.innerProd_eq _ _ l1, Tie.Loops.innerProd_eq _ _ l2]
  simp only
  rw [commit_eq enc _ ms hms, if_pos l3]
  simp only
  rw [commit_eq enc _ ms hms]
  simp only [List.length_cons, List.length_nil, ↓reduceIte, msm_two]
  rw [commit_eq enc _ ms hms, if_pos l4]
  simp only
  rw [commit_eq enc _ ms hms]
  simp only [List.length_cons, List.length_nil, ↓reduceIte, msm_two]
  rw [foldScalars_eq _ _ _ l5, foldScalars_eq _ _ _ l6, foldPoints_eq _ _ _ l7]
  simp only [set_nat]
  rfl

theorem foldl_none {σ : Type} (l : List Nat) (body : Int → σ → Option σ) :
    l.foldl (fun (o : Option σ) (k : Nat) => match o with | none => none | some s => body (k : Int) s) none = none := by
  induction l with
  | nil => rfl
  | cons k l ih => exact ih

/-- **The remaining `n` iterations of the round loop, started at index `i0`, are `ipaRounds n`.** -/
theorem run_eq (bvec : K → List K) (ms : List G → List K → Option G) (hms : MsOk ms) (q : G) (n : Nat) :
    ∀ (i0 : Nat) (L R : List G) (tr : Tr) (a b : List K) (g : List G),
      a.length = 2 ^ n → b.length = 2 ^ n → g.length = 2 ^ n → i0 + n ≤ L.length → i0 + n ≤ R.length →
      ∃ (L' R' : List G) (b' : List K) (g' : List G),
        (List.range' i0 n).foldl (fun (o : Option (PState K G)) (k : Nat) =>
            match o with | none => none | some s => goBody enc bvec ms q (k : Int) s) (some (L, R, tr, a, b, g))
          = some (L', R', (ipaRounds enc q n tr a b g).2.2.2, (ipaRounds enc q n tr a b g).2.2.1, b', g') ∧
        (ipaRounds enc q n tr a b g).2.2.1.length = 1 ∧
        (ipaRounds enc q n tr a b g).1.length = n ∧ (ipaRounds enc q n tr a b g).2.1.length = n ∧
        L'.length = L.length ∧ R'.length = R.length ∧
        (∀ j, L'.getD j 0 = if i0 ≤ j ∧ j < i0 + n then (ipaRounds enc q n tr a b g).1.getD (j - i0) 0 else L.getD j 0) ∧
        (∀ j, R'.getD j 0 = if i0 ≤ j ∧ j < i0 + n then (ipaRounds enc q n tr a b g).2.1.getD (j - i0) 0 else R.getD j 0) := by
  induction n with
  | zero =>
    intro i0 L R tr a b g ha _ _ _ _
    refine ⟨L, R, b, g, rfl, by simpa [ipaRounds] using ha, rfl, rfl, rfl, rfl, ?_, ?_⟩ <;>
    · intro j
      have : ¬ (i0 ≤ j ∧ j < i0 + 0) := by omega
      rw [if_neg this]
  | succ n ih =>
    intro i0 L R tr a b g ha hb hg hL hR
    rw [List.range'_succ, List.foldl_cons]
    simp only
    have hstep := goBody_step enc bvec ms hms q i0 n L R tr a b g ha hb hg
    simp only at hstep
    rw [hstep]
    set m := a.length / 2 with hm
    have hm' : m = 2 ^ n := by rw [hm, ha, two_pow_succ_half]
    set cL := msm (g.take m) (a.drop m) + innerProd (a.drop m) (b.take m) • q with hcL
    set cR := msm (g.drop m) (a.take m) + innerProd (a.take m) (b.drop m) • q with hcR
    set xc := ((tr.appendPoint enc cL Label.L).appendPoint enc cR Label.R).challenge enc Label.x with hxc
    have hlen : ∀ (u v : List K), u.length = 2 ^ (n + 1) → ((u.take m).length = 2 ^ n ∧ (u.drop m).length = 2 ^ n) := by
      intro u v hu
      have : 2 ^ (n + 1) = 2 ^ n + 2 ^ n := by rw [pow_succ]; omega
      simp [List.length_take, List.length_drop, hu, hm']; omega
    have hlenG : (g.take m).length = 2 ^ n ∧ (g.drop m).length = 2 ^ n := by
      have : 2 ^ (n + 1) = 2 ^ n + 2 ^ n := by rw [pow_succ]; omega
      simp [List.length_take, List.length_drop, hg, hm']; omega
    have la : (GoIpa.foldScalars (a.take m) (a.drop m) xc.1).length = 2 ^ n := by
      unfold GoIpa.foldScalars; rw [List.length_zipWith, (hlen a a ha).1, (hlen a a ha).2]; simp
    have lb : (GoIpa.foldScalars (b.take m) (b.drop m) xc.1⁻¹).length = 2 ^ n := by
      unfold GoIpa.foldScalars; rw [List.length_zipWith, (hlen b b hb).1, (hlen b b hb).2]; simp
    have lg : (GoIpa.foldPoints (g.take m) (g.drop m) xc.1⁻¹).length = 2 ^ n := by
      unfold GoIpa.foldPoints; rw [List.length_zipWith, hlenG.1, hlenG.2]; simp
    obtain ⟨L', R', b', g', e1, e2, e3, e4, e5, e6, e7, e8⟩ := ih (i0 + 1) (L.set i0 cL) (R.set i0 cR) xc.2 _ _ _ la lb lg
      (by simp; omega) (by simp; omega)
    -- the model's unfolding
    have hmodel : ipaRounds enc q (n + 1) tr a b g =
        (cL :: (ipaRounds enc q n xc.2 (GoIpa.foldScalars (a.take m) (a.drop m) xc.1)
            (GoIpa.foldScalars (b.take m) (b.drop m) xc.1⁻¹) (GoIpa.foldPoints (g.take m) (g.drop m) xc.1⁻¹)).1,
         cR :: (ipaRounds enc q n xc.2 (GoIpa.foldScalars (a.take m) (a.drop m) xc.1)
            (GoIpa.foldScalars (b.take m) (b.drop m) xc.1⁻¹) (GoIpa.foldPoints (g.take m) (g.drop m) xc.1⁻¹)).2.1,
         (ipaRounds enc q n xc.2 (GoIpa.foldScalars (a.take m) (a.drop m) xc.1)
            (GoIpa.foldScalars (b.take m) (b.drop m) xc.1⁻¹) (GoIpa.foldPoints (g.take m) (g.drop m) xc.1⁻¹)).2.2.1,
         (ipaRounds enc q n xc.2 (GoIpa.foldScalars (a.take m) (a.drop m) xc.1)
            (GoIpa.foldScalars (b.take m) (b.drop m) xc.1⁻¹) (GoIpa.foldPoints (g.take m) (g.drop m) xc.1⁻¹)).2.2.2) := by
      rfl
    rw [hmodel]
    simp only
    refine ⟨L', R', b', g', e1, e2, by simp [e3], by simp [e4], by simpa using e5, by simpa using e6, ?_, ?_⟩
    · intro j
      rw [e7 j]
      by_cases hj0 : j = i0
      · subst hj0
        have a1 : ¬ (j + 1 ≤ j ∧ j < j + 1 + n) := by omega
        have a2 : (j ≤ j ∧ j < j + (n + 1)) := by omega
        rw [if_neg a1, if_pos a2, getD_set_self _ _ _ _ (by omega)]
        simp
      · by_cases hin : i0 + 1 ≤ j ∧ j < i0 + 1 + n
        · have a2 : (i0 ≤ j ∧ j < i0 + (n + 1)) := by omega
          rw [if_pos hin, if_pos a2]
          have : j - i0 = (j - (i0 + 1)) + 1 := by omega
          rw [this, List.getD_cons_succ]
        · have a2 : ¬ (i0 ≤ j ∧ j < i0 + (n + 1)) := by omega
          rw [if_neg hin, if_neg a2, getD_set_ne _ _ _ _ _ (Ne.symm hj0)]
    · intro j
      rw [e8 j]
      by_cases hj0 : j = i0
      · subst hj0
        have a1 : ¬ (j + 1 ≤ j ∧ j < j + 1 + n) := by omega
        have a2 : (j ≤ j ∧ j < j + (n + 1)) := by omega
        rw [if_neg a1, if_pos a2, getD_set_self _ _ _ _ (by omega)]
        simp
      · by_cases hin : i0 + 1 ≤ j ∧ j < i0 + 1 + n
        · have a2 : (i0 ≤ j ∧ j < i0 + (n + 1)) := by omega
          rw [if_pos hin, if_pos a2]
          have : j - i0 = (j - (i0 + 1)) + 1 := by omega
          rw [this, List.getD_cons_succ]
        · have a2 : ¬ (i0 ≤ j ∧ j < i0 + (n + 1)) := by omega
          rw [if_neg hin, if_neg a2, getD_set_ne _ _ _ _ _ (Ne.symm hj0)]

/-- the translated prover is its prologue, the round loop with body `goBody`, and its epilogue -/
theorem createIPAProof_unfold (bvec : K → List K) (ms : List G → List K → Option G) (tr : Tr) (Q : G) (srs : List G)
    (rounds : Int) (C : G) (a : List K) (z : K) :
    Gen.Loops.createIPAProof enc bvec ms tr Q srs rounds C a z =
      (match Gen.Loops.innerProd a (bvec z) with
       | none => none
       | some ip =>
         let tr1 := (((tr.domainSep Gen.Loops.labelDomainSep).appendPoint enc C Gen.Loops.labelC).appendScalar enc z
            Gen.Loops.labelInputPoint).appendScalar enc ip Gen.Loops.labelOutputPoint
         let wc := Tr.challenge enc tr1 Gen.Loops.labelW
         match Loop.forUpOpt 0 rounds
            ((List.replicate rounds.toNat (0 : G), List.replicate rounds.toNat (0 : G), wc.2, a, bvec z, srs) : PState K G)
            (goBody enc bvec ms (wc.1 • Q)) with
         | none => none
         | some (L, R, transcript, a, _, _) =>
           if (((a.length : Nat) : Int) ≠ 1) then none else some ((L, R, Loop.get a 0 0), transcript)) := by
  rfl

/-- the result of the translated prover that corresponds to a result of the model -/
def ofModelP (r : Option (IpaProof K G) × Tr) : Option ((List G × List G × K) × Tr) :=
  match r.1 with
  | some p => some ((p.L, p.R, p.a), r.2)
  | none => none

/-- **`CreateIPAProof`, translated from the source, is the model's `ipaProve`** for every
configuration with `2^rounds` basis points and every vector of that length. -/
theorem createIPAProof_eq (cfg : IpaCfg K G) (ms : List G → List K → Option G) (hms : MsOk ms)
    (tr : Tr) (C : G) (a : List K) (z : K)
    (hsrs : cfg.srs.length = 2 ^ cfg.rounds) (ha : a.length = 2 ^ cfg.rounds)
    (hb : (bVector cfg z).length = 2 ^ cfg.rounds) :
    Gen.Loops.createIPAProof enc (bVector cfg) ms tr cfg.Q cfg.srs (cfg.rounds : Int) C a z
      = ofModelP (ipaProve enc cfg tr C a z) := by
  rw [createIPAProof_unfold, Tie.Loops.innerProd_eq a _ (by rw [ha, hb])]
  simp only
  unfold ipaProve ofModelP
  simp only
  rw [show Gen.Loops.labelDomainSep = Label.ipa from rfl, show Gen.Loops.labelC = Label.C from rfl,
    show Gen.Loops.labelInputPoint = Label.inputPoint from rfl, show Gen.Loops.labelOutputPoint = Label.outputPoint from rfl,
    show Gen.Loops.labelW = Label.w from rfl]
  generalize Tr.challenge enc ((((tr.domainSep Label.ipa).appendPoint enc C Label.C).appendScalar enc z
    Label.inputPoint).appendScalar enc (GoIpa.innerProd a (bVector cfg z)) Label.outputPoint) Label.w = wc
  obtain ⟨w, tr1⟩ := wc
  simp only [Int.toNat_natCast]
  obtain ⟨L', R', b', g', e1, e2, e3, e4, e5, e6, e7, e8⟩ := run_eq enc (bVector cfg) ms hms (w • cfg.Q) cfg.rounds 0
    (List.replicate cfg.rounds (0 : G)) (List.replicate cfg.rounds (0 : G)) tr1 a (bVector cfg z) cfg.srs ha hb hsrs
    (by simp) (by simp)
  have hloop : Loop.forUpOpt 0 (cfg.rounds : Int)
      ((List.replicate cfg.rounds (0 : G), List.replicate cfg.rounds (0 : G), tr1, a, bVector cfg z, cfg.srs) : PState K G)
      (goBody enc (bVector cfg) ms (w • cfg.Q))
      = (List.range' 0 cfg.rounds).foldl (fun (o : Option (PState K G)) (k : Nat) =>
          match o with | none => none | some s => goBody enc (bVector cfg) ms (w • cfg.Q) (k : Int) s)
          (some (List.replicate cfg.rounds (0 : G), List.replicate cfg.rounds (0 : G), tr1, a, bVector cfg z, cfg.srs)) := by
    unfold Loop.forUpOpt Loop.forUp
    rw [List.range_eq_range']
    simp only [Int.sub_zero, Int.toNat_natCast, Int.zero_add]
    congr 1
    funext o k
    cases o <;> rfl
  rw [hloop, e1]
  generalize hR : ipaRounds enc (w • cfg.Q) cfg.rounds tr1 a (bVector cfg z) cfg.srs = Rm at e1 e2 e3 e4 e7 e8 ⊢
  obtain ⟨Ls, Rs, af, trf⟩ := Rm
  simp only at e2 e3 e4 e7 e8 ⊢
  have hne : ¬ (((af.length : Nat) : Int) ≠ 1) := by omega
  rw [if_neg hne]
  match af, e2 with
  | [a0], _ =>
    simp only
    have hL : L' = Ls := by
      apply ext_getD _ _ (0 : G) (by rw [e5, e3]; simp)
      intro j hj
      rw [e5, List.length_replicate] at hj
      rw [e7 j, if_pos (by omega)]; simp
    have hRr : R' = Rs := by
      apply ext_getD _ _ (0 : G) (by rw [e6, e4]; simp)
      intro j hj
      rw [e6, List.length_replicate] at hj
      rw [e8 j, if_pos (by omega)]; simp
    rw [hL, hRr]
    rfl

/-! ### `CheckMultiProof` -/

theorem zip3_eq_range_map {α β γ : Type} (a : List α) (b : List β) (c : List γ)
    (da : α) (db : β) (dc : γ) (n : Nat) (ha : a.length = n) (hb : b.length = n) (hc : c.length = n) :
    List.zip a (List.zip b c) = (List.range n).map (fun k => (a.getD k da, b.getD k db, c.getD k dc)) := by
  apply List.ext_getElem (by simp [ha, hb, hc])
  intro j h1 h2
  simp only [List.length_zip, ha, hb, hc, Nat.min_self] at h1
  simp [List.getD_eq_getElem?_getD, ha ▸ h1, hb ▸ h1, hc ▸ h1]

theorem getD_map_cast (zs : List Nat) (i : Nat) : (zs.map (fun (z : Nat) => (z : Int))).getD i 0 = ((zs.getD i 0 : Nat) : Int) := by
  rw [List.getD_eq_getElem?_getD, List.getD_eq_getElem?_getD, List.getElem?_map]
  cases zs[i]? <;> simp

theorem domainToFr_eq (n : Nat) : Gen.Loops.domainToFr (K := K) (n : Int) = ((n : Nat) : K) := by
  unfold Gen.Loops.domainToFr; simp

theorem foldl_set_length {α β : Type} (l : List β) (f : List α → β → Nat) (g : List α → β → α) (init : List α) :
    (l.foldl (fun ge e => ge.set (f ge e) (g ge e)) init).length = init.length := by
  induction l generalizing init with
  | nil => rfl
  | cons x l ih => rw [List.foldl_cons, ih]; simp

/-- a loop that fills two lists at once -/
theorem foldl_two_lists {α β : Type} (n : Nat) (da : α) (db : β) (f : Nat → α) (g : Nat → β) :
    (List.range n).foldl (fun (st : List α × List β) (k : Nat) => (st.1.set k (f k), st.2.set k (g k)))
      (List.replicate n da, List.replicate n db) = ((List.range n).map f, (List.range n).map g) := by
  have inv := foldl_range_inv
    (fun k (st : List α × List β) => st.1.length = n ∧ st.2.length = n ∧
      (∀ j, j < n → st.1.getD j da = if j < k then f j else da) ∧ (∀ j, j < n → st.2.getD j db = if j < k then g j else db))
    (fun (st : List α × List β) (k : Nat) => (st.1.set k (f k), st.2.set k (g k)))
    (List.replicate n da, List.replicate n db) n
    ⟨List.length_replicate, List.length_replicate, fun j hj => by rw [getD_replicate _ _ _ _ hj]; simp,
      fun j hj => by rw [getD_replicate _ _ _ _ hj]; simp⟩
    (by
      rintro k ⟨a, b⟩ hk ⟨h1, h2, h3, h4⟩
      simp only at h1 h2 h3 h4 ⊢
      refine ⟨by simp [h1], by simp [h2], ?_, ?_⟩
      · intro j hj
        rw [getD_set]
        by_cases hkj : k = j
        · subst hkj; simp [h1, hk]
        · have : ¬ (k = j ∧ k < a.length) := fun hh => hkj hh.1
          rw [if_neg this, h3 j hj]
          have hiff : (j < k + 1) ↔ (j < k) := by omega
          simp only [hiff]
      · intro j hj
        rw [getD_set]
        by_cases hkj : k = j
        · subst hkj; simp [h2, hk]
        · have : ¬ (k = j ∧ k < b.length) := fun hh => hkj hh.1
          rw [if_neg this, h4 j hj]
          have hiff : (j < k + 1) ↔ (j < k) := by omega
          simp only [hiff])
  obtain ⟨h1, h2, h3, h4⟩ := inv
  rw [Prod.ext_iff]
  constructor
  · apply ext_getD _ _ da (by simp [h1])
    intro j hj
    rw [h1] at hj
    rw [h3 j hj, if_pos hj, getD_map_range _ _ _ _ hj]
  · apply ext_getD _ _ db (by simp [h2])
    intro j hj
    rw [h2] at hj
    rw [h4 j hj, if_pos hj, getD_map_range _ _ _ _ hj]

theorem ofModel_bind (r : Except VErr Bool × Tr) :
    (match ofModel r with
     | none => none
     | some (ok, transcript) => some (ok, transcript)) = ofModel r := by
  unfold ofModel
  cases r.1 <;> rfl

/-- **`CheckMultiProof`, translated from the source, is the model's `mpVerify`** (256-point domain,
8 rounds): same decision, same transcript, an error return exactly where the model reports one. -/
theorem checkMultiProof_eq (cfg : IpaCfg K G) (hN : cfg.N = 256) (hr : cfg.rounds = 8)
    (ms : List G → List K → Option G) (hms : MsOk ms) (hbv : ∀ z, (bVector cfg z).length = cfg.srs.length)
    (tr : Tr) (proof : MultiProof K G) (Cs : List G) (ys : List K) (zs : List Nat) :
    Gen.Loops.checkMultiProof enc (bVector cfg) ms tr cfg.Q cfg.srs (cfg.rounds : Int)
        proof.ipa.L proof.ipa.R proof.ipa.a proof.D Cs ys (zs.map (fun (z : Nat) => (z : Int)))
      = ofModel (mpVerify enc cfg tr proof Cs ys zs) := by
  unfold Gen.Loops.checkMultiProof mpVerify
  simp only [List.length_map]
  by_cases h1 : Cs.length = ys.length
  swap
  · have t1 : (((Cs.length : Nat) : Int) ≠ ((ys.length : Nat) : Int)) := by omega
    have m1 : Cs.length ≠ ys.length := h1
    rw [if_pos t1, if_pos m1]; rfl
  have h1' : ¬ (((Cs.length : Nat) : Int) ≠ ((ys.length : Nat) : Int)) := by omega
  have m1 : ¬ (Cs.length ≠ ys.length) := by simpa using h1
  by_cases h2 : Cs.length = zs.length
  swap
  · have t2 : (((Cs.length : Nat) : Int) ≠ ((zs.length : Nat) : Int)) := by omega
    have m2 : Cs.length ≠ zs.length := h2
    rw [if_neg h1', if_pos t2, if_neg m1, if_pos m2]; rfl
  have h2' : ¬ (((Cs.length : Nat) : Int) ≠ ((zs.length : Nat) : Int)) := by omega
  have m2 : ¬ (Cs.length ≠ zs.length) := by simpa using h2
  by_cases h3 : Cs.length = 0
  · have t3 : (((Cs.length : Nat) : Int) = 0) := by omega
    rw [if_neg h1', if_neg h2', if_pos t3, if_neg m1, if_neg m2, if_pos h3]; rfl
  have t3 : ¬ (((Cs.length : Nat) : Int) = 0) := by omega
  rw [if_neg h1', if_neg h2', if_neg t3, if_neg m1, if_neg m2, if_neg h3]
  set n := Cs.length with hn
  have hys : ys.length = n := by omega
  have hzs : zs.length = n := by omega
  have h256 : ((256 : Int)) = ((256 : Nat) : Int) := rfl
  simp only [h256, forUp_zero, Int.toNat_natCast, hN]
  rw [show Gen.Loops.mp_labelDomainSep = Label.multiproof from rfl, show Gen.Loops.mp_labelC = Label.C from rfl,
    show Gen.Loops.mp_labelZ = Label.z from rfl, show Gen.Loops.mp_labelY = Label.y from rfl,
    show Gen.Loops.mp_labelR = Label.r from rfl, show Gen.Loops.mp_labelD = Label.D from rfl,
    show Gen.Loops.mp_labelT = Label.t from rfl, show Gen.Loops.mp_labelE = Label.E from rfl]
  -- the statement as absorbed
  have habs : (List.range n).foldl (fun (st : Tr) (k : Nat) =>
        ((st.appendPoint enc (Loop.get Cs (k : Int) 0) Label.C).appendScalar enc
          (Gen.Loops.domainToFr (Loop.get (zs.map (fun (z : Nat) => (z : Int))) (k : Int) 0)) Label.z).appendScalar enc
            (Loop.get ys (k : Int) 0) Label.y) (tr.domainSep Label.multiproof)
      = (List.zip Cs (List.zip ys zs)).foldl (fun (tr : Tr) (e : G × K × Nat) =>
        ((tr.appendPoint enc e.1 Label.C).appendScalar enc ((e.2.2 : Nat) : K) Label.z).appendScalar enc e.2.1 Label.y)
        (tr.domainSep Label.multiproof) := by
    rw [zip3_eq_range_map Cs ys zs 0 0 0 n rfl hys hzs, List.foldl_map]
    apply List.foldl_ext
    intro acc k _
    simp only [get_nat, getD_map_cast, domainToFr_eq]
  rw [habs]
  generalize (List.zip Cs (List.zip ys zs)).foldl _ (tr.domainSep Label.multiproof) = tr1
  generalize Tr.challenge enc tr1 Label.r = rc
  obtain ⟨r, tr2⟩ := rc
  simp only
  rw [powersOf_eq r n (by omega)]
  generalize Tr.challenge enc (tr2.appendPoint enc proof.D Label.D) Label.t = tc
  obtain ⟨t, tr3⟩ := tc
  simp only
  set pows := GoIpa.powersOf r n with hpows
  have hpl : pows.length = n := by rw [hpows]; unfold GoIpa.powersOf; exact powersFrom_length r 1 n
  -- grouped evaluations
  have hge : (List.range n).foldl (fun (st : List K) (k : Nat) =>
        Loop.set st (Loop.get (zs.map (fun (z : Nat) => (z : Int))) (k : Int) 0)
          (Loop.get st (Loop.get (zs.map (fun (z : Nat) => (z : Int))) (k : Int) 0) 0 + Loop.get pows (k : Int) 0 * Loop.get ys (k : Int) 0))
        (List.replicate 256 (0 : K))
      = (List.zip pows (List.zip ys zs)).foldl (fun (ge : List K) (e : K × K × Nat) =>
        ge.set e.2.2 (ge.getD e.2.2 0 + e.1 * e.2.1)) (List.replicate 256 (0 : K)) := by
    rw [zip3_eq_range_map pows ys zs 0 0 0 n hpl hys hzs, List.foldl_map]
    apply List.foldl_ext
    intro acc k _
    simp only [get_nat, getD_map_cast, set_nat]
  rw [hge]
  set ge := (List.zip pows (List.zip ys zs)).foldl (fun (ge : List K) (e : K × K × Nat) =>
        ge.set e.2.2 (ge.getD e.2.2 0 + e.1 * e.2.1)) (List.replicate 256 (0 : K)) with hgedef
  have hgel : ge.length = 256 := by
    rw [hgedef, foldl_set_length (List.zip pows (List.zip ys zs)) (fun _ e => e.2.2) (fun ge e => ge.getD e.2.2 0 + e.1 * e.2.1)]
    exact List.length_replicate
  -- the inverse denominators
  rw [foldl_pointwise 256 (0 : K) (fun i _ => t - ((i : Nat) : K)) _ _ List.length_replicate
    (by
      intro l i hi hl
      simp only [set_nat, domainToFr_eq]
      refine ⟨by simp [hl], ?_⟩
      intro j _
      rw [getD_set]
      by_cases hji : j = i
      · subst hji; simp [hl, hi]
      · have : ¬ (i = j ∧ i < l.length) := fun hh => hji hh.1.symm
        rw [if_neg this, if_neg hji])]
  rw [batchInvert_eq]
  set denInv := GoIpa.batchInvert ((List.range 256).map fun (i : Nat) => t - (i : K)) with hdi
  have hdl : denInv.length = 256 := by rw [hdi, batchInvert_length]; simp
  -- g₂(t)
  have hg2 : (List.range 256).foldl (fun (st : K) (k : Nat) =>
        if Loop.get ge (k : Int) 0 = 0 then st else st + Loop.get ge (k : Int) 0 * Loop.get denInv (k : Int) 0) 0
      = (List.zip ge denInv).foldl (fun (acc : K) (e : K × K) => if e.1 = 0 then acc else acc + e.1 * e.2) 0 := by
    have hz : List.zip ge denInv = (List.range 256).map (fun k => (ge.getD k 0, denInv.getD k 0)) := by
      have := zipWith_eq_range_map Prod.mk ge denInv 0 0 (by rw [hgel, hdl])
      rw [hgel] at this
      rw [← this]; rfl
    rw [hz, List.foldl_map]
    apply List.foldl_ext
    intro acc k _
    simp only [get_nat]
  rw [hg2]
  -- the commitments and their scalars
  have hcs : (List.range n).foldl (fun (st : List G × List K) (k : Nat) =>
        (Loop.set st.1 (k : Int) (Loop.get Cs (k : Int) 0),
         Loop.set st.2 (k : Int) (Loop.get pows (k : Int) 0 * Loop.get denInv (Loop.get (zs.map (fun (z : Nat) => (z : Int))) (k : Int) 0) 0)))
        (List.replicate n (0 : G), List.replicate n (0 : K))
      = (Cs, List.zipWith (fun (p : K) (z : Nat) => p * denInv.getD z 0) pows zs) := by
    have := foldl_two_lists n (0 : G) (0 : K) (fun k => Cs.getD k 0) (fun k => pows.getD k 0 * denInv.getD (zs.getD k 0) 0)
    simp only [get_nat, set_nat, getD_map_cast]
    rw [this, ← eq_range_map Cs 0, zipWith_eq_range_map _ pows zs 0 0 (by rw [hpl, hzs]), hpl]
  rw [hcs]
  simp only
  rw [hms, if_pos (by rw [List.length_zipWith, hpl, hzs, Nat.min_self])]
  simp only
  rw [checkIPAProof_eq enc cfg ms hms hr _ _ proof.ipa t _ (hbv t)]
  exact ofModel_bind _

/-- **End to end for C02:** the Go verifier, translated from the current source, returns what the
*reference* verifier returns — for every proof, commitments, claimed values and domain indices
`< 256`, honest or not (composition of `checkMultiProof_eq` with `C02.mpVerify_eq_spec`). -/
theorem checkMultiProof_eq_spec (cfg : IpaCfg K G) (hN : cfg.N = 256) (hr : cfg.rounds = 8)
    (hsrs : cfg.srs.length = 2 ^ cfg.rounds)
    (ms : List G → List K → Option G) (hms : MsOk ms) (hbv : ∀ z, (bVector cfg z).length = cfg.srs.length)
    (tr : Tr) (proof : MultiProof K G) (Cs : List G) (ys : List K) (zs : List Nat) (hz : ∀ z ∈ zs, z < 256) :
    Gen.Loops.checkMultiProof enc (bVector cfg) ms tr cfg.Q cfg.srs (cfg.rounds : Int)
        proof.ipa.L proof.ipa.R proof.ipa.a proof.D Cs ys (zs.map (fun (z : Nat) => (z : Int)))
      = ofModel (C02.specMpVerify enc cfg tr proof Cs ys zs) := by
  rw [checkMultiProof_eq enc cfg hN hr ms hms hbv,
    C02.mpVerify_eq_spec enc cfg hsrs tr proof Cs ys zs (by rw [hN]; exact hz)]

end GoIpa.Tie.Protocol
