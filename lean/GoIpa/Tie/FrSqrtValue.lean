/-
  Capstone for `Sqrt` (C15): on every fully reduced limb vector `x`, `Sqrt` over the translated pieces
  (`Tie.FrSqrtGo.goSqrt`) returns limbs `y` with `valOf y · valOf y = valOf x`, and returns `nil` exactly when
  the scalar `x` represents is not a square — `goSqrt_spec` composed with `SqrtProof.sqrt_spec`.
-/
import GoIpa.Tie.FrSqrtGo
namespace GoIpa.Tie.FrSqrtGo
open GoIpa GoIpa.Limbs GoIpa.Tie.FrMisc

/-- **the translated `Sqrt` returns a square root, and `nil` exactly for non-residues** -/
theorem sqrt_value (x : L4) (hx : Red x) :
    (∀ y, goSqrt x = some y → valOf y * valOf y = valOf x) ∧
      (goSqrt x = none ↔ ¬ IsSquare (Zp.toZ (valOf x))) := by
  have h := goSqrt_spec x hx
  obtain ⟨s1, s2⟩ := FrSqrt.sqrt_spec (valOf x)
  constructor
  · intro y hy
    apply s1
    rw [← h, hy]
    rfl
  · rw [← s2, ← h]
    cases goSqrt x <;> simp

end GoIpa.Tie.FrSqrtGo
