/-
  Tie T1 for the table constructor and the MSM driver of `banderwagon/precomp.go`:
  `NewPrecompPoint` (with its errgroup closure translated in place, see
  `go/cmd/extract/precompfull.go`) and `MSMPrecomp.MSM`, translated from the current source on
  every run (`Gen/PrecompFull.lean`), are the model's `buildTable` and the fold of `precompMSM` —
  the objects of `C05.buildTable_spec`, `precompScalarMul_built`, `precompMSM_built`.
  `NewPrecompMSM`'s window choice (16 bits below `window16vs8IndexLimit`, 8 bits otherwise) is
  checked as a statement list.
-/
import GoIpa.Gen.PrecompFull
import GoIpa.Model.Precomp
import GoIpa.Lemmas.LoopLemmas
import Mathlib.Algebra.Module.Basic
import Mathlib.Algebra.Module.NatInt
namespace GoIpa.Tie.PrecompFull
open GoIpa GoIpa.Loop

variable {K G : Type} [Field K] [DecidableEq K] [AddCommGroup G] [Module K G]

/-- `buildWindow` grows at the end by the next multiple -/
theorem buildWindow_snoc (base : G) : ∀ (j : Nat) (c : G),
    buildWindow base (j + 1) c = buildWindow base j c ++ [c + j • base] := by
  intro j
  induction j with
  | zero => intro c; simp [buildWindow]
  | succ j ih =>
    intro c
    rw [buildWindow, ih (c + base)]
    simp only [buildWindow, List.cons_append]
    congr 2
    rw [succ_nsmul, add_assoc, add_comm base]

theorem buildWindow_length (base : G) : ∀ (j : Nat) (c : G), (buildWindow base j c).length = j := by
  intro j
  induction j with
  | zero => intro c; rfl
  | succ j ih => intro c; simp [buildWindow, ih]

/-- `buildTable` grows at the end by the window of the shifted base -/
theorem buildTable_snoc (w : Nat) (shift : G → G) : ∀ (k : Nat) (P : G),
    buildTable w shift (k + 1) P
      = buildTable w shift k P ++ [buildWindow (shift^[k] P) (1 <<< (w - 1)) (shift^[k] P)] := by
  intro k
  induction k with
  | zero => intro P; simp [buildTable]
  | succ k ih =>
    intro P
    rw [buildTable, ih (shift P)]
    simp only [buildTable, List.cons_append, Function.iterate_succ, Function.comp_apply]

theorem buildTable_length (w : Nat) (shift : G → G) : ∀ (k : Nat) (P : G), (buildTable w shift k P).length = k := by
  intro k
  induction k with
  | zero => intro P; rfl
  | succ k ih => intro P; simp [buildTable, ih]

/-- writing slot `j` of a list whose first `j` slots are filled -/
theorem set_prefix {α : Type} (A : List α) (z v : α) (m : Nat) (hA : A.length < m) :
    (A ++ List.replicate (m - A.length) z).set A.length v = (A ++ [v]) ++ List.replicate (m - (A.length + 1)) z := by
  have hm : m - A.length = (m - (A.length + 1)) + 1 := by omega
  rw [hm, List.replicate_succ, List.set_append_right _ _ (Nat.le_refl _)]
  simp

/-- a counting loop that maps `Q i` to `Q (i+1)` ends in `Q n` -/
theorem forUp_inv {σ : Type} (Q : Nat → σ) (n : Nat) (body : Int → σ → σ)
    (hstep : ∀ i : Nat, i < n → body (i : Int) (Q i) = Q (i + 1)) :
    Loop.forUp 0 (n : Int) (Q 0) body = Q n := by
  rw [forUp_zero]
  exact foldl_range_inv (fun k st => st = Q k) _ (Q 0) n rfl (fun k st hk hst => by rw [hst]; exact hstep k hk)

/-- the loop that fills one window: `windows[i][j] = curr; curr += base` -/
theorem window_loop (base : G) (W : List (List G)) (i : Nat) (hi : i < W.length) (m : Nat)
    (body : Int → (List (List G) × G) → (List (List G) × G))
    (hbody : ∀ (j : Nat) (X : List (List G)) (c : G),
      body (j : Int) (X, c) = (X.set i ((X.getD i []).set j c), c + base)) :
    Loop.forUp 0 (m : Int) (W.set i (List.replicate m (0 : G)), base) body
      = (W.set i (buildWindow base m base), base + m • base) := by
  have h := forUp_inv (fun j => (W.set i (buildWindow base j base ++ List.replicate (m - j) (0 : G)), base + j • base)) m body
    (by
      intro j hj
      rw [hbody]
      rw [getD_set_self _ _ _ _ hi, List.set_set]
      have hl := buildWindow_length base j base
      have e1 : (buildWindow base j base ++ List.replicate (m - j) (0 : G)).set j (base + j • base)
          = buildWindow base (j + 1) base ++ List.replicate (m - (j + 1)) (0 : G) := by
        have := set_prefix (buildWindow base j base) (0 : G) (base + j • base) m (by rw [hl]; exact hj)
        rw [hl] at this
        rw [this, buildWindow_snoc]
      rw [e1, succ_nsmul, ← add_assoc])
  simp only [buildWindow, List.nil_append, Nat.sub_zero, zero_smul, add_zero, Nat.sub_self, List.replicate_zero,
    List.append_nil] at h
  exact h

/-- **`NewPrecompPoint`, translated from the source, builds the model's `buildTable`**: for a
power-of-two window size `w ≥ 1`, `256 / w` windows, window `k` holding the multiples
`1 … 2^(w−1)` of `2^(w·k) • P` (`C05.buildTable_spec`), `batchToExtendedPointNormalized` being the
identity on group elements -/
theorem newPrecompPoint_eq (w : Nat) (hw : 1 ≤ w) (hpow : w &&& (w - 1) = 0) (P : G) :
    Gen.PrecompFull.newPrecompPoint (K := K) id P (w : Int)
      = some ((w : Int), buildTable w (fun b => (2 ^ w : Nat) • b) (256 / w) P) := by
  unfold Gen.PrecompFull.newPrecompPoint
  have hband : Loop.band (w : Int) ((w : Int) - 1) = 0 := by
    unfold Loop.band
    have : ((w : Int) - 1).toNat = w - 1 := by omega
    rw [this, Int.toNat_natCast, hpow]; rfl
  have h1 : ¬ (Loop.band (w : Int) ((w : Int) - 1) ≠ 0) := by rw [hband]; simp
  rw [if_neg h1]
  have hone : (1 : Int).toNat = 1 := rfl
  have hshl : (Loop.shl 1 (w : Int)).toNat = 2 ^ w := by
    unfold Loop.shl
    rw [Int.toNat_natCast, Int.toNat_natCast, hone, Nat.one_shiftLeft]
  have hm : (Loop.shl 1 ((w : Int) - 1)).toNat = 1 <<< (w - 1) := by
    unfold Loop.shl
    have : ((w : Int) - 1).toNat = w - 1 := by omega
    rw [this, Int.toNat_natCast, hone]
  have hn : ((256 : Int) / (w : Int)).toNat = 256 / w := by
    have : (256 : Int) / (w : Int) = ((256 / w : Nat) : Int) := by norm_cast
    rw [this, Int.toNat_natCast]
  simp only [hshl, hm, hn, List.length_replicate]
  generalize hndef : 256 / w = n
  generalize hmdef : 1 <<< (w - 1) = m
  let shift : G → G := fun b => (2 ^ w : Nat) • b
  let Q : Nat → (List (List G) × List (List G) × G) := fun k =>
    (buildTable w shift k P ++ List.replicate (n - k) ([] : List G),
     buildTable w shift k P ++ List.replicate (n - k) ([] : List G), shift^[k] P)
  have hQ0 : (List.replicate n ([] : List G), List.replicate n ([] : List G), P) = Q 0 := by
    simp [Q, buildTable]
  have hfin : ∀ body : Int → (List (List G) × List (List G) × G) → (List (List G) × List (List G) × G),
      (∀ i : Nat, i < n → body (i : Int) (Q i) = Q (i + 1)) → Loop.forUp 0 (n : Int) (Q 0) body = Q n :=
    fun body h => forUp_inv Q n body h
  rw [hQ0, hfin]
  · simp [Q]
    rfl
  · intro k hk
    simp only [Q, get_nat, set_nat]
    have hTl := buildTable_length w shift k P
    have hlen : k < (buildTable w shift k P ++ List.replicate (n - k) ([] : List G)).length := by
      rw [List.length_append, hTl, List.length_replicate]; omega
    rw [getD_set_self _ _ _ _ hlen, List.length_replicate]
    rw [window_loop (shift^[k] P) _ k hlen m _ (by intro j X c; simp only [get_nat, set_nat])]
    simp only [getD_set_self _ _ _ _ hlen, id]
    have e := set_prefix (buildTable w shift k P) ([] : List G) (buildWindow (shift^[k] P) m (shift^[k] P)) n (by rw [hTl]; exact hk)
    rw [hTl] at e
    rw [e, ← hmdef, ← buildTable_snoc]
    refine Prod.ext rfl (Prod.ext rfl ?_)
    simp only [Function.iterate_succ_apply']
    show ((2 ^ w : Nat) : K) • shift^[k] P = shift (shift^[k] P)
    rw [Nat.cast_smul_eq_nsmul]

/-- **`MSMPrecomp.MSM`, translated from the source**: starting from the identity, the table of
basis point `i` is applied to scalar `i` in order, zero scalars skipped — the fold of the model's
`precompMSM` (whose step is `precompScalarMul`, tied to `PrecompPoint.ScalarMul` in `Tie/Precomp.lean`) -/
theorem msm_eq (ppScalarMul : Int → K → G → G) (scalars : List K) :
    Gen.PrecompFull.msm ppScalarMul scalars
      = (List.zipIdx scalars).foldl (fun (acc : G) (e : K × Nat) =>
          if e.1 = 0 then acc else ppScalarMul (e.2 : Int) e.1 acc) 0 := by
  unfold Gen.PrecompFull.msm
  simp only [forUp_zero, get_nat]
  have key : ∀ (l : List K) (off : Nat) (acc : G),
      (List.range l.length).foldl (fun (st : G) (k : Nat) =>
          if ¬ (l.getD k 0 = 0) then ppScalarMul ((k + off : Nat) : Int) (l.getD k 0) st else st) acc
        = (List.zipIdx l off).foldl (fun (acc : G) (e : K × Nat) =>
          if e.1 = 0 then acc else ppScalarMul (e.2 : Int) e.1 acc) acc := by
    intro l
    induction l with
    | nil => intro off acc; rfl
    | cons x xs ih =>
      intro off acc
      rw [List.length_cons, List.range_succ_eq_map, List.foldl_cons, List.foldl_map, List.zipIdx_cons, List.foldl_cons]
      simp only [List.getD_cons_zero, List.getD_cons_succ, Nat.zero_add]
      have h := ih (off + 1) (if ¬ (x = 0) then ppScalarMul (off : Int) x acc else acc)
      have e : ∀ k : Nat, k + (off + 1) = k + 1 + off := by intro k; omega
      simp only [e] at h
      rw [h]
      by_cases hx : x = 0 <;> simp [hx]
  have := key scalars 0 0
  simpa using this

/-- `NewPrecompMSM`: exactly 256 points, a 16-bit table for the first `window16vs8IndexLimit`
points and an 8-bit table for the others, each built by `NewPrecompPoint`, errors passed on -/
theorem newPrecompMSM_body : Gen.PrecompFull.newPrecompMSMBody =
    ["if len(points) != supportedMSMLength { return MSMPrecomp{}, fmt.Errorf(\"the number of points must be %d\", supportedMSMLength) }",
     "var err error", "var precompPoints [supportedMSMLength]PrecompPoint",
     "for i := 0; i < supportedMSMLength; i++ { windowSize := 8 if i < window16vs8IndexLimit { windowSize = 16 } precompPoints[i], err = NewPrecompPoint(points[i], windowSize) if err != nil { return MSMPrecomp{}, fmt.Errorf(\"creating precomputed table for point: %s\", err) } }",
     "return MSMPrecomp{ precompPoints: precompPoints, }, nil"] := by decide +kernel

end GoIpa.Tie.PrecompFull
