/-
  Tie T1 for C16, second part: the encoders `Bytes` / `BytesLE` of `bandersnatch/fr/element.go`
  (translated in `Gen/FrCodec.lean`) and the statements that connect the translated codecs with
  the model's (`Model/Codec.lean`, `Zp.bytesBE`, `Zp.bytesLE`).
-/
import GoIpa.Tie.FrCodec
import GoIpa.Props.C16
namespace GoIpa.Tie.FrCodec
open GoIpa GoIpa.Limbs GoIpa.Cios GoIpa.Gen.FrCodec

/-! ### encoders -/

theorem natToLE_length (len n : Nat) : (natToLE len n).length = len := by
  induction len generalizing n with
  | zero => simp [natToLE]
  | succ k ih => simp [natToLE, ih]

theorem natToLE_add (a b n : Nat) : natToLE (a + b) n = natToLE a n ++ natToLE b (n / 256 ^ a) := by
  induction a generalizing n with
  | zero => simp [natToLE]
  | succ a ih =>
    have : a + 1 + b = (a + b) + 1 := by omega
    rw [this]
    simp only [natToLE, List.cons_append, ih (n / 256)]
    rw [Nat.div_div_eq_div_mul, Nat.pow_succ']

theorem natToLE_mod (a n : Nat) : natToLE a (n % 256 ^ a) = natToLE a n := by
  induction a generalizing n with
  | zero => simp [natToLE]
  | succ a ih =>
    simp only [natToLE]
    have h1 : n % 256 ^ (a + 1) % 256 = n % 256 :=
      Nat.mod_mod_of_dvd n (Dvd.intro_left (256 ^ a) (Nat.pow_succ ..).symm)
    have h2 : n % 256 ^ (a + 1) / 256 = n / 256 % 256 ^ a := by
      rw [Nat.pow_succ']; exact Nat.mod_mul_right_div_self n 256 (256 ^ a)
    rw [h1, h2, ih]

theorem W_pow : W = 256 ^ 8 := by decide

/-- the 32 little-endian bytes of a 4-limb value are the 8 bytes of each limb, in order -/
theorem natToLE_limbs (w : L4) (hw : w.ok) :
    natToLE 32 w.val = natToLE 8 w.l0 ++ (natToLE 8 w.l1 ++ (natToLE 8 w.l2 ++ natToLE 8 w.l3)) := by
  obtain ⟨h0, h1, h2, h3⟩ := hw
  have e1 : natToLE 32 w.val = natToLE 8 w.val ++ natToLE 24 (w.val / 256 ^ 8) := natToLE_add 8 24 w.val
  have e2 : natToLE 24 (w.val / 256 ^ 8) = natToLE 8 (w.val / 256 ^ 8) ++ natToLE 16 (w.val / 256 ^ 8 / 256 ^ 8) :=
    natToLE_add 8 16 _
  have e3 : natToLE 16 (w.val / 256 ^ 8 / 256 ^ 8) =
      natToLE 8 (w.val / 256 ^ 8 / 256 ^ 8) ++ natToLE 8 (w.val / 256 ^ 8 / 256 ^ 8 / 256 ^ 8) := natToLE_add 8 8 _
  rw [e1, e2, e3]
  rw [← natToLE_mod 8 w.val, ← natToLE_mod 8 (w.val / 256 ^ 8), ← natToLE_mod 8 (w.val / 256 ^ 8 / 256 ^ 8),
    ← natToLE_mod 8 (w.val / 256 ^ 8 / 256 ^ 8 / 256 ^ 8)]
  have v0 : w.val % 256 ^ 8 = w.l0 := by unfold L4.val W at *; omega
  have v1 : w.val / 256 ^ 8 % 256 ^ 8 = w.l1 := by unfold L4.val W at *; omega
  have v2 : w.val / 256 ^ 8 / 256 ^ 8 % 256 ^ 8 = w.l2 := by unfold L4.val W at *; omega
  have v3 : w.val / 256 ^ 8 / 256 ^ 8 / 256 ^ 8 % 256 ^ 8 = w.l3 := by unfold L4.val W at *; omega
  rw [v0, v1, v2, v3]

theorem len8 {α : Type} (l : List α) (h : l.length = 8) : ∃ a b c d e f g k, l = [a, b, c, d, e, f, g, k] := by
  rcases l with _ | ⟨a, _ | ⟨b, _ | ⟨c, _ | ⟨d, _ | ⟨e, _ | ⟨f, _ | ⟨g, _ | ⟨k, _ | ⟨x, t⟩⟩⟩⟩⟩⟩⟩⟩⟩ <;>
    first
    | exact ⟨_, _, _, _, _, _, _, _, rfl⟩
    | (simp at h)

/-- four 8-byte stores at 24, 16, 8, 0 into a zeroed 32-byte array -/
theorem put4 (A B C D : Bytes) (hA : A.length = 8) (hB : B.length = 8) (hC : C.length = 8) (hD : D.length = 8) :
    let res : Bytes := List.replicate 32 0
    let res := res.take 24 ++ A ++ res.drop (24 + 8)
    let res := res.take 16 ++ B ++ res.drop (16 + 8)
    let res := res.take 8 ++ C ++ res.drop (8 + 8)
    let res := res.take 0 ++ D ++ res.drop (0 + 8)
    res = D ++ (C ++ (B ++ A)) := by
  obtain ⟨a0, a1, a2, a3, a4, a5, a6, a7, rfl⟩ := len8 A hA
  obtain ⟨b0, b1, b2, b3, b4, b5, b6, b7, rfl⟩ := len8 B hB
  obtain ⟨c0, c1, c2, c3, c4, c5, c6, c7, rfl⟩ := len8 C hC
  obtain ⟨d0, d1, d2, d3, d4, d5, d6, d7, rfl⟩ := len8 D hD
  rfl

theorem limb_0 (w : L4) : Big.limb w (0 : Int) = w.l0 := rfl
theorem limb_1 (w : L4) : Big.limb w (1 : Int) = w.l1 := rfl
theorem limb_2 (w : L4) : Big.limb w (2 : Int) = w.l2 := rfl
theorem limb_3 (w : L4) : Big.limb w (3 : Int) = w.l3 := rfl
theorem zeros32 : Big.zeros (codecLimbs * 8) = List.replicate 32 0 := rfl
theorem putBE_nat (res : Bytes) (lo : Nat) (hi : Int) (v : Nat) :
    Big.putBE res (lo : Int) hi v = res.take lo ++ (natToLE 8 v).reverse ++ res.drop (lo + 8) := rfl
theorem putLE_nat (res : Bytes) (lo : Nat) (hi : Int) (v : Nat) :
    Big.putLE res (lo : Int) hi v = res.take lo ++ natToLE 8 v ++ res.drop (lo + 8) := rfl

/-- the store sequence of `Bytes` on a limb vector -/
theorem bytes_limbs (w : L4) (hw : w.ok) :
    Big.putBE (Big.putBE (Big.putBE (Big.putBE (List.replicate 32 0) (24 : Int) (32 : Int) w.l0)
      (16 : Int) (24 : Int) w.l1) (8 : Int) (16 : Int) w.l2) (0 : Int) (8 : Int) w.l3 = natToBE 32 w.val := by
  have e24 : (24 : Int) = ((24 : Nat) : Int) := rfl
  have e16 : (16 : Int) = ((16 : Nat) : Int) := rfl
  have e8 : (8 : Int) = ((8 : Nat) : Int) := rfl
  have e0 : (0 : Int) = ((0 : Nat) : Int) := rfl
  rw [e24, putBE_nat, e16, putBE_nat, e8, putBE_nat, e0, putBE_nat]
  have := put4 (natToLE 8 w.l0).reverse (natToLE 8 w.l1).reverse (natToLE 8 w.l2).reverse (natToLE 8 w.l3).reverse
    (by simp [natToLE_length]) (by simp [natToLE_length]) (by simp [natToLE_length]) (by simp [natToLE_length])
  simp only at this
  rw [this]
  unfold natToBE
  rw [natToLE_limbs w hw]
  simp only [List.reverse_append, List.append_assoc]

theorem bytesLE_limbs (w : L4) (hw : w.ok) :
    Big.putLE (Big.putLE (Big.putLE (Big.putLE (List.replicate 32 0) (24 : Int) (32 : Int) w.l3)
      (16 : Int) (24 : Int) w.l2) (8 : Int) (16 : Int) w.l1) (0 : Int) (8 : Int) w.l0 = natToLE 32 w.val := by
  have e24 : (24 : Int) = ((24 : Nat) : Int) := rfl
  have e16 : (16 : Int) = ((16 : Nat) : Int) := rfl
  have e8 : (8 : Int) = ((8 : Nat) : Int) := rfl
  have e0 : (0 : Int) = ((0 : Nat) : Int) := rfl
  rw [e24, putLE_nat, e16, putLE_nat, e8, putLE_nat, e0, putLE_nat]
  have := put4 (natToLE 8 w.l3) (natToLE 8 w.l2) (natToLE 8 w.l1) (natToLE 8 w.l0)
    (natToLE_length _ _) (natToLE_length _ _) (natToLE_length _ _) (natToLE_length _ _)
  simp only at this
  rw [this, natToLE_limbs w hw]

/-- **`Bytes`**: the 32-byte big-endian encoding of the regular (non-Montgomery) value -/
theorem bytes_spec (z : L4) (hz : z.ok) : go_Bytes z = natToBE 32 (fromMontG z).val := by
  obtain ⟨wok, _, _⟩ := fromMontG_correct z hz
  unfold go_Bytes go_ToRegular go_FromMont
  generalize fromMontG z = w at *
  show Big.putBE (Big.putBE (Big.putBE (Big.putBE (Big.zeros (codecLimbs * 8)) (24 : Int) (32 : Int) (Big.limb w (0 : Int)))
      (16 : Int) (24 : Int) (Big.limb w (1 : Int))) (8 : Int) (16 : Int) (Big.limb w (2 : Int))) (0 : Int) (8 : Int)
      (Big.limb w (3 : Int)) = natToBE 32 w.val
  rw [zeros32, limb_0, limb_1, limb_2, limb_3]
  exact bytes_limbs w wok

/-- **`BytesLE`**: the 32-byte little-endian encoding of the regular value -/
theorem bytesLE_spec (z : L4) (hz : z.ok) : go_BytesLE z = natToLE 32 (fromMontG z).val := by
  obtain ⟨wok, _, _⟩ := fromMontG_correct z hz
  unfold go_BytesLE go_ToRegular go_FromMont
  generalize fromMontG z = w at *
  show Big.putLE (Big.putLE (Big.putLE (Big.putLE (Big.zeros (codecLimbs * 8)) (24 : Int) (32 : Int) (Big.limb w (3 : Int)))
      (16 : Int) (24 : Int) (Big.limb w (2 : Int))) (8 : Int) (16 : Int) (Big.limb w (1 : Int))) (0 : Int) (8 : Int)
      (Big.limb w (0 : Int)) = natToLE 32 w.val
  rw [zeros32, limb_0, limb_1, limb_2, limb_3]
  exact bytesLE_limbs w wok

/-! ### the translated codecs are the model's codecs (`Model/Codec.lean`) -/

/-- **`SetBytes` = `Fr.setBytes`** — for every byte string of every length, every old value of
the receiver and of the pooled `big.Int`, the scalar the returned limbs stand for is the model's. -/
theorem setBytes_eq (pool : Int) (z : L4) (e : Bytes) :
    (fromMontG (go_SetBytes pool z e)).val = (Fr.setBytes e).val := by
  obtain ⟨hr, _, ok⟩ := setBytes_spec pool z e
  rw [(fromMontG_repr _ _ ok hr).1, Nat.mod_mod]; rfl

/-- **`SetBytesLE` = `Fr.setBytesLE`** -/
theorem setBytesLE_eq (pool : Int) (z : L4) (e : Bytes) :
    (fromMontG (go_SetBytesLE pool z e)).val = (Fr.setBytesLE e).val := by
  obtain ⟨hr, _, ok⟩ := setBytesLE_spec pool z e
  rw [(fromMontG_repr _ _ ok hr).1, Nat.mod_mod]; rfl

/-- **`SetBytesLECanonical` = `Fr.setBytesLECanonical`**: same acceptance set (`leNat e < r`), same scalar -/
theorem setBytesLECanonical_eq (pool : Int) (z : L4) (e : Bytes) :
    (go_SetBytesLECanonical pool z e).map (fun x => (fromMontG x).val) =
      (Fr.setBytesLECanonical e).map (fun s => s.val) := by
  obtain ⟨hacc, hrej⟩ := setBytesLECanonical_spec pool z e
  unfold Fr.setBytesLECanonical
  by_cases h : leNat e < R
  · obtain ⟨x, hx, hr, _, ok⟩ := hacc h
    rw [hx, dif_pos h]
    simp only [Option.map_some]
    rw [(fromMontG_repr _ _ ok hr).1, Nat.mod_eq_of_lt h]
  · rw [hrej h, dif_neg h]; rfl

/-- **`Bytes` = `Zp.bytesBE`**, **`BytesLE` = `Zp.bytesLE`** on every Montgomery representation of a scalar -/
theorem bytes_eq (z : L4) (hz : z.ok) (s : Fr) (h : Cios.Repr z s.val) : go_Bytes z = s.bytesBE := by
  rw [bytes_spec z hz, (fromMontG_repr z s.val hz h).1, Nat.mod_eq_of_lt s.lt]; rfl
theorem bytesLE_eq (z : L4) (hz : z.ok) (s : Fr) (h : Cios.Repr z s.val) : go_BytesLE z = s.bytesLE := by
  rw [bytesLE_spec z hz, (fromMontG_repr z s.val hz h).1, Nat.mod_eq_of_lt s.lt]; rfl

theorem val_inj (x y : L4) (hx : x.ok) (hy : y.ok) (h : x.val = y.val) : x = y := by
  obtain ⟨a0, a1, a2, a3⟩ := x
  obtain ⟨b0, b1, b2, b3⟩ := y
  unfold L4.ok L4.val W at *
  simp only at *
  have : a0 = b0 ∧ a1 = b1 ∧ a2 = b2 ∧ a3 = b3 := by omega
  obtain ⟨rfl, rfl, rfl, rfl⟩ := this
  rfl

theorem R_lt_256 : R < 256 ^ 32 := by decide

/-- **Round trip on the translated code, at the level of the limbs**: encoding a fully reduced
element with `Bytes` (resp. `BytesLE`) and decoding the 32 bytes with `SetBytes` (resp. `SetBytesLE`,
`SetBytesLECanonical`) gives the same four limbs back, whatever the receiver and the pool held. -/
theorem setBytes_bytes_limbs (pool : Int) (z' z : L4) (hz : z.ok) (hr : z.val < R) :
    go_SetBytes pool z' (go_Bytes z) = z := by
  obtain ⟨wok, wlt, we⟩ := fromMontG_correct z hz
  obtain ⟨hrep, hlt, ok⟩ := setBytes_spec pool z' (go_Bytes z)
  apply val_inj _ _ ok hz
  have hb : beNat (go_Bytes z) % R = (fromMontG z).val := by
    rw [bytes_spec z hz, C16.beNat_natToBE 32 _ (Nat.lt_trans wlt R_lt_256), Nat.mod_eq_of_lt wlt]
  rw [hb] at hrep
  have h1 : (go_SetBytes pool z' (go_Bytes z)).val ≡ z.val [MOD R] := by
    have we' : (fromMontG z).val * R256 ≡ z.val [MOD R] := we
    unfold Cios.Repr at hrep
    exact Nat.ModEq.trans hrep we'
  have h2 : (go_SetBytes pool z' (go_Bytes z)).val % R = z.val % R := h1
  rwa [Nat.mod_eq_of_lt hlt, Nat.mod_eq_of_lt hr] at h2

theorem setBytesLE_bytesLE_limbs (pool : Int) (z' z : L4) (hz : z.ok) (hr : z.val < R) :
    go_SetBytesLE pool z' (go_BytesLE z) = z := by
  obtain ⟨wok, wlt, we⟩ := fromMontG_correct z hz
  obtain ⟨hrep, hlt, ok⟩ := setBytesLE_spec pool z' (go_BytesLE z)
  apply val_inj _ _ ok hz
  have hb : leNat (go_BytesLE z) % R = (fromMontG z).val := by
    rw [bytesLE_spec z hz, C16.leNat_natToLE 32 _ (Nat.lt_trans wlt R_lt_256), Nat.mod_eq_of_lt wlt]
  rw [hb] at hrep
  have h1 : (go_SetBytesLE pool z' (go_BytesLE z)).val ≡ z.val [MOD R] := by
    have we' : (fromMontG z).val * R256 ≡ z.val [MOD R] := we
    unfold Cios.Repr at hrep
    exact Nat.ModEq.trans hrep we'
  have h2 : (go_SetBytesLE pool z' (go_BytesLE z)).val % R = z.val % R := h1
  rwa [Nat.mod_eq_of_lt hlt, Nat.mod_eq_of_lt hr] at h2

theorem setBytesLECanonical_bytesLE_limbs (pool : Int) (z' z : L4) (hz : z.ok) (hr : z.val < R) :
    go_SetBytesLECanonical pool z' (go_BytesLE z) = some z := by
  obtain ⟨wok, wlt, we⟩ := fromMontG_correct z hz
  have hle : leNat (go_BytesLE z) = (fromMontG z).val := by
    rw [bytesLE_spec z hz, C16.leNat_natToLE 32 _ (Nat.lt_trans wlt R_lt_256)]
  obtain ⟨x, hx, hrep, hlt, ok⟩ := (setBytesLECanonical_spec pool z' (go_BytesLE z)).1 (by rw [hle]; exact wlt)
  rw [hx]; refine congrArg some ?_
  apply val_inj _ _ ok hz
  rw [hle] at hrep
  have h1 : x.val ≡ z.val [MOD R] := by
    have we' : (fromMontG z).val * R256 ≡ z.val [MOD R] := we
    unfold Cios.Repr at hrep
    exact Nat.ModEq.trans hrep we'
  have h2 : x.val % R = z.val % R := h1
  rwa [Nat.mod_eq_of_lt hlt, Nat.mod_eq_of_lt hr] at h2

/-- nothing emitted by the translator is left without a theorem -/
theorem coverage : translated = ["SetZero", "ToMont", "FromMont", "ToRegular", "setBigInt", "SetBigInt",
    "SetBytes", "SetBytesLE", "SetBytesLECanonical", "Bytes", "BytesLE"] ∧ uintSize64Only = true := by decide

/-! non-vacuity: the Montgomery form of 1 (`SetOne`'s limbs) is fully reduced and encodes to 00…01 -/
example : go_Bytes ⟨6347764673676886264, 253265890806062196, 11064306276430008312, 1739710354780652911⟩ = natToBE 32 1 := by
  decide +kernel

end GoIpa.Tie.FrCodec
