/-
  Tie T1 for C16 (and the conversions of C15): the byte codecs of `bandersnatch/fr/element.go` —
  `SetBytes`, `SetBytesLE`, `SetBytesLECanonical`, `SetBigInt`, `setBigInt`, `Bytes`, `BytesLE`,
  `SetZero`, `ToMont`, `FromMont`, `ToRegular` — translated statement by statement from the
  current source (`Gen/FrCodec.lean`), are the model's codecs (`Model/Codec.lean`) at the level
  of the 64-bit limbs: whatever the pooled `big.Int` and the receiver held before,

  * the decoders return the Montgomery representation (`Cios.Repr`, fully reduced limbs) of
    `beNat e % r` resp. `leNat e % r`; the canonical decoder fails exactly for `leNat e ≥ r`;
  * the encoders return `natToBE 32 v` / `natToLE 32 v` for the residue `v` the limbs represent.

  The limb routines `Mul` / `fromMont` are the `mulG` / `fromMontG` of C15 (`Cios.mulG_correct`,
  `fromMontG_correct`; tied to `_mulGeneric` / `_fromMontGeneric` by `Tie.FrLimbs`).
-/
import GoIpa.Gen.FrCodec
import GoIpa.Lemmas.Cios
import GoIpa.Lemmas.LoopLemmas
import GoIpa.Model.Codec
namespace GoIpa.Tie.FrCodec
open GoIpa GoIpa.Limbs GoIpa.Cios GoIpa.Gen.FrCodec

/-! ### constants -/

theorem modulus_eq : codecModulus = (R : Int) := by decide
theorem limbs_eq : codecLimbs = 4 := rfl
theorem rSquare_ok : codecRSquare.ok ∧ codecRSquare.val < R ∧ codecRSquare.val = R256 * R256 % R := by
  refine ⟨?_, ?_, ?_⟩
  · unfold L4.ok; decide +kernel
  · decide +kernel
  · decide +kernel

/-! ### `big.Int.Bits` -/

theorem wordsLE_getD (n i : Nat) : (Big.wordsLE n).getD i 0 = n / W ^ i % W := by
  induction n using Nat.strong_induction_on generalizing i with
  | _ n ih =>
    rw [Big.wordsLE]
    split
    · next h => subst h; simp
    · next h =>
      cases i with
      | zero => simp
      | succ i =>
        have hlt : n / W < n := Nat.div_lt_self (Nat.pos_of_ne_zero h) (by decide)
        simp only [List.getD_cons_succ]
        rw [ih (n / W) hlt i, Nat.div_div_eq_div_mul, Nat.pow_succ, Nat.mul_comm]

theorem wordsLE_length (k n : Nat) (h : n < W ^ k) : (Big.wordsLE n).length ≤ k := by
  induction k generalizing n with
  | zero =>
    have : n = 0 := by simpa using h
    subst this; rw [Big.wordsLE]; simp
  | succ k ih =>
    rw [Big.wordsLE]
    split
    · simp
    · have : n / W < W ^ k := by
        rw [Nat.pow_succ] at h
        exact Nat.div_lt_of_lt_mul (by rw [Nat.mul_comm]; exact h)
      have := ih (n / W) this
      simp only [List.length_cons]; omega

/-- the limb loop of `setBigInt` on a zeroed receiver stores the 256-bit value -/
theorem setLimbs_loop (n : Nat) (h : n < W ^ 4) :
    Loop.forUp 0 ((Big.wordsLE n).length : Int) (⟨0, 0, 0, 0⟩ : L4)
      (fun i z => Big.setLimb z i (Loop.get (Big.wordsLE n) i 0)) = Limbs.ofNat n := by
  have hlen := wordsLE_length 4 n h
  have g0 := wordsLE_getD n 0
  have g1 := wordsLE_getD n 1
  have g2 := wordsLE_getD n 2
  have g3 := wordsLE_getD n 3
  generalize Big.wordsLE n = ws at *
  have hd : ∀ j, ws.length ≤ j → ws.getD j 0 = 0 := fun j hj => by
    simp [List.getD_eq_getElem?_getD, List.getElem?_eq_none hj]
  rw [Loop.forUp_zero]
  unfold Limbs.ofNat
  simp only [Nat.pow_zero, Nat.div_one, Nat.pow_one] at g0 g1
  have e2 : W ^ 2 = W * W := by decide
  have e3 : W ^ 3 = W * W * W := by decide
  rw [e2] at g2; rw [e3] at g3
  rw [← g0, ← g1, ← g2, ← g3]
  have hc : ws.length = 0 ∨ ws.length = 1 ∨ ws.length = 2 ∨ ws.length = 3 ∨ ws.length = 4 := by omega
  rcases hc with hc | hc | hc | hc | hc <;> rw [hc] <;>
    simp [List.range_succ, Big.setLimb, Loop.get, hc]


/-! ### `setBigInt`, `SetBigInt` -/

theorem W4 : W ^ 4 = R256 := by decide
theorem R_lt_W4 : R < W ^ 4 := by decide

theorem setZero_eq (z : L4) : go_SetZero z = ⟨0, 0, 0, 0⟩ := by
  simp [go_SetZero, Big.setLimb]

/-- `ToMont` of a 256-bit value `n < 2^256` (limbs = the value itself) is the Montgomery
representation of `n` -/
theorem toMont_repr (n : Nat) (h : n < W ^ 4) :
    Cios.Repr (go_ToMont (Limbs.ofNat n)) n ∧ (go_ToMont (Limbs.ofNat n)).val < R ∧ (go_ToMont (Limbs.ofNat n)).ok := by
  have hW : W ^ 4 = W * W * W * W := by decide
  obtain ⟨ok, hv⟩ : (Limbs.ofNat n).ok ∧ (Limbs.ofNat n).val = n := by
    unfold Limbs.ofNat L4.ok L4.val
    rw [hW] at h
    dsimp only
    unfold W at *
    omega
  obtain ⟨rok, rlt, rval⟩ := rSquare_ok
  obtain ⟨mok, mlt, me⟩ := mulG_correct (Limbs.ofNat n) codecRSquare ok rok rlt
  refine ⟨?_, mlt, mok⟩
  unfold go_ToMont Cios.Repr
  have h1 : (mulG (Limbs.ofNat n) codecRSquare).val * R256 ≡ n * (R256 * R256) [MOD R] := by
    have : (mulG (Limbs.ofNat n) codecRSquare).val * R256 ≡ (Limbs.ofNat n).val * codecRSquare.val [MOD R] := me
    rw [hv, rval] at this
    exact this.trans (Nat.ModEq.mul_left n (Nat.mod_modEq _ _))
  have h2 : (mulG (Limbs.ofNat n) codecRSquare).val * R256 ≡ (n * R256) * R256 [MOD R] := by
    rw [Nat.mul_assoc]; exact h1
  exact Nat.ModEq.cancel_right_of_coprime gcd_radix h2

/-- `setBigInt` on a zeroed receiver, for `0 ≤ v < 2^256` -/
theorem setBigInt_repr (v : Int) (h0 : 0 ≤ v) (h : v < (W ^ 4 : Nat)) :
    Cios.Repr (go_setBigInt ⟨0, 0, 0, 0⟩ v) v.toNat ∧ (go_setBigInt ⟨0, 0, 0, 0⟩ v).val < R ∧
      (go_setBigInt ⟨0, 0, 0, 0⟩ v).ok := by
  have hn : v.natAbs = v.toNat := by omega
  have hlt : v.toNat < W ^ 4 := by omega
  unfold go_setBigInt Big.bits
  simp only [hn]
  rw [setLimbs_loop v.toNat hlt]
  exact toMont_repr v.toNat hlt

theorem zero_repr : Cios.Repr (⟨0, 0, 0, 0⟩ : L4) 0 ∧ (⟨0, 0, 0, 0⟩ : L4).val < R ∧ (⟨0, 0, 0, 0⟩ : L4).ok := by
  refine ⟨?_, ?_, ?_⟩
  · unfold Cios.Repr; decide
  · decide
  · unfold L4.ok; decide

theorem cmp_eq_zero (a b : Int) : Big.cmp a b = 0 ↔ a = b := by
  unfold Big.cmp; split
  · constructor <;> intro h <;> omega
  · split <;> simp_all
theorem cmp_ne_one (a b : Int) : Big.cmp a b ≠ 1 ↔ a ≤ b := by
  unfold Big.cmp; split
  · constructor <;> intro h <;> omega
  · split
    · constructor <;> intro h <;> omega
    · constructor <;> intro h <;> omega
theorem cmp_ne_negOne (a b : Int) : Big.cmp a b ≠ -1 ↔ b ≤ a := by
  unfold Big.cmp; split
  · constructor <;> intro h <;> omega
  · split
    · constructor <;> intro h <;> omega
    · constructor <;> intro h <;> omega

/-- **`SetBigInt`**: for every integer `v` (negative, `≥ r`, …), every old value of the receiver
and of the pooled temporary: the Montgomery representation of `v mod r`, fully reduced. -/
theorem setBigInt_spec (pool : Int) (z : L4) (v : Int) :
    Cios.Repr (go_SetBigInt pool z v) (v.emod R).toNat ∧ (go_SetBigInt pool z v).val < R ∧
      (go_SetBigInt pool z v).ok := by
  have hR : (0 : Int) < R := by decide
  have hRW : (R : Int) < (W ^ 4 : Nat) := by decide
  have hm0 : 0 ≤ v.emod R := Int.emod_nonneg v (by omega)
  have hm1 : v.emod R < R := Int.emod_lt_of_pos v hR
  unfold go_SetBigInt
  simp only [setZero_eq, modulus_eq, Big.mod, cmp_eq_zero, cmp_ne_one, cmp_ne_negOne]
  split
  · next heq =>
    subst heq
    have : (R : Int).emod R = 0 := Int.emod_self
    rw [this]
    exact zero_repr
  · split
    · next h =>
      have hem : v.emod R = v := Int.emod_eq_of_lt h.2 (by omega)
      rw [hem]
      exact setBigInt_repr v h.2 (by omega)
    · exact setBigInt_repr _ hm0 (by omega)

/-! ### decoders -/

theorem emod_cast (n : Nat) : ((n : Int).emod (R : Int)).toNat = n % R := by
  have : (n : Int).emod (R : Int) = ((n % R : Nat) : Int) := (Int.natCast_mod n R).symm
  rw [this, Int.toNat_natCast]

/-- **`SetBytes`** (big-endian, any length): the Montgomery representation of `beNat e mod r` -/
theorem setBytes_spec (pool : Int) (z : L4) (e : Bytes) :
    Cios.Repr (go_SetBytes pool z e) (beNat e % R) ∧ (go_SetBytes pool z e).val < R ∧ (go_SetBytes pool z e).ok := by
  have h := setBigInt_spec pool z (Big.setBytes e)
  unfold Big.setBytes at h
  rw [emod_cast] at h
  exact h

/-- the byte-reversing loop of the little-endian decoders (into a fresh buffer) -/
theorem reverse_loop (e : Bytes) :
    Loop.forUp 0 (e.length : Int) (Big.zeros (e.length : Int))
      (fun i be => Loop.set be (((e.length : Int) - (1 : Int)) - i) (Loop.get e i 0)) = e.reverse := by
  rw [Loop.forUp_zero]
  have key := Loop.foldl_range_inv
    (fun k (be : Bytes) => be.length = e.length ∧
      ∀ j, j < e.length → be.getD j 0 = if e.length - 1 - j < k then e.getD (e.length - 1 - j) 0 else 0)
    (fun be (k : Nat) => Loop.set be (((e.length : Int) - (1 : Int)) - (k : Int)) (Loop.get e (k : Int) 0))
    (Big.zeros (e.length : Int)) e.length
    (by
      refine ⟨by simp [Big.zeros], ?_⟩
      intro j hj
      simp [Big.zeros, List.getD_eq_getElem?_getD, hj])
    (by
      intro k be hk ⟨hl, hv⟩
      have hidx : ((e.length : Int) - 1 - (k : Int)) = ((e.length - 1 - k : Nat) : Int) := by omega
      rw [hidx, Loop.set_nat, Loop.get_nat]
      refine ⟨by simp [hl], ?_⟩
      intro j hj
      rw [Loop.getD_set]
      by_cases hjk : e.length - 1 - k = j
      · have h1 : e.length - 1 - k = j ∧ e.length - 1 - k < be.length := ⟨hjk, by omega⟩
        have h2 : e.length - 1 - j < k + 1 := by omega
        have h3 : e.length - 1 - j = k := by omega
        rw [if_pos h1, if_pos h2, h3]
      · have h1 : ¬ (e.length - 1 - k = j ∧ e.length - 1 - k < be.length) := fun h => hjk h.1
        rw [if_neg h1, hv j hj]
        by_cases h2 : e.length - 1 - j < k
        · rw [if_pos h2, if_pos (by omega)]
        · rw [if_neg h2, if_neg (by omega)])
  obtain ⟨hl, hv⟩ := key
  apply Loop.ext_getD _ _ 0 (by simp [hl])
  intro j hj
  rw [hl] at hj
  rw [hv j hj, if_pos (by omega)]
  simp only [List.getD_eq_getElem?_getD]
  rw [List.getElem?_reverse hj]

theorem beNat_reverse (e : Bytes) : beNat e.reverse = leNat e := by
  unfold beNat; rw [List.reverse_reverse]

/-- **`SetBytesLE`** (little-endian, any length): the Montgomery representation of `leNat e mod r` -/
theorem setBytesLE_spec (pool : Int) (z : L4) (e : Bytes) :
    Cios.Repr (go_SetBytesLE pool z e) (leNat e % R) ∧ (go_SetBytesLE pool z e).val < R ∧ (go_SetBytesLE pool z e).ok := by
  have h := setBigInt_spec pool z (Big.setBytes e.reverse)
  unfold Big.setBytes at h
  rw [emod_cast, beNat_reverse] at h
  unfold go_SetBytesLE
  simp only [reverse_loop, Big.setBytes, beNat_reverse]
  exact h

/-- **`SetBytesLECanonical`** fails exactly when the little-endian value is `≥ r`; otherwise it
returns the Montgomery representation of that value. -/
theorem setBytesLECanonical_spec (pool : Int) (z : L4) (e : Bytes) :
    (leNat e < R → ∃ x, go_SetBytesLECanonical pool z e = some x ∧ Cios.Repr x (leNat e) ∧ x.val < R ∧ x.ok) ∧
    (¬ leNat e < R → go_SetBytesLECanonical pool z e = none) := by
  have h := setBigInt_spec pool z (Big.setBytes e.reverse)
  unfold Big.setBytes at h
  rw [emod_cast, beNat_reverse] at h
  unfold go_SetBytesLECanonical
  simp only [reverse_loop, cmp_ne_negOne, modulus_eq, Big.setBytes, beNat_reverse]
  constructor
  · intro hlt
    have : ¬ ((R : Int) ≤ (leNat e : Int)) := by omega
    rw [if_neg this]
    refine ⟨_, rfl, ?_⟩
    rw [Nat.mod_eq_of_lt hlt] at h
    exact h
  · intro hge
    have : (R : Int) ≤ (leNat e : Int) := by omega
    rw [if_pos this]

end GoIpa.Tie.FrCodec
