/-
  Tie T1 for `PrecompPoint.ScalarMul` (`banderwagon/precomp.go`): the body of the window loop,
  translated with Go's wrapping `uint64` operations (`u64add`, `u64sub`, `u64mul`, `u64shl`) and
  abstract group operations (Gen/Formulas.lean), is the model's `precompStep` — the object of
  `C05.precompScalarMul_spec` — for every window width `1 ≤ w < 64`, every limb and window
  position and every carry; and the function around it is the plain double loop over limbs and
  windows, which enumerates the windows `0 … 4·(64/w) − 1` in order.
-/
import Mathlib.Tactic.IntervalCases
import GoIpa.Gen.Formulas
import GoIpa.Model.Precomp
import GoIpa.Tie.Selector
namespace GoIpa.Tie.Precomp
open GoIpa GoIpa.Tie.Selector GoIpa.Gen

/-- the function consists of the conversion from Montgomery form, the two declarations and the
double loop; the limb loop contains the window loop and nothing else -/
theorem shape : Gen.precompShape =
    ["numWindowsInLimb := 64 / pp.windowSize", "scalar.FromMont()", "var carry uint64",
     "var pNeg bandersnatch.PointExtendedNormalized", "for l := 0; l < fr.Limbs; l++",
     "for w := 0; w < numWindowsInLimb; w++"] := by decide

theorem u64add_eq (a b : Nat) (h : a + b < W64) : u64add a b = a + b := by
  unfold u64add; exact wrap_id _ h
theorem u64sub_eq (a b : Nat) (hb : b ≤ a) (ha : a < W64) : u64sub a b = a - b := by
  unfold u64sub; exact wrap_sub a b hb ha
theorem u64mul_eq (a b : Nat) (h : a * b < W64) : u64mul a b = a * b := by
  unfold u64mul; exact wrap_id _ h
theorem u64shl_one (b : Nat) (h : b < 64) : u64shl 1 b = 1 <<< b := by
  unfold u64shl; rw [Nat.one_shiftLeft]; exact wrap_id _ (pow_lt_W b h)

variable {G : Type} [Add G] [Neg G]
theorem limbs_getD (s l : Nat) (hl : l < 4) : [limb s 0, limb s 1, limb s 2, limb s 3].getD l 0 = limb s l := by
  interval_cases l <;> rfl

theorem precompBody_eq (ws : Nat) (hw1 : 1 ≤ ws) (hw : ws < 64) (tbl : Nat → Nat → G) (s l w : Nat) (hl : l < 4)
    (hwp : w < 64 / ws) (st : G × Nat) (hst : st.2 ≤ 1) :
    Gen.precompBody ws (64 / ws) tbl [limb s 0, limb s 1, limb s 2, limb s 3] l w st.1 st.2
      = precompStep ws tbl s st (l * (64 / ws) + w) := by
  obtain ⟨acc, carry⟩ := st
  have hc : carry ≤ 1 := hst
  show Gen.precompBody ws (64 / ws) tbl [limb s 0, limb s 1, limb s 2, limb s 3] l w acc carry
      = precompStep ws tbl s (acc, carry) (l * (64 / ws) + w)
  have hper : 0 < 64 / ws := Nat.div_pos (by omega) (by omega)
  have hk1 : (l * (64 / ws) + w) / (64 / ws) = l := by
    rw [Nat.add_comm, Nat.add_mul_div_right _ _ hper, Nat.div_eq_of_lt hwp, Nat.zero_add]
  have hk2 : (l * (64 / ws) + w) % (64 / ws) = w := by
    rw [Nat.add_comm, Nat.add_mul_mod_self_right, Nat.mod_eq_of_lt hwp]
  have hpw := pow_lt_W ws hw
  have hww : ws * w < 64 := by
    have : ws * w < ws * (64 / ws) := Nat.mul_lt_mul_of_pos_left hwp (by omega)
    have := Nat.mul_div_le 64 ws
    omega
  have hlper : l * (64 / ws) + w < 256 := by
    have h1 : 64 / ws ≤ 64 := Nat.div_le_self _ _
    have : l * (64 / ws) ≤ 3 * (64 / ws) := Nat.mul_le_mul_right _ (by omega)
    omega
  have hW : W64 = 18446744073709551616 := rfl
  have e_sh : u64mul ws w = ws * w := u64mul_eq _ _ (by omega)
  have e_one : u64shl 1 ws = 1 <<< ws := u64shl_one ws hw
  have e_mask : u64sub (1 <<< ws) 1 = (1 <<< ws) - 1 :=
    u64sub_eq _ _ (by rw [Nat.one_shiftLeft]; exact Nat.one_le_two_pow) (by rw [Nat.one_shiftLeft]; exact hpw)
  have hraw : ((limb s l) >>> (ws * w)) &&& ((1 <<< ws) - 1) = windowRaw ws s (l * (64 / ws) + w) := by
    unfold windowRaw; simp only [hk1, hk2]
  have hrawlt : windowRaw ws s (l * (64 / ws) + w) < 2 ^ ws := by
    rw [← hraw, Nat.one_shiftLeft, Nat.and_two_pow_sub_one_eq_mod]
    exact Nat.mod_lt _ (Nat.two_pow_pos ws)
  have e_sum : u64add (windowRaw ws s (l * (64 / ws) + w)) carry = windowRaw ws s (l * (64 / ws) + w) + carry :=
    u64add_eq _ _ (by omega)
  have e_w1 : u64sub ws 1 = ws - 1 := u64sub_eq _ _ hw1 (by omega)
  have e_thr : u64shl 1 (ws - 1) = 1 <<< (ws - 1) := u64shl_one _ (by omega)
  have e_lm : u64mul l (64 / ws) = l * (64 / ws) := u64mul_eq _ _ (by omega)
  have e_idx : u64add (l * (64 / ws)) w = l * (64 / ws) + w := u64add_eq _ _ (by omega)
  unfold Gen.precompBody precompStep
  rw [limbs_getD s l hl, e_sh, e_one, e_mask, hraw, e_sum, e_w1, e_thr, e_lm, e_idx]
  generalize hv : windowRaw ws s (l * (64 / ws) + w) + carry = v at *
  have hvle : v ≤ 2 ^ ws := by omega
  have e_v' : u64sub (1 <<< ws) v = 1 <<< ws - v :=
    u64sub_eq _ _ (by rw [Nat.one_shiftLeft]; exact hvle) (by rw [Nat.one_shiftLeft]; exact hpw)
  simp only [e_v']
  by_cases h0 : v = 0
  · simp [h0]
  · have e_m1 : u64sub v 1 = v - 1 := u64sub_eq _ _ (by omega) (by omega)
    simp only [h0, decide_false, Bool.false_eq_true, ↓reduceIte, e_m1]
    by_cases hgt : v > 1 <<< (ws - 1)
    · simp only [hgt, decide_true, ↓reduceIte]
      by_cases hne : 1 <<< ws - v ≠ 0
      · have e_m2 : u64sub (1 <<< ws - v) 1 = 1 <<< ws - v - 1 :=
          u64sub_eq _ _ (by omega) (by rw [Nat.one_shiftLeft]; omega)
        simp only [hne, decide_true, ↓reduceIte, e_m2, ne_eq, not_false_eq_true]
      · simp only [hne, decide_false, Bool.false_eq_true, ↓reduceIte]
    · simp only [hgt, decide_false, Bool.false_eq_true, ↓reduceIte]

/-- the double loop `for l < m { for w < n { f (l·n + w) } }` is the single loop over `m·n` windows -/
theorem fold_double {σ : Type} (f : σ → Nat → σ) (n m : Nat) (init : σ) :
    (List.range m).foldl (fun st l => (List.range n).foldl (fun st w => f st (l * n + w)) st) init
      = (List.range (m * n)).foldl f init := by
  induction m with
  | zero => simp
  | succ m ih =>
    rw [List.range_succ, List.foldl_append, ih, Nat.succ_mul, List.range_add, List.foldl_append, List.foldl_map]
    rfl

/-- invariant of the carry: every step leaves it 0 or 1 -/
theorem precompStep_carry (ws : Nat) (tbl : Nat → Nat → G) (s : Nat) (st : G × Nat) (k : Nat) (h : st.2 ≤ 1) :
    (precompStep ws tbl s st k).2 ≤ 1 := by
  unfold precompStep
  dsimp only
  split
  · exact h
  · split <;> simp

/-- **The double loop of the code, with the translated body, is the model's `precompScalarMul`**
for every window width dividing 64 (the widths in use are 8 and 16). -/
theorem scalarMul_eq (ws : Nat) (hw1 : 1 ≤ ws) (hw : ws < 64) (hdvd : ws ∣ 64) (tbl : Nat → Nat → G) (s : Nat) (acc : G) :
    ((List.range 4).foldl (fun st l => (List.range (64 / ws)).foldl (fun st w =>
        Gen.precompBody ws (64 / ws) tbl [limb s 0, limb s 1, limb s 2, limb s 3] l w st.1 st.2) st) (acc, 0)).1
      = precompScalarMul ws tbl s acc := by
  have hcount : 4 * (64 / ws) = 256 / ws := (Nat.mul_div_assoc 4 hdvd).symm
  unfold precompScalarMul
  rw [← hcount, ← fold_double (precompStep ws tbl s) (64 / ws) 4 (acc, 0)]
  -- both double loops agree step by step on states with carry ≤ 1
  have inner : ∀ (l : Nat), l < 4 → ∀ (n : Nat), n ≤ 64 / ws → ∀ st : G × Nat, st.2 ≤ 1 →
      (List.range n).foldl (fun st w => Gen.precompBody ws (64 / ws) tbl [limb s 0, limb s 1, limb s 2, limb s 3] l w st.1 st.2) st
        = (List.range n).foldl (fun st w => precompStep ws tbl s st (l * (64 / ws) + w)) st ∧
      ((List.range n).foldl (fun st w => precompStep ws tbl s st (l * (64 / ws) + w)) st).2 ≤ 1 := by
    intro l hl n
    induction n with
    | zero => intro _ st hst; simp only [List.range_zero, List.foldl_nil]; exact ⟨trivial, hst⟩
    | succ n ih =>
      intro hn st hst
      obtain ⟨e, hc⟩ := ih (by omega) st hst
      rw [List.range_succ, List.foldl_append, List.foldl_append, e]
      refine ⟨?_, precompStep_carry ws tbl s _ _ hc⟩
      simp only [List.foldl_cons, List.foldl_nil]
      exact precompBody_eq ws hw1 hw tbl s l n hl (by omega) _ hc
  have outer : ∀ (m : Nat), m ≤ 4 → ∀ st : G × Nat, st.2 ≤ 1 →
      (List.range m).foldl (fun st l => (List.range (64 / ws)).foldl (fun st w =>
          Gen.precompBody ws (64 / ws) tbl [limb s 0, limb s 1, limb s 2, limb s 3] l w st.1 st.2) st) st
        = (List.range m).foldl (fun st l => (List.range (64 / ws)).foldl (fun st w => precompStep ws tbl s st (l * (64 / ws) + w)) st) st ∧
      ((List.range m).foldl (fun st l => (List.range (64 / ws)).foldl (fun st w => precompStep ws tbl s st (l * (64 / ws) + w)) st) st).2 ≤ 1 := by
    intro m
    induction m with
    | zero => intro _ st hst; simp only [List.range_zero, List.foldl_nil]; exact ⟨trivial, hst⟩
    | succ m ih =>
      intro hm st hst
      obtain ⟨e, hc⟩ := ih (by omega) st hst
      rw [List.range_succ, List.foldl_append, List.foldl_append, e]
      simp only [List.foldl_cons, List.foldl_nil]
      exact inner m (by omega) (64 / ws) (Nat.le_refl _) _ hc
  rw [(outer 4 (Nat.le_refl _) (acc, 0) (Nat.zero_le _)).1]

end GoIpa.Tie.Precomp
