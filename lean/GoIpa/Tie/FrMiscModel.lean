/-
  `Tie.FrMisc`, continued: the translated `Exp` and `Legendre` against the model's field `Fr = Zp R`
  (`Model/Field.lean`): on a fully reduced Montgomery representation of a scalar `a`, `Exp` returns a
  Montgomery representation of the model's `a ^ e` and `Legendre` returns the model's `Fr.legendre a`.
-/
import GoIpa.Tie.FrMisc
import GoIpa.Lemmas.ZpField
namespace GoIpa.Tie.FrMisc
open GoIpa GoIpa.Limbs GoIpa.Cios GoIpa.Gen.FrCodec GoIpa.Gen.FrMisc GoIpa.Tie.FrCodec

/-- the value of the model's square-and-multiply power -/
theorem zp_pow_val (a : Fr) (e : Nat) : (a ^ e).val = a.val ^ e % R := by
  have hlt : a.val ^ e % R < R := Nat.mod_lt _ (by decide)
  apply Zp.val_eq_of_toZ_eq_natCast (a ^ e) _ hlt
  rw [Zp.toZ_pow]
  unfold Zp.toZ
  rw [ZMod.natCast_mod, Nat.cast_pow]

/-- **`Exp` against the model**: the result represents `a ^ e` of `Fr` -/
theorem exp_model (z x : L4) (a : Fr) (e : Nat) (hx : x.ok) (hxr : x.val < R) (rx : Cios.Repr x a.val) :
    (fromMontG (go_Exp z x (e : Int))).val = (a ^ e).val := by
  obtain ⟨r, _, ok⟩ := exp_repr z x a.val (e : Int) (by omega) hx hxr rx
  rw [Int.toNat_natCast] at r
  rw [(fromMontG_repr _ _ ok r).1, zp_pow_val]

/-- **`Legendre` against the model** -/
theorem legendre_model (z : L4) (a : Fr) (hz : z.ok) (hzr : z.val < R) (rz : Cios.Repr z a.val) :
    go_Legendre z = Fr.legendre a := by
  rw [legendre_spec z a.val hz hzr rz]
  unfold Fr.legendre
  simp only [zp_pow_val]

/-! ### the represented scalar as a homomorphism -/

/-- the scalar a limb vector stands for: what `FromMont` returns, as an element of the model field -/
def valOf (x : L4) : Fr := Zp.ofNat R (fromMontG x).val

/-- every limb vector is a Montgomery representation of its `valOf` -/
theorem repr_valOf (x : L4) (hx : x.ok) : Cios.Repr x (valOf x).val := by
  obtain ⟨_, lt, e⟩ := fromMontG_correct x hx
  unfold Cios.Repr valOf Zp.ofNat
  simp only
  rw [Nat.mod_eq_of_lt lt]
  exact (Nat.ModEq.symm e)

theorem valOf_of_repr (x : L4) (a : Nat) (hx : x.ok) (r : Cios.Repr x a) : (valOf x).val = a % R := by
  unfold valOf Zp.ofNat
  simp only
  rw [(fromMontG_repr x a hx r).1, Nat.mod_mod]

theorem zp_mul_val (a b : Fr) : (a * b).val = a.val * b.val % R := rfl

/-- **`Mul` is multiplication of the represented scalars** -/
theorem valOf_mul (x y : L4) (hx : x.ok) (hy : y.ok) (hyr : y.val < R) :
    valOf (mulG x y) = valOf x * valOf y := by
  obtain ⟨r, _, ok⟩ := mulG_repr x y (valOf x).val (valOf y).val hx hy hyr (repr_valOf x hx) (repr_valOf y hy)
  have h := valOf_of_repr (mulG x y) _ ok r
  have : (valOf (mulG x y)).val = (valOf x * valOf y).val := by rw [h, zp_mul_val]
  cases hv : valOf (mulG x y) with
  | mk v1 l1 =>
    cases hw : valOf x * valOf y with
    | mk v2 l2 =>
      rw [hv, hw] at this
      simp only at this
      subst this
      rfl

theorem fr_ext (a b : Fr) (h : a.val = b.val) : a = b := by
  cases a; cases b; simp only at h; subst h; rfl

theorem valOf_one : valOf oneL = 1 := by
  apply fr_ext
  rw [valOf_of_repr oneL 1 one_repr.2.2 one_repr.1]; rfl

theorem valOf_zero : valOf ⟨0, 0, 0, 0⟩ = 0 := by
  apply fr_ext
  rw [valOf_of_repr _ 0 zero_repr.2.2 zero_repr.1]; rfl

/-- on fully reduced limb vectors `valOf` is injective: the limb comparisons of the Go code (`IsZero`,
the comparison with the Montgomery form of 1, `Equal`) decide equality of the represented scalars -/
theorem valOf_inj (x y : L4) (hx : x.ok) (hy : y.ok) (hxr : x.val < R) (hyr : y.val < R) :
    valOf x = valOf y ↔ x = y := by
  constructor
  · intro h
    have hv : (valOf x).val = (valOf y).val := by rw [h]
    exact (repr_eq_iff x y _ _ hx hy hxr hyr (repr_valOf x hx) (repr_valOf y hy)).2 (by rw [hv])
  · intro h; rw [h]

end GoIpa.Tie.FrMisc
