/-
  `Tie.FrMisc`, continued: the translated `Exp` and `Legendre` against the model's field `Fr = Zp R`
  (`Model/Field.lean`): on a fully reduced Montgomery representation of a scalar `a`, `Exp` returns a
  Montgomery representation of the model's `a ^ e` and `Legendre` returns the model's `Fr.legendre a`.
-/
import GoIpa.Tie.FrMisc
import GoIpa.Lemmas.ZpField
namespace GoIpa.Tie.FrMisc
open GoIpa GoIpa.Limbs GoIpa.Cios GoIpa.Gen.FrCodec GoIpa.Gen.FrMisc GoIpa.Tie.FrCodec

/-- the value of the model's square-and-multiply power -/
theorem zp_pow_val (a : Fr) (e : Nat) : (a ^ e).val = a.val ^ e % R := by
  have hlt : a.val ^ e % R < R := Nat.mod_lt _ (by decide)
  apply Zp.val_eq_of_toZ_eq_natCast (a ^ e) _ hlt
  rw [Zp.toZ_pow]
  unfold Zp.toZ
  rw [ZMod.natCast_mod, Nat.cast_pow]

/-- **`Exp` against the model**: the result represents `a ^ e` of `Fr` -/
theorem exp_model (z x : L4) (a : Fr) (e : Nat) (hx : x.ok) (hxr : x.val < R) (rx : Cios.Repr x a.val) :
    (fromMontG (go_Exp z x (e : Int))).val = (a ^ e).val := by
  obtain ⟨r, _, ok⟩ := exp_repr z x a.val (e : Int) (by omega) hx hxr rx
  rw [Int.toNat_natCast] at r
  rw [(fromMontG_repr _ _ ok r).1, zp_pow_val]

/-- **`Legendre` against the model** -/
theorem legendre_model (z : L4) (a : Fr) (hz : z.ok) (hzr : z.val < R) (rz : Cios.Repr z a.val) :
    go_Legendre z = Fr.legendre a := by
  rw [legendre_spec z a.val hz hzr rz]
  unfold Fr.legendre
  simp only [zp_pow_val]

end GoIpa.Tie.FrMisc
