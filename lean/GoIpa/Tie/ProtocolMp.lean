/-
  Tie T1 for `CreateMultiProof`: the function translated from the current source of
  `multiproof.go` (`Gen/Loops.lean`) is the model's `mpProve`.

  Abstracted (parameters of the translated function, with the assumption made about each):
    * `groupFn` — `groupPolynomialsByEvaluationPoint` (goroutines and a channel; its protocol model
      is `Grouping.group_spec`, every worker count and arrival order): assumed to return the model's
      table `groupPolys 256 fs pows zs w order`, with `nil` for an unused point;
    * `commitFn` — `IPAConfig.Commit` (= `Σ vᵢ•Gᵢ`, C05); `normalize` — `banderwagon.BatchNormalize`
      (class preserving, C19; at the level of group elements the identity);
    * `multiScalar`, `bvec`, `enc` as in `Tie/Protocol.lean`.
-/
import GoIpa.Tie.Protocol
import GoIpa.Lemmas.MpAlgebra
set_option linter.unusedSectionVars false
namespace GoIpa.Tie.ProtocolMp
open GoIpa GoIpa.Loop GoIpa.Tie.Loops GoIpa.Tie.Protocol

variable {K G : Type} [Field K] [DecidableEq K] [AddCommGroup G] [Module K G]
variable (enc : Enc K G)

/-- what `groupPolynomialsByEvaluationPoint` returns for a table of the model: `nil` where unused -/
def tableOf (groups : Groups K) : List (List K) := groups.map (fun o => o.getD [])

/-- a well-formed table: 256 entries, every used entry a vector of length 256 -/
structure TableOk (groups : Groups K) : Prop where
  len : groups.length = 256
  vec : ∀ k v, groups.getD k none = some v → v.length = 256

theorem tableOf_getD (groups : Groups K) (k : Nat) : (tableOf groups).getD k [] = (groups.getD k none).getD [] := by
  unfold tableOf
  rw [List.getD_eq_getElem?_getD, List.getD_eq_getElem?_getD, List.getElem?_map]
  cases groups[k]? <;> simp

theorem tableOf_unused (groups : Groups K) (h : TableOk groups) (k : Nat) :
    ((((tableOf groups).getD k []).length : Nat) : Int) = 0 ↔ groups.getD k none = none := by
  rw [tableOf_getD]
  cases hg : groups.getD k none with
  | none => simp
  | some v => have := h.vec k v hg; simp [this]

/-! ### the loops of `CreateMultiProof` -/

/-- `v[j] += q[j]` over the whole vector is `addVec` -/
theorem addVec_loop (v q : List K) (hv : v.length = 256) (hq : q.length = 256) :
    (List.range 256).foldl (fun (st : List K) (j : Nat) => st.set j (st.getD j 0 + q.getD j 0)) v = addVec v q := by
  rw [foldl_pointwise 256 (0 : K) (fun j x => x + q.getD j 0) _ v hv
    (by
      intro l i hi hl
      refine ⟨by simp [hl], ?_⟩
      intro j _
      rw [getD_set]
      by_cases hji : j = i
      · subst hji; simp [hl, hi]
      · have : ¬ (i = j ∧ i < l.length) := fun hh => hji hh.1.symm
        rw [if_neg this, if_neg hji])]
  unfold addVec
  rw [zipWith_eq_range_map _ v q 0 0 (by rw [hv, hq]), hv]

theorem addVec_length (v q : List K) (hv : v.length = 256) (hq : q.length = 256) : (addVec v q).length = 256 := by
  unfold addVec; rw [List.length_zipWith, hv, hq]; rfl

/-- the `g(X)` loop: one `DivideOnDomain` per used evaluation point, accumulated coordinate-wise -/
theorem g_loop (w : Weights K) (groups : Groups K) (h : TableOk groups) :
    (List.range 256).foldl (fun (st : List K) (k : Nat) =>
        if ((((tableOf groups).getD k []).length : Nat) : Int) = 0 then st
        else (List.range 256).foldl (fun (st : List K) (j : Nat) =>
          st.set j (st.getD j 0 +
            (Gen.Loops.divideOnDomain w.bary w.invDom (k : Int) ((tableOf groups).getD k [])).getD j 0)) st)
        (List.replicate 256 (0 : K))
      = (List.zipIdx groups).foldl (fun (g : List K) (e : Option (List K) × Nat) =>
          (e.1.map fun f => addVec g (w.divideOnDomain 256 e.2 f)).getD g) (List.replicate 256 (0 : K)) := by
  rw [zipIdx_eq_range_map groups none, List.foldl_map, h.len]
  refine (foldl_congr_inv (fun (st : List K) => st.length = 256) _ _ _ 256 List.length_replicate ?_).1
  intro k st hk hst
  have hdl : ∀ v : List K, (w.divideOnDomain 256 k v).length = 256 := by
    intro v; simp [Weights.divideOnDomain]
  cases hg : groups.getD k none with
  | none =>
    have : ((((tableOf groups).getD k []).length : Nat) : Int) = 0 := (tableOf_unused groups h k).mpr hg
    rw [if_pos this]
    exact ⟨rfl, hst⟩
  | some v =>
    have hne : ¬ (((((tableOf groups).getD k []).length : Nat) : Int) = 0) := by
      intro h0; rw [(tableOf_unused groups h k).mp h0] at hg; cases hg
    rw [if_neg hne, tableOf_getD, hg, Option.getD_some, divideOnDomain_eq w k hk v, addVec_loop st _ hst (hdl v)]
    exact ⟨rfl, addVec_length _ _ hst (hdl v)⟩

/-- the denominators `t − z` of the used points, in order -/
theorem den_loop (groups : Groups K) (h : TableOk groups) (t : K) :
    (List.range 256).foldl (fun (st : List K) (k : Nat) =>
        if ((((tableOf groups).getD k []).length : Nat) : Int) = 0 then st else st ++ [t - ((k : Nat) : K)]) []
      = (List.zipIdx groups).filterMap (fun (e : Option (List K) × Nat) => e.1.map fun _ => t - ((e.2 : Nat) : K)) := by
  rw [foldl_append_filter 256 (fun k => ((((tableOf groups).getD k []).length : Nat) : Int) = 0) (fun k => t - ((k : Nat) : K)),
    List.nil_append, zipIdx_eq_range_map groups none, List.filterMap_map, h.len]
  apply List.filterMap_congr
  intro k _
  show (if ((((tableOf groups).getD k []).length : Nat) : Int) = 0 then none else some (t - ((k : Nat) : K)))
    = (groups.getD k none).map fun _ => t - ((k : Nat) : K)
  cases hg : groups.getD k none with
  | none =>
    have : ((((tableOf groups).getD k []).length : Nat) : Int) = 0 := (tableOf_unused groups h k).mpr hg
    rw [if_pos this]; rfl
  | some v =>
    have hne : ¬ (((((tableOf groups).getD k []).length : Nat) : Int) = 0) := by
      intro h0; rw [(tableOf_unused groups h k).mp h0] at hg; cases hg
    rw [if_neg hne]; rfl

theorem zip_snoc {α β : Type} (l : List α) (x : α) (m : List β) (d : β) (h : l.length < m.length) :
    List.zip (l ++ [x]) m = List.zip l m ++ [(x, m.getD l.length d)] := by
  induction l generalizing m with
  | nil =>
    cases m with
    | nil => simp at h
    | cons y m => simp
  | cons a l ih =>
    cases m with
    | nil => simp at h
    | cons y m =>
      simp only [List.cons_append, List.zip_cons_cons, List.length_cons, List.getD_cons_succ]
      rw [ih m (by simpa using h)]

/-- `v[j] += f[j]·c` over the whole vector -/
theorem scaledAdd_loop (v f : List K) (c : K) (hv : v.length = 256) (hf : f.length = 256) :
    (List.range 256).foldl (fun (st : List K) (j : Nat) => st.set j (st.getD j 0 + f.getD j 0 * c)) v
      = addVec v (f.map (· * c)) := by
  rw [foldl_pointwise 256 (0 : K) (fun j x => x + f.getD j 0 * c) _ v hv
    (by
      intro l i hi hl
      refine ⟨by simp [hl], ?_⟩
      intro j _
      rw [getD_set]
      by_cases hji : j = i
      · subst hji; simp [hl, hi]
      · have : ¬ (i = j ∧ i < l.length) := fun hh => hji hh.1.symm
        rw [if_neg this, if_neg hji])]
  unfold addVec
  rw [zipWith_eq_range_map _ v (f.map (· * c)) 0 0 (by rw [hv, List.length_map, hf]), hv]
  apply List.map_congr_left
  intro j hj
  have hj' : j < f.length := by rw [hf]; exact List.mem_range.mp hj
  simp [List.getD_eq_getElem?_getD, hj']

/-- the used vectors among the first `k` table entries -/
def usedUpTo (groups : Groups K) (k : Nat) : List (List K) := (groups.take k).filterMap id

theorem usedUpTo_succ (groups : Groups K) (k : Nat) (hk : k < groups.length) :
    usedUpTo groups (k + 1) = usedUpTo groups k ++ (match groups.getD k none with | none => [] | some v => [v]) := by
  unfold usedUpTo
  rw [List.take_succ_eq_append_getElem hk, List.filterMap_append]
  congr 1
  have : groups.getD k none = groups[k] := by simp [List.getD_eq_getElem?_getD, hk]
  rw [this]
  cases groups[k] <;> rfl

theorem usedUpTo_lt (groups : Groups K) (k : Nat) (hk : k < groups.length) (v : List K) (hv : groups.getD k none = some v) :
    (usedUpTo groups k).length < (groups.filterMap id).length := by
  have h1 : groups.filterMap id = usedUpTo groups (k + 1) ++ (groups.drop (k + 1)).filterMap id := by
    unfold usedUpTo
    rw [← List.filterMap_append, List.take_append_drop]
  rw [h1, usedUpTo_succ groups k hk, hv]
  simp

/-- the `h(X)` loop with its running index into the compacted inverse denominators -/
theorem h_loop (groups : Groups K) (h : TableOk groups) (denInv : List K)
    (hdl : denInv.length = (groups.filterMap id).length) :
    ((List.range 256).foldl (fun (st : List K × Int) (k : Nat) =>
        if ((((tableOf groups).getD k []).length : Nat) : Int) = 0 then st
        else ((List.range 256).foldl (fun (hx : List K) (j : Nat) =>
            hx.set j (hx.getD j 0 + ((tableOf groups).getD k []).getD j 0 * Loop.get denInv st.2 0)) st.1, st.2 + 1))
        (List.replicate 256 (0 : K), (0 : Int))).1
      = (List.zip (groups.filterMap id) denInv).foldl (fun (hh : List K) (e : List K × K) =>
          addVec hh (e.1.map (· * e.2))) (List.replicate 256 (0 : K)) := by
  have inv := foldl_range_inv
    (fun k (st : List K × Int) => st.2 = ((usedUpTo groups k).length : Int) ∧ st.1.length = 256 ∧
      st.1 = (List.zip (usedUpTo groups k) denInv).foldl (fun (hh : List K) (e : List K × K) =>
          addVec hh (e.1.map (· * e.2))) (List.replicate 256 (0 : K)))
    (fun (st : List K × Int) (k : Nat) =>
        if ((((tableOf groups).getD k []).length : Nat) : Int) = 0 then st
        else ((List.range 256).foldl (fun (hx : List K) (j : Nat) =>
            hx.set j (hx.getD j 0 + ((tableOf groups).getD k []).getD j 0 * Loop.get denInv st.2 0)) st.1, st.2 + 1))
    (List.replicate 256 (0 : K), (0 : Int)) 256
    ⟨by unfold usedUpTo; rw [List.take_zero]; rfl, List.length_replicate, by unfold usedUpTo; rw [List.take_zero]; rfl⟩
    (by
      rintro k ⟨hx, idx⟩ hk ⟨h1, h2, h3⟩
      simp only at h1 h2 h3
      have hkl : k < groups.length := by rw [h.len]; exact hk
      cases hg : groups.getD k none with
      | none =>
        have : ((((tableOf groups).getD k []).length : Nat) : Int) = 0 := (tableOf_unused groups h k).mpr hg
        rw [if_pos this, usedUpTo_succ groups k hkl, hg]
        simp only [List.append_nil]
        exact ⟨h1, h2, h3⟩
      | some v =>
        have hne : ¬ (((((tableOf groups).getD k []).length : Nat) : Int) = 0) := by
          intro h0; rw [(tableOf_unused groups h k).mp h0] at hg; cases hg
        rw [if_neg hne, usedUpTo_succ groups k hkl, hg]
        simp only
        have hvl : v.length = 256 := h.vec k v hg
        have hlt : (usedUpTo groups k).length < denInv.length := by rw [hdl]; exact usedUpTo_lt groups k hkl v hg
        rw [tableOf_getD, hg, Option.getD_some, h1, get_nat, scaledAdd_loop hx v _ h2 hvl]
        refine ⟨by simp, ?_, ?_⟩
        · exact addVec_length _ _ h2 (by rw [List.length_map, hvl])
        · rw [zip_snoc _ v denInv 0 hlt, List.foldl_append, ← h3]
          rfl)
  obtain ⟨_, _, i3⟩ := inv
  rw [i3]
  have : usedUpTo groups 256 = groups.filterMap id := by
    unfold usedUpTo
    rw [List.take_of_length_le (by rw [h.len])]
  rw [this]

theorem foldl_inv_mem {σ α : Type} (P : σ → Prop) (f : σ → α → σ) (l : List α) (init : σ) (h0 : P init)
    (hstep : ∀ st e, e ∈ l → P st → P (f st e)) : P (l.foldl f init) := by
  induction l generalizing init with
  | nil => exact h0
  | cons x l ih =>
    rw [List.foldl_cons]
    exact ih _ (hstep init x (by simp) h0) (fun st e he hp => hstep st e (by simp [he]) hp)

theorem dens_length (groups : Groups K) (g : Nat → K) (off : Nat) :
    ((List.zipIdx groups off).filterMap (fun (e : Option (List K) × Nat) => e.1.map fun _ => g e.2)).length
      = (groups.filterMap id).length := by
  induction groups generalizing off with
  | nil => rfl
  | cons a l ih =>
    cases a with
    | none => simpa [List.zipIdx_cons] using ih (off + 1)
    | some v => simpa [List.zipIdx_cons] using ih (off + 1)

theorem forUpOpt_some_range {σ : Type} (lo hi : Int) (st : σ) (body : Int → σ → Option σ) (f : Int → σ → σ)
    (h : ∀ i s, lo ≤ i → i < hi → body i s = some (f i s)) : Loop.forUpOpt lo hi st body = some (Loop.forUp lo hi st f) := by
  unfold Loop.forUpOpt Loop.forUp
  have key : ∀ n : Nat, (n : Int) ≤ hi - lo ∨ n = 0 →
      (List.range n).foldl (fun (o : Option σ) (k : Nat) => match o with | none => none | some s => body (lo + (k : Int)) s) (some st)
        = some ((List.range n).foldl (fun s (k : Nat) => f (lo + (k : Int)) s) st) := by
    intro n
    induction n with
    | zero => intro _; rfl
    | succ n ih =>
      intro hn
      have hn' : ((n + 1 : Nat) : Int) ≤ hi - lo := by
        rcases hn with h1 | h1
        · exact h1
        · omega
      rw [List.range_succ, List.foldl_append, List.foldl_append, ih (Or.inl (by omega))]
      simp only [List.foldl_cons, List.foldl_nil]
      rw [h _ _ (by omega) (by omega)]
  have hn : (((hi - lo).toNat : Nat) : Int) ≤ hi - lo ∨ (hi - lo).toNat = 0 := by omega
  have := key (hi - lo).toNat hn
  convert this using 2
  funext o k
  cases o <;> rfl

theorem forUpOpt_unit (lo hi : Int) (body : Int → Unit → Option Unit) (h : ∀ i, lo ≤ i → i < hi → body i () = some ()) :
    Loop.forUpOpt lo hi () body = some () := by
  rw [forUpOpt_some_range lo hi () body (fun _ _ => ()) (fun i s h1 h2 => by cases s; exact h i h1 h2)]

/-- the result of the translated prover that corresponds to a result of the model -/
def ofModelMP (r : Option (MultiProof K G) × Tr) : Option (((List G × List G × K) × G) × Tr) :=
  match r.1 with
  | some p => some (((p.ipa.L, p.ipa.R, p.ipa.a), p.D), r.2)
  | none => none

/-- **`CreateMultiProof`, translated from the source, is the model's `mpProve`** on every
well-shaped statement (256-point domain, 8 rounds), for the grouping table the model computes with
any worker count and arrival order. -/
theorem createMultiProof_eq (cfg : IpaCfg K G) (hN : cfg.N = 256) (hr : cfg.rounds = 8) (hsrs : cfg.srs.length = 256)
    (ms : List G → List K → Option G) (hms : MsOk ms) (hbv : ∀ z, (bVector cfg z).length = 256)
    (normalize : List G → Option (List G)) (commitFn : List K → G)
    (groupFn : List (List K) → List K → List Int → List (List K))
    (tr : Tr) (Cs : List G) (fs : List (List K)) (zs : List Nat) (w : Nat) (order : List Nat)
    (hnorm : normalize Cs = some Cs) (hcommit : ∀ v, commitFn v = msm cfg.srs v)
    (hfs : ∀ k, k < fs.length → (fs.getD k []).length = 256)
    (hl1 : Cs.length = fs.length) (hl2 : Cs.length = zs.length) (hl0 : Cs.length ≠ 0)
    (hgroup : ∀ pows, groupFn fs pows (zs.map (fun (z : Nat) => (z : Int))) = tableOf (groupPolys 256 fs pows zs w order))
    (hok : ∀ pows, TableOk (groupPolys 256 fs pows zs w order)) :
    Gen.Loops.createMultiProof enc (bVector cfg) ms normalize commitFn groupFn cfg.weights.bary cfg.weights.invDom
        tr cfg.Q cfg.srs (cfg.rounds : Int) Cs fs (zs.map (fun (z : Nat) => (z : Int)))
      = ofModelMP (mpProve enc cfg tr Cs fs zs w order) := by
  unfold Gen.Loops.createMultiProof mpProve
  simp only [List.length_map]
  -- the length validation loop
  rw [forUpOpt_unit _ _ _ (by
    intro i h0 h1
    have : Loop.get fs i [] = fs.getD i.toNat [] := by unfold Loop.get; rw [if_neg (by omega)]
    rw [this, hfs _ (by omega)]; rfl)]
  simp only
  have t1 : ¬ (((Cs.length : Nat) : Int) ≠ ((fs.length : Nat) : Int)) := by omega
  have t2 : ¬ (((Cs.length : Nat) : Int) ≠ ((zs.length : Nat) : Int)) := by omega
  have t3 : ¬ (((Cs.length : Nat) : Int) = 0) := by omega
  rw [if_neg t1, if_neg t2, if_neg t3, hnorm]
  simp only
  set n := Cs.length with hn
  have hfl : fs.length = n := by omega
  have hzs : zs.length = n := by omega
  have h256 : ((256 : Int)) = ((256 : Nat) : Int) := rfl
  rw [show Gen.Loops.mp_labelDomainSep = Label.multiproof from rfl, show Gen.Loops.mp_labelC = Label.C from rfl,
    show Gen.Loops.mp_labelZ = Label.z from rfl, show Gen.Loops.mp_labelY = Label.y from rfl,
    show Gen.Loops.mp_labelR = Label.r from rfl, show Gen.Loops.mp_labelD = Label.D from rfl,
    show Gen.Loops.mp_labelT = Label.t from rfl, show Gen.Loops.mp_labelE = Label.E from rfl]
  simp only [h256, forUp_zero, Int.toNat_natCast, hN, get_nat, set_nat, domainToFr_eq]
  -- the statement as absorbed
  have habs : (List.range n).foldl (fun (st : Tr) (k : Nat) =>
        ((st.appendPoint enc (Cs.getD k 0) Label.C).appendScalar enc
          (Gen.Loops.domainToFr ((zs.map (fun (z : Nat) => (z : Int))).getD k 0)) Label.z).appendScalar enc
            (Loop.get (fs.getD k []) ((zs.map (fun (z : Nat) => (z : Int))).getD k 0) 0) Label.y) (tr.domainSep Label.multiproof)
      = (List.zip Cs (List.zip fs zs)).foldl (fun (tr : Tr) (e : G × List K × Nat) =>
        ((tr.appendPoint enc e.1 Label.C).appendScalar enc ((e.2.2 : Nat) : K) Label.z).appendScalar enc
          (e.2.1.getD e.2.2 0) Label.y) (tr.domainSep Label.multiproof) := by
    rw [zip3_eq_range_map Cs fs zs 0 [] 0 n rfl hfl hzs, List.foldl_map]
    apply List.foldl_ext
    intro acc k _
    simp only [getD_map_cast, domainToFr_eq, get_nat]
  rw [habs]
  generalize (List.zip Cs (List.zip fs zs)).foldl _ (tr.domainSep Label.multiproof) = tr1
  generalize Tr.challenge enc tr1 Label.r = rc
  obtain ⟨r, tr2⟩ := rc
  simp only
  rw [powersOf_eq r n (by omega), hgroup]
  set pows := GoIpa.powersOf r n with hpows
  set groups := groupPolys 256 fs pows zs w order with hgroups
  have hk := hok pows
  rw [← hgroups] at hk
  have htl : (tableOf groups).length = 256 := by unfold tableOf; rw [List.length_map, hk.len]
  simp only [htl, Prod.mk.eta]
  rw [g_loop cfg.weights groups hk, hcommit]
  set g := (List.zipIdx groups).foldl (fun (g : List K) (e : Option (List K) × Nat) =>
          (e.1.map fun f => addVec g (cfg.weights.divideOnDomain 256 e.2 f)).getD g) (List.replicate 256 (0 : K)) with hg
  generalize Tr.challenge enc (tr2.appendPoint enc (msm cfg.srs g) Label.D) Label.t = tc
  obtain ⟨t, tr3⟩ := tc
  simp only
  rw [den_loop groups hk t, batchInvert_eq]
  set denInv := GoIpa.batchInvert ((List.zipIdx groups).filterMap
    (fun (e : Option (List K) × Nat) => e.1.map fun _ => t - ((e.2 : Nat) : K))) with hdi
  have hdl : denInv.length = (groups.filterMap id).length := by
    rw [hdi, batchInvert_length]
    exact dens_length groups (fun k => t - ((k : Nat) : K)) 0
  rw [h_loop groups hk denInv hdl, hcommit]
  set hx := (List.zip (groups.filterMap id) denInv).foldl (fun (hh : List K) (e : List K × K) =>
          addVec hh (e.1.map (· * e.2))) (List.replicate 256 (0 : K)) with hhx
  -- lengths of the two accumulated vectors
  have hgl : g.length = 256 := by
    rw [hg]
    apply foldl_inv_mem (fun (st : List K) => st.length = 256) _ _ _ List.length_replicate
    intro st e he hst
    cases h1 : e.1 with
    | none => simpa using hst
    | some v =>
      simp only [Option.map_some, Option.getD_some]
      exact addVec_length _ _ hst (by simp [Weights.divideOnDomain])
  have hhl : hx.length = 256 := by
    rw [hhx]
    apply foldl_inv_mem (fun (st : List K) => st.length = 256) _ _ _ List.length_replicate
    intro st e he hst
    have hmem : e.1 ∈ groups.filterMap id := (List.of_mem_zip he).1
    obtain ⟨o, ho, hoe⟩ := List.mem_filterMap.mp hmem
    obtain ⟨k, hk1, hk2⟩ := List.getElem_of_mem ho
    have hgd : groups.getD k none = some e.1 := by
      rw [List.getD_eq_getElem?_getD, List.getElem?_eq_getElem hk1, Option.getD_some, hk2]
      exact hoe
    exact addVec_length _ _ hst (by rw [List.length_map]; exact hk.vec k e.1 hgd)
  -- h − g
  rw [foldl_pointwise 256 (0 : K) (fun k _ => hx.getD k 0 - g.getD k 0) _ _ List.length_replicate
    (by
      intro l i hi hl
      refine ⟨by simp [hl], ?_⟩
      intro j _
      rw [getD_set]
      by_cases hji : j = i
      · subst hji; simp [hl, hi]
      · have : ¬ (i = j ∧ i < l.length) := fun hh => hji hh.1.symm
        rw [if_neg this, if_neg hji])]
  have hmg : (List.range 256).map (fun k => hx.getD k 0 - g.getD k 0) = List.zipWith (· - ·) hx g := by
    rw [zipWith_eq_range_map _ hx g 0 0 (by rw [hhl, hgl]), hhl]
  rw [hmg]
  have h28 : (2 : Nat) ^ cfg.rounds = 256 := by rw [hr]; rfl
  rw [createIPAProof_eq enc cfg ms hms _ _ _ t (by rw [hsrs, h28])
    (by rw [List.length_zipWith, hhl, hgl, h28]; rfl) (by rw [hbv, h28])]
  unfold ofModelP ofModelMP
  simp only
  cases (ipaProve enc cfg (Tr.appendPoint enc tr3 (msm cfg.srs hx) Label.E) (msm cfg.srs hx - msm cfg.srs g)
    (List.zipWith (· - ·) hx g) t).1 <;> rfl

end GoIpa.Tie.ProtocolMp
