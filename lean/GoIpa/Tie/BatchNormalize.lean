/-
  Tie T1 for `banderwagon.BatchNormalize`: the function, translated from the current source on
  every run over a heap of points (`Gen.Elements.go_BatchNormalize`: pointers are heap indices,
  the Go-map de-duplication is the parameter `dedupedElements`, the `parallel.Execute` closure a
  plain loop — see `go/cmd/extract/elements.go`), **is** the model's `batchNormalize heap order`
  (`Model/Batch.lean`), the object of `C19.batchNormalize_spec` / `batchNormalize_fails` /
  `batchNormalize_order_independent`, for EVERY enumeration `order` of in-range pointers:

    * an element with `Z = 0` anywhere in the enumeration: error, heap untouched;
    * otherwise the Montgomery trick (prefix products, one inversion, backward pass) yields the
      inverse of every `Z`, and every enumerated element becomes `(X·Z⁻¹, Y·Z⁻¹, 1)`.
-/
import GoIpa.Gen.Elements
import GoIpa.Model.Batch
import GoIpa.Lemmas.LoopLemmas
import GoIpa.Lemmas.BatchInvert
import Mathlib.Algebra.BigOperators.Group.List.Basic
import Mathlib.Algebra.BigOperators.Ring.List
import Mathlib.Algebra.Field.Basic
import Mathlib.Algebra.GroupWithZero.Basic
import Mathlib.Tactic.FieldSimp
namespace GoIpa.Tie.BatchNormalize
open GoIpa GoIpa.Loop

variable {K : Type} [Field K] [DecidableEq K]

/-! ### the forward pass: prefix products, error on a zero -/

def fwdStep (zs : List K) (o : Option (List K × K)) (k : Nat) : Option (List K × K) :=
  match o with
  | none => none
  | some (invs, acc) => if zs.getD k 0 = 0 then none else some (invs.set k acc, acc * zs.getD k 0)

theorem fwd_none (zs : List K) (n : Nat) : (List.range n).foldl (fwdStep zs) none = none := by
  induction n with
  | zero => rfl
  | succ n ih => rw [List.range_succ, List.foldl_append, ih]; rfl

theorem fwd_zero (zs : List K) (init : Option (List K × K)) :
    ∀ (k : Nat), (∃ j, j < k ∧ zs.getD j 0 = 0) → (List.range k).foldl (fwdStep zs) init = none := by
  intro k
  induction k with
  | zero => intro ⟨j, hj, _⟩; omega
  | succ k ih =>
    intro ⟨j, hj, hz⟩
    rw [List.range_succ, List.foldl_append]
    simp only [List.foldl_cons, List.foldl_nil]
    by_cases hjk : j < k
    · rw [ih ⟨j, hjk, hz⟩]; rfl
    · have : j = k := by omega
      subst this
      cases (List.range j).foldl (fwdStep zs) init with
      | none => rfl
      | some st => obtain ⟨a, b⟩ := st; show (if zs.getD j 0 = 0 then none else _) = none; rw [if_pos hz]

/-- without zeros the forward pass leaves the prefix products and the total product -/
theorem fwd_spec (zs : List K) (m : Nat) (hnz : ∀ j, j < zs.length → zs.getD j 0 ≠ 0) :
    ∀ k, k ≤ zs.length →
    (List.range k).foldl (fwdStep zs) (some (List.replicate m (0 : K), 1))
      = some ((List.range m).map (fun i => if i < k then (zs.take i).prod else 0), (zs.take k).prod) := by
  intro k
  induction k with
  | zero =>
    intro _
    simp only [List.range_zero, List.foldl_nil, List.take_zero, List.prod_nil, Nat.not_lt_zero, ↓reduceIte]
    congr 2
    apply ext_getD _ _ (0 : K) (by simp)
    intro j hj
    rw [List.length_replicate] at hj
    rw [getD_replicate _ _ _ _ hj, getD_map_range _ _ _ _ hj]
  | succ k ih =>
    intro hk
    rw [List.range_succ, List.foldl_append, ih (by omega)]
    simp only [List.foldl_cons, List.foldl_nil, fwdStep]
    rw [if_neg (hnz k (by omega))]
    congr 2
    · apply ext_getD _ _ (0 : K) (by simp)
      intro j hj
      rw [List.length_set, List.length_map, List.length_range] at hj
      rw [getD_set, getD_map_range _ _ _ _ hj, getD_map_range _ _ _ _ hj, List.length_map, List.length_range]
      by_cases hjk : k = j
      · subst hjk; simp [hj]
      · have h1 : ¬ (k = j ∧ k < m) := fun h => hjk h.1
        rw [if_neg h1]
        by_cases hlt : j < k
        · rw [if_pos hlt, if_pos (by omega)]
        · rw [if_neg hlt, if_neg (by omega)]
    · rw [List.prod_take_succ _ _ (by omega)]
      simp [List.getD_eq_getElem?_getD, List.getElem?_eq_getElem (show k < zs.length by omega)]

/-! ### the backward pass -/

def bwdStep (zs : List K) (st : List K × K) (i : Nat) : List K × K :=
  (st.1.set i (st.1.getD i 0 * st.2), st.2 * zs.getD i 0)

theorem take_prod_ne_zero (zs : List K) (hnz : ∀ j, j < zs.length → zs.getD j 0 ≠ 0) (i : Nat) :
    (zs.take i).prod ≠ 0 := by
  apply List.prod_ne_zero
  intro h0
  obtain ⟨j, hj, hz⟩ := List.mem_iff_getElem.mp (List.mem_of_mem_take h0)
  exact hnz j hj (by simp [List.getD_eq_getElem?_getD, List.getElem?_eq_getElem hj, hz])

/-- the backward pass turns the prefix products into the inverses, from the top index down -/
theorem bwd_spec (zs : List K) (m : Nat) (hm : zs.length ≤ m) (hnz : ∀ j, j < zs.length → zs.getD j 0 ≠ 0) :
    ∀ k, k ≤ zs.length →
    (List.range k).foldl (fun st (j : Nat) => bwdStep zs st (zs.length - 1 - j))
        ((List.range m).map (fun i => if i < zs.length then (zs.take i).prod else 0), (zs.take zs.length).prod⁻¹)
      = ((List.range m).map (fun i => if i < zs.length - k then (zs.take i).prod
            else if i < zs.length then (zs.getD i 0)⁻¹ else 0), (zs.take (zs.length - k)).prod⁻¹) := by
  intro k
  induction k with
  | zero =>
    intro _
    simp only [List.range_zero, List.foldl_nil, Nat.sub_zero]
    congr 1
    apply List.map_congr_left
    intro i _
    by_cases h : i < zs.length <;> simp [h]
  | succ k ih =>
    intro hk
    rw [List.range_succ, List.foldl_append, ih (by omega)]
    simp only [List.foldl_cons, List.foldl_nil, bwdStep]
    have hi0 : zs.length - 1 - k < zs.length := by omega
    have hi0m : zs.length - 1 - k < m := by omega
    have e1 : zs.length - k = (zs.length - 1 - k) + 1 := by omega
    have e2 : zs.length - (k + 1) = zs.length - 1 - k := by omega
    have hP := take_prod_ne_zero zs hnz (zs.length - 1 - k)
    have hz := hnz _ hi0
    have hz' : zs.getD (zs.length - 1 - k) 0 = zs[zs.length - 1 - k] := by
      simp [List.getD_eq_getElem?_getD, List.getElem?_eq_getElem hi0]
    have hsplit : (zs.take (zs.length - k)).prod = (zs.take (zs.length - 1 - k)).prod * zs.getD (zs.length - 1 - k) 0 := by
      rw [e1, List.prod_take_succ _ _ hi0, hz']
    congr 1
    · apply ext_getD _ _ (0 : K) (by simp)
      intro j hj
      rw [List.length_set, List.length_map, List.length_range] at hj
      rw [getD_set, getD_map_range _ _ _ _ hj, getD_map_range _ _ _ _ hj, getD_map_range _ _ _ _ hi0m,
        List.length_map, List.length_range]
      by_cases hji : zs.length - 1 - k = j
      · subst hji
        rw [if_pos ⟨rfl, hi0m⟩, if_pos (by omega), if_neg (by omega), if_pos hi0, hsplit]
        field_simp
      · have h1 : ¬ (zs.length - 1 - k = j ∧ zs.length - 1 - k < m) := fun h => hji h.1
        rw [if_neg h1]
        by_cases hlt : j < zs.length - (k + 1)
        · rw [if_pos hlt, if_pos (by omega)]
        · rw [if_neg hlt, if_neg (by omega)]
    · rw [e2, hsplit]
      field_simp

/-! ### the conversion loop and the whole function -/

theorem forDown_nat {σ : Type} (hi : Int) (st : σ) (body : Int → σ → σ) :
    forDown hi 0 st body = (List.range (hi + 1).toNat).foldl (fun st (k : Nat) => body (hi - (k : Int)) st) st := by
  unfold forDown
  simp

theorem foldl_getD {α σ : Type} (f : σ → α → σ) (d : α) :
    ∀ (l : List α) (a : σ), (List.range l.length).foldl (fun st k => f st (l.getD k d)) a = l.foldl f a := by
  intro l
  induction l with
  | nil => intro a; rfl
  | cons x xs ih =>
    intro a
    rw [List.length_cons, List.range_succ_eq_map, List.foldl_cons, List.foldl_map]
    simp only [List.getD_cons_zero, List.getD_cons_succ]
    exact ih (f a x)

/-- the three field stores of the conversion loop are one store of the normalised point -/
theorem three_sets (h : List (Proj K)) (p : Nat) (inv : K) :
    (((h.set p { (h.getD p ⟨0, 0, 0⟩) with X := (h.getD p ⟨0, 0, 0⟩).X * inv }).set p
        { ((h.set p { (h.getD p ⟨0, 0, 0⟩) with X := (h.getD p ⟨0, 0, 0⟩).X * inv }).getD p ⟨0, 0, 0⟩) with
          Y := ((h.set p { (h.getD p ⟨0, 0, 0⟩) with X := (h.getD p ⟨0, 0, 0⟩).X * inv }).getD p ⟨0, 0, 0⟩).Y * inv }).set p
      { (((h.set p { (h.getD p ⟨0, 0, 0⟩) with X := (h.getD p ⟨0, 0, 0⟩).X * inv }).set p
        { ((h.set p { (h.getD p ⟨0, 0, 0⟩) with X := (h.getD p ⟨0, 0, 0⟩).X * inv }).getD p ⟨0, 0, 0⟩) with
          Y := ((h.set p { (h.getD p ⟨0, 0, 0⟩) with X := (h.getD p ⟨0, 0, 0⟩).X * inv }).getD p ⟨0, 0, 0⟩).Y * inv }).getD p ⟨0, 0, 0⟩) with
        Z := 1 })
      = h.set p ⟨(h.getD p ⟨0, 0, 0⟩).X * inv, (h.getD p ⟨0, 0, 0⟩).Y * inv, 1⟩ := by
  by_cases hp : p < h.length
  · simp only [List.set_set, getD_set_self _ _ _ _ hp]
  · have hle : h.length ≤ p := by omega
    simp only [List.set_eq_of_length_le hle]

theorem getD_map_cast (l : List Nat) (i : Nat) : (l.map (fun (z : Nat) => (z : Int))).getD i 0 = ((l.getD i 0 : Nat) : Int) := by
  simp only [List.getD_eq_getElem?_getD, List.getElem?_map]
  cases l[i]? <;> simp

/-- **`BatchNormalize`, translated from the source over a heap, is the model's `batchNormalize`** for
every enumeration `order` of the pointers (any order, repeats allowed, in or out of the heap) -/
theorem batchNormalize_eq {S : Type} [Zero S] (E : ElemEnv K S) (heap : List (Proj K)) (elements : List Int)
    (order : List Nat) (hlen : order.length ≤ elements.length) :
    Gen.Elements.go_BatchNormalize E heap elements (order.map (fun (i : Nat) => (i : Int)))
      = batchNormalize heap order := by
  unfold Gen.Elements.go_BatchNormalize batchNormalize
  set zs : List K := order.map (fun i => (heap.getD i ⟨0, 0, 0⟩).Z) with hzs
  have hzl : zs.length = order.length := by simp [zs]
  have hZ : ∀ k : Nat, k < order.length →
      (Loop.get heap (Loop.get (order.map (fun (i : Nat) => (i : Int))) (k : Int) 0) (⟨0, 0, 0⟩ : Proj K)).Z = zs.getD k 0 := by
    intro k hk
    rw [get_nat, getD_map_cast, get_nat]
    simp [zs, List.getD_eq_getElem?_getD, List.getElem?_eq_getElem hk]
  simp only [List.length_map, Int.toNat_natCast]
  -- the forward pass is the fold of `fwdStep`
  have hfwd : Loop.forUpOpt (0 : Int) ((order.length : Nat) : Int) (List.replicate elements.length (0 : K), (1 : K))
      (fun (i : Int) (st : List K × K) =>
        if (Loop.get heap (Loop.get (order.map (fun (i : Nat) => (i : Int))) i 0) (⟨0, 0, 0⟩ : Proj K)).Z = 0 then none
        else some (Loop.set st.1 i st.2, st.2 * (Loop.get heap (Loop.get (order.map (fun (i : Nat) => (i : Int))) i 0) (⟨0, 0, 0⟩ : Proj K)).Z))
      = (List.range zs.length).foldl (fwdStep zs) (some (List.replicate elements.length (0 : K), 1)) := by
    unfold Loop.forUpOpt
    rw [forUp_zero, hzl]
    apply List.foldl_ext
    intro o k hk
    have hk' := List.mem_range.mp hk
    cases o with
    | none => rfl
    | some st =>
      obtain ⟨a, b⟩ := st
      simp only [fwdStep, hZ k hk', set_nat]
  rw [hfwd]
  have hmodelZ : ∀ j, j < order.length → (heap.getD (order.getD j 0) ⟨0, 0, 0⟩).Z = zs.getD j 0 := by
    intro j hj
    simp [zs, List.getD_eq_getElem?_getD, List.getElem?_eq_getElem hj]
  by_cases hz : ∃ j, j < zs.length ∧ zs.getD j 0 = 0
  · rw [fwd_zero zs _ zs.length hz]
    obtain ⟨j, hj, h0⟩ := hz
    have hany : (order.any fun i => decide ((heap.getD i ⟨0, 0, 0⟩).Z = 0)) = true := by
      rw [List.any_eq_true]
      refine ⟨order.getD j 0, ?_, ?_⟩
      · rw [hzl] at hj
        simp [List.getD_eq_getElem?_getD, List.getElem?_eq_getElem hj]
      · rw [hzl] at hj
        rw [hmodelZ j hj, h0]; simp
    simp only [hany, ↓reduceIte]
  · have hnz : ∀ j, j < zs.length → zs.getD j 0 ≠ 0 := fun j hj h0 => hz ⟨j, hj, h0⟩
    rw [fwd_spec zs elements.length hnz zs.length (le_refl _)]
    have hany : ¬ ((order.any fun i => decide ((heap.getD i ⟨0, 0, 0⟩).Z = 0)) = true) := by
      rw [List.any_eq_true]
      rintro ⟨x, hx, hd⟩
      obtain ⟨j, hj, rfl⟩ := List.mem_iff_getElem.mp hx
      have := hnz j (by rw [hzl]; exact hj)
      apply this
      rw [← hmodelZ j hj]
      simpa [List.getD_eq_getElem?_getD, List.getElem?_eq_getElem hj] using hd
    simp only [hany, ↓reduceIte]
    -- the backward pass
    have hbwd : ∀ (invs0 : List K) (a0 : K),
        Loop.forDown (((order.length : Nat) : Int) - 1) 0 (invs0, a0) (fun (i : Int) (st : List K × K) =>
          (Loop.set st.1 i (Loop.get st.1 i 0 * st.2),
            st.2 * (Loop.get heap (Loop.get (order.map (fun (i : Nat) => (i : Int))) i 0) (⟨0, 0, 0⟩ : Proj K)).Z))
        = (List.range zs.length).foldl (fun st (j : Nat) => bwdStep zs st (zs.length - 1 - j)) (invs0, a0) := by
      intro invs0 a0
      rw [forDown_nat]
      have e : (((order.length : Nat) : Int) - 1 + 1).toNat = zs.length := by omega
      rw [e]
      apply List.foldl_ext
      intro st j hj
      have hj' : j < zs.length := List.mem_range.mp hj
      have e2 : ((order.length : Nat) : Int) - 1 - (j : Int) = ((zs.length - 1 - j : Nat) : Int) := by omega
      rw [e2, hZ _ (by omega)]
      simp only [bwdStep, get_nat, set_nat]
    rw [hbwd]
    have hb := bwd_spec zs elements.length (by omega) hnz zs.length (le_refl _)
    simp only [Nat.sub_self, Nat.not_lt_zero, ↓reduceIte] at hb
    rw [hb]
    simp only
    -- the conversion loop
    congr 1
    rw [forUp_zero, batchInvert_eq_map]
    rw [← foldl_getD _ ((0 : Nat), (0 : K)) (List.zip order (zs.map (·⁻¹)))]
    have hzipl : (List.zip order (zs.map (·⁻¹))).length = order.length := by simp [hzl]
    rw [hzipl]
    apply List.foldl_ext
    intro st k hk
    have hk' : k < order.length := List.mem_range.mp hk
    have hkm : k < elements.length := by omega
    have hzip : (List.zip order (zs.map (·⁻¹))).getD k ((0 : Nat), (0 : K)) = (order.getD k 0, (zs.getD k 0)⁻¹) := by
      have h1 : k < (List.zip order (zs.map (·⁻¹))).length := by rw [hzipl]; exact hk'
      have h2 : k < (zs.map (·⁻¹)).length := by simp [hzl, hk']
      have h3 : k < zs.length := by omega
      simp only [List.getD_eq_getElem?_getD, List.getElem?_eq_getElem h1, List.getElem?_eq_getElem hk',
        List.getElem?_eq_getElem h3, Option.getD_some, List.getElem_zip, List.getElem_map]
    rw [hzip]
    simp only [get_nat, getD_map_cast, set_nat, getD_map_range _ _ _ _ hkm, if_pos (show k < zs.length by omega)]
    exact three_sets st (order.getD k 0) (zs.getD k 0)⁻¹

end GoIpa.Tie.BatchNormalize
