/-
  Tie T1 for C05 / C09 / C19: the batch coordinate conversions of `banderwagon/precomp.go` —
  `batchProjToAffine` (the input conversion of every `MultiExp`) and
  `batchToExtendedPointNormalized` (the normalisation of every precomputed table window) —
  translated from the current source (struct slices desugared into coordinate slices,
  `parallel.Execute` sequentialised after an index check: `go/cmd/extract/batchconv.go`).

  Proved on the translated code, for every field and all coordinate lists of equal length: the
  result is, entry by entry, `(X·Z⁻¹, Y·Z⁻¹)` resp. `(X·Z⁻¹, Y·Z⁻¹, (X·Z⁻¹)·(Y·Z⁻¹))` — with
  `Z = 0` entries (which the code skips) giving `(0, 0[, 0])`, which is the same formula since
  `0⁻¹ = 0`.  The two Montgomery passes are literally those of `fr.BatchInvert`
  (`phase12_eq_batchInvert`), whose correctness on the translated code is `Tie.Loops.batchInvert_spec`.
-/
import GoIpa.Gen.BatchConv
import GoIpa.Tie.Loops
import GoIpa.Model.Curve
namespace GoIpa.Tie.BatchConv
open GoIpa GoIpa.Loop

variable {F : Type} [Field F] [DecidableEq F]

/-- the first pass: zero flags, prefix products in `resultX`, total product -/
def phase1 (n : Nat) (pointsZ : List F) : List Bool × List F × F :=
  Loop.forUp (0 : Int) ((n : Nat) : Int)
    (List.replicate (((n : Nat) : Int)).toNat false, List.replicate (((n : Nat) : Int)).toNat (0 : F), (1 : F))
    (fun (i : Int) (st : List Bool × List F × F) =>
      let (zeroes, resultX, accumulator) := st
      if ((Loop.get pointsZ i 0) = 0) then
        let zeroes : List Bool := Loop.set zeroes i (true)
        (zeroes, resultX, accumulator)
      else
        let resultX : List F := Loop.set resultX i (accumulator)
        let accumulator : F := accumulator * (Loop.get pointsZ i 0)
        (zeroes, resultX, accumulator))

/-- the second pass: the prefix products become the inverses -/
def phase2 (n : Nat) (pointsZ : List F) (zeroes : List Bool) (resultX : List F) (accumulator : F) : List F × F :=
  Loop.forDown ((((n : Nat) : Int)) - (1 : Int)) (0 : Int) (resultX, accumulator⁻¹) (fun (i : Int) (st : List F × F) =>
      let (resultX, accInverse) := st
      if ((Loop.get zeroes i false) = true) then
        (resultX, accInverse)
      else
        let resultX : List F := Loop.set resultX i ((Loop.get resultX i 0) * accInverse)
        let accInverse : F := accInverse * (Loop.get pointsZ i 0)
        (resultX, accInverse))

/-- the two Montgomery passes are `fr.BatchInvert` on the `Z` coordinates -/
theorem phase12_eq_batchInvert (pointsZ : List F) (hne : pointsZ.length ≠ 0) :
    (phase2 pointsZ.length pointsZ (phase1 pointsZ.length pointsZ).1 (phase1 pointsZ.length pointsZ).2.1
      (phase1 pointsZ.length pointsZ).2.2).1 = Gen.Loops.batchInvert pointsZ := by
  unfold Gen.Loops.batchInvert
  have : ¬ (((pointsZ.length : Nat) : Int) = (0 : Int)) := by omega
  rw [if_neg this]
  rfl

attribute [-simp] List.getD_eq_getElem?_getD in
/-- the zero flags of the first pass: `zeroes[i] ⇔ Z_i = 0` -/
theorem phase1_flags (zs : List F) :
    (phase1 zs.length zs).1.length = zs.length ∧
      ∀ j, j < zs.length → (phase1 zs.length zs).1.getD j false = decide (zs.getD j 0 = 0) := by
  unfold phase1
  rw [Loop.forUp_zero]
  have key := Loop.foldl_range_inv
    (fun k (st : List Bool × List F × F) => st.1.length = zs.length ∧
      ∀ j, j < zs.length → st.1.getD j false = if j < k then decide (zs.getD j 0 = 0) else false)
    (fun (st : List Bool × List F × F) (k : Nat) =>
      (fun (i : Int) (st : List Bool × List F × F) =>
        let (zeroes, resultX, accumulator) := st
        if ((Loop.get zs i 0) = 0) then
          let zeroes : List Bool := Loop.set zeroes i (true)
          (zeroes, resultX, accumulator)
        else
          let resultX : List F := Loop.set resultX i (accumulator)
          let accumulator : F := accumulator * (Loop.get zs i 0)
          (zeroes, resultX, accumulator)) (k : Int) st)
    (List.replicate (((zs.length : Nat) : Int)).toNat false, List.replicate (((zs.length : Nat) : Int)).toNat (0 : F), (1 : F))
    zs.length
    (by
      refine ⟨by simp, ?_⟩
      intro j hj
      simp [Loop.getD_replicate, hj])
    (by
      rintro k ⟨zf, rX, acc⟩ hk ⟨hl, hv⟩
      simp only at hl hv
      simp only [Loop.get_nat, Loop.set_nat]
      by_cases hz : zs.getD k 0 = 0
      · simp only [hz, if_true]
        refine ⟨by simp [hl], ?_⟩
        intro j hj
        rw [Loop.getD_set]
        by_cases hjk : k = j
        · subst hjk
          simp [hl, hk, hz]
        · have h1 : ¬ (k = j ∧ k < zf.length) := fun h => hjk h.1
          rw [if_neg h1, hv j hj]
          by_cases h2 : j < k
          · rw [if_pos h2, if_pos (by omega)]
          · rw [if_neg h2, if_neg (by omega)]
      · simp only [hz, if_false]
        refine ⟨hl, ?_⟩
        intro j hj
        rw [hv j hj]
        by_cases hjk : j = k
        · subst hjk
          simp [hz]
        · by_cases h2 : j < k
          · rw [if_pos h2, if_pos (by omega)]
          · rw [if_neg h2, if_neg (by omega)])
  obtain ⟨hl, hv⟩ := key
  refine ⟨hl, ?_⟩
  intro j hj
  rw [hv j hj, if_pos hj]

/-- the conversion pass of `batchToExtendedPointNormalized` -/
def phase3N (n : Nat) (pointsX pointsY : List F) (zeroes : List Bool) (resultX : List F) : List F × List F × List F :=
  Loop.forUp (0 : Int) ((n : Nat) : Int)
    (resultX, List.replicate (((n : Nat) : Int)).toNat (0 : F), List.replicate (((n : Nat) : Int)).toNat (0 : F))
    (fun (i : Int) (st : List F × List F × List F) =>
      let (resultX, resultY, resultT) := st
      if ((Loop.get zeroes i false) = true) then
        (resultX, resultY, resultT)
      else
        let a : F := (Loop.get resultX i 0)
        let resultX : List F := Loop.set resultX i ((Loop.get pointsX i 0) * a)
        let resultY : List F := Loop.set resultY i ((Loop.get pointsY i 0) * a)
        let resultT : List F := Loop.set resultT i ((Loop.get resultX i 0) * (Loop.get resultY i 0))
        (resultX, resultY, resultT))

/-- the conversion pass of `batchProjToAffine` -/
def phase3A (n : Nat) (pointsX pointsY : List F) (zeroes : List Bool) (resultX : List F) : List F × List F :=
  Loop.forUp (0 : Int) ((n : Nat) : Int)
    (resultX, List.replicate (((n : Nat) : Int)).toNat (0 : F))
    (fun (i : Int) (st : List F × List F) =>
      let (resultX, resultY) := st
      if ((Loop.get zeroes i false) = true) then
        (resultX, resultY)
      else
        let a : F := (Loop.get resultX i 0)
        let resultX : List F := Loop.set resultX i ((Loop.get pointsX i 0) * a)
        let resultY : List F := Loop.set resultY i ((Loop.get pointsY i 0) * a)
        (resultX, resultY))

/-- the translated functions are the three passes, composed -/
theorem normalized_unfold (pX pY pZ : List F) :
    Gen.BatchConv.batchToExtendedPointNormalized pX pY pZ =
      phase3N pX.length pX pY (phase1 pX.length pZ).1
        (phase2 pX.length pZ (phase1 pX.length pZ).1 (phase1 pX.length pZ).2.1 (phase1 pX.length pZ).2.2).1 := rfl

theorem affine_unfold (pX pY pZ : List F) :
    Gen.BatchConv.batchProjToAffine pX pY pZ =
      phase3A pX.length pX pY (phase1 pX.length pZ).1
        (phase2 pX.length pZ (phase1 pX.length pZ).1 (phase1 pX.length pZ).2.1 (phase1 pX.length pZ).2.2).1 := rfl

attribute [-simp] List.getD_eq_getElem?_getD in
/-- the conversion pass, entry by entry -/
theorem phase3N_spec (n : Nat) (pX pY : List F) (zf : List Bool) (invs : List F) (hi : invs.length = n) :
    let r := phase3N n pX pY zf invs
    r.1.length = n ∧ r.2.1.length = n ∧ r.2.2.length = n ∧ ∀ j, j < n →
      r.1.getD j 0 = (if zf.getD j false = true then invs.getD j 0 else pX.getD j 0 * invs.getD j 0) ∧
      r.2.1.getD j 0 = (if zf.getD j false = true then 0 else pY.getD j 0 * invs.getD j 0) ∧
      r.2.2.getD j 0 = (if zf.getD j false = true then 0 else (pX.getD j 0 * invs.getD j 0) * (pY.getD j 0 * invs.getD j 0)) := by
  intro r
  have key := Loop.foldl_range_inv
    (fun k (st : List F × List F × List F) => st.1.length = n ∧ st.2.1.length = n ∧ st.2.2.length = n ∧
      ∀ j, j < n →
        st.1.getD j 0 = (if j < k then (if zf.getD j false = true then invs.getD j 0 else pX.getD j 0 * invs.getD j 0) else invs.getD j 0) ∧
        st.2.1.getD j 0 = (if j < k then (if zf.getD j false = true then 0 else pY.getD j 0 * invs.getD j 0) else 0) ∧
        st.2.2.getD j 0 = (if j < k then (if zf.getD j false = true then 0 else (pX.getD j 0 * invs.getD j 0) * (pY.getD j 0 * invs.getD j 0)) else 0))
    (fun (st : List F × List F × List F) (k : Nat) =>
      (fun (i : Int) (st : List F × List F × List F) =>
        let (resultX, resultY, resultT) := st
        if ((Loop.get zf i false) = true) then
          (resultX, resultY, resultT)
        else
          let a : F := (Loop.get resultX i 0)
          let resultX : List F := Loop.set resultX i ((Loop.get pX i 0) * a)
          let resultY : List F := Loop.set resultY i ((Loop.get pY i 0) * a)
          let resultT : List F := Loop.set resultT i ((Loop.get resultX i 0) * (Loop.get resultY i 0))
          (resultX, resultY, resultT)) (k : Int) st)
    (invs, List.replicate (((n : Nat) : Int)).toNat (0 : F), List.replicate (((n : Nat) : Int)).toNat (0 : F))
    n
    (by
      refine ⟨hi, by simp, by simp, ?_⟩
      intro j hj
      simp [Loop.getD_replicate, hj])
    (by
      rintro k ⟨a, b, c⟩ hk ⟨hla, hlb, hlc, hv⟩
      simp only at hla hlb hlc hv
      simp only [Loop.get_nat, Loop.set_nat]
      by_cases hz : zf.getD k false = true
      · simp only [hz, if_true]
        refine ⟨hla, hlb, hlc, ?_⟩
        intro j hj
        obtain ⟨h1, h2, h3⟩ := hv j hj
        by_cases hjk : j = k
        · subst hjk
          rw [h1, h2, h3]
          simp [hz]
        · have hiff : (j < k + 1) ↔ (j < k) := by omega
          simp only [hiff]
          exact ⟨h1, h2, h3⟩
      · simp only [hz, Bool.false_eq_true, ↓reduceIte]
        have hak : a.getD k 0 = invs.getD k 0 := by
          have := (hv k hk).1
          rw [if_neg (Nat.lt_irrefl k)] at this
          exact this
        refine ⟨by simp [hla], by simp [hlb], by simp [hlc], ?_⟩
        intro j hj
        obtain ⟨h1, h2, h3⟩ := hv j hj
        by_cases hjk : j = k
        · subst hjk
          rw [Loop.getD_set_self _ _ _ _ (by omega), Loop.getD_set_self _ _ _ _ (by omega),
            Loop.getD_set_self _ _ _ _ (by omega), hak]
          simp [hz]
        · have hkj : k ≠ j := fun h => hjk h.symm
          rw [Loop.getD_set_ne _ _ _ _ _ hkj, Loop.getD_set_ne _ _ _ _ _ hkj, Loop.getD_set_ne _ _ _ _ _ hkj]
          have hiff : (j < k + 1) ↔ (j < k) := by omega
          simp only [hiff]
          exact ⟨h1, h2, h3⟩)
  have hr : r = (List.range n).foldl _ _ := Loop.forUp_zero n _ _
  rw [hr]
  obtain ⟨h1, h2, h3, hv⟩ := key
  refine ⟨h1, h2, h3, ?_⟩
  intro j hj
  obtain ⟨e1, e2, e3⟩ := hv j hj
  rw [if_pos hj] at e1 e2 e3
  exact ⟨e1, e2, e3⟩

omit [DecidableEq F] in
attribute [-simp] List.getD_eq_getElem?_getD in
theorem phase3A_spec (n : Nat) (pX pY : List F) (zf : List Bool) (invs : List F) (hi : invs.length = n) :
    let r := phase3A n pX pY zf invs
    r.1.length = n ∧ r.2.length = n ∧ ∀ j, j < n →
      r.1.getD j 0 = (if zf.getD j false = true then invs.getD j 0 else pX.getD j 0 * invs.getD j 0) ∧
      r.2.getD j 0 = (if zf.getD j false = true then 0 else pY.getD j 0 * invs.getD j 0) := by
  intro r
  have key := Loop.foldl_range_inv
    (fun k (st : List F × List F) => st.1.length = n ∧ st.2.length = n ∧
      ∀ j, j < n →
        st.1.getD j 0 = (if j < k then (if zf.getD j false = true then invs.getD j 0 else pX.getD j 0 * invs.getD j 0) else invs.getD j 0) ∧
        st.2.getD j 0 = (if j < k then (if zf.getD j false = true then 0 else pY.getD j 0 * invs.getD j 0) else 0))
    (fun (st : List F × List F) (k : Nat) =>
      (fun (i : Int) (st : List F × List F) =>
        let (resultX, resultY) := st
        if ((Loop.get zf i false) = true) then
          (resultX, resultY)
        else
          let a : F := (Loop.get resultX i 0)
          let resultX : List F := Loop.set resultX i ((Loop.get pX i 0) * a)
          let resultY : List F := Loop.set resultY i ((Loop.get pY i 0) * a)
          (resultX, resultY)) (k : Int) st)
    (invs, List.replicate (((n : Nat) : Int)).toNat (0 : F))
    n
    (by
      refine ⟨hi, by simp, ?_⟩
      intro j hj
      simp [Loop.getD_replicate, hj])
    (by
      rintro k ⟨a, b⟩ hk ⟨hla, hlb, hv⟩
      simp only at hla hlb hv
      simp only [Loop.get_nat, Loop.set_nat]
      by_cases hz : zf.getD k false = true
      · simp only [hz, if_true]
        refine ⟨hla, hlb, ?_⟩
        intro j hj
        obtain ⟨h1, h2⟩ := hv j hj
        by_cases hjk : j = k
        · subst hjk
          rw [h1, h2]
          simp [hz]
        · have hiff : (j < k + 1) ↔ (j < k) := by omega
          simp only [hiff]
          exact ⟨h1, h2⟩
      · simp only [hz, Bool.false_eq_true, ↓reduceIte]
        have hak : a.getD k 0 = invs.getD k 0 := by
          have := (hv k hk).1
          rw [if_neg (Nat.lt_irrefl k)] at this
          exact this
        refine ⟨by simp [hla], by simp [hlb], ?_⟩
        intro j hj
        obtain ⟨h1, h2⟩ := hv j hj
        by_cases hjk : j = k
        · subst hjk
          rw [Loop.getD_set_self _ _ _ _ (by omega), Loop.getD_set_self _ _ _ _ (by omega), hak]
          simp [hz]
        · have hkj : k ≠ j := fun h => hjk h.symm
          rw [Loop.getD_set_ne _ _ _ _ _ hkj, Loop.getD_set_ne _ _ _ _ _ hkj]
          have hiff : (j < k + 1) ↔ (j < k) := by omega
          simp only [hiff]
          exact ⟨h1, h2⟩)
  have hr : r = (List.range n).foldl _ _ := Loop.forUp_zero n _ _
  rw [hr]
  obtain ⟨h1, h2, hv⟩ := key
  refine ⟨h1, h2, ?_⟩
  intro j hj
  obtain ⟨e1, e2⟩ := hv j hj
  rw [if_pos hj] at e1 e2
  exact ⟨e1, e2⟩

/-- inverses and flags delivered by the first two passes -/
theorem invs_flags (pZ : List F) (hne : pZ.length ≠ 0) :
    (phase2 pZ.length pZ (phase1 pZ.length pZ).1 (phase1 pZ.length pZ).2.1 (phase1 pZ.length pZ).2.2).1 = pZ.map (·⁻¹) := by
  rw [phase12_eq_batchInvert pZ hne, Tie.Loops.batchInvert_spec]

theorem getD_map_inv (pZ : List F) (j : Nat) : (pZ.map (·⁻¹)).getD j 0 = (pZ.getD j 0)⁻¹ := by
  simp only [List.getD_eq_getElem?_getD, List.getElem?_map]
  cases pZ[j]? <;> simp

/-- **`batchToExtendedPointNormalized`**, translated from the source: entry `j` of the result is
`(X_j·Z_j⁻¹, Y_j·Z_j⁻¹, (X_j·Z_j⁻¹)·(Y_j·Z_j⁻¹))` — the normalised extended coordinates of the same
point; an entry with `Z_j = 0` (skipped by the code) is `(0, 0, 0)`, which the formula also gives. -/
theorem normalized_spec (pX pY pZ : List F) (hZ : pZ.length = pX.length) :
    let r := Gen.BatchConv.batchToExtendedPointNormalized pX pY pZ
    r.1.length = pX.length ∧ r.2.1.length = pX.length ∧ r.2.2.length = pX.length ∧ ∀ j, j < pX.length →
      r.1.getD j 0 = pX.getD j 0 * (pZ.getD j 0)⁻¹ ∧
      r.2.1.getD j 0 = pY.getD j 0 * (pZ.getD j 0)⁻¹ ∧
      r.2.2.getD j 0 = (pX.getD j 0 * (pZ.getD j 0)⁻¹) * (pY.getD j 0 * (pZ.getD j 0)⁻¹) := by
  intro r
  have hr : r = _ := normalized_unfold pX pY pZ
  rw [hr, ← hZ]
  by_cases hne : pZ.length = 0
  · have : pZ = [] := List.eq_nil_of_length_eq_zero hne
    subst this
    exact ⟨rfl, rfl, rfl, fun j hj => absurd hj (Nat.not_lt_zero j)⟩
  · rw [invs_flags pZ hne]
    obtain ⟨_, hf⟩ := phase1_flags pZ
    obtain ⟨l1, l2, l3, hv⟩ := phase3N_spec pZ.length pX pY (phase1 pZ.length pZ).1 (pZ.map (·⁻¹)) (by simp)
    refine ⟨l1, l2, l3, ?_⟩
    intro j hj
    obtain ⟨e1, e2, e3⟩ := hv j hj
    rw [hf j hj, getD_map_inv] at e1 e2 e3
    by_cases hz : pZ.getD j 0 = 0
    · simp only [hz, decide_true, if_true, inv_zero, mul_zero] at e1 e2 e3 ⊢
      exact ⟨e1, e2, e3⟩
    · simp only [hz, decide_false, Bool.false_eq_true, if_false] at e1 e2 e3
      exact ⟨e1, e2, e3⟩

/-- **`batchProjToAffine`**, translated from the source: entry `j` is `(X_j·Z_j⁻¹, Y_j·Z_j⁻¹)`;
`Z_j = 0` gives `(0, 0)`. -/
theorem affine_spec (pX pY pZ : List F) (hZ : pZ.length = pX.length) :
    let r := Gen.BatchConv.batchProjToAffine pX pY pZ
    r.1.length = pX.length ∧ r.2.length = pX.length ∧ ∀ j, j < pX.length →
      r.1.getD j 0 = pX.getD j 0 * (pZ.getD j 0)⁻¹ ∧ r.2.getD j 0 = pY.getD j 0 * (pZ.getD j 0)⁻¹ := by
  intro r
  have hr : r = _ := affine_unfold pX pY pZ
  rw [hr, ← hZ]
  by_cases hne : pZ.length = 0
  · have : pZ = [] := List.eq_nil_of_length_eq_zero hne
    subst this
    exact ⟨rfl, rfl, fun j hj => absurd hj (Nat.not_lt_zero j)⟩
  · rw [invs_flags pZ hne]
    obtain ⟨_, hf⟩ := phase1_flags pZ
    obtain ⟨l1, l2, hv⟩ := phase3A_spec pZ.length pX pY (phase1 pZ.length pZ).1 (pZ.map (·⁻¹)) (by simp)
    refine ⟨l1, l2, ?_⟩
    intro j hj
    obtain ⟨e1, e2⟩ := hv j hj
    rw [hf j hj, getD_map_inv] at e1 e2
    by_cases hz : pZ.getD j 0 = 0
    · simp only [hz, decide_true, if_true, inv_zero, mul_zero] at e1 e2 ⊢
      exact ⟨e1, e2⟩
    · simp only [hz, decide_false, Bool.false_eq_true, if_false] at e1 e2
      exact ⟨e1, e2⟩

/-! ### on points: the results are the normalised representatives of the same points -/

omit [DecidableEq F] in
theorem getD_map' {α : Type} (l : List α) (f : α → F) (d : α) (j : Nat) (hj : j < l.length) :
    (l.map f).getD j 0 = f (l.getD j d) := by
  simp [List.getD_eq_getElem?_getD, List.getElem?_map, List.getElem?_eq_getElem hj]

/-- **`batchToExtendedPointNormalized` on extended points**: entry `j` of the result is
`ExtN.ofAff` of the affine point of `points[j]` — the representation `C08.rep_addN`
(`ExtendedAddNormalized` adds the represented group element) is stated for; so the parameter
`normalize` of `Tie.PrecompFull.newPrecompPoint_eq` is the identity on group elements. -/
theorem normalized_points (pts : List (Ext F)) :
    let r := Gen.BatchConv.batchToExtendedPointNormalized (pts.map (·.X)) (pts.map (·.Y)) (pts.map (·.Z))
    ∀ j, j < pts.length →
      (⟨r.1.getD j 0, r.2.1.getD j 0, r.2.2.getD j 0⟩ : ExtN F) = ExtN.ofAff ((pts.getD j ⟨0, 0, 0, 0⟩).toProj.toAff) := by
  intro r j hj
  obtain ⟨_, _, _, hv⟩ := normalized_spec (pts.map (·.X)) (pts.map (·.Y)) (pts.map (·.Z)) (by simp)
  obtain ⟨e1, e2, e3⟩ := hv j (by simpa using hj)
  show (⟨r.1.getD j 0, r.2.1.getD j 0, r.2.2.getD j 0⟩ : ExtN F) = _
  rw [e1, e2, e3, getD_map' pts (·.X) ⟨0, 0, 0, 0⟩ j hj, getD_map' pts (·.Y) ⟨0, 0, 0, 0⟩ j hj,
    getD_map' pts (·.Z) ⟨0, 0, 0, 0⟩ j hj]
  rfl

/-- **`batchProjToAffine` on projective points**: entry `j` is the affine point of `points[j]` -/
theorem affine_points (pts : List (Proj F)) :
    let r := Gen.BatchConv.batchProjToAffine (pts.map (·.X)) (pts.map (·.Y)) (pts.map (·.Z))
    ∀ j, j < pts.length →
      (⟨r.1.getD j 0, r.2.getD j 0⟩ : Aff F) = (pts.getD j ⟨0, 0, 0⟩).toAff := by
  intro r j hj
  obtain ⟨_, _, hv⟩ := affine_spec (pts.map (·.X)) (pts.map (·.Y)) (pts.map (·.Z)) (by simp)
  obtain ⟨e1, e2⟩ := hv j (by simpa using hj)
  show (⟨r.1.getD j 0, r.2.getD j 0⟩ : Aff F) = _
  rw [e1, e2, getD_map' pts (·.X) ⟨0, 0, 0⟩ j hj, getD_map' pts (·.Y) ⟨0, 0, 0⟩ j hj,
    getD_map' pts (·.Z) ⟨0, 0, 0⟩ j hj]
  rfl

end GoIpa.Tie.BatchConv
