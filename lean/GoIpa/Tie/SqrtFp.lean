/-
  Tie T1 for C17: the table-driven square root of `bandersnatch/fp/sqrt.go` — `invSqrtEqDyadic`,
  `SqrtPrecomp`, the two table accessors and the `sqrtParam_*` constants — translated statement by
  statement from the current source (`Gen/SqrtFp.lean`, over an abstract field with the look-up
  table, the precomputed blocks and the addition chain as parameters), instantiated with the
  model's tables, **is** the model's `invSqrtEqDyadic` / `Fp.sqrtPrecomp` (`Model/Sqrt.lean`) —
  the functions `C17.sqrtPrecomp_spec` and `invSqrt_spec` are about.
-/
import GoIpa.Gen.SqrtFp
import GoIpa.Model.Sqrt
namespace GoIpa.Tie.SqrtFp
open GoIpa GoIpa.Gen.SqrtFp

/-- `x[0]`: the least significant 64-bit limb of the Montgomery representation -/
def limb0P (x : Fp) : Nat := (x.val * 2 ^ 256 % P) % 2 ^ 64

/-- the Go map `sqrtPrecomp_dlogLUT` as a function (a missing key reads 0) -/
def lutP (k : Nat) : Nat := ((dlogLUT.find? (fun e => e.1 == k)).map (·.2)).getD 0

theorem consts : sqrtParam_Blocks = 4 ∧ sqrtParam_BlockSize = 8 ∧ sqrtParam_FirstBlockUnusedBits = 0 ∧
    sqrtParam_BitMask = 255 ∧ BaseField2Adicity = 32 := by decide

theorem negDlog_eq (x : Fp) : go_NegDlog limb0P lutP x = negDlogSmall x := by
  unfold go_NegDlog negDlogSmall lutP limb0P montKey
  have h : ((x.val * 2 ^ 256 % P) % 2 ^ 64 &&& 0xFFFF) % 65536 = (x.val * 2 ^ 256 % P) % 65536 := by
    have e : (0xFFFF : Nat) = 2 ^ 16 - 1 := by decide
    rw [e, Nat.and_two_pow_sub_one_eq_mod]
    have e2 : (65536 : Nat) = 2 ^ 16 := by decide
    rw [e2, Nat.mod_mod, Nat.mod_mod_of_dvd _ (by decide : 2 ^ 16 ∣ 2 ^ 64)]
  rw [h]

theorem and_255 (x : Nat) : x &&& 255 = x % 256 := by
  have e : (255 : Nat) = 2 ^ 8 - 1 := by decide
  rw [e, Nat.and_two_pow_sub_one_eq_mod]

theorem and_1 (x : Nat) : x &&& 1 = x % 2 := by
  have e : (1 : Nat) = 2 ^ 1 - 1 := by decide
  rw [e, Nat.and_two_pow_sub_one_eq_mod]

/-! ### the algorithm over an abstract field, in the shape of the model -/

section
variable {K : Type} [Mul K] [One K] [Zero K] [DecidableEq K]

def sqTimesG : Nat → K → K
  | 0, x => x
  | n + 1, x => sqTimesG n (x * x)

def mulBlocksG (blocks : Nat → Nat → K) (n off : Nat) : Nat → Nat → K → K
  | 0, _, acc => acc
  | cnt + 1, j, acc => mulBlocksG blocks n off cnt (j + 1) (acc * blocks (j + off) ((n >>> (8 * j)) % 256))

def invSqrtG (nd : K → Nat) (blocks : Nat → Nat → K) (z : K) : Option K :=
  let p0 := z
  let p1 := sqTimesG 8 p0
  let p2 := sqTimesG 8 p1
  let p3 := sqTimesG 8 p2
  let n0 := nd p3
  if n0 % 2 = 1 then none
  else
    let n1 := n0 ||| (nd (mulBlocksG blocks n0 2 1 0 p2) <<< 8)
    let n2 := n1 ||| (nd (mulBlocksG blocks n1 1 2 0 p1) <<< 16)
    let n3 := n2 ||| (nd (mulBlocksG blocks n2 0 3 0 p0) <<< 24)
    some (mulBlocksG blocks (n3 >>> 1) 0 4 0 1)

omit [One K] [DecidableEq K] in
theorem sqTimesG_sq (n : Nat) (x : K) : sqTimesG n (x * x) = sqTimesG n x * sqTimesG n x := by
  induction n generalizing x with
  | zero => rfl
  | succ n ih => simp only [sqTimesG]; rw [ih (x * x)]

omit [One K] [DecidableEq K] in
/-- `n` in-place squarings of slot `i` -/
theorem inner_sq (n i : Nat) (l : List K) (hi : i < l.length) :
    Loop.forNat 0 n l (fun _ st => st.set i ((st.getD i 0) * (st.getD i 0))) = l.set i (sqTimesG n (l.getD i 0)) := by
  unfold Loop.forNat
  rw [Nat.sub_zero]
  induction n with
  | zero => simp [sqTimesG, List.getD_eq_getElem?_getD, List.getElem?_eq_getElem hi]
  | succ n ih =>
    rw [List.range_succ, List.foldl_append, ih]
    simp only [List.foldl_cons, List.foldl_nil]
    have hl : i < (l.set i (sqTimesG n (l.getD i 0))).length := by simpa using hi
    rw [show (l.set i (sqTimesG n (l.getD i 0))).getD i 0 = sqTimesG n (l.getD i 0) by
      simp [List.getD_eq_getElem?_getD, hi]]
    rw [List.set_set, ← sqTimesG_sq]
    rfl

theorem forNat_1_4 {σ : Type} (st : σ) (body : Nat → σ → σ) :
    Loop.forNat 1 4 st body = body 3 (body 2 (body 1 st)) := rfl
theorem forNat_0_4 {σ : Type} (st : σ) (body : Nat → σ → σ) :
    Loop.forNat 0 4 st body = body 3 (body 2 (body 1 (body 0 st))) := rfl
theorem forNat_0_0 {σ : Type} (st : σ) (body : Nat → σ → σ) : Loop.forNat 0 0 st body = st := rfl
theorem forNat_0_1 {σ : Type} (st : σ) (body : Nat → σ → σ) : Loop.forNat 0 1 st body = body 0 st := rfl
theorem forNat_0_2 {σ : Type} (st : σ) (body : Nat → σ → σ) : Loop.forNat 0 2 st body = body 1 (body 0 st) := rfl
theorem forNat_0_3 {σ : Type} (st : σ) (body : Nat → σ → σ) :
    Loop.forNat 0 3 st body = body 2 (body 1 (body 0 st)) := rfl

omit [One K] [DecidableEq K] in
/-- the squaring phase: `powers[i] = z^(2^(8i))` -/
theorem powers_eq (z : K) :
    Loop.forNat 1 4 ((List.replicate 4 (0 : K)).set 0 z) (fun i st =>
      let powers := st
      let powers := powers.set i ((powers.getD (i - (1 : Nat)) 0))
      let powers := Loop.forNat (0 : Nat) 8 powers (fun j st =>
          let powers := st
          let powers := powers.set i ((powers.getD i 0) * (powers.getD i 0))
          powers)
      powers) = [z, sqTimesG 8 z, sqTimesG 8 (sqTimesG 8 z), sqTimesG 8 (sqTimesG 8 (sqTimesG 8 z))] := by
  have step : ∀ (i : Nat) (l : List K), i < l.length →
      (let powers := l
       let powers := powers.set i ((powers.getD (i - (1 : Nat)) 0))
       let powers := Loop.forNat (0 : Nat) 8 powers (fun j st =>
          let powers := st
          let powers := powers.set i ((powers.getD i 0) * (powers.getD i 0))
          powers)
       powers) = l.set i (sqTimesG 8 (l.getD (i - 1) 0)) := by
    intro i l hi
    simp only
    rw [inner_sq 8 i _ (by simpa using hi), List.set_set]
    congr 2
    simp [List.getD_eq_getElem?_getD, hi]
  rw [forNat_1_4]
  rw [step 1 _ (by simp), step 2 _ (by simp), step 3 _ (by simp)]
  simp [List.replicate, List.getD_eq_getElem?_getD]

/-- **`invSqrtEqDyadic`, translated from the source, is the block-wise discrete-log algorithm of the
model** (over any field, any look-up table and any table of precomputed blocks): same flag, same new
value of `*z`; `*z` is left untouched when `false` is returned. -/
theorem invSqrt_generic (limb0 : K → Nat) (lut : Nat → Nat) (blocks : Nat → Nat → K) (z : K) :
    go_invSqrtEqDyadic limb0 lut blocks z =
      (match invSqrtG (go_NegDlog limb0 lut) blocks z with
       | none => (false, z)
       | some y => (true, y)) := by
  obtain ⟨c1, c2, c3, c4, _⟩ := consts
  unfold go_invSqrtEqDyadic invSqrtG
  simp only [c1, c2, c3, c4, powers_eq]
  simp only [forNat_1_4, forNat_0_4, forNat_0_1, forNat_0_2, forNat_0_3,
    go_GetPrecomputedRootOfUnity, and_1, and_255, mulBlocksG, Nat.shiftRight_zero]
  simp only [List.getD_eq_getElem?_getD, Nat.reduceSub, Nat.reduceAdd, Nat.reduceMul, List.getElem?_cons_succ,
    List.getElem?_cons_zero, Option.getD_some, Nat.shiftRight_zero, Nat.sub_zero]
  split <;> rfl

/-- **`SqrtPrecomp`, translated from the source**, over any field: zero maps to zero; otherwise the
candidate is multiplied by the inverse square root of the root of unity, `nil` when there is none -/
theorem sqrtPrecomp_generic (limb0 : K → Nat) (lut : Nat → Nat) (blocks : Nat → Nat → K) (powers : K → K × K) (x : K) :
    go_SqrtPrecomp limb0 lut blocks powers x =
      if x = 0 then some 0
      else match invSqrtG (go_NegDlog limb0 lut) blocks (powers x).2 with
        | none => none
        | some y => some ((powers x).1 * y) := by
  unfold go_SqrtPrecomp
  simp only [invSqrt_generic]
  split
  · rfl
  · cases invSqrtG (go_NegDlog limb0 lut) blocks (powers x).2 <;> rfl

end

/-! ### at the base field, with the model's tables -/

theorem sqTimes_eq (n : Nat) (x : Fp) : sqTimesG n x = sqTimes n x := by
  induction n generalizing x with
  | zero => rfl
  | succ n ih => simp only [sqTimesG, sqTimes, ih]

theorem mulBlocks_eq (n off cnt j : Nat) (acc : Fp) :
    mulBlocksG precompBlock n off cnt j acc = mulBlocks n off cnt j acc := by
  induction cnt generalizing j acc with
  | zero => rfl
  | succ cnt ih => simp only [mulBlocksG, mulBlocks, ih]

theorem invSqrtG_eq (z : Fp) : invSqrtG negDlogSmall precompBlock z = invSqrtEqDyadic z := by
  unfold invSqrtG invSqrtEqDyadic sq8
  simp only [sqTimes_eq, mulBlocks_eq]

/-- **`invSqrtEqDyadic` (translated) = the model's `invSqrtEqDyadic`** -/
theorem invSqrt_eq (z : Fp) :
    go_invSqrtEqDyadic limb0P lutP precompBlock z =
      (match invSqrtEqDyadic z with
       | none => (false, z)
       | some y => (true, y)) := by
  have hnd : go_NegDlog limb0P lutP = negDlogSmall := funext negDlog_eq
  rw [invSqrt_generic, hnd, invSqrtG_eq]
  cases invSqrtEqDyadic z <;> with_reducible rfl

/-- what `sqrtAlg_ComputeRelevantPowers` delivers (the addition chain: `Tie.SqrtChain.chain_exponents`):
the candidate `v^((Q+1)/2)` and the root of unity `v^Q`, in the model's factorisation -/
def powersP (v : Fp) : Fp × Fp :=
  (v ^ ((Qodd - 1) / 2) * v, v ^ ((Qodd - 1) / 2) * v ^ ((Qodd - 1) / 2) * v)
theorem powersP_fst (v : Fp) : (powersP v).1 = v ^ ((Qodd - 1) / 2) * v := rfl
theorem powersP_snd (v : Fp) : (powersP v).2 = v ^ ((Qodd - 1) / 2) * v ^ ((Qodd - 1) / 2) * v := rfl

theorem fp_eq_zero_iff (v : Fp) : v = 0 ↔ v.val = 0 := by
  constructor
  · intro h; rw [h]; rfl
  · intro h
    cases v with
    | mk val lt => simp only at h; subst h; rfl

/-- **`SqrtPrecomp` (translated) = the model's `Fp.sqrtPrecomp`** — the function
`C17.sqrtPrecomp_spec` is about. -/
theorem sqrtPrecomp_eq (v : Fp) :
    go_SqrtPrecomp limb0P lutP precompBlock powersP v = Fp.sqrtPrecomp v := by
  have hnd : go_NegDlog limb0P lutP = negDlogSmall := funext negDlog_eq
  rw [sqrtPrecomp_generic, hnd]
  unfold Fp.sqrtPrecomp
  by_cases h : v = 0
  · rw [if_pos h, if_pos ((fp_eq_zero_iff v).1 h)]
  · rw [if_neg h, if_neg (mt (fp_eq_zero_iff v).2 h), invSqrtG_eq, powersP_fst, powersP_snd]
    generalize v ^ ((Qodd - 1) / 2) = A
    dsimp only
    generalize invSqrtEqDyadic (A * A * v) = o
    cases o <;> rfl

/-- the constants the translation depends on, and what was translated -/
theorem coverage : sqrtParam_TotalBits = 32 ∧ sqrtParam_Blocks * sqrtParam_BlockSize = 32 := by decide

/-- the table construction in `init()` — the dyadic roots by repeated squaring from the hard-coded `2^32`-th
root (with the `-1` check), the reconstruction root `roots[32 − 8]`, the blocks `blocks[i][j] = blocks[i][j−1]·roots[8i]`
from `blocks[i][0] = 1`, the look-up table `key(g₈^i) ↦ (−i) & 255` — is not translated; the model's `dyadicRoots`,
`precompBlock`, `dlogLUT` mirror exactly these statements (and `C17.G_primitive`, `lut_keys_distinct`,
`lut_values` are about them); any edit is a broken obligation. -/
theorem init_shape : Gen.SqrtFp.initBody = ["sqrtPrecomp_PrimitiveDyadicRoots = func() (ret [BaseField2Adicity + 1]feType_SquareRoot) { if _, err := ret[0].SetString(\"10238227357739495823651030575849232062558860180284477541189508159991286009131\"); err != nil { panic(err) } for i := 1; i <= BaseField2Adicity; i++ { ret[i].Square(&ret[i-1]) } x := big.NewInt(0) ret[BaseField2Adicity-1].BigInt(x) if ret[BaseField2Adicity-1].String() != \"-1\" { panic(\"something is wrong with the dyadic roots of unity\") } return }()", "sqrtPrecomp_ReconstructionDyadicRoot = sqrtPrecomp_PrimitiveDyadicRoots[BaseField2Adicity-sqrtParam_BlockSize]", "sqrtPrecomp_PrecomputedBlocks = func() (blocks [sqrtParam_Blocks][1 << sqrtParam_BlockSize]feType_SquareRoot) { for i := 0; i < sqrtParam_Blocks; i++ { blocks[i][0].SetOne() for j := 1; j < (1 << sqrtParam_BlockSize); j++ { blocks[i][j].Mul(&blocks[i][j-1], &sqrtPrecomp_PrimitiveDyadicRoots[i*sqrtParam_BlockSize]) } } return }()", "sqrtPrecomp_dlogLUT = func() (ret map[uint16]uint) { const LUTSize = 1 << sqrtParam_BlockSize ret = make(map[uint16]uint, LUTSize) var rootOfUnity feType_SquareRoot rootOfUnity.SetOne() for i := 0; i < LUTSize; i++ { const mask = LUTSize - 1 ret[uint16(rootOfUnity[0]&0xFFFF)] = uint((-i) & mask) rootOfUnity.Mul(&rootOfUnity, &sqrtPrecomp_ReconstructionDyadicRoot) } if len(ret) != LUTSize { panic(\"failed to store all appropriate roots of unity in a map\") } return }()"] := rfl

end GoIpa.Tie.SqrtFp
