/-
  Tie T1 for `computeBVector` (ipa/prover.go) and the package variable `maxEvalPointInsideDomain`
  with its only assignment in `init()`, both translated from the current source on every run
  (`Gen/Loops.lean`): the translated function **is** the model's `bVector`.

  The translation abstracts the integer value of a field element as a parameter `val : K → Nat`
  (`Cmp` compares `val`s, `ToBigIntRegular` returns `val`, `big.Int.Uint64` truncates it modulo
  `2^64`).  The theorem holds for every `val` that reads `255` as 255 and agrees with the
  configuration's `inDomain` — for the executable instance `val = Zp.val` and
  `inDomain = frInDomain 256` (`computeBVector_eq_real`).

  Consequence: the in-domain / out-of-domain switch of the IPA (`val z > 255`: barycentric
  coefficients; otherwise the unit vector at index `val z mod 2^64 = val z`) is checked against the
  source as a theorem, not only as the extracted strings of `Tie/Consts.lean`.
-/
import GoIpa.Tie.Protocol
import GoIpa.Props.Concrete
namespace GoIpa.Tie.BVector
open GoIpa GoIpa.Loop GoIpa.Tie.Loops GoIpa.Tie.Protocol

variable {K G : Type} [Field K] [DecidableEq K] [AddCommGroup G] [Module K G]

/-- `maxEvalPointInsideDomain` is the field element `255` -/
theorem maxEval_eq : (Gen.Loops.maxEvalPointInsideDomain : K) = ((255 : Nat) : K) := rfl

/-- **`computeBVector`, translated from the source, is the model's `bVector`.** -/
theorem computeBVector_eq (cfg : IpaCfg K G) (hN : cfg.N = 256) (val : K → Nat)
    (hmax : val ((255 : Nat) : K) = 255)
    (hdom : ∀ z, cfg.inDomain z = if val z ≤ 255 then some (val z) else none) (z : K) :
    Gen.Loops.computeBVector val cfg.weights.bary cfg.weights.invDom cfg.Q cfg.srs (cfg.rounds : Int) z = bVector cfg z := by
  unfold Gen.Loops.computeBVector bVector
  rw [maxEval_eq, hmax, hdom z, hN]
  by_cases h : val z ≤ 255
  · have h' : ¬ (val z > 255) := by omega
    rw [if_neg h', if_pos h]
    simp only
    have hmod : val z % 18446744073709551616 = val z := Nat.mod_eq_of_lt (by omega)
    rw [hmod, set_nat, show ((256 : Int)).toNat = 256 from rfl]
    apply ext_getD _ _ (0 : K) (by rw [List.length_set, List.length_replicate, List.length_map, List.length_range])
    intro j hj
    rw [List.length_set, List.length_replicate] at hj
    rw [getD_set, getD_map_range _ _ _ _ hj, List.length_replicate]
    by_cases hji : j = val z
    · subst hji; simp [hj]
    · have : ¬ (val z = j ∧ val z < 256) := fun hh => hji hh.1.symm
      rw [if_neg this, if_neg hji, getD_replicate _ _ _ _ hj]
  · have h' : val z > 255 := by omega
    rw [if_pos h', if_neg h]
    exact baryCoeffs_eq_field cfg.weights z

/-- the verifier and the prover with the translated `computeBVector` in place of the parameter -/
theorem checkIPAProof_eq_bvec (enc : Enc K G) (cfg : IpaCfg K G) (hN : cfg.N = 256) (val : K → Nat)
    (hmax : val ((255 : Nat) : K) = 255)
    (hdom : ∀ z, cfg.inDomain z = if val z ≤ 255 then some (val z) else none)
    (ms : List G → List K → Option G) (hms : MsOk ms)
    (hr : cfg.rounds = 8) (tr : Tr) (C : G) (proof : IpaProof K G) (z y : K)
    (hb : (bVector cfg z).length = cfg.srs.length) :
    Gen.Loops.checkIPAProof enc
        (Gen.Loops.computeBVector val cfg.weights.bary cfg.weights.invDom cfg.Q cfg.srs (cfg.rounds : Int))
        ms tr cfg.Q cfg.srs (cfg.rounds : Int) C proof.L proof.R proof.a z y
      = ofModel (ipaVerify enc cfg tr C proof z y) := by
  have : Gen.Loops.computeBVector val cfg.weights.bary cfg.weights.invDom cfg.Q cfg.srs (cfg.rounds : Int) = bVector cfg :=
    funext (computeBVector_eq cfg hN val hmax hdom)
  rw [this]
  exact checkIPAProof_eq enc cfg ms hms hr tr C proof z y hb

/-- at the executable scalar field: `val` is the canonical representative, the configuration is the
real one (`inDomain = frInDomain 256`) -/
theorem computeBVector_eq_real {G : Type} [AddCommGroup G] [Module Fr G] (srs : List G) (Q : G) (z : Fr) :
    Gen.Loops.computeBVector Zp.val (Concrete.realCfg srs Q).weights.bary (Concrete.realCfg srs Q).weights.invDom Q srs 8 z
      = bVector (Concrete.realCfg srs Q) z :=
  computeBVector_eq (Concrete.realCfg srs Q) rfl Zp.val (by decide) (fun _ => rfl) z

end GoIpa.Tie.BVector
