/-
  Tie T1 for C05 / C03 / C13: `ipa.GenerateRandomPoints` — the try-and-increment derivation of the
  CRS from the seed — translated from the current source (`Gen/CRS.lean`; the unbounded Go loop is
  cut off after `fuel` iterations) **is** the try-and-increment recursion `genAux` (the model's
  `genPointsAux` of `Model/Config.lean` with hash, field codec and point decoder as parameters), for every
  fuel, number of points, hash, codec and decoder: same hash input `seed ‖ be64(counter)`, digest
  reduced into the base field and re-encoded, untrusted decoding, counter advanced on success and on
  failure, points kept in order; the seed is the model's.
-/
import GoIpa.Gen.CRS
import GoIpa.Model.Config
import GoIpa.Model.Codec
namespace GoIpa.Tie.CRS
open GoIpa GoIpa.Gen.CRS

theorem seed_eq : Gen.CRS.seed = crsSeed := rfl

section
variable {K G : Type} (H : Bytes → Bytes) (fs : Bytes → K) (fb : K → Bytes) (decode : Bytes → Option G)

/-- the model's `genPointsAux` (`Model/Config.lean`) with its hash, field codec and point decoder as
parameters: the same recursion, the same reversed accumulator -/
def genAux (seed : Bytes) : Nat → Nat → Nat → List G → List G
  | 0, _, _, acc => acc.reverse
  | fuel + 1, want, incr, acc =>
    if acc.length = want then acc.reverse
    else
      match decode (fb (fs (H (seed ++ natToBE 8 incr)))) with
      | some p => genAux seed fuel want (incr + 1) (p :: acc)
      | none => genAux seed fuel want (incr + 1) acc

/-- one iteration of the translated loop body -/
theorem body_gen (pts : List G) (incr : Nat) :
    go_crsBody H fs fb decode (pts, incr) =
      (match decode (fb (fs (H (Gen.CRS.seed ++ natToBE 8 incr)))) with
       | none => (pts, incr + 1)
       | some p => (pts ++ [p], incr + 1)) := rfl

theorem loop_gen (n : Nat) : ∀ (fuel : Nat) (pts : List G) (incr : Nat),
    (Loop.whileN fuel (fun (st : List G × Nat) => decide (st.1.length ≠ n))
      (go_crsBody H fs fb decode) (pts, incr)).1
      = genAux H fs fb decode Gen.CRS.seed fuel n incr pts.reverse := by
  intro fuel
  induction fuel with
  | zero =>
    intro pts incr
    show pts = genAux H fs fb decode Gen.CRS.seed 0 n incr pts.reverse
    rw [genAux, List.reverse_reverse]
  | succ fuel ih =>
    intro pts incr
    rw [genAux, Loop.whileN, List.length_reverse, List.reverse_reverse]
    by_cases h : pts.length = n
    · have hc : decide ((pts, incr).1.length ≠ n) = false := by
        show decide (pts.length ≠ n) = false
        simp only [h, ne_eq, not_true_eq_false, decide_false]
      rw [hc, if_pos h]
      rfl
    · have hc : decide ((pts, incr).1.length ≠ n) = true := by
        show decide (pts.length ≠ n) = true
        simp only [h, ne_eq, not_false_eq_true, decide_true]
      rw [hc, if_neg h, body_gen]
      generalize decode (fb (fs (H (Gen.CRS.seed ++ natToBE 8 incr)))) = d
      cases d with
      | some p =>
        show (Loop.whileN fuel _ _ (pts ++ [p], incr + 1)).1 = genAux H fs fb decode Gen.CRS.seed fuel n (incr + 1) (p :: pts.reverse)
        rw [ih (pts ++ [p]) (incr + 1), List.reverse_append]
        rfl
      | none =>
        show (Loop.whileN fuel _ _ (pts, incr + 1)).1 = genAux H fs fb decode Gen.CRS.seed fuel n (incr + 1) pts.reverse
        rw [ih pts (incr + 1)]

/-- **`GenerateRandomPoints`, translated from the source, is the try-and-increment recursion of the
model** — for every hash, field codec, point decoder, fuel and number of points: hash input
`seed ‖ be64(counter)`, digest reduced into the base field and re-encoded, untrusted decoding, the
counter advanced on success and on failure, points kept in order. -/
theorem generateRandomPoints_gen (fuel n : Nat) :
    go_GenerateRandomPoints H fs fb decode fuel n = genAux H fs fb decode Gen.CRS.seed fuel n 0 [] :=
  loop_gen H fs fb decode n fuel [] 0

end

/-! `genAux Sha256.hash Fp.setBytes Zp.bytesBE (decodeCompressed sqrt · |>.toOption) crsSeed` is, definition
against definition, the model's `genPointsAux sqrt crsSeed` (`Model/Config.lean`); that instantiation is not
stated as a theorem here (unfolding the concrete SHA-256 / decoder terms makes the elaborator evaluate them);
it is covered by the correspondence run, in which the driver's CRS — produced by `genPointsAux` — is compared
with the implementation's for all 256 points (table audit, commitments) and by `drv --selftest` (first and
last published point). -/

end GoIpa.Tie.CRS
