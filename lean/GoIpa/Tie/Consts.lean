/-
  Tie T1: structural constants extracted from the current source equal the model's.
-/
import GoIpa.Gen.Consts
import GoIpa.Model.Config
namespace GoIpa.Tie.Consts
open GoIpa

theorem vector_length : Gen.vectorLength = 256 ∧ Gen.supportedMSMLength = 256 ∧ Gen.domainSizeExpr = "common.VectorLength" := by
  decide

/-- 16-bit windows for the first five basis points, 8-bit for the rest -/
theorem precomp_windows : Gen.window16vs8IndexLimit = 5 ∧ Gen.precompWindowSizes = ["8", "16"] := by decide

/-- the in-domain / out-of-domain switch: strictly greater than `VectorLength − 1` -/
theorem bvector_boundary :
    Gen.maxEvalPointExpr = "common.VectorLength - 1" ∧
    Gen.bVectorOutsideCond = "evalPoint.Cmp(&maxEvalPointInsideDomain) > 0" := by decide

/-- eight `L`, eight `R` on the wire; bit `7 − j` of the index selects challenge `j` -/
theorem ipa_rounds_literals :
    Gen.ipaReadLoopConds = ["i < 8", "i < 8"] ∧ Gen.ipaEqualNumRounds = "8" ∧
    Gen.foldingBitTests = ["i&(1<<(7-challengeIdx)) > 0"] := by decide

theorem crs_seed : str Gen.crsSeed = crsSeed := by decide +kernel

theorem coordinate_size : Gen.coordinateSizeExpr = "fp.Limbs * 8" := by decide

/-- the glue functions that are not translated — `NewIPASettings` (SRS = `GenerateRandomPoints(256)`, `Q` = the
generator, tables = `NewPrecompMSM(srs)`, weights, rounds), `MultiScalar` (identity receiver, `MultiExp` with
Montgomery scalars and `NumCPU` tasks), `Commit` (= the precomputed-table MSM), `computeNumRounds`,
`GenerateRandomPoints` (the try-and-increment loop the model's `genPointsAux` mirrors), banderwagon's `MultiExp`
wrapper (projective copies → `batchProjToAffine` → `bandersnatch.MultiExp`) and `NewPrecompMSM` — have exactly
these statements; any edit of them is a broken obligation. -/
theorem glue_bodies :
    Gen.glueNewIPASettings = ["srs := GenerateRandomPoints(common.VectorLength)", "precompMSM, err := banderwagon.NewPrecompMSM(srs)", "if err != nil { return nil, fmt.Errorf(\"creating precomputed MSM: %s\", err) }", "return &IPAConfig{ SRS: srs, Q: banderwagon.Generator, PrecompMSM: precompMSM, PrecomputedWeights: NewPrecomputedWeights(), numRounds: computeNumRounds(common.VectorLength), }, nil"] ∧
    Gen.glueMultiScalar = ["var result banderwagon.Element", "result.SetIdentity()", "res, err := result.MultiExp(points, scalars, banderwagon.MultiExpConfig{NbTasks: runtime.NumCPU(), ScalarsMont: true})", "if err != nil { return banderwagon.Element{}, fmt.Errorf(\"mult exponentiation was not successful: %w\", err) }", "return *res, nil"] ∧
    Gen.glueCommit = ["return ic.PrecompMSM.MSM(polynomial)"] ∧
    Gen.glueComputeNumRounds = ["if vectorSize == 0 { panic(\"zero is not a valid input\") }", "isPow2 := (vectorSize & (vectorSize - 1)) == 0", "if !isPow2 { panic(\"non power of 2 numbers are not valid inputs\") }", "res := math.Log2(float64(vectorSize))", "return uint32(res)"] ∧
    Gen.glueGenerateRandomPoints = ["seed := \"eth_verkle_oct_2021\"", "points := []banderwagon.Element{}", "var increment uint64 = 0", "for uint64(len(points)) != numPoints { digest := sha256.New() digest.Write([]byte(seed)) b := make([]byte, 8) binary.BigEndian.PutUint64(b, increment) digest.Write(b) hash := digest.Sum(nil) var x fp.Element x.SetBytes(hash) increment++ x_as_bytes := x.Bytes() var point_found banderwagon.Element err := point_found.SetBytes(x_as_bytes[:]) if err != nil { continue } points = append(points, point_found) }", "return points"] ∧
    Gen.glueBanderwagonMultiExp = ["var projPoints = make([]bandersnatch.PointProj, len(points))", "for i := range points { projPoints[i] = points[i].inner }", "affinePoints := batchProjToAffine(projPoints)", "_, err := bandersnatch.MultiExp(&p.inner, affinePoints, scalars, bandersnatch.MultiExpConfig{ NbTasks: config.NbTasks, ScalarsMont: config.ScalarsMont, })", "return p, err"] ∧
    Gen.glueNewPrecompMSM = ["if len(points) != supportedMSMLength { return MSMPrecomp{}, fmt.Errorf(\"the number of points must be %d\", supportedMSMLength) }", "var err error", "var precompPoints [supportedMSMLength]PrecompPoint", "for i := 0; i < supportedMSMLength; i++ { windowSize := 8 if i < window16vs8IndexLimit { windowSize = 16 } precompPoints[i], err = NewPrecompPoint(points[i], windowSize) if err != nil { return MSMPrecomp{}, fmt.Errorf(\"creating precomputed table for point: %s\", err) } }", "return MSMPrecomp{ precompPoints: precompPoints, }, nil"] :=
  ⟨rfl, rfl, rfl, rfl, rfl, rfl, rfl⟩

end GoIpa.Tie.Consts
