/-
  Tie T1: structural constants extracted from the current source equal the model's.
-/
import GoIpa.Gen.Consts
import GoIpa.Model.Config
namespace GoIpa.Tie.Consts
open GoIpa

theorem vector_length : Gen.vectorLength = 256 ∧ Gen.supportedMSMLength = 256 ∧ Gen.domainSizeExpr = "common.VectorLength" := by
  decide

/-- 16-bit windows for the first five basis points, 8-bit for the rest -/
theorem precomp_windows : Gen.window16vs8IndexLimit = 5 ∧ Gen.precompWindowSizes = ["8", "16"] := by decide

/-- the in-domain / out-of-domain switch: strictly greater than `VectorLength − 1` -/
theorem bvector_boundary :
    Gen.maxEvalPointExpr = "common.VectorLength - 1" ∧
    Gen.bVectorOutsideCond = "evalPoint.Cmp(&maxEvalPointInsideDomain) > 0" := by decide

/-- eight `L`, eight `R` on the wire; bit `7 − j` of the index selects challenge `j` -/
theorem ipa_rounds_literals :
    Gen.ipaReadLoopConds = ["i < 8", "i < 8"] ∧ Gen.ipaEqualNumRounds = "8" ∧
    Gen.foldingBitTests = ["i&(1<<(7-challengeIdx)) > 0"] := by decide

theorem crs_seed : str Gen.crsSeed = crsSeed := by decide +kernel

theorem coordinate_size : Gen.coordinateSizeExpr = "fp.Limbs * 8" := by decide

end GoIpa.Tie.Consts
