/-
  Tie T1 for C15, the part of `bandersnatch/fr/element.go` outside the limb routines and the byte
  codecs: `Set`, `SetOne`, `Equal`, `IsZero`, `Cmp`, `LexicographicallyLargest`, `Exp`, `Legendre`,
  translated statement by statement from the current source (`Gen/FrMisc.lean`).  Proved here, on
  the translated code, for all limb vectors:

  * `Set` copies, `SetOne` stores the Montgomery form of 1, `Equal` / `IsZero` decide equality of limbs;
  * `Cmp` compares the regular (non-Montgomery) values; `LexicographicallyLargest` ⇔ value > (r−1)/2;
  * `Exp(x, e)` on a Montgomery representation of `a` is a fully reduced Montgomery representation
    of `a^e` (square-and-multiply from the most significant bit, every exponent `e ≥ 0`);
  * `Legendre` is Euler's criterion: 0, 1 or −1 according to `a^((r−1)/2) mod r`.
-/
import GoIpa.Gen.FrMisc
import GoIpa.Tie.FrCodecEnc
namespace GoIpa.Tie.FrMisc
open GoIpa GoIpa.Limbs GoIpa.Cios GoIpa.Gen.FrCodec GoIpa.Gen.FrMisc GoIpa.Tie.FrCodec

/-- the Montgomery form of 1 (`SetOne`) -/
def oneL : L4 := ⟨6347764673676886264, 253265890806062196, 11064306276430008312, 1739710354780652911⟩

theorem one_repr : Cios.Repr oneL 1 ∧ oneL.val < R ∧ oneL.ok := by
  refine ⟨?_, ?_, ?_⟩
  · unfold Cios.Repr; decide +kernel
  · decide +kernel
  · unfold L4.ok; decide +kernel

theorem legendreExponent_eq : legendreExponent = (((R - 1) / 2 : Nat) : Int) := by decide +kernel

theorem set_eq (z x : L4) : go_Set z x = x := by
  obtain ⟨x0, x1, x2, x3⟩ := x
  simp [go_Set, Big.setLimb, Big.limb]

theorem setOne_eq (z : L4) : go_SetOne z = oneL := by
  simp [go_SetOne, Big.setLimb, oneL]

theorem equal_iff (z x : L4) : go_Equal z x = true ↔ z = x := by
  obtain ⟨z0, z1, z2, z3⟩ := z
  obtain ⟨x0, x1, x2, x3⟩ := x
  have e : go_Equal ⟨z0, z1, z2, z3⟩ ⟨x0, x1, x2, x3⟩ = decide (((z3 = x3 ∧ z2 = x2) ∧ z1 = x1) ∧ z0 = x0) := rfl
  rw [e, decide_eq_true_eq, L4.mk.injEq]
  omega

theorem isZero_iff (z : L4) : go_IsZero z = true ↔ z = ⟨0, 0, 0, 0⟩ := by
  obtain ⟨z0, z1, z2, z3⟩ := z
  have e : go_IsZero ⟨z0, z1, z2, z3⟩ = decide (((z3 ||| z2) ||| z1) ||| z0 = 0) := rfl
  rw [e, decide_eq_true_eq, L4.mk.injEq]
  simp only [Nat.or_eq_zero_iff]
  omega

/-- lexicographic comparison of limbs, most significant first, is comparison of the values -/
theorem cmp_limbs (a b : L4) (ha : a.ok) (hb : b.ok) :
    (if a.l3 > b.l3 then (1 : Int) else if a.l3 < b.l3 then -1 else
     if a.l2 > b.l2 then 1 else if a.l2 < b.l2 then -1 else
     if a.l1 > b.l1 then 1 else if a.l1 < b.l1 then -1 else
     if a.l0 > b.l0 then 1 else if a.l0 < b.l0 then -1 else 0) = Big.cmp (a.val : Int) (b.val : Int) := by
  obtain ⟨a0, a1, a2, a3⟩ := a
  obtain ⟨b0, b1, b2, b3⟩ := b
  unfold L4.ok at ha hb
  unfold Big.cmp L4.val W at *
  simp only at *
  repeat' split
  all_goals omega

/-- the comparison chain of `Cmp`, on the converted operands -/
def cmpCore (_z _x : L4) : Int :=
  if ((Big.limb _z (3 : Int)) > (Big.limb _x (3 : Int))) then (1 : Int)
  else if ((Big.limb _z (3 : Int)) < (Big.limb _x (3 : Int))) then (-(1 : Int))
  else if ((Big.limb _z (2 : Int)) > (Big.limb _x (2 : Int))) then (1 : Int)
  else if ((Big.limb _z (2 : Int)) < (Big.limb _x (2 : Int))) then (-(1 : Int))
  else if ((Big.limb _z (1 : Int)) > (Big.limb _x (1 : Int))) then (1 : Int)
  else if ((Big.limb _z (1 : Int)) < (Big.limb _x (1 : Int))) then (-(1 : Int))
  else if ((Big.limb _z (0 : Int)) > (Big.limb _x (0 : Int))) then (1 : Int)
  else if ((Big.limb _z (0 : Int)) < (Big.limb _x (0 : Int))) then (-(1 : Int))
  else (0 : Int)

/-- `Cmp` converts both operands out of Montgomery form and runs the chain -/
theorem cmp_unfold (z x : L4) : go_Cmp z x = cmpCore (fromMontG z) (fromMontG x) := rfl

theorem cmpCore_eq (a b : L4) (ha : a.ok) (hb : b.ok) : cmpCore a b = Big.cmp (a.val : Int) (b.val : Int) := by
  rw [← cmp_limbs a b ha hb]
  obtain ⟨a0, a1, a2, a3⟩ := a
  obtain ⟨b0, b1, b2, b3⟩ := b
  rfl

/-- **`Cmp`** compares the regular values of its operands -/
theorem cmp_spec (z x : L4) (hz : z.ok) (hx : x.ok) :
    go_Cmp z x = Big.cmp ((fromMontG z).val : Int) ((fromMontG x).val : Int) := by
  obtain ⟨zok, _, _⟩ := fromMontG_correct z hz
  obtain ⟨xok, _, _⟩ := fromMontG_correct x hx
  rw [cmp_unfold, cmpCore_eq _ _ zok xok]

/-- the borrow chain of `LexicographicallyLargest` -/
theorem lex_limbs (a : L4) (ha : a.ok) :
    ((sub64 a.l3 1044189607433056169 (sub64 a.l2 461402362329971456 (sub64 a.l1 9207542918679396920
      (sub64 a.l0 13438322763177358321 0).2).2).2).2 = 0) ↔ (R - 1) / 2 < a.val := by
  obtain ⟨a0, a1, a2, a3⟩ := a
  unfold L4.ok at ha
  have hR : (R - 1) / 2 = 6554484396890773809930967563523245729654577946720285125893201653364843836400 := by decide
  rw [hR]
  unfold sub64 L4.val W at *
  simp only at *
  repeat' split
  all_goals omega

/-- the borrow chain of `LexicographicallyLargest`, on the converted operand -/
def lexCore (_z : L4) : Bool :=
  let b : Nat := 0
  let b := (sub64 (Big.limb _z (0 : Int)) (13438322763177358321 : Nat) (0 : Nat)).2
  let b := (sub64 (Big.limb _z (1 : Int)) (9207542918679396920 : Nat) b).2
  let b := (sub64 (Big.limb _z (2 : Int)) (461402362329971456 : Nat) b).2
  let b := (sub64 (Big.limb _z (3 : Int)) (1044189607433056169 : Nat) b).2
  decide (b = (0 : Nat))

theorem lex_unfold (z : L4) : go_LexicographicallyLargest z = lexCore (fromMontG z) := rfl

theorem lexCore_iff (a : L4) (ha : a.ok) : lexCore a = true ↔ (R - 1) / 2 < a.val := by
  rw [← lex_limbs a ha]
  obtain ⟨a0, a1, a2, a3⟩ := a
  exact decide_eq_true_iff

/-- **`LexicographicallyLargest`** ⇔ the regular value is larger than `(r − 1)/2` -/
theorem lexLargest_iff (z : L4) (hz : z.ok) :
    go_LexicographicallyLargest z = true ↔ (R - 1) / 2 < (fromMontG z).val := by
  obtain ⟨zok, _, _⟩ := fromMontG_correct z hz
  rw [lex_unfold, lexCore_iff _ zok]

/-! ### `Exp` -/

theorem forDown_nat {σ : Type} (hi : Int) (st : σ) (body : Int → σ → σ) :
    Loop.forDown hi 0 st body = (List.range (hi + 1).toNat).foldl (fun st (k : Nat) => body (hi - (k : Int)) st) st := by
  unfold Loop.forDown
  simp

/-- one iteration of square-and-multiply on Montgomery representations -/
theorem exp_step (z x : L4) (a m bit : Nat) (hz : z.ok) (hzr : z.val < R) (hx : x.ok) (hxr : x.val < R)
    (rz : Cios.Repr z (a ^ m)) (rx : Cios.Repr x a) :
    Cios.Repr (if bit = 1 then mulG (mulG z z) x else mulG z z) (a ^ (2 * m + (if bit = 1 then 1 else 0))) ∧
      (if bit = 1 then mulG (mulG z z) x else mulG z z).val < R ∧ (if bit = 1 then mulG (mulG z z) x else mulG z z).ok := by
  obtain ⟨r1, l1, o1⟩ := mulG_repr z z (a ^ m) (a ^ m) hz hz hzr rz rz
  have e1 : a ^ m * a ^ m = a ^ (2 * m) := by rw [← Nat.pow_add]; congr 1; omega
  rw [e1] at r1
  by_cases hb : bit = 1
  · simp only [hb, if_true]
    obtain ⟨r2, l2, o2⟩ := mulG_repr (mulG z z) x (a ^ (2 * m)) a o1 hx hxr r1 rx
    rw [← Nat.pow_succ] at r2
    exact ⟨r2, l2, o2⟩
  · simp only [hb, if_false, Nat.add_zero]
    exact ⟨r1, l1, o1⟩

/-- **`Exp`**: for a fully reduced Montgomery representation `x` of `a` and every exponent `e ≥ 0`
(whatever the receiver held), the result is a fully reduced Montgomery representation of `a^e`. -/
theorem exp_repr (z x : L4) (a : Nat) (e : Int) (he : 0 ≤ e) (hx : x.ok) (hxr : x.val < R) (rx : Cios.Repr x a) :
    Cios.Repr (go_Exp z x e) (a ^ e.toNat) ∧ (go_Exp z x e).val < R ∧ (go_Exp z x e).ok := by
  unfold go_Exp
  simp only [cmp_eq_zero]
  by_cases h0 : e = 0
  · subst h0
    simp only [if_true, setOne_eq]
    simpa using one_repr
  · simp only [h0, if_false, set_eq]
    obtain ⟨n, rfl⟩ : ∃ n : Nat, e = (n : Int) := ⟨e.toNat, by omega⟩
    have hn : n ≠ 0 := by omega
    have hlo : 2 ^ n.log2 ≤ n := Nat.log2_self_le hn
    have hhi : n < 2 ^ (n.log2 + 1) := Nat.lt_log2_self
    have hbl : Big.bitLen (n : Int) - 2 = ((n.log2 + 1 : Nat) : Int) - 2 := by
      unfold Big.bitLen
      have : ¬ ((n : Int) = 0) := h0
      rw [if_neg this, Int.natAbs_natCast]
    rw [hbl, forDown_nat]
    have hcnt : (((n.log2 + 1 : Nat) : Int) - 2 + 1).toNat = n.log2 := by omega
    rw [hcnt, Int.toNat_natCast]
    have key := Loop.foldl_range_inv
      (fun k (st : L4) => Cios.Repr st (a ^ (n / 2 ^ (n.log2 - k))) ∧ st.val < R ∧ st.ok)
      (fun (st : L4) (k : Nat) =>
        (fun (i : Int) (z : L4) => if Big.bit (n : Int) i = 1 then mulG (mulG z z) x else mulG z z)
          (((n.log2 + 1 : Nat) : Int) - 2 - (k : Int)) st)
      x n.log2
      (by
        have : n / 2 ^ (n.log2 - 0) = 1 := by
          rw [Nat.sub_zero]
          exact Nat.div_eq_of_lt_le (by omega) (by rw [Nat.pow_succ] at hhi; omega)
        rw [this, Nat.pow_one]
        exact ⟨rx, hxr, hx⟩)
      (by
        intro k st hk ⟨rs, ls, os⟩
        have hi : (((n.log2 + 1 : Nat) : Int) - 2 - (k : Int)) = ((n.log2 - 1 - k : Nat) : Int) := by omega
        simp only [hi]
        have hbit : Big.bit (n : Int) ((n.log2 - 1 - k : Nat) : Int) = n / 2 ^ (n.log2 - 1 - k) % 2 := by
          unfold Big.bit
          have : ¬ (((n.log2 - 1 - k : Nat) : Int) < 0) := by omega
          simp [this]
        rw [hbit]
        have hpow : n.log2 - k = (n.log2 - 1 - k) + 1 := by omega
        have hm : n / 2 ^ (n.log2 - (k + 1)) =
            2 * (n / 2 ^ (n.log2 - k)) + (if n / 2 ^ (n.log2 - 1 - k) % 2 = 1 then 1 else 0) := by
          have e1 : n.log2 - (k + 1) = n.log2 - 1 - k := by omega
          rw [e1, hpow, Nat.pow_succ, ← Nat.div_div_eq_div_mul]
          split <;> omega
        rw [hm]
        exact exp_step st x a _ _ os ls hx hxr rs rx)
    simp only [Nat.sub_self, Nat.pow_zero, Nat.div_one] at key
    exact key

/-! ### `Legendre` -/

/-- two fully reduced Montgomery representations are equal iff they stand for the same residue -/
theorem repr_eq_iff (x y : L4) (a b : Nat) (hx : x.ok) (hy : y.ok) (hxr : x.val < R) (hyr : y.val < R)
    (rx : Cios.Repr x a) (ry : Cios.Repr y b) : x = y ↔ a % R = b % R := by
  unfold Cios.Repr at rx ry
  constructor
  · intro h
    subst h
    have : a * R256 ≡ b * R256 [MOD R] := rx.symm.trans ry
    exact Nat.ModEq.cancel_right_of_coprime gcd_radix this
  · intro h
    apply val_inj x y hx hy
    have hab : a * R256 ≡ b * R256 [MOD R] := Nat.ModEq.mul_right _ h
    have : x.val % R = y.val % R := (rx.trans hab).trans ry.symm
    rwa [Nat.mod_eq_of_lt hxr, Nat.mod_eq_of_lt hyr] at this

/-- the decision of `Legendre` on the power it computed -/
def legCore (l : L4) : Int :=
  if (go_IsZero l = true) then (0 : Int)
  else if ((((((Big.limb l (3 : Int)) = (1739710354780652911 : Nat))) ∧ (((Big.limb l (2 : Int)) = (11064306276430008312 : Nat)))) ∧ (((Big.limb l (1 : Int)) = (253265890806062196 : Nat)))) ∧ (((Big.limb l (0 : Int)) = (6347764673676886264 : Nat)))) then (1 : Int)
  else (-(1 : Int))

theorem legendre_unfold (z : L4) : go_Legendre z = legCore (go_Exp ⟨0, 0, 0, 0⟩ z legendreExponent) := rfl

theorem legCore_eq (l : L4) : legCore l = if l = ⟨0, 0, 0, 0⟩ then 0 else if l = oneL then 1 else -1 := by
  unfold legCore
  by_cases h0 : l = ⟨0, 0, 0, 0⟩
  · have : go_IsZero l = true := (isZero_iff l).2 h0
    rw [if_pos this, if_pos h0]
  · have : ¬ go_IsZero l = true := fun h => h0 ((isZero_iff l).1 h)
    rw [if_neg this, if_neg h0]
    obtain ⟨l0, l1, l2, l3⟩ := l
    split
    · next hc =>
      have h1 : (⟨l0, l1, l2, l3⟩ : L4) = oneL := by
        obtain ⟨⟨⟨h3, h2⟩, h1'⟩, h0'⟩ := hc
        change l3 = _ at h3; change l2 = _ at h2; change l1 = _ at h1'; change l0 = _ at h0'
        subst h3 h2 h1' h0'; rfl
      rw [if_pos h1]
    · next hc =>
      have h1 : ¬ (⟨l0, l1, l2, l3⟩ : L4) = oneL := by
        intro h
        unfold oneL at h
        rw [L4.mk.injEq] at h
        obtain ⟨rfl, rfl, rfl, rfl⟩ := h
        exact hc ⟨⟨⟨rfl, rfl⟩, rfl⟩, rfl⟩
      rw [if_neg h1]

/-- **`Legendre`** is Euler's criterion: on a fully reduced Montgomery representation of `a` it
returns 0, 1 or −1 according to `a^((r−1)/2) mod r` being 0, 1 or anything else. -/
theorem legendre_spec (z : L4) (a : Nat) (hz : z.ok) (hzr : z.val < R) (rz : Cios.Repr z a) :
    go_Legendre z = if a ^ ((R - 1) / 2) % R = 0 then 0 else if a ^ ((R - 1) / 2) % R = 1 then 1 else -1 := by
  rw [legendre_unfold, legCore_eq, legendreExponent_eq]
  obtain ⟨rl, ll, ol⟩ := exp_repr ⟨0, 0, 0, 0⟩ z a (((R - 1) / 2 : Nat) : Int) (by omega) hz hzr rz
  rw [Int.toNat_natCast] at rl
  have hzero := repr_eq_iff _ _ _ _ ol zero_repr.2.2 ll zero_repr.2.1 rl zero_repr.1
  have hone := repr_eq_iff _ _ _ _ ol one_repr.2.2 ll one_repr.2.1 rl one_repr.1
  have m0 : 0 % R = 0 := by decide
  have m1 : 1 % R = 1 := by decide
  rw [m0] at hzero; rw [m1] at hone
  simp only [hzero, hone]

/-- `IsUint64` ⇔ the raw 256-bit value of the limbs fits in one word (used by `partitionScalars` on the
scalar in regular form: zero-skip and the small-value count) -/
theorem isUint64_iff (z : L4) (hz : z.ok) : go_IsUint64 z = true ↔ z.val < W := by
  obtain ⟨z0, z1, z2, z3⟩ := z
  have e : go_IsUint64 ⟨z0, z1, z2, z3⟩ = decide (((z3 ||| z2) ||| z1) = 0) := rfl
  rw [e, decide_eq_true_eq]
  simp only [Nat.or_eq_zero_iff]
  unfold L4.ok L4.val W at *
  simp only at *
  constructor
  · rintro ⟨⟨h3, h2⟩, h1⟩; subst h1 h2 h3; omega
  · intro h; omega

/-- nothing emitted by the translator is left without a theorem -/
theorem coverage : Gen.FrMisc.translated = ["Set", "SetOne", "Equal", "IsZero", "IsUint64", "Cmp", "LexicographicallyLargest", "Exp", "Legendre"] := by
  decide

end GoIpa.Tie.FrMisc
