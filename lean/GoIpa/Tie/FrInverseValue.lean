/-
  Capstone for `Inverse` (C15): the loop over the translated pieces of `fr.Element.Inverse`
  (`Tie.FrInverse.goLoop`, started as the Go function starts it) returns, on every fully reduced non-zero
  limb vector `x`, limbs that represent the multiplicative inverse of the scalar `x` represents:
  `valOf (Inverse x) = (valOf x)⁻¹` — `Tie.FrInverse.inverse_pieces_spec` composed with
  `InverseProof.inverseValue_eq_inv` through the homomorphism `valOf`.
-/
import GoIpa.Tie.FrInverse
import GoIpa.Tie.FrMiscModel
import GoIpa.Lemmas.InverseProof
namespace GoIpa.Tie.FrInverse
open GoIpa GoIpa.Limbs GoIpa.Cios GoIpa.Gen.FrInverse GoIpa.Tie.FrCodec GoIpa.Tie.FrMisc

theorem R256_eq : Cios.R256 = FrInv.W256 := by decide

/-- **the translated `Inverse` computes the field inverse** -/
theorem inverse_value (x : L4) (hx : x.ok) (hxr : x.val < R) (h0 : x.val ≠ 0) :
    valOf (goLoop (R + x.val) invInitU x ⟨0, 0, 0, 0⟩ invInitS) = (valOf x)⁻¹ := by
  obtain ⟨ok, e⟩ := inverse_pieces_spec x hx h0
  -- the operand is the Montgomery form of the scalar it represents
  have hxv : x.val = (valOf x).val * FrInv.W256 % R := by
    have h := repr_valOf x hx
    unfold Cios.Repr at h
    rw [R256_eq] at h
    have : x.val % R = (valOf x).val * FrInv.W256 % R := h
    rwa [Nat.mod_eq_of_lt hxr] at this
  -- the result is `ofNat` of the model's result
  have hlt : (goLoop (R + x.val) invInitU x ⟨0, 0, 0, 0⟩ invInitS).val < FrInv.W256 := by
    obtain ⟨a, b, c, d⟩ := ok
    unfold L4.val FrInv.W256 W at *
    omega
  have hof : goLoop (R + x.val) invInitU x ⟨0, 0, 0, 0⟩ invInitS = Limbs.ofNat (FrInv.inverseMont x.val) := by
    have h1 := FrInv.ofNat_limbs (FrInv.inverseMont x.val) (by rw [← e]; exact hlt)
    exact val_inj _ _ ok h1.1 (by rw [h1.2, e])
  rw [← FrInv.inverseValue_eq_inv]
  unfold FrInv.inverseValue
  simp only
  rw [← hxv, ← hof]
  rfl

end GoIpa.Tie.FrInverse
