/-
  Capstone for `Inverse` (C15): the loop over the translated pieces of `fr.Element.Inverse`
  (`Tie.FrInverse.goLoop`, started as the Go function starts it) returns, on every fully reduced non-zero
  limb vector `x`, limbs that represent the multiplicative inverse of the scalar `x` represents:
  `valOf (Inverse x) = (valOf x)⁻¹` — `Tie.FrInverse.inverse_pieces_spec` composed with
  `InverseProof.inverseValue_eq_inv` through the homomorphism `valOf`.
-/
import GoIpa.Tie.FrInverse
import GoIpa.Tie.FrMiscModel
import GoIpa.Lemmas.InverseProof
namespace GoIpa.Tie.FrInverse
open GoIpa GoIpa.Limbs GoIpa.Cios GoIpa.Gen.FrInverse GoIpa.Gen.FrMisc GoIpa.Tie.FrCodec GoIpa.Tie.FrMisc

theorem R256_eq : Cios.R256 = FrInv.W256 := by decide

/-- **the translated `Inverse` computes the field inverse** -/
theorem inverse_value (x : L4) (hx : x.ok) (hxr : x.val < R) (h0 : x.val ≠ 0) :
    valOf (goLoop (R + x.val) invInitU x ⟨0, 0, 0, 0⟩ invInitS) = (valOf x)⁻¹ := by
  obtain ⟨ok, e⟩ := inverse_pieces_spec x hx h0
  -- the operand is the Montgomery form of the scalar it represents
  have hxv : x.val = (valOf x).val * FrInv.W256 % R := by
    have h := repr_valOf x hx
    unfold Cios.Repr at h
    rw [R256_eq] at h
    have : x.val % R = (valOf x).val * FrInv.W256 % R := h
    rwa [Nat.mod_eq_of_lt hxr] at this
  -- the result is `ofNat` of the model's result
  have hlt : (goLoop (R + x.val) invInitU x ⟨0, 0, 0, 0⟩ invInitS).val < FrInv.W256 := by
    obtain ⟨a, b, c, d⟩ := ok
    unfold L4.val FrInv.W256 W at *
    omega
  have hof : goLoop (R + x.val) invInitU x ⟨0, 0, 0, 0⟩ invInitS = Limbs.ofNat (FrInv.inverseMont x.val) := by
    have h1 := FrInv.ofNat_limbs (FrInv.inverseMont x.val) (by rw [← e]; exact hlt)
    exact val_inj _ _ ok h1.1 (by rw [h1.2, e])
  rw [← FrInv.inverseValue_eq_inv]
  unfold FrInv.inverseValue
  simp only
  rw [← hxv, ← hof]
  rfl

/-- `Inverse` with its prologue `if x.IsZero() { z.SetZero(); return z }` -/
def goInverse (x : L4) : L4 :=
  if go_IsZero x = true then ⟨0, 0, 0, 0⟩ else goLoop (R + x.val) invInitU x ⟨0, 0, 0, 0⟩ invInitS

theorem fr_inv_zero : (0 : Fr)⁻¹ = 0 := by
  rw [← FrInv.inverseValue_eq_inv, FrInv.inverseValue_zero]

theorem val_ne_zero (x : L4) (hx : x.ok) (h : x ≠ ⟨0, 0, 0, 0⟩) : x.val ≠ 0 := by
  intro hv
  apply h
  exact val_inj x ⟨0, 0, 0, 0⟩ hx zero_repr.2.2 (by rw [hv]; rfl)

/-- **`Inverse` (whole function over the translated pieces): the field inverse, `Inverse(0) = 0`**, and the
result is fully reduced -/
theorem goInverse_value (x : L4) (hx : x.ok) (hxr : x.val < R) :
    valOf (goInverse x) = (valOf x)⁻¹ ∧ (goInverse x).ok ∧ (goInverse x).val < R := by
  unfold goInverse
  by_cases hz : go_IsZero x = true
  · rw [if_pos hz]
    have : x = ⟨0, 0, 0, 0⟩ := (isZero_iff x).1 hz
    subst this
    exact ⟨by rw [valOf_zero, fr_inv_zero], zero_repr.2.2, zero_repr.2.1⟩
  · rw [if_neg hz]
    have hne : x ≠ ⟨0, 0, 0, 0⟩ := fun h => hz ((isZero_iff x).2 h)
    have h0 := val_ne_zero x hx hne
    obtain ⟨ok, e⟩ := inverse_pieces_spec x hx h0
    refine ⟨inverse_value x hx hxr h0, ok, ?_⟩
    rw [e]
    exact (FrInv.inverseMont_spec x.val (Nat.pos_of_ne_zero h0) hxr).1

/-- **`Div`** (`yInv.Inverse(y); z.Mul(x, &yInv)`, pinned) over the translated pieces is division in the field -/
theorem div_value (x y : L4) (hx : x.ok) (hy : y.ok) (hyr : y.val < R) :
    valOf (mulG x (goInverse y)) = valOf x / valOf y := by
  obtain ⟨e, ok, lt⟩ := goInverse_value y hy hyr
  rw [valOf_mul x _ hx ok lt, e]
  rfl

end GoIpa.Tie.FrInverse
