/-
  Tie T1 for the group-level part of the bucket method (bandersnatch/multiexp.go):
  `msmProcessChunkPointAffineDMA` and `msmReduceChunkPointAffineDMA`, translated from the current
  source on every run (`go/cmd/extract/msmchunk.go` → `Gen/MsmChunk.lean`), are the model's
  `processChunk` and `reduceChunks` — the objects of `processChunk_spec`, `bucket_reduce`,
  `reduceChunks_spec` and, through them, of `C09.multiExp_correct`.

  The digit of scalar `i` is a parameter of the translation (`digit i`); it is instantiated with the
  model's `selectBits`, which `Tie.Selector.digitRead_eq` / `chunkSelector_eq` identify with the
  selector statements of the same Go function (translated with 64-bit wrap-around by selector.go).
-/
import GoIpa.Gen.MsmChunk
import GoIpa.Model.Pippenger
import GoIpa.Lemmas.LoopLemmas
import GoIpa.Lemmas.PipBits
import Mathlib.Algebra.Group.Basic
namespace GoIpa.Tie.MsmChunk
open GoIpa GoIpa.Loop

/-! ### loops as folds -/

theorem forDown_nat {σ : Type} (hi : Int) (st : σ) (body : Int → σ → σ) :
    forDown hi 0 st body = (List.range (hi + 1).toNat).foldl (fun st (k : Nat) => body (hi - (k : Int)) st) st := by
  unfold forDown
  simp

/-- folding a list is folding its indices -/
theorem foldl_getD {α σ : Type} (f : σ → α → σ) (d : α) :
    ∀ (l : List α) (a : σ), (List.range l.length).foldl (fun st k => f st (l.getD k d)) a = l.foldl f a := by
  intro l
  induction l with
  | nil => intro a; rfl
  | cons x xs ih =>
    intro a
    rw [List.length_cons, List.range_succ_eq_map, List.foldl_cons, List.foldl_map]
    simp only [List.getD_cons_zero, List.getD_cons_succ, List.foldl_cons]
    exact ih (f a x)

theorem doubleN_loop {G : Type} (dbl : G → G) (c : Nat) (p : G) :
    (List.range c).foldl (fun st (_ : Nat) => dbl st) p = doubleN dbl c p := by
  induction c generalizing p with
  | zero => rfl
  | succ c ih =>
    rw [List.range_succ_eq_map, List.foldl_cons, List.foldl_map]
    exact ih (dbl p)

section
variable {K G : Type} [AddCommGroup G]

/-- **`msmReduceChunkPointAffineDMA`, translated from the source, is the model's `reduceChunks`**
(Horner combination from the top chunk down with `c` doublings in between) -/
theorem reduceChunk_eq (dbl : G → G) (p : G) (c : Nat) (chunks : List G) (hne : chunks ≠ []) :
    Gen.MsmChunk.reduceChunk dbl p (c : Int) chunks = reduceChunks dbl c chunks := by
  unfold Gen.MsmChunk.reduceChunk reduceChunks
  obtain ⟨ini, top, rfl⟩ : ∃ ini top, chunks = ini ++ [top] := by
    rcases List.eq_nil_or_concat chunks with h | ⟨l, a, h⟩
    · exact absurd h hne
    · exact ⟨l, a, by simpa using h⟩
  simp only [List.reverse_append, List.reverse_cons, List.reverse_nil, List.nil_append, List.singleton_append,
    List.length_append, List.length_cons, List.length_nil]
  have e1 : (((ini.length + (0 + 1) : Nat) : Int) - 1) = ((ini.length : Nat) : Int) := by omega
  have e2 : (((ini.length + (0 + 1) : Nat) : Int) - 2) = ((ini.length : Nat) : Int) - 1 := by omega
  rw [e1, e2, get_nat, forDown_nat]
  have e3 : (((ini.length : Nat) : Int) - 1 + 1).toNat = ini.length := by omega
  rw [e3]
  have htop : (ini ++ [top]).getD ini.length 0 = top := by
    simp [List.getD_eq_getElem?_getD]
  rw [htop]
  rw [← foldl_getD (fun acc t => doubleN dbl c acc + t) (0 : G) ini.reverse top, List.length_reverse]
  apply List.foldl_ext
  intro acc k hk
  have hk' : k < ini.length := List.mem_range.mp hk
  simp only [forUp_zero, doubleN_loop]
  have e4 : ((ini.length : Nat) : Int) - 1 - (k : Int) = ((ini.length - 1 - k : Nat) : Int) := by omega
  rw [e4, get_nat]
  congr 1
  simp only [List.getD_eq_getElem?_getD]
  rw [List.getElem?_append_left (by omega), List.getElem?_reverse hk']

/-! ### the bucket accumulation and the running-sum reduction -/

theorem foldl_fill {α : Type} (n : Nat) (d : α) (g : Nat → α) (l0 : List α) (h : l0.length = n) :
    (List.range n).foldl (fun (st : List α) (k : Nat) => st.set k (g k)) l0 = (List.range n).map g := by
  rw [foldl_pointwise n d (fun i _ => g i) _ l0 h
    (by
      intro l i hi hl
      refine ⟨by simp [hl], ?_⟩
      intro j _
      rw [getD_set]
      by_cases hji : j = i
      · subst hji; simp [hl, hi]
      · have : ¬ (i = j ∧ i < l.length) := fun hh => hji hh.1.symm
        rw [if_neg this, if_neg hji])]

/-- for a digit below `2^c`, clearing the sign bit is masking with `2^(c-1) − 1` -/
theorem bandNot_msb (b c : Nat) (hc : 1 ≤ c) (hb : b < 2 ^ c) :
    b - (b &&& 2 ^ (c - 1)) = b &&& (2 ^ (c - 1) - 1) := by
  rw [Nat.and_two_pow_sub_one_eq_mod]
  have hpow : 2 ^ c = 2 * 2 ^ (c - 1) := by
    rw [← Nat.pow_succ']; congr 1; omega
  rcases Nat.lt_or_ge b (2 ^ (c - 1)) with hlt | hge
  · rw [PipBits.and_two_pow_of_lt b (c - 1) hlt, Nat.mod_eq_of_lt hlt]; rfl
  · obtain ⟨b', rfl⟩ : ∃ b', b = b' + 2 ^ (c - 1) := ⟨b - 2 ^ (c - 1), by omega⟩
    have hb' : b' < 2 ^ (c - 1) := by omega
    rw [← Nat.or_two_pow_eq_add_of_lt hb', PipBits.or_and_two_pow, Nat.or_two_pow_eq_add_of_lt hb', Nat.add_mod_right,
      Nat.mod_eq_of_lt hb']
    omega

theorem zip_getD {α β : Type} (a : List α) (b : List β) (da : α) (db : β) (k : Nat) (ha : k < a.length) (hb : k < b.length) :
    (List.zip a b).getD k (da, db) = (a.getD k da, b.getD k db) := by
  have hz : k < (List.zip a b).length := by rw [List.length_zip]; omega
  simp only [List.getD_eq_getElem?_getD, List.getElem?_eq_getElem ha, List.getElem?_eq_getElem hb,
    List.getElem?_eq_getElem hz, Option.getD_some, List.getElem_zip]

/-- the running-sum reduction: the downward loop over the buckets is the model's `foldr` -/
theorem runningSum_loop (bk : List G) :
    forDown (((bk.length : Nat) : Int) - 1) 0 ((0 : G), (0 : G)) (fun (k : Int) (st : G × G) =>
        (st.1 + Loop.get bk k 0, st.2 + (st.1 + Loop.get bk k 0)))
      = bk.foldr (fun (b : G) (st : G × G) => (st.1 + b, st.2 + (st.1 + b))) ((0 : G), (0 : G)) := by
  rw [forDown_nat]
  have e : (((bk.length : Nat) : Int) - 1 + 1).toNat = bk.length := by omega
  rw [e]
  have hr := List.foldl_reverse (l := bk) (f := fun (st : G × G) (b : G) => (st.1 + b, st.2 + (st.1 + b))) (b := ((0 : G), (0 : G)))
  rw [← hr, ← foldl_getD _ (0 : G) bk.reverse, List.length_reverse]
  apply List.foldl_ext
  intro st j hj
  have hj' : j < bk.length := List.mem_range.mp hj
  have e4 : ((bk.length : Nat) : Int) - 1 - (j : Int) = ((bk.length - 1 - j : Nat) : Int) := by omega
  rw [e4, get_nat]
  have : bk.reverse.getD j 0 = bk.getD (bk.length - 1 - j) 0 := by
    simp only [List.getD_eq_getElem?_getD]
    rw [List.getElem?_reverse hj']
  rw [this]

/-- **`msmProcessChunkPointAffineDMA`, translated from the source, is the model's `processChunk`**:
bucket array of any previous content and length `nb`, digits read by the model's `selectBits`
(below `2^c`), as many points as scalars -/
theorem processChunk_eq (dbl : G → G) (c nb k : Nat) (hc : 1 ≤ c) (buckets0 : List G) (hb0 : buckets0.length = nb)
    (points : List G) (parts : List (List Nat)) (scalars : List K)
    (hlen : points.length = parts.length) (hs : scalars.length = parts.length)
    (hbits : ∀ i, i < parts.length → selectBits c (parts.getD i []) k < 2 ^ c) :
    Gen.MsmChunk.processChunk dbl (fun i => ((selectBits c (parts.getD i.toNat []) k : Nat) : Int)) buckets0 (c : Int)
        points scalars
      = processChunk c nb k points parts := by
  unfold Gen.MsmChunk.processChunk processChunk
  have hmsb : Loop.shl 1 ((c : Int) - 1) = (((1 <<< (c - 1) : Nat)) : Int) := by
    unfold Loop.shl
    have : ((c : Int) - 1).toNat = c - 1 := by omega
    rw [this]; rfl
  simp only [hmsb, forUp_zero, set_nat, get_nat, hb0, hs]
  -- the bucket array is cleared
  rw [foldl_fill nb (0 : G) (fun _ => (0 : G)) buckets0 hb0, List.map_const', List.length_range]
  -- the accumulation loop
  have hacc : (List.range parts.length).foldl (fun (st : List G) (k_1 : Nat) =>
        if ((selectBits c (parts.getD ((k_1 : Int)).toNat []) k : Nat) : Int) = 0 then st
        else if Loop.band ((selectBits c (parts.getD ((k_1 : Int)).toNat []) k : Nat) : Int) (((1 <<< (c - 1) : Nat)) : Int) = 0 then
          Loop.set st (((selectBits c (parts.getD ((k_1 : Int)).toNat []) k : Nat) : Int) - 1)
            (points.getD k_1 0 + Loop.get st (((selectBits c (parts.getD ((k_1 : Int)).toNat []) k : Nat) : Int) - 1) 0)
        else
          Loop.set st (Loop.bandNot ((selectBits c (parts.getD ((k_1 : Int)).toNat []) k : Nat) : Int) (((1 <<< (c - 1) : Nat)) : Int))
            (Loop.get st (Loop.bandNot ((selectBits c (parts.getD ((k_1 : Int)).toNat []) k : Nat) : Int) (((1 <<< (c - 1) : Nat)) : Int)) 0
              + -points.getD k_1 0)) (List.replicate nb (0 : G))
      = (List.zip points parts).foldl (fun (b : List G) (e : G × List Nat) =>
        let bits := selectBits c e.2 k
        if bits = 0 then b
        else if bits &&& (1 <<< (c - 1)) = 0 then b.set (bits - 1) (e.1 + b.getD (bits - 1) 0)
        else
          let i := bits &&& ((1 <<< (c - 1)) - 1)
          b.set i (b.getD i 0 + -e.1)) (List.replicate nb 0) := by
    rw [← foldl_getD _ ((0 : G), ([] : List Nat)) (List.zip points parts)]
    have hzl : (List.zip points parts).length = parts.length := by simp [hlen]
    rw [hzl]
    apply List.foldl_ext
    intro st j hj
    have hj' : j < parts.length := List.mem_range.mp hj
    rw [zip_getD points parts 0 [] j (by omega) hj']
    simp only [Int.toNat_natCast]
    have hb := hbits j hj'
    generalize selectBits c (parts.getD j []) k = sb at hb ⊢
    by_cases h0 : sb = 0
    · have : ((sb : Nat) : Int) = 0 := by omega
      simp [h0]
    · have h0' : ¬ (((sb : Nat) : Int) = 0) := by omega
      rw [if_neg h0', if_neg h0]
      have hband : Loop.band ((sb : Nat) : Int) (((1 <<< (c - 1) : Nat)) : Int) = (((sb &&& (1 <<< (c - 1)) : Nat)) : Int) := by
        unfold Loop.band; simp only [Int.toNat_natCast]
      rw [hband]
      by_cases h1 : sb &&& (1 <<< (c - 1)) = 0
      · have h1' : (((sb &&& (1 <<< (c - 1)) : Nat)) : Int) = 0 := by omega
        rw [if_pos h1', if_pos h1]
        have e : ((sb : Nat) : Int) - 1 = ((sb - 1 : Nat) : Int) := by omega
        rw [e, set_nat, get_nat]
      · have h1' : ¬ ((((sb &&& (1 <<< (c - 1)) : Nat)) : Int) = 0) := by omega
        rw [if_neg h1', if_neg h1]
        have e : Loop.bandNot ((sb : Nat) : Int) (((1 <<< (c - 1) : Nat)) : Int) = ((sb &&& ((1 <<< (c - 1)) - 1) : Nat) : Int) := by
          unfold Loop.bandNot
          simp only [Int.toNat_natCast]
          rw [Nat.one_shiftLeft, bandNot_msb sb c hc hb]
        rw [e, set_nat, get_nat]
  rw [hacc]
  -- the running-sum reduction
  generalize (List.zip points parts).foldl _ (List.replicate nb (0 : G)) = bk
  have hrs := runningSum_loop bk
  have hbody : (fun (k : Int) (st : G × G) =>
      match st with
      | (runningSum, total) => (runningSum + Loop.get bk k 0, total + (runningSum + Loop.get bk k 0)))
      = (fun (k : Int) (st : G × G) => (st.1 + Loop.get bk k 0, st.2 + (st.1 + Loop.get bk k 0))) := by
    funext k st; cases st; rfl
  have hmodel : (fun (b : G) (st : G × G) =>
      let run := st.1 + b
      (run, st.2 + run)) = (fun (b : G) (st : G × G) => (st.1 + b, st.2 + (st.1 + b))) := rfl
  simp only [hbody, hrs, hmodel]

end

end GoIpa.Tie.MsmChunk
