/-
  Tie T1 for the proof (de)serialisation code: `common.ReadPoint`, `common.ReadScalar`,
  `IPAProof.Read` / `Write`, `MultiProof.Read` / `Write`, translated from the current source on
  every run (`go/cmd/extract/serde.go` → `Gen/Serde.lean`) over the reader / writer state machines
  of `Model/Serde.lean`, are the model functions the C10 theorems are about
  (`readPoint`, `readScalar`, `readPoints`, `ipaRead`, `mpRead`; `writeChunks` of
  `MultiProof.chunks`), with the model's own decoders and encoders as environment.
-/
import GoIpa.Gen.Serde
import GoIpa.Lemmas.LoopLemmas
namespace GoIpa.Tie.Serde
open GoIpa GoIpa.Loop

/-- the environment of the executable model -/
def realEnv (sqrt : Fp → Option Fp) : SerdeEnv Pt Fr where
  decPoint := fun b => (decodeCompressed sqrt b).toOption
  decScalar := Fr.setBytesLECanonical
  encPoint := Pt.bytes
  encScalar := Zp.bytesLE
  zeroP := Pt.zero

/-- success value and reader of a model result; `none` for any error -/
def okOf {ε α : Type} (x : Except ε α × Reader) : Option (α × Reader) :=
  match x with
  | (.ok a, r) => some (a, r)
  | (.error _, _) => none

theorem readPoint_eq (sqrt : Fp → Option Fp) (r : Reader) :
    Gen.Serde.readPoint (realEnv sqrt) r = okOf (readPoint sqrt r) := by
  unfold Gen.Serde.readPoint readPoint okOf
  rcases h : r.full 32 with ⟨res, r'⟩
  cases res with
  | error e => rfl
  | ok b =>
    simp only [realEnv]
    cases hd : decodeCompressed sqrt b with
    | error e => simp [Except.toOption]
    | ok p => simp [Except.toOption]

theorem readScalar_eq (sqrt : Fp → Option Fp) (r : Reader) :
    Gen.Serde.readScalar (realEnv sqrt) r = okOf (readScalar r) := by
  unfold Gen.Serde.readScalar readScalar okOf
  rcases h : r.full 32 with ⟨res, r'⟩
  cases res with
  | error e => rfl
  | ok b =>
    simp only [realEnv]
    cases hd : Fr.setBytesLECanonical b with
    | none => simp
    | some s => simp

/-! ### the loop that reads `n` points -/

/-- one iteration of the reading loop, on the optional state -/
def readStep (sqrt : Fp → Option Fp) (o : Option (List Pt × Reader)) : Option (List Pt × Reader) :=
  match o with
  | none => none
  | some (L, r) =>
    match Gen.Serde.readPoint (realEnv sqrt) r with
    | none => none
    | some (p, r) => some (L ++ [p], r)

theorem readStep_some (sqrt : Fp → Option Fp) (L : List Pt) (r : Reader) :
    readStep sqrt (some (L, r)) = (match readPoint sqrt r with
      | (.ok p, r') => some (L ++ [p], r')
      | (.error _, _) => none) := by
  show (match Gen.Serde.readPoint (realEnv sqrt) r with
    | none => none
    | some (p, r) => some (L ++ [p], r)) = _
  rw [readPoint_eq]
  unfold okOf
  rcases readPoint sqrt r with ⟨res, r1⟩
  cases res <;> rfl

theorem readStep_iter_none (sqrt : Fp → Option Fp) (n : Nat) :
    (List.range n).foldl (fun o (_ : Nat) => readStep sqrt o) none = none := by
  induction n with
  | zero => rfl
  | succ n ih => rw [List.range_succ, List.foldl_append, ih]; rfl

theorem readLoop_eq (sqrt : Fp → Option Fp) : ∀ (n : Nat) (L0 : List Pt) (r0 : Reader),
    (List.range n).foldl (fun o (_ : Nat) => readStep sqrt o) (some (L0, r0))
      = (match readPoints sqrt n r0 with
         | (.ok ps, r') => some (L0 ++ ps, r')
         | (.error _, _) => none) := by
  intro n
  induction n with
  | zero => intro L0 r0; simp [readPoints]
  | succ n ih =>
    intro L0 r0
    rw [List.range_succ_eq_map, List.foldl_cons, List.foldl_map]
    show (List.range n).foldl (fun o (_ : Nat) => readStep sqrt o) (readStep sqrt (some (L0, r0))) = _
    rw [readStep_some]
    unfold readPoints
    rcases h : readPoint sqrt r0 with ⟨res, r1⟩
    cases res with
    | error e => simp only; exact readStep_iter_none sqrt n
    | ok p =>
      simp only
      rw [ih (L0 ++ [p]) r1]
      rcases h2 : readPoints sqrt n r1 with ⟨res2, r2⟩
      cases res2 with
      | error e => rfl
      | ok ps => simp

/-- a reading loop whose body is `readStep` is the fold of `readStep` -/
theorem forUpOpt_read (sqrt : Fp → Option Fp) (n : Nat) (L0 : List Pt) (r0 : Reader)
    (body : Int → List Pt × Reader → Option (List Pt × Reader))
    (hbody : ∀ i st, body i st = readStep sqrt (some st)) :
    Loop.forUpOpt (0 : Int) ((n : Nat) : Int) (L0, r0) body
      = (List.range n).foldl (fun o (_ : Nat) => readStep sqrt o) (some (L0, r0)) := by
  unfold Loop.forUpOpt
  rw [forUp_zero]
  apply List.foldl_ext
  intro o k _
  cases o with
  | none => rfl
  | some st => exact hbody _ st

/-- an `IPAProof` result of the model in the shape the translation returns -/
def ofIpa (x : Except RdErr (IpaProof Fr Pt) × Reader) : Option ((List Pt × List Pt × Fr) × Reader) :=
  match x with
  | (.ok p, r) => some ((p.L, p.R, p.a), r)
  | (.error _, _) => none

/-- **`IPAProof.Read`, translated from the source, is the model's `ipaRead`**: 8 points, 8 points,
one canonical scalar, every error propagated -/
theorem ipaRead_eq (sqrt : Fp → Option Fp) (r : Reader) :
    Gen.Serde.ipaRead (realEnv sqrt) r = ofIpa (ipaRead sqrt r) := by
  unfold Gen.Serde.ipaRead ipaRead ofIpa
  have h8 : (8 : Int) = ((8 : Nat) : Int) := rfl
  simp only [h8]
  rw [forUpOpt_read sqrt 8 [] r _ (by
      intro i st
      obtain ⟨L', r'⟩ := st
      unfold readStep
      simp only
      cases Gen.Serde.readPoint (realEnv sqrt) r' with
      | none => rfl
      | some pr => cases pr; rfl), readLoop_eq]
  rcases h1 : readPoints sqrt 8 r with ⟨res1, r1⟩
  cases res1 with
  | error e => rfl
  | ok L =>
    simp only [List.nil_append]
    rw [forUpOpt_read sqrt 8 [] r1 _ (by
      intro i st
      obtain ⟨L', r'⟩ := st
      unfold readStep
      simp only
      cases Gen.Serde.readPoint (realEnv sqrt) r' with
      | none => rfl
      | some pr => cases pr; rfl), readLoop_eq]
    rcases h2 : readPoints sqrt 8 r1 with ⟨res2, r2⟩
    cases res2 with
    | error e => rfl
    | ok R =>
      simp only [readScalar_eq]
      unfold okOf
      rcases h3 : readScalar r2 with ⟨res3, r3⟩
      cases res3 <;> rfl

/-- **`MultiProof.Read`, translated from the source, is the model's `mpRead`**: `D`, the IPA
proof, then the end-of-stream probe that accepts only a clean EOF -/
theorem mpRead_eq (sqrt : Fp → Option Fp) (r : Reader) :
    (Gen.Serde.mpRead (realEnv sqrt) r).map (·.1)
      = (mpRead sqrt r).toOption.map (fun p => (p.D, (p.ipa.L, p.ipa.R, p.ipa.a))) := by
  unfold Gen.Serde.mpRead mpRead
  rw [readPoint_eq]
  unfold okOf
  rcases h1 : readPoint sqrt r with ⟨res1, r1⟩
  cases res1 with
  | error e => rfl
  | ok D =>
    simp only [ipaRead_eq]
    unfold ofIpa
    rcases h2 : ipaRead sqrt r1 with ⟨res2, r2⟩
    cases res2 with
    | error e => rfl
    | ok ip =>
      simp only
      rcases h3 : r2.full 1 with ⟨res3, r3⟩
      cases res3 with
      | ok b => rfl
      | error e => cases e <;> rfl

/-! ### the writers -/

/-- write a list of chunks, one `Write` call each, stopping at the first failure -/
def writeAll (w : Writer) (chunks : List Bytes) : Option Writer :=
  chunks.foldl (fun o c => match o with | none => none | some w => w.write c) (some w)

theorem writeAll_none (chunks : List Bytes) :
    chunks.foldl (fun (o : Option Writer) c => match o with | none => none | some w => w.write c) none = none := by
  induction chunks with
  | nil => rfl
  | cons c cs ih => exact ih

theorem writeAll_cons (w : Writer) (c : Bytes) (cs : List Bytes) :
    writeAll w (c :: cs) = (match w.write c with | none => none | some w' => writeAll w' cs) := by
  unfold writeAll
  rw [List.foldl_cons]
  show cs.foldl (fun (o : Option Writer) c => match o with | none => none | some w => w.write c) (w.write c) = _
  cases w.write c with
  | none => exact writeAll_none cs
  | some w' => rfl

theorem writeAll_append (w : Writer) (a b : List Bytes) :
    writeAll w (a ++ b) = (match writeAll w a with | none => none | some w' => writeAll w' b) := by
  unfold writeAll
  rw [List.foldl_append]
  cases h : a.foldl (fun (o : Option Writer) c => match o with | none => none | some w => w.write c) (some w) with
  | none => exact writeAll_none b
  | some w' => rfl

/-- what a run of `Write` calls does: it fails iff the failing call number falls into the run -/
theorem writeAll_spec : ∀ (chunks : List Bytes) (out : Bytes) (calls : Nat) (fa : Option Nat),
    writeAll ⟨out, calls, fa⟩ chunks =
      (match fa with
       | some j => if calls ≤ j ∧ j < calls + chunks.length then none
                   else some ⟨out ++ chunks.flatten, calls + chunks.length, fa⟩
       | none => some ⟨out ++ chunks.flatten, calls + chunks.length, fa⟩) := by
  intro chunks
  induction chunks with
  | nil =>
    intro out calls fa
    cases fa with
    | none => simp [writeAll]
    | some j =>
      have : ¬ (calls ≤ j ∧ j < calls + 0) := by omega
      simp [writeAll]
  | cons c cs ih =>
    intro out calls fa
    rw [writeAll_cons]
    unfold Writer.write
    cases fa with
    | none =>
      simp only [reduceCtorEq, ↓reduceIte]
      rw [ih]
      simp [List.length_cons, Nat.add_assoc, Nat.add_comm 1]
    | some j =>
      simp only [Option.some.injEq]
      by_cases hj : j = calls
      · subst hj
        have h2 : j ≤ j ∧ j < j + (c :: cs).length := by simp
        rw [if_pos rfl, if_pos h2]
      · rw [if_neg hj]
        simp only
        rw [ih]
        simp only [List.length_cons, List.flatten_cons, List.append_assoc]
        by_cases hr : calls + 1 ≤ j ∧ j < calls + 1 + cs.length
        · have h2 : calls ≤ j ∧ j < calls + (cs.length + 1) := by omega
          rw [if_pos hr, if_pos h2]
        · have h2 : ¬ (calls ≤ j ∧ j < calls + (cs.length + 1)) := by omega
          rw [if_neg hr, if_neg h2]
          simp [Nat.add_assoc, Nat.add_comm 1]

theorem foldl_getD' {α σ : Type} (f : σ → α → σ) (d : α) :
    ∀ (l : List α) (a : σ), (List.range l.length).foldl (fun st k => f st (l.getD k d)) a = l.foldl f a := by
  intro l
  induction l with
  | nil => intro a; rfl
  | cons x xs ih =>
    intro a
    rw [List.length_cons, List.range_succ_eq_map, List.foldl_cons, List.foldl_map]
    simp only [List.getD_cons_zero, List.getD_cons_succ]
    exact ih (f a x)

/-- the translated loop over a list of points writes their encodings in order -/
theorem forUpOpt_write (E : SerdeEnv Pt Fr) (L : List Pt) (w : Writer) :
    Loop.forUpOpt (0 : Int) (((L.length : Nat)) : Int) w (fun (i : Int) (w : Writer) =>
        Writer.write w (E.encPoint (Loop.get L i E.zeroP)))
      = writeAll w (L.map E.encPoint) := by
  unfold Loop.forUpOpt writeAll
  rw [forUp_zero, List.foldl_map, ← foldl_getD' _ E.zeroP L]
  apply List.foldl_ext
  intro o k _
  cases o with
  | none => rfl
  | some w' => simp only [get_nat]

/-- **`MultiProof.Write` (with `IPAProof.Write`), translated from the source, issues exactly the
`Write` calls of the model's chunk list** — `D`, the eight `L`, the eight `R`, the scalar — and
fails iff the writer fails at one of them -/
theorem mpWrite_eq (sqrt : Fp → Option Fp) (p : MultiProof Fr Pt) (failAt : Option Nat) :
    (Gen.Serde.mpWrite (realEnv sqrt) p.D (p.ipa.L, p.ipa.R, p.ipa.a) ⟨[], 0, failAt⟩).map (·.out)
      = (writeChunks (MultiProof.chunks p) failAt).toOption := by
  have hnil : ∀ w : Writer, writeAll w [] = some w := fun w => rfl
  have hall : Gen.Serde.mpWrite (realEnv sqrt) p.D (p.ipa.L, p.ipa.R, p.ipa.a) ⟨[], 0, failAt⟩
      = writeAll ⟨[], 0, failAt⟩ (MultiProof.chunks p) := by
    unfold Gen.Serde.mpWrite Gen.Serde.ipaWrite MultiProof.chunks
    simp only [forUpOpt_write]
    rw [writeAll_append, writeAll_append, writeAll_append]
    simp only [writeAll_cons, hnil, realEnv]
    cases (⟨[], 0, failAt⟩ : Writer).write (Pt.bytes p.D) with
    | none => rfl
    | some w1 =>
      simp only
      cases writeAll w1 (p.ipa.L.map Pt.bytes) with
      | none => rfl
      | some w2 =>
        simp only
        cases writeAll w2 (p.ipa.R.map Pt.bytes) with
        | none => rfl
        | some w3 =>
          simp only
          cases w3.write (Zp.bytesLE p.ipa.a) with
          | none => rfl
          | some w4 => rfl
  rw [hall, writeAll_spec]
  simp only [Nat.zero_add, List.nil_append, Nat.zero_le, true_and]
  unfold writeChunks
  cases failAt with
  | none => simp [Except.toOption]
  | some j =>
    by_cases hj : j < (MultiProof.chunks p).length
    · simp [hj, Except.toOption]
    · simp [hj, Except.toOption]

end GoIpa.Tie.Serde
