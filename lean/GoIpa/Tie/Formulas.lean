/-
  Tie T1 for the repository's own curve formulas: the expressions translated from
  `ExtendedAddNormalized`, `PointExtendedNormalized.Neg`, `PointExtendedFromProj`, `computeY`,
  `subgroupCheck`, `mapToBaseField` (Gen/Formulas.lean, regenerated on every run) are the
  model's formulas, over every field; `Equal` has the expected shape.
-/
import Mathlib.Tactic.Ring
import GoIpa.Gen.Formulas
import GoIpa.Model.Element
namespace GoIpa.Tie.Formulas
open GoIpa

variable {F : Type} [Field F]

/-- `ExtendedAddNormalized` hard-codes `a = −5` (`MulBy5` of the negation); on a curve with that
coefficient it is the model's `Ext.addN` (madd-2008-hwcd), coordinate by coordinate -/
theorem extendedAddNormalized_eq (c : Curve F) (ha : c.a = -5) (p : Ext F) (q : ExtN F) :
    Gen.extendedAddNormalized c.a c.d p.X p.Y p.Z p.T q.X q.Y q.T
      = ((Ext.addN c p q).X, (Ext.addN c p q).Y, (Ext.addN c p q).Z, (Ext.addN c p q).T) := by
  unfold Gen.extendedAddNormalized Ext.addN
  simp only [ha]
  refine Prod.ext ?_ (Prod.ext ?_ (Prod.ext ?_ ?_)) <;> simp only <;> push_cast <;> ring

theorem extNormalizedNeg_eq (a d : F) (q : ExtN F) :
    Gen.extNormalizedNeg a d q.X q.Y q.T = ((ExtN.neg q).X, (ExtN.neg q).Y, (ExtN.neg q).T) := rfl

theorem extendedFromProj_eq (a d : F) (p : Proj F) :
    Gen.extendedFromProjT a d p.X p.Y p.Z = (Ext.ofProj p).T := rfl

/-- the radicand of `computeY` is `(a x² − 1)/(d x² − 1)` -/
theorem computeY_radicand (c : Curve F) (x : F) :
    Gen.computeYSquare c.a c.d x = (c.a * (x * x) - 1) * (c.d * (x * x) - 1)⁻¹ := by
  unfold Gen.computeYSquare
  simp only
  ring

/-- the argument of the Legendre symbol in `subgroupCheck` is `1 − a x²` -/
theorem subgroupCheck_arg (c : Curve F) (x : F) : Gen.subgroupCheckArg c.a c.d x = 1 - c.a * (x * x) := by
  unfold Gen.subgroupCheckArg
  simp only
  ring

theorem mapToBaseField_eq (a d : F) (p : Proj F) : Gen.mapToBaseField a d p.X p.Y = p.mapToBase := rfl

/-- `Equal`: copies of the four coordinates, the two `(0,0)` rejections, the cross products
`x₁y₂` and `y₁x₂`, their comparison — the shape of `Proj.equalE` -/
theorem equal_shape : Gen.equalBody =
    ["x1 := p.inner.X", "y1 := p.inner.Y", "x2 := other.inner.X", "y2 := other.inner.Y",
     "if x1.IsZero() && y1.IsZero() { return false }", "if x2.IsZero() && y2.IsZero() { return false }",
     "var lhs fp.Element", "var rhs fp.Element", "lhs.Mul(&x1, &y2)", "rhs.Mul(&y1, &x2)",
     "return lhs.Equal(&rhs)"] := by decide

/-- the model's curve has the hard-coded coefficient -/
theorem bandersnatch_a : bandersnatch.a.val = P - 5 := by decide

end GoIpa.Tie.Formulas
