/-
  Tie T1 for the template instances `msmC<k>` of `bandersnatch/multiexp.go`: every instance in
  the current source is the template of the model's `msmInner` instantiated at its own `c` —
  one goroutine per chunk over all points, the narrower top chunk exactly when `c ∤ 256`, the
  first chunk over `points[:split], scalars[:split]` and `points[split:], scalars[split:]`
  (same split on both), Horner reduction — and the dispatch calls instance `k` for `c = k`.
-/
import GoIpa.Gen.Formulas
import GoIpa.Props.C09Msm
namespace GoIpa.Tie.Msm
open GoIpa

def sig : String := "func(p *PointProj, points []PointAffine, scalars []fr.Element, splitFirstChunk bool) *PointProj"
def chanInit : String := "for i := 0; i < len(chChunks); i++ { chChunks[i] = make(chan PointProj, 1) }"
def procChunk : String := "processChunk := func(j int, points []PointAffine, scalars []fr.Element, chChunk chan PointProj) { var buckets [1 << (c - 1)]PointProj msmProcessChunkPointAffine(uint64(j), chChunk, buckets[:], c, points, scalars) }"
def chunkLoop : String := "for j := int(nbChunks - 1); j > 0; j-- { go processChunk(j, points, scalars, chChunks[j]) }"
def firstChunk : String := "if !splitFirstChunk { go processChunk(0, points, scalars, chChunks[0]) } else { chSplit := make(chan PointProj, 2) split := len(points) / 2 go processChunk(0, points[:split], scalars[:split], chSplit) go processChunk(0, points[split:], scalars[split:], chSplit) go func() { s1 := <-chSplit s2 := <-chSplit close(chSplit) s1.Add(&s1, &s2) chChunks[0] <- s1 }() }"
def reduce : String := "return msmReduceChunkPointAffine(p, c, chChunks[:])"
def lastC : String := "const lastC = (fr.Limbs * 64) - (c * (fr.Limbs * 64 / c))"
def topChunk : String := "go func(j uint64, points []PointAffine, scalars []fr.Element) { var buckets [1 << (lastC - 1)]PointProj msmProcessChunkPointAffine(j, chChunks[j], buckets[:], c, points, scalars) }(uint64(nbChunks), points, scalars)"

/-- the template, instantiated at `c` -/
def template (c : Nat) : List String :=
  let consts := "const ( c = " ++ toString c ++ " nbChunks = (fr.Limbs * 64 / c) )"
  if 256 % c = 0 then
    [sig, consts, "var chChunks [nbChunks]chan PointProj", chanInit, procChunk, chunkLoop, firstChunk, reduce]
  else
    [sig, consts, "var chChunks [nbChunks + 1]chan PointProj", chanInit, lastC, topChunk, procChunk, chunkLoop,
      firstChunk, reduce]

/-- `msmC4` is the hand-tuned variant: results in an array instead of channels, a wait group -/
def templateC4 : List String :=
  [sig, "const ( c = 4 nbChunks = (fr.Limbs * 64 / c) )", "var chChunks [nbChunks]PointProj",
   "processChunk := func(j int, points []PointAffine, scalars []fr.Element, pointProj *PointProj) { var buckets [1 << (c - 1)]PointProj msmProcessChunkPointAffineDMA(uint64(j), pointProj, buckets[:], c, points, scalars) }",
   "var wg sync.WaitGroup", "wg.Add(int(nbChunks - 1))",
   "for j := int(nbChunks - 1); j > 0; j-- { j := j go func() { processChunk(j, points, scalars, &chChunks[j]) wg.Done() }() }",
   "wg.Wait()",
   "if !splitFirstChunk { processChunk(0, points, scalars, &chChunks[0]) } else { chSplits := make([]PointProj, 2) split := len(points) / 2 var wg sync.WaitGroup wg.Add(2) go func() { processChunk(0, points[:split], scalars[:split], &chSplits[0]) wg.Done() }() go func() { processChunk(0, points[split:], scalars[split:], &chSplits[1]) wg.Done() }() wg.Wait() chSplits[0].Add(&chSplits[0], &chSplits[1]) chChunks[0] = chSplits[0] }",
   "return msmReduceChunkPointAffineDMA(p, c, chChunks[:])"]

/-- **Every `msmC<k>` of the current source is the template at `c = k`**, for exactly the
implemented widths. -/
theorem instances_are_template :
    Gen.msmInstances = C09.implementedCs.map fun c => (c, if c = 4 then templateC4 else template c) := by decide +kernel


/-- the dispatch switch calls instance `k` for `c = k` -/
theorem dispatch_ok :
    Gen.msmDispatch = C09.implementedCs.map fun c =>
      (c, "msmC" ++ toString c ++ "(p, points, scalars, splitFirstChunk)") := by decide

end GoIpa.Tie.Msm
