/-
  C08 at the executable types: Bandersnatch satisfies the hypotheses of `C08Group` (`a`, `d` and
  `−d` are non-squares of the prime field `Fp` — theorems, not assumptions), so

  * the points accepted by the decoder form an abelian group and `BW`, their quotient by
    `{(0,1),(0,−1)}`, is an abelian group on which `Element.Equal` is equality;
  * the model's `Pt` operations (`+`, `-`, unary `-`, doubling, `nsmul`/`smul` — the functions the
    driver executes against the Go code) compute that group's operations on *all* valid
    representatives, with no exceptional cases;
  * untrusted decoding returns a representative of a group element, and so is the generator;
  * the order of the group is a theorem as well (`card_BW`, `bw_exponent`; `C08Order`): the group
    has exactly `r` elements, so `BW` is an `Fr`-module — the structure that C01–C05 and C09
    quantify over — with no assumption left about the group.
-/
import Mathlib.Algebra.Module.ZMod
import GoIpa.Props.C08Group
import GoIpa.Props.C08Order
import GoIpa.Props.C07Concrete
namespace GoIpa.C08
open GoIpa GoIpa.Zp GoIpa.Concrete

/-- `−1` is a square in `Fp` (`p ≡ 1 mod 4`) -/
theorem neg_one_isSquare : IsSquare (-1 : Fp) :=
  ⟨Zp.ofNat P 3465144826073652318776269530687742778270252468765361963008, by decide +kernel⟩

theorem nd_ns : ¬ IsSquare (-bandersnatch.d) := by
  rintro ⟨s, hs⟩
  obtain ⟨i, hi⟩ := neg_one_isSquare
  apply C07.d_ns
  exact ⟨i * s, by linear_combination (-1 : Fp) * hs + (s * s) * hi⟩

theorem bandersnatch_nonSq : NonSq bandersnatch := ⟨C07.a_ns, C07.d_ns, nd_ns⟩

instance : Fact (NonSq bandersnatch) := ⟨bandersnatch_nonSq⟩

/-- **The Banderwagon group of the implementation** -/
abbrev BW : Type := Banderwagon bandersnatch

/-- it is an abelian group -/
example : AddCommGroup BW := inferInstance

/-- square-ness in `Fp` and in `ZMod p` coincide -/
theorem isSquare_iff_toZ (v : Fp) : IsSquare v ↔ IsSquare (Zp.toZ v) := by
  constructor
  · exact C07.isSquare_toZ
  · rintro ⟨r, hr⟩
    exact ⟨Zp.ofZ r, Zp.toZ_injective (by rw [hr, Zp.toZ_mul, Zp.toZ_ofZ])⟩

/-- the decoder's subgroup test is membership of the abscissa in the subgroup -/
theorem subgroupOk_iff_inSub (p : Aff Fp) (h : p.onCurve bandersnatch) :
    subgroupOk p.x = true ↔ InSub bandersnatch p := by
  rw [C06.subgroupOk_iff]
  have e : 1 - Zp.toZ bandersnatch.a * (Zp.toZ p.x * Zp.toZ p.x) = Zp.toZ (1 - bandersnatch.a * (p.x * p.x)) := by
    rw [Zp.toZ_sub, Zp.toZ_mul, Zp.toZ_mul, Zp.toZ_one]
  rw [e, ← isSquare_iff_toZ]
  have hz : Zp.toZ (1 - bandersnatch.a * (p.x * p.x)) ≠ 0 ↔ 1 - bandersnatch.a * (p.x * p.x) ≠ 0 := by
    rw [← Zp.toZ_zero]; exact Zp.toZ_injective.ne_iff
  rw [hz]
  exact ⟨fun ⟨h1, h2⟩ => ⟨h, h1, h2⟩, fun hs => ⟨hs.ne, hs.sq⟩⟩

/-- **What untrusted decoding returns represents a group element.** -/
theorem decode_rep (b : Bytes) (p : Pt) (h : decodeCompressed Fp.sqrtPrecomp b false = .ok p) :
    ∃ g : Sub bandersnatch, Rep bandersnatch p g := by
  obtain ⟨hz, hon, _⟩ := C06.decode_returns_point b p h
  obtain ⟨_, _, _, _, hsub, _⟩ := C06.decode_ok_shape Fp.sqrtPrecomp b p h
  have hA : p.toAff = ⟨p.X, p.Y⟩ := by
    apply aff_ext <;> simp [Proj.toAff, hz]
  have hs : InSub bandersnatch p.toAff := by
    rw [hA]; exact (subgroupOk_iff_inSub ⟨p.X, p.Y⟩ hon).mp hsub
  exact ⟨⟨p.toAff, hs⟩, by rw [hz]; exact one_ne_zero, rfl⟩

/-- the generator is a subgroup point -/
theorem generator_inSub : InSub bandersnatch generatorAff :=
  ⟨by decide +kernel, by decide +kernel,
    ⟨Zp.ofNat P 10492313172349039683469942431944542861281997749014010607045972223061357375855, by decide +kernel⟩⟩

theorem generator_rep : Rep bandersnatch Pt.generator ⟨generatorAff, generator_inSub⟩ := by
  refine ⟨by simp [Pt.generator, Proj.ofAff], ?_⟩
  apply aff_ext <;> simp [Pt.generator, Proj.ofAff, Proj.toAff]

/-! ### the executable operations on `Pt` -/

theorem pt_add_rep {p q : Pt} {g h : Sub bandersnatch} (hp : Rep bandersnatch p g) (hq : Rep bandersnatch q h) :
    Rep bandersnatch (p + q) (g + h) := rep_add bandersnatch hp hq

theorem pt_neg_rep {p : Pt} {g : Sub bandersnatch} (hp : Rep bandersnatch p g) : Rep bandersnatch (-p) (-g) :=
  rep_neg bandersnatch hp

theorem pt_sub_rep {p q : Pt} {g h : Sub bandersnatch} (hp : Rep bandersnatch p g) (hq : Rep bandersnatch q h) :
    Rep bandersnatch (p - q) (g - h) := by
  rw [sub_eq_add_neg, _root_.sub_eq_add_neg]
  exact pt_add_rep hp (pt_neg_rep hq)

theorem pt_double_rep {p : Pt} {g : Sub bandersnatch} (hp : Rep bandersnatch p g) :
    Rep bandersnatch (Pt.double p) (g + g) := rep_double bandersnatch hp

/-- **Scalar multiplication of the model is the group's `n • g`** for every natural `n` … -/
theorem pt_nsmul_rep {p : Pt} {g : Sub bandersnatch} (hp : Rep bandersnatch p g) (n : Nat) :
    Rep bandersnatch (n • p) (n • g) := rep_nsmul bandersnatch hp n

/-- … and for every field scalar -/
theorem pt_smul_rep {p : Pt} {g : Sub bandersnatch} (hp : Rep bandersnatch p g) (s : Fr) :
    Rep bandersnatch (s • p) (s.val • g) := rep_nsmul bandersnatch hp s.val

/-- two representatives are `Equal` exactly when they represent the same `BW` element -/
theorem pt_equal_iff {p q : Pt} {g h : Sub bandersnatch} (hp : Rep bandersnatch p g) (hq : Rep bandersnatch q h) :
    Pt.equal p q = true ↔ Banderwagon.mk bandersnatch g = Banderwagon.mk bandersnatch h := by
  rw [Banderwagon.mk_eq_iff]
  have vp : C07.Valid bandersnatch p := ⟨hp.1, by rw [hp.2]; exact g.2.on⟩
  have vq : C07.Valid bandersnatch q := ⟨hq.1, by rw [hq.2]; exact h.2.on⟩
  rw [C07.equal_iff_class_pt p q vp vq]
  unfold C07.ClassEq
  rw [hp.2, hq.2]
  exact (C07.cross_iff_class bandersnatch C07.a_ns C07.d_ns g.1 h.1 g.2.on h.2.on).symm

/-! ### the group order: what used to be the G-assumption is a theorem -/

/-- If the group has exponent `r`, it is a module over the scalar field — the structure over
which C01–C05 and C09 are proved.  (`bw_exponent` below discharges the hypothesis.) -/
@[reducible] noncomputable def module_of_exponent (h : ∀ x : BW, R • x = 0) : Module Fr BW :=
  letI : Module (ZMod R) BW := AddCommGroup.zmodModule h
  Module.compHom BW (Zp.equivZMod : Fr ≃+* ZMod R).toRingHom

noncomputable instance : Fintype Fp := Fintype.ofEquiv (ZMod P) (Zp.equivZMod (p := P)).symm.toEquiv

theorem card_Fp : Fintype.card Fp = P := by
  rw [Fintype.card_congr (Zp.equivZMod (p := P)).toEquiv, ZMod.card]

/-- `−a = 5` is a non-square as well (`−1` is a square) -/
theorem na_ns : ¬ IsSquare (-bandersnatch.a) := by
  rintro ⟨s, hs⟩
  obtain ⟨i, hi⟩ := neg_one_isSquare
  apply C07.a_ns
  exact ⟨i * s, by linear_combination (-1 : Fp) * hs + (s * s) * hi⟩

theorem two_ne_zero_Fp : (2 : Fp) ≠ 0 := by decide +kernel

/-- the generator as a group element -/
def genSub : Sub bandersnatch := ⟨generatorAff, generator_inSub⟩
noncomputable def genBW : BW := Banderwagon.mk bandersnatch genSub

theorem genBW_ne_zero : genBW ≠ 0 := by
  intro h
  have h' : Banderwagon.mk bandersnatch genSub = Banderwagon.mk bandersnatch 0 := h
  rw [Banderwagon.mk_eq_iff] at h'
  have hx : generatorAff.x = 0 := by
    have : generatorAff.x * 1 = generatorAff.y * 0 := h'
    simpa using this
  exact absurd hx (by decide +kernel)

/-- **`r · G = O`, computed in the kernel** with the model's own double-and-add over `Fp`
(253 doublings; the same function the driver executes against the Go code). -/
theorem r_smul_generator_coords : (R • Pt.generator : Pt).X = 0 ∧ (R • Pt.generator : Pt).Z ≠ 0 := by
  decide +kernel

/-- a representative with `X = 0` represents the neutral element of the quotient -/
theorem mk_zero_of_X (q : Pt) (g : Sub bandersnatch) (hrep : Rep bandersnatch q g) (hX : q.X = 0) :
    Banderwagon.mk bandersnatch g = 0 := by
  have hx : g.1.x = 0 := by
    rw [← hrep.2]
    show q.X * _ = 0
    rw [hX, zero_mul]
  have : Banderwagon.mk bandersnatch g = Banderwagon.mk bandersnatch 0 := by
    rw [Banderwagon.mk_eq_iff, hx, Sub.zero_val]
    simp only [Aff.zero, zero_mul, mul_zero]
  exact this

theorem mk_nsmul (n : ℕ) (g : Sub bandersnatch) :
    Banderwagon.mk bandersnatch (n • g) = n • Banderwagon.mk bandersnatch g :=
  map_nsmul (QuotientAddGroup.mk' (Sub.T2 bandersnatch)) n g

theorem r_nsmul_genBW : R • genBW = 0 := by
  unfold genBW
  rw [← mk_nsmul]
  exact mk_zero_of_X _ _ (pt_nsmul_rep generator_rep R) r_smul_generator_coords.1

theorem size_bound : Fintype.card Fp + 1 < 6 * R := by
  rw [card_Fp]; decide

/-- **The Banderwagon group has exactly `r` elements** (no point counting: Lagrange with the
generator, the bound `2·|BW| ≤ p + 1 < 6r`, and the absence of 2-torsion in the quotient). -/
theorem card_BW : Nat.card BW = R :=
  card_of_generator bandersnatch two_ne_zero_Fp na_ns R Primes.R_prime size_bound genBW genBW_ne_zero r_nsmul_genBW

/-- **Every Banderwagon element is killed by `r`.** -/
theorem bw_exponent : ∀ x : BW, R • x = 0 :=
  exponent_of_generator bandersnatch two_ne_zero_Fp na_ns R Primes.R_prime size_bound genBW genBW_ne_zero r_nsmul_genBW

/-- **The Banderwagon group of the implementation is a vector space over the scalar field `Fr`**:
the structure C01–C05 and C09 quantify over, now an instance and not an assumption. -/
noncomputable instance : Module Fr BW := module_of_exponent bw_exponent

/-- every decoded point has order dividing `r` (C06's "order divides r") -/
theorem decode_order (b : Bytes) (p : Pt) (h : decodeCompressed Fp.sqrtPrecomp b false = .ok p) :
    ∃ g : Sub bandersnatch, Rep bandersnatch p g ∧ R • Banderwagon.mk bandersnatch g = 0 := by
  obtain ⟨g, hg⟩ := decode_rep b p h
  exact ⟨g, hg, bw_exponent _⟩

/-- the scalar action of `Fr` on `BW` is the natural-number multiple by the canonical representative -/
theorem smul_def (s : Fr) (x : BW) : s • x = s.val • x := by
  let _ : Module (ZMod R) BW := AddCommGroup.zmodModule bw_exponent
  show (Zp.toZ s : ZMod R) • x = s.val • x
  unfold Zp.toZ
  exact Nat.cast_smul_eq_nsmul (ZMod R) s.val x

end GoIpa.C08
