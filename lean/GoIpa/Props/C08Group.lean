/-
  C08 — the Banderwagon group law, proved.

  For every field and every twisted Edwards curve `a x² + y² = 1 + d x² y²` whose parameters
  `a`, `d` and `−d` are non-squares (Bandersnatch: `Concrete`/`C08Concrete`):

  * `aff_add_assoc` — the unified affine law is associative wherever the sums are defined
    (polynomial identities of `Lemmas/EdwardsAssoc.lean`);
  * `sub_complete` — on the points the decoder accepts (`1 − a x²` a non-zero square) the law is
    complete: no denominator vanishes, although `a` is a non-square and the law is *not* complete
    on the whole curve;
  * `sub_closed` — their sum is again such a point;
  * `Sub c` is an abelian group (`AddCommGroup`), `Banderwagon c = Sub c ⧸ {(0,1),(0,−1)}` is an
    abelian group, and two points give the same element exactly when `Element.Equal`'s test
    `x₁y₂ = y₁x₂` holds (`Banderwagon.mk_eq_iff`);
  * the projective / mixed / doubling formulas and double-and-add scalar multiplication compute
    this group's operations on every pair of valid representatives, with no side condition
    (`rep_add`, `rep_mixedAdd`, `rep_double`, `rep_neg`, `rep_nsmul`).

  What remains of the G-assumption is the order of the group (`r • x = 0`), a point-counting fact.
-/
import Mathlib.Tactic.Ring
import Mathlib.Tactic.FieldSimp
import Mathlib.Tactic.LinearCombination
import Mathlib.Algebra.Field.Basic
import GoIpa.Props.C08
import GoIpa.Lemmas.EdwardsAssoc
import GoIpa.Props.C07
import Mathlib.Algebra.Group.Even
import Mathlib.GroupTheory.QuotientGroup.Defs
namespace GoIpa.C08
open GoIpa

variable {F : Type} [Field F]

theorem frac_eq (A B N D s : F) (hs : s ≠ 0) (hB : B ≠ 0) (hN : A * s = N) (hD : B * s = D) :
    A * B⁻¹ = N / D ∧ D ≠ 0 := by
  subst hN; subst hD
  exact ⟨by rw [mul_div_mul_right _ _ hs, div_eq_mul_inv], mul_ne_zero hB hs⟩

theorem clearL {a' : F} (d X Y u v x3 y3 : F) (hu : u ≠ 0) (hv : v ≠ 0) :
    (X * u⁻¹ * y3 + Y * v⁻¹ * x3) * (u * v) = X * y3 * v + Y * x3 * u ∧
    (1 + d * (X * u⁻¹ * x3) * (Y * v⁻¹ * y3)) * (u * v) = u * v + d * X * Y * x3 * y3 ∧
    (Y * v⁻¹ * y3 - a' * (X * u⁻¹ * x3)) * (u * v) = Y * y3 * u - a' * X * x3 * v ∧
    (1 - d * (X * u⁻¹ * x3) * (Y * v⁻¹ * y3)) * (u * v) = u * v - d * X * Y * x3 * y3 := by
  refine ⟨?_, ?_, ?_, ?_⟩ <;> field_simp

theorem clearR {a' : F} (d X Y u v x1 y1 : F) (hu : u ≠ 0) (hv : v ≠ 0) :
    (x1 * (Y * v⁻¹) + y1 * (X * u⁻¹)) * (u * v) = x1 * Y * u + y1 * X * v ∧
    (1 + d * (x1 * (X * u⁻¹)) * (y1 * (Y * v⁻¹))) * (u * v) = u * v + d * x1 * y1 * X * Y ∧
    (y1 * (Y * v⁻¹) - a' * (x1 * (X * u⁻¹))) * (u * v) = y1 * Y * u - a' * x1 * X * v ∧
    (1 - d * (x1 * (X * u⁻¹)) * (y1 * (Y * v⁻¹))) * (u * v) = u * v - d * x1 * y1 * X * Y := by
  refine ⟨?_, ?_, ?_, ?_⟩ <;> field_simp

/-- **Associativity** of the unified affine law, wherever the six sums involved are defined. -/
theorem aff_add_assoc (c : Curve F) (p q r : Aff F) (hp : p.onCurve c) (hq : q.onCurve c) (hr : r.onCurve c)
    (h1 : 1 + kappa c p q ≠ 0) (h2 : 1 - kappa c p q ≠ 0)
    (h3 : 1 + kappa c (Aff.add c p q) r ≠ 0) (h4 : 1 - kappa c (Aff.add c p q) r ≠ 0)
    (h5 : 1 + kappa c q r ≠ 0) (h6 : 1 - kappa c q r ≠ 0)
    (h7 : 1 + kappa c p (Aff.add c q r) ≠ 0) (h8 : 1 - kappa c p (Aff.add c q r) ≠ 0) :
    Aff.add c (Aff.add c p q) r = Aff.add c p (Aff.add c q r) := by
  obtain ⟨x1, y1⟩ := p
  obtain ⟨x2, y2⟩ := q
  obtain ⟨x3, y3⟩ := r
  obtain ⟨a, d⟩ := c
  simp only [Aff.onCurve] at hp hq hr
  simp only [kappa, Aff.add] at h1 h2 h3 h4 h5 h6 h7 h8
  have e1 : a * x1 ^ 2 + y1 ^ 2 = 1 + d * x1 ^ 2 * y1 ^ 2 := by linear_combination hp
  have e2 : a * x2 ^ 2 + y2 ^ 2 = 1 + d * x2 ^ 2 * y2 ^ 2 := by linear_combination hq
  have e3 : a * x3 ^ 2 + y3 ^ 2 = 1 + d * x3 ^ 2 * y3 ^ 2 := by linear_combination hr
  have ix := Edwards.assoc_x_identity a d x1 y1 x2 y2 x3 y3 e1 e2 e3
  have iy := Edwards.assoc_y_identity a d x1 y1 x2 y2 x3 y3 e1 e2 e3
  have hs := mul_ne_zero h1 h2
  have hs' := mul_ne_zero h5 h6
  obtain ⟨l1, l2, l3, l4⟩ := clearL (a' := a) d (x1 * y2 + y1 * x2) (y1 * y2 - a * (x1 * x2)) _ _ x3 y3 h1 h2
  obtain ⟨r1, r2, r3, r4⟩ := clearR (a' := a) d (x2 * y3 + y2 * x3) (y2 * y3 - a * (x2 * x3)) _ _ x1 y1 h5 h6
  apply aff_ext
  · simp only [Aff.add]
    obtain ⟨eL, hDL⟩ := frac_eq _ _ _ _ _ hs h3 l1 l2
    obtain ⟨eR, hDR⟩ := frac_eq _ _ _ _ _ hs' h7 r1 r2
    rw [eL, eR, div_eq_div_iff hDL hDR]
    linear_combination ix
  · simp only [Aff.add]
    obtain ⟨eL, hDL⟩ := frac_eq _ _ _ _ _ hs h4 l3 l4
    obtain ⟨eR, hDR⟩ := frac_eq _ _ _ _ _ hs' h8 r3 r4
    rw [eL, eR, div_eq_div_iff hDL hDR]
    linear_combination iy

theorem sq_helper (d X K W t : F) (hK : K ≠ 0) (ht : t ≠ 0) (h : (K^2 - d*X^2) * t^2 = W^2) :
    1 - d * (X*K⁻¹ * (X*K⁻¹)) = (W * (K*t)⁻¹) * (W*(K*t)⁻¹) := by
  field_simp
  linear_combination h

theorem sq_of_mul (v s m : F) (hm : m ≠ 0) (h : v * m ^ 2 = s ^ 2) : v = (s * m⁻¹) * (s * m⁻¹) := by
  field_simp
  linear_combination h

theorem y_ne_zero (c : Curve F) (ha : ¬IsSquare c.a) (p : Aff F) (h : p.onCurve c) : p.y ≠ 0 := by
  classical exact C07.y_ne_zero c ha p h

/-! ### The Banderwagon subgroup: curve points with `1 − a x²` a non-zero square -/

/-- the hypotheses on the curve parameters: `a`, `d` and `−d` are non-squares (for Bandersnatch:
`Concrete.a_not_square`, `d_not_square`, and `−1` is a square because `p ≡ 1 (mod 4)`) -/
structure NonSq (c : Curve F) : Prop where
  a : ¬IsSquare c.a
  d : ¬IsSquare c.d
  nd : ¬IsSquare (-c.d)

/-- what untrusted decoding checks (`C06.subgroupOk_iff`): on the curve, `1 − a x²` a non-zero square -/
structure InSub (c : Curve F) (p : Aff F) : Prop where
  on : p.onCurve c
  ne : 1 - c.a * (p.x * p.x) ≠ 0
  sq : IsSquare (1 - c.a * (p.x * p.x))

theorem v_ne_zero (c : Curve F) (hc : NonSq c) (x : F) : 1 - c.d * (x * x) ≠ 0 := by
  have := by classical exact C07.one_sub_d_sq_ne_zero c hc.d x
  rwa [pow_two] at this

/-- on the curve `1 − a x² = y² (1 − d x²)` -/
theorem u_eq (c : Curve F) (p : Aff F) (h : p.onCurve c) :
    1 - c.a * (p.x * p.x) = p.y * p.y * (1 - c.d * (p.x * p.x)) := by
  unfold Aff.onCurve at h; linear_combination -h

/-- in the subgroup, `1 − d x²` is the square of a non-zero element -/
theorem InSub.v_sq {c : Curve F} (hc : NonSq c) {p : Aff F} (h : InSub c p) :
    ∃ t, t ≠ 0 ∧ 1 - c.d * (p.x * p.x) = t * t := by
  obtain ⟨s, hs⟩ := h.sq
  have hy := y_ne_zero c hc.a p h.on
  have hu := u_eq c p h.on
  have hs0 : s ≠ 0 := by
    intro h0; rw [h0, mul_zero] at hs; exact h.ne hs
  refine ⟨s * p.y⁻¹, mul_ne_zero hs0 (inv_ne_zero hy), ?_⟩
  field_simp
  linear_combination hs - hu

/-- conversely a curve point with `1 − d x²` a square is in the subgroup -/
theorem inSub_of_v_sq {c : Curve F} (hc : NonSq c) {p : Aff F} (h : p.onCurve c)
    (hv : IsSquare (1 - c.d * (p.x * p.x))) : InSub c p := by
  have hy := y_ne_zero c hc.a p h
  have hu := u_eq c p h
  refine ⟨h, ?_, ?_⟩
  · rw [hu]; exact mul_ne_zero (mul_ne_zero hy hy) (v_ne_zero c hc p.x)
  · obtain ⟨t, ht⟩ := hv
    exact ⟨p.y * t, by rw [hu, ht]; ring⟩

/-- **Completeness on the subgroup.** For two subgroup points neither denominator of the
unified law vanishes (although `a` is not a square and the law is *not* complete on the curve). -/
theorem sub_complete {c : Curve F} (hc : NonSq c) {p q : Aff F} (hp : InSub c p) (hq : InSub c q) :
    1 + kappa c p q ≠ 0 ∧ 1 - kappa c p q ≠ 0 := by
  have key : kappa c p q ^ 2 ≠ 1 := by
    intro hk
    obtain ⟨t1, ht10, ht1⟩ := hp.v_sq hc
    obtain ⟨s2, hs2⟩ := hq.sq
    have hs20 : s2 ≠ 0 := by
      intro h0; rw [h0, mul_zero] at hs2; exact hq.ne hs2
    have e1 := hp.on
    have e2 := hq.on
    unfold Aff.onCurve at e1 e2
    unfold kappa at hk
    have hx1 : p.x ≠ 0 := by
      intro h0; rw [h0] at hk; simp at hk
    have hy1 : p.y ≠ 0 := y_ne_zero c hc.a p hp.on
    have hx2 : q.x ≠ 0 := by
      intro h0; rw [h0] at hk; simp at hk
    have quad : (c.a * (q.x * q.x) * c.d * (p.x * p.x) - 1) * (q.x * q.x * c.d * (p.y * p.y) - 1) = 0 := by
      linear_combination (-c.d * q.x ^ 2) * e1 + (c.d * q.x ^ 2 * (c.d * p.x ^ 2 * p.y ^ 2)) * e2
        + (c.d * q.x ^ 2 - 1) * hk
    rcases mul_eq_zero.mp quad with hA | hB
    · -- a d x₁² x₂² = 1: then −d is a square
      apply hc.nd
      exact ⟨t1 * (s2 * p.x)⁻¹, sq_of_mul _ _ _ (mul_ne_zero hs20 hx1)
        (by linear_combination (c.d * p.x ^ 2) * hs2 + ht1 + hA)⟩
    · -- d x₂² y₁² = 1: then d is a square
      apply hc.d
      exact ⟨1 * (q.x * p.y)⁻¹, sq_of_mul _ _ _ (mul_ne_zero hx2 hy1) (by linear_combination hB)⟩
  constructor
  · intro h
    apply key
    have : kappa c p q = -1 := by linear_combination h
    rw [this]; ring
  · intro h
    apply key
    have : kappa c p q = 1 := by linear_combination -h
    rw [this]; ring

/-- **Closure of the subgroup.** -/
theorem sub_closed {c : Curve F} (hc : NonSq c) {p q : Aff F} (hp : InSub c p) (hq : InSub c q) :
    InSub c (Aff.add c p q) := by
  obtain ⟨h1, h2⟩ := sub_complete hc hp hq
  refine inSub_of_v_sq hc (aff_add_onCurve c p q hp.on hq.on h1 h2) ?_
  obtain ⟨t1, ht10, ht1⟩ := hp.v_sq hc
  obtain ⟨t2, ht20, ht2⟩ := hq.v_sq hc
  have e1 := hp.on
  have e2 := hq.on
  unfold Aff.onCurve at e1 e2
  unfold kappa at h1
  simp only [Aff.add]
  refine ⟨(1 - c.d * p.x ^ 2 - c.d * q.x ^ 2 + c.a * c.d * p.x ^ 2 * q.x ^ 2)
    * ((1 + c.d * (p.x * q.x) * (p.y * q.y)) * (t1 * t2))⁻¹, ?_⟩
  apply sq_helper _ _ _ _ _ h1 (mul_ne_zero ht10 ht20)
  linear_combination
    (-c.d^3*p.x^2*q.x^4*q.y^2 + c.d^2*p.x^2*q.x^2*q.y^2 + c.d^2*q.x^4 - c.d*q.x^2) * e1
    + (-c.a*c.d^2*p.x^4*q.x^2 + c.d^2*p.x^4 + c.d^2*p.x^2*q.x^2 - c.d*p.x^2) * e2
    - (((1 + c.d * (p.x * q.x) * (p.y * q.y)) ^ 2 - c.d * (p.x * q.y + p.y * q.x) ^ 2) * (1 - c.d * q.x ^ 2)) * ht1
    - (((1 + c.d * (p.x * q.x) * (p.y * q.y)) ^ 2 - c.d * (p.x * q.y + p.y * q.x) ^ 2) * (t1 ^ 2)) * ht2


theorem zero_inSub (c : Curve F) : InSub c (Aff.zero : Aff F) := by
  refine ⟨?_, ?_, ⟨1, ?_⟩⟩ <;> simp [Aff.onCurve, Aff.zero]

theorem neg_inSub {c : Curve F} {p : Aff F} (h : InSub c p) : InSub c p.neg := by
  obtain ⟨h1, h2, h3⟩ := h
  refine ⟨?_, ?_, ?_⟩
  · unfold Aff.onCurve Aff.neg at *; simp only; linear_combination h1
  · simpa [Aff.neg] using h2
  · simpa [Aff.neg] using h3

theorem flip_inSub {c : Curve F} {p : Aff F} (h : InSub c p) : InSub c p.flip := by
  obtain ⟨h1, h2, h3⟩ := h
  refine ⟨?_, ?_, ?_⟩
  · unfold Aff.onCurve Aff.flip at *; simp only; linear_combination h1
  · simpa [Aff.flip] using h2
  · simpa [Aff.flip] using h3

/-- **Associativity on the subgroup**, unconditionally. -/
theorem sub_assoc {c : Curve F} (hc : NonSq c) {p q r : Aff F} (hp : InSub c p) (hq : InSub c q) (hr : InSub c r) :
    Aff.add c (Aff.add c p q) r = Aff.add c p (Aff.add c q r) := by
  obtain ⟨h1, h2⟩ := sub_complete hc hp hq
  obtain ⟨h3, h4⟩ := sub_complete hc (sub_closed hc hp hq) hr
  obtain ⟨h5, h6⟩ := sub_complete hc hq hr
  obtain ⟨h7, h8⟩ := sub_complete hc hp (sub_closed hc hq hr)
  exact aff_add_assoc c p q r hp.on hq.on hr.on h1 h2 h3 h4 h5 h6 h7 h8

theorem sub_add_neg {c : Curve F} (hc : NonSq c) {p : Aff F} (hp : InSub c p) : Aff.add c p p.neg = Aff.zero := by
  obtain ⟨h1, h2⟩ := sub_complete hc hp (neg_inSub hp)
  exact aff_add_neg c p hp.on h1 h2

/-! ### The group of subgroup points and its quotient by `{(0,1), (0,−1)}` -/

/-- the points the decoder accepts -/
def Sub (c : Curve F) : Type := {p : Aff F // InSub c p}

section SubGroup
variable (c : Curve F) [hc : Fact (NonSq c)]

instance : Add (Sub c) := ⟨fun p q => ⟨Aff.add c p.1 q.1, sub_closed hc.out p.2 q.2⟩⟩
instance : Zero (Sub c) := ⟨⟨Aff.zero, zero_inSub c⟩⟩
instance : Neg (Sub c) := ⟨fun p => ⟨p.1.neg, neg_inSub p.2⟩⟩

theorem Sub.add_val (p q : Sub c) : (p + q).1 = Aff.add c p.1 q.1 := rfl
omit hc in
theorem Sub.zero_val : (0 : Sub c).1 = Aff.zero := rfl
omit hc in
theorem Sub.neg_val (p : Sub c) : (-p).1 = p.1.neg := rfl

/-- **The subgroup points form an abelian group under the unified law.** -/
instance : AddCommGroup (Sub c) where
  add_assoc p q r := Subtype.ext (sub_assoc hc.out p.2 q.2 r.2)
  zero_add p := Subtype.ext (by rw [Sub.add_val, aff_add_comm, Sub.zero_val, aff_add_zero])
  add_zero p := Subtype.ext (by rw [Sub.add_val, Sub.zero_val, aff_add_zero])
  add_comm p q := Subtype.ext (aff_add_comm c p.1 q.1)
  neg_add_cancel p := Subtype.ext (by rw [Sub.add_val, aff_add_comm, Sub.neg_val, Sub.zero_val, sub_add_neg hc.out p.2])
  nsmul := nsmulRec
  zsmul := zsmulRec

/-- the point `(0, −1)` of order two -/
def Sub.two : Sub c := ⟨(Aff.zero : Aff F).flip, flip_inSub (zero_inSub c)⟩

theorem Sub.add_two (p : Sub c) : (p + Sub.two c).1 = p.1.flip := by
  show Aff.add c p.1 (Aff.zero : Aff F).flip = _
  rw [aff_add_comm, aff_add_flip, aff_add_comm, aff_add_zero]

theorem Sub.two_add_two : Sub.two c + Sub.two c = 0 := by
  apply Subtype.ext
  rw [Sub.add_two]
  show (Aff.zero : Aff F).flip.flip = Aff.zero
  apply aff_ext <;> simp [Aff.flip]

theorem Sub.neg_two : -(Sub.two c) = Sub.two c := by
  rw [neg_eq_iff_add_eq_zero, Sub.two_add_two]

/-- the subgroup `{(0,1), (0,−1)}` -/
def Sub.T2 : AddSubgroup (Sub c) where
  carrier := {p | p = 0 ∨ p = Sub.two c}
  zero_mem' := Or.inl rfl
  add_mem' := by
    rintro a b (rfl | rfl) (rfl | rfl)
    · left; simp
    · right; simp
    · right; simp
    · left; exact Sub.two_add_two c
  neg_mem' := by
    rintro a (rfl | rfl)
    · left; simp
    · right; exact Sub.neg_two c

theorem Sub.mem_T2 (p : Sub c) : p ∈ Sub.T2 c ↔ (p = 0 ∨ p = Sub.two c) := Iff.rfl
end SubGroup

/-- **The Banderwagon group**: subgroup points modulo `{(0,1), (0,−1)}` -/
abbrev Banderwagon (c : Curve F) [Fact (NonSq c)] : Type := Sub c ⧸ Sub.T2 c

section Quot
variable (c : Curve F) [hc : Fact (NonSq c)]

instance : AddCommGroup (Banderwagon c) := QuotientAddGroup.Quotient.addCommGroup (Sub.T2 c)

def Banderwagon.mk (p : Sub c) : Banderwagon c := QuotientAddGroup.mk p

theorem Banderwagon.mk_add (p q : Sub c) : Banderwagon.mk c (p + q) = Banderwagon.mk c p + Banderwagon.mk c q := rfl
theorem Banderwagon.mk_neg (p : Sub c) : Banderwagon.mk c (-p) = -Banderwagon.mk c p := rfl
theorem Banderwagon.mk_zero : Banderwagon.mk c 0 = 0 := rfl

/-- **Two subgroup points are the same Banderwagon element exactly when the test of
`Element.Equal`, `x₁y₂ = y₁x₂`, holds.** -/
theorem Banderwagon.mk_eq_iff (p q : Sub c) : Banderwagon.mk c p = Banderwagon.mk c q ↔ p.1.x * q.1.y = p.1.y * q.1.x := by
  have hcross : p.1.x * q.1.y = p.1.y * q.1.x ↔ (p.1 = q.1 ∨ p.1 = q.1.flip) := by
    classical exact C07.cross_iff_class c hc.out.a hc.out.d p.1 q.1 p.2.on q.2.on
  rw [hcross]
  show (QuotientAddGroup.mk p : Sub c ⧸ Sub.T2 c) = QuotientAddGroup.mk q ↔ _
  rw [QuotientAddGroup.eq, Sub.mem_T2]
  constructor
  · rintro (h | h)
    · left
      have : q = p := by rw [← add_zero p, ← h, add_neg_cancel_left]
      rw [this]
    · right
      have : q = p + Sub.two c := by rw [← h, add_neg_cancel_left]
      rw [this, Sub.add_two]
      apply aff_ext <;> simp [Aff.flip]
  · rintro (h | h)
    · left
      have : p = q := Subtype.ext h
      rw [this, neg_add_cancel]
    · right
      have : p = q + Sub.two c := Subtype.ext (by rw [Sub.add_two]; exact h)
      rw [this, neg_add_rev, add_assoc, neg_add_cancel, add_zero, Sub.neg_two]
end Quot


/-! ### The coordinate formulas compute the group operations on representatives -/

section Rep
variable (c : Curve F) [hc : Fact (NonSq c)]

/-- the projective point `p` represents the subgroup point `g` -/
def Rep (p : Proj F) (g : Sub c) : Prop := p.Z ≠ 0 ∧ p.toAff = g.1

omit hc in
theorem rep_zero : Rep c (Proj.zero : Proj F) ⟨Aff.zero, zero_inSub c⟩ := by
  refine ⟨by simp [Proj.zero], ?_⟩
  apply aff_ext <;> simp [Proj.zero, Proj.toAff, Aff.zero]

/-- **Projective addition of any two representatives represents the sum** — no side condition. -/
theorem rep_add {p q : Proj F} {g h : Sub c} (hp : Rep c p g) (hq : Rep c q h) : Rep c (Proj.add c p q) (g + h) := by
  obtain ⟨hpz, hpa⟩ := hp
  obtain ⟨hqz, hqa⟩ := hq
  obtain ⟨h1, h2⟩ := sub_complete hc.out g.2 h.2
  rw [← hpa, ← hqa] at h1 h2
  obtain ⟨hz, ha⟩ := proj_add_affine c p q hpz hqz h1 h2
  exact ⟨hz, by rw [ha, hpa, hqa]; rfl⟩

/-- **Mixed addition** with an affine subgroup point -/
theorem rep_mixedAdd {p : Proj F} {g h : Sub c} (hp : Rep c p g) : Rep c (Proj.mixedAdd c p h.1) (g + h) := by
  obtain ⟨hpz, hpa⟩ := hp
  obtain ⟨h1, h2⟩ := sub_complete hc.out g.2 h.2
  rw [← hpa] at h1 h2
  obtain ⟨hz, ha⟩ := mixedAdd_affine c p h.1 hpz h1 h2
  exact ⟨hz, by rw [ha, hpa]; rfl⟩

/-- **Doubling** -/
theorem rep_double {p : Proj F} {g : Sub c} (hp : Rep c p g) : Rep c (Proj.double c p) (g + g) := by
  obtain ⟨hpz, hpa⟩ := hp
  obtain ⟨h1, h2⟩ := sub_complete hc.out g.2 g.2
  rw [← hpa] at h1 h2
  obtain ⟨hz, ha⟩ := proj_double_affine c p hpz (by rw [hpa]; exact g.2.on) h1 h2
  exact ⟨hz, by rw [ha, hpa]; rfl⟩

/-- **Extended addition (`add-2008-hwcd`)** of consistent representatives -/
theorem rep_extAdd {p q : Ext F} {g h : Sub c} (hp : ExtOk p) (hq : ExtOk q)
    (hpr : Rep c p.toProj g) (hqr : Rep c q.toProj h) :
    ExtOk (Ext.add c p q) ∧ Rep c (Ext.add c p q).toProj (g + h) := by
  obtain ⟨h1, h2⟩ := sub_complete hc.out g.2 h.2
  rw [← hpr.2, ← hqr.2] at h1 h2
  obtain ⟨hok, ha⟩ := ext_add_affine c p q hp hq h1 h2
  exact ⟨hok, hok.1, by rw [ha, hpr.2, hqr.2]; rfl⟩

/-- **`ExtendedAddNormalized`** (the repository's own formula) with a normalised table entry -/
theorem rep_addN {p : Ext F} {g h : Sub c} (hp : ExtOk p) (hpr : Rep c p.toProj g) :
    ExtOk (Ext.addN c p (ExtN.ofAff h.1)) ∧ Rep c (Ext.addN c p (ExtN.ofAff h.1)).toProj (g + h) := by
  rw [addN_eq_add]
  have hq : ExtOk (⟨(ExtN.ofAff h.1).X, (ExtN.ofAff h.1).Y, 1, (ExtN.ofAff h.1).T⟩ : Ext F) :=
    ⟨one_ne_zero, by simp [ExtN.ofAff]⟩
  have hqr : Rep c (⟨(ExtN.ofAff h.1).X, (ExtN.ofAff h.1).Y, 1, (ExtN.ofAff h.1).T⟩ : Ext F).toProj h := by
    refine ⟨one_ne_zero, ?_⟩
    apply aff_ext <;> simp [Ext.toProj, Proj.toAff, ExtN.ofAff]
  exact rep_extAdd c hp hq hpr hqr

omit hc in
/-- **Negation** -/
theorem rep_neg {p : Proj F} {g : Sub c} (hp : Rep c p g) : Rep c (Proj.neg p) (-g) := by
  obtain ⟨hpz, hpa⟩ := hp
  refine ⟨hpz, ?_⟩
  have hx : p.X * p.Z⁻¹ = g.1.x := congrArg Aff.x hpa
  have hy : p.Y * p.Z⁻¹ = g.1.y := congrArg Aff.y hpa
  apply aff_ext
  · show -p.X * p.Z⁻¹ = -g.1.x
    rw [← hx]; ring
  · exact hy

theorem rep_nsmulAux {p : Proj F} {g : Sub c} (hp : Rep c p g) :
    ∀ (fuel n : Nat), n < 2 ^ fuel → Rep c (Proj.nsmulAux c p fuel n) (n • g) := by
  intro fuel
  induction fuel with
  | zero =>
    intro n hn
    have : n = 0 := by simpa using hn
    subst this
    rw [zero_nsmul]; exact rep_zero c
  | succ fuel ih =>
    intro n hn
    unfold Proj.nsmulAux
    by_cases h0 : n = 0
    · rw [if_pos h0, h0, zero_nsmul]; exact rep_zero c
    · rw [if_neg h0]
      have hhalf : n / 2 < 2 ^ fuel := by
        rw [Nat.div_lt_iff_lt_mul (by decide)]; rw [pow_succ] at hn; exact hn
      have hd := rep_double c (ih (n / 2) hhalf)
      simp only
      by_cases h1 : n % 2 = 1
      · rw [if_pos h1]
        have := rep_add c hd hp
        have e : (n / 2) • g + (n / 2) • g + g = n • g := by
          rw [← add_nsmul, ← succ_nsmul]; congr 1; omega
        rwa [e] at this
      · rw [if_neg h1]
        have e : (n / 2) • g + (n / 2) • g = n • g := by
          rw [← add_nsmul]; congr 1; omega
        rwa [e] at hd

/-- **Double-and-add scalar multiplication computes `n • g`** for every `n`. -/
theorem rep_nsmul {p : Proj F} {g : Sub c} (hp : Rep c p g) (n : Nat) : Rep c (Proj.nsmul c n p) (n • g) :=
  rep_nsmulAux c hp _ n Nat.lt_log2_self

end Rep

end GoIpa.C08
