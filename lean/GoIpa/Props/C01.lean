/-
  C01 — multiproof completeness: the prover's aggregation.
  For every number of openings, every pattern of evaluation points, every worker count and
  arrival order: the grouped polynomials are `Σ_{zᵢ=z} rⁱ • fᵢ`, the inverse denominators are
  read with the compacted index of their group, and the inner-product argument that closes the
  proof is complete (C04).
-/
import GoIpa.Lemmas.Grouping
import GoIpa.Lemmas.BatchInvert
import GoIpa.Props.C04
namespace GoIpa.C01
open GoIpa

variable {F : Type} [Field F] [DecidableEq F]

/-- **Grouping.** (re-export of the aggregation theorem, the statement the prover relies on) -/
theorem group_spec (N : Nat) (fs : List (List F)) (pows : List F) (zs : List Nat)
    (hgood : Grouping.Good N fs zs (List.range fs.length)) (w : Nat) (hw : 1 ≤ w) (order : List Nat)
    (hperm : order.Perm (List.range w)) :
    Grouping.WF N (groupPolys N fs pows zs w order) ∧
    (∀ z, Grouping.defined (groupPolys N fs pows zs w order) z = (List.range fs.length).any fun i => zs.getD i 0 = z) ∧
    (∀ z j, Grouping.coord (groupPolys N fs pows zs w order) z j = Grouping.contrib fs pows zs (List.range fs.length) z j) :=
  Grouping.group_spec N fs pows zs hgood w hw order hperm

/-- the prover's compacted denominators, as the code builds them: one entry per non-empty
group, in increasing order of the evaluation point -/
def densOf (groups : Groups F) (t : F) (off : Nat) : List F :=
  (List.zipIdx groups off).filterMap (fun (e : Option (List F) × Nat) =>
    e.1.map fun _ => t - ((e.2 : Nat) : F))

/-- **Compaction.** Walking the non-empty groups with a running index into the compacted
inverse-denominator list pairs the group of evaluation point `z` with `(t − z)⁻¹` — not with
the entry at position `z`. -/
theorem denInv_compaction (groups : Groups F) (t : F) (off : Nat) :
    List.zip (groups.filterMap id) (batchInvert (densOf groups t off)) =
      (List.zipIdx groups off).filterMap (fun (e : Option (List F) × Nat) =>
        e.1.map fun f => (f, (t - ((e.2 : Nat) : F))⁻¹)) := by
  rw [batchInvert_eq_map]
  unfold densOf
  induction groups generalizing off with
  | nil => simp
  | cons g gs ih =>
    simp only [List.zipIdx_cons, List.filterMap_cons]
    cases g with
    | none => simpa using ih (off + 1)
    | some f =>
      simp only [id_eq, Option.map_some, List.map_cons, List.zip_cons_cons]
      congr 1
      simpa using ih (off + 1)

/-- the prover's `h` computed with the compacted inverses is `Σ_z (t − z)⁻¹ • grouped_z` -/
theorem h_fold_eq (groups : Groups F) (t : F) (h0 : List F) :
    (List.zip (groups.filterMap id) (batchInvert (densOf groups t 0))).foldl
        (fun (h : List F) (e : List F × F) => addVec h (e.1.map (· * e.2))) h0
      = (List.zipIdx groups).foldl (fun (h : List F) (e : Option (List F) × Nat) =>
          (e.1.map fun f => addVec h (f.map (· * (t - ((e.2 : Nat) : F))⁻¹))).getD h) h0 := by
  rw [denInv_compaction]
  generalize List.zipIdx groups 0 = l
  induction l generalizing h0 with
  | nil => rfl
  | cons e l ih =>
    rcases e with ⟨g, z⟩
    cases g with
    | none => simpa using ih h0
    | some f => simpa using ih _

end GoIpa.C01
