/-
  C20 — the parallel range splitter covers every index exactly once.
  Property theorems only (helper lemmas are private to this file's first section).
-/
import GoIpa.Model.Ranges
namespace GoIpa.C20
open GoIpa

/-- `l` is a list of consecutive non-empty ranges from `a` to `b` -/
inductive Tiles : List (Nat × Nat) → Nat → Nat → Prop
  | nil (a : Nat) : Tiles [] a a
  | cons {s e b : Nat} {l : List (Nat × Nat)} (h : s < e) (t : Tiles l e b) : Tiles ((s, e) :: l) s b

private theorem loop_tiles (per : Nat) (hper : 0 < per) :
    ∀ cnt i extra off, extra ≤ cnt →
      Tiles (rangesLoop per cnt i extra off) (i * per + off) ((i + cnt) * per + off + extra) := by
  intro cnt
  induction cnt with
  | zero =>
    intro i extra off h
    have : extra = 0 := by omega
    subst this
    simpa [rangesLoop] using Tiles.nil (i * per + off)
  | succ cnt ih =>
    intro i extra off h
    unfold rangesLoop
    by_cases hx : extra > 0
    · simp only [hx, ↓reduceIte]
      refine Tiles.cons (by omega) ?_
      have := ih (i + 1) (extra - 1) (off + 1) (by omega)
      have e1 : (i + 1) * per + (off + 1) = i * per + off + per + 1 := by rw [Nat.add_mul]; omega
      have e2 : (i + 1 + cnt) * per + (off + 1) + (extra - 1) = (i + (cnt + 1)) * per + off + extra := by
        have : i + 1 + cnt = i + (cnt + 1) := by omega
        rw [this]; omega
      rw [e1, e2] at this
      exact this
    · simp only [hx, ↓reduceIte]
      have hx0 : extra = 0 := by omega
      subst hx0
      refine Tiles.cons (by omega) ?_
      have := ih (i + 1) 0 off (by omega)
      have e1 : (i + 1) * per + off = i * per + off + per := by rw [Nat.add_mul]; omega
      have e2 : (i + 1 + cnt) * per + off + 0 = (i + (cnt + 1)) * per + off + 0 := by
        have : i + 1 + cnt = i + (cnt + 1) := by omega
        rw [this]
      rw [e1, e2] at this
      exact this

private theorem loop_length (per : Nat) : ∀ cnt i extra off, (rangesLoop per cnt i extra off).length = cnt := by
  intro cnt
  induction cnt with
  | zero => intros; simp [rangesLoop]
  | succ cnt ih =>
    intro i extra off
    unfold rangesLoop
    split <;> simp [ih]

/-- **Coverage.** For every `n` and every worker limit `m ≥ 1` the ranges handed to the work
function are non-empty, consecutive, start at `0` and end at `n`: disjoint, contiguous, and
their union is exactly `[0, n)`. -/
theorem ranges_tile (n m : Nat) (hm : 1 ≤ m) : Tiles (ranges n m) 0 n := by
  unfold ranges
  by_cases h : n / m < 1
  · simp only [h, ↓reduceIte]
    have := loop_tiles 1 (by omega) n 0 (n - n * 1) 0 (by omega)
    simpa using this
  · simp only [h, ↓reduceIte]
    have hper : 0 < n / m := by omega
    have := loop_tiles (n / m) hper m 0 (n - m * (n / m)) 0 (by
      have := Nat.mod_lt n (show 0 < m by omega)
      have h2 := Nat.div_add_mod n m
      omega)
    have hle : m * (n / m) ≤ n := Nat.mul_div_le n m
    have e : (0 + m) * (n / m) + 0 + (n - m * (n / m)) = n := by
      rw [Nat.zero_add]; omega
    rw [e] at this
    simpa using this

/-- **Number of invocations** is exactly `min n m` (so at most `min n m` goroutines start). -/
theorem ranges_length (n m : Nat) (hm : 1 ≤ m) : (ranges n m).length = min n m := by
  unfold ranges
  by_cases h : n / m < 1
  · simp only [h, ↓reduceIte, loop_length]
    have : n < m := by
      have := (Nat.div_lt_iff_lt_mul (show 0 < m by omega)).mp (show n / m < 1 by omega)
      omega
    omega
  · simp only [h, ↓reduceIte, loop_length]
    have : m ≤ n := by
      rcases Nat.lt_or_ge n m with hlt | hge
      · have := Nat.div_eq_of_lt hlt; omega
      · exact hge
    omega

/-- consequences of `Tiles`: every range is non-empty and inside `[a, b)`, and `a ≤ b` -/
theorem tiles_bounds {l : List (Nat × Nat)} {a b : Nat} (t : Tiles l a b) :
    a ≤ b ∧ ∀ r ∈ l, r.1 < r.2 ∧ a ≤ r.1 ∧ r.2 ≤ b := by
  induction t with
  | nil a => simp
  | cons h t ih =>
    refine ⟨by omega, ?_⟩
    intro r hr
    rcases List.mem_cons.mp hr with rfl | hr
    · exact ⟨h, by omega, by omega⟩
    · have := ih.2 r hr; omega

/-- **No empty or out-of-bounds range.** -/
theorem ranges_nonempty_in_bounds (n m : Nat) (hm : 1 ≤ m) :
    ∀ r ∈ ranges n m, r.1 < r.2 ∧ r.2 ≤ n :=
  fun r hr => let h := (tiles_bounds (ranges_tile n m hm)).2 r hr; ⟨h.1, h.2.2⟩

/-- every index of `[a, b)` lies in exactly one range of a tiling -/
theorem tiles_cover_unique {l : List (Nat × Nat)} {a b : Nat} (t : Tiles l a b) (x : Nat) (hx : a ≤ x ∧ x < b) :
    ∃ r ∈ l, (r.1 ≤ x ∧ x < r.2) ∧ ∀ r' ∈ l, (r'.1 ≤ x ∧ x < r'.2) → r' = r := by
  induction t with
  | nil a => omega
  | @cons s e b l h t ih =>
    by_cases hxe : x < e
    · refine ⟨(s, e), by simp, ⟨hx.1, hxe⟩, ?_⟩
      intro r' hr' hin
      rcases List.mem_cons.mp hr' with rfl | hr'
      · rfl
      · have := (tiles_bounds t).2 r' hr'; omega
    · obtain ⟨r, hr, hin, huniq⟩ := ih ⟨by omega, hx.2⟩
      refine ⟨r, by simp [hr], hin, ?_⟩
      intro r' hr' hin'
      rcases List.mem_cons.mp hr' with rfl | hr'
      · simp at hin'; omega
      · exact huniq r' hr' hin'

/-- **Every index exactly once.** -/
theorem ranges_each_index_once (n m : Nat) (hm : 1 ≤ m) (x : Nat) (hx : x < n) :
    ∃ r ∈ ranges n m, (r.1 ≤ x ∧ x < r.2) ∧ ∀ r' ∈ ranges n m, (r'.1 ≤ x ∧ x < r'.2) → r' = r :=
  tiles_cover_unique (ranges_tile n m hm) x ⟨Nat.zero_le _, hx⟩

/-! ### the WaitGroup join: `Execute` returns only after every invocation returned -/

/-- invariant of the join protocol started with `k` workers -/
def JoinInv (k : Nat) (s : JoinState) : Prop :=
  s.counter = s.running ∧ s.toSpawn + s.running ≤ k ∧ (s.returned = true → s.toSpawn = 0 ∧ s.running = 0)

theorem join_inv_init (k : Nat) : JoinInv k (JoinState.init k) := by
  simp [JoinInv, JoinState.init]

theorem join_inv_step (k : Nat) {s s' : JoinState} (h : JoinInv k s) (st : JoinStep s s') : JoinInv k s' := by
  obtain ⟨h1, h2, h3⟩ := h
  cases st with
  | spawn hs hr => simp only [JoinInv]; refine ⟨by omega, by omega, ?_⟩; intro hret; simp [hr] at hret
  | finish hrun => simp only [JoinInv]; refine ⟨by omega, by omega, ?_⟩; intro hret; have := h3 hret; omega
  | wait hs hc hr => simp only [JoinInv]; refine ⟨h1, h2, ?_⟩; intro _; exact ⟨hs, by omega⟩

inductive Reach (k : Nat) : JoinState → Prop
  | init : Reach k (JoinState.init k)
  | step {s s'} : Reach k s → JoinStep s s' → Reach k s'

theorem reach_inv (k : Nat) (s : JoinState) (hr : Reach k s) : JoinInv k s := by
  induction hr with
  | init => exact join_inv_init k
  | step _ st ih => exact join_inv_step k ih st

/-- **Join safety**, for every interleaving: once `Execute` has returned, no invocation is
running or still to be started. -/
theorem join_safe (k : Nat) (s : JoinState) (hr : Reach k s) (hret : s.returned = true) :
    s.toSpawn = 0 ∧ s.running = 0 := by
  exact (reach_inv k s hr).2.2 hret

/-- **No deadlock**: in every reachable state that has not returned, some step is enabled. -/
theorem join_progress (k : Nat) (s : JoinState) (hr : Reach k s) (hret : s.returned = false) :
    ∃ s', JoinStep s s' := by
  have inv : JoinInv k s := reach_inv k s hr
  by_cases h1 : 0 < s.toSpawn
  · exact ⟨_, JoinStep.spawn h1 hret⟩
  · by_cases h2 : 0 < s.running
    · exact ⟨_, JoinStep.finish h2⟩
    · exact ⟨_, JoinStep.wait (by omega) (by have := inv.1; omega) hret⟩

/-! non-vacuity: concrete instances -/
example : ranges 10 3 = [(0, 4), (4, 7), (7, 10)] := by decide
example : ranges 2 5 = [(0, 1), (1, 2)] := by decide
example : ranges 0 4 = [] := by decide
example : Tiles (ranges 10 3) 0 10 := ranges_tile 10 3 (by decide)

end GoIpa.C20
