/-
  C06 — untrusted point decoding accepts only canonical encodings and re-encodes to the
  same bytes.  Structural theorems about the decoder of the model over the concrete base
  field, for an arbitrary square-root oracle (`sqrt` is `SqrtPrecomp`, see C17); the
  field-theoretic facts (no curve point has y = 0, class invariants) are in C07.
-/
import GoIpa.Props.C16
import GoIpa.Model.Element
namespace GoIpa.C06
open GoIpa

variable (sqrt : Fp → Option Fp)

theorem zp_ext {n : Nat} (a b : Zp n) (h : a.val = b.val) : a = b := by
  cases a; cases b; simp_all

theorem beNat_lt (b : Bytes) : beNat b < 256 ^ b.length := by
  unfold beNat
  have := C16.leNat_lt b.reverse
  simpa using this

/-- big-endian re-encoding of the decoded value gives the input back -/
theorem natToBE_beNat (b : Bytes) : natToBE b.length (beNat b) = b := by
  unfold natToBE beNat
  have := C16.natToLE_leNat b.reverse
  simp only [List.length_reverse] at this
  rw [this, List.reverse_reverse]

/-- **Rejects wrong lengths.** -/
theorem decode_rejects_length (b : Bytes) (t : Bool) (h : b.length ≠ 32) :
    decodeCompressed sqrt b t = .error .size := by
  unfold decodeCompressed; simp [h]

/-- **Rejects non-canonical field encodings** (`x ≥ p`, in particular every `x + p` alias). -/
theorem decode_rejects_noncanonical (b : Bytes) (t : Bool) (hl : b.length = 32) (h : P ≤ beNat b) :
    decodeCompressed sqrt b t = .error .nonCanonical := by
  unfold decodeCompressed
  have : ¬ beNat b < P := by omega
  simp [hl, this]

/-- what an accepted compressed encoding looks like -/
theorem decode_ok_shape (b : Bytes) (p : Pt) (h : decodeCompressed sqrt b false = .ok p) :
    b.length = 32 ∧ beNat b < P ∧ p.X.val = beNat b ∧ p.Z = 1 ∧ subgroupOk p.X = true ∧
      computeY sqrt p.X true = some p.Y := by
  unfold decodeCompressed at h
  by_cases hl : b.length ≠ 32
  · simp [hl] at h
  · simp only [hl, ↓reduceIte] at h
    by_cases hc : beNat b < P
    · simp only [hc, ↓reduceDIte] at h
      cases hy : computeY sqrt ⟨beNat b, hc⟩ true with
      | none => simp [hy] at h
      | some y =>
        simp only [hy] at h
        by_cases hs : subgroupOk ⟨beNat b, hc⟩
        · simp [hs] at h
          subst h
          exact ⟨by simpa using hl, hc, rfl, rfl, hs, hy⟩
        · simp [hs] at h
    · simp [hc] at h

/-- the root chosen by `computeY … true` is the larger one, unless it is zero -/
theorem computeY_largest (x y : Fp) (h : computeY sqrt x true = some y) (hy : y.val ≠ 0) :
    Fp.lexLargest y = true := by
  unfold computeY at h
  cases hs : sqrt ((bandersnatch.a * (x * x) - 1) / (bandersnatch.d * (x * x) - 1)) with
  | none => simp [hs] at h
  | some r =>
    simp only [hs] at h
    by_cases hl : Fp.lexLargest r = true
    · simp only [hl, ↓reduceIte, Option.some.injEq] at h
      rw [← h]; exact hl
    · simp only [hl, Bool.false_eq_true, ↓reduceIte, Option.some.injEq] at h
      -- y = -r with r not the larger root and r ≠ 0
      have hr : ¬ ((P - 1) / 2 < r.val) := by simpa [Fp.lexLargest] using hl
      have hyv : y.val = (P - r.val) % P := by rw [← h]; rfl
      have hrlt := r.lt
      have hr0 : r.val ≠ 0 := by
        intro h0
        apply hy
        rw [hyv, h0]
        simp
      have hmod : (P - r.val) % P = P - r.val := Nat.mod_eq_of_lt (by omega)
      unfold Fp.lexLargest
      rw [hyv, hmod]
      have hP : (P - 1) / 2 + (P - 1) / 2 + 1 = P := by decide
      simp only [decide_eq_true_eq]
      omega

/-- **Accepted encodings re-encode to exactly the same bytes**, so no element has two accepted
compressed encodings. (`y = 0` cannot occur for a curve point: C07.y_ne_zero.) -/
theorem decode_encode (b : Bytes) (p : Pt) (h : decodeCompressed sqrt b false = .ok p) (hy : p.Y.val ≠ 0) :
    p.bytes = b := by
  obtain ⟨hl, _, hx, hz, _, hcy⟩ := decode_ok_shape sqrt b p h
  have hlex := computeY_largest sqrt p.X p.Y hcy hy
  unfold Pt.bytes Proj.encode
  simp only [hz, ↓reduceIte, hlex]
  unfold Zp.bytesBE
  rw [hx, ← hl, natToBE_beNat]

/-- two accepted encodings of elements with the same `X` are the same string -/
theorem accepted_encoding_unique (b b' : Bytes) (p p' : Pt)
    (h : decodeCompressed sqrt b false = .ok p) (h' : decodeCompressed sqrt b' false = .ok p')
    (hx : p.X = p'.X) : b = b' := by
  obtain ⟨hl, _, e, _⟩ := decode_ok_shape sqrt b p h
  obtain ⟨hl', _, e', _⟩ := decode_ok_shape sqrt b' p' h'
  have : beNat b = beNat b' := by rw [← e, ← e', hx]
  rw [← natToBE_beNat b, ← natToBE_beNat b', hl, hl', this]

/-! ### uncompressed form -/

theorem decodeUnc_rejects_length (b : Bytes) (t : Bool) (h : b.length ≠ 64) :
    decodeUncompressed sqrt b t = .error .size := by
  unfold decodeUncompressed; simp [h]

/-- **The untrusted uncompressed decoder rejects a non-canonical `X`** (the `x + p` alias that the
unrepaired code accepted) -/
theorem decodeUnc_rejects_noncanonical_x (b : Bytes) (hl : b.length = 64) (h : P ≤ beNat (b.take 32)) :
    decodeUncompressed sqrt b false = .error .nonCanonical := by
  unfold decodeUncompressed
  have : ¬ beNat (b.take 32) < P := by omega
  simp [hl, this]

/-- accepted untrusted uncompressed input: `X` canonical, `Y` byte-for-byte the larger root,
subgroup test passed, and the element re-encodes to the input -/
theorem decodeUnc_ok_shape (b : Bytes) (p : Pt) (h : decodeUncompressed sqrt b false = .ok p) :
    b.length = 64 ∧ beNat (b.take 32) < P ∧ p.X.val = beNat (b.take 32) ∧ p.Y.bytesBE = b.drop 32 ∧ p.Z = 1 ∧
      subgroupOk p.X = true ∧ computeY sqrt p.X true = some p.Y := by
  unfold decodeUncompressed at h
  by_cases hl : b.length ≠ 64
  · simp [hl] at h
  · simp only [hl, ↓reduceIte, Bool.false_eq_true] at h
    by_cases hc : beNat (b.take 32) < P
    · simp only [hc, ↓reduceDIte] at h
      cases hy : computeY sqrt ⟨beNat (b.take 32), hc⟩ true with
      | none => simp [hy] at h
      | some y =>
        simp only [hy] at h
        by_cases hyb : y.bytesBE ≠ b.drop 32
        · simp [hyb] at h
        · simp only [hyb, ↓reduceIte] at h
          by_cases hs : subgroupOk ⟨beNat (b.take 32), hc⟩
          · simp [hs] at h
            subst h
            exact ⟨by simpa using hl, hc, rfl, by simpa using hyb, rfl, hs, hy⟩
          · simp [hs] at h
    · simp [hc] at h

theorem decodeUnc_encode (b : Bytes) (p : Pt) (h : decodeUncompressed sqrt b false = .ok p) :
    p.bytesUncompressed = b := by
  obtain ⟨hl, _, hx, hyb, hz, _, _⟩ := decodeUnc_ok_shape sqrt b p h
  have hone : ((1 : Fp)⁻¹) = 1 := by decide +kernel
  have h1 : (1 : Fp).val = 1 := by decide +kernel
  have hmul : ∀ x : Fp, x * 1 = x := by
    intro x
    apply zp_ext
    show (x.val * (1 : Fp).val) % P = x.val
    rw [h1, Nat.mul_one]; exact Nat.mod_eq_of_lt x.lt
  unfold Pt.bytesUncompressed Proj.toAff
  simp only [hz, hone, hmul]
  rw [hyb]
  unfold Zp.bytesBE
  rw [hx]
  have h32 : (b.take 32).length = 32 := by simp [hl]
  have := natToBE_beNat (b.take 32)
  rw [h32] at this
  rw [this, List.take_append_drop]

end GoIpa.C06
