/-
  C05 on the translated code.

  The Pedersen commitment path of `banderwagon/precomp.go`, translated from the current source on
  every run — `NewPrecompPoint` (`Gen/PrecompFull.lean`), the window loop of
  `PrecompPoint.ScalarMul` (`Gen/Formulas.precompBody`, with 64-bit wrap-around) and
  `MSMPrecomp.MSM` (`Gen/PrecompFull.lean`) — composed as the Go code composes them, computes
  `Σ vᵢ • Gᵢ`:

      commit_translated :
        msm (i, s, acc ↦ ScalarMul (NewPrecompPoint Gᵢ (16 if i < 5 else 8)) s acc) scalars = Σ val(sᵢ) • Gᵢ

  obtained from the tie theorems (`Tie.PrecompFull.newPrecompPoint_eq`, `msm_eq`,
  `Tie.Precomp.scalarMul_eq`) and `C05.precompScalarMul_built`.  Parameters of the translation
  that remain assumptions: `batchToExtendedPointNormalized` is the identity on group elements,
  `Element.ScalarMul(p, 2^w)` is `2^w • p`, the integer value `val` of a scalar is below `2^255`
  (`C05.fr_lt_pow255`) and zero only for the zero scalar.
-/
import GoIpa.Tie.PrecompFull
import GoIpa.Tie.Precomp
import GoIpa.Props.C05
namespace GoIpa.C05
open GoIpa

variable {K G : Type} [Field K] [DecidableEq K] [AddCommGroup G] [Module K G]

/-- `PrecompPoint.ScalarMul` as translated: the double loop (4 limbs × `64/ws` windows) over the
translated window body, reading the table value `tbl` -/
def goScalarMul (ws : Nat) (tbl : List (List G)) (s : Nat) (acc : G) : G :=
  ((List.range 4).foldl (fun st l => (List.range (64 / ws)).foldl (fun st w =>
      Gen.precompBody ws (64 / ws) (tableFn tbl) [limb s 0, limb s 1, limb s 2, limb s 3] l w st.1 st.2) st) (acc, 0)).1

theorem goScalarMul_built (ws : Nat) (hws : ws = 8 ∨ ws = 16) (P : G) (s : Nat) (hs : s < 2 ^ 255) (acc : G) :
    goScalarMul ws (buildTable ws (fun b => (2 ^ ws : Nat) • b) (256 / ws) P) s acc = acc + s • P := by
  unfold goScalarMul
  have h1 : 1 ≤ ws := by rcases hws with h | h <;> omega
  have h2 : ws < 64 := by rcases hws with h | h <;> omega
  have h3 : ws ∣ 64 := by rcases hws with h | h <;> subst h <;> decide
  rw [Tie.Precomp.scalarMul_eq ws h1 h2 h3]
  exact precompScalarMul_built ws s (by omega) h3 hs _ (fun _ => rfl) P acc

/-- the table the translated constructor builds for basis point `i`, applied by the translated
`ScalarMul` -/
def goTableMul (Gs : Nat → G) (val : K → Nat) (i : Int) (s : K) (acc : G) : G :=
  match Gen.PrecompFull.newPrecompPoint (K := K) id (Gs i.toNat) (if i < 5 then 16 else 8) with
  | some (w, tbl) => goScalarMul w.toNat tbl (val s) acc
  | none => acc

-- the 2^15-entry windows must never be unfolded by the unifier or the kernel
attribute [local irreducible] buildTable buildWindow

theorem goTableMul_spec (Gs : Nat → G) (val : K → Nat) (i : Nat) (s : K) (hs : val s < 2 ^ 255) (acc : G) :
    goTableMul Gs val (i : Int) s acc = acc + val s • Gs i := by
  unfold goTableMul
  by_cases hi : (i : Int) < 5
  · have hnp := Tie.PrecompFull.newPrecompPoint_eq (K := K) 16 (by decide) (by decide) (Gs i)
    rw [if_pos hi, show ((16 : Int)) = ((16 : Nat) : Int) from rfl, Int.toNat_natCast, hnp]
    simp only [Int.toNat_natCast]
    exact goScalarMul_built 16 (Or.inr rfl) (Gs i) (val s) hs acc
  · have hnp := Tie.PrecompFull.newPrecompPoint_eq (K := K) 8 (by decide) (by decide) (Gs i)
    rw [if_neg hi, show ((8 : Int)) = ((8 : Nat) : Int) from rfl, Int.toNat_natCast, hnp]
    simp only [Int.toNat_natCast]
    exact goScalarMul_built 8 (Or.inl rfl) (Gs i) (val s) hs acc

/-- **The translated commitment path computes `Σ vᵢ • Gᵢ`.** -/
theorem commit_translated (Gs : Nat → G) (val : K → Nat) (hval0 : ∀ s : K, s = 0 → val s = 0)
    (scalars : List K) (hs : ∀ s ∈ scalars, val s < 2 ^ 255) :
    Gen.PrecompFull.msm (goTableMul Gs val) scalars
      = ((List.zipIdx scalars).map fun e => val e.1 • Gs e.2).sum := by
  rw [Tie.PrecompFull.msm_eq]
  have key : ∀ (l : List (K × Nat)) (acc : G), (∀ e ∈ l, val e.1 < 2 ^ 255) →
      l.foldl (fun (acc : G) (e : K × Nat) => if e.1 = 0 then acc else goTableMul Gs val (e.2 : Int) e.1 acc) acc
        = acc + (l.map fun e => val e.1 • Gs e.2).sum := by
    intro l
    induction l with
    | nil => intro acc _; simp
    | cons e es ih =>
      intro acc h
      rw [List.foldl_cons, ih _ (fun x hx => h x (List.mem_cons_of_mem _ hx))]
      simp only [List.map_cons, List.sum_cons]
      by_cases h0 : e.1 = 0
      · rw [if_pos h0, hval0 _ h0, zero_smul, zero_add]
      · rw [if_neg h0, goTableMul_spec Gs val e.2 e.1 (h e (List.mem_cons_self ..)), add_assoc]
  rw [key _ 0 (by
    intro e he
    obtain ⟨_, _, h3⟩ := List.mem_zipIdx he
    rw [h3]
    exact hs _ (List.getElem_mem _)), zero_add]

end GoIpa.C05
