/-
  C08 — the order of the Banderwagon group, proved without point counting.

  For a finite field `F` and a twisted Edwards curve whose parameters `a`, `d`, `−d` **and** `−a`
  are non-squares:

  * `card_sqX_le` — exactly the involution argument: `x ↦ (a x)⁻¹` sends an `x ≠ 0` with
    `1 − a x²` a square to one with `1 − a x²` a non-square (otherwise `−a` would be a square), so
    at most `(|F|+1)/2` abscissae pass the decoder's subgroup test;
  * `card_sub_le` — each abscissa carries at most two subgroup points, hence `|Sub| ≤ |F| + 1`
    and `2·|Banderwagon| ≤ |F| + 1`;
  * `no_two_torsion` — the quotient `Banderwagon = Sub ⧸ {(0,1),(0,−1)}` has no element of order 2
    (the doubling formula: `2P ∈ {(0,±1)}` forces `x = 0`);
  * `exponent_of_generator` — if some non-zero element is killed by a prime `r` with
    `|F| + 1 < 6 r`, then `|Banderwagon| = r` (it is `r` or `2r` by Lagrange and the bound, and
    `2r` is excluded by Cauchy's theorem and `no_two_torsion`) and **every** element is killed by `r`.

  `C08Concrete` instantiates this at Bandersnatch: the hypothesis "`r • generator = 0`" is a kernel
  computation with the model's own double-and-add on `Fp`, so the `Fr`-module structure of the
  Banderwagon group, over which C01–C05 and C09 are proved, is a theorem and no longer an assumption.
-/
import Mathlib.GroupTheory.Perm.Cycle.Type
import Mathlib.GroupTheory.OrderOfElement
import Mathlib.GroupTheory.Coset.Card
import Mathlib.Algebra.Order.BigOperators.Group.Finset
import GoIpa.Props.C08Group
namespace GoIpa.C08
open GoIpa

variable {F : Type} [Field F]

/-! ### at most `(|F|+1)/2` abscissae pass the subgroup test -/

theorem a_ne_zero (c : Curve F) (ha : ¬IsSquare c.a) : c.a ≠ 0 := by
  intro h; apply ha; rw [h]; exact ⟨0, by ring⟩

theorem u_ne_zero (c : Curve F) (ha : ¬IsSquare c.a) (x : F) : 1 - c.a * (x * x) ≠ 0 := by
  intro h
  have hx : x ≠ 0 := by
    intro h0; rw [h0] at h; simp at h
  apply ha
  exact ⟨x⁻¹, by field_simp; linear_combination -h⟩

/-- the involution `x ↦ (a x)⁻¹` exchanges "`1 − a x²` square" and "non-square" -/
theorem flip_character (c : Curve F) (ha : ¬IsSquare c.a) (hna : ¬IsSquare (-c.a)) (x : F) (hx : x ≠ 0)
    (hs : IsSquare (1 - c.a * (x * x))) :
    ¬IsSquare (1 - c.a * ((c.a * x)⁻¹ * (c.a * x)⁻¹)) := by
  rintro ⟨t, ht⟩
  obtain ⟨s, hs⟩ := hs
  have ha0 := a_ne_zero c ha
  have hs0 : s ≠ 0 := by
    intro h0; rw [h0, mul_zero] at hs; exact u_ne_zero c ha x hs
  apply hna
  refine ⟨t * (c.a * x) * s⁻¹, ?_⟩
  have hax : c.a * x ≠ 0 := mul_ne_zero ha0 hx
  have e : (1 - c.a * ((c.a * x)⁻¹ * (c.a * x)⁻¹)) * (c.a * x) ^ 2 = -c.a * (1 - c.a * (x * x)) := by
    field_simp; ring
  rw [ht, hs] at e
  symm
  calc t * (c.a * x) * s⁻¹ * (t * (c.a * x) * s⁻¹) = (t * t * (c.a * x) ^ 2) * (s⁻¹ * s⁻¹) := by ring
    _ = -c.a * (s * s) * (s⁻¹ * s⁻¹) := by rw [e]
    _ = -c.a := by field_simp

section Count
variable [Fintype F]

open Classical in
/-- the abscissae that pass the decoder's subgroup test -/
noncomputable def sqX (c : Curve F) : Finset F := Finset.univ.filter fun x => IsSquare (1 - c.a * (x * x))

open Classical in
theorem card_sqX_le (c : Curve F) (ha : ¬IsSquare c.a) (hna : ¬IsSquare (-c.a)) :
    2 * (sqX c).card ≤ Fintype.card F + 1 := by
  let S0 : Finset F := (sqX c).erase 0
  let T : Finset F := Finset.univ.filter fun x => x ≠ 0 ∧ ¬IsSquare (1 - c.a * (x * x))
  have h0 : (0 : F) ∈ sqX c := by
    simp only [sqX, Finset.mem_filter, Finset.mem_univ, true_and]
    exact ⟨1, by ring⟩
  have hS : (sqX c).card = S0.card + 1 := (Finset.card_erase_add_one h0).symm
  have ha0 := a_ne_zero c ha
  have hle : S0.card ≤ T.card := by
    apply Finset.card_le_card_of_injOn (fun x => (c.a * x)⁻¹)
    · intro x hx
      have hx' : x ≠ 0 ∧ IsSquare (1 - c.a * (x * x)) := by
        obtain ⟨hne, hmem⟩ := Finset.mem_erase.mp hx
        exact ⟨hne, by simpa [sqX] using hmem⟩
      show (c.a * x)⁻¹ ∈ T
      simp only [T, Finset.mem_filter, Finset.mem_univ, true_and]
      exact ⟨inv_ne_zero (mul_ne_zero ha0 hx'.1), flip_character c ha hna x hx'.1 hx'.2⟩
    · intro x _ y _ h
      have h' : c.a * x = c.a * y := inv_injective h
      exact mul_left_cancel₀ ha0 h'
  have hdisj : Disjoint S0 T := by
    rw [Finset.disjoint_left]
    intro x hx hT
    have hx' : x ≠ 0 ∧ IsSquare (1 - c.a * (x * x)) := by
      obtain ⟨hne, hmem⟩ := Finset.mem_erase.mp hx
      exact ⟨hne, by simpa [sqX] using hmem⟩
    have hT' : x ≠ 0 ∧ ¬IsSquare (1 - c.a * (x * x)) := by simpa [T] using hT
    exact hT'.2 hx'.2
  have hsub : S0 ∪ T ⊆ (Finset.univ : Finset F).erase 0 := by
    intro x hx
    rw [Finset.mem_union] at hx
    rw [Finset.mem_erase]
    refine ⟨?_, Finset.mem_univ _⟩
    rcases hx with hx | hx
    · exact (Finset.mem_erase.mp hx).1
    · have hT' : x ≠ 0 ∧ ¬IsSquare (1 - c.a * (x * x)) := by simpa [T] using hx
      exact hT'.1
  have hcard := Finset.card_le_card hsub
  rw [Finset.card_union_of_disjoint hdisj, Finset.card_erase_of_mem (Finset.mem_univ _), Finset.card_univ] at hcard
  have hpos : 0 < Fintype.card F := Fintype.card_pos
  omega

/-! ### at most two subgroup points per abscissa -/

/-- `Aff F` is `F × F` -/
def affEquiv : Aff F ≃ F × F where
  toFun p := (p.x, p.y)
  invFun q := ⟨q.1, q.2⟩
  left_inv p := by cases p; rfl
  right_inv q := by cases q; rfl

noncomputable instance : Fintype (Aff F) := Fintype.ofEquiv _ affEquiv.symm

open Classical in
noncomputable instance (c : Curve F) : Fintype (Sub c) := Subtype.fintype _

variable (c : Curve F) [hc : Fact (NonSq c)]

omit [Fintype F] in
/-- two subgroup points with the same abscissa have equal or opposite ordinates -/
theorem same_x (p q : Sub c) (h : p.1.x = q.1.x) : q = p ∨ q = -(p + Sub.two c) := by
  have e1 := u_eq c p.1 p.2.on
  have e2 := u_eq c q.1 q.2.on
  rw [← h] at e2
  have hv := v_ne_zero c hc.out p.1.x
  have hy : q.1.y * q.1.y = p.1.y * p.1.y := by
    apply mul_right_cancel₀ hv
    rw [← e1, ← e2]
  have hfac : (q.1.y - p.1.y) * (q.1.y + p.1.y) = 0 := by linear_combination hy
  rcases mul_eq_zero.mp hfac with h1 | h1
  · left
    apply Subtype.ext
    apply aff_ext
    · exact h.symm
    · linear_combination h1
  · right
    apply Subtype.ext
    rw [Sub.neg_val, Sub.add_two]
    apply aff_ext
    · simp [Aff.neg, Aff.flip, h]
    · simp only [Aff.neg, Aff.flip]; linear_combination h1

open Classical in
theorem card_sub_le (hna : ¬IsSquare (-c.a)) : Fintype.card (Sub c) ≤ Fintype.card F + 1 := by
  have himg : (Finset.univ : Finset (Sub c)).image (fun p => p.1.x) ⊆ sqX c := by
    intro x hx
    obtain ⟨p, _, rfl⟩ := Finset.mem_image.mp hx
    simp only [sqX, Finset.mem_filter, Finset.mem_univ, true_and]
    exact p.2.sq
  have hfib : ∀ b ∈ (Finset.univ : Finset (Sub c)).image (fun p => p.1.x),
      ((Finset.univ : Finset (Sub c)).filter fun p => p.1.x = b).card ≤ 2 := by
    intro b hb
    obtain ⟨p, _, rfl⟩ := Finset.mem_image.mp hb
    have : ((Finset.univ : Finset (Sub c)).filter fun q => q.1.x = p.1.x) ⊆ {p, -(p + Sub.two c)} := by
      intro q hq
      have hq' : q.1.x = p.1.x := by simpa using hq
      rcases same_x c p q hq'.symm with h | h
      · rw [h]; exact Finset.mem_insert_self _ _
      · rw [h]; exact Finset.mem_insert_of_mem (Finset.mem_singleton_self _)
    exact (Finset.card_le_card this).trans Finset.card_le_two
  have h1 := Finset.card_le_mul_card_image (Finset.univ : Finset (Sub c)) 2 hfib
  have h2 := Finset.card_le_card himg
  have h3 := card_sqX_le c hc.out.a hna
  rw [Finset.card_univ] at h1
  omega

/-! ### the quotient has no element of order two -/

omit [Fintype F] hc in
theorem two_ne_zero_sub (h2 : (2 : F) ≠ 0) : Sub.two c ≠ 0 := by
  intro h
  have hy : (Sub.two c).1.y = (0 : Sub c).1.y := by rw [h]
  have : (-1 : F) = 1 := by simpa [Sub.two, Aff.flip, Aff.zero, Sub.zero_val] using hy
  apply h2
  linear_combination -this

omit [Fintype F] in
/-- **No 2-torsion**: `g + g = 0` in the Banderwagon group only for `g = 0`. -/
theorem no_two_torsion (h2 : (2 : F) ≠ 0) (g : Banderwagon c) (hg : g + g = 0) : g = 0 := by
  induction g using QuotientAddGroup.induction_on with
  | H p =>
    have hmem : p + p ∈ Sub.T2 c := by
      rw [← QuotientAddGroup.eq_zero_iff]
      exact hg
    have hx0 : (p + p).1.x = 0 := by
      rcases (Sub.mem_T2 c _).mp hmem with h | h
      · rw [h]; rfl
      · rw [h]; simp [Sub.two, Aff.flip, Aff.zero]
    obtain ⟨h1, _⟩ := sub_complete hc.out p.2 p.2
    rw [Sub.add_val] at hx0
    simp only [Aff.add] at hx0
    unfold kappa at h1
    have hnum : p.1.x * p.1.y + p.1.y * p.1.x = 0 := by
      rcases mul_eq_zero.mp hx0 with h | h
      · exact h
      · exact absurd h (inv_ne_zero h1)
    have hy := y_ne_zero c hc.out.a p.1 p.2.on
    have hx : p.1.x = 0 := by
      have : (2 * p.1.y) * p.1.x = 0 := by linear_combination hnum
      rcases mul_eq_zero.mp this with h | h
      · exact absurd h (mul_ne_zero h2 hy)
      · exact h
    have hon := p.2.on
    unfold Aff.onCurve at hon
    rw [hx] at hon
    have hfac : (p.1.y - 1) * (p.1.y + 1) = 0 := by linear_combination hon
    rw [QuotientAddGroup.eq_zero_iff, Sub.mem_T2]
    rcases mul_eq_zero.mp hfac with h | h
    · left
      apply Subtype.ext; apply aff_ext
      · exact hx
      · show p.1.y = 1; linear_combination h
    · right
      apply Subtype.ext; apply aff_ext
      · simp [Sub.two, Aff.flip, Aff.zero, hx]
      · simp only [Sub.two, Aff.flip, Aff.zero]; linear_combination h

/-! ### the order -/

noncomputable instance : Fintype (Banderwagon c) := by
  classical exact Fintype.ofFinite _

theorem card_T2 (h2 : (2 : F) ≠ 0) : 2 ≤ Nat.card (Sub.T2 c) := by
  have : Nontrivial (Sub.T2 c) :=
    ⟨⟨⟨Sub.two c, Or.inr rfl⟩, ⟨0, Or.inl rfl⟩, fun h => two_ne_zero_sub c h2 (congrArg Subtype.val h)⟩⟩
  exact Finite.one_lt_card

theorem two_mul_card_le (h2 : (2 : F) ≠ 0) (hna : ¬IsSquare (-c.a)) :
    2 * Nat.card (Banderwagon c) ≤ Fintype.card F + 1 := by
  have h := AddSubgroup.card_eq_card_quotient_mul_card_addSubgroup (Sub.T2 c)
  have h1 := card_T2 c h2
  have h3 := card_sub_le c hna
  rw [← Nat.card_eq_fintype_card] at h3
  calc 2 * Nat.card (Banderwagon c) = Nat.card (Banderwagon c) * 2 := by ring
    _ ≤ Nat.card (Banderwagon c) * Nat.card (Sub.T2 c) := Nat.mul_le_mul_left _ h1
    _ = Nat.card (Sub c) := h.symm
    _ ≤ _ := h3

/-- **The order of the Banderwagon group.** If a non-zero element is killed by a prime `r` with
`|F| + 1 < 6 r`, the group has exactly `r` elements. -/
theorem card_of_generator (h2 : (2 : F) ≠ 0) (hna : ¬IsSquare (-c.a)) (r : ℕ) (hr : r.Prime)
    (hsize : Fintype.card F + 1 < 6 * r) (g : Banderwagon c) (hg0 : g ≠ 0) (hgr : r • g = 0) :
    Nat.card (Banderwagon c) = r := by
  have hord : addOrderOf g = r := by
    have := Fact.mk hr
    exact addOrderOf_eq_prime hgr hg0
  have hdvd : r ∣ Nat.card (Banderwagon c) := hord ▸ addOrderOf_dvd_natCard g
  obtain ⟨k, hk⟩ := hdvd
  have hle := two_mul_card_le c h2 hna
  have hpos : 0 < Nat.card (Banderwagon c) := Nat.card_pos
  have hk3 : k < 3 := by
    by_contra hk3
    have : 3 ≤ k := by omega
    have : r * 3 ≤ r * k := Nat.mul_le_mul_left _ this
    omega
  have hk0 : k ≠ 0 := by
    intro h0; rw [h0, mul_zero] at hk; omega
  have hk12 : k = 1 ∨ k = 2 := by omega
  rcases hk12 with rfl | rfl
  · omega
  · exfalso
    have h2dvd : 2 ∣ Nat.card (Banderwagon c) := ⟨r, by rw [hk]; ring⟩
    have : Fact (Nat.Prime 2) := ⟨Nat.prime_two⟩
    obtain ⟨x, hx⟩ := exists_prime_addOrderOf_dvd_card' 2 h2dvd
    have hxx : x + x = 0 := by
      have := addOrderOf_nsmul_eq_zero x
      rw [hx, two_nsmul] at this
      exact this
    have hx0 := no_two_torsion c h2 x hxx
    rw [hx0, addOrderOf_zero] at hx
    omega

/-- **Every element of the Banderwagon group is killed by `r`.** -/
theorem exponent_of_generator (h2 : (2 : F) ≠ 0) (hna : ¬IsSquare (-c.a)) (r : ℕ) (hr : r.Prime)
    (hsize : Fintype.card F + 1 < 6 * r) (g : Banderwagon c) (hg0 : g ≠ 0) (hgr : r • g = 0) :
    ∀ x : Banderwagon c, r • x = 0 := by
  intro x
  rw [← card_of_generator c h2 hna r hr hsize g hg0 hgr]
  exact card_nsmul_eq_zero'

end Count

end GoIpa.C08
