/-
  C11 — map-to-scalar-field is a well-defined function on group elements, and the batch
  variant returns exactly the same values.
-/
import GoIpa.Props.C07
import GoIpa.Lemmas.BatchInvert
import GoIpa.Model.Batch
namespace GoIpa.C11
open GoIpa

variable {F : Type} [Field F] [DecidableEq F]

/-- **Representation independence.** Rescaling projectively or passing to `(-x,-y)` does not
change `x/y`. -/
theorem map_scale_invariant (p : Proj F) (l : F) (hl : l ≠ 0) :
    (⟨l * p.X, l * p.Y, l * p.Z⟩ : Proj F).mapToBase = p.mapToBase := by
  unfold Proj.mapToBase
  by_cases hy : p.Y = 0
  · simp [hy]
  · field_simp

theorem map_flip_invariant (p : Proj F) : (⟨-p.X, -p.Y, p.Z⟩ : Proj F).mapToBase = p.mapToBase := by
  unfold Proj.mapToBase
  by_cases hy : p.Y = 0
  · simp [hy]
  · field_simp

/-- **Equal value iff equal element** (in the base field, before the reduction mod `r`). -/
theorem map_iff_class (c : Curve F) (ha : ¬IsSquare c.a) (hd : ¬IsSquare c.d) (p q : Proj F)
    (hp : C07.Valid c p) (hq : C07.Valid c q) : p.mapToBase = q.mapToBase ↔ C07.ClassEq p q :=
  C07.map_iff_class c ha hd p q hp hq

/-- elements that are not `Equal` have different `x/y` -/
theorem map_ne_of_not_equal (c : Curve F) (ha : ¬IsSquare c.a) (hd : ¬IsSquare c.d) (p q : Proj F)
    (hp : C07.Valid c p) (hq : C07.Valid c q) (h : Proj.equalE p q = false) : p.mapToBase ≠ q.mapToBase := by
  intro e
  have := (C07.equal_iff_class c ha hd p q hp hq).mpr ((map_iff_class c ha hd p q hp hq).mp e)
  rw [this] at h; cases h

private theorem zipWith_map_inv (ps : List (Proj F)) (g : Proj F → F) (f : Proj F → F → F) :
    List.zipWith f ps ((ps.map g).map (·⁻¹)) = ps.map fun p => f p (g p)⁻¹ := by
  induction ps with
  | nil => simp
  | cons p ps ih =>
    simp only [List.map_cons, List.zipWith_cons_cons]
    rw [ih]

/-- **The batch variant returns exactly the same values**, position by position, for lists of
any length, with duplicates and with `Y = 0` entries (mapped like the single variant, `0⁻¹ = 0`). -/
theorem batchMap_eq_map (ps : List (Proj F)) : batchMapToBase ps = ps.map Proj.mapToBase := by
  unfold batchMapToBase
  rw [batchInvert_eq_map, zipWith_map_inv]
  rfl

/-! concrete instance (non-vacuity) over ℚ -/
example : batchMapToBase ([⟨1, 2, 1⟩, ⟨3, 0, 1⟩, ⟨1, 2, 1⟩] : List (Proj ℚ)) = [1/2, 0, 1/2] := by
  rw [batchMap_eq_map]; norm_num [Proj.mapToBase]

end GoIpa.C11
