/-
  C12 — concurrent use of a shared configuration (PARTIAL: protocol level).
  Small-step models of the fan-out / fan-in skeletons used by go-ipa
  (`partitionScalars`: buffered channel of capacity `nbTasks`, one send per worker, then
  close + range;  `groupPolynomialsByEvaluationPoint`: unbuffered channel, `w` senders and `w`
  receives;  `MultiExp`: buffered `chDone`), proved free of deadlock and lossless for every
  interleaving, and order-independence of every merge.  Data races and real scheduling are
  runtime facts: sampled with the race detector by the correspondence run, not proved.
-/
import Mathlib.Tactic.Abel
import Mathlib.Algebra.BigOperators.Group.List.Basic
import GoIpa.Props.C20
namespace GoIpa.C12
open GoIpa

/-- fan-in through one channel: `toSend` workers still have to send (each sends once),
`queue` messages are buffered, `received` were taken by the collector -/
structure Fan where
  toSend : Nat
  queue : Nat
  received : Nat
deriving DecidableEq, Repr

/-- steps of a channel of capacity `cap` whose collector takes exactly `k` messages
(`cap = 0`: rendezvous) -/
inductive FanStep (cap k : Nat) : Fan → Fan → Prop
  | send {s} (h : 0 < s.toSend) (hq : s.queue < cap) :
      FanStep cap k s ⟨s.toSend - 1, s.queue + 1, s.received⟩
  | recv {s} (h : 0 < s.queue) (hr : s.received < k) :
      FanStep cap k s ⟨s.toSend, s.queue - 1, s.received + 1⟩
  | sync {s} (h : 0 < s.toSend) (hc : cap = 0) (hr : s.received < k) :
      FanStep cap k s ⟨s.toSend - 1, s.queue, s.received + 1⟩

inductive FanReach (cap k : Nat) : Fan → Prop
  | init : FanReach cap k ⟨k, 0, 0⟩
  | step {s s'} : FanReach cap k s → FanStep cap k s s' → FanReach cap k s'

/-- conservation: every message is with a sender, in the buffer, or delivered -/
theorem fan_conservation (cap k : Nat) (s : Fan) (h : FanReach cap k s) :
    s.toSend + s.queue + s.received = k ∧ s.queue ≤ cap := by
  induction h with
  | init => simp
  | step _ st ih =>
    cases st with
    | send h hq => simp only; omega
    | recv h hr => simp only; omega
    | sync h hc hr => simp only; omega

/-- **No deadlock, nothing lost**: as long as the collector has not received all `k` results,
some step is enabled — for a buffered channel of any capacity ≥ 1 and for the unbuffered one. -/
theorem fan_progress (cap k : Nat) (s : Fan) (h : FanReach cap k s) (hr : s.received < k) :
    ∃ s', FanStep cap k s s' := by
  obtain ⟨hc, _⟩ := fan_conservation cap k s h
  by_cases hq : 0 < s.queue
  · exact ⟨_, FanStep.recv hq hr⟩
  · have hs : 0 < s.toSend := by omega
    by_cases hcap : cap = 0
    · exact ⟨_, FanStep.sync hs hcap hr⟩
    · exact ⟨_, FanStep.send hs (by omega)⟩

/-- **Senders never block** when the capacity is at least the number of senders — the situation
of `partitionScalars`, whose channel has capacity `nbTasks` while `Execute` starts at most
`min(n, nbTasks)` workers (C20.ranges_length). -/
theorem senders_never_block (cap k : Nat) (hcap : k ≤ cap) (s : Fan) (h : FanReach cap k s)
    (hs : 0 < s.toSend) : s.queue < cap := by
  obtain ⟨hc, _⟩ := fan_conservation cap k s h
  omega

theorem partition_channel_capacity (n nbTasks : Nat) (h : 1 ≤ nbTasks) :
    (ranges n nbTasks).length ≤ nbTasks := by
  rw [C20.ranges_length n nbTasks h]; omega

/-- every execution is finite: a measure strictly decreases with each step -/
theorem fan_measure (cap k : Nat) (s s' : Fan) (st : FanStep cap k s s') :
    2 * s'.toSend + s'.queue < 2 * s.toSend + s.queue := by
  cases st with
  | send h hq => simp only; omega
  | recv h hr => simp only; omega
  | sync h hc hr => simp only; omega

/-- in a terminal state the collector holds all `k` results -/
theorem fan_terminal (cap k : Nat) (s : Fan) (h : FanReach cap k s) (hterm : ∀ s', ¬FanStep cap k s s') :
    s.received = k := by
  by_contra hne
  obtain ⟨hc, _⟩ := fan_conservation cap k s h
  obtain ⟨s', hs'⟩ := fan_progress cap k s h (by omega)
  exact hterm s' hs'

/-- **Order independence of an additive merge**: adding the partial results in any arrival
order gives the same element. -/
theorem merge_order_independent {G : Type} [AddCommGroup G] (init : G) (parts : Nat → G) (o1 o2 : List Nat)
    (hp : o1.Perm o2) : o1.foldl (fun acc i => acc + parts i) init = o2.foldl (fun acc i => acc + parts i) init := by
  have key : ∀ (o : List Nat) (z : G), o.foldl (fun acc i => acc + parts i) z = z + (o.map parts).sum := by
    intro o
    induction o with
    | nil => intro z; simp
    | cons i o ih => intro z; simp [ih, add_assoc]
  rw [key, key, (hp.map parts).sum_eq]

end GoIpa.C12
