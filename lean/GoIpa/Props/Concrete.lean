/-
  The generic theorems at the model's own scalar field.  `R` and `P` are prime (Pratt
  certificates, `Lemmas/Primes.lean`), so `Fr = Zp R` and `Fp = Zp P` — the types the driver
  executes — are fields with exactly the executable operations, the 256 domain points are
  distinct in `Fr`, and the scalar side of the real configuration satisfies `CfgOk`.  The group
  stays abstract (any module over `Fr`): that Banderwagon is one is the G-assumption.
-/
import GoIpa.Lemmas.Primes
import Mathlib.NumberTheory.LegendreSymbol.Basic
import GoIpa.Props.C01Complete
import GoIpa.Props.C02Mp
import GoIpa.Model.Config
namespace GoIpa.Concrete
open GoIpa GoIpa.Zp GoIpa.Mp

instance : Fact (Nat.Prime R) := ⟨Primes.R_prime⟩
instance : Fact (Nat.Prime P) := ⟨Primes.P_prime⟩
instance : Fact (2 < R) := ⟨by decide⟩
instance : Fact (2 < P) := ⟨by decide⟩

/-- the executable scalar field and base field are fields -/
example : Field Fr := inferInstance
example : Field Fp := inferInstance

theorem natCast_val (i : Nat) (hi : i < R) : ((i : Nat) : Fr).val = i := by
  show (Zp.ofNat R i).val = i
  unfold Zp.ofNat; simp only; exact Nat.mod_eq_of_lt hi

theorem natCast_of_val (z : Fr) : ((z.val : Nat) : Fr) = z := by
  have h := natCast_val z.val z.lt
  cases z with
  | mk v lt =>
    show Zp.ofNat R v = _
    unfold Zp.ofNat
    simp only [Nat.mod_eq_of_lt lt]

/-- **The 256 evaluation-domain points are pairwise distinct in the scalar field.** -/
theorem domain_injective : Set.InjOn (C18.dom (F := Fr)) (Finset.range 256) := by
  intro i hi j hj h
  have hi' : i < 256 := by simpa using hi
  have hj' : j < 256 := by simpa using hj
  have hR : 256 < R := by decide
  have := congrArg Zp.val h
  unfold C18.dom at this
  rw [natCast_val i (by omega), natCast_val j (by omega)] at this
  exact this

variable {G : Type} [AddCommGroup G] [Module Fr G]

/-- the scalar side of the real configuration, over any `Fr`-module -/
def realCfg (srs : List G) (Q : G) : IpaCfg Fr G where
  srs := srs
  Q := Q
  weights := Weights.new 256
  N := 256
  rounds := 8
  inDomain := frInDomain 256

theorem realCfg_ok (srs : List G) (h : srs.length = 256) (Q : G) : CfgOk (realCfg srs Q) where
  N_pos := by show 1 ≤ 256; decide
  srs_len := h
  pow := by show 256 = 2 ^ 8; decide
  weights := rfl
  inj := domain_injective
  dom_some := by
    intro z i hz
    unfold realCfg frInDomain at hz
    simp only at hz
    by_cases hle : z.val ≤ 256 - 1
    · rw [if_pos hle] at hz
      have : z.val = i := by simpa using hz
      subst this
      exact ⟨by show z.val < 256; omega, (natCast_of_val z).symm⟩
    · rw [if_neg hle] at hz; simp at hz
  dom_none := by
    intro z hz i hi heq
    unfold realCfg frInDomain at hz
    simp only at hz
    by_cases hle : z.val ≤ 256 - 1
    · rw [if_pos hle] at hz; simp at hz
    · have hR : 256 < R := by decide
      have := congrArg Zp.val heq
      rw [natCast_val i (by show i < R; have : i < 256 := hi; omega)] at this
      have hi' : i < 256 := hi
      omega

/-- **Multiproof completeness at the real scalar field and configuration shape**: the
hypotheses of `C01.multiproof_complete` about the field and the configuration are theorems. -/
theorem multiproof_complete_real (enc : Enc Fr G) (hrefl : ∀ p : G, enc.eqG p p = true)
    (srs : List G) (hsrs : srs.length = 256) (Q : G) (tr : Tr) (fs : List (List Fr)) (zs : List Nat)
    (hon : C01.Honest (realCfg srs Q) fs zs) (w : Nat) (hw : 1 ≤ w) (order : List Nat)
    (hperm : order.Perm (List.range w)) :
    let cfg := realCfg srs Q
    let Cs := fs.map (msm cfg.srs)
    let s := proverState enc cfg tr Cs fs zs w order
    (∀ i, i < fs.length → s.t ≠ ((zs.getD i 0 : Nat) : Fr)) →
    (∀ x ∈ C04.honestChallenges enc cfg s.tr (s.E - s.D) (List.zipWith (· - ·) s.h s.g) s.t, x ≠ 0) →
    ∃ proof, (mpProve enc cfg tr Cs fs zs w order).1 = some proof ∧
      mpVerify enc cfg tr proof Cs (honestYs fs zs) zs
        = (.ok true, (mpProve enc cfg tr Cs fs zs w order).2) :=
  C01.multiproof_complete enc (realCfg srs Q) (realCfg_ok srs hsrs Q) hrefl tr fs zs hon w hw order hperm

/-- non-vacuity: an honest statement exists for the real configuration shape -/
example (srs : List G) (Q : G) : C01.Honest (realCfg srs Q) [List.replicate 256 (1 : Fr)] [7] where
  len := rfl
  nonempty := by decide
  polys := by
    intro f hf
    rw [List.mem_singleton] at hf
    subst hf
    show (List.replicate 256 (1 : Fr)).length = 256
    exact List.length_replicate
  points := by
    intro z hz
    rw [List.mem_singleton] at hz
    subst hz
    show 7 < 256
    decide

/-- Euler's criterion evaluated with the model's power function -/
theorem not_square_of_pow (x : Fp) (h : (x ^ (P / 2)).val = P - 1) : ¬ IsSquare (Zp.toZ x) := by
  have hx0 : Zp.toZ x ≠ 0 := by
    intro h0
    have := Zp.toZ_pow x (P / 2)
    rw [h0, zero_pow (by decide)] at this
    have hv := Zp.val_eq_of_toZ_eq_natCast (x ^ (P / 2)) 0 (by decide) (by rw [this]; simp)
    rw [h] at hv
    exact absurd hv (by decide)
  rw [ZMod.euler_criterion P hx0]
  intro h1
  have := Zp.toZ_pow x (P / 2)
  rw [h1] at this
  have hv := Zp.val_eq_of_toZ_eq_natCast (x ^ (P / 2)) 1 (by decide) (by rw [this]; simp)
  rw [h] at hv
  exact absurd hv (by decide)

/-- **The curve coefficients `a` and `d` are non-squares in the base field** (so `a·d` is a square and
the twisted Edwards model is the one the Banderwagon construction assumes). -/
theorem a_not_square : ¬ IsSquare (Zp.toZ bandersnatch.a) := not_square_of_pow _ (by decide +kernel)
theorem d_not_square : ¬ IsSquare (Zp.toZ bandersnatch.d) := not_square_of_pow _ (by decide +kernel)

end GoIpa.Concrete
