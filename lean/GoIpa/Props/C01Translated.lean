/-
  C01 on the translated code.

  `CreateMultiProof` and `CheckMultiProof`, translated statement by statement from the current
  source of `multiproof.go` / `ipa/*.go` (`Gen/Loops.lean`, regenerated on every run), satisfy
  completeness: for every honest statement the translated prover returns a proof and the
  translated verifier accepts it, both ending in the same transcript state — obtained by rewriting
  both with their tie theorems (`Tie.ProtocolMp.createMultiProof_eq`, `Tie.Protocol.checkMultiProof_eq`)
  and applying `C01.multiproof_complete`.

  Assumptions (parameters of the translation): `MultiScalar` and `Commit` return `Σ sᵢ•Pᵢ`
  (C09/C05), `BatchNormalize` keeps every commitment (C19), `groupPolynomialsByEvaluationPoint`
  returns the model's table for some worker count `w ≥ 1` and arrival order (its protocol model:
  `Grouping.group_spec`), and the Fiat–Shamir challenges avoid the exceptional values.
-/
import GoIpa.Tie.ProtocolMp
import GoIpa.Tie.Grouping
import GoIpa.Props.C01Complete
namespace GoIpa.C01
open GoIpa GoIpa.Mp GoIpa.Grouping GoIpa.Tie.Protocol GoIpa.Tie.ProtocolMp

variable {K G : Type} [Field K] [DecidableEq K] [AddCommGroup G] [Module K G]
variable (enc : Enc K G)

theorem tableOk_of_wf (groups : Groups K) (h : WF 256 groups) : TableOk groups := ⟨h.1, h.2⟩

/-- **Multiproof completeness of the translated Go code.** -/
theorem multiproof_complete_translated (cfg : IpaCfg K G) (hc : CfgOk cfg) (hN : cfg.N = 256) (hr : cfg.rounds = 8)
    (hrefl : ∀ p : G, enc.eqG p p = true)
    (ms : List G → List K → Option G) (hms : MsOk ms)
    (normalize : List G → Option (List G)) (commitFn : List K → G)
    (groupFn : List (List K) → List K → List Int → List (List K))
    (tr : Tr) (fs : List (List K)) (zs : List Nat) (hon : Honest cfg fs zs)
    (w : Nat) (hw : 1 ≤ w) (order : List Nat) (hperm : order.Perm (List.range w))
    (hnorm : normalize (fs.map (msm cfg.srs)) = some (fs.map (msm cfg.srs))) (hcommit : ∀ v, commitFn v = msm cfg.srs v)
    (hgroup : ∀ pows, groupFn fs pows (zs.map (fun (z : Nat) => (z : Int))) = tableOf (groupPolys 256 fs pows zs w order)) :
    let Cs := fs.map (msm cfg.srs)
    let zsI := zs.map (fun (z : Nat) => (z : Int))
    let s := proverState enc cfg tr Cs fs zs w order
    (∀ i, i < fs.length → s.t ≠ ((zs.getD i 0 : Nat) : K)) →
    (∀ x ∈ C04.honestChallenges enc cfg s.tr (s.E - s.D) (List.zipWith (· - ·) s.h s.g) s.t, x ≠ 0) →
    ∃ (p : (List G × List G × K) × G) (tr' : Tr),
      Gen.Loops.createMultiProof enc (bVector cfg) ms normalize commitFn groupFn cfg.weights.bary cfg.weights.invDom
        tr cfg.Q cfg.srs (cfg.rounds : Int) Cs fs zsI = some (p, tr') ∧
      Gen.Loops.checkMultiProof enc (bVector cfg) ms tr cfg.Q cfg.srs (cfg.rounds : Int)
        p.1.1 p.1.2.1 p.1.2.2 p.2 Cs (honestYs fs zs) zsI = some (true, tr') := by
  intro Cs zsI s ht hch
  obtain ⟨proof, hp, hv⟩ := multiproof_complete enc cfg hc hrefl tr fs zs hon w hw order hperm ht hch
  have hbv : ∀ z, (bVector cfg z).length = 256 := fun z => by rw [bVector_length cfg hc z, hN]
  have hsrs : cfg.srs.length = 256 := by rw [hc.srs_len, hN]
  have hgood : Good 256 fs zs (List.range fs.length) := by rw [← hN]; exact hon.good
  have hfs : ∀ k, k < fs.length → (fs.getD k []).length = 256 := fun k hk => (hgood k (List.mem_range.mpr hk)).2
  have hl1 : Cs.length = fs.length := by simp [Cs]
  have hcreate := createMultiProof_eq enc cfg hN hr hsrs ms hms hbv normalize commitFn groupFn tr Cs fs zs w order
    hnorm hcommit hfs hl1 (by rw [hl1, hon.len]) (by rw [hl1]; exact hon.nonempty) hgroup
    (fun pows => tableOk_of_wf _ (group_spec 256 fs pows zs hgood w hw order hperm).1)
  refine ⟨((proof.ipa.L, proof.ipa.R, proof.ipa.a), proof.D), (mpProve enc cfg tr Cs fs zs w order).2, ?_, ?_⟩
  · rw [hcreate]
    unfold ofModelMP
    rw [hp]
  · have hcheck := checkMultiProof_eq enc cfg hN hr ms hms (fun z => by rw [hbv z, hsrs]) tr proof Cs (honestYs fs zs) zs
    simp only at hcheck ⊢
    rw [hcheck, hv]
    rfl

/-- **The same with the translated `groupPolynomialsByEvaluationPoint` in place of the parameter**:
for every value `w ≥ 1` of `runtime.NumCPU()` and every order `order` (a permutation of the
workers) in which the goroutines' tables arrive on the channel, the translated prover — now
including its fan-out / fan-in aggregation, `Tie.Grouping.groupPolynomials_eq` — returns a proof
that the translated verifier accepts. What remains a parameter: `MultiScalar`/`Commit` (C09/C05),
`BatchNormalize` (C19), `computeBVector` (C04). -/
theorem multiproof_complete_translated_grouping (cfg : IpaCfg K G) (hc : CfgOk cfg) (hN : cfg.N = 256) (hr : cfg.rounds = 8)
    (hrefl : ∀ p : G, enc.eqG p p = true)
    (ms : List G → List K → Option G) (hms : MsOk ms)
    (normalize : List G → Option (List G)) (commitFn : List K → G)
    (tr : Tr) (fs : List (List K)) (zs : List Nat) (hon : Honest cfg fs zs)
    (w : Nat) (hw : 1 ≤ w) (order : List Nat) (hperm : order.Perm (List.range w))
    (hnorm : normalize (fs.map (msm cfg.srs)) = some (fs.map (msm cfg.srs))) (hcommit : ∀ v, commitFn v = msm cfg.srs v) :
    let Cs := fs.map (msm cfg.srs)
    let zsI := zs.map (fun (z : Nat) => (z : Int))
    let groupFn := Gen.Loops.groupPolynomialsByEvaluationPoint (K := K) (w : Int) (fun k => ((order.getD k.toNat 0 : Nat) : Int))
    let s := proverState enc cfg tr Cs fs zs w order
    (∀ i, i < fs.length → s.t ≠ ((zs.getD i 0 : Nat) : K)) →
    (∀ x ∈ C04.honestChallenges enc cfg s.tr (s.E - s.D) (List.zipWith (· - ·) s.h s.g) s.t, x ≠ 0) →
    ∃ (p : (List G × List G × K) × G) (tr' : Tr),
      Gen.Loops.createMultiProof enc (bVector cfg) ms normalize commitFn groupFn cfg.weights.bary cfg.weights.invDom
        tr cfg.Q cfg.srs (cfg.rounds : Int) Cs fs zsI = some (p, tr') ∧
      Gen.Loops.checkMultiProof enc (bVector cfg) ms tr cfg.Q cfg.srs (cfg.rounds : Int)
        p.1.1 p.1.2.1 p.1.2.2 p.2 Cs (honestYs fs zs) zsI = some (true, tr') := by
  intro Cs zsI groupFn s ht hch
  have hgood : Good 256 fs zs (List.range fs.length) := by rw [← hN]; exact hon.good
  have hlen : order.length = w := by rw [hperm.length_eq, List.length_range]
  exact multiproof_complete_translated enc cfg hc hN hr hrefl ms hms normalize commitFn groupFn tr fs zs hon w hw order hperm
    hnorm hcommit (fun pows => Tie.Grouping.groupPolynomials_eq fs pows zs hgood w hw order hlen) ht hch

end GoIpa.C01
