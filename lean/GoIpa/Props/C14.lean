/-
  C14 — transcript challenges follow the specified hash chain.
  Statements hold for every hash-to-field function and every encoder (`Enc`).
-/
import GoIpa.Model.Transcript
namespace GoIpa.C14
open GoIpa

variable {F G : Type} (enc : Enc F G)

/-- abstraction: the implementation state (running hash + pending buffer) as one stream -/
def abs (t : Tr) : SpecTr := ⟨t.hashed ++ t.buf⟩

theorem abs_new (label : Bytes) : abs (Tr.new label) = SpecTr.new label := by
  simp [abs, Tr.new, SpecTr.new]

/-- one step of the implementation-shaped transcript refines one step of the specification:
same challenge, and the abstraction commutes -/
theorem step_refines (t : Tr) (op : TrOp F G) :
    (t.step enc op).2 = ((abs t).step enc op).2 ∧ abs (t.step enc op).1 = ((abs t).step enc op).1 := by
  cases op <;>
    simp [Tr.step, SpecTr.step, abs, Tr.domainSep, Tr.appendMessage, Tr.appendScalar, Tr.appendPoint,
      SpecTr.domainSep, SpecTr.appendMessage, Tr.challenge, SpecTr.challenge, List.append_assoc]

/-- **Refinement.** For every history, the implementation-shaped transcript (buffer + running
hash, reset after each challenge) yields exactly the challenges of the one-stream
specification. -/
theorem transcript_refines (t : Tr) (ops : List (TrOp F G)) :
    (t.run enc ops).1 = ((abs t).run enc ops).1 := by
  induction ops generalizing t with
  | nil => rfl
  | cons op ops ih =>
    obtain ⟨h1, h2⟩ := step_refines enc t op
    simp only [Tr.run, SpecTr.run]
    rw [ih (t.step enc op).1, h2, h1]

theorem transcript_refines_new (label : Bytes) (ops : List (TrOp F G)) :
    ((Tr.new label).run enc ops).1 = ((SpecTr.new label).run enc ops).1 := by
  rw [transcript_refines, abs_new]

/-- **Shape of a challenge in the specification**: the hash-to-field function applied to the
stream since the last challenge followed by the challenge label; afterwards the stream restarts
with the label and the canonical encoding of the challenge. -/
theorem spec_challenge (t : SpecTr) (l : Bytes) :
    (t.challenge enc l).1 = enc.chal (t.stream ++ l) ∧
    (t.challenge enc l).2.stream = l ++ enc.scBytes (t.challenge enc l).1 := by
  simp [SpecTr.challenge]

/-- the first challenge of a fresh transcript hashes the protocol label, then everything
appended, then the challenge label -/
theorem first_challenge (proto l : Bytes) :
    ((SpecTr.new proto).challenge enc l).1 = enc.chal (proto ++ l) := by
  simp [SpecTr.challenge, SpecTr.new]

/-- points and scalars enter the stream through the encoders (canonical encodings, C07/C16) -/
theorem scalar_absorbed (t : SpecTr) (s : F) (l : Bytes) :
    (t.step enc (.scalar s l)).1.stream = t.stream ++ l ++ enc.scBytes s := by
  simp [SpecTr.step, SpecTr.appendMessage]

theorem point_absorbed (t : SpecTr) (p : G) (l : Bytes) :
    (t.step enc (.point p l)).1.stream = t.stream ++ l ++ enc.ptBytes p := by
  simp [SpecTr.step, SpecTr.appendMessage]

/-- the byte stream absorbed by a challenge-free history -/
def absorbed : List (TrOp F G) → Bytes
  | [] => []
  | .domainSep l :: ops => l ++ absorbed ops
  | .message m l :: ops => l ++ m ++ absorbed ops
  | .scalar s l :: ops => l ++ enc.scBytes s ++ absorbed ops
  | .point p l :: ops => l ++ enc.ptBytes p ++ absorbed ops
  | .challenge _ :: ops => absorbed ops

def challengeFree : List (TrOp F G) → Prop
  | [] => True
  | .challenge _ :: _ => False
  | _ :: ops => challengeFree ops

theorem run_challengeFree (t : SpecTr) (ops : List (TrOp F G)) (h : challengeFree ops) :
    (t.run enc ops).1 = [] ∧ (t.run enc ops).2.stream = t.stream ++ absorbed enc ops := by
  induction ops generalizing t with
  | nil => simp [SpecTr.run, absorbed]
  | cons op ops ih =>
    cases op <;> simp only [challengeFree] at h <;>
      simp [SpecTr.run, SpecTr.step, SpecTr.domainSep, SpecTr.appendMessage, absorbed,
        (ih _ h).1, (ih _ h).2, List.append_assoc]

/-- **Determinism and dependence only on the stream**: two challenge-free histories absorbing the
same bytes under the same protocol label and challenge label give the same challenge. -/
theorem challenge_depends_on_stream (proto l : Bytes) (ops ops' : List (TrOp F G))
    (h : challengeFree ops) (h' : challengeFree ops') (e : absorbed enc ops = absorbed enc ops') :
    ((SpecTr.new proto).run enc (ops ++ [.challenge l])).1 = ((SpecTr.new proto).run enc (ops' ++ [.challenge l])).1 := by
  have key : ∀ (t : SpecTr) (o : List (TrOp F G)), challengeFree o →
      (t.run enc (o ++ [.challenge l])).1 = [enc.chal (t.stream ++ absorbed enc o ++ l)] := by
    intro t o ho
    induction o generalizing t with
    | nil => simp [SpecTr.run, SpecTr.step, SpecTr.challenge, absorbed]
    | cons op o ih =>
      cases op <;> simp only [challengeFree] at ho <;>
        simp [SpecTr.run, SpecTr.step, SpecTr.domainSep, SpecTr.appendMessage, absorbed, ih _ ho, List.append_assoc]
  rw [key _ _ h, key _ _ h', e]

/-- **Binding at the encoding level**: a same-shape change (lengths of label and message kept)
of one appended message changes the absorbed stream. -/
theorem stream_injective_same_shape (pre : Bytes) (l m l' m' : Bytes) (post post' : Bytes)
    (hl : l.length = l'.length) (hm : m.length = m'.length)
    (e : pre ++ (l ++ m ++ post) = pre ++ (l' ++ m' ++ post')) : l = l' ∧ m = m' ∧ post = post' := by
  have e1 := List.append_cancel_left e
  rw [List.append_assoc, List.append_assoc] at e1
  have := List.append_inj e1 hl
  have h2 := List.append_inj this.2 hm
  exact ⟨this.1, h2.1, h2.2⟩

/-- **The literal binding clause is false of the specification itself** (known finding
`C14-unframed-concatenation`): two different histories absorb the same stream. -/
theorem framing_collision :
    ∃ (a b : List (TrOp Unit Unit)), a ≠ b ∧
      absorbed (⟨fun _ => [], fun _ => [], fun _ => (), fun _ _ => true⟩ : Enc Unit Unit) a =
      absorbed (⟨fun _ => [], fun _ => [], fun _ => (), fun _ _ => true⟩ : Enc Unit Unit) b :=
  ⟨[.message [99] [97, 98]], [.message [98, 99] [97]], by simp, by simp [absorbed]⟩

/-! non-vacuity: a concrete history through both transcripts -/
example : (( Tr.new [1,2]).run (⟨fun _ => [7], fun (x : Nat) => [UInt8.ofNat x], fun s => s.length, fun _ _ => true⟩ : Enc Nat Unit)
    [.message [5] [6], .challenge [9], .scalar 3 [4], .challenge [9]]).1 = [5, 5] := by decide

end GoIpa.C14
