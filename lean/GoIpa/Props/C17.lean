/-
  C17 — base-field square root and point recovery.
  Kernel-checked facts about the constants of the table-driven algorithm and the structural
  specification of point recovery; the exhaustive behavioural tie (every 8-bit value of each
  discrete-log block, squares / non-squares) is the correspondence run against Tonelli–Shanks.
-/
import GoIpa.Model.Element
namespace GoIpa.C17
open GoIpa

/-- `p − 1 = Q · 2^32` with `Q` odd: the 2-adicity the algorithm is built on -/
theorem two_adicity : P - 1 = Qodd * 2 ^ 32 ∧ Qodd % 2 = 1 := by decide

/-- the hard-coded root of unity has exact order `2^32`: its `2^31`-th power is `−1` -/
theorem dyadicRoot_order : (dyadicRoots 31).val = P - 1 ∧ (dyadicRoots 32).val = 1 := by
  decide +kernel

/-- the reconstruction root has exact order `2^8` -/
theorem g8_order : (g8 ^ 128).val = P - 1 ∧ (g8 ^ 256).val = 1 := by decide +kernel

/-- **The 256 lookup keys (low 16 bits of the Montgomery limb) are pairwise distinct**, so the
table inverts `g₈^i ↦ −i mod 256` without collisions. -/
theorem lut_keys_distinct : (dlogLUT.map (·.1)).Nodup := by decide +kernel

theorem lut_values : dlogLUT.map (·.2) = (List.range 256).map fun i => (256 - i) % 256 := by
  decide +kernel

/-- the precomputed blocks are the powers the reconstruction uses: `blocks[i][j] = g^(j·2^(8i))` -/
theorem precompBlock_spec (i j : Nat) : precompBlock i j = (dyadicRoot ^ (2 ^ (8 * i))) ^ j := rfl

/-- **Point recovery picks the requested root.** Whatever root the square-root routine returns,
`computeY` hands back that root or its negation so that its sign matches the request (unless
the root is zero). -/
theorem computeY_sign (sqrt : Fp → Option Fp) (x y : Fp) (largest : Bool)
    (h : computeY sqrt x largest = some y) (hy : y.val ≠ 0) : Fp.lexLargest y = largest := by
  unfold computeY at h
  cases hs : sqrt ((bandersnatch.a * (x * x) - 1) / (bandersnatch.d * (x * x) - 1)) with
  | none => simp [hs] at h
  | some r =>
    simp only [hs] at h
    by_cases hl : Fp.lexLargest r = largest
    · simp only [hl, ↓reduceIte, Option.some.injEq] at h
      rw [← h]; exact hl
    · simp only [hl, ↓reduceIte, Option.some.injEq] at h
      have hyv : y.val = (P - r.val) % P := by rw [← h]; rfl
      have hrlt := r.lt
      have hr0 : r.val ≠ 0 := by
        intro h0; apply hy; rw [hyv, h0]; simp
      have hmod : (P - r.val) % P = P - r.val := Nat.mod_eq_of_lt (by omega)
      have hP : (P - 1) / 2 + (P - 1) / 2 + 1 = P := by decide
      unfold Fp.lexLargest at *
      rw [hyv, hmod]
      cases largest <;> simp only [decide_eq_true_eq, decide_eq_false_iff_not, Bool.not_eq_true] at hl ⊢ <;> omega

/-- recovery fails exactly when the square-root routine reports a non-residue -/
theorem computeY_none_iff (sqrt : Fp → Option Fp) (x : Fp) (largest : Bool) :
    computeY sqrt x largest = none ↔
      sqrt ((bandersnatch.a * (x * x) - 1) / (bandersnatch.d * (x * x) - 1)) = none := by
  unfold computeY
  cases hs : sqrt ((bandersnatch.a * (x * x) - 1) / (bandersnatch.d * (x * x) - 1)) with
  | none => simp [hs]
  | some r =>
    by_cases hl : Fp.lexLargest r = largest <;> simp [hs, hl]

/-- the zero input short-circuits to the root zero -/
theorem sqrtPrecomp_zero : Fp.sqrtPrecomp (0 : Fp) = some 0 := by
  unfold Fp.sqrtPrecomp
  have : (0 : Fp).val = 0 := by decide
  simp [this]

end GoIpa.C17
