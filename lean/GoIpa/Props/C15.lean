/-
  C15 — scalar-field arithmetic agrees with integer arithmetic modulo r.
  Limb-level theorems about the model of the portable Go code (`_addGeneric`, `_subGeneric`,
  `_negGeneric`, `_doubleGeneric`, `_reduceGeneric`): for all limb values, carries and borrows.
-/
import GoIpa.Model.FrLimbs
import GoIpa.Model.Field
import GoIpa.Lemmas.BatchInvert
namespace GoIpa.C15
open GoIpa GoIpa.Limbs

/-- the modulus as assembled from the limb constants of the code -/
theorem q_val : qL.val = R := by decide

theorem qInvNeg_spec : (q0 * qInvNeg) % W = W - 1 := by decide

/-- **`z < q` test.** The nested lexicographic comparison of the code decides `val z < r`. -/
theorem ltQ_iff (z : L4) (hz : z.ok) : ltQ z ↔ z.val < R := by
  obtain ⟨h0, h1, h2, h3⟩ := hz
  unfold ltQ L4.val R W q0 q1 q2 q3 at *
  omega

/-- **Conditional subtraction.** For every 4-limb value below `2r`, `_reduceGeneric` returns the
fully reduced representative. -/
theorem reduceG_correct (z : L4) (hz : z.ok) (h2r : z.val < 2 * R) :
    (reduceG z).ok ∧ (reduceG z).val = z.val % R ∧ (reduceG z).val < R := by
  unfold reduceG
  by_cases hlt : ltQ z
  · simp only [hlt, ↓reduceIte]
    have := (ltQ_iff z hz).mp hlt
    exact ⟨hz, (Nat.mod_eq_of_lt this).symm, this⟩
  · simp only [hlt, ↓reduceIte]
    have hge : R ≤ z.val := by
      have := (ltQ_iff z hz).not.mp hlt; omega
    obtain ⟨h0, h1, h2, h3⟩ := hz
    have hmod : z.val % R = z.val - R := by
      rw [Nat.mod_eq_sub_mod hge, Nat.mod_eq_of_lt (by omega)]
    rw [hmod]
    unfold subQ sub64 L4.ok L4.val R W q0 q1 q2 q3 at *
    simp only
    refine ⟨⟨Nat.mod_lt _ (by decide), Nat.mod_lt _ (by decide), Nat.mod_lt _ (by decide), Nat.mod_lt _ (by decide)⟩, ?_, ?_⟩
    all_goals (split <;> split <;> split <;> omega)

/-- the raw 4-limb carry chain of `_addGeneric` before the conditional subtraction -/
def addRaw (x y : L4) : L4 :=
  ⟨(add64 x.l0 y.l0 0).1,
   (add64 x.l1 y.l1 (add64 x.l0 y.l0 0).2).1,
   (add64 x.l2 y.l2 (add64 x.l1 y.l1 (add64 x.l0 y.l0 0).2).2).1,
   (add64 x.l3 y.l3 (add64 x.l2 y.l2 (add64 x.l1 y.l1 (add64 x.l0 y.l0 0).2).2).2).1⟩

theorem addG_eq (x y : L4) : addG x y = reduceG (addRaw x y) := rfl

theorem addRaw_correct (x y : L4) (hx : x.ok) (hy : y.ok) (hxr : x.val < R) (hyr : y.val < R) :
    (addRaw x y).ok ∧ (addRaw x y).val = x.val + y.val := by
  obtain ⟨a0, a1, a2, a3⟩ := hx
  obtain ⟨b0, b1, b2, b3⟩ := hy
  unfold addRaw add64 L4.ok L4.val R W at *
  simp only
  refine ⟨⟨Nat.mod_lt _ (by decide), Nat.mod_lt _ (by decide), Nat.mod_lt _ (by decide), Nat.mod_lt _ (by decide)⟩, ?_⟩
  omega

/-- **Addition.** For all reduced operands (every limb value, every carry pattern),
`_addGeneric` returns the fully reduced sum modulo `r`. -/
theorem addG_correct (x y : L4) (hx : x.ok) (hy : y.ok) (hxr : x.val < R) (hyr : y.val < R) :
    (addG x y).ok ∧ (addG x y).val = (x.val + y.val) % R ∧ (addG x y).val < R := by
  obtain ⟨hok, hval⟩ := addRaw_correct x y hx hy hxr hyr
  rw [addG_eq]
  have := reduceG_correct (addRaw x y) hok (by rw [hval]; omega)
  rw [hval] at this
  exact this

/-- **Doubling.** -/
theorem doubleG_correct (x : L4) (hx : x.ok) (hxr : x.val < R) :
    (doubleG x).ok ∧ (doubleG x).val = (2 * x.val) % R ∧ (doubleG x).val < R := by
  have := addG_correct x x hx hx hxr hxr
  rw [show x.val + x.val = 2 * x.val by omega] at this
  exact this

/-- the borrow chain of `_subGeneric`: limbs and final borrow -/
def subB0 (x y : L4) : Nat := (sub64 x.l0 y.l0 0).2
def subB1 (x y : L4) : Nat := (sub64 x.l1 y.l1 (subB0 x y)).2
def subB2 (x y : L4) : Nat := (sub64 x.l2 y.l2 (subB1 x y)).2
def subB3 (x y : L4) : Nat := (sub64 x.l3 y.l3 (subB2 x y)).2
def subRaw (x y : L4) : L4 :=
  ⟨(sub64 x.l0 y.l0 0).1, (sub64 x.l1 y.l1 (subB0 x y)).1, (sub64 x.l2 y.l2 (subB1 x y)).1,
   (sub64 x.l3 y.l3 (subB2 x y)).1⟩

/-- wrapping addition of `q` (the add-back of `_subGeneric`) -/
def addQw (z : L4) : L4 :=
  ⟨(add64 z.l0 q0 0).1,
   (add64 z.l1 q1 (add64 z.l0 q0 0).2).1,
   (add64 z.l2 q2 (add64 z.l1 q1 (add64 z.l0 q0 0).2).2).1,
   (add64 z.l3 q3 (add64 z.l2 q2 (add64 z.l1 q1 (add64 z.l0 q0 0).2).2).2).1⟩

theorem subG_eq (x y : L4) : subG x y = if subB3 x y ≠ 0 then addQw (subRaw x y) else subRaw x y := rfl

theorem subRaw_correct (x y : L4) (hx : x.ok) (hy : y.ok) :
    (subRaw x y).ok ∧ (subB3 x y = 0 ∨ subB3 x y = 1) ∧
      (subRaw x y).val + y.val = x.val + subB3 x y * (W * W * W * W) := by
  obtain ⟨a0, a1, a2, a3⟩ := hx
  obtain ⟨b0, b1, b2, b3⟩ := hy
  have h0 : subB0 x y = 0 ∨ subB0 x y = 1 := by unfold subB0 sub64; simp only; split <;> simp
  have h1 : subB1 x y = 0 ∨ subB1 x y = 1 := by unfold subB1 sub64; simp only; split <;> simp
  have h2 : subB2 x y = 0 ∨ subB2 x y = 1 := by unfold subB2 sub64; simp only; split <;> simp
  have h3 : subB3 x y = 0 ∨ subB3 x y = 1 := by unfold subB3 sub64; simp only; split <;> simp
  have e0 : (sub64 x.l0 y.l0 0).1 + y.l0 = x.l0 + subB0 x y * W := by
    unfold subB0 sub64 W at *; simp only; split <;> omega
  have e1 : (sub64 x.l1 y.l1 (subB0 x y)).1 + y.l1 + subB0 x y = x.l1 + subB1 x y * W := by
    unfold subB1; generalize subB0 x y = b at *; unfold sub64 W at *; simp only; split <;> omega
  have e2 : (sub64 x.l2 y.l2 (subB1 x y)).1 + y.l2 + subB1 x y = x.l2 + subB2 x y * W := by
    unfold subB2; generalize subB1 x y = b at *; unfold sub64 W at *; simp only; split <;> omega
  have e3 : (sub64 x.l3 y.l3 (subB2 x y)).1 + y.l3 + subB2 x y = x.l3 + subB3 x y * W := by
    unfold subB3; generalize subB2 x y = b at *; unfold sub64 W at *; simp only; split <;> omega
  refine ⟨⟨Nat.mod_lt _ (by decide), Nat.mod_lt _ (by decide), Nat.mod_lt _ (by decide), Nat.mod_lt _ (by decide)⟩, h3, ?_⟩
  unfold subRaw L4.val
  simp only
  generalize (sub64 x.l0 y.l0 0).1 = z0 at *
  generalize (sub64 x.l1 y.l1 (subB0 x y)).1 = z1 at *
  generalize (sub64 x.l2 y.l2 (subB1 x y)).1 = z2 at *
  generalize (sub64 x.l3 y.l3 (subB2 x y)).1 = z3 at *
  generalize subB0 x y = c0 at *
  generalize subB1 x y = c1 at *
  generalize subB2 x y = c2 at *
  generalize subB3 x y = c3 at *
  unfold W at *
  omega

theorem addQw_correct (z : L4) (hz : z.ok) :
    (addQw z).ok ∧ (addQw z).val = (z.val + R) % (W * W * W * W) := by
  obtain ⟨a0, a1, a2, a3⟩ := hz
  unfold addQw add64 L4.ok L4.val R W q0 q1 q2 q3 at *
  simp only
  refine ⟨⟨Nat.mod_lt _ (by decide), Nat.mod_lt _ (by decide), Nat.mod_lt _ (by decide), Nat.mod_lt _ (by decide)⟩, ?_⟩
  omega

/-- **Subtraction.** `_subGeneric` returns `x − y mod r`, adding `q` back exactly when the
4-limb subtraction borrows. -/
theorem subG_correct (x y : L4) (hx : x.ok) (hy : y.ok) (hxr : x.val < R) (hyr : y.val < R) :
    (subG x y).ok ∧ (subG x y).val = (x.val + R - y.val) % R ∧ (subG x y).val < R := by
  obtain ⟨hok, hb, hval⟩ := subRaw_correct x y hx hy
  rw [subG_eq]
  rcases hb with hb | hb
  · -- no borrow: y ≤ x
    simp only [hb, ne_eq, not_true_eq_false, ↓reduceIte]
    rw [hb] at hval
    have hv : (subRaw x y).val = x.val - y.val := by omega
    have hle : y.val ≤ x.val := by omega
    have hmod : (x.val + R - y.val) % R = x.val - y.val := by
      have : x.val + R - y.val = (x.val - y.val) + R := by omega
      rw [this, Nat.add_mod_right, Nat.mod_eq_of_lt (by omega)]
    rw [hmod, hv]
    exact ⟨hok, rfl, by omega⟩
  · simp only [hb, ne_eq, one_ne_zero, not_false_eq_true, ↓reduceIte]
    rw [hb] at hval
    obtain ⟨hok2, hv2⟩ := addQw_correct (subRaw x y) hok
    have hlt : x.val < y.val := by
      have : (subRaw x y).val < W * W * W * W := by
        obtain ⟨c0, c1, c2, c3⟩ := hok
        unfold L4.val W at *; omega
      omega
    have hmod : (x.val + R - y.val) % R = x.val + R - y.val := Nat.mod_eq_of_lt (by omega)
    have hW : R < W * W * W * W := by decide
    have : (subRaw x y).val + R = (x.val + R - y.val) + W * W * W * W := by omega
    rw [hmod, hv2, this, Nat.add_mod_right, Nat.mod_eq_of_lt (by omega)]
    exact ⟨hok2, rfl, by omega⟩

/-- **Negation.** `_negGeneric` returns `r − x` (and `0` for `0`). -/
theorem negG_correct (x : L4) (hx : x.ok) (hxr : x.val < R) :
    (negG x).ok ∧ (negG x).val = (R - x.val) % R ∧ (negG x).val < R := by
  obtain ⟨a0, a1, a2, a3⟩ := hx
  unfold negG
  by_cases hz : x.l0 = 0 ∧ x.l1 = 0 ∧ x.l2 = 0 ∧ x.l3 = 0
  · simp only [hz, and_self, ↓reduceIte]
    have : x.val = 0 := by unfold L4.val; simp [hz.1, hz.2.1, hz.2.2.1, hz.2.2.2]
    rw [this]
    refine ⟨by unfold L4.ok W; simp, by simp [L4.val], by unfold L4.val R; simp⟩
  · simp only [hz, ↓reduceIte]
    have hpos : 0 < x.val := by
      unfold L4.val W
      by_contra h
      apply hz
      omega
    have hmod : (R - x.val) % R = R - x.val := Nat.mod_eq_of_lt (by omega)
    rw [hmod]
    have key := subRaw_correct qL x (by unfold L4.ok qL W q0 q1 q2 q3; decide) ⟨a0, a1, a2, a3⟩
    obtain ⟨hok, hb, hval⟩ := key
    have hq : qL.val = R := q_val
    have hsame : (⟨(sub64 q0 x.l0 0).1, (sub64 q1 x.l1 (sub64 q0 x.l0 0).2).1,
        (sub64 q2 x.l2 (sub64 q1 x.l1 (sub64 q0 x.l0 0).2).2).1,
        (sub64 q3 x.l3 (sub64 q2 x.l2 (sub64 q1 x.l1 (sub64 q0 x.l0 0).2).2).2).1⟩ : L4) = subRaw qL x := rfl
    show (⟨_, _, _, _⟩ : L4).ok ∧ _
    rw [hsame]
    have hnb : subB3 qL x = 0 := by
      rcases hb with h | h
      · exact h
      · rw [h, hq] at hval
        have : (subRaw qL x).val < W * W * W * W := by
          obtain ⟨c0, c1, c2, c3⟩ := hok
          unfold L4.val W at *; omega
        have hW : R < W * W * W * W := by decide
        omega
    rw [hnb, hq] at hval
    exact ⟨hok, by omega, by omega⟩

end GoIpa.C15
