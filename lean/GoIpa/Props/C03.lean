/-
  C03 — proof bytes are a deterministic function of the inputs: independent of the number of
  workers, of the order in which their partial results arrive, and of the arrival order of
  the MSM's partial sums.  (Byte-for-byte conformance with the specification is the
  correspondence run: the model reproduces the published cross-implementation vectors.)
-/
import Mathlib.Algebra.Module.Basic
import GoIpa.Lemmas.Vec
import GoIpa.Lemmas.Grouping
import GoIpa.Props.C12
namespace GoIpa.C03
open GoIpa

variable {F G : Type} [Field F] [DecidableEq F] [AddCommGroup G] [Module F G]
variable (enc : Enc F G)

/-- **Worker-count and schedule independence of the prover.** For every pair of worker counts
`w₁, w₂ ≥ 1` and arrival orders (permutations of the workers), `CreateMultiProof` returns the
same proof and leaves the same transcript — for every statement whose evaluation points are in
the domain and whose polynomials have the domain's length. -/
theorem create_worker_invariant (cfg : IpaCfg F G) (tr : Tr) (Cs : List G) (fs : List (List F)) (zs : List Nat)
    (hgood : Grouping.Good cfg.N fs zs (List.range fs.length))
    (w1 w2 : Nat) (h1 : 1 ≤ w1) (h2 : 1 ≤ w2) (o1 o2 : List Nat)
    (p1 : o1.Perm (List.range w1)) (p2 : o2.Perm (List.range w2)) :
    mpProve enc cfg tr Cs fs zs w1 o1 = mpProve enc cfg tr Cs fs zs w2 o2 := by
  unfold mpProve
  simp only [Grouping.group_worker_invariant cfg.N fs _ zs hgood w1 w2 h1 h2 o1 o2 p1 p2]

/-- the default single-worker run is therefore what every configuration computes -/
theorem create_eq_sequential (cfg : IpaCfg F G) (tr : Tr) (Cs : List G) (fs : List (List F)) (zs : List Nat)
    (hgood : Grouping.Good cfg.N fs zs (List.range fs.length)) (w : Nat) (hw : 1 ≤ w) (o : List Nat)
    (p : o.Perm (List.range w)) :
    mpProve enc cfg tr Cs fs zs w o = mpProve enc cfg tr Cs fs zs 1 [0] :=
  create_worker_invariant enc cfg tr Cs fs zs hgood w 1 hw (le_refl 1) o [0] p (by simp [List.range_succ])

/-- **Determinism**: prover and verifier of the model are functions — equal inputs give equal
proofs, decisions and transcripts (no hidden state, no dependence on earlier calls). -/
theorem create_deterministic (cfg : IpaCfg F G) (tr tr' : Tr) (Cs Cs' : List G) (fs fs' : List (List F)) (zs zs' : List Nat)
    (ht : tr = tr') (hc : Cs = Cs') (hf : fs = fs') (hz : zs = zs') :
    mpProve enc cfg tr Cs fs zs = mpProve enc cfg tr' Cs' fs' zs' := by
  subst ht hc hf hz; rfl

/-- the partial sums of a split MSM may be added in any arrival order -/
theorem msm_arrival_order (init : G) (parts : Nat → G) (o1 o2 : List Nat) (hp : o1.Perm o2) :
    o1.foldl (fun acc i => acc + parts i) init = o2.foldl (fun acc i => acc + parts i) init :=
  C12.merge_order_independent init parts o1 o2 hp

/-- **The rounds are the specification's**: `L = ⟨a_R, G_L⟩ + ⟨a_R, b_L⟩ • q`,
`R = ⟨a_L, G_R⟩ + ⟨a_L, b_R⟩ • q`, then fold `a` by `x`, `b` and `G` by `x⁻¹`. -/
theorem round_shape (q : G) (n : Nat) (tr : Tr) (a b : List F) (g : List G) :
    (ipaRounds enc q (n + 1) tr a b g).1.head? =
      some (msm (g.take (a.length / 2)) (a.drop (a.length / 2)) +
        innerProd (a.drop (a.length / 2)) (b.take (a.length / 2)) • q) ∧
    (ipaRounds enc q (n + 1) tr a b g).2.1.head? =
      some (msm (g.drop (a.length / 2)) (a.take (a.length / 2)) +
        innerProd (a.take (a.length / 2)) (b.drop (a.length / 2)) • q) := by
  rw [ipaRounds]
  simp

end GoIpa.C03
