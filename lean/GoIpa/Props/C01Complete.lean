/-
  C01 — multiproof completeness, end to end: for every honest statement the proof returned by
  `CreateMultiProof` is accepted by `CheckMultiProof`, for every worker count and arrival order
  of the grouping step, and both parties end in the same transcript state.
-/
import GoIpa.Lemmas.MpVerifier
import GoIpa.Props.C04
namespace GoIpa.C01
open GoIpa GoIpa.Grouping GoIpa.Mp

variable {F G : Type} [Field F] [DecidableEq F] [AddCommGroup G] [Module F G]
variable (enc : Enc F G)

/-- an honest statement: as many evaluation indices as polynomials, at least one, every
polynomial of length `N`, every index inside the domain -/
structure Honest (cfg : IpaCfg F G) (fs : List (List F)) (zs : List Nat) : Prop where
  len : fs.length = zs.length
  nonempty : fs.length ≠ 0
  polys : ∀ f ∈ fs, f.length = cfg.N
  points : ∀ z ∈ zs, z < cfg.N

theorem Honest.good {cfg : IpaCfg F G} {fs : List (List F)} {zs : List Nat} (h : Honest cfg fs zs) :
    Good cfg.N fs zs (List.range fs.length) := by
  intro i hi
  have hi' : i < fs.length := List.mem_range.mp hi
  have hz : i < zs.length := by rw [← h.len]; exact hi'
  constructor
  · rw [List.getD_eq_getElem?_getD, List.getElem?_eq_getElem hz]
    exact h.points _ (List.getElem_mem hz)
  · rw [List.getD_eq_getElem?_getD, List.getElem?_eq_getElem hi']
    exact h.polys _ (List.getElem_mem hi')

/-- **Completeness of the multiproof.**  For every field `F` in which the domain points are
distinct, every `F`-module `G`, every hash/encoder with a reflexive point equality, every
configuration with `N = 2^k` basis points, every honest statement `(fᵢ, zᵢ)` with commitments
`Cᵢ = Σⱼ fᵢ[j]·Gⱼ` and values `yᵢ = fᵢ[zᵢ]`, every worker count `w ≥ 1` and every order in which
the workers' tables are merged: if the challenge `t` is not one of the opened points and no
folding challenge is zero, then `CreateMultiProof` returns a proof, `CheckMultiProof` accepts it
with no error, and prover and verifier end in the same transcript state. -/
theorem multiproof_complete (cfg : IpaCfg F G) (hc : CfgOk cfg) (hrefl : ∀ p : G, enc.eqG p p = true)
    (tr : Tr) (fs : List (List F)) (zs : List Nat) (hon : Honest cfg fs zs)
    (w : Nat) (hw : 1 ≤ w) (order : List Nat) (hperm : order.Perm (List.range w)) :
    let Cs := fs.map (msm cfg.srs)
    let s := proverState enc cfg tr Cs fs zs w order
    (∀ i, i < fs.length → s.t ≠ ((zs.getD i 0 : Nat) : F)) →
    (∀ x ∈ C04.honestChallenges enc cfg s.tr (s.E - s.D) (List.zipWith (· - ·) s.h s.g) s.t, x ≠ 0) →
    ∃ proof, (mpProve enc cfg tr Cs fs zs w order).1 = some proof ∧
      mpVerify enc cfg tr proof Cs (honestYs fs zs) zs
        = (.ok true, (mpProve enc cfg tr Cs fs zs w order).2) := by
  intro Cs s ht hch
  have hCl : Cs.length = fs.length := by simp [Cs]
  have hyl : (honestYs fs zs).length = fs.length := by simp [honestYs, hon.len]
  set rc := (absorbStmt enc tr Cs (honestYs fs zs) zs).challenge enc Label.r with hrc
  set pows := powersOf rc.1 Cs.length with hpows
  have hpl : pows.length = fs.length := by rw [hpows, powersOf_length, hCl]
  have hgood := hon.good
  -- the two accumulated vectors
  have hglen : s.g.length = cfg.N := by
    refine (sumVecs_spec cfg.N _ ?_).1
    intro v hv
    obtain ⟨e, _, rfl⟩ := List.mem_map.mp hv
    exact divide_length _ _ _ _
  have hh : s.h = lincomb cfg.N (mpScalars pows zs s.t) fs :=
    h_eq_lincomb cfg fs pows zs hon.len hpl hgood w hw order hperm s.t
  have hhlen : s.h.length = cfg.N := by rw [hh]; exact (lincomb_spec cfg.N _ fs hon.polys).1
  -- E as the verifier computes it
  have hE : s.E = msm Cs (mpScalars pows zs s.t) := by
    show msm cfg.srs s.h = _
    rw [hh, msm_lincomb cfg.N cfg.srs _ fs hon.polys]
  -- the commitment of the inner-product argument
  have hcomm : s.E - s.D = msm cfg.srs (List.zipWith (· - ·) s.h s.g) := by
    rw [msm_subVec cfg.srs s.h s.g (by rw [hhlen, hglen])]; rfl
  -- the value of the inner-product argument
  have hval : innerProd (List.zipWith (· - ·) s.h s.g) (bVector cfg s.t)
      = ((List.range fs.length).map fun i =>
          (s.t - ((zs.getD i 0 : Nat) : F))⁻¹ * (pows.getD i 0 * (fs.getD i []).getD (zs.getD i 0) 0)).sum :=
    ev_h_minus_g cfg hc fs pows zs hon.len hpl hgood w hw order hperm s.t ht
  -- the inner-product argument
  have hsrs : cfg.srs.length = 2 ^ cfg.rounds := by rw [hc.srs_len, hc.pow]
  obtain ⟨ip, hip1, hip2⟩ := C04.ipa_complete enc cfg s.tr (List.zipWith (· - ·) s.h s.g) s.t hsrs
    (by rw [List.length_zipWith, hhlen, hglen, Nat.min_self, hc.pow])
    (by rw [bVector_length cfg hc, hc.pow]) hrefl (s.E - s.D) hcomm hch
  refine ⟨⟨ip, s.D⟩, ?_, ?_⟩
  · rw [mpProve_eq]
    show Option.map _ (ipaProve enc cfg s.tr (s.E - s.D) (List.zipWith (· - ·) s.h s.g) s.t).1 = _
    rw [hip1]; rfl
  · rw [mpProve_eq]
    show _ = (Except.ok true, (ipaProve enc cfg s.tr (s.E - s.D) (List.zipWith (· - ·) s.h s.g) s.t).2)
    rw [← hip2, hval]
    unfold mpVerify
    have h1 : ¬ Cs.length ≠ (honestYs fs zs).length := by rw [hCl, hyl]; simp
    have h2 : ¬ Cs.length ≠ zs.length := by rw [hCl, hon.len]; simp
    have h3 : ¬ Cs.length = 0 := by rw [hCl]; exact hon.nonempty
    simp only [h1, h2, h3, ↓reduceIte]
    have hg2 := verifier_g2 cfg.N fs pows zs s.t hon.len hpl hon.points
    have hsc := verifier_scalars cfg.N pows zs s.t hon.points
    unfold groupedEvals at hg2
    have hEq : msm Cs (mpScalars pows zs s.t) = s.E := hE.symm
    show ipaVerify enc cfg
        (Tr.appendPoint enc ((rc.2.appendPoint enc s.D Label.D).challenge enc Label.t).2
          (msm Cs (List.zipWith (fun (p : F) (z : Nat) =>
            p * (batchInvert ((List.range cfg.N).map fun (i : Nat) => s.t - (i : F))).getD z 0) pows zs)) Label.E)
        (msm Cs (List.zipWith (fun (p : F) (z : Nat) =>
            p * (batchInvert ((List.range cfg.N).map fun (i : Nat) => s.t - (i : F))).getD z 0) pows zs) - s.D)
        ip s.t
        ((List.zip (List.foldl (fun (ge : List F) (e : F × F × Nat) => ge.set e.2.2 (ge.getD e.2.2 0 + e.1 * e.2.1))
            (List.replicate cfg.N 0) (List.zip pows (List.zip (honestYs fs zs) zs)))
          (batchInvert ((List.range cfg.N).map fun (i : Nat) => s.t - (i : F)))).foldl
          (fun (acc : F) (e : F × F) => if e.1 = 0 then acc else acc + e.1 * e.2) 0)
      = _
    rw [hsc, hg2, hEq]
    rfl
